#!/usr/bin/env python3
"""Regenerates MANIFEST.json from checks.json (single source of truth for the per-property metadata)."""
import json, os
V = os.path.dirname(os.path.abspath(__file__))
import importlib.machinery, importlib.util
_l = importlib.machinery.SourceFileLoader("check", os.path.join(V, "check"))
_s = importlib.util.spec_from_loader("check", _l); _m = importlib.util.module_from_spec(_s); _l.exec_module(_m)
cfg = _m.load_cfg()
props = [json.loads(l) for l in open(os.path.join(V, "properties.jsonl")) if l.strip()]
checks, na = [], []
for p in props:
    pid = p["id"]
    c = cfg["properties"].get(pid)
    if not c or not c.get("claimed"):
        na.append({"property_id": pid, "reason": (c or {}).get("unclaimed", "check not built yet (work in progress; see DESIGN.md section 3)")})
        continue
    checks.append({
        "property_id": pid,
        "quick_cmd": "./check %s --tier quick" % pid,
        "thorough_cmd": "./check %s --tier thorough" % pid,
        "evidence_file": "evidence/%s.json" % pid,
        "replay_cmd_template": "./check %s --replay {path}" % pid,
        "engine": "rapid-harness",
        "level_claimed": {"category": c["level"], "text": c["level_text"], "design_ref": "DESIGN.md section 3, " + pid},
        "level_note": c["level_note"],
        "technique": c["technique"],
    })
m = {
    "version": 1,
    "setup_cmd": "./check --setup",
    "hooks": {
        "guard": "verif",
        "enable": "go test -tags verif -vet=off -overlay build/<tag>/overlay.json (export shims kept in /verif/overlay are injected as new files zz_verif_*.go; nothing is committed to /repo)",
        "baseline_off_cmd": "cd /repo && go test -json -vet=off -count=1 -timeout 25m ./...",
        "source_commits": [],
        "add_only": True,
    },
    "engines": [{"name": "rapid-harness", "path": "harness/", "serves_properties": [c["property_id"] for c in checks],
                 "kind_free_text": "pgregory.net/rapid v1.3.0 property-based / stateful tests and native go fuzz targets in a separate Go module (replace => /repo), driven and sharded by ./check"}],
    "checks": checks,
    "notes": cfg.get("notes", ""),
    "not_applicable": na,
}
json.dump(m, open(os.path.join(V, "MANIFEST.json"), "w"), indent=1)
print("MANIFEST.json: %d checks, %d not claimed" % (len(checks), len(na)))
