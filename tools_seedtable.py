#!/usr/bin/env python3
"""Regenerates the seeded-changes table of DESIGN.md (between the seeded-table markers) from seeded/*/meta.json."""
import json, glob, os, re
rows = []
for d in sorted(glob.glob('/verif/seeded/*/')):
    mp = os.path.join(d, 'meta.json')
    if not os.path.exists(mp):
        continue
    m = json.load(open(mp))
    runs = m.get('check_runs', [])
    det = [r for r in runs if r.get('detected')]
    last = runs[-1] if runs else {}
    if last.get('detected'):
        tier = last.get('tier', 'quick')
        missed_before = any(not r.get('detected') for r in runs[:-1])
        res = tier + (' (after strengthening)' if missed_before else '')
    elif m.get('outside_property'):
        res = 'outside the property as quantified'
    elif m.get('superseded_by_fix'):
        res = ('was caught (%s); ' % det[0]['tier'] if det else '') + 'no longer a violation on HEAD: superseded by fix ' + m['superseded_by_fix']
    elif m.get('detected_by_other_check'):
        res = "NOT by this check; caught by %s's check" % m['detected_by_other_check']
    elif m.get('outside_covered_scope'):
        res = 'NOT caught: outside the scope the check covers'
    elif det:
        res = 'caught in %d of %d recorded runs, MISSED in the latest' % (len(det), len(runs))
    else:
        res = 'NOT caught'
    if m.get('note'):
        res += ' — ' + m['note']
    cell = lambda s: (s or '').replace('|', '\\|').replace('\n', ' ')
    rows.append('| %s | %s | %s | %s |' % (os.path.basename(d.rstrip('/')), cell(m.get('breaks')), cell(m.get('needs_to_manifest')), res))
table = '| id | change | needs | caught by the property\'s check |\n|---|---|---|---|\n' + '\n'.join(rows) + '\n'
p = '/verif/DESIGN.md'
s = open(p).read()
b, e = '<!-- seeded-table-begin -->\n', '<!-- seeded-table-end -->\n'
if b in s:
    s = s[:s.index(b) + len(b)] + table + s[s.index(e):]
else:
    s = re.sub(r"\| id \| change \| needs \| caught by the property's check \|\n(\|.*\n)+", b + table + e, s, count=1)
open(p, 'w').write(s)
print(len(rows), 'rows')
