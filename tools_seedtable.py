#!/usr/bin/env python3
"""Regenerates the seeded-changes table of DESIGN.md (between the seeded-table markers) from seeded/*/meta.json."""
import json, glob, os, re
rows = []
for d in sorted(glob.glob('/verif/seeded/*/')):
    mp = os.path.join(d, 'meta.json')
    if not os.path.exists(mp):
        continue
    m = json.load(open(mp))
    runs = m.get('check_runs', [])
    det = [r for r in runs if r.get('detected')]
    if det:
        tiers = [r['tier'] for r in det]
        tier = 'quick' if 'quick' in tiers else tiers[0]
        missed_before = any(not r.get('detected') for r in runs[:runs.index(det[0])])
        res = tier + (' (after strengthening)' if missed_before else '')
    else:
        res = 'outside the property as quantified' if m.get('outside_property') else 'NOT by this check'
    if m.get('note'):
        res += ' — ' + m['note']
    cell = lambda s: (s or '').replace('|', '\\|').replace('\n', ' ')
    rows.append('| %s | %s | %s | %s |' % (os.path.basename(d.rstrip('/')), cell(m.get('breaks')), cell(m.get('needs_to_manifest')), res))
table = '| id | change | needs | caught by the property\'s check |\n|---|---|---|---|\n' + '\n'.join(rows) + '\n'
p = '/verif/DESIGN.md'
s = open(p).read()
b, e = '<!-- seeded-table-begin -->\n', '<!-- seeded-table-end -->\n'
if b in s:
    s = s[:s.index(b) + len(b)] + table + s[s.index(e):]
else:
    s = re.sub(r"\| id \| change \| needs \| caught by the property's check \|\n(\|.*\n)+", b + table + e, s, count=1)
open(p, 'w').write(s)
print(len(rows), 'rows')
