#!/bin/bash
# usage: tools_mutant.sh <PROP> <name> <file> <python-regex> <replacement> [count]
# Applies a one-regex mutation to a scratch worktree of /repo, runs the quick check against it, removes the worktree.
set -u
PROP=$1; NAME=$2; FILE=$3; PAT=$4; REP=$5; CNT=${6:-1}
WT=/tmp/mut-$PROP-$NAME
git -C /repo worktree remove --force $WT >/dev/null 2>&1
git -C /repo worktree add --detach $WT HEAD >/dev/null 2>&1 || { echo "worktree failed"; exit 2; }
python3 - "$WT/$FILE" "$PAT" "$REP" "$CNT" <<'PY'
import re,sys
p,pat,rep,cnt=sys.argv[1],sys.argv[2],sys.argv[3].replace("\\&","&"),int(sys.argv[4])
s=open(p).read()
n,k=re.subn(pat,rep,s,count=cnt,flags=re.S)
if k==0: print("MUTATION DID NOT APPLY"); sys.exit(3)
open(p,'w').write(n)
PY
[ $? -ne 0 ] && { git -C /repo worktree remove --force $WT; exit 3; }
(cd $WT && git diff --stat | tail -1)
VERIF_REPO=$WT VERIF_OUT=/tmp/mutout-$PROP-$NAME ${TIER_ENV:-} /verif/check $PROP --tier ${TIER:-quick} 2>&1 | grep -E "VIOLATION|KNOWN|INCONCLUSIVE|BUILD-FAILED|tier=" | head -5
rc=${PIPESTATUS[0]}
git -C /repo worktree remove --force $WT
ALT=alt-$(python3 -c "import hashlib,sys;print(hashlib.sha1(sys.argv[1].encode()).hexdigest()[:10])" $WT)
rm -rf /tmp/mutout-$PROP-$NAME /verif/build/$ALT
echo "mutant $PROP/$NAME rc=$rc"
