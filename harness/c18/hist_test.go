package c18

// hist: one generated history of saves and prunes on a pair of journalled databases, with the live checks after every
// operation and the enumeration of all crash points afterwards.

import (
	"bytes"
	"fmt"
	"strings"

	"github.com/tendermint/tendermint/libs/log"
	mpmock "github.com/tendermint/tendermint/mempool/mock"
	sm "github.com/tendermint/tendermint/state"
	"github.com/tendermint/tendermint/store"
	"github.com/tendermint/tendermint/types"

	"verif/lib"
)

const (
	blockName = "blockstore"
	stateName = "state"
	// known-finding id of the candidate defect (see MUTANTS.md / fixes/C18-prune-intermediate-base.patch)
	knownID = "C18-prune-intermediate-base"
	// known-finding id: state.Rollback rewrites the validators record of height n+1 as a pointer to a height without a set
	knownRollbackID = "C18-rollback-validator-index"
)

type fataler interface {
	Fatalf(format string, args ...interface{})
	Logf(format string, args ...interface{})
}

type opRec struct {
	Kind         string // genesis | save | prune | prune-skip | prune-direct-base | prune-too-high
	Start, End   int    // journal entries [Start, End)
	BaseBefore   int64
	HeightBefore int64
	BaseAfter    int64
	HeightAfter  int64
	Retain       int64 // prune target (0 for saves)
	H            int64 // height saved
	Crashed      bool
}

// crashSpec: arm a crash at the K-th journal entry (relative to the start of the guarded section).
type crashSpec struct {
	K     int
	After bool
}

func (cs *crashSpec) String() string {
	if cs == nil {
		return "no"
	}
	if cs.After {
		return fmt.Sprintf("after-entry+%d", cs.K)
	}
	return fmt.Sprintf("before-entry+%d", cs.K)
}

type rollbackRec struct {
	n int   // journal length when state.Rollback was called
	h int64 // height of the state that was rolled back (the block store's tip)
}

type hist struct {
	t       fataler
	test    string
	j       *lib.CrashJournal
	bdb     *lib.CrashDB
	sdb     *lib.CrashDB
	c       *lib.Chain
	tr      *truth
	initial int64
	ops     []opRec
	log     []string

	bigPruneFrom int   // journal index at which the first prune over >= 1000 heights started (-1: none)
	maxRetain    int64 // largest retain height handed to PruneBlocks so far
	retainAt     []struct {
		n int
		r int64
	}
	crashes     int
	halted      bool          // no further operations (set when a listed known finding left the stores unusable)
	rollbackAt  []rollbackRec // rollbacks performed: journal index at which each started, and the height rolled back
	knownSeen   int
	interFlush  []int // per executed PruneBlocks: range-descriptor writes seen in the journal (>= 2: an intermediate flush ran)
	plainRun    int
	plainFrom   int64
	fullLiveMax int64 // live audits cover the whole range up to this many heights, else windows
}

func newHist(t fataler, test string, initial int64, keys []int, powers []int64, split bool) *hist {
	hs := &hist{t: t, test: test, initial: initial, bigPruneFrom: -1, fullLiveMax: 48}
	hs.j = lib.NewCrashJournal()
	hs.j.SplitBatches(split)
	hs.bdb = hs.j.NewDB(blockName)
	hs.sdb = hs.j.NewDB(stateName)
	hs.j.SetTag("genesis")
	c, err := lib.NewChain(lib.ChainSpec{InitialHeight: initial, Keys: keys, Powers: powers, BlockDB: hs.bdb, StateDB: hs.sdb})
	if err != nil {
		t.Fatalf("NewChain: %v", err)
	}
	hs.c = c
	hs.tr = newTruth(c)
	hs.ops = append(hs.ops, opRec{Kind: "genesis", Start: 0, End: hs.j.Len()})
	hs.logf("genesis initial=%d vals=%v powers=%v split=%v", initial, keys, powers, split)
	return hs
}

// newSyncedHist: a history that starts from a STATE-SYNCED pair of stores instead of genesis. A source chain is grown
// (by the caller, on plain databases) to the snapshot height S; the node's state is assembled the way
// statesync/stateprovider.go State() does it from the verified light blocks S, S+1, S+2 (= the source's state after S
// with LastHeightValidatorsChanged = S+2 and LastHeightConsensusParamsChanged = S+1) and handed to the stores as
// node.go startStateSync does: stateStore.Bootstrap(state), blockStore.SaveSeenCommit(S, commit for S). The
// application is the source's (at height S, as restored from the snapshot). The node then continues the chain: the
// first block it saves is S+1, which becomes the base of its block store.
func newSyncedHist(t fataler, test string, initial int64, keys []int, powers []int64, split bool, grow func(src *lib.Chain)) *hist {
	src, err := lib.NewChain(lib.ChainSpec{InitialHeight: initial, Keys: keys, Powers: powers})
	if err != nil {
		t.Fatalf("NewChain: %v", err)
	}
	grow(src)
	S := src.Tip()
	if S < initial {
		src.Close()
		t.Fatalf("harness: the source chain has no block to snapshot")
	}
	hs := &hist{t: t, test: test, initial: S + 1, bigPruneFrom: -1, fullLiveMax: 48}
	hs.j = lib.NewCrashJournal()
	hs.j.SplitBatches(split)
	hs.bdb = hs.j.NewDB(blockName)
	hs.sdb = hs.j.NewDB(stateName)
	hs.j.SetTag("bootstrap")
	st := src.States[S].Copy()
	st.LastHeightValidatorsChanged = S + 2
	st.LastHeightConsensusParamsChanged = S + 1
	ss := sm.NewStore(hs.sdb, sm.StoreOptions{})
	if err := ss.Bootstrap(st); err != nil {
		src.Close()
		t.Fatalf("Bootstrap: %v", err)
	}
	bs := store.NewBlockStore(hs.bdb)
	if err := bs.SaveSeenCommit(S, src.Commits[S]); err != nil {
		src.Close()
		t.Fatalf("SaveSeenCommit: %v", err)
	}
	c := *src // blocks, ids, commits, states of the heights up to S stay on record; the node extends them
	c.BlockDB, c.StateDB, c.BlockStore, c.StateStore, c.State = hs.bdb, hs.sdb, bs, ss, st
	c.Exec = sm.NewBlockExecutor(ss, log.NewNopLogger(), src.Proxy.Consensus(), mpmock.Mempool{}, sm.EmptyEvidencePool{})
	hs.c = &c
	hs.tr = newTruth(hs.c)
	hs.ops = append(hs.ops, opRec{Kind: "bootstrap", Start: 0, End: hs.j.Len()})
	hs.logf("state-synced start: source chain initial=%d vals=%v powers=%v grown to snapshot height %d; Bootstrap + SaveSeenCommit(%d); split=%v", initial, keys, powers, S, S, split)
	return hs
}

func (hs *hist) close() { hs.c.Close() }

func (hs *hist) logf(format string, args ...interface{}) {
	hs.plainRun = 0
	hs.log = append(hs.log, fmt.Sprintf("[j=%d] ", hs.j.Len())+fmt.Sprintf(format, args...))
}

// logPlainSave collapses runs of empty-block saves into one line.
func (hs *hist) logPlainSave(h int64) {
	if hs.plainRun > 0 && len(hs.log) > 0 {
		hs.log[len(hs.log)-1] = fmt.Sprintf("[j<=%d] save h=%d..%d (empty blocks, no changes)", hs.j.Len(), hs.plainFrom, h)
		hs.plainRun++
		return
	}
	hs.plainRun, hs.plainFrom = 1, h
	hs.log = append(hs.log, fmt.Sprintf("[j=%d] save h=%d (empty block, no changes)", hs.j.Len(), h))
}

func (hs *hist) failf(format string, args ...interface{}) {
	l := hs.log
	if len(l) > 60 {
		l = append([]string{"..."}, l[len(l)-60:]...)
	}
	hs.t.Fatalf("%s\nhistory:\n  %s", fmt.Sprintf(format, args...), strings.Join(l, "\n  "))
}

// crashy runs fn; a simulated crash is caught (any other panic propagates).
func (hs *hist) crashy(fn func()) (crashed bool) {
	defer func() {
		if r := recover(); r != nil {
			if _, ok := lib.IsCrashPanic(r); ok {
				crashed = true
				return
			}
			panic(r)
		}
	}()
	fn()
	return false
}

func (hs *hist) arm(cs *crashSpec) {
	if cs == nil {
		return
	}
	if cs.After {
		hs.j.CrashAfter(hs.j.Len() + cs.K)
	} else {
		hs.j.CrashBefore(hs.j.Len() + cs.K)
	}
}

// restart: what a node does with its databases after a crash — reopen the stores.
func (hs *hist) restart() {
	hs.j.Revive()
	hs.c.BlockStore = store.NewBlockStore(hs.bdb)
	hs.c.StateStore = sm.NewStore(hs.sdb, sm.StoreOptions{})
	hs.crashes++
}

// matchesKnown: the signature of C18-prune-intermediate-base — after a prune over 1000 or more heights started,
// the only unmet facts are the block and the commit AT the published base, and that base lies below a retain height
// that was requested (an intermediate base, never the final one).
func (hs *hist) matchesKnown(n int, sp span, fails []failure) bool {
	if hs.bigPruneFrom < 0 || n <= hs.bigPruneFrom || len(fails) == 0 {
		return false
	}
	var maxR int64
	for _, ra := range hs.retainAt {
		if ra.n < n && ra.r > maxR {
			maxR = ra.r
		}
	}
	if sp.base >= maxR {
		return false
	}
	for _, f := range fails {
		if f.f.h != sp.base || (f.f.k != fBlock && f.f.k != fCommit) {
			return false
		}
	}
	return true
}

// matchesKnownRollback: the signature of C18-rollback-validator-index — a state.Rollback of height h has started
// and the only unmet facts are validator sets of heights above h.
func (hs *hist) matchesKnownRollback(n int, fails []failure) bool {
	var h int64 = -1
	for _, r := range hs.rollbackAt {
		if r.n < n && (h < 0 || r.h < h) {
			h = r.h
		}
	}
	if h < 0 || len(fails) == 0 {
		return false
	}
	for _, f := range fails {
		if f.f.k != fVals || f.f.h <= h {
			return false
		}
	}
	return true
}

// verdict turns audit failures into a test failure unless they are exactly the listed known finding.
func (hs *hist) verdict(where string, n int, sp span, fails []failure, err error) {
	if err != nil {
		hs.failf("%s (journal prefix %d): %v", where, n, err)
	}
	if len(fails) == 0 {
		return
	}
	if lib.IsKnown(knownID) && hs.matchesKnown(n, sp, fails) {
		lib.ObservedKnown(knownID)
		lib.ExcludedByKnown(knownID)
		hs.knownSeen++
		return
	}
	if lib.IsKnown(knownRollbackID) && hs.matchesKnownRollback(n, fails) {
		lib.ObservedKnown(knownRollbackID)
		lib.ExcludedByKnown(knownRollbackID)
		hs.knownSeen++
		hs.halted = true // a node in this state panics in ApplyBlock two blocks later: the history ends here
		return
	}
	msgs := make([]string, len(fails))
	for i, f := range fails {
		msgs[i] = f.err.Error()
	}
	hs.failf("%s (journal prefix %d): store range base=%d height=%d (state next height %d) but:\n    %s",
		where, n, sp.base, sp.height, sp.stateNext, strings.Join(msgs, "\n    "))
}

// liveAudit audits the LIVE store objects (and checks that a reopened pair reports the same range).
func (hs *hist) liveAudit(where string, extra ...int64) span {
	v := view{bs: hs.c.BlockStore, ss: hs.c.StateStore}
	var windows [][2]int64
	b, h := v.bs.Base(), v.bs.Height()
	if h-b > hs.fullLiveMax {
		windows = [][2]int64{{b, b + 2}, {h - 2, h + 1}}
		for _, x := range extra {
			windows = append(windows, [2]int64{x - 2, x + 2})
		}
	}
	sp, fails, err := plainAudit(v, hs.tr, hs.initial, windows, true)
	hs.verdict(where+" [live]", hs.j.Len(), sp, fails, err)
	re := openView(hs.bdb, hs.sdb)
	if re.bs.Base() != sp.base || re.bs.Height() != sp.height {
		hs.failf("%s: live store says base=%d height=%d, reopened store says base=%d height=%d", where, sp.base, sp.height, re.bs.Base(), re.bs.Height())
	}
	return sp
}

// advance builds the next block and saves it the way consensus finalizeCommit does: SaveBlock (skipped if the block
// store already has the height — the restart path), then ApplyBlock (ABCI responses, state Save). A crash can be
// injected into SaveBlock; the restarted node saves the same block again.
func (hs *hist) advance(plan *lib.HeightPlan, cs *crashSpec) {
	c := hs.c
	if hs.halted {
		return
	}
	if plan == nil {
		plan = &lib.HeightPlan{}
	}
	h := c.NextHeight()
	rec := opRec{Kind: "save", Start: hs.j.Len(), H: h, BaseBefore: c.BlockStore.Base(), HeightBefore: c.BlockStore.Height()}
	hs.j.SetTag(fmt.Sprintf("save:%d", h))
	c.App.Mu.Lock()
	c.App.Plans[h] = plan
	c.App.Mu.Unlock()
	block, parts := c.BuildNext(plan)
	blockID := types.BlockID{Hash: block.Hash(), PartSetHeader: parts.Header()}
	commit := lib.SignCommit(c.State.ChainID, h, plan.Round, blockID, c.State.Validators, plan.Flags, block.Time, plan.TsOffsets)
	// the record is made BEFORE the stores see the block: the audit of a crashed save needs it
	c.Blocks[h], c.Parts[h], c.IDs[h], c.Commits[h] = block, parts, blockID, commit
	if err := c.State.Validators.VerifyCommitLight(c.State.ChainID, blockID, h, commit); err != nil {
		hs.failf("harness: generated commit for %d does not verify: %v", h, err)
	}
	if len(plan.Txs) == 0 && len(plan.ValUpdates) == 0 && plan.Params == nil && plan.RetainHeight == 0 && cs == nil {
		hs.logPlainSave(h)
	} else {
		hs.logf("save h=%d txs=%d parts=%d valupd=%v params=%v retain=%d crash=%s", h, len(plan.Txs), parts.Total(), plan.ValUpdates, plan.Params != nil, plan.RetainHeight, cs)
	}
	hs.arm(cs)
	crashed := hs.crashy(func() { c.BlockStore.SaveBlock(block, parts, commit) })
	hs.j.Disarm()
	if crashed {
		rec.Crashed = true
		hs.restart()
		hs.logf("  crashed inside SaveBlock; reopened: base=%d height=%d", c.BlockStore.Base(), c.BlockStore.Height())
		hs.liveAuditLagging("after crash in SaveBlock(" + fmt.Sprint(h) + ")")
		if c.BlockStore.Height() < h {
			c.BlockStore.SaveBlock(block, parts, commit)
		}
	}
	st, retain, err := c.Exec.ApplyBlock(c.State, blockID, block)
	if err != nil {
		hs.failf("harness: ApplyBlock(%d): %v", h, err)
	}
	c.State = st
	c.States[h], c.Retain[h] = st.Copy(), retain
	rec.End, rec.BaseAfter, rec.HeightAfter = hs.j.Len(), c.BlockStore.Base(), c.BlockStore.Height()
	hs.ops = append(hs.ops, rec)
	if rec.HeightAfter != h || (rec.BaseBefore != 0 && rec.BaseAfter != rec.BaseBefore) || (rec.BaseBefore == 0 && rec.BaseAfter != h) {
		hs.failf("after saving %d: base=%d height=%d (before: base=%d height=%d)", h, rec.BaseAfter, rec.HeightAfter, rec.BaseBefore, rec.HeightBefore)
	}
	if retain != plan.RetainHeight {
		hs.failf("harness: app returned retain %d, planned %d", retain, plan.RetainHeight)
	}
}

// liveAuditLagging audits reopened stores right after a crash (the state store may lag one block).
func (hs *hist) liveAuditLagging(where string) span {
	v := view{bs: hs.c.BlockStore, ss: hs.c.StateStore}
	var windows [][2]int64
	b, h := v.bs.Base(), v.bs.Height()
	if h-b > hs.fullLiveMax {
		windows = [][2]int64{{b, b + 2}, {h - 2, h + 1}}
	}
	sp, fails, err := plainAudit(v, hs.tr, hs.initial, windows, true)
	hs.verdict(where+" [reopened]", hs.j.Len(), sp, fails, err)
	return sp
}

// prune does what consensus.State.pruneBlocks does with the retain height returned by the application's Commit:
//
//	base := blockStore.Base(); if retain <= base { return }
//	blockStore.PruneBlocks(retain) ; on error return
//	stateStore.PruneStates(base, retain)
//
// (consensus/state.go; finalizeCommit calls it only for retain > 0). A crash can be injected anywhere in the two
// prunes; the restarted node gets the same retain height again with its next commit and prunes again.
func (hs *hist) prune(retain int64, cs *crashSpec) {
	c := hs.c
	if hs.halted {
		return
	}
	if retain <= 0 {
		return
	}
	base, height := c.BlockStore.Base(), c.BlockStore.Height()
	rec := opRec{Kind: "prune", Start: hs.j.Len(), Retain: retain, BaseBefore: base, HeightBefore: height}
	hs.j.SetTag(fmt.Sprintf("prune:%d", retain))
	if retain <= base {
		rec.Kind = "prune-skip"
		rec.End, rec.BaseAfter, rec.HeightAfter = hs.j.Len(), base, height
		hs.ops = append(hs.ops, rec)
		hs.logf("prune retain=%d <= base=%d: skipped by the caller", retain, base)
		return
	}
	if retain > height {
		rec.Kind = "prune-too-high"
	}
	if retain-base >= 1000 && retain <= height && hs.bigPruneFrom < 0 {
		hs.bigPruneFrom = hs.j.Len()
	}
	if retain <= height {
		hs.retainAt = append(hs.retainAt, struct {
			n int
			r int64
		}{hs.j.Len(), retain})
	}
	hs.logf("prune retain=%d base=%d height=%d crash=%s", retain, base, height, cs)
	var pruned uint64
	var errB, errS error
	hs.arm(cs)
	crashed := hs.crashy(func() {
		pruned, errB = c.BlockStore.PruneBlocks(retain)
		if errB == nil {
			errS = c.StateStore.PruneStates(base, retain)
		}
	})
	hs.j.Disarm()
	hs.noteFlushes(rec.Start, hs.j.Len())
	if crashed {
		rec.Crashed = true
		hs.restart()
		rec.End, rec.BaseAfter, rec.HeightAfter = hs.j.Len(), c.BlockStore.Base(), c.BlockStore.Height()
		hs.ops = append(hs.ops, rec)
		hs.logf("  crashed inside the prune; reopened: base=%d height=%d", rec.BaseAfter, rec.HeightAfter)
		sp := hs.liveAuditLagging(fmt.Sprintf("after crash in prune(%d)", retain))
		if sp.height != height || sp.base < base || sp.base > retain {
			hs.failf("after a crash in prune(%d) from base=%d height=%d the store says base=%d height=%d", retain, base, height, sp.base, sp.height)
		}
		// the node restarts, commits its next block, the application asks for the same retain height again
		hs.prune(retain, nil)
		return
	}
	rec.End, rec.BaseAfter, rec.HeightAfter = hs.j.Len(), c.BlockStore.Base(), c.BlockStore.Height()
	hs.ops = append(hs.ops, rec)
	if retain > height {
		if errB == nil {
			hs.failf("PruneBlocks(%d) beyond height %d returned no error", retain, height)
		}
		if rec.End != rec.Start || rec.BaseAfter != base || rec.HeightAfter != height {
			hs.failf("failed PruneBlocks(%d) changed something: %d journal entries, base %d->%d height %d->%d", retain, rec.End-rec.Start, base, rec.BaseAfter, height, rec.HeightAfter)
		}
		return
	}
	if errB != nil || errS != nil {
		hs.failf("prune(%d) with base=%d height=%d failed: blocks: %v, states: %v", retain, base, height, errB, errS)
	}
	if rec.BaseAfter != retain || rec.HeightAfter != height {
		hs.failf("after prune(%d): base=%d height=%d (before: base=%d height=%d)", retain, rec.BaseAfter, rec.HeightAfter, base, height)
	}
	hs.checkGone(base, retain, pruned)
}

// rollback: the stopped node's state is rolled back by one height with state.Rollback (what `tendermint rollback`,
// cmd/tendermint/commands/rollback.go, runs on the node's block store and state store: it rebuilds the state of
// height n-1 and writes it with Store.Save), the application is rolled back by one height as the command's
// documentation requires, and the node starts again: the handshake finds the block store one block ahead of the
// state and applies block n once more (consensus/replay.go: replayBlock -> ApplyBlock, no SaveBlock). Both steps
// are saves of the state store; every database write of them is a crash point like any other.
func (hs *hist) rollback() {
	c := hs.c
	if hs.halted {
		return
	}
	base, height := c.BlockStore.Base(), c.BlockStore.Height()
	if height == 0 || height <= base || c.State.LastBlockHeight != height {
		return // Rollback needs the block below the tip
	}
	rec := opRec{Kind: "rollback", Start: hs.j.Len(), H: height, BaseBefore: base, HeightBefore: height}
	hs.j.SetTag(fmt.Sprintf("rollback:%d", height))
	hs.logf("rollback of state %d (state.Rollback, application back to %d), then the restart re-applies block %d", height, height-1, height)
	hs.rollbackAt = append(hs.rollbackAt, rollbackRec{hs.j.Len(), height})
	rh, appHash, err := sm.Rollback(c.BlockStore, c.StateStore)
	rec.End, rec.BaseAfter, rec.HeightAfter = hs.j.Len(), c.BlockStore.Base(), c.BlockStore.Height()
	hs.ops = append(hs.ops, rec)
	if err != nil || rh != height-1 {
		hs.failf("harness: state.Rollback at height %d: rolled back to %d, err %v", height, rh, err)
	}
	if rec.BaseAfter != base || rec.HeightAfter != height {
		hs.failf("state.Rollback changed the block store range: base %d->%d height %d->%d", base, rec.BaseAfter, height, rec.HeightAfter)
	}
	hs.liveAuditLagging(fmt.Sprintf("after rollback of state %d", height))
	c.App.Rollback(height - 1)
	if !bytes.Equal(appHash, c.App.AppHash) {
		hs.failf("harness: rollback returned app hash %X, the application rolled back to %d has %X", appHash, height-1, c.App.AppHash)
	}
	// restart: stores reopened, state loaded, block n applied again
	c.BlockStore = store.NewBlockStore(hs.bdb)
	st, err := c.StateStore.Load()
	if err != nil || st.LastBlockHeight != height-1 {
		hs.failf("harness: state after rollback: height %d, err %v", st.LastBlockHeight, err)
	}
	rec2 := opRec{Kind: "reapply", Start: hs.j.Len(), H: height, BaseBefore: base, HeightBefore: height}
	hs.j.SetTag(fmt.Sprintf("reapply:%d", height))
	st2, _, err := c.Exec.ApplyBlock(st, c.IDs[height], c.Blocks[height])
	if err != nil {
		hs.failf("harness: re-applying block %d after the rollback: %v", height, err)
	}
	rec2.End, rec2.BaseAfter, rec2.HeightAfter = hs.j.Len(), c.BlockStore.Base(), c.BlockStore.Height()
	hs.ops = append(hs.ops, rec2)
	want := c.States[height]
	if !bytes.Equal(st2.AppHash, want.AppHash) || !bytes.Equal(st2.Validators.Hash(), want.Validators.Hash()) ||
		!bytes.Equal(st2.NextValidators.Hash(), want.NextValidators.Hash()) || !st2.ConsensusParams.Equal(&want.ConsensusParams) ||
		!bytes.Equal(st2.LastResultsHash, want.LastResultsHash) {
		hs.failf("harness: block %d re-applied on the rolled back state does not give the state it gave the first time", height)
	}
	c.State = st2
}

// pruneDirectBase: PruneBlocks(base) is inside PruneBlocks' documented domain (base <= height argument <= store
// height); it must prune nothing and keep everything.
func (hs *hist) pruneDirectBase() {
	c := hs.c
	if hs.halted {
		return
	}
	base, height := c.BlockStore.Base(), c.BlockStore.Height()
	if height == 0 {
		return
	}
	rec := opRec{Kind: "prune-direct-base", Start: hs.j.Len(), Retain: base, BaseBefore: base, HeightBefore: height}
	hs.j.SetTag(fmt.Sprintf("prune-direct:%d", base))
	hs.logf("PruneBlocks(base=%d) directly", base)
	n, err := c.BlockStore.PruneBlocks(base)
	rec.End, rec.BaseAfter, rec.HeightAfter = hs.j.Len(), c.BlockStore.Base(), c.BlockStore.Height()
	hs.ops = append(hs.ops, rec)
	if err != nil || n != 0 || rec.BaseAfter != base || rec.HeightAfter != height {
		hs.failf("PruneBlocks(base=%d): pruned=%d err=%v base->%d height->%d", base, n, err, rec.BaseAfter, rec.HeightAfter)
	}
}

// noteFlushes counts the range-descriptor writes of a PruneBlocks call in the journal: one per flush (a completed
// PruneBlocks writes one per intermediate flush plus the final one).
func (hs *hist) noteFlushes(from, to int) {
	n := 0
	for i := from; i < to; i++ {
		op := hs.j.Op(i)
		if op.DB == blockName && op.Kind == "setsync" {
			n++
		}
	}
	if n > 0 {
		hs.interFlush = append(hs.interFlush, n)
	}
}

// checkGone: after a COMPLETED prune the heights in [from, retain) are not loadable any more, exactly retain-from
// blocks were reported pruned, and the state store dropped their records except the documented keepers (the record
// the retained heights point to as "last changed" and the last checkpoint: at most 2 validator records, 1 params
// record), which — if still served — must be served correctly.
func (hs *hist) checkGone(from, retain int64, pruned uint64) {
	c := hs.c
	if hs.crashes == 0 && pruned != uint64(retain-from) {
		hs.failf("PruneBlocks(%d) from base %d reported %d pruned blocks, want %d", retain, from, pruned, retain-from)
	}
	lo := from
	if retain-from > 2*hs.fullLiveMax { // long range: both ends and a stride
		lo = retain - hs.fullLiveMax
	}
	check := func(h int64) {
		defer func() {
			if r := recover(); r != nil {
				hs.failf("after prune(%d): loading pruned height %d panicked: %v", retain, h, r)
			}
		}()
		bs := c.BlockStore
		if bs.LoadBlockMeta(h) != nil || bs.LoadBlock(h) != nil || bs.LoadBlockPart(h, 0) != nil ||
			bs.LoadBlockCommit(h) != nil || bs.LoadSeenCommit(h) != nil || bs.LoadBlockByHash(c.IDs[h].Hash) != nil {
			hs.failf("after a completed prune(%d) something of height %d (old base %d) is still loadable", retain, h, from)
		}
	}
	for h := lo; h < retain; h++ {
		check(h)
	}
	for h := from; h < lo && h < from+hs.fullLiveMax; h++ {
		check(h)
	}
	for h := from; h < lo; h += 97 {
		check(h)
	}
	keptV, keptP := 0, 0
	for h := from; h < retain; h++ {
		if vs, err := c.StateStore.LoadValidators(h); err == nil {
			keptV++
			if !sameValSet(vs, c.ValidatorsAt(h)) {
				hs.failf("after prune(%d): LoadValidators(%d) below the retain height returns a WRONG set", retain, h)
			}
		}
		if p, err := c.StateStore.LoadConsensusParams(h); err == nil {
			keptP++
			if want, ok := hs.tr.params(h); !ok || !p.Equal(&want) {
				hs.failf("after prune(%d): LoadConsensusParams(%d) below the retain height returns WRONG params", retain, h)
			}
		}
	}
	if keptV > 2 || keptP > 1 {
		hs.failf("after a completed PruneStates(%d,%d): %d validator records and %d params records below the retain height are still served (documented keepers: <=2 / <=1)", from, retain, keptV, keptP)
	}
}

// ---------------------------------------------------------------------------------------------------------------

type enumStats struct {
	prefixes, inside, factsChecked int64
	byClass                        map[string]int64
}

// enumerate audits the databases materialised from every journal prefix n >= from. alsoPlain: additionally run the
// un-memoised deep audit on a from-scratch materialisation of every prefix (small histories).
func (hs *hist) enumerate(from int, alsoPlain bool, caseFP uint64) enumStats {
	es := enumStats{byClass: map[string]int64{}}
	m := newMemoAuditor(hs.j, hs.tr, hs.initial, blockName, stateName)
	for m.rp.Pos() < from {
		if _, ok := m.step(); !ok {
			break
		}
	}
	oi := 0 // index of the first operation with End > n, or the last one
	var prev span
	havePrev := false
	boundary := map[int]opRec{}
	for _, o := range hs.ops {
		boundary[o.End] = o // the last operation ending at a boundary wins (zero-length ones change nothing)
	}
	for {
		n := m.rp.Pos()
		for oi < len(hs.ops)-1 && hs.ops[oi].End <= n {
			oi++
		}
		op := hs.ops[oi]
		inside := op.Start < n && n < op.End
		where := fmt.Sprintf("crash point inside %s", opDesc(op))
		if !inside {
			where = "crash point between operations"
		}
		sp, fails, err := m.audit()
		hs.verdict(where, n, sp, fails, err)
		tolerated := len(fails) > 0
		// range bookkeeping against the model
		if havePrev && (sp.base < prev.base || sp.height < prev.height) {
			hs.failf("%s (journal prefix %d): the range went backwards: base %d->%d height %d->%d", where, n, prev.base, sp.base, prev.height, sp.height)
		}
		prev, havePrev = sp, true
		if inside {
			okH := sp.height == op.HeightBefore || sp.height == op.HeightAfter
			hiB := op.BaseAfter
			if op.Retain > hiB {
				hiB = op.Retain
			}
			okB := sp.base >= op.BaseBefore && sp.base <= hiB
			if op.Kind == "save" && op.BaseBefore == 0 {
				okB = sp.base == 0 || sp.base == op.H
			}
			if !okH || !okB {
				hs.failf("%s (journal prefix %d): range base=%d height=%d outside what the operation may produce (before %d/%d, after %d/%d)",
					where, n, sp.base, sp.height, op.BaseBefore, op.HeightBefore, op.BaseAfter, op.HeightAfter)
			}
		} else if o, ok := boundary[n]; ok && n > 0 {
			if sp.base != o.BaseAfter || sp.height != o.HeightAfter {
				hs.failf("journal prefix %d (after %s): materialised range base=%d height=%d, live store said base=%d height=%d", n, opDesc(o), sp.base, sp.height, o.BaseAfter, o.HeightAfter)
			}
		}
		if alsoPlain && !tolerated {
			// from-scratch materialisation and un-memoised audit: cross-checks the incremental replay and the memo
			mat := hs.j.Materialize(n)
			v := openView(mat[blockName], mat[stateName])
			var windows [][2]int64
			if sp.height-sp.base > hs.fullLiveMax {
				windows = [][2]int64{{sp.base, sp.base + 2}, {sp.height - 2, sp.height + 1}}
			}
			sp2, fails2, err2 := plainAudit(v, hs.tr, hs.initial, windows, false)
			hs.verdict(where+" [plain audit]", n, sp2, fails2, err2)
			if sp2 != sp {
				hs.failf("harness: memoised and plain audit disagree on the range at prefix %d: %+v vs %+v", n, sp, sp2)
			}
		}
		// statistics: one evaluation per crash point
		cls := "boundary"
		if inside {
			last := hs.j.Op(n - 1)
			cls = "in:" + op.Kind + ":" + last.DB
			if last.Parts > 0 && last.Kind == "batchpart" && last.Part < last.Parts-1 {
				cls += ":mid-batch"
			}
			es.inside++
		}
		es.prefixes++
		es.byClass[cls]++
		lib.Case(hs.test, lib.FP(caseFP, n), inside, cls)
		if _, ok := m.step(); !ok {
			break
		}
	}
	es.factsChecked = m.Checked
	return es
}

func opDesc(o opRec) string {
	switch o.Kind {
	case "save":
		return fmt.Sprintf("save(%d)", o.H)
	case "genesis":
		return "genesis"
	case "bootstrap":
		return "state-sync bootstrap"
	case "rollback":
		return fmt.Sprintf("rollback(state %d -> %d)", o.H, o.H-1)
	case "reapply":
		return fmt.Sprintf("reapply(%d)", o.H)
	default:
		s := fmt.Sprintf("%s(retain=%d, base=%d, height=%d)", o.Kind, o.Retain, o.BaseBefore, o.HeightBefore)
		if o.Crashed {
			s += "[crashed]"
		}
		return s
	}
}
