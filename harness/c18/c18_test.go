// C18 — stored chain data stays contiguous and consistent through pruning and crashes.
//
// Level: fault enumeration. Generated histories of saves (real SaveBlock + ApplyBlock/state Save through the chain
// builder) and prunes (PruneBlocks(retain) then PruneStates(base_before, retain), as consensus calls them) run on two
// journalled databases (lib.CrashDB, shared journal). The audit (audit_test.go) runs on the live stores after every
// operation and on the databases materialised from EVERY prefix of the journal, reopened with store.NewBlockStore /
// sm.NewStore. Some histories additionally crash in-process inside SaveBlock or inside a prune (CrashDB panic),
// reopen the stores and carry on, so that saves and prunes also start from crash states.
package c18

import (
	"bytes"
	"fmt"
	"sort"
	"testing"

	abci "github.com/tendermint/tendermint/abci/types"
	"github.com/tendermint/tendermint/types"
	"pgregory.net/rapid"

	"verif/lib"
)

func TestMain(m *testing.M) { lib.Main(m) }

const ring = 8 // validator keys 0..7

// genPlan draws what happens at the next height. rich: transactions, validator and parameter changes, absent
// signers, rounds. Otherwise an empty block.
func genPlan(t *rapid.T, c *lib.Chain, rich bool, label string) *lib.HeightPlan {
	p := &lib.HeightPlan{}
	if !rich {
		return p
	}
	// transactions; rarely one large enough for a second / third block part (part size 64 KiB)
	for i, n := 0, rapid.IntRange(0, 3).Draw(t, label+".ntx"); i < n; i++ {
		p.Txs = append(p.Txs, []byte(fmt.Sprintf("tx-%d-%d-%d", c.NextHeight(), i, rapid.IntRange(0, 999).Draw(t, label+".tx"))))
	}
	if rapid.IntRange(0, 11).Draw(t, label+".big") == 0 {
		size := rapid.SampledFrom([]int{66000, 70000, 131500, 140000}).Draw(t, label+".bigsize")
		p.Txs = append(p.Txs, bytes.Repeat([]byte{byte('a' + rapid.IntRange(0, 25).Draw(t, label+".bigbyte"))}, size))
	}
	// validator updates apply to the set of height+1 and take effect at height+2
	if rapid.IntRange(0, 2).Draw(t, label+".valchg") == 0 {
		cur := map[int]int64{}
		for _, v := range c.State.NextValidators.Validators {
			cur[lib.KeyIndex(v.Address)] = v.VotingPower
		}
		used := map[int]bool{}
		for i, n := 0, rapid.IntRange(1, 2).Draw(t, label+".nupd"); i < n; i++ {
			k := rapid.IntRange(0, ring-1).Draw(t, label+".updkey")
			if used[k] {
				continue
			}
			used[k] = true
			pw := rapid.Int64Range(0, 30).Draw(t, label+".updpow")
			if _, in := cur[k]; in {
				if pw == 0 && len(cur) == 1 {
					pw = 7
				}
				if pw == 0 {
					delete(cur, k)
				} else {
					cur[k] = pw
				}
			} else {
				if pw == 0 {
					pw = 5
				}
				cur[k] = pw
			}
			p.ValUpdates = append(p.ValUpdates, lib.ValUpdate{Key: k, Power: pw})
		}
	}
	if rapid.IntRange(0, 4).Draw(t, label+".parchg") == 0 {
		p.Params = &abci.ConsensusParams{Block: &abci.BlockParams{
			MaxBytes: rapid.SampledFrom([]int64{2 << 20, 4 << 20, 22020096}).Draw(t, label+".maxbytes"),
			MaxGas:   rapid.SampledFrom([]int64{-1, 1000000, 5000000}).Draw(t, label+".maxgas")}}
	}
	// absent signers while more than 2/3 keep signing
	vals := c.State.Validators
	total := vals.TotalVotingPower()
	var absent int64
	flags := make([]types.BlockIDFlag, len(vals.Validators))
	for i, v := range vals.Validators {
		flags[i] = types.BlockIDFlagCommit
		if len(vals.Validators) > 1 && rapid.IntRange(0, 4).Draw(t, label+".absent") == 0 && (total-absent-v.VotingPower)*3 > total*2 {
			flags[i] = types.BlockIDFlagAbsent
			absent += v.VotingPower
		}
	}
	p.Flags = flags
	p.Round = int32(rapid.IntRange(0, 2).Draw(t, label+".round"))
	return p
}

func genCrash(t *rapid.T, maxK int, oneIn int, label string) *crashSpec {
	if rapid.IntRange(0, oneIn-1).Draw(t, label+".crash") != 0 {
		return nil
	}
	return &crashSpec{K: rapid.IntRange(0, maxK).Draw(t, label+".crashK"), After: rapid.Bool().Draw(t, label+".crashAfter")}
}

func genRetain(t *rapid.T, base, height int64, label string) int64 {
	if height <= base {
		return height
	}
	switch rapid.SampledFrom([]string{"any", "any", "any", "next", "tip", "tip-1"}).Draw(t, label+".rkind") {
	case "next":
		return base + 1
	case "tip":
		return height
	case "tip-1":
		if height-1 > base {
			return height - 1
		}
		return height
	}
	return rapid.Int64Range(base+1, height).Draw(t, label+".retain")
}

func sortedClasses(m map[string]int64) []string {
	ks := make([]string, 0, len(m))
	for k := range m {
		ks = append(ks, k)
	}
	sort.Strings(ks)
	return ks
}

// TestHistories: short chains with validator and parameter changes; every journal prefix audited in full.
func TestHistories(t *testing.T) {
	const test = "TestHistories"
	rapid.Check(t, func(t *rapid.T) {
		initial := int64(1)
		ikind := rapid.SampledFrom([]string{"one", "one", "small", "checkpoint"}).Draw(t, "ikind")
		switch ikind {
		case "small":
			initial = rapid.Int64Range(2, 60).Draw(t, "initial")
		case "checkpoint": // the validator-set checkpoint height 100000 is crossed within a few blocks
			initial = 100000 - rapid.Int64Range(0, 9).Draw(t, "below")
		}
		nv := rapid.IntRange(1, 4).Draw(t, "nvals")
		keys := make([]int, nv)
		powers := make([]int64, nv)
		for i := range keys {
			keys[i] = i
			powers[i] = rapid.Int64Range(1, 20).Draw(t, "power")
		}
		split := rapid.IntRange(0, 3).Draw(t, "split") == 0
		// the stores start from genesis or from a state-sync bootstrap at a snapshot height of a grown source chain
		start := rapid.SampledFrom([]string{"genesis", "genesis", "genesis", "state-synced"}).Draw(t, "start")
		var hs *hist
		if start == "genesis" {
			hs = newHist(t, test, initial, keys, powers, split)
		} else {
			hs = newSyncedHist(t, test, initial, keys, powers, split, func(src *lib.Chain) {
				for k, n := 0, rapid.IntRange(1, 5).Draw(t, "snapshotAfter"); k < n; k++ {
					if err := src.Advance(genPlan(t, src, true, fmt.Sprintf("src.b%d", k))); err != nil {
						t.Fatalf("harness: source chain: %v", err)
					}
				}
			})
		}
		defer hs.close()
		maxOps := 9
		if lib.Thorough() {
			maxOps = 14
		}
		nOps := rapid.IntRange(2, maxOps).Draw(t, "nops")
		var kinds []string
		for i := 0; i < nOps; i++ {
			lbl := fmt.Sprintf("op%d", i)
			kind := rapid.SampledFrom([]string{"advance", "advance", "advance", "advance", "prune", "prune", "prune", "prune-via-app",
				"prune-too-high", "prune-skip", "prune-direct-base"}).Draw(t, lbl) // "rollback" (hist.rollback) is implemented but not drawn: the operator command is outside the sequences of saves and prunes C18 quantifies over (see MUTANTS.md, wave 6)
			base, height := hs.c.BlockStore.Base(), hs.c.BlockStore.Height()
			if height == 0 || (i == 0) {
				kind = "advance"
			}
			kinds = append(kinds, kind)
			pruneMaxK := 4
			if split {
				pruneMaxK = 30
			}
			switch kind {
			case "advance", "prune-via-app":
				n := rapid.IntRange(1, 5).Draw(t, lbl+".n")
				for k := 0; k < n; k++ {
					plan := genPlan(t, hs.c, true, fmt.Sprintf("%s.b%d", lbl, k))
					if kind == "prune-via-app" && k == n-1 {
						// the retain height travels through ResponseCommit; the block just saved counts
						plan.RetainHeight = genRetain(t, hs.c.BlockStore.Base(), hs.c.NextHeight(), lbl)
					}
					hs.advance(plan, genCrash(t, 8, 6, fmt.Sprintf("%s.b%d", lbl, k)))
					hs.liveAudit(fmt.Sprintf("after save(%d)", hs.c.Tip()))
					if r := hs.c.Retain[hs.c.Tip()]; r > 0 {
						hs.prune(r, genCrash(t, pruneMaxK, 4, lbl+".p"))
						hs.liveAudit(fmt.Sprintf("after prune(%d)", r))
					}
				}
			case "prune":
				r := genRetain(t, base, height, lbl)
				hs.prune(r, genCrash(t, pruneMaxK, 4, lbl+".p"))
				hs.liveAudit(fmt.Sprintf("after prune(%d)", r))
			case "prune-too-high":
				r := height + rapid.Int64Range(1, 5).Draw(t, lbl+".over")
				hs.prune(r, nil)
				hs.liveAudit(fmt.Sprintf("after failed prune(%d)", r))
			case "prune-skip":
				r := rapid.Int64Range(1, base).Draw(t, lbl+".retain")
				hs.prune(r, nil)
				hs.liveAudit(fmt.Sprintf("after skipped prune(%d)", r))
			case "prune-direct-base":
				hs.pruneDirectBase()
				hs.liveAudit("after PruneBlocks(base)")
			case "rollback":
				hs.rollback()
				hs.liveAudit("after rollback and restart")
			}
		}
		span := hs.c.Tip() - hs.initial + 1
		caseFP := lib.FP(initial, start, hs.initial, keys, powers, split, kinds, hs.c.IDs[hs.c.Tip()].Hash)
		es := hs.enumerate(0, span <= 8, caseFP)
		cls := []string{"initial:" + ikind, "start:" + start, fmt.Sprintf("split-batches:%v", split), fmt.Sprintf("crashes-injected:%d", min(hs.crashes, 3))}
		for _, o := range hs.ops {
			cls = append(cls, "op:"+o.Kind)
		}
		multi := 0
		for h := hs.initial; h <= hs.c.Tip(); h++ {
			if hs.c.Parts[h].Total() > 1 {
				multi++
			}
		}
		if multi > 0 {
			cls = append(cls, "has-multipart-block")
		}
		lib.Class(test, cls...)
		lib.Class(test, "cases")
		if lib.WantSample(test) && es.inside > 0 {
			lib.Sample(test, map[string]interface{}{"history": hs.log, "journal_entries": hs.j.Len(), "crash_points_audited": es.prefixes,
				"strictly_inside_an_operation": es.inside, "facts_evaluated": es.factsChecked})
		}
	})
}

// TestLongPrune: long cheap chains (one or two validators, empty blocks, a few validator / parameter changes) and
// prunes over 1000 heights or more, so that PruneBlocks flushes intermediate batches and PruneStates writes more
// than one batch; repeated prunes; crash injection inside the long prune. All journal prefixes from shortly before
// the first prune to the end are audited over the whole range (memoised audit).
func TestLongPrune(t *testing.T) {
	const test = "TestLongPrune"
	rapid.Check(t, func(t *rapid.T) {
		initial := int64(1)
		ikind := rapid.SampledFrom([]string{"one", "checkpoint", "any"}).Draw(t, "ikind")
		switch ikind {
		case "checkpoint": // checkpoint height 100000 somewhere inside the chain
			initial = 100000 - rapid.Int64Range(1, 1500).Draw(t, "below")
		case "any":
			initial = rapid.Int64Range(2, 5000).Draw(t, "initial")
		}
		maxN := 2300
		if lib.Thorough() {
			maxN = 3400
		}
		n := rapid.IntRange(1100, maxN).Draw(t, "n")
		split := rapid.IntRange(0, 3).Draw(t, "split") == 0
		hs := newHist(t, test, initial, []int{0}, []int64{10}, split)
		defer hs.close()
		// a handful of heights with a validator or parameter change, so that "last changed" pointers cross the prunes
		changes := map[int]string{}
		for i, k := 0, rapid.IntRange(0, 6).Draw(t, "nchanges"); i < k; i++ {
			changes[rapid.IntRange(0, n-1).Draw(t, "changeAt")] = rapid.SampledFrom([]string{"val", "val", "params"}).Draw(t, "changeKind")
		}
		for i := 0; i < n; i++ {
			plan := &lib.HeightPlan{}
			switch changes[i] {
			case "val":
				plan.ValUpdates = []lib.ValUpdate{{Key: rapid.SampledFrom([]int{0, 0, 1}).Draw(t, "ck"), Power: rapid.Int64Range(1, 9).Draw(t, "cp")}}
			case "params":
				plan.Params = &abci.ConsensusParams{Block: &abci.BlockParams{MaxBytes: rapid.SampledFrom([]int64{2 << 20, 4 << 20}).Draw(t, "cb"), MaxGas: -1}}
			}
			hs.advance(plan, nil)
			if i%256 == 255 || i == n-1 {
				hs.liveAudit(fmt.Sprintf("after save(%d)", hs.c.Tip()))
			}
		}
		from := hs.j.Len() - rapid.IntRange(0, 40).Draw(t, "lead")
		nPrunes := rapid.IntRange(1, 3).Draw(t, "nprunes")
		longAt := rapid.IntRange(0, nPrunes-1).Draw(t, "longAt")
		var retains []int64
		for i := 0; i < nPrunes; i++ {
			lbl := fmt.Sprintf("p%d", i)
			for k, m := 0, rapid.IntRange(0, 3).Draw(t, lbl+".adv"); k < m && i > 0; k++ {
				hs.advance(genPlan(t, hs.c, true, fmt.Sprintf("%s.b%d", lbl, k)), nil)
			}
			base, height := hs.c.BlockStore.Base(), hs.c.BlockStore.Height()
			var r int64
			if i == longAt && height-base > 1000 {
				// 1000 heights or more; the multiples of 1000 and their neighbours are the interesting spans
				switch rapid.SampledFrom([]string{"any", "any", "exact", "plus1", "tip"}).Draw(t, lbl+".lkind") {
				case "exact":
					r = base + 1000*rapid.Int64Range(1, (height-base)/1000).Draw(t, lbl+".k")
				case "plus1":
					r = base + 1000*rapid.Int64Range(1, (height-base-1)/1000).Draw(t, lbl+".k") + 1
				case "tip":
					r = height
				default:
					r = rapid.Int64Range(base+1000, height).Draw(t, lbl+".retain")
				}
			} else {
				r = genRetain(t, base, height, lbl)
			}
			retains = append(retains, r)
			maxK := 6
			if split {
				maxK = 7000
			}
			hs.prune(r, genCrash(t, maxK, 3, lbl))
			hs.liveAudit(fmt.Sprintf("after prune(%d)", r), r)
		}
		hs.advance(genPlan(t, hs.c, true, "tail"), nil)
		hs.liveAudit("after the last save")
		caseFP := lib.FP(initial, n, split, retains, changes, hs.c.IDs[hs.c.Tip()].Hash)
		es := hs.enumerate(from, false, caseFP)
		cls := []string{"initial:" + ikind, fmt.Sprintf("split-batches:%v", split), fmt.Sprintf("crashes-injected:%d", min(hs.crashes, 3)), "cases"}
		multi := false
		for _, f := range hs.interFlush {
			cls = append(cls, fmt.Sprintf("PruneBlocks-descriptor-writes:%d", f))
			if f > 1 {
				multi = true
			}
		}
		if multi {
			cls = append(cls, "multi-batch-prunes(cases)")
		}
		lib.Class(test, cls...)
		if lib.WantSample(test) {
			l := hs.log
			if len(l) > 12 {
				l = append([]string{l[0], "..."}, l[len(l)-11:]...)
			}
			lib.Sample(test, map[string]interface{}{"history": l, "heights_built": n, "journal_entries": hs.j.Len(), "crash_points_audited": es.prefixes,
				"strictly_inside_an_operation": es.inside, "facts_evaluated": es.factsChecked, "descriptor_writes_per_PruneBlocks": hs.interFlush})
		}
	})
}
