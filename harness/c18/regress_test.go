package c18

// Regression tests (kind "plain": no rapid involved) for findings of the C18 check on the unchanged tree.

import (
	"testing"

	"github.com/tendermint/tendermint/store"

	"verif/lib"
)

// TestRegressPruneIntermediateBase — finding C18-prune-intermediate-base.
//
// BlockStore.PruneBlocks flushes its delete batch every 1000 pruned heights with `flush(batch, h)`: it publishes
// base = h in the range descriptor and then writes the batch — which already contains the deletion of height h
// itself. Until the next flush (and for good if the process dies in between) the store advertises a base whose block,
// meta, parts, commit and hash index entry are gone: LoadBaseMeta() == nil, LoadBlock(Base()) == nil.
//
// The test prunes 1001 heights of a 1005-block chain and looks at the database after every write of the prune.
func TestRegressPruneIntermediateBase(t *testing.T) {
	j := lib.NewCrashJournal()
	bdb, sdb := j.NewDB("blockstore"), j.NewDB("state")
	c, err := lib.NewChain(lib.ChainSpec{Keys: []int{0}, Powers: []int64{10}, BlockDB: bdb, StateDB: sdb})
	if err != nil {
		t.Fatal(err)
	}
	defer c.Close()
	for i := 0; i < 1005; i++ {
		if err := c.Advance(nil); err != nil {
			t.Fatal(err)
		}
	}
	start := j.Len()
	const retain = 1002
	if n, err := c.BlockStore.PruneBlocks(retain); err != nil || n != retain-1 {
		t.Fatalf("PruneBlocks(%d): pruned %d, err %v", retain, n, err)
	}
	if j.Len()-start != 4 {
		t.Fatalf("expected 4 writes (descriptor, batch, descriptor, batch), journal has %d", j.Len()-start)
	}
	rp := j.Replay()
	rp.Seek(start)
	for {
		bs := store.NewBlockStore(rp.DB("blockstore"))
		base, height := bs.Base(), bs.Height()
		if height != 1005 {
			t.Fatalf("after %d writes of the prune: height %d", rp.Pos()-start, height)
		}
		if bs.LoadBaseMeta() == nil || bs.LoadBlock(base) == nil || bs.LoadBlockCommit(base) == nil {
			if lib.IsKnown(knownID) { // listed as a known finding: re-observed, reported by the driver, not a new violation
				lib.ObservedKnown(knownID)
				return
			}
			t.Fatalf("after %d of the 4 writes of PruneBlocks(%d) the database says base=%d height=%d but block %d is gone (meta nil: %v, block nil: %v, commit nil: %v)",
				rp.Pos()-start, retain, base, height, base, bs.LoadBaseMeta() == nil, bs.LoadBlock(base) == nil, bs.LoadBlockCommit(base) == nil)
		}
		if _, ok := rp.Step(); !ok {
			break
		}
	}
	if c.BlockStore.Base() != retain {
		t.Fatalf("base after the prune: %d", c.BlockStore.Base())
	}
}
