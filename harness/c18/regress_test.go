package c18

// Regression tests (kind "plain": no rapid involved) for findings of the C18 check on the unchanged tree.

import (
	"fmt"
	"strings"
	"testing"

	sm "github.com/tendermint/tendermint/state"
	"github.com/tendermint/tendermint/store"

	"verif/lib"
)

// TestRegressPruneIntermediateBase — finding C18-prune-intermediate-base.
//
// BlockStore.PruneBlocks flushes its delete batch every 1000 pruned heights with `flush(batch, h)`: it publishes
// base = h in the range descriptor and then writes the batch — which already contains the deletion of height h
// itself. Until the next flush (and for good if the process dies in between) the store advertises a base whose block,
// meta, parts, commit and hash index entry are gone: LoadBaseMeta() == nil, LoadBlock(Base()) == nil.
//
// The test prunes 1001 heights of a 1005-block chain and looks at the database after every write of the prune.
func TestRegressPruneIntermediateBase(t *testing.T) {
	j := lib.NewCrashJournal()
	bdb, sdb := j.NewDB("blockstore"), j.NewDB("state")
	c, err := lib.NewChain(lib.ChainSpec{Keys: []int{0}, Powers: []int64{10}, BlockDB: bdb, StateDB: sdb})
	if err != nil {
		t.Fatal(err)
	}
	defer c.Close()
	for i := 0; i < 1005; i++ {
		if err := c.Advance(nil); err != nil {
			t.Fatal(err)
		}
	}
	start := j.Len()
	const retain = 1002
	if n, err := c.BlockStore.PruneBlocks(retain); err != nil || n != retain-1 {
		t.Fatalf("PruneBlocks(%d): pruned %d, err %v", retain, n, err)
	}
	if j.Len()-start != 4 {
		t.Fatalf("expected 4 writes (descriptor, batch, descriptor, batch), journal has %d", j.Len()-start)
	}
	rp := j.Replay()
	rp.Seek(start)
	for {
		bs := store.NewBlockStore(rp.DB("blockstore"))
		base, height := bs.Base(), bs.Height()
		if height != 1005 {
			t.Fatalf("after %d writes of the prune: height %d", rp.Pos()-start, height)
		}
		if bs.LoadBaseMeta() == nil || bs.LoadBlock(base) == nil || bs.LoadBlockCommit(base) == nil {
			if lib.IsKnown(knownID) { // listed as a known finding: re-observed, reported by the driver, not a new violation
				lib.ObservedKnown(knownID)
				return
			}
			t.Fatalf("after %d of the 4 writes of PruneBlocks(%d) the database says base=%d height=%d but block %d is gone (meta nil: %v, block nil: %v, commit nil: %v)",
				rp.Pos()-start, retain, base, height, base, bs.LoadBaseMeta() == nil, bs.LoadBlock(base) == nil, bs.LoadBlockCommit(base) == nil)
		}
		if _, ok := rp.Step(); !ok {
			break
		}
	}
	if c.BlockStore.Base() != retain {
		t.Fatalf("base after the prune: %d", c.BlockStore.Base())
	}
}

// TestRegressRollbackValidatorIndex — finding C18-rollback-validator-index.
//
// state.Rollback (state n -> n-1) lowers a LastHeightValidatorsChanged above n-1 to n and saves the rebuilt state:
// Store.Save then rewrites the validators record of height n+1 as "no set, last changed at n". When the validators
// were updated in block n-1 (effective n+1: the record held the full new set) or in block n, height n normally holds
// no set: LoadValidators(n+1) fails right after the rollback and, once the restarted node has applied block n again
// and gone on, for every height up to the next validator change — all of them inside [base, height].
func TestRegressRollbackValidatorIndex(t *testing.T) {
	for _, changeAt := range []int64{5, 6} { // validator update in block n-1 / in block n, rollback of n = 6
		c, err := lib.NewChain(lib.ChainSpec{Keys: []int{0, 1}, Powers: []int64{10, 10}})
		if err != nil {
			t.Fatal(err)
		}
		for h := int64(1); h <= 6; h++ {
			plan := &lib.HeightPlan{}
			if h == changeAt {
				plan.ValUpdates = []lib.ValUpdate{{Key: 1, Power: 7}}
			}
			if err := c.Advance(plan); err != nil {
				t.Fatal(err)
			}
		}
		if _, _, err := sm.Rollback(c.BlockStore, c.StateStore); err != nil {
			t.Fatal(err)
		}
		c.App.Rollback(5)
		st, err := c.StateStore.Load()
		if err != nil || st.LastBlockHeight != 5 {
			t.Fatalf("state after rollback: height %d err %v", st.LastBlockHeight, err)
		}
		// restart: the handshake applies block 6 again, then the chain goes on
		if c.State, _, err = c.Exec.ApplyBlock(st, c.IDs[6], c.Blocks[6]); err != nil {
			t.Fatal(err)
		}
		var bad []string
		func() { // a running node dies here: ApplyBlock panics when it cannot load the validators of the last commit
			defer func() {
				if r := recover(); r != nil {
					bad = append(bad, fmt.Sprintf("applying block %d panicked: %v", c.NextHeight(), r))
				}
			}()
			for h := int64(7); h <= 9; h++ {
				if err := c.Advance(nil); err != nil {
					t.Fatal(err)
				}
			}
		}()
		for h := c.BlockStore.Base(); h <= c.BlockStore.Height()+1; h++ {
			vs, err := c.StateStore.LoadValidators(h)
			switch {
			case err != nil:
				bad = append(bad, fmt.Sprintf("LoadValidators(%d): %v", h, err))
			case !sameValSet(vs, c.ValidatorsAt(h)):
				bad = append(bad, fmt.Sprintf("LoadValidators(%d) returns another set than the one in force at %d", h, h))
			}
		}
		tip := c.BlockStore.Height()
		c.Close()
		if len(bad) > 0 {
			if lib.IsKnown(knownRollbackID) {
				lib.ObservedKnown(knownRollbackID)
				continue
			}
			t.Fatalf("validator update in block %d, state 6 rolled back, block 6 applied again, chain continued to %d (base 1):\n  %s",
				changeAt, tip, strings.Join(bad, "\n  "))
		}
	}
}
