#!/bin/bash
# Runs every C18 mutant of MUTANTS.md (usage: mutants_all.sh [quick|thorough]; VERIF_DIR=<private copy of /verif> optional).
M=/verif/harness/c18/mutant.sh
T=${1:-quick}
$M meta-before-parts store/store.go '(\tfor i := 0; i < int\(blockParts\.Total\(\)\); i\+\+ \{\n\t\tpart := blockParts\.GetPart\(i\)\n\t\tbs\.saveBlockPart\(height, i, part\)\n\t\}\n)(.*?)(\tif err := bs\.db\.Set\(calcBlockHashKey)' '\2\1\3' $T
$M descriptor-before-meta store/store.go '(\t// Save block meta\n)' '\tbs.mtx.Lock()\n\tbs.height = height\n\tif bs.base == 0 {\n\t\tbs.base = height\n\t}\n\tbs.mtx.Unlock()\n\tbs.saveState()\n\1' $T
$M prune-deletes-retain store/store.go 'for h := base; h < height; h\+\+' 'for h := base; h <= height; h++' $T
$M prunestates-no-keep-vals state/store.go 'if valInfo\.ValidatorSet == nil \{' 'if false && valInfo.ValidatorSet == nil {' $T
$M prunestates-no-keep-params state/store.go 'if paramsInfo\.ConsensusParams\.Equal\(&tmproto\.ConsensusParams\{\}\) \{\n\t\tkeepParams' 'if false && paramsInfo.ConsensusParams.Equal(&tmproto.ConsensusParams{}) {\n\t\tkeepParams' $T
$M base-after-batch store/store.go '(\t\tbs\.mtx\.Unlock\(\)\n)\t\tbs\.saveState\(\)\n\n(\t\terr := batch\.WriteSync\(\)\n.*?\n\t\t\}\n)(\t\tbatch\.Close\(\)\n\t\treturn nil)' '\1\n\2\t\tbs.saveState()\n\3' $T
$M skip-seen-commit store/store.go 'if err := bs\.db\.Set\(calcSeenCommitKey\(height\), seenCommitBytes\); err != nil \{\n\t\tpanic\(err\)\n\t\}' '_ = seenCommitBytes' $T
$M block-commit-after-descriptor store/store.go '(\tif err := bs\.db\.Set\(calcBlockCommitKey\(height-1\), blockCommitBytes\); err != nil \{\n\t\tpanic\(err\)\n\t\}\n)(.*?// Save new BlockStoreState descriptor\. This also flushes the database\.\n\tbs\.saveState\(\)\n)' '\2\1' $T
$M state-record-before-infos state/store.go '(\tnextHeight := state\.LastBlockHeight \+ 1\n)(.*?)(\terr := store\.db\.SetSync\(key, state\.Bytes\(\)\)\n\tif err != nil \{\n\t\treturn err\n\t\}\n)' '\1\3\2' $T
$M prunestates-deletes-retain state/store.go 'for h := to - 1; h >= from; h--' 'for h := to; h >= from; h--' $T
$M prune-final-batch-not-written store/store.go '\terr := flush\(batch, height\)\n' '\tbs.mtx.Lock()\n\tbs.base = height\n\tbs.mtx.Unlock()\n\tbs.saveState()\n\tvar err error\n' $T
$M prunestates-no-keep-checkpoint state/store.go '\t\tkeepVals\[lastStoredHeightFor\(to, valInfo\.LastHeightChanged\)\] = true[^\n]*\n' '' $T
