#!/bin/bash
# usage: mutant.sh <name> <file> <python-regex> <replacement> [tier]
# Like /verif/tools_mutant.sh, but the scratch worktree first gets /verif/fixes/C18-*.patch applied (as long as the
# coordinator has not committed the fix, every mutant would otherwise be "killed" by the genuine defect) and only
# this run's own build directory is removed afterwards.
# VERIF_DIR (default /verif) may point to a private copy of /verif: other agents' clean-up (`rm -rf /verif/build/alt-*`)
# otherwise removes the run directory of a mutant run in flight.
set -u
NAME=$1; FILE=$2; PAT=$3; REP=$4; TIER=${5:-quick}
VERIF_DIR=${VERIF_DIR:-/verif}
WT=/tmp/mut-C18-$NAME
export GOFLAGS=-mod=mod GOPROXY=off GOSUMDB=off GOTOOLCHAIN=local
git -C /repo worktree remove --force $WT >/dev/null 2>&1
git -C /repo worktree add --detach $WT HEAD >/dev/null 2>&1 || { echo "worktree failed"; exit 2; }
for p in /verif/fixes/C18-*.patch; do
  git -C $WT apply --check $p 2>/dev/null && git -C $WT apply $p
done
python3 - "$WT/$FILE" "$PAT" "$REP" <<'PY'
import re,sys
p,pat,rep=sys.argv[1],sys.argv[2],sys.argv[3]
s=open(p).read()
n,k=re.subn(pat,rep,s,count=1,flags=re.S)
if k==0: print("MUTATION DID NOT APPLY"); sys.exit(3)
open(p,'w').write(n)
PY
[ $? -ne 0 ] && { git -C /repo worktree remove --force $WT; exit 3; }
(cd $WT && go build ./store/ ./state/ 2>&1 | head -5)
ALT=$VERIF_DIR/build/alt-$(python3 -c "import hashlib,sys;print(hashlib.sha1(sys.argv[1].encode()).hexdigest()[:10])" $WT)
VERIF_REPO=$WT VERIF_OUT=/tmp/mutout-C18-$NAME $VERIF_DIR/check C18 --tier $TIER 2>&1 | grep -E "VIOLATION|KNOWN|INCONCLUSIVE|BUILD-FAILED|tier=|journal prefix|\[live\]|FAIL:|^\s+(block|commit|seen-commit|validators|params|meta-implies-block)\(" | head -${LINES_SHOWN:-8}
rc=${PIPESTATUS[0]}
git -C /repo worktree remove --force $WT
rm -rf /tmp/mutout-C18-$NAME $ALT
echo "mutant C18/$NAME tier=$TIER rc=$rc"
