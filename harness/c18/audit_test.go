package c18

// The audit: an oracle over (block-store DB, state-store DB) that shares no code with store/ or state/store.go beyond
// calling their exported Load* functions — everything loaded is compared with what the chain builder RECORDED when it
// produced the chain (blocks, parts, ids, commits, post-states), never with other data loaded from the same stores.
//
// A "fact" is one unit of the property at one height:
//   fBlock(h)  meta, every part, the block, and the hash index entry can be loaded and agree with each other and with
//              the record (meta.BlockID = recorded id; header hashes to it; parts are the recorded bytes at their
//              index and complete the part-set header; the reassembled block hashes to the id; hash index -> h)
//   fCommit(h) LoadBlockCommit(h) is the recorded commit for h (which verifies for the recorded id under the recorded
//              validator set of h; verified once per history, and again on load in the deep variant)
//   fSeen(h)   LoadSeenCommit(h), same comparison (required for the tip only)
//   fVals(h)   state store LoadValidators(h) = recorded validator set of h (members and powers; proposer
//              priorities are property C08's business)
//   fParams(h) state store LoadConsensusParams(h) = recorded consensus params of h
//   fAhead(h)  for the ONE height above the published range (the only one that can be half-saved): if a block meta is
//              on disk, its parts and the block are too and agree with it — the store's own documented contract
//              ("the existence of meta should imply the existence of the block", store.go LoadBlock/SaveBlock), i.e.
//              metadata and parts agree with each other wherever a metadata record can be loaded
//
// Required facts for a store pair with range descriptor (Base, Height) and state height S:
//   fBlock [Base,Height], fCommit [Base,Height-1], fSeen Height, fVals/fParams [Base, top] where top = Height+1 if the
//   state store is level with the block store (S = Height) and top = Height if it lags by one block; fAhead at
//   Height+1 (at the initial height for an empty store).
//
// Reading of the recovery contract (consensus/replay.go, ReplayBlocks): "the state should never be ahead of the
// store", "store should be at most one ahead of the state": S <= Height <= S+1 (for the first block of a chain with
// InitialHeight > 1 the natural reading "next height of the state in {Height, Height+1}" is used). The block store is
// the one that may be ahead, by one block; state.Save(S) wrote validators S+2 and params S+1 BEFORE the state record,
// so a state store at S = Height-1 still serves validators and params of every height in [Base, Height] — which is
// all the property text demands ("between the block store's base and height"). Height+1 is demanded only when S =
// Height (that is what a completed Save guarantees and what LoadValidators(H+1) users such as the evidence pool and
// RPC rely on).

import (
	"bytes"
	"fmt"

	dbm "github.com/tendermint/tm-db"

	tmproto "github.com/tendermint/tendermint/proto/tendermint/types"
	sm "github.com/tendermint/tendermint/state"
	"github.com/tendermint/tendermint/store"
	"github.com/tendermint/tendermint/types"

	"verif/lib"
)

type factKind uint8

const (
	fBlock factKind = iota
	fCommit
	fSeen
	fVals
	fParams
	fAhead
)

var kindName = [...]string{"block", "commit", "seen-commit", "validators", "params", "meta-implies-block"}

type fact struct {
	k factKind
	h int64
}

func (f fact) String() string { return fmt.Sprintf("%s(%d)", kindName[f.k], f.h) }

// truth is the harness's own record of the chain.
type truth struct {
	c        *lib.Chain
	commitPB map[int64][]byte
	verified map[int64]bool // commit for h, loaded from a store, verified against the recorded validator set
}

func newTruth(c *lib.Chain) *truth {
	return &truth{c: c, commitPB: map[int64][]byte{}, verified: map[int64]bool{}}
}

func (tr *truth) commitBytes(h int64) []byte {
	if b, ok := tr.commitPB[h]; ok {
		return b
	}
	cm := tr.c.Commits[h]
	if cm == nil {
		return nil
	}
	b, err := cm.ToProto().Marshal()
	if err != nil {
		panic(err)
	}
	tr.commitPB[h] = b
	return b
}

func (tr *truth) params(h int64) (tmproto.ConsensusParams, bool) {
	st, ok := tr.c.States[h-1]
	return st.ConsensusParams, ok
}

// view is a reopened pair of stores.
type view struct {
	bs *store.BlockStore
	ss sm.Store
}

func openView(bdb, sdb dbm.DB) view {
	return view{bs: store.NewBlockStore(bdb), ss: sm.NewStore(sdb, sm.StoreOptions{})}
}

func sameValSet(a, b *types.ValidatorSet) bool {
	if a == nil || b == nil || len(a.Validators) != len(b.Validators) {
		return false
	}
	for i := range a.Validators {
		x, y := a.Validators[i], b.Validators[i]
		if !bytes.Equal(x.Address, y.Address) || x.VotingPower != y.VotingPower || !x.PubKey.Equals(y.PubKey) {
			return false
		}
	}
	return true
}

// checkFact evaluates one fact on v. deep adds the checks that are pure functions of already compared bytes
// (commit signature verification, Merkle proofs of the parts, block.ValidateBasic).
func checkFact(v view, tr *truth, f fact, deep bool) (err error) {
	defer func() {
		if r := recover(); r != nil {
			err = fmt.Errorf("%v: panic while loading: %v", f, r)
		}
	}()
	h := f.h
	c := tr.c
	switch f.k {
	case fBlock:
		id, ok := c.IDs[h]
		if !ok {
			return fmt.Errorf("%v: the harness never produced height %d", f, h)
		}
		meta := v.bs.LoadBlockMeta(h)
		if meta == nil {
			return fmt.Errorf("%v: LoadBlockMeta = nil", f)
		}
		if !meta.BlockID.Equals(id) {
			return fmt.Errorf("%v: meta.BlockID %v != recorded %v", f, meta.BlockID, id)
		}
		if meta.Header.Height != h || !bytes.Equal(meta.Header.Hash(), id.Hash) {
			return fmt.Errorf("%v: meta header (height %d) does not hash to the block id", f, meta.Header.Height)
		}
		rec := c.Blocks[h]
		if meta.NumTxs != len(rec.Data.Txs) || meta.BlockSize != rec.Size() {
			return fmt.Errorf("%v: meta numTxs/size %d/%d != recorded %d/%d", f, meta.NumTxs, meta.BlockSize, len(rec.Data.Txs), rec.Size())
		}
		if deep {
			if e := meta.ValidateBasic(); e != nil {
				return fmt.Errorf("%v: meta.ValidateBasic: %v", f, e)
			}
		}
		total := int(meta.BlockID.PartSetHeader.Total)
		var ps *types.PartSet
		if deep {
			ps = types.NewPartSetFromHeader(meta.BlockID.PartSetHeader)
		}
		for i := 0; i < total; i++ {
			p := v.bs.LoadBlockPart(h, i)
			if p == nil {
				return fmt.Errorf("%v: LoadBlockPart(%d,%d) = nil", f, h, i)
			}
			want := c.Parts[h].GetPart(i)
			if int(p.Index) != i || !bytes.Equal(p.Bytes, want.Bytes) {
				return fmt.Errorf("%v: part %d differs from the recorded part", f, i)
			}
			if deep {
				if added, e := ps.AddPart(p); e != nil || !added {
					return fmt.Errorf("%v: part %d does not fit the part-set header: added=%v err=%v", f, i, added, e)
				}
			}
		}
		if deep && !ps.IsComplete() {
			return fmt.Errorf("%v: loaded parts do not complete the part set", f)
		}
		b := v.bs.LoadBlock(h)
		if b == nil {
			return fmt.Errorf("%v: LoadBlock = nil", f)
		}
		if b.Height != h || !bytes.Equal(b.Hash(), meta.BlockID.Hash) {
			return fmt.Errorf("%v: loaded block (height %d) does not hash to meta.BlockID", f, b.Height)
		}
		if deep {
			if e := b.ValidateBasic(); e != nil {
				return fmt.Errorf("%v: block.ValidateBasic: %v", f, e)
			}
		}
		bh := v.bs.LoadBlockByHash(id.Hash)
		if bh == nil {
			return fmt.Errorf("%v: LoadBlockByHash = nil", f)
		}
		if bh.Height != h || !bytes.Equal(bh.Hash(), id.Hash) {
			return fmt.Errorf("%v: hash index leads to height %d", f, bh.Height)
		}
	case fCommit, fSeen:
		var cm *types.Commit
		if f.k == fCommit {
			cm = v.bs.LoadBlockCommit(h)
		} else {
			cm = v.bs.LoadSeenCommit(h)
		}
		if cm == nil {
			return fmt.Errorf("%v: not found", f)
		}
		got, e := cm.ToProto().Marshal()
		if e != nil {
			return fmt.Errorf("%v: %v", f, e)
		}
		want := tr.commitBytes(h)
		if want == nil {
			return fmt.Errorf("%v: the harness has no commit for %d", f, h)
		}
		if !bytes.Equal(got, want) {
			return fmt.Errorf("%v: differs from the recorded commit (loaded height %d, block %X)", f, cm.Height, cm.BlockID.Hash)
		}
		if deep && !tr.verified[h] {
			// the loaded commit is byte-identical to the recorded one: verifying it once per history settles it
			vals := c.ValidatorsAt(h)
			if e := vals.VerifyCommitLight(c.Spec.ChainID, c.IDs[h], h, cm); e != nil {
				return fmt.Errorf("%v: does not verify for the block under the recorded validator set: %v", f, e)
			}
			tr.verified[h] = true
		}
	case fVals:
		want := c.ValidatorsAt(h)
		if want == nil {
			return fmt.Errorf("%v: the harness has no validator set for %d", f, h)
		}
		got, e := v.ss.LoadValidators(h)
		if e != nil {
			return fmt.Errorf("%v: LoadValidators: %v", f, e)
		}
		if !sameValSet(got, want) || !bytes.Equal(got.Hash(), want.Hash()) {
			return fmt.Errorf("%v: loaded set %X != recorded %X", f, got.Hash(), want.Hash())
		}
	case fAhead:
		meta := v.bs.LoadBlockMeta(h)
		if meta == nil {
			return nil
		}
		b := v.bs.LoadBlock(h)
		if b == nil {
			return fmt.Errorf("%v: a block meta for unpublished height %d is on disk but the block cannot be loaded", f, h)
		}
		if !bytes.Equal(b.Hash(), meta.BlockID.Hash) {
			return fmt.Errorf("%v: block of unpublished height %d does not hash to its meta", f, h)
		}
	case fParams:
		want, ok := tr.params(h)
		if !ok {
			return fmt.Errorf("%v: the harness has no params for %d", f, h)
		}
		got, e := v.ss.LoadConsensusParams(h)
		if e != nil {
			return fmt.Errorf("%v: LoadConsensusParams: %v", f, e)
		}
		if !got.Equal(&want) {
			return fmt.Errorf("%v: loaded %v != recorded %v", f, got, want)
		}
	}
	return nil
}

// span is what the range descriptor and the state record say.
type span struct {
	base, height int64
	top          int64 // last height whose validators/params are required
	next         int64 // the height the next SaveBlock will write
	stateNext    int64 // next height according to the state store (0: empty state store)
}

func readSpan(v view, initial int64) (sp span, err error) {
	defer func() {
		if r := recover(); r != nil {
			err = fmt.Errorf("panic while opening: %v", r)
		}
	}()
	sp.base, sp.height = v.bs.Base(), v.bs.Height()
	sp.next = sp.height + 1
	if sp.height == 0 {
		sp.next = initial
	}
	st, e := v.ss.Load()
	if e != nil {
		return sp, fmt.Errorf("state Load: %v", e)
	}
	switch {
	case st.IsEmpty():
		sp.stateNext = 0
	case st.LastBlockHeight == 0:
		sp.stateNext = st.InitialHeight
	default:
		sp.stateNext = st.LastBlockHeight + 1
	}
	if sp.height == 0 {
		if sp.base != 0 {
			return sp, fmt.Errorf("height 0 with base %d", sp.base)
		}
		if sp.stateNext != 0 && sp.stateNext != initial {
			return sp, fmt.Errorf("empty block store but the state store is at next height %d", sp.stateNext)
		}
		return sp, nil
	}
	if sp.base <= 0 || sp.base > sp.height {
		return sp, fmt.Errorf("base %d / height %d", sp.base, sp.height)
	}
	if sp.base < initial {
		return sp, fmt.Errorf("base %d below the initial height %d", sp.base, initial)
	}
	switch sp.stateNext {
	case sp.height + 1:
		sp.top = sp.height + 1
	case sp.height:
		sp.top = sp.height
	default:
		return sp, fmt.Errorf("recovery contract broken: block store height %d, state store next height %d", sp.height, sp.stateNext)
	}
	return sp, nil
}

func (sp span) required(f fact) bool {
	switch f.k {
	case fBlock:
		return f.h >= sp.base && f.h <= sp.height && sp.height > 0
	case fCommit:
		return f.h >= sp.base && f.h < sp.height
	case fSeen:
		return f.h == sp.height && sp.height > 0
	case fAhead:
		return f.h == sp.next
	default:
		return f.h >= sp.base && f.h <= sp.top && sp.height > 0
	}
}

// each calls fn for every required fact, in a fixed order, for heights in [lo,hi] (clipped to the span).
func (sp span) each(lo, hi int64, fn func(fact) bool) {
	if hi >= sp.height && !fn(fact{fAhead, sp.next}) {
		return
	}
	if sp.height == 0 {
		return
	}
	if lo < sp.base {
		lo = sp.base
	}
	if hi > sp.top {
		hi = sp.top
	}
	for h := lo; h <= hi; h++ {
		for k := fBlock; k <= fParams; k++ {
			f := fact{k, h}
			if sp.required(f) && !fn(f) {
				return
			}
		}
	}
}

type failure struct {
	f   fact
	err error
}

// plainAudit checks every required fact with heights in the given windows (nil = whole range) directly, without
// memoisation.
func plainAudit(v view, tr *truth, initial int64, windows [][2]int64, deep bool) (span, []failure, error) {
	sp, err := readSpan(v, initial)
	if err != nil {
		return sp, nil, err
	}
	if windows == nil {
		windows = [][2]int64{{sp.base, sp.top}}
	}
	var fails []failure
	done := map[fact]bool{}
	for _, w := range windows {
		sp.each(w[0], w[1], func(f fact) bool {
			if done[f] {
				return true
			}
			done[f] = true
			if e := checkFact(v, tr, f, deep); e != nil {
				fails = append(fails, failure{f, e})
			}
			return len(fails) < 8
		})
	}
	if sp.height > 0 {
		func() {
			defer func() {
				if r := recover(); r != nil {
					fails = append(fails, failure{fact{fBlock, sp.base}, fmt.Errorf("LoadBaseMeta panicked: %v", r)})
				}
			}()
			if m := v.bs.LoadBaseMeta(); m == nil || m.Header.Height != sp.base {
				fails = append(fails, failure{fact{fBlock, sp.base}, fmt.Errorf("LoadBaseMeta does not return the block at base %d", sp.base)})
			}
		}()
	}
	return sp, fails, nil
}

// ---------------------------------------------------------------------------------------------------------------
// memoised audit over a journal replay

// trackDB records the keys read while a fact is being verified. The audit must never write.
type trackDB struct {
	dbm.DB
	name string
	cur  *[]string
	scan bool
}

func (t *trackDB) note(key []byte) {
	if t.cur != nil {
		*t.cur = append(*t.cur, t.name+"\x00"+string(key))
	}
}
func (t *trackDB) Get(key []byte) ([]byte, error) { t.note(key); return t.DB.Get(key) }
func (t *trackDB) Has(key []byte) (bool, error)   { t.note(key); return t.DB.Has(key) }
func (t *trackDB) Iterator(s, e []byte) (dbm.Iterator, error) {
	t.scan = true
	return t.DB.Iterator(s, e)
}
func (t *trackDB) ReverseIterator(s, e []byte) (dbm.Iterator, error) {
	t.scan = true
	return t.DB.ReverseIterator(s, e)
}
func (t *trackDB) Set([]byte, []byte) error     { panic("c18: the audit wrote to the database") }
func (t *trackDB) SetSync([]byte, []byte) error { panic("c18: the audit wrote to the database") }
func (t *trackDB) Delete([]byte) error          { panic("c18: the audit wrote to the database") }
func (t *trackDB) DeleteSync([]byte) error      { panic("c18: the audit wrote to the database") }
func (t *trackDB) NewBatch() dbm.Batch          { panic("c18: the audit opened a batch") }

// memoAuditor evaluates the full audit on every prefix of the journal. A verified fact is remembered together with
// the set of keys that were read while verifying it (present or absent); it stays valid until a later journal entry
// mutates one of those keys. The verdict at every prefix therefore equals that of a full audit from scratch (the
// audit is a pure function of the keys it reads) at a cost proportional to what the last entry touched.
type memoAuditor struct {
	tr      *truth
	initial int64
	rp      *lib.CrashReplay
	bt, st  *trackDB
	valid   map[fact]bool
	reads   map[fact][]string
	readers map[string]map[fact]struct{}
	recheck []fact
	last    span
	fresh   bool
	Checked int64 // facts actually evaluated
}

func newMemoAuditor(j *lib.CrashJournal, tr *truth, initial int64, blockName, stateName string) *memoAuditor {
	rp := j.Replay()
	return &memoAuditor{tr: tr, initial: initial, rp: rp,
		bt: &trackDB{DB: rp.DB(blockName), name: blockName}, st: &trackDB{DB: rp.DB(stateName), name: stateName},
		valid: map[fact]bool{}, reads: map[fact][]string{}, readers: map[string]map[fact]struct{}{}, fresh: true}
}

func (m *memoAuditor) invalidate(f fact) {
	if !m.valid[f] {
		return
	}
	delete(m.valid, f)
	for _, k := range m.reads[f] {
		if s := m.readers[k]; s != nil {
			delete(s, f)
			if len(s) == 0 {
				delete(m.readers, k)
			}
		}
	}
	delete(m.reads, f)
	m.recheck = append(m.recheck, f)
}

// step applies the next journal entry (without auditing).
func (m *memoAuditor) step() (lib.CrashOp, bool) {
	op, ok := m.rp.Step()
	if !ok {
		return op, false
	}
	for _, mu := range op.Muts {
		key := op.DB + "\x00" + string(mu.Key)
		if s := m.readers[key]; len(s) > 0 {
			fs := make([]fact, 0, len(s))
			for f := range s {
				fs = append(fs, f)
			}
			for _, f := range fs {
				m.invalidate(f)
			}
		}
	}
	return op, true
}

func (m *memoAuditor) verify(v view, f fact) error {
	var reads []string
	m.bt.cur, m.st.cur = &reads, &reads
	m.bt.scan, m.st.scan = false, false
	err := checkFact(v, m.tr, f, false)
	m.bt.cur, m.st.cur = nil, nil
	m.Checked++
	if err != nil {
		return err
	}
	if m.bt.scan || m.st.scan {
		return nil // verified, but not cacheable (never happens with the current Load* functions)
	}
	m.valid[f] = true
	m.reads[f] = reads
	for _, k := range reads {
		s := m.readers[k]
		if s == nil {
			s = map[fact]struct{}{}
			m.readers[k] = s
		}
		s[f] = struct{}{}
	}
	return nil
}

// audit evaluates the audit at the current prefix.
func (m *memoAuditor) audit() (span, []failure, error) {
	v := openView(m.bt, m.st)
	sp, err := readSpan(v, m.initial)
	if err != nil {
		return sp, nil, err
	}
	var fails []failure
	if m.fresh || sp != m.last {
		sp.each(sp.base, sp.top, func(f fact) bool {
			if !m.valid[f] {
				if e := m.verify(v, f); e != nil {
					fails = append(fails, failure{f, e})
				}
			}
			return len(fails) < 8
		})
	} else {
		for _, f := range m.recheck {
			if sp.required(f) && !m.valid[f] {
				if e := m.verify(v, f); e != nil {
					fails = append(fails, failure{f, e})
				}
			}
		}
	}
	m.recheck = m.recheck[:0]
	for _, fl := range fails {
		m.recheck = append(m.recheck, fl.f) // still invalid: look again at the next prefix
	}
	m.last, m.fresh = sp, len(fails) >= 8 // a sweep cut short must be redone in full
	return sp, fails, nil
}
