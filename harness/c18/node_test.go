package c18

import (
	"fmt"
	"strings"
	"testing"

	"pgregory.net/rapid"

	"verif/lib"
	"verif/pnode"
)

// TestNodePruneCrashPoints evaluates the C18 statement on a REAL node (verif/pnode: real consensus.State with its
// own pruneBlocks, real Handshaker, block store and state store behind crash-point databases): the application
// returns a retain height at some commit (the previous block, only the committed block, or a height above the tip,
// which the block store refuses), the process is killed at a drawn persistence operation (every DB write of the
// save and of the prune is one), possibly again during recovery, and after every recovery and at the end of every
// incarnation pnode.CheckStores walks [base, height] of what is on disk.
//
// The other tests of this package replay consensus.pruneBlocks' calls themselves; this one runs the real call site,
// so the ORDER in which the node prunes its two stores, and what it does when one of them refuses, is under test.
func TestNodePruneCrashPoints(t *testing.T) {
	const test = "TestNodePruneCrashPoints"
	rapid.Check(t, func(t *rapid.T) {
		h := pnode.GenHistory(t)
		h.AppRollback = 0
		if h.RetainAt <= 1 { // this test is about pruning: every history prunes
			h.RetainAt = int64(rapid.IntRange(2, int(h.Heights)+1).Draw(t, "retainAtForced"))
		}
		total, err := pnode.OpsOf(h)
		if err != nil {
			t.Fatalf("C18 violated: %v", err)
		}
		// half of the crash indices fall into the last third of the run, where the prune is
		k := rapid.IntRange(0, total-1).Draw(t, "crashIndex")
		if rapid.Bool().Draw(t, "late") {
			k = rapid.IntRange(total*2/3, total+2).Draw(t, "lateCrashIndex") // beyond the run = no crash: the end-of-run audit still applies
		}
		cut := rapid.SampledFrom([]float64{0, 0.5, 1}).Draw(t, "cutFrac")
		var rec []int
		for i := rapid.IntRange(0, 1).Draw(t, "recoveryCrashes"); i > 0; i-- {
			rec = append(rec, rapid.IntRange(0, 70).Draw(t, "recoveryCrashIndex"))
		}
		res, err := pnode.RunCrash(h, k, cut, rec)
		if err != nil {
			t.Fatalf("VERIF-INFRA: %v", err)
		}
		cls := []string{fmt.Sprintf("retain:tip%+d", h.RetainDelta)}
		if res.NoCrash {
			cls = append(cls, "no-crash")
		} else {
			cls = append(cls, "crash-at:"+res.CrashLabel, fmt.Sprintf("crashes:%d", len(res.Crashes)))
		}
		lib.Case(test, lib.FP(h.Heights, h.Txs, h.AddValAt, h.ParamAt, h.RetainAt, h.RetainDelta, h.Initial, k, res.Crashes), true, cls...)
		if lib.WantSample(test) {
			lib.Sample(test, map[string]interface{}{"heights": h.Heights, "initial_height": h.Initial, "add_validator_at": h.AddValAt, "param_change_at": h.ParamAt,
				"retain_at": h.RetainAt, "retain_height_relative_to_tip": h.RetainDelta, "crash_index": k, "crashes": res.Crashes})
		}
		if v, bad := res.Violations["C18"]; bad {
			t.Fatalf("C18 violated: %s\nhistory=%+v crash=%d (%s) crashes=%v\ntrace:\n%s", v, h, k, res.CrashLabel, res.Crashes, strings.Join(res.Trace, "\n"))
		}
	})
}
