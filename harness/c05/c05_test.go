// C05 — the application sees each block exactly once, in order, even across crashes; after any restart state
// store, block store and application agree and the node goes on committing.
//
// Fault enumeration over a real node (verif/pnode): real FilePV, real WAL, real Handshaker, real
// consensus.State.Start() + receiveRoutine, crash = panic at the k-th persistence operation (every DB mutation,
// WAL write / fsync, signer call, application call), WAL tail cut inside the unsynced region, further crashes
// during recovery. Oracle: recording-application journal grammar + cursor agreement + liveness after recovery.
package c05

import (
	"fmt"
	"strings"
	"testing"

	"pgregory.net/rapid"

	"verif/lib"
	"verif/pnode"
)

func TestMain(m *testing.M) { lib.Main(m) }

const prop = "C05"

func record(test string, res *pnode.Result) {
	nontrivial := !res.NoCrash
	cls := []string{}
	if res.NoCrash {
		cls = append(cls, "no-crash(index beyond run)")
	} else {
		cls = append(cls, "crash-at:"+res.CrashLabel, fmt.Sprintf("crashes:%d", len(res.Crashes)))
		if res.TornTail {
			cls = append(cls, "wal-tail-cut-inside-unsynced-region")
		}
		if res.ReplayCompared {
			cls = append(cls, "replay-compared")
		}
		if res.ReplayExact {
			cls = append(cls, "replay-exact-hrs")
		}
		if res.History.DBLoss > 0 {
			cls = append(cls, "power-loss-model")
		}
		if res.DBWritesLost > 0 {
			cls = append(cls, "unsynced-db-writes-lost")
		}
	}
	lib.Case(test, lib.FP(res.History.Heights, res.History.Txs, res.History.Salted, res.History.AddValAt, res.History.ParamAt, res.History.RetainAt, res.History.RetainDelta,
		res.CrashIndex, res.Crashes, res.CutAt-res.HeadSynced), nontrivial, cls...)
	if nontrivial && lib.WantSample(test) {
		var sigs []string
		for _, s := range res.SignLog {
			sigs = append(sigs, s.String())
		}
		if len(sigs) > 30 {
			sigs = sigs[:30]
		}
		lib.Sample(test, map[string]interface{}{"heights": res.History.Heights, "salted_mempool_after_restart": res.History.Salted,
			"add_validator_at": res.History.AddValAt, "param_change_at": res.History.ParamAt, "retain_at": res.History.RetainAt,
			"crash_index": res.CrashIndex, "crashes": res.Crashes, "wal_head_synced": res.HeadSynced, "wal_head_on_disk": res.HeadOnDisk, "wal_cut_at": res.CutAt,
			"recovered_state": res.Recovered.String(), "app_journal_entries": res.Journal, "signatures(first30)": sigs})
	}
}

// TestCrashPoints: per case a history, a drawn crash index (uniform over the history's persistence operations),
// a drawn cut of the unsynced WAL tail and 0..2 further crashes during recovery.
func TestCrashPoints(t *testing.T) {
	rapid.Check(t, func(t *rapid.T) {
		h := pnode.GenHistory(t)
		total, err := pnode.OpsOf(h)
		if err != nil {
			t.Fatalf("%s violated: %v", prop, err)
		}
		k := rapid.IntRange(0, total-1).Draw(t, "crashIndex")
		cut := rapid.Float64Range(0, 1).Draw(t, "cutFrac")
		switch rapid.IntRange(0, 3).Draw(t, "cutMode") {
		case 0:
			cut = 0
		case 1:
			cut = 1
		}
		var rec []int
		for i := rapid.IntRange(0, 2).Draw(t, "recoveryCrashes"); i > 0; i-- {
			rec = append(rec, rapid.IntRange(0, 70).Draw(t, "recoveryCrashIndex"))
		}
		res, err := pnode.RunCrash(h, k, cut, rec)
		if err != nil {
			t.Fatalf("VERIF-INFRA: %v", err)
		}
		record("TestCrashPoints", res)
		if v, bad := res.Violations[prop]; bad {
			t.Fatalf("%s violated: %s\nhistory=%+v crash=%d (%s) crashes=%v cut=%d in [%d,%d]\ntrace:\n%s", prop, v, h, k, res.CrashLabel, res.Crashes, res.CutAt, res.HeadSynced, res.HeadOnDisk, strings.Join(res.Trace, "\n"))
		}
	})
}

// TestEnumerateAllCrashPoints: VERIF_N histories, EVERY persistence operation of each as a crash point
// (cut at synced size, at on-disk size and in the middle).
func TestEnumerateAllCrashPoints(t *testing.T) {
	rapid.Check(t, func(t *rapid.T) {
		h := pnode.GenHistory(t)
		total, err := pnode.OpsOf(h)
		if err != nil {
			t.Fatalf("%s violated: %v", prop, err)
		}
		for k := 0; k < total; k++ {
			for _, cut := range []float64{0, 0.5, 1} {
				res, err := pnode.RunCrash(h, k, cut, nil)
				if err != nil {
					t.Fatalf("VERIF-INFRA: %v", err)
				}
				record("TestEnumerateAllCrashPoints", res)
				if v, bad := res.Violations[prop]; bad {
					t.Fatalf("%s violated: %s\nhistory=%+v crash=%d (%s) cut=%d in [%d,%d]\ntrace:\n%s", prop, v, h, k, res.CrashLabel, res.CutAt, res.HeadSynced, res.HeadOnDisk, strings.Join(res.Trace, "\n"))
				}
				if res.HeadOnDisk == res.HeadSynced {
					break // nothing unsynced: one cut is all there is
				}
			}
		}
		lib.Class("TestEnumerateAllCrashPoints", "histories-fully-enumerated")
	})
}
