package c05

import (
	"fmt"
	"os"
	"path/filepath"
	"runtime"
	"sync"
	"testing"
	"time"

	dbm "github.com/tendermint/tm-db"

	abciserver "github.com/tendermint/tendermint/abci/server"
	abci "github.com/tendermint/tendermint/abci/types"
	cfg "github.com/tendermint/tendermint/config"
	"github.com/tendermint/tendermint/libs/log"
	mempl "github.com/tendermint/tendermint/mempool"
	mempoolv0 "github.com/tendermint/tendermint/mempool/v0"
	mempoolv1 "github.com/tendermint/tendermint/mempool/v1"
	"github.com/tendermint/tendermint/proxy"
	rpccore "github.com/tendermint/tendermint/rpc/core"
	rpctypes "github.com/tendermint/tendermint/rpc/jsonrpc/types"
	sm "github.com/tendermint/tendermint/state"
	"github.com/tendermint/tendermint/types"
	"pgregory.net/rapid"

	"verif/lib"
)

// C05, last sentence, for the OTHER way a check of a new transaction reaches the mempool connection: the `check_tx`
// RPC (rpc/core CheckTx, route "check_tx"; rpc/client Local/HTTP CheckTx). It does not submit the transaction, but
// it is a CheckTx(New) on the mempool connection all the same, so it has to keep out of the window "commit requested
// .. mempool updated and rechecked" like every other one.
//
// TestRPCCheckTxQuietDuringCommit: the pool is filled first (so that there is something to recheck); then G
// goroutines call rpc/core.CheckTx (environment as node.ConfigureRPC sets it: ProxyAppMempool + Mempool) while blocks
// are applied through BlockExecutor.ApplyBlock; nothing else produces new checks in that phase, so every violation
// of the journal oracle of TestMempoolQuietDuringCommit (judge) is the RPC's. Mempool v0 and v1, socket and local
// ABCI client. Schedule sampling; the oracle holds under every interleaving.

const rpcQuietKnown = "C05-rpc-check-tx-outside-lock"

type rpcQuietEnv struct {
	app   *quietApp
	mp    mempl.Mempool
	exec  *sm.BlockExecutor
	state sm.State
	gen   *types.GenesisDoc
	close func()
}

func newRPCQuietEnv(version, client string, recheck bool, pattern []int) (*rpcQuietEnv, error) {
	app := &quietApp{pattern: pattern}
	dir, err := os.MkdirTemp("/tmp", "c05r") // short: unix socket paths are limited to ~108 bytes
	if err != nil {
		return nil, err
	}
	var closers []func()
	closeAll := func() {
		for i := len(closers) - 1; i >= 0; i-- {
			closers[i]()
		}
	}
	closers = append(closers, func() { os.RemoveAll(dir) })
	var cc proxy.ClientCreator
	if client == "socket" {
		addr := "unix://" + filepath.Join(dir, "app.sock")
		srv := abciserver.NewSocketServer(addr, app)
		srv.SetLogger(log.NewNopLogger())
		if err := srv.Start(); err != nil {
			closeAll()
			return nil, err
		}
		closers = append(closers, func() { srv.Stop() }) //nolint
		cc = proxy.NewRemoteClientCreator(addr, "socket", true)
	} else {
		cc = proxy.NewLocalClientCreator(app)
	}
	conns := proxy.NewAppConns(cc)
	conns.SetLogger(log.NewNopLogger())
	if err := conns.Start(); err != nil {
		closeAll()
		return nil, err
	}
	closers = append(closers, func() { conns.Stop() }) //nolint
	pk := lib.Key(0).PubKey()
	gen := &types.GenesisDoc{GenesisTime: time.Now().Add(-time.Hour).UTC(), ChainID: "rpc-quiet-chain", InitialHeight: 1,
		ConsensusParams: types.DefaultConsensusParams(),
		Validators:      []types.GenesisValidator{{Address: pk.Address(), PubKey: pk, Power: 10, Name: "v0"}}}
	if err := gen.ValidateAndComplete(); err != nil {
		closeAll()
		return nil, err
	}
	state, err := sm.MakeGenesisState(gen)
	if err != nil {
		closeAll()
		return nil, err
	}
	state.AppHash = nil
	store := sm.NewStore(dbm.NewMemDB(), sm.StoreOptions{})
	if err := store.Save(state); err != nil {
		closeAll()
		return nil, err
	}
	mcfg := cfg.TestMempoolConfig()
	mcfg.Recheck = recheck
	mcfg.Size = 10000
	var mp mempl.Mempool
	if version == "v0" {
		mp = mempoolv0.NewCListMempool(mcfg, conns.Mempool(), 0)
	} else {
		mp = mempoolv1.NewTxMempool(log.NewNopLogger(), mcfg, conns.Mempool(), 0)
	}
	// what node.ConfigureRPC hands to rpc/core (the parts the mempool routes use)
	rpccore.SetEnvironment(&rpccore.Environment{ProxyAppMempool: conns.Mempool(), Mempool: mp, Logger: log.NewNopLogger(), GenDoc: gen})
	return &rpcQuietEnv{app: app, mp: mp, state: state, gen: gen, close: closeAll,
		exec: sm.NewBlockExecutor(store, log.NewNopLogger(), conns.Consensus(), mp, sm.EmptyEvidencePool{})}, nil
}

// applyBlocks commits `heights` blocks taking up to 10 pooled transactions each.
func (e *rpcQuietEnv) applyBlocks(heights int, gap func() time.Duration) error {
	pk := lib.Key(0).PubKey()
	lastCommit := types.NewCommit(0, 0, types.BlockID{}, nil)
	for h := int64(1); h <= int64(heights); h++ {
		txs := e.mp.ReapMaxBytesMaxGas(-1, -1)
		if len(txs) > 10 {
			txs = txs[:10]
		}
		block, parts := e.state.MakeBlock(h, txs, lastCommit, nil, pk.Address())
		id := types.BlockID{Hash: block.Hash(), PartSetHeader: parts.Header()}
		commit := lib.SignCommit(e.gen.ChainID, h, 0, id, e.state.Validators, nil, block.Time, nil)
		st, _, err := e.exec.ApplyBlock(e.state, id, block)
		if err != nil {
			return fmt.Errorf("ApplyBlock %d: %w", h, err)
		}
		e.state, lastCommit = st, commit
		if gap != nil {
			time.Sleep(gap())
		}
	}
	return nil
}

func (e *rpcQuietEnv) settle() []evKind {
	e.mp.Lock()
	_ = e.mp.FlushAppConn()
	e.mp.Unlock()
	for quiet, last := 0, -1; quiet < 10; {
		time.Sleep(2 * time.Millisecond)
		e.app.mu.Lock()
		n := len(e.app.events)
		e.app.mu.Unlock()
		if n == last {
			quiet++
		} else {
			quiet, last = 0, n
		}
	}
	e.app.mu.Lock()
	defer e.app.mu.Unlock()
	return append([]evKind(nil), e.app.events...)
}

func TestRPCCheckTxQuietDuringCommit(t *testing.T) {
	const test = "TestRPCCheckTxQuietDuringCommit"
	rapid.Check(t, func(t *rapid.T) {
		version := rapid.SampledFrom([]string{"v0", "v0", "v1"}).Draw(t, "mempool")
		client := rapid.SampledFrom([]string{"socket", "socket", "local"}).Draw(t, "client")
		var pattern []int
		for i := 0; i < 16; i++ {
			pattern = append(pattern, rapid.SampledFrom([]int{0, 0, 1, 1, 5, 20, 80}).Draw(t, "perturb"))
		}
		callers := rapid.IntRange(1, 8).Draw(t, "rpcCallers")
		perG := rapid.IntRange(3, 25).Draw(t, "callsPerCaller")
		heights := rapid.IntRange(2, 5).Draw(t, "heights")
		prefill := rapid.IntRange(0, 60).Draw(t, "pooledBefore")
		recheck := rapid.IntRange(0, 4).Draw(t, "recheck") != 0
		gaps := make([]int, heights)
		for i := range gaps {
			gaps[i] = rapid.IntRange(0, 300).Draw(t, "gap")
		}
		e, err := newRPCQuietEnv(version, client, recheck, pattern)
		if err != nil {
			t.Fatalf("VERIF-INFRA: %v", err)
		}
		defer e.close()
		for i := 0; i < prefill; i++ {
			_ = e.mp.CheckTx(types.Tx(fmt.Sprintf("pooled-%d", i)), nil, mempl.TxInfo{})
		}
		before := len(e.settle()) // everything so far happened before the first commit was requested
		var wg sync.WaitGroup
		stop := make(chan struct{})
		for g := 0; g < callers; g++ {
			wg.Add(1)
			go func(g int) {
				defer wg.Done()
				for i := 0; i < perG; i++ {
					select {
					case <-stop:
						return
					default:
					}
					_, _ = rpccore.CheckTx(&rpctypes.Context{}, types.Tx(fmt.Sprintf("rpc-%d-%d", g, i)))
					if i%3 == g%3 {
						runtime.Gosched()
					}
				}
			}(g)
		}
		gi := 0
		err = e.applyBlocks(heights, func() time.Duration { d := time.Duration(gaps[gi%len(gaps)]) * time.Microsecond; gi++; return d })
		close(stop)
		wg.Wait()
		if err != nil {
			t.Fatalf("VERIF-INFRA: %v", err)
		}
		events := e.settle()[before:]
		nNew, nRe, concurrent, seenCommit := 0, 0, false, false
		for _, ev := range events {
			switch ev {
			case newStart:
				nNew++
				concurrent = concurrent || seenCommit
			case recheckStart:
				nRe++
			case commitStart:
				seenCommit = true
			}
		}
		lib.Case(test, lib.FP(version, client, callers, perG, heights, prefill, recheck, len(events), nNew, nRe), concurrent,
			"mempool:"+version, "client:"+client, fmt.Sprintf("recheck:%v", recheck), fmt.Sprintf("rechecks-seen:%v", nRe > 0))
		if v, _, _ := judge(events); v != "" {
			if v1 := "C05-v1-checktx-outside-lock"; version == "v1" && lib.IsKnown(v1) {
				// v1 starts its rechecks on goroutines of their own after Update has returned and the lock is released
				// (part of the listed v1 finding): no caller-side locking can order a new check behind them
				lib.ObservedKnown(v1)
				lib.ExcludedByKnown(v1)
				return
			}
			if lib.IsKnown(rpcQuietKnown) {
				lib.ObservedKnown(rpcQuietKnown)
				lib.ExcludedByKnown(rpcQuietKnown)
				return
			}
			t.Fatalf("C05 violated by the check_tx RPC (mempool %s, %s ABCI client, %d callers; nothing but rpc/core.CheckTx issues new checks in this phase): %s\n(new checks %d, rechecks %d, %d application events)",
				version, client, callers, v, nNew, nRe, len(events))
		}
	})
}

// TestRegressRPCCheckTxDuringCommit (finding C05-rpc-check-tx-outside-lock): three transactions are pooled, an empty
// block is applied (so all three are rechecked after the commit); the application's Commit handler takes 100 ms and a
// check_tx RPC call is made as soon as it has begun. The application must see the three rechecks of that block
// before the CheckTx(New) of the RPC call (with the mempool locked from the commit request until the recheck
// requests are out - as for every other source of checks - the call waits and queues up behind them); on the
// defective code the new check is on the mempool connection first and the application executes it right after
// Commit, before any recheck. Socket ABCI client; no case where the repaired code can fail by timing.
func TestRegressRPCCheckTxDuringCommit(t *testing.T) {
	// v0 only: v1 issues its rechecks asynchronously after the mempool lock is released (listed finding
	// C05-v1-checktx-outside-lock), so for v1 the order asserted here cannot be had by any locking on the caller's side
	for _, version := range []string{"v0"} {
		app := &regressRPCApp{inCommit: make(chan struct{})}
		dir, err := os.MkdirTemp("/tmp", "c05rr")
		if err != nil {
			t.Fatalf("VERIF-INFRA: %v", err)
		}
		addr := "unix://" + filepath.Join(dir, "app.sock")
		srv := abciserver.NewSocketServer(addr, app)
		srv.SetLogger(log.NewNopLogger())
		if err := srv.Start(); err != nil {
			t.Fatalf("VERIF-INFRA: %v", err)
		}
		conns := proxy.NewAppConns(proxy.NewRemoteClientCreator(addr, "socket", true))
		conns.SetLogger(log.NewNopLogger())
		if err := conns.Start(); err != nil {
			t.Fatalf("VERIF-INFRA: %v", err)
		}
		pk := lib.Key(0).PubKey()
		gen := &types.GenesisDoc{GenesisTime: time.Now().Add(-time.Hour).UTC(), ChainID: "rpc-regress-chain", InitialHeight: 1,
			ConsensusParams: types.DefaultConsensusParams(),
			Validators:      []types.GenesisValidator{{Address: pk.Address(), PubKey: pk, Power: 10, Name: "v0"}}}
		if err := gen.ValidateAndComplete(); err != nil {
			t.Fatalf("VERIF-INFRA: %v", err)
		}
		state, _ := sm.MakeGenesisState(gen)
		state.AppHash = nil
		store := sm.NewStore(dbm.NewMemDB(), sm.StoreOptions{})
		store.Save(state) //nolint
		mcfg := cfg.TestMempoolConfig()
		mcfg.Recheck = true
		var mp mempl.Mempool
		if version == "v0" {
			mp = mempoolv0.NewCListMempool(mcfg, conns.Mempool(), 0)
		} else {
			mp = mempoolv1.NewTxMempool(log.NewNopLogger(), mcfg, conns.Mempool(), 0)
		}
		rpccore.SetEnvironment(&rpccore.Environment{ProxyAppMempool: conns.Mempool(), Mempool: mp, Logger: log.NewNopLogger(), GenDoc: gen})
		exec := sm.NewBlockExecutor(store, log.NewNopLogger(), conns.Consensus(), mp, sm.EmptyEvidencePool{})
		for i := 0; i < 3; i++ {
			mp.CheckTx(types.Tx(fmt.Sprintf("pooled-%d", i)), nil, mempl.TxInfo{}) //nolint
		}
		mp.Lock()
		mp.FlushAppConn() //nolint
		mp.Unlock()
		if mp.Size() != 3 {
			t.Fatalf("VERIF-INFRA: pool holds %d transactions, wanted 3", mp.Size())
		}
		block, parts := state.MakeBlock(1, nil, types.NewCommit(0, 0, types.BlockID{}, nil), nil, pk.Address())
		id := types.BlockID{Hash: block.Hash(), PartSetHeader: parts.Header()}
		rpcDone := make(chan struct{})
		go func() {
			defer close(rpcDone)
			<-app.inCommit                                                           // Commit has been requested and is running
			rpccore.CheckTx(&rpctypes.Context{}, types.Tx("asked-through-check_tx")) //nolint
		}()
		_, _, err = exec.ApplyBlock(state, id, block)
		<-rpcDone
		// let the (asynchronous) rechecks arrive
		for i := 0; i < 500 && app.count(recheckStart) < 3; i++ {
			time.Sleep(2 * time.Millisecond)
		}
		conns.Stop() //nolint
		srv.Stop()   //nolint
		os.RemoveAll(dir)
		if err != nil {
			t.Fatalf("VERIF-INFRA: ApplyBlock: %v", err)
		}
		app.mu.Lock()
		events := append([]evKind(nil), app.events...)
		app.mu.Unlock()
		if app.count(recheckStart) < 3 {
			t.Fatalf("VERIF-INFRA: the application saw %d of 3 rechecks", app.count(recheckStart))
		}
		if v, _, _ := judge(events[app.firstCommit:]); v != "" {
			t.Fatalf("C05 violated (mempool %s): a check_tx RPC call made while the application executes Commit: %s", version, v)
		}
	}
}

type regressRPCApp struct {
	abci.BaseApplication
	inCommit    chan struct{}
	mu          sync.Mutex
	events      []evKind
	firstCommit int
}

func (a *regressRPCApp) rec(k evKind) {
	a.mu.Lock()
	a.events = append(a.events, k)
	a.mu.Unlock()
}

func (a *regressRPCApp) count(k evKind) int {
	a.mu.Lock()
	defer a.mu.Unlock()
	n := 0
	for _, e := range a.events {
		if e == k {
			n++
		}
	}
	return n
}

func (a *regressRPCApp) CheckTx(req abci.RequestCheckTx) abci.ResponseCheckTx {
	if req.Type == abci.CheckTxType_Recheck {
		a.rec(recheckStart)
		a.rec(recheckEnd)
	} else {
		a.rec(newStart)
		a.rec(newEnd)
	}
	return abci.ResponseCheckTx{Code: 0, GasWanted: 1}
}

func (a *regressRPCApp) Commit() abci.ResponseCommit {
	a.mu.Lock()
	a.firstCommit = len(a.events)
	a.mu.Unlock()
	a.rec(commitStart)
	close(a.inCommit)
	time.Sleep(100 * time.Millisecond) // the RPC call is made now
	a.rec(commitEnd)
	return abci.ResponseCommit{Data: []byte("regress-app-hash")}
}
