package c05

import (
	"github.com/tendermint/tendermint/types"
	"strings"
	"testing"
	"time"

	"verif/pnode"
)

// TestRegressMissingEndHeightThenSecondCrash replays finding C05-missing-endheight-second-crash without the
// library: crash right after the block store saved block 2 (before "#ENDHEIGHT 2" reaches the WAL), restart
// (the handshake applies block 2), then crash again anywhere while working on height 3: the node must come back
// and go on committing. Before the repair the second restart could not replay height 3 (no "#ENDHEIGHT 2" ever
// written), so the node had signed votes for height 3 it no longer knew about, the signer refused everything and
// a single-validator chain stopped for good.
func TestRegressMissingEndHeightThenSecondCrash(t *testing.T) {
	h := pnode.History{Heights: 3, GenTime: time.Now().Add(-time.Hour).UTC(), PowerSelf: 10}
	labels, err := pnode.OpLabels(h)
	if err != nil {
		t.Fatalf("VERIF-INFRA: %v", err)
	}
	// the block-store range descriptor write (SetSync) of the 2nd saved block
	k, seen := -1, 0
	for i, l := range labels {
		if l == "blockdb.SetSync:after" {
			seen++
			if seen == 2 {
				k = i
			}
		}
	}
	if k < 0 {
		t.Fatalf("VERIF-INFRA: crash point not found in %d ops", len(labels))
	}
	for second := 0; second < 70; second++ {
		res, err := pnode.RunCrash(h, k, 0, []int{second})
		if err != nil {
			t.Fatalf("VERIF-INFRA: %v", err)
		}
		if v, bad := res.Violations["C05"]; bad {
			t.Fatalf("C05 violated (second crash at op %d of the restarted node): %s\ncrashes=%v\ntrace:\n%s", second, v, res.Crashes, strings.Join(res.Trace, "\n"))
		}
	}
}

// TestRegressInitialHeightFirstBlockCrash replays finding C05-initial-height-first-block-crash: genesis initial
// height > 1, crash after the first block reached the block store but before the state was saved: every crash
// point inside the commit pipeline of the first block must be recoverable.
func TestRegressInitialHeightFirstBlockCrash(t *testing.T) {
	h := pnode.History{Heights: 2, Initial: 7, GenTime: time.Now().Add(-time.Hour).UTC(), PowerSelf: 10}
	labels, err := pnode.OpLabels(h)
	if err != nil {
		t.Fatalf("VERIF-INFRA: %v", err)
	}
	// from the first block-store write to the state save that ends the first block's commit
	first, last := -1, -1
	for i, l := range labels {
		if strings.HasPrefix(l, "blockdb.") && first < 0 {
			first = i
		}
		if l == "app.CommitDone" && last < 0 {
			last = i + 8
		}
	}
	if first < 0 || last < 0 {
		t.Fatalf("VERIF-INFRA: commit pipeline not found")
	}
	for k := first; k <= last && k < len(labels); k++ {
		res, err := pnode.RunCrash(h, k, 0, nil)
		if err != nil {
			t.Fatalf("VERIF-INFRA: %v", err)
		}
		if v, bad := res.Violations["C05"]; bad {
			t.Fatalf("C05 violated (crash at op %d %s): %s", k, labels[k], v)
		}
	}
}

// TestRegressReplayCommitsBehindTornTail: library-free replay of the finding C05-replay-appends-behind-torn-tail (found
// by the thorough tier, saved input TestCrashPoints-20260926122853). A crash tears the record that follows the node's
// own precommit; on restart the catch-up replay re-applies that precommit, commits the block and writes its #ENDHEIGHT
// - behind the torn record it has not read yet, whose length field then swallows everything written afterwards. Two
// restarts later the repair truncates the log at the torn record and the node's synced votes of the next height are
// gone: the signer refuses to sign them again and the node never commits. (The unrepaired tree fails about 5 runs in
// 6: record sizes vary by a byte or two with the wall clock, which moves the cut.)
func TestRegressReplayCommitsBehindTornTail(t *testing.T) {
	for run := 0; run < 5; run++ {
		h := pnode.History{Heights: 3, Txs: map[int64][]types.Tx{5: {types.Tx("tx-5-0-ckeb"), types.Tx("tx-5-1-adqadpga")}, 6: {types.Tx("tx-6-0-bhrbc")}},
			Salted: true, AddValAt: 2, RetainAt: 1, RetainDelta: 1, DiscardABCI: true, Initial: 1<<53 + 3,
			GenTime: time.Now().Add(-time.Hour).UTC(), PowerSelf: 10}
		res, err := pnode.RunCrash(h, 156, 0.18582308292388916, []int{21, 39})
		if err != nil {
			t.Fatalf("VERIF-INFRA: %v", err)
		}
		if v, bad := res.Violations["C05"]; bad {
			t.Fatalf("C05 violated (run %d): %s\ncrashes=%v", run, v, res.Crashes)
		}
	}
}
