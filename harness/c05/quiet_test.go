package c05

import (
	"fmt"
	"os"
	"path/filepath"
	"runtime"
	"sync"
	"sync/atomic"
	"testing"
	"time"

	dbm "github.com/tendermint/tm-db"

	abciserver "github.com/tendermint/tendermint/abci/server"
	abci "github.com/tendermint/tendermint/abci/types"
	cfg "github.com/tendermint/tendermint/config"
	"github.com/tendermint/tendermint/libs/log"
	mempl "github.com/tendermint/tendermint/mempool"
	mempoolv0 "github.com/tendermint/tendermint/mempool/v0"
	mempoolv1 "github.com/tendermint/tendermint/mempool/v1"
	"github.com/tendermint/tendermint/proxy"
	sm "github.com/tendermint/tendermint/state"
	"github.com/tendermint/tendermint/types"
	"pgregory.net/rapid"

	"verif/lib"
)

// C05, second half: from the moment a commit is requested until the mempool has been updated and rechecked for that
// block, no check of a NEW transaction is started or in flight on the mempool connection.
//
// Schedule sampling (real goroutines, real ABCI client/server): G goroutines submit transactions through
// Mempool.CheckTx while another goroutine applies blocks through BlockExecutor.ApplyBlock. The recording
// application stamps every call start/end with a global sequence number; its handlers yield / sleep according to a
// drawn pattern to widen the windows. Oracle over the application's own journal (holds under every interleaving):
//   (A) no CheckTx(New) interval overlaps a Commit interval;
//   (B) after a Commit, no CheckTx(New) starts before the last CheckTx(Recheck) of the batch that follows it.

type evKind int

const (
	commitStart evKind = iota
	commitEnd
	newStart
	newEnd
	recheckStart
	recheckEnd
)

type quietApp struct {
	abci.BaseApplication
	mu      sync.Mutex
	events  []evKind
	pattern []int // per call: 0 = nothing, 1 = Gosched, n>1 = sleep n microseconds
	calls   int64
	reject  map[string]bool
}

func (a *quietApp) rec(k evKind) {
	a.mu.Lock()
	a.events = append(a.events, k)
	a.mu.Unlock()
}

func (a *quietApp) perturb() {
	n := atomic.AddInt64(&a.calls, 1)
	switch p := a.pattern[int(n)%len(a.pattern)]; {
	case p == 1:
		runtime.Gosched()
	case p > 1:
		time.Sleep(time.Duration(p) * time.Microsecond)
	}
}

func (a *quietApp) CheckTx(req abci.RequestCheckTx) abci.ResponseCheckTx {
	if req.Type == abci.CheckTxType_Recheck {
		a.rec(recheckStart)
		a.perturb()
		a.rec(recheckEnd)
	} else {
		a.rec(newStart)
		a.perturb()
		a.rec(newEnd)
	}
	return abci.ResponseCheckTx{Code: 0, GasWanted: 1}
}

func (a *quietApp) Commit() abci.ResponseCommit {
	a.rec(commitStart)
	a.perturb()
	a.perturb()
	a.rec(commitEnd)
	return abci.ResponseCommit{Data: []byte("quiet-app-hash")}
}

func (a *quietApp) DeliverTx(abci.RequestDeliverTx) abci.ResponseDeliverTx {
	return abci.ResponseDeliverTx{Code: 0}
}

// judge returns a violation description or "".
func judge(events []evKind) (string, int, int) {
	inCommit, inNew := false, false
	afterCommit := false // a commit has ended and its recheck batch may still follow
	lastRecheckAfterCommit := -1
	// first pass: for every commit, the index of the last recheck event before the next commit
	type span struct{ end, lastRecheck int }
	var spans []span
	for i, e := range events {
		switch e {
		case commitEnd:
			spans = append(spans, span{end: i, lastRecheck: -1})
		case commitStart:
		case recheckEnd:
			if len(spans) > 0 {
				spans[len(spans)-1].lastRecheck = i
			}
		}
	}
	_ = afterCommit
	_ = lastRecheckAfterCommit
	overlapped, interleaved := 0, 0
	si := -1
	for i, e := range events {
		switch e {
		case commitStart:
			if inNew {
				return fmt.Sprintf("event %d: Commit requested while a CheckTx of a new transaction is in flight on the mempool connection", i), 1, 0
			}
			inCommit = true
		case commitEnd:
			inCommit = false
			si++
		case newStart:
			if inCommit {
				return fmt.Sprintf("event %d: CheckTx of a new transaction started while Commit is in progress", i), 1, 0
			}
			if si >= 0 && i < spans[si].lastRecheck {
				return fmt.Sprintf("event %d: CheckTx of a new transaction started after Commit but before the recheck of the mempool for that block finished (last recheck at event %d)", i, spans[si].lastRecheck), 0, 1
			}
			inNew = true
		case newEnd:
			inNew = false
		}
	}
	return "", overlapped, interleaved
}

func runQuiet(t *rapid.T, version string, client string) {
	app := &quietApp{}
	for i := 0; i < 16; i++ {
		app.pattern = append(app.pattern, rapid.SampledFrom([]int{0, 0, 1, 1, 5, 20, 80}).Draw(t, "perturb"))
	}
	goroutines := rapid.IntRange(2, 12).Draw(t, "goroutines")
	perG := rapid.IntRange(3, 25).Draw(t, "txsPerGoroutine")
	heights := rapid.IntRange(2, 5).Draw(t, "heights")
	recheck := rapid.IntRange(0, 4).Draw(t, "recheck") != 0

	dir, err := os.MkdirTemp("/tmp", "c05q") // short: a unix socket path is limited to ~108 bytes
	if err != nil {
		t.Fatalf("VERIF-INFRA: %v", err)
	}
	defer os.RemoveAll(dir)
	var cc proxy.ClientCreator
	if client == "socket" {
		addr := "unix://" + filepath.Join(dir, "app.sock")
		srv := abciserver.NewSocketServer(addr, app)
		srv.SetLogger(log.NewNopLogger())
		if err := srv.Start(); err != nil {
			t.Fatalf("VERIF-INFRA: abci server: %v", err)
		}
		defer srv.Stop() //nolint
		cc = proxy.NewRemoteClientCreator(addr, "socket", true)
	} else {
		cc = proxy.NewLocalClientCreator(app)
	}
	conns := proxy.NewAppConns(cc)
	conns.SetLogger(log.NewNopLogger())
	if err := conns.Start(); err != nil {
		t.Fatalf("VERIF-INFRA: app conns: %v", err)
	}
	defer conns.Stop() //nolint

	pk := lib.Key(0).PubKey()
	gen := &types.GenesisDoc{GenesisTime: time.Now().Add(-time.Hour).UTC(), ChainID: "quiet-chain", InitialHeight: 1,
		ConsensusParams: types.DefaultConsensusParams(),
		Validators:      []types.GenesisValidator{{Address: pk.Address(), PubKey: pk, Power: 10, Name: "v0"}}}
	if err := gen.ValidateAndComplete(); err != nil {
		t.Fatalf("VERIF-INFRA: %v", err)
	}
	state, err := sm.MakeGenesisState(gen)
	if err != nil {
		t.Fatalf("VERIF-INFRA: %v", err)
	}
	state.AppHash = nil
	store := sm.NewStore(dbm.NewMemDB(), sm.StoreOptions{})
	if err := store.Save(state); err != nil {
		t.Fatalf("VERIF-INFRA: %v", err)
	}
	mcfg := cfg.TestMempoolConfig()
	mcfg.Recheck = recheck
	mcfg.Size = 10000
	var mp mempl.Mempool
	if version == "v0" {
		mp = mempoolv0.NewCListMempool(mcfg, conns.Mempool(), 0)
	} else {
		mp = mempoolv1.NewTxMempool(log.NewNopLogger(), mcfg, conns.Mempool(), 0)
	}
	exec := sm.NewBlockExecutor(store, log.NewNopLogger(), conns.Consensus(), mp, sm.EmptyEvidencePool{})

	var wg sync.WaitGroup
	stop := make(chan struct{})
	for g := 0; g < goroutines; g++ {
		wg.Add(1)
		go func(g int) {
			defer wg.Done()
			for i := 0; i < perG; i++ {
				select {
				case <-stop:
					return
				default:
				}
				_ = mp.CheckTx(types.Tx(fmt.Sprintf("tx-%d-%d", g, i)), nil, mempl.TxInfo{SenderID: uint16(g + 1)})
				if i%3 == g%3 {
					runtime.Gosched()
				}
			}
		}(g)
	}
	lastCommit := types.NewCommit(0, 0, types.BlockID{}, nil)
	for h := int64(1); h <= int64(heights); h++ {
		txs := mp.ReapMaxBytesMaxGas(-1, -1)
		if len(txs) > 20 {
			txs = txs[:20] // leave something in the pool so that there is something to recheck
		}
		block, parts := state.MakeBlock(h, txs, lastCommit, nil, pk.Address())
		id := types.BlockID{Hash: block.Hash(), PartSetHeader: parts.Header()}
		commit := lib.SignCommit(gen.ChainID, h, 0, id, state.Validators, nil, block.Time, nil)
		st, _, err := exec.ApplyBlock(state, id, block)
		if err != nil {
			close(stop)
			wg.Wait()
			t.Fatalf("VERIF-INFRA: ApplyBlock %d: %v", h, err)
		}
		state, lastCommit = st, commit
		time.Sleep(time.Duration(rapid.IntRange(0, 300).Draw(t, "gap")) * time.Microsecond)
	}
	close(stop)
	wg.Wait()
	// let outstanding asynchronous rechecks drain
	mp.Lock() // as BlockExecutor.Commit does: FlushAppConn expects the caller to hold the lock
	_ = mp.FlushAppConn()
	mp.Unlock()
	// v1 rechecks asynchronously on its own goroutines: wait until the application has been quiet for a while
	// before tearing the connections down under them
	for quiet, last := 0, -1; quiet < 10; {
		time.Sleep(2 * time.Millisecond)
		app.mu.Lock()
		n := len(app.events)
		app.mu.Unlock()
		if n == last {
			quiet++
		} else {
			quiet, last = 0, n
		}
	}

	app.mu.Lock()
	events := append([]evKind(nil), app.events...)
	app.mu.Unlock()
	nNew, nRe, nCommit, concurrent := 0, 0, 0, false
	seenCommit := false
	for _, e := range events {
		switch e {
		case newStart:
			nNew++
			if seenCommit {
				concurrent = true
			}
		case recheckStart:
			nRe++
		case commitStart:
			nCommit++
			seenCommit = true
		}
	}
	test := "TestMempoolQuietDuringCommit"
	lib.Case(test, lib.FP(version, client, goroutines, perG, heights, recheck, len(events), nNew, nRe), concurrent && nNew > 0,
		"mempool:"+version, "client:"+client, fmt.Sprintf("recheck:%v", recheck), fmt.Sprintf("rechecks-seen:%v", nRe > 0))
	if lib.WantSample(test) {
		lib.Sample(test, map[string]interface{}{"mempool": version, "client": client, "goroutines": goroutines, "txs_per_goroutine": perG, "heights": heights,
			"app_events": len(events), "new_checks": nNew, "rechecks": nRe, "commits": nCommit})
	}
	if v, _, _ := judge(events); v != "" {
		id := "C05-v1-checktx-outside-lock"
		if version == "v1" && lib.IsKnown(id) {
			lib.ObservedKnown(id)
			return
		}
		t.Fatalf("C05 violated (mempool %s, %s ABCI client, %d submitters): %s\n(new checks %d, rechecks %d, commits %d, %d application events)", version, client, goroutines, v, nNew, nRe, nCommit, len(events))
	}
}

// TestMempoolQuietDuringCommit samples Go schedules; it asserts an invariant that holds under every interleaving.
func TestMempoolQuietDuringCommit(t *testing.T) {
	rapid.Check(t, func(t *rapid.T) {
		version := rapid.SampledFrom([]string{"v0", "v0", "v1"}).Draw(t, "mempool")
		client := rapid.SampledFrom([]string{"socket", "socket", "local"}).Draw(t, "client")
		if version == "v1" && lib.IsKnown("C05-v1-checktx-outside-lock") && rapid.IntRange(0, 7).Draw(t, "probeKnown") != 0 {
			// the known finding would end almost every v1 case at once; keep probing it now and then, steer the
			// rest of the budget to the mempool that is expected to hold
			lib.ExcludedByKnown("C05-v1-checktx-outside-lock")
			version = "v0"
		}
		runQuiet(t, version, client)
	})
}
