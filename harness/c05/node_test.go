// C05 evaluated THROUGH the real node.NewNode / Node.Start / Node.Stop (TestNodeRestartCrashPoints).
//
// The engine (scenario generation, per-incarnation gate in front of the surviving databases and application, crash
// and abandon, restart oracles, progress deadline with stall calibration) lives in verif/nnode; read its package
// comment. This file is the C05 test over it: a scenario x a crash index drawn uniformly over the persistence
// operations of an uncrashed dry run x optionally a second crash during recovery; oracles = the C05 statement.
package c05

import (
	"fmt"
	"os"
	"runtime"
	"strings"
	"testing"

	"pgregory.net/rapid"

	"verif/lib"
	"verif/nnode"
)

const nodeTest = "TestNodeRestartCrashPoints"

// ---------------------------------------------------------------------------------------------------------------
// the test

func TestNodeRestartCrashPoints(t *testing.T) {
	nnode.HeartStart()
	defer nnode.RemoveScratch()
	defer func() {
		t.Logf("goroutines at the end: %d", runtime.NumGoroutine())
		if os.Getenv("VERIF_C05_DUMP") != "" {
			nnode.Stacks()
		}
	}()
	rapid.Check(t, func(t *rapid.T) {
		sc := nnode.GenScenario(t)
		second := rapid.IntRange(0, 2).Draw(t, "secondCrash") == 0
		second2 := 0
		if second {
			second2 = nnode.Pick(sc, rapid.Uint64().Draw(t, "secondCrashSalt"), 45)
		}
		cleanRestart := rapid.IntRange(0, 3).Draw(t, "cleanRestartInDryRun") == 0
		salt := rapid.Uint64().Draw(t, "crashSalt")

		// dry run: the same scenario without a crash counts the persistence operations
		dry := nnode.RunCase(sc, nil, cleanRestart)
		if dry.Infra != "" {
			t.Fatalf("VERIF-INFRA: dry run: %s", dry.Infra)
		}
		if dry.Violation != "" {
			lib.Case(nodeTest, lib.FP(sc.String(), "dry"), false, "violation-in-dry-run")
			t.Fatalf("%s violated (run without a crash, clean restart=%v): %s\nscenario=%v\ntrace:\n%s", prop, cleanRestart, dry.Violation, sc, strings.Join(dry.Trace, "\n"))
		}
		if dry.Ops <= 0 {
			t.Fatalf("VERIF-INFRA: dry run counted no operation")
		}
		for _, c := range dry.Classes {
			lib.Class(nodeTest, "dry-run:"+c)
		}
		k := nnode.Pick(sc, salt, dry.Ops) // uniform over the operations of the dry run
		arms := []int{k}
		if second {
			arms = append(arms, second2)
		}
		res := nnode.RunCase(sc, arms, false)
		if res.Infra != "" {
			t.Fatalf("VERIF-INFRA: %s", res.Infra)
		}
		// ---- statistics
		nontrivial := len(res.Crashes) > 0
		cls := append([]string(nil), res.Classes...)
		if !nontrivial {
			cls = append(cls, "no-crash(index beyond this run's operations)")
		} else {
			c := res.Crashes[0]
			cls = append(cls, "crash-db:"+res.CrashDBs[0], "crash-op:"+c.Label, "crash-on-goroutine:"+res.CrashOn[0], fmt.Sprintf("crashes:%d", len(res.Crashes)))
			if len(res.Crashes) > 1 {
				cls = append(cls, "second-crash-during-recovery", "second-crash-op:"+res.Crashes[1].Label, "second-crash-on-goroutine:"+res.CrashOn[1])
			} else if second {
				cls = append(cls, "second-crash-armed-not-reached")
			}
		}
		cls = append(cls, "mempool:"+sc.Mempool, "indexer:"+sc.Indexer)
		if sc.Initial > 1 {
			cls = append(cls, "initial-height>1")
		}
		if sc.ValChange != "" {
			cls = append(cls, "validator-update:"+sc.ValChange)
		}
		if sc.ParamAt > 0 {
			cls = append(cls, "param-change")
		}
		if sc.FastSync {
			cls = append(cls, "fast_sync-configured(on, sole validator)")
		}
		if res.Parked > 0 {
			cls = append(cls, "goroutines-parked-for-good")
		}
		var crashLabels []string
		for _, c := range res.Crashes {
			crashLabels = append(crashLabels, fmt.Sprintf("%d:%s", c.Index, c.Label))
		}
		lib.Case(nodeTest, lib.FP(sc.String(), k, crashLabels), nontrivial, cls...)
		if nontrivial && lib.WantSample(nodeTest) {
			lib.Sample(nodeTest, map[string]interface{}{"scenario": sc.String(), "dry_run_operations": dry.Ops, "crash_index": k,
				"crashes": crashLabels, "crash_goroutines": res.CrashOn, "restarts": res.Restarts, "app_journal_entries": res.JournalLen,
				"classes": res.Classes, "trace": res.Trace})
		}
		if res.Violation != "" {
			t.Fatalf("%s violated: %s\nscenario=%v crash index=%d of %d arms=%v\nops of the dry run around the index: %v\ntrace:\n%s",
				prop, res.Violation, sc, k, dry.Ops, arms, nnode.Around(dry.Labels, k, 6), strings.Join(res.Trace, "\n"))
		}
	})
}
