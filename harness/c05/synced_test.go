// C05 for a node that STARTS from a state-sync bootstrap (TestStateSyncedNodeCrashPoints).
//
// Every other C05 history starts at the chain's genesis (block store base = initial height). A node that joined
// through state sync at height S has: application = saved state = S, a block store that is empty but for the seen
// commit of S; its first stored block is S+1, so its block store's base is S+1 — the handshake's case analysis on
// (app, state, store, BASE) is only reached this way.
//
// Per case: a source chain is grown with lib.Chain (real MakeBlock / signed commits / ApplyBlock) to a drawn height
// S+K with transactions (some rejected by the application), validator updates (own power, a second signing
// validator) and consensus-parameter updates, genesis InitialHeight 1 or k > 1. The node under test is set up as
// node.go's startStateSync does it: state store Bootstrap(state of S shaped like statesync's state provider:
// LastHeightValidatorsChanged = S+2, LastHeightConsensusParamsChanged = S+1), block store SaveSeenCommit(S),
// application replica at S (a recording lib.ScriptApp that outlives crashes). It then commits the blocks S+1.. of
// the source chain in the order of consensus finalizeCommit (SaveBlock unless stored, then BlockExecutor.ApplyBlock)
// over lib.CrashJournal databases; a crash (panic) is injected before a drawn block-store / state-store mutation or
// application call (uniform over the operations of an uncrashed dry run), optionally a second one during recovery.
// Every (re)start goes the way node.NewNode goes: state store LoadFromDBOrGenesisDoc, proxy app connections,
// consensus.NewHandshaker(...).Handshake, state reloaded.
//
// Oracles (C05 statement): the handshake succeeds after any crash (no error, no panic); afterwards saved state and
// application agree on height and application hash and the block store is at that height (or, before the first
// block of a synced node, holds nothing but the seen commit of that height); the node goes on committing (all
// remaining blocks, at least two); the application's journal obeys the grammar (no InitChain on an application that
// has committed, consecutive heights from S+1, begin / txs in block order / end / commit, nothing twice, nothing
// skipped) — pnode.CheckAppJournal. No wall-clock, no goroutines: deterministic.
package c05

import (
	"bytes"
	"fmt"
	"strings"
	"testing"

	abci "github.com/tendermint/tendermint/abci/types"
	"github.com/tendermint/tendermint/consensus"
	"github.com/tendermint/tendermint/libs/log"
	mpmock "github.com/tendermint/tendermint/mempool/mock"
	"github.com/tendermint/tendermint/proxy"
	sm "github.com/tendermint/tendermint/state"
	"github.com/tendermint/tendermint/store"
	"pgregory.net/rapid"

	"verif/lib"
	"verif/pnode"
)

const syncedTest = "TestStateSyncedNodeCrashPoints"

type syncedScenario struct {
	Initial int64
	S       int              // snapshot height, relative (1 = first block of the chain)
	K       int              // blocks the node commits after the bootstrap
	Txs     map[int][]string // relative height -> transactions
	ValAt   map[int]string   // relative height -> "self-power" | "add-validator" | "remove-validator"
	ParamAt map[int]bool
	Discard bool // state store option DiscardABCIResponses (node.go: config.Storage.DiscardABCIResponses)
}

func (sc syncedScenario) off(rel int) int64 { return int64(rel) + sc.Initial - 1 }

func (sc syncedScenario) String() string {
	var l []string
	for r := 1; r <= sc.S+sc.K; r++ {
		l = append(l, fmt.Sprintf("%d:%q%s%v", r, sc.Txs[r], sc.ValAt[r], map[bool]string{true: "+params", false: ""}[sc.ParamAt[r]]))
	}
	return fmt.Sprintf("{initial=%d snapshot at relative height %d, then %d blocks, discard_abci_responses=%v, heights=[%s]}", sc.Initial, sc.S, sc.K, sc.Discard, strings.Join(l, " "))
}

func genSyncedScenario(t *rapid.T) syncedScenario {
	sc := syncedScenario{Initial: 1, Txs: map[int][]string{}, ValAt: map[int]string{}, ParamAt: map[int]bool{}}
	if rapid.IntRange(0, 2).Draw(t, "initialHeight") == 0 {
		sc.Initial = int64(rapid.IntRange(2, 60).Draw(t, "initial"))
	}
	sc.S = rapid.SampledFrom([]int{1, 1, 2, 3, 4, 6}).Draw(t, "snapshotHeight")
	sc.K = rapid.SampledFrom([]int{2, 3, 4}).Draw(t, "blocksAfter")
	hasSecond := false
	for r := 1; r <= sc.S+sc.K; r++ {
		for j, n := 0, rapid.IntRange(0, 3).Draw(t, "ntx"); j < n; j++ {
			tx := fmt.Sprintf("tx-%d-%d-%s", r, j, rapid.StringMatching("[a-z]{0,8}").Draw(t, "txbody"))
			if rapid.IntRange(0, 4).Draw(t, "rejected") == 0 {
				tx = "!" + tx
			}
			sc.Txs[r] = append(sc.Txs[r], tx)
		}
		switch rapid.IntRange(0, 5).Draw(t, "valChange") {
		case 0:
			sc.ValAt[r] = "self-power"
		case 1:
			if !hasSecond {
				sc.ValAt[r], hasSecond = "add-validator", true
			} else {
				sc.ValAt[r], hasSecond = "remove-validator", false
			}
		}
		sc.ParamAt[r] = rapid.IntRange(0, 4).Draw(t, "paramChange") == 0
	}
	sc.Discard = rapid.IntRange(0, 3).Draw(t, "discardABCIResponses") == 0
	return sc
}

func (sc syncedScenario) plan(r int) *lib.HeightPlan {
	pl := &lib.HeightPlan{}
	for _, tx := range sc.Txs[r] {
		pl.Txs = append(pl.Txs, []byte(tx))
	}
	switch sc.ValAt[r] {
	case "self-power":
		pl.ValUpdates = []lib.ValUpdate{{Key: 0, Power: int64(10 + r)}}
	case "add-validator":
		pl.ValUpdates = []lib.ValUpdate{{Key: 1, Power: 3}}
	case "remove-validator":
		pl.ValUpdates = []lib.ValUpdate{{Key: 1, Power: 0}}
	}
	if sc.ParamAt[r] {
		pl.Params = &abci.ConsensusParams{Block: &abci.BlockParams{MaxBytes: 1 << 20, MaxGas: 1000 + int64(r)}}
	}
	return pl
}

// syncedCrash is the panic value of a crash injected before an application call.
type syncedCrash struct{ call string }

type syncedWorld struct {
	sc       syncedScenario
	src      *lib.Chain
	journal  *lib.CrashJournal
	blockDB  *lib.CrashDB
	stateDB  *lib.CrashDB
	app      *lib.ScriptApp
	appCalls int // consensus-connection calls of the current incarnation
	bootLen  int // journal length after the bootstrap
	trace    []string
}

func (w *syncedWorld) tracef(f string, a ...interface{}) {
	w.trace = append(w.trace, fmt.Sprintf(f, a...))
}

func newSyncedWorld(sc syncedScenario) (*syncedWorld, error) {
	src, err := lib.NewChain(lib.ChainSpec{ChainID: "c05-synced-chain", InitialHeight: sc.Initial, Keys: []int{0}, Powers: []int64{10}})
	if err != nil {
		return nil, err
	}
	for r := 1; r <= sc.S+sc.K; r++ {
		if err := src.Advance(sc.plan(r)); err != nil {
			src.Close()
			return nil, fmt.Errorf("source chain, relative height %d: %w", r, err)
		}
	}
	w := &syncedWorld{sc: sc, src: src, journal: lib.NewCrashJournal()}
	w.blockDB, w.stateDB = w.journal.NewDB("blockstore"), w.journal.NewDB("state")
	S := sc.off(sc.S)
	// ---- what node.go startStateSync leaves behind
	st := src.States[S].Copy()
	st.LastHeightValidatorsChanged = S + 2 // statesync's state provider: the height of the "next" light block
	st.LastHeightConsensusParamsChanged = S + 1
	if err := sm.NewStore(w.stateDB, sm.StoreOptions{DiscardABCIResponses: sc.Discard}).Bootstrap(st); err != nil {
		return nil, err
	}
	if err := store.NewBlockStore(w.blockDB).SaveSeenCommit(S, src.Commits[S]); err != nil {
		return nil, err
	}
	// ---- the application restored from the snapshot of height S: same plans for the heights to come
	w.app = lib.NewScriptApp()
	w.app.Height, w.app.AppHash = S, append([]byte(nil), src.States[S].AppHash...)
	w.app.Journal = []lib.AppCall{{Seq: 0, Method: "Rollback", Height: S, Extra: "restored from a snapshot"}}
	for r := sc.S + 1; r <= sc.S+sc.K; r++ {
		w.app.Plans[sc.off(r)] = sc.plan(r)
	}
	w.app.OnCall = func(m string) {
		switch m {
		case "InitChain", "BeginBlock", "DeliverTx", "EndBlock", "Commit":
			w.appCalls++
		}
	}
	w.bootLen = w.journal.Len()
	return w, nil
}

func (w *syncedWorld) close() { w.src.Close() }

// cursors: the oracle "saved state, block store and application agree".
func (w *syncedWorld) cursors() (string, int64) {
	st, err := sm.NewStore(w.stateDB, sm.StoreOptions{}).Load()
	if err != nil {
		return fmt.Sprintf("state store cannot be loaded: %v", err), 0
	}
	bs := store.NewBlockStore(w.blockDB)
	w.app.Mu.Lock()
	ah, ahash := w.app.Height, append([]byte(nil), w.app.AppHash...)
	w.app.Mu.Unlock()
	if st.LastBlockHeight != ah {
		return fmt.Sprintf("heights disagree: saved state %d, application %d (block store base %d height %d)", st.LastBlockHeight, ah, bs.Base(), bs.Height()), st.LastBlockHeight
	}
	if !bytes.Equal(st.AppHash, ahash) {
		return fmt.Sprintf("application hash disagrees at height %d: saved state %X, application %X", ah, st.AppHash, ahash), st.LastBlockHeight
	}
	switch {
	case bs.Height() == st.LastBlockHeight:
	case bs.Height() == 0 && bs.LoadSeenCommit(st.LastBlockHeight) != nil:
		// a synced node before its first block: nothing but the seen commit of the snapshot height
	default:
		return fmt.Sprintf("heights disagree: saved state and application %d, block store base %d height %d", ah, bs.Base(), bs.Height()), st.LastBlockHeight
	}
	return "", st.LastBlockHeight
}

type syncedResult struct {
	DBOps, AppOps int
	Crashes       []string
	Violation     string
	Classes       []string
}

// run plays one case. arms[i] = crash index of incarnation i in the unified operation order of that incarnation
// (database mutations and application calls as they come), -1 / missing = none.
func runSynced(sc syncedScenario, arms []int) (res *syncedResult, infra error) {
	res = &syncedResult{}
	w, err := newSyncedWorld(sc)
	if err != nil {
		return nil, err
	}
	defer w.close()
	fail := func(f string, a ...interface{}) {
		if res.Violation == "" {
			res.Violation = fmt.Sprintf(f, a...) + "\ntrace:\n" + strings.Join(w.trace, "\n")
		}
	}
	tip := sc.off(sc.S + sc.K)
	gen := w.src.GenDoc
	for inc := 0; inc < len(arms)+2; inc++ {
		arm := -1
		if inc < len(arms) {
			arm = arms[inc]
		}
		startLen := w.journal.Len()
		w.appCalls = 0
		crashed := ""
		stage := "handshake"
		var target int64
		func() {
			defer func() {
				if r := recover(); r != nil {
					if p, ok := lib.IsCrashPanic(r); ok {
						crashed = fmt.Sprintf("db:%s", p.DB)
						return
					}
					if c, ok := r.(syncedCrash); ok {
						crashed = "app:" + c.call
						return
					}
					fail("after crashes %v: panic during %s of incarnation %d: %v", res.Crashes, stage, inc, r)
				}
			}()
			arming := newSyncedArming(w, arm)
			defer arming.stop()
			// ---- start-up as node.NewNode does it
			stateStore := sm.NewStore(w.stateDB, sm.StoreOptions{DiscardABCIResponses: sc.Discard})
			blockStore := store.NewBlockStore(w.blockDB)
			state, err := stateStore.LoadFromDBOrGenesisDoc(gen)
			if err != nil {
				fail("after crashes %v: state cannot be loaded: %v", res.Crashes, err)
				return
			}
			proxyApp := proxy.NewAppConns(proxy.NewLocalClientCreator(w.app))
			proxyApp.SetLogger(log.NewNopLogger())
			if err := proxyApp.Start(); err != nil {
				infra = err
				return
			}
			defer proxyApp.Stop() //nolint
			hs := consensus.NewHandshaker(stateStore, state, blockStore, gen)
			if err := hs.Handshake(proxyApp); err != nil {
				fail("after crashes %v the handshake of incarnation %d fails: %v (before it: state=%d app=%d store base=%d height=%d)", res.Crashes, inc, err,
					state.LastBlockHeight, w.app.Height, blockStore.Base(), blockStore.Height())
				return
			}
			state, err = stateStore.Load()
			if err != nil {
				fail("after crashes %v: state cannot be reloaded after the handshake: %v", res.Crashes, err)
				return
			}
			w.tracef("inc%d: handshake applied %d blocks; state=%d store=[%d,%d] app=%d", inc, hs.NBlocks(), state.LastBlockHeight, blockStore.Base(), blockStore.Height(), w.app.Height)
			if inc > 0 {
				res.Classes = append(res.Classes, fmt.Sprintf("handshake-applied-blocks:%d", hs.NBlocks()))
				if v, _ := w.cursors(); v != "" {
					fail("after crashes %v and the restart (handshake done): %s", res.Crashes, v)
					return
				}
			}
			// ---- the node goes on committing (consensus finalizeCommit: SaveBlock unless stored, then ApplyBlock)
			stage = "commit"
			target = tip
			exec := sm.NewBlockExecutor(stateStore, log.NewNopLogger(), proxyApp.Consensus(), mpmock.Mempool{}, sm.EmptyEvidencePool{})
			for h := state.LastBlockHeight + 1; h <= target; h++ {
				block, parts := w.src.Blocks[h], w.src.Parts[h]
				if blockStore.Height() < h {
					blockStore.SaveBlock(block, parts, w.src.Commits[h])
				}
				state, _, err = exec.ApplyBlock(state, w.src.IDs[h], block)
				if err != nil {
					fail("after crashes %v: block %d cannot be applied: %v", res.Crashes, h, err)
					return
				}
			}
		}()
		if infra != nil {
			return nil, infra
		}
		if inc == 0 && crashed == "" {
			res.DBOps, res.AppOps = w.journal.Len()-startLen, w.appCalls
		}
		w.journal.Disarm()
		if res.Violation != "" {
			return res, nil
		}
		if crashed == "" {
			// ---- ran to the tip: final oracles
			if v, h := w.cursors(); v != "" {
				fail("at the tip: %s", v)
			} else if h != tip {
				fail("the node stopped committing at height %d (tip of the chain %d)", h, tip)
			}
			w.app.Mu.Lock()
			v := pnode.CheckAppJournal(w.app, store.NewBlockStore(w.blockDB))
			w.app.Mu.Unlock()
			if v != "" {
				fail("after crashes %v: %s", res.Crashes, v)
			}
			return res, nil
		}
		w.tracef("inc%d crashed before %s (op %d of the incarnation, during %s)", inc, crashed, arm, stage)
		res.Crashes = append(res.Crashes, crashed)
		if inc == 0 {
			if st, err := sm.NewStore(w.stateDB, sm.StoreOptions{}).Load(); err == nil {
				bs := store.NewBlockStore(w.blockDB)
				S := sc.off(sc.S)
				switch {
				case st.LastBlockHeight == S && bs.Height() == 0:
					res.Classes = append(res.Classes, "crash-before-the-first-block-is-stored(store empty)")
				case st.LastBlockHeight == S && bs.Height() == S+1:
					res.Classes = append(res.Classes, "crash-inside-the-FIRST-block-after-the-bootstrap(store base=height=S+1, state=S)")
				case bs.Height() == st.LastBlockHeight+1:
					res.Classes = append(res.Classes, "crash-inside-a-later-block(store=state+1)")
				default:
					res.Classes = append(res.Classes, "crash-between-blocks(store=state)")
				}
			}
		}
		w.journal.Revive()
		w.app.Mu.Lock()
		v := pnode.CheckAppJournal(w.app, store.NewBlockStore(w.blockDB))
		w.app.Mu.Unlock()
		if v != "" {
			fail("after crashes %v: %s", res.Crashes, v)
			return res, nil
		}
	}
	return res, nil
}

// syncedArming keeps "crash before the arm-th operation of this incarnation" armed although the operations are of
// two kinds with separate counters (journal entries, application calls): both kinds are armed for the position they
// would have if only their own kind followed, and after every operation of the other kind the arming is moved. The
// journal has no per-operation hook, so the application side (OnCall) re-arms the journal, and journal operations
// are accounted for lazily: at each application call the number of database operations so far is read off the
// journal.
type syncedArming struct {
	w        *syncedWorld
	arm      int
	startLen int
	prev     func(string)
}

func newSyncedArming(w *syncedWorld, arm int) *syncedArming {
	a := &syncedArming{w: w, arm: arm, startLen: w.journal.Len(), prev: w.app.OnCall}
	if arm < 0 {
		return a
	}
	// until the first application call only database operations happen: arm the journal for op `arm`
	w.journal.CrashBefore(a.startLen + arm)
	calls := 0
	w.app.OnCall = func(m string) {
		switch m {
		case "InitChain", "BeginBlock", "DeliverTx", "EndBlock", "Commit":
			done := w.journal.Len() - a.startLen + calls // operations before this call
			if done == arm {
				w.journal.Disarm()
				panic(syncedCrash{m})
			}
			calls++
			w.appCalls++
			// this call is operation number `done`; the arm-th operation, if it is a database mutation, will be journal
			// entry number (arm - calls) of this incarnation provided no further application call comes first
			w.journal.Disarm()
			if arm-calls >= w.journal.Len()-a.startLen {
				w.journal.CrashBefore(a.startLen + arm - calls)
			}
		}
	}
	return a
}

func (a *syncedArming) stop() {
	if a.arm >= 0 {
		a.w.app.OnCall = a.prev
	}
}

func TestStateSyncedNodeCrashPoints(t *testing.T) {
	rapid.Check(t, func(t *rapid.T) {
		sc := genSyncedScenario(t)
		second := rapid.IntRange(0, 2).Draw(t, "secondCrash") == 0
		salt, salt2 := rapid.Uint64().Draw(t, "crashSalt"), rapid.Uint64().Draw(t, "secondCrashSalt")
		dry, err := runSynced(sc, nil)
		if err != nil {
			t.Fatalf("VERIF-INFRA: dry run: %v", err)
		}
		if dry.Violation != "" {
			lib.Case(syncedTest, lib.FP(sc.String(), "dry"), false, "violation-in-dry-run")
			t.Fatalf("%s violated (state-synced node, run without a crash): %s\nscenario=%v", prop, dry.Violation, sc)
		}
		total := dry.DBOps + dry.AppOps
		if total <= 0 {
			t.Fatalf("VERIF-INFRA: dry run counted no operation")
		}
		k := int(lib.FP(sc.String(), salt, total) % uint64(total)) // uniform (rapid's integer generators favour small values)
		arms := []int{k}
		if second {
			arms = append(arms, int(lib.FP(sc.String(), salt2)%40))
		}
		res, err := runSynced(sc, arms)
		if err != nil {
			t.Fatalf("VERIF-INFRA: %v", err)
		}
		nontrivial := len(res.Crashes) > 0
		cls := append([]string(nil), res.Classes...)
		if nontrivial {
			cls = append(cls, "crash-before:"+res.Crashes[0], fmt.Sprintf("crashes:%d", len(res.Crashes)))
			if len(res.Crashes) > 1 {
				cls = append(cls, "second-crash-during-recovery")
			}
		} else {
			cls = append(cls, "no-crash")
		}
		if sc.Initial > 1 {
			cls = append(cls, "initial-height>1")
		}
		if sc.Discard {
			cls = append(cls, "discard-abci-responses")
		}
		if len(sc.ValAt) > 0 {
			cls = append(cls, "validator-updates")
		}
		lib.Case(syncedTest, lib.FP(sc.String(), arms), nontrivial, cls...)
		if nontrivial && lib.WantSample(syncedTest) {
			lib.Sample(syncedTest, map[string]interface{}{"scenario": sc.String(), "operations_of_the_dry_run": total, "crash_indices": arms, "crashes": res.Crashes, "classes": res.Classes})
		}
		if res.Violation != "" {
			t.Fatalf("%s violated (state-synced node): %s\nscenario=%v crash indices=%v (dry run: %d database + %d application operations)", prop, res.Violation, sc, arms, dry.DBOps, dry.AppOps)
		}
	})
}
