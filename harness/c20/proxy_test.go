package c20

// The light proxy's route table (light/proxy/routes.go) over a real JSON-RPC server and the real HTTP client, on the
// fixed chain: what comes out of the proxy for an honest full node equals what the full node says, for every
// verified route.

import (
	"fmt"
	"net/http"
	"net/http/httptest"
	"testing"

	"github.com/tendermint/tendermint/libs/log"
	lproxy "github.com/tendermint/tendermint/light/proxy"
	rpcclient "github.com/tendermint/tendermint/rpc/client"
	rpchttp "github.com/tendermint/tendermint/rpc/client/http"
	rpcserver "github.com/tendermint/tendermint/rpc/jsonrpc/server"
	"github.com/tendermint/tendermint/types"

	"verif/lib"
)

func TestProxyRoutes(t *testing.T) {
	w := fixedWorld(t)
	defer w.close()
	c, _ := w.newVerifier(t, newLiar(w.core), 1, false)
	mux := http.NewServeMux()
	rpcserver.RegisterRPCFuncs(mux, lproxy.RPCRoutes(c), log.NewNopLogger())
	srv := httptest.NewServer(mux)
	defer srv.Close()
	cl, err := rpchttp.New(srv.URL, "/websocket")
	if err != nil {
		t.Fatalf("VERIF-INFRA: http client: %v", err)
	}
	core := newLiar(w.core)
	h := int64(2)

	check := func(route, id string, got interface{}, err error, want interface{}, werr error) {
		lib.Case("TestProxyRoutes", lib.FP(route), true, fmt.Sprintf("route:%s:relayed=%v", route, err == nil))
		if werr != nil {
			t.Fatalf("VERIF-INFRA: full node refuses %s: %v", route, werr)
		}
		if err != nil {
			if id != "" && lib.IsKnown(id) {
				lib.ObservedKnown(id)
				lib.ExcludedByKnown(id)
				return
			}
			t.Fatalf("[%s] route %s: honest answer refused: %v", id, route, err)
		}
		if want != nil && jsonFull(got) != jsonFull(want) {
			t.Fatalf("route %s: proxy answer differs from the full node's\n got %s\nwant %s", route, jsonOf(got), jsonOf(want))
		}
	}

	gb, err := cl.Block(bg, &h)
	wb, werr := core.Block(bg, &h)
	check("block", "", gb, err, wb, werr)

	gbh, err := cl.BlockByHash(bg, w.chain.IDs[h].Hash)
	wbh, werr := core.BlockByHash(bg, w.chain.IDs[h].Hash)
	check("block_by_hash", "", gbh, err, wbh, werr)

	gc, err := cl.Commit(bg, &h)
	wc, werr := core.Commit(bg, &h)
	if err == nil && werr == nil {
		check("commit", "", gc.SignedHeader, err, wc.SignedHeader, werr)
	} else {
		check("commit", "", nil, err, nil, werr)
	}

	gv, err := cl.Validators(bg, &h, nil, nil)
	wv, werr := core.Validators(bg, &h, nil, nil)
	check("validators", "", gv, err, wv, werr)

	gp, err := cl.ConsensusParams(bg, &h)
	wp, werr := core.ConsensusParams(bg, &h)
	check("consensus_params", "", gp, err, wp, werr)

	gr, err := cl.BlockResults(bg, &h)
	wr, werr := core.BlockResults(bg, &h)
	check("block_results", idBlockResults, gr, err, wr, werr)

	gt, err := cl.Tx(bg, types.Tx(regTxB).Hash(), true)
	wt, werr := core.Tx(bg, types.Tx(regTxB).Hash(), true)
	check("tx", "", gt, err, wt, werr)

	gs, err := cl.TxSearch(bg, "tx.height=2", true, nil, nil, "asc")
	ws, werr := core.TxSearch(bg, "tx.height=2", true, nil, nil, "asc")
	check("tx_search", "", gs, err, ws, werr)

	opts := rpcclient.ABCIQueryOptions{Height: 3, Prove: true}
	gq, err := cl.ABCIQueryWithOptions(bg, "/store/acc/key", []byte("k1"), opts)
	wq, werr := core.ABCIQueryWithOptions(bg, "/store/acc/key", []byte("k1"), opts)
	check("abci_query", "", gq, err, wq, werr)

	gbs, err := cl.BlockSearch(bg, "block.height>0", nil, nil, "asc")
	wbs, werr := core.BlockSearch(bg, "block.height>0", nil, nil, "asc")
	check("block_search", idProxyRoutes, gbs, err, wbs, werr)
	gbs, err = cl.BlockSearch(bg, "block.height>1", ip(1), ip(2), "desc")
	wbs, werr = core.BlockSearch(bg, "block.height>1", ip(1), ip(2), "desc")
	check("block_search(paged)", idProxyRoutes, gbs, err, wbs, werr)

	// pass-through routes outside the kinds of data C20 names: measured, not judged
	for name, call := range map[string]func() error{
		"net_info":        func() error { _, err := cl.NetInfo(bg); return err },
		"genesis_chunked": func() error { _, err := cl.GenesisChunked(bg, 0); return err },
		"health":          func() error { _, err := cl.Health(bg); return err },
	} {
		lib.Class("TestProxyRoutes", fmt.Sprintf("unjudged-route:%s:relayed=%v", name, call() == nil))
	}

	gi, err := cl.BlockchainInfo(bg, 1, 4)
	wi, werr := core.BlockchainInfo(bg, 1, 4)
	check("blockchain", idChainInfo, gi, err, wi, werr)
}

// The proxy's block_search route declares four argument names for a five-argument function: every call fails
// inside the JSON-RPC server, so blocks found by search can never be obtained through the light proxy.
func TestRegressProxyBlockSearchRoute(t *testing.T) {
	w := fixedWorld(t)
	defer w.close()
	c, _ := w.newVerifier(t, newLiar(w.core), 1, false)
	mux := http.NewServeMux()
	rpcserver.RegisterRPCFuncs(mux, lproxy.RPCRoutes(c), log.NewNopLogger())
	srv := httptest.NewServer(mux)
	defer srv.Close()
	cl, err := rpchttp.New(srv.URL, "/websocket")
	if err != nil {
		t.Fatalf("VERIF-INFRA: http client: %v", err)
	}
	res, err := cl.BlockSearch(bg, "block.height>0", nil, nil, "asc")
	if err == nil && len(res.Blocks) != 5 {
		t.Fatalf("block_search through the proxy returned %d blocks, the chain has 5", len(res.Blocks))
	}
	regress(t, "TestRegressProxyBlockSearchRoute", idProxyRoutes, err != nil, "honest block_search through the light proxy fails: %v", err)
}
