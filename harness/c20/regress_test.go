package c20

// Regression tests for the C20 findings on tendermint v0.34.24: fixed five-block chain, no generator library.
// Each fails on the defect (unless the finding is listed as known) and passes once the repair is applied.

import (
	"fmt"
	"testing"

	abci "github.com/tendermint/tendermint/abci/types"
	lrpc "github.com/tendermint/tendermint/light/rpc"
	rpcclient "github.com/tendermint/tendermint/rpc/client"
	ctypes "github.com/tendermint/tendermint/rpc/core/types"
	"github.com/tendermint/tendermint/types"

	"verif/lib"
)

var (
	regTxA = lib.C20SetTx("acc", []byte("k1"), []byte("v-one"))
	regTxB = []byte("t2.1:hello")
	regTxC = lib.C20SetTx("acc", []byte("x:41"), []byte("v-x"))
)

// fixedWorld: 2 validators, heights 1..5; block 2 carries two txs and begin/end/tx events, block 3 one tx writing
// the key "x:41".
func fixedWorld(t *testing.T) *world { return fixedWorldAt(t, 1) }

// fixedWorldAt: the same chain starting at initial height init (heights init..init+4).
func fixedWorldAt(t *testing.T, init int64) *world {
	w := &world{plans: map[int64]*lib.HeightPlan{}, planned: map[string]abci.ResponseDeliverTx{}, feat: map[string]bool{}, init: init}
	w.kv = lib.NewC20KV(stores, map[string]map[string][]byte{"acc": {"a": []byte("genesis-a")}, "meta": {"m": []byte("genesis-m")}})
	w.kv.ResultFn = func(tx []byte) abci.ResponseDeliverTx { return w.planned[string(tx)] }
	chain, err := lib.NewChain(lib.ChainSpec{ChainID: "c20-chain", InitialHeight: init, Keys: []int{0, 1}, Powers: []int64{10, 7}})
	if err != nil {
		t.Fatalf("VERIF-INFRA: NewChain: %v", err)
	}
	w.chain = chain
	w.kv.Attach(chain.App)
	ev := abci.Event{Type: "xfer", Attributes: []abci.EventAttribute{{Key: []byte("sender"), Value: []byte("alice"), Index: true}}}
	w.planned[string(regTxA)] = abci.ResponseDeliverTx{Code: 0, Data: []byte{1, 2}, GasWanted: 5, GasUsed: 3, Log: "ok", Events: []abci.Event{ev}}
	w.planned[string(regTxB)] = abci.ResponseDeliverTx{Code: 7, GasWanted: 1, Codespace: "app"}
	w.planned[string(regTxC)] = abci.ResponseDeliverTx{Code: 0, GasUsed: 9}
	txsAt := map[int64][][]byte{init + 1: {regTxA, regTxB}, init + 2: {regTxC}}
	for h := init; h <= init+4; h++ {
		p := &lib.HeightPlan{DeliverFn: w.kv.DeliverFn, Txs: txsAt[h]}
		if h == init+1 {
			p.BeginEvents, p.EndEvents = []abci.Event{{Type: "begin"}}, []abci.Event{{Type: "end"}}
		}
		for i, tx := range p.Txs {
			w.txs = append(w.txs, txRef{Height: h, Index: i, Tx: tx})
		}
		w.plans[h] = p
		if err := chain.Advance(p); err != nil {
			t.Fatalf("VERIF-INFRA: Advance(%d): %v", h, err)
		}
	}
	w.tip = chain.Tip()
	w.finish(t)
	return w
}

// verdict helper: defect observed => known-finding protocol or failure
func regress(t *testing.T, name, id string, defect bool, format string, args ...interface{}) {
	lib.Case(name, lib.FP("regress", id), true, fmt.Sprintf("defect-observed:%v", defect))
	if !defect {
		return
	}
	msg := fmt.Sprintf(format, args...)
	if lib.IsKnown(id) {
		lib.ObservedKnown(id)
		lib.ExcludedByKnown(id)
		t.Logf("known finding %s re-observed: %s", id, msg)
		return
	}
	t.Fatalf("[%s] %s", id, msg)
}

func i64(v int64) *int64 { return &v }

// honest block results are refused: light/rpc hashes (begin events, results hash, end events); headers commit to
// the DeliverTx results only.
func TestRegressBlockResultsHonestRefused(t *testing.T) {
	w := fixedWorld(t)
	defer w.close()
	for _, h := range []int64{1, 2} { // without and with txs/events
		c, _ := w.newVerifier(t, newLiar(w.core), 1, false)
		res, err := c.BlockResults(bg, i64(h))
		defect := err != nil
		if err == nil {
			if inc := w.consistentBlockResults(res); inc != nil {
				t.Fatalf("relayed results inconsistent: %v", inc)
			}
		}
		regress(t, "TestRegressBlockResultsHonestRefused", idBlockResults, defect, "honest BlockResults(%d) refused: %v", h, err)
	}
}

// a lying server changes the tx bytes (or hash, or index) next to a genuine proof: relayed as is.
func TestRegressTxUncheckedFields(t *testing.T) {
	w := fixedWorld(t)
	defer w.close()
	li := newLiar(w.core)
	c, _ := w.newVerifier(t, li, 1, false)
	for _, field := range []string{"tx", "hash", "index"} {
		li.reset("Tx", func(res interface{}) bool {
			r := res.(*ctypes.ResultTx)
			switch field {
			case "tx":
				r.Tx = []byte("S:acc:6b31=stolen")
			case "hash":
				r.Hash = flip(r.Hash)
			case "index":
				r.Index = 1
			}
			return true
		})
		res, err := c.Tx(bg, types.Tx(regTxA).Hash(), true)
		defect := false
		if err == nil {
			inc, _ := w.consistentTx(res)
			defect = inc != nil
		}
		regress(t, "TestRegressTxUncheckedFields", idTxFields, defect, "Tx relayed a falsified %s next to a genuine proof: %s", field, jsonOf(res))
	}
}

// TxSearch(prove=true) relays proofs without looking at them.
func TestRegressTxSearchUnverified(t *testing.T) {
	w := fixedWorld(t)
	defer w.close()
	li := newLiar(w.core)
	c, _ := w.newVerifier(t, li, 1, false)
	li.reset("TxSearch", func(res interface{}) bool {
		r := res.(*ctypes.ResultTxSearch)
		r.Txs[0].Tx = []byte("forged")
		r.Txs[0].Proof.Data = []byte("forged")
		r.Txs[0].Proof.RootHash = flip(r.Txs[0].Proof.RootHash)
		return true
	})
	res, err := c.TxSearch(bg, "tx.height=2", true, nil, nil, "asc")
	defect := false
	if err == nil {
		for _, rt := range res.Txs {
			if inc, _ := w.consistentTx(rt); inc != nil {
				defect = true
			}
		}
	}
	regress(t, "TestRegressTxSearchUnverified", idTxSearch, defect, "TxSearch(prove=true) relayed a tx that is not in the block, with a proof for another root")
}

// honest BlockchainInfo over several heights is refused when the light client is behind (only the lowest returned
// height is verified before all of them are looked up in the trusted store).
func TestRegressBlockchainInfoRefused(t *testing.T) {
	w := fixedWorld(t)
	defer w.close()
	for _, seq := range []bool{false, true} {
		c, _ := w.newVerifier(t, newLiar(w.core), 1, seq)
		_, err := c.BlockchainInfo(bg, 1, 4)
		regress(t, "TestRegressBlockchainInfoRefused", idChainInfo, err != nil, "honest BlockchainInfo(1,4) refused (sequential=%v): %v", seq, err)
	}
}

// Commit / Validators without a height when the light client already is at the latest block: nil dereference.
func TestRegressLatestNilDeref(t *testing.T) {
	w := fixedWorld(t)
	defer w.close()
	c, _ := w.newVerifier(t, newLiar(w.core), w.tip, false)
	var err1, err2 error
	p := safely(func() {
		_, err1 = c.Commit(bg, nil)
		_, err2 = c.Validators(bg, nil, nil, nil)
	})
	regress(t, "TestRegressLatestNilDeref", idLatestNil, p != nil || err1 != nil || err2 != nil,
		"Commit/Validators(latest) with the light client at the tip: panic=%v commit err=%v validators err=%v", p, err1, err2)
}

// an honest, proven answer for a key that starts with "x:" is refused: the URL-encoded key path part is read back
// as hex.
func TestRegressKeyPathXPrefix(t *testing.T) {
	w := fixedWorld(t)
	defer w.close()
	c, _ := w.newVerifier(t, newLiar(w.core), 1, false)
	res, err := c.ABCIQueryWithOptions(bg, "/store/acc/key", []byte("x:41"), rpcclient.ABCIQueryOptions{Height: 3, Prove: true})
	if err == nil && string(res.Response.Value) != "v-x" {
		t.Fatalf("wrong value relayed: %q", res.Response.Value)
	}
	regress(t, "TestRegressKeyPathXPrefix", idKeyPath, err != nil, "honest proven query for key \"x:41\" refused: %v", err)
}

// the header commits to the signatures of LastCommit only: a changed round (or block id) is relayed.
func TestRegressLastCommitUnbound(t *testing.T) {
	w := fixedWorld(t)
	defer w.close()
	li := newLiar(w.core)
	c, _ := w.newVerifier(t, li, 1, false)
	for _, field := range []string{"round", "block_id"} {
		li.reset("Block", func(res interface{}) bool {
			b := res.(*ctypes.ResultBlock).Block
			if field == "round" {
				b.LastCommit.Round += 3
			} else {
				b.LastCommit.BlockID.Hash = flip(b.LastCommit.BlockID.Hash)
			}
			return true
		})
		res, err := c.Block(bg, i64(3))
		defect := err == nil && w.consistentBlock(res) != nil
		regress(t, "TestRegressLastCommitUnbound", idLastCommit, defect, "Block(3) relayed with a falsified last_commit.%s", field)
	}
}

// the part set header of the returned block id is not compared with the one the validators signed.
func TestRegressBlockIDParts(t *testing.T) {
	w := fixedWorld(t)
	defer w.close()
	li := newLiar(w.core)
	c, _ := w.newVerifier(t, li, 1, false)
	li.reset("Block", func(res interface{}) bool { res.(*ctypes.ResultBlock).BlockID.PartSetHeader.Total += 2; return true })
	res, err := c.Block(bg, i64(3))
	defect := err == nil && w.consistentBlock(res) != nil
	regress(t, "TestRegressBlockIDParts", idBlockIDParts, defect, "Block(3) relayed with a falsified block_id.parts.total")
}

// Against a trusted header with an EMPTY app hash (the header at initial height 2 carries the empty genesis app hash)
// a proof whose root cannot be computed (total 0) "matches": any forged key/value is relayed.
func TestRegressQueryEmptyAppHashAnyValue(t *testing.T) {
	w := fixedWorldAt(t, 2)
	defer w.close()
	if len(w.chain.Blocks[2].AppHash) != 0 {
		t.Fatalf("VERIF-INFRA: header 2 was expected to carry the empty genesis app hash")
	}
	li := newLiar(w.core)
	c, _ := w.newVerifier(t, li, 2, false)
	li.reset("ABCIQuery", func(res interface{}) bool {
		p := &res.(*ctypes.ResultABCIQuery).Response
		forgeImpossible(p, "acc", 0, 0)
		p.Height = 1
		return true
	})
	res, err := c.ABCIQueryWithOptions(bg, "/store/acc/key", []byte("a"), rpcclient.ABCIQueryOptions{Prove: true})
	defect := err == nil && w.consistentQuery("/store/acc/key", res) != nil
	regress(t, "TestRegressQueryEmptyAppHashAnyValue", idEmptyRoot, defect, "forged value relayed for key \"a\" at height 1: %s", jsonOf(res))
}

// BlockSearch relays whatever blocks the server returns.
func TestRegressBlockSearchUnverified(t *testing.T) {
	w := fixedWorld(t)
	defer w.close()
	li := newLiar(w.core)
	c, _ := w.newVerifier(t, li, 1, false)
	li.reset("BlockSearch", func(res interface{}) bool {
		rb := res.(*ctypes.ResultBlockSearch).Blocks[1]
		rb.Block.Data.Txs = append(rb.Block.Data.Txs, types.Tx("forged"))
		rehashBody(rb.Block)
		rb.BlockID.Hash = rb.Block.Header.Hash()
		return true
	})
	res, err := c.BlockSearch(bg, "block.height>0", nil, nil, "asc")
	defect := false
	if err == nil {
		for _, rb := range res.Blocks {
			if w.consistentBlock(rb) != nil {
				defect = true
			}
		}
	}
	regress(t, "TestRegressBlockSearchUnverified", idBlockSearch, defect, "BlockSearch relayed a block with a forged transaction and a consistent forged header")
}

// An honest, correctly proven answer "key absent" is refused whatever absence operator the application uses: the
// verifying client passes the raw key where the proof runtime expects a key path.
func TestRegressAbsenceKeyPath(t *testing.T) {
	w := fixedWorld(t)
	defer w.close()
	c, _ := w.newVerifier(t, newLiar(w.core), 1, false)
	res, err := c.ABCIQueryWithOptions(bg, "/store/acc/key", []byte("nobody"), rpcclient.ABCIQueryOptions{Height: 3, Prove: true})
	if err == nil && (res.Response.Value != nil || string(res.Response.Key) != "nobody") {
		t.Fatalf("wrong answer relayed: %s", jsonOf(res))
	}
	regress(t, "TestRegressAbsenceKeyPath", idAbsence, err != nil, "honest proven absence of key \"nobody\" refused: %v", err)
}

var _ = lrpc.NewClient
