package c20

// Soundness half of C20: a lying server. For one drawn target per method, EVERY falsification of the catalogue is
// applied, one at a time, to the honest response of the real rpc/core handler; the verifying client's verdict is
// judged against the chain (ref_test.go):
//
//	refused                                        -> fine
//	relayed, consistent with the chain, as asked   -> fine (only fields no header commits to were changed)
//	relayed, consistent, but about another object  -> "substitution" (answer about another verified object; counted,
//	                                                  not a violation of C20 as worded: it IS consistent with a verified
//	                                                  header and carries its own height / hash / key; an honest application
//	                                                  may answer a query from another height than requested and say so)
//	relayed, NOT consistent with the chain         -> VIOLATION

import (
	"bytes"
	"fmt"
	"testing"
	"time"

	"pgregory.net/rapid"

	abci "github.com/tendermint/tendermint/abci/types"
	cryptoenc "github.com/tendermint/tendermint/crypto/encoding"
	"github.com/tendermint/tendermint/crypto/merkle"
	lrpc "github.com/tendermint/tendermint/light/rpc"
	tmcrypto "github.com/tendermint/tendermint/proto/tendermint/crypto"
	rpcclient "github.com/tendermint/tendermint/rpc/client"
	ctypes "github.com/tendermint/tendermint/rpc/core/types"
	"github.com/tendermint/tendermint/types"

	"verif/lib"
)

const testF = "TestFalsified"

// lie is one falsification: it edits the response in place and reports whether it was applicable.
type lie struct {
	name string
	f    func(res interface{}) bool
}

// shape lies: every list-valued part of an answer also gets a nil / zero-value entry INSERTED in front, in the
// middle and at the end, all genuine elements kept in order (the list's length and the attribution of element i
// are part of what the header commits to).
var shapePositions = []string{"front", "middle", "end"}

func insertAt[T any](s []T, pos string, v T) []T {
	i := 0
	switch pos {
	case "middle":
		i = len(s) / 2
	case "end":
		i = len(s)
	}
	out := make([]T, 0, len(s)+1)
	out = append(out, s[:i]...)
	out = append(out, v)
	return append(out, s[i:]...)
}

func flip(b []byte) []byte {
	if len(b) == 0 {
		return bytes.Repeat([]byte{0x5a}, 32)
	}
	c := append([]byte(nil), b...)
	c[len(c)/2] ^= 0x01
	return c
}

// verdict of the oracle on a relayed value
type verdict struct {
	inc        *inconsistency
	bound      bool // the answer is about the object that was asked for
	relabelled bool
}

type lieRun struct {
	t    *rapid.T
	w    *world
	liar *liar
}

// knownFor maps (method, inconsistent field) to the finding that explains an accepted lie.
func knownFor(method, field string) string {
	switch method {
	case "Tx":
		switch field {
		case "tx", "hash", "index", "proof.data":
			return idTxFields
		}
	case "TxSearch":
		return idTxSearch
	case "Block", "BlockByHash":
		if field == "block_id.parts" {
			return idBlockIDParts
		}
		if field == "last_commit" {
			return idLastCommit
		}
	case "BlockSearch":
		return idBlockSearch
	case "BlockchainInfo":
		if field == "meta.block_id.parts" {
			return idBlockIDParts
		}
	case "ABCIQuery":
		if field == "height" || field == "value" || field == "key" {
			return idEmptyRoot // signature checked by the caller: only forged answers against an EMPTY trusted app hash
		}
	case "BlockResults":
		if field == "height" || field == "panic" {
			return idBlockResults // the same repair validates the answer (height as requested, no nil results)
		}
	}
	return ""
}

// try arms one lie, performs the call through the verifying client and judges the outcome.
//   - honest: JSON of the unfalsified response (to recognise no-op lies)
//   - localOK: does the falsified response pass the response type's own ValidateBasic-style checks (so that the
//     comparison with the light-verified header is what decides)
func (r *lieRun) try(method string, l lie, honest string, call func() (interface{}, error), localOK func(handed interface{}) bool,
	judge func(ret interface{}) verdict) {
	r.liar.reset(method, l.f)
	var ret interface{}
	var err error
	if p := safely(func() { ret, err = call() }); p != nil {
		lib.Case(testF, lib.FP(method, l.name, "panic"), true, "falsified:"+method+":PANIC", "lie:"+method+":"+l.name+":PANIC")
		if id := knownFor(method, "panic"); id != "" && lib.IsKnown(id) {
			lib.ObservedKnown(id)
			lib.ExcludedByKnown(id)
			return
		}
		r.t.Fatalf("[%s] %s with falsification %q: the verifying client panicked: %v", knownFor(method, "panic"), method, l.name, p)
	}
	tag := "lie:" + method + ":" + l.name
	switch {
	case r.liar.notApplic:
		lib.Class(testF, "n/a:"+method+":"+l.name)
		return
	case r.liar.undecodable:
		lib.Case(testF, lib.FP(method, l.name, "undecodable"), false, "undecodable:"+method)
		return
	case !r.liar.applied:
		// the verifying client never asked the server (served from its own verified store)
		lib.Case(testF, lib.FP(method, l.name, "never-asked"), false, "never-asked:"+method)
		if err != nil {
			r.t.Fatalf("%s: served locally but failed: %v", method, err)
		}
		v := judge(ret)
		if v.inc != nil {
			r.t.Fatalf("%s: locally served value inconsistent with the chain: %v", method, v.inc)
		}
		return
	}
	if jsonFull(r.liar.handed) == honest {
		lib.Class(testF, "noop:"+method+":"+l.name)
		return
	}
	nontrivial := localOK == nil || localOK(r.liar.handed)
	stage := "light-decides"
	if !nontrivial {
		stage = "locally-invalid"
	}
	if err != nil {
		if nontrivial && lib.WantSample(testF+"/rejected") {
			lib.Sample(testF+"/rejected", map[string]interface{}{"method": method, "falsification": l.name, "error": err.Error()})
		}
		lib.Case(testF, lib.FP(method, l.name, "reject", stage, r.w.classes()), nontrivial, "falsified:"+method+":reject", tag+":reject", "stage:"+stage)
		return
	}
	v := judge(ret)
	if lib.WantSample(testF) && (v.inc != nil || !v.bound) {
		lib.Sample(testF, map[string]interface{}{"method": method, "falsification": l.name, "relayed": true,
			"inconsistent_field": fmt.Sprint(v.inc), "about_requested_object": v.bound, "world": r.w.classes()})
	}
	switch {
	case v.inc != nil:
		lib.Case(testF, lib.FP(method, l.name, "ACCEPT", v.inc.field), true, "falsified:"+method+":ACCEPTED-INCONSISTENT", tag+":ACCEPTED-INCONSISTENT")
		id := knownFor(method, v.inc.field)
		if id == idEmptyRoot {
			// signature of that finding: the header the answer was verified against has an EMPTY app hash
			rq, ok := ret.(*ctypes.ResultABCIQuery)
			if b := r.w.chain.Blocks[rq.Response.Height+1]; !ok || b == nil || len(b.AppHash) != 0 {
				id = ""
			}
		}
		if id != "" && lib.IsKnown(id) {
			lib.ObservedKnown(id)
			lib.ExcludedByKnown(id)
			return
		}
		r.t.Fatalf("[%s] %s relayed a falsified answer (%s): %v\nserver said: %s\nrelayed:     %s", id, method, l.name, v.inc,
			jsonOf(r.liar.handed), jsonOf(ret))
	case v.relabelled:
		lib.Case(testF, lib.FP(method, l.name, "relabel"), true, "falsified:"+method+":accept-relabelled(C10-proof-relabel)", tag+":accept-relabelled")
		lib.ExcludedByKnown("C10-proof-relabel")
	case !v.bound:
		lib.Case(testF, lib.FP(method, l.name, "substitution"), true, "falsified:"+method+":accept-substitution", tag+":accept-substitution")
	default:
		lib.Case(testF, lib.FP(method, l.name, "harmless", r.w.classes()), nontrivial, "falsified:"+method+":accept-harmless", tag+":accept-harmless")
	}
}

// ---------------------------------------------------------------------------------------------------------------
// Block / BlockByHash

func rehashBody(b *types.Block) {
	b.DataHash = types.Txs(b.Data.Txs).Hash()
	b.EvidenceHash = types.EvidenceList(b.Evidence.Evidence).Hash()
	if b.LastCommit != nil {
		c := types.NewCommit(b.LastCommit.Height, b.LastCommit.Round, b.LastCommit.BlockID, b.LastCommit.Signatures)
		b.LastCommitHash = c.Hash()
	}
}

func (w *world) blockLies(t *rapid.T, h int64) []lie {
	other := w.otherHeight(t, h, "block.other")
	hdr := []struct {
		name string
		f    func(b *types.Block) bool
	}{
		{"header.version.block", func(b *types.Block) bool { b.Version.Block++; return true }},
		{"header.version.app", func(b *types.Block) bool { b.Version.App++; return true }},
		{"header.chain_id", func(b *types.Block) bool { b.ChainID += "x"; return true }},
		{"header.height.other", func(b *types.Block) bool { b.Height = other; return other != h }},
		{"header.height.beyond", func(b *types.Block) bool { b.Height = w.tip + 50; return true }},
		{"header.time", func(b *types.Block) bool { b.Time = b.Time.Add(time.Nanosecond); return true }},
		{"header.last_block_id.hash", func(b *types.Block) bool {
			if len(b.LastBlockID.Hash) == 0 {
				return false
			}
			b.LastBlockID.Hash = flip(b.LastBlockID.Hash)
			return true
		}},
		{"header.last_block_id.parts", func(b *types.Block) bool {
			if len(b.LastBlockID.Hash) == 0 {
				return false
			}
			b.LastBlockID.PartSetHeader.Total++
			return true
		}},
		{"header.last_commit_hash", func(b *types.Block) bool { b.LastCommitHash = flip(b.LastCommitHash); return true }},
		{"header.data_hash", func(b *types.Block) bool { b.DataHash = flip(b.DataHash); return true }},
		{"header.validators_hash", func(b *types.Block) bool { b.ValidatorsHash = flip(b.ValidatorsHash); return true }},
		{"header.next_validators_hash", func(b *types.Block) bool { b.NextValidatorsHash = flip(b.NextValidatorsHash); return true }},
		{"header.consensus_hash", func(b *types.Block) bool { b.ConsensusHash = flip(b.ConsensusHash); return true }},
		{"header.app_hash", func(b *types.Block) bool { b.AppHash = flip(b.AppHash); return true }},
		{"header.last_results_hash", func(b *types.Block) bool { b.LastResultsHash = flip(b.LastResultsHash); return true }},
		{"header.evidence_hash", func(b *types.Block) bool { b.EvidenceHash = flip(b.EvidenceHash); return true }},
		{"header.proposer_address", func(b *types.Block) bool { b.ProposerAddress = flip(b.ProposerAddress); return true }},
	}
	body := []struct {
		name string
		f    func(b *types.Block) bool
	}{
		{"txs.drop", func(b *types.Block) bool {
			if len(b.Data.Txs) == 0 {
				return false
			}
			b.Data.Txs = b.Data.Txs[:len(b.Data.Txs)-1]
			return true
		}},
		{"txs.add", func(b *types.Block) bool { b.Data.Txs = append(b.Data.Txs, types.Tx("forged")); return true }},
		{"txs.alter", func(b *types.Block) bool {
			if len(b.Data.Txs) == 0 {
				return false
			}
			b.Data.Txs[0] = flip(b.Data.Txs[0])
			return true
		}},
		{"txs.swap", func(b *types.Block) bool {
			if len(b.Data.Txs) < 2 {
				return false
			}
			b.Data.Txs[0], b.Data.Txs[1] = b.Data.Txs[1], b.Data.Txs[0]
			return true
		}},
		{"evidence.drop", func(b *types.Block) bool {
			if len(b.Evidence.Evidence) == 0 {
				return false
			}
			b.Evidence.Evidence = nil
			return true
		}},
		{"evidence.swap", func(b *types.Block) bool {
			ev := b.Evidence.Evidence
			if len(ev) < 2 {
				return false
			}
			ev[0], ev[1] = ev[1], ev[0]
			return true
		}},
		{"evidence.duplicate", func(b *types.Block) bool {
			if len(b.Evidence.Evidence) == 0 {
				return false
			}
			b.Evidence.Evidence = append(b.Evidence.Evidence, b.Evidence.Evidence[0])
			return true
		}},
		// single fields INSIDE a piece of evidence
		{"evidence.dv.total_voting_power", onDV(func(e *types.DuplicateVoteEvidence) bool { e.TotalVotingPower++; return true })},
		{"evidence.dv.validator_power", onDV(func(e *types.DuplicateVoteEvidence) bool { e.ValidatorPower++; return true })},
		{"evidence.dv.timestamp", onDV(func(e *types.DuplicateVoteEvidence) bool { e.Timestamp = e.Timestamp.Add(time.Nanosecond); return true })},
		{"evidence.dv.vote_a.timestamp", onDV(func(e *types.DuplicateVoteEvidence) bool {
			e.VoteA.Timestamp = e.VoteA.Timestamp.Add(time.Nanosecond)
			return true
		})},
		{"evidence.dv.vote_b.signature", onDV(func(e *types.DuplicateVoteEvidence) bool { e.VoteB.Signature = flip(e.VoteB.Signature); return true })},
		{"evidence.dv.vote_b.round", onDV(func(e *types.DuplicateVoteEvidence) bool { e.VoteB.Round++; return true })},
		{"evidence.lca.total_voting_power", onLCA(func(e *types.LightClientAttackEvidence) bool { e.TotalVotingPower++; return true })},
		{"evidence.lca.timestamp", onLCA(func(e *types.LightClientAttackEvidence) bool { e.Timestamp = e.Timestamp.Add(time.Nanosecond); return true })},
		{"evidence.lca.common_height", onLCA(func(e *types.LightClientAttackEvidence) bool {
			if e.CommonHeight < 2 {
				return false
			}
			e.CommonHeight--
			return true
		})},
		{"evidence.lca.byzantine.drop", onLCA(func(e *types.LightClientAttackEvidence) bool {
			if len(e.ByzantineValidators) == 0 {
				return false
			}
			e.ByzantineValidators = e.ByzantineValidators[1:]
			return true
		})},
		{"evidence.lca.byzantine.clear", onLCA(func(e *types.LightClientAttackEvidence) bool {
			if len(e.ByzantineValidators) == 0 {
				return false
			}
			e.ByzantineValidators = nil
			return true
		})},
		{"evidence.lca.byzantine.power", onLCA(func(e *types.LightClientAttackEvidence) bool {
			if len(e.ByzantineValidators) == 0 {
				return false
			}
			e.ByzantineValidators[0].VotingPower++
			return true
		})},
		{"evidence.lca.byzantine.add", onLCA(func(e *types.LightClientAttackEvidence) bool {
			e.ByzantineValidators = append(e.ByzantineValidators, types.NewValidator(lib.Key(41).PubKey(), 3))
			return true
		})},
		{"evidence.lca.conflicting.commit.sig.timestamp", onLCA(func(e *types.LightClientAttackEvidence) bool {
			i := firstSigned(e.ConflictingBlock.Commit)
			if i < 0 {
				return false
			}
			sig := &e.ConflictingBlock.Commit.Signatures[i]
			sig.Timestamp = sig.Timestamp.Add(time.Nanosecond)
			return true
		})},
		{"evidence.lca.conflicting.commit.sig.signature", onLCA(func(e *types.LightClientAttackEvidence) bool {
			i := firstSigned(e.ConflictingBlock.Commit)
			if i < 0 {
				return false
			}
			sig := &e.ConflictingBlock.Commit.Signatures[i]
			sig.Signature = flip(sig.Signature)
			return true
		})},
		{"evidence.lca.conflicting.commit.round", onLCA(func(e *types.LightClientAttackEvidence) bool { e.ConflictingBlock.Commit.Round++; return true })},
		{"evidence.lca.conflicting.header.app_hash", onLCA(func(e *types.LightClientAttackEvidence) bool {
			e.ConflictingBlock.Header.AppHash = flip(e.ConflictingBlock.Header.AppHash)
			return true
		})},
		{"evidence.lca.conflicting.valset.power", onLCA(func(e *types.LightClientAttackEvidence) bool {
			e.ConflictingBlock.ValidatorSet.Validators[0].VotingPower++
			return true
		})},
		{"evidence.lca.conflicting.valset.priority", onLCA(func(e *types.LightClientAttackEvidence) bool {
			e.ConflictingBlock.ValidatorSet.Validators[0].ProposerPriority += 5
			return true
		})},
		{"evidence.add", func(b *types.Block) bool {
			ev := w.anyEvidence(b.Height)
			if ev == nil {
				return false
			}
			b.Evidence.Evidence = append(b.Evidence.Evidence, ev)
			return true
		}},
		{"last_commit.round", func(b *types.Block) bool {
			if b.LastCommit == nil || len(b.LastCommit.Signatures) == 0 {
				return false
			}
			b.LastCommit.Round++
			return true
		}},
		{"last_commit.block_id", func(b *types.Block) bool {
			if b.LastCommit == nil || len(b.LastCommit.Signatures) == 0 {
				return false
			}
			b.LastCommit.BlockID.Hash = flip(b.LastCommit.BlockID.Hash)
			return true
		}},
		{"last_commit.sig.signature", func(b *types.Block) bool {
			i := firstSigned(b.LastCommit)
			if i < 0 {
				return false
			}
			b.LastCommit.Signatures[i].Signature = flip(b.LastCommit.Signatures[i].Signature)
			return true
		}},
		{"last_commit.sig.timestamp", func(b *types.Block) bool {
			i := firstSigned(b.LastCommit)
			if i < 0 {
				return false
			}
			b.LastCommit.Signatures[i].Timestamp = b.LastCommit.Signatures[i].Timestamp.Add(time.Nanosecond)
			return true
		}},
		{"last_commit.sig.absent", func(b *types.Block) bool {
			i := firstSigned(b.LastCommit)
			if i < 0 {
				return false
			}
			b.LastCommit.Signatures[i] = types.NewCommitSigAbsent()
			return true
		}},
		{"last_commit.sig.address", func(b *types.Block) bool {
			i := firstSigned(b.LastCommit)
			if i < 0 {
				return false
			}
			b.LastCommit.Signatures[i].ValidatorAddress = flip(b.LastCommit.Signatures[i].ValidatorAddress)
			return true
		}},
		{"txs.insert-empty@front", func(b *types.Block) bool { b.Data.Txs = insertAt(b.Data.Txs, "front", types.Tx{}); return true }},
		{"txs.insert-empty@middle", func(b *types.Block) bool {
			if len(b.Data.Txs) < 2 {
				return false
			}
			b.Data.Txs = insertAt(b.Data.Txs, "middle", types.Tx{})
			return true
		}},
		{"txs.insert-empty@end", func(b *types.Block) bool {
			if len(b.Data.Txs) == 0 {
				return false
			}
			b.Data.Txs = insertAt(b.Data.Txs, "end", types.Tx{})
			return true
		}},
		{"last_commit.sig.insert-absent@front", func(b *types.Block) bool {
			if b.LastCommit == nil || len(b.LastCommit.Signatures) == 0 {
				return false
			}
			b.LastCommit.Signatures = insertAt(b.LastCommit.Signatures, "front", types.NewCommitSigAbsent())
			return true
		}},
		{"last_commit.sig.insert-absent@end", func(b *types.Block) bool {
			if b.LastCommit == nil || len(b.LastCommit.Signatures) == 0 {
				return false
			}
			b.LastCommit.Signatures = insertAt(b.LastCommit.Signatures, "end", types.NewCommitSigAbsent())
			return true
		}},
		{"last_commit.sig.drop", func(b *types.Block) bool {
			if b.LastCommit == nil || len(b.LastCommit.Signatures) < 2 {
				return false
			}
			b.LastCommit.Signatures = b.LastCommit.Signatures[:len(b.LastCommit.Signatures)-1]
			return true
		}},
	}
	var out []lie
	onBlock := func(name string, f func(b *types.Block) bool, fix func(rb *ctypes.ResultBlock)) lie {
		return lie{name, func(res interface{}) bool {
			rb := res.(*ctypes.ResultBlock)
			if rb.Block == nil || !f(rb.Block) {
				return false
			}
			if fix != nil {
				fix(rb)
			}
			return true
		}}
	}
	for _, m := range hdr {
		out = append(out, onBlock(m.name, m.f, nil))
		out = append(out, onBlock(m.name+"+rehash", m.f, func(rb *ctypes.ResultBlock) { rb.BlockID.Hash = rb.Block.Header.Hash() }))
	}
	for _, m := range body {
		out = append(out, onBlock(m.name, m.f, nil))
		out = append(out, onBlock(m.name+"+rehash", m.f, func(rb *ctypes.ResultBlock) {
			rehashBody(rb.Block)
			rb.BlockID.Hash = rb.Block.Header.Hash()
		}))
	}
	out = append(out,
		lie{"block_id.hash", func(res interface{}) bool { rb := res.(*ctypes.ResultBlock); rb.BlockID.Hash = flip(rb.BlockID.Hash); return true }},
		lie{"block_id.hash.other", func(res interface{}) bool {
			rb := res.(*ctypes.ResultBlock)
			rb.BlockID.Hash = append([]byte(nil), w.chain.IDs[other].Hash...)
			return other != h
		}},
		lie{"block_id.parts.total", func(res interface{}) bool { res.(*ctypes.ResultBlock).BlockID.PartSetHeader.Total++; return true }},
		lie{"block_id.parts.hash", func(res interface{}) bool {
			rb := res.(*ctypes.ResultBlock)
			rb.BlockID.PartSetHeader.Hash = flip(rb.BlockID.PartSetHeader.Hash)
			return true
		}},
		lie{"block_id.zero", func(res interface{}) bool { res.(*ctypes.ResultBlock).BlockID = types.BlockID{}; return true }},
		lie{"block.nil", func(res interface{}) bool { res.(*ctypes.ResultBlock).Block = nil; return true }},
		lie{"substitute.other-height", func(res interface{}) bool {
			if other == h {
				return false
			}
			o, err := w.core.Block(bg, &other)
			if err != nil {
				return false
			}
			*res.(*ctypes.ResultBlock) = *o
			return true
		}},
	)
	return out
}

// onDV / onLCA apply f to the first piece of evidence of that kind in the block.
func onDV(f func(e *types.DuplicateVoteEvidence) bool) func(b *types.Block) bool {
	return func(b *types.Block) bool {
		for _, ev := range b.Evidence.Evidence {
			if e, ok := ev.(*types.DuplicateVoteEvidence); ok {
				return f(e)
			}
		}
		return false
	}
}

func onLCA(f func(e *types.LightClientAttackEvidence) bool) func(b *types.Block) bool {
	return func(b *types.Block) bool {
		for _, ev := range b.Evidence.Evidence {
			if e, ok := ev.(*types.LightClientAttackEvidence); ok && e.ConflictingBlock != nil && e.ConflictingBlock.SignedHeader != nil &&
				e.ConflictingBlock.ValidatorSet != nil && len(e.ConflictingBlock.ValidatorSet.Validators) > 0 {
				return f(e)
			}
		}
		return false
	}
}

func firstSigned(c *types.Commit) int {
	if c == nil {
		return -1
	}
	for i, s := range c.Signatures {
		if s.BlockIDFlag == types.BlockIDFlagCommit {
			return i
		}
	}
	return -1
}

func (w *world) otherHeight(t *rapid.T, h int64, label string) int64 {
	o := rapid.Int64Range(w.init, w.tip).Draw(t, label)
	if o == h {
		if h < w.tip {
			o = h + 1
		} else if h > w.init {
			o = h - 1
		}
	}
	return o
}

// anyEvidence returns valid-looking evidence to smuggle into a block of height h (nil when the chain has no
// height before h).
func (w *world) anyEvidence(h int64) types.Evidence {
	for _, hh := range w.heights() {
		for _, ev := range w.chain.Blocks[hh].Evidence.Evidence {
			if hh != h {
				return ev
			}
		}
	}
	prev := h - 1
	if _, ok := w.chain.Blocks[prev]; !ok {
		return nil
	}
	vals := w.chain.ValidatorsAt(prev)
	k := lib.KeyIndex(vals.Validators[0].Address)
	ev, err := w.chain.DuplicateVote(k, 2, prev, 0, lib.ForgeBlockID("lieA"), lib.ForgeBlockID("lieB"))
	if err != nil {
		return nil
	}
	return ev
}

func blockLocalOK(handed interface{}) bool {
	rb := handed.(*ctypes.ResultBlock)
	return rb.Block != nil && rb.BlockID.ValidateBasic() == nil && rb.Block.ValidateBasic() == nil && bytes.Equal(rb.BlockID.Hash, rb.Block.Hash())
}

func (r *lieRun) blocks() {
	w, t := r.w, r.t
	h := rapid.Int64Range(w.init, w.tip).Draw(t, "block.h")
	var withEvidence []int64
	for _, hh := range w.heights() {
		if len(w.chain.Blocks[hh].Evidence.Evidence) > 0 {
			withEvidence = append(withEvidence, hh)
		}
	}
	if len(withEvidence) > 0 && rapid.Bool().Draw(t, "block.prefer-evidence") {
		h = rapid.SampledFrom(withEvidence).Draw(t, "block.evidence-h")
	}
	lib.Class(testF, fmt.Sprintf("block-target:evidence=%d,txs=%v", len(w.chain.Blocks[h].Evidence.Evidence), len(w.chain.Blocks[h].Txs) > 0))
	byHash := rapid.Bool().Draw(t, "block.byhash")
	method := "Block"
	if byHash {
		method = "BlockByHash"
	}
	c := w.drawVerifier(t, r.liar, "block.v")
	hon, _ := newLiar(w.core).Block(bg, &h)
	honest := jsonFull(hon)
	for _, l := range w.blockLies(t, h) {
		r.try(method, l, honest, func() (interface{}, error) {
			if byHash {
				return c.BlockByHash(bg, w.chain.IDs[h].Hash)
			}
			return c.Block(bg, &h)
		}, blockLocalOK, func(ret interface{}) verdict {
			rb := ret.(*ctypes.ResultBlock)
			inc := w.consistentBlock(rb)
			return verdict{inc: inc, bound: inc == nil && rb.Block.Height == h}
		})
	}
}

// blockSearch: every Block lie on one element of a BlockSearch answer, plus list-shape lies.
func (r *lieRun) blockSearch() {
	w, t := r.w, r.t
	hs, err := newLiar(w.core).BlockSearch(bg, "block.height>0", nil, ip(100), "asc")
	if err != nil || len(hs.Blocks) == 0 {
		return
	}
	honest := jsonFull(hs)
	j := rapid.IntRange(0, len(hs.Blocks)-1).Draw(t, "blocksearch.elem")
	h := hs.Blocks[j].Block.Height
	var lies []lie
	for _, l := range w.blockLies(t, h) {
		l := l
		lies = append(lies, lie{"elem." + l.name, func(res interface{}) bool {
			rs := res.(*ctypes.ResultBlockSearch)
			if j >= len(rs.Blocks) || rs.Blocks[j] == nil {
				return false
			}
			return l.f(rs.Blocks[j])
		}})
	}
	lies = append(lies,
		lie{"list.insert-nil@front", func(res interface{}) bool {
			rs := res.(*ctypes.ResultBlockSearch)
			rs.Blocks = insertAt(rs.Blocks, "front", nil)
			return true
		}},
		lie{"list.insert-zero@end", func(res interface{}) bool {
			rs := res.(*ctypes.ResultBlockSearch)
			rs.Blocks = insertAt(rs.Blocks, "end", &ctypes.ResultBlock{})
			return true
		}},
		lie{"list.drop(omission)", func(res interface{}) bool {
			rs := res.(*ctypes.ResultBlockSearch)
			rs.Blocks = append(rs.Blocks[:j:j], rs.Blocks[j+1:]...)
			return true
		}},
		lie{"total_count(free)", func(res interface{}) bool { res.(*ctypes.ResultBlockSearch).TotalCount++; return true }},
	)
	c := w.drawVerifier(t, r.liar, "blocksearch.v")
	for _, l := range lies {
		r.try("BlockSearch", l, honest, func() (interface{}, error) { return c.BlockSearch(bg, "block.height>0", nil, ip(100), "asc") },
			func(handed interface{}) bool {
				for _, rb := range handed.(*ctypes.ResultBlockSearch).Blocks {
					if rb == nil || !blockLocalOK(rb) {
						return false
					}
				}
				return true
			},
			func(ret interface{}) verdict {
				rs := ret.(*ctypes.ResultBlockSearch)
				for _, rb := range rs.Blocks {
					if inc := w.consistentBlock(rb); inc != nil {
						return verdict{inc: inc}
					}
				}
				bound := len(rs.Blocks) == len(hs.Blocks)
				for i := 0; bound && i < len(rs.Blocks); i++ {
					bound = rs.Blocks[i].Block.Height == hs.Blocks[i].Block.Height
				}
				return verdict{bound: bound}
			})
	}
}

// ---------------------------------------------------------------------------------------------------------------
// BlockResults

func (w *world) resultsLies(t *rapid.T, h int64) []lie {
	other := w.otherHeight(t, h, "results.other")
	on := func(name string, f func(r *ctypes.ResultBlockResults) bool) lie {
		return lie{name, func(res interface{}) bool { return f(res.(*ctypes.ResultBlockResults)) }}
	}
	has := func(r *ctypes.ResultBlockResults) bool { return len(r.TxsResults) > 0 }
	pk, _ := cryptoenc.PubKeyToProto(lib.Key(40).PubKey())
	lies := []lie{
		on("height+1", func(r *ctypes.ResultBlockResults) bool { r.Height++; return true }),
		on("height.other", func(r *ctypes.ResultBlockResults) bool { r.Height = other; return other != h }),
		on("result.code", func(r *ctypes.ResultBlockResults) bool {
			if !has(r) {
				return false
			}
			r.TxsResults[0].Code++
			return true
		}),
		on("result.data", func(r *ctypes.ResultBlockResults) bool {
			if !has(r) {
				return false
			}
			r.TxsResults[0].Data = append(flip(r.TxsResults[0].Data)[:1:1], 0x77)
			return true
		}),
		on("result.gas_wanted", func(r *ctypes.ResultBlockResults) bool {
			if !has(r) {
				return false
			}
			r.TxsResults[0].GasWanted++
			return true
		}),
		on("result.gas_used", func(r *ctypes.ResultBlockResults) bool {
			if !has(r) {
				return false
			}
			r.TxsResults[len(r.TxsResults)-1].GasUsed++
			return true
		}),
		on("result.log(free)", func(r *ctypes.ResultBlockResults) bool {
			if !has(r) {
				return false
			}
			r.TxsResults[0].Log += "!"
			return true
		}),
		on("result.info(free)", func(r *ctypes.ResultBlockResults) bool {
			if !has(r) {
				return false
			}
			r.TxsResults[0].Info += "!"
			return true
		}),
		on("result.codespace(free)", func(r *ctypes.ResultBlockResults) bool {
			if !has(r) {
				return false
			}
			r.TxsResults[0].Codespace += "!"
			return true
		}),
		on("result.events(free)", func(r *ctypes.ResultBlockResults) bool {
			if !has(r) {
				return false
			}
			r.TxsResults[0].Events = append(r.TxsResults[0].Events, abci.Event{Type: "forged"})
			return true
		}),
		on("results.drop", func(r *ctypes.ResultBlockResults) bool {
			if !has(r) {
				return false
			}
			r.TxsResults = r.TxsResults[:len(r.TxsResults)-1]
			return true
		}),
		on("results.add", func(r *ctypes.ResultBlockResults) bool {
			r.TxsResults = append(r.TxsResults, &abci.ResponseDeliverTx{Code: 0})
			return true
		}),
		on("results.nil-element", func(r *ctypes.ResultBlockResults) bool {
			if !has(r) {
				return false
			}
			r.TxsResults[0] = nil
			return true
		}),
		on("results.swap", func(r *ctypes.ResultBlockResults) bool {
			if len(r.TxsResults) < 2 {
				return false
			}
			r.TxsResults[0], r.TxsResults[1] = r.TxsResults[1], r.TxsResults[0]
			return true
		}),
		on("results.other-height", func(r *ctypes.ResultBlockResults) bool {
			o, err := w.core.BlockResults(bg, &other)
			if err != nil || other == h {
				return false
			}
			r.TxsResults = o.TxsResults
			return true
		}),
		on("substitute.other-height", func(r *ctypes.ResultBlockResults) bool {
			o, err := w.core.BlockResults(bg, &other)
			if err != nil || other == h {
				return false
			}
			*r = *o
			return true
		}),
		on("begin_events.add(free)", func(r *ctypes.ResultBlockResults) bool {
			r.BeginBlockEvents = append(r.BeginBlockEvents, abci.Event{Type: "forged"})
			return true
		}),
		on("begin_events.drop(free)", func(r *ctypes.ResultBlockResults) bool {
			if len(r.BeginBlockEvents) == 0 {
				return false
			}
			r.BeginBlockEvents = nil
			return true
		}),
		on("end_events.add(free)", func(r *ctypes.ResultBlockResults) bool {
			r.EndBlockEvents = append(r.EndBlockEvents, abci.Event{Type: "forged"})
			return true
		}),
		on("end_events.drop(free)", func(r *ctypes.ResultBlockResults) bool {
			if len(r.EndBlockEvents) == 0 {
				return false
			}
			r.EndBlockEvents = nil
			return true
		}),
		on("validator_updates.add(indirect)", func(r *ctypes.ResultBlockResults) bool {
			r.ValidatorUpdates = append(r.ValidatorUpdates, abci.ValidatorUpdate{PubKey: pk, Power: 5})
			return true
		}),
		on("validator_updates.drop(indirect)", func(r *ctypes.ResultBlockResults) bool {
			if len(r.ValidatorUpdates) == 0 {
				return false
			}
			r.ValidatorUpdates = nil
			return true
		}),
		on("validator_updates.power(indirect)", func(r *ctypes.ResultBlockResults) bool {
			if len(r.ValidatorUpdates) == 0 {
				return false
			}
			r.ValidatorUpdates[0].Power += 3
			return true
		}),
		on("param_updates.set(indirect)", func(r *ctypes.ResultBlockResults) bool {
			r.ConsensusParamUpdates = &abci.ConsensusParams{Block: &abci.BlockParams{MaxBytes: 12345678, MaxGas: 9}}
			return true
		}),
		on("param_updates.unset(indirect)", func(r *ctypes.ResultBlockResults) bool {
			if r.ConsensusParamUpdates == nil {
				return false
			}
			r.ConsensusParamUpdates = nil
			return true
		}),
	}
	for _, pos := range shapePositions {
		pos := pos
		lies = append(lies,
			on("results.insert-nil@"+pos, func(r *ctypes.ResultBlockResults) bool {
				if pos != "front" && (len(r.TxsResults) == 0 || (pos == "middle" && len(r.TxsResults) < 2)) {
					return false // same response as @front
				}
				r.TxsResults = insertAt(r.TxsResults, pos, nil)
				return true
			}),
			on("results.insert-zero@"+pos, func(r *ctypes.ResultBlockResults) bool {
				if pos != "front" && (len(r.TxsResults) == 0 || (pos == "middle" && len(r.TxsResults) < 2)) {
					return false
				}
				r.TxsResults = insertAt(r.TxsResults, pos, &abci.ResponseDeliverTx{})
				return true
			}))
	}
	lies = append(lies, on("results.insert-nil@everywhere", func(r *ctypes.ResultBlockResults) bool {
		for _, pos := range shapePositions {
			r.TxsResults = insertAt(r.TxsResults, pos, nil)
		}
		return true
	}))
	return lies
}

func (r *lieRun) blockResults() {
	w, t := r.w, r.t
	if w.tip == w.init {
		return
	}
	h := rapid.Int64Range(w.init, w.tip-1).Draw(t, "results.h")
	if len(w.txs) > 0 && rapid.Bool().Draw(t, "results.withtx") {
		// prefer a block that has results
		tr := rapid.SampledFrom(w.txs).Draw(t, "results.tx")
		if tr.Height < w.tip {
			h = tr.Height
		}
	}
	c := w.drawVerifier(t, r.liar, "results.v")
	hon, _ := newLiar(w.core).BlockResults(bg, &h)
	honest := jsonFull(hon)
	for _, l := range w.resultsLies(t, h) {
		r.try("BlockResults", l, honest, func() (interface{}, error) { return c.BlockResults(bg, &h) }, nil,
			func(ret interface{}) verdict {
				rr := ret.(*ctypes.ResultBlockResults)
				inc := w.consistentBlockResults(rr)
				return verdict{inc: inc, bound: inc == nil && rr.Height == h}
			})
	}
}

// ---------------------------------------------------------------------------------------------------------------
// Tx / TxSearch

// relabel finds another (index,total) under which the same audit path leads to the same root.
func relabel(index, total int64, leaf []byte, aunts [][]byte) (int64, int64, bool) {
	root := refRootFromPath(index, total, leaf, aunts)
	if root == nil {
		return 0, 0, false
	}
	for n := int64(1); n <= 2*total+2; n++ {
		for i := int64(0); i < n; i++ {
			if (i != index || n != total) && bytes.Equal(refRootFromPath(i, n, leaf, aunts), root) {
				return i, n, true
			}
		}
	}
	return 0, 0, false
}

func (w *world) txLies(t *rapid.T, tr txRef, label string) []lie {
	var other txRef
	hasOther := false
	if len(w.txs) > 1 {
		other = rapid.SampledFrom(w.txs).Draw(t, label+".other")
		if bytes.Equal(other.Tx, tr.Tx) {
			other = w.txs[0]
			if bytes.Equal(other.Tx, tr.Tx) {
				other = w.txs[1]
			}
		}
		hasOther = !bytes.Equal(other.Tx, tr.Tx)
		for _, o := range w.txs {
			if !hasOther && !bytes.Equal(o.Tx, tr.Tx) {
				other, hasOther = o, true
			}
		}
	}
	otherH := w.otherHeight(t, tr.Height, label+".otherh")
	honestOther := func() *ctypes.ResultTx {
		if !hasOther {
			return nil
		}
		o, err := w.core.Tx(bg, types.Tx(other.Tx).Hash(), true)
		if err != nil {
			return nil
		}
		return o
	}
	on := func(name string, f func(r *ctypes.ResultTx) bool) lie {
		return lie{name, func(res interface{}) bool { return f(res.(*ctypes.ResultTx)) }}
	}
	lies := []lie{
		on("hash.flip", func(r *ctypes.ResultTx) bool { r.Hash = flip(r.Hash); return true }),
		on("hash.other", func(r *ctypes.ResultTx) bool { r.Hash = types.Tx(other.Tx).Hash(); return hasOther }),
		on("height.other", func(r *ctypes.ResultTx) bool { r.Height = otherH; return otherH != tr.Height }),
		on("height.beyond", func(r *ctypes.ResultTx) bool { r.Height = w.tip + 50; return true }),
		on("height.zero", func(r *ctypes.ResultTx) bool { r.Height = 0; return true }),
		on("index+1", func(r *ctypes.ResultTx) bool { r.Index++; return true }),
		on("tx.alter", func(r *ctypes.ResultTx) bool { r.Tx = flip(r.Tx); return true }),
		on("tx.other", func(r *ctypes.ResultTx) bool { r.Tx = append([]byte(nil), other.Tx...); return hasOther }),
		on("tx+hash.other", func(r *ctypes.ResultTx) bool {
			r.Tx = append([]byte(nil), other.Tx...)
			r.Hash = types.Tx(other.Tx).Hash()
			return hasOther
		}),
		on("tx+hash+proof.data.other", func(r *ctypes.ResultTx) bool {
			r.Tx = append([]byte(nil), other.Tx...)
			r.Hash = types.Tx(other.Tx).Hash()
			r.Proof.Data = append([]byte(nil), other.Tx...)
			return hasOther
		}),
		on("tx_result.code(unproven)", func(r *ctypes.ResultTx) bool { r.TxResult.Code++; return true }),
		on("tx_result.data(unproven)", func(r *ctypes.ResultTx) bool { r.TxResult.Data = flip(r.TxResult.Data); return true }),
		on("tx_result.log(free)", func(r *ctypes.ResultTx) bool { r.TxResult.Log += "!"; return true }),
		on("tx_result.events(free)", func(r *ctypes.ResultTx) bool {
			r.TxResult.Events = append(r.TxResult.Events, abci.Event{Type: "forged"})
			return true
		}),
		on("proof.root_hash.flip", func(r *ctypes.ResultTx) bool { r.Proof.RootHash = flip(r.Proof.RootHash); return true }),
		on("proof.root_hash.other-block", func(r *ctypes.ResultTx) bool {
			r.Proof.RootHash = append([]byte(nil), w.chain.Blocks[otherH].DataHash...)
			return otherH != tr.Height
		}),
		on("proof.data.alter", func(r *ctypes.ResultTx) bool { r.Proof.Data = flip(r.Proof.Data); return true }),
		on("proof.data.other", func(r *ctypes.ResultTx) bool { r.Proof.Data = append([]byte(nil), other.Tx...); return hasOther }),
		on("proof.total+1", func(r *ctypes.ResultTx) bool { r.Proof.Proof.Total++; return true }),
		on("proof.index+1", func(r *ctypes.ResultTx) bool { r.Proof.Proof.Index++; return true }),
		on("proof.index.negative", func(r *ctypes.ResultTx) bool { r.Proof.Proof.Index = -1; return true }),
		on("proof.leaf_hash", func(r *ctypes.ResultTx) bool { r.Proof.Proof.LeafHash = flip(r.Proof.Proof.LeafHash); return true }),
		on("proof.aunt.flip", func(r *ctypes.ResultTx) bool {
			if len(r.Proof.Proof.Aunts) == 0 {
				return false
			}
			r.Proof.Proof.Aunts[0] = flip(r.Proof.Proof.Aunts[0])
			return true
		}),
		on("proof.aunt.drop", func(r *ctypes.ResultTx) bool {
			if len(r.Proof.Proof.Aunts) == 0 {
				return false
			}
			r.Proof.Proof.Aunts = r.Proof.Proof.Aunts[1:]
			return true
		}),
		on("proof.aunt.insert-empty@front", func(r *ctypes.ResultTx) bool {
			r.Proof.Proof.Aunts = insertAt(r.Proof.Proof.Aunts, "front", nil)
			return true
		}),
		on("proof.aunt.insert-empty@end", func(r *ctypes.ResultTx) bool {
			if len(r.Proof.Proof.Aunts) == 0 {
				return false
			}
			r.Proof.Proof.Aunts = insertAt(r.Proof.Proof.Aunts, "end", nil)
			return true
		}),
		on("proof.aunt.add", func(r *ctypes.ResultTx) bool {
			r.Proof.Proof.Aunts = append(r.Proof.Proof.Aunts, bytes.Repeat([]byte{7}, 32))
			return true
		}),
		on("proof.zero", func(r *ctypes.ResultTx) bool { r.Proof = types.TxProof{}; return true }),
		on("proof.transplant.other-tx", func(r *ctypes.ResultTx) bool {
			o := honestOther()
			if o == nil {
				return false
			}
			r.Proof = o.Proof
			return true
		}),
		on("proof.relabel", func(r *ctypes.ResultTx) bool {
			p := &r.Proof.Proof
			i, n, ok := relabel(p.Index, p.Total, p.LeafHash, p.Aunts)
			if !ok {
				return false
			}
			p.Index, p.Total = i, n
			return true
		}),
		on("proof.relabel+index", func(r *ctypes.ResultTx) bool {
			p := &r.Proof.Proof
			i, n, ok := relabel(p.Index, p.Total, p.LeafHash, p.Aunts)
			if !ok {
				return false
			}
			p.Index, p.Total = i, n
			r.Index = uint32(i)
			return true
		}),
		on("substitute.other-tx", func(r *ctypes.ResultTx) bool {
			o := honestOther()
			if o == nil {
				return false
			}
			*r = *o
			return true
		}),
	}
	// coordinated position lies: the answer's Index AND the proof's Index (and Total) are changed together, over every
	// position 0..N+1 and every total N-1..N+2 of a block of N txs, the rest of the proof genuine. Whatever the
	// verifying client relays must still be a position the audit path really leads to (reference Merkle, ref_test.go).
	n := int64(len(w.chain.Blocks[tr.Height].Txs))
	for k := int64(0); k <= n+1; k++ {
		for dt := int64(-1); dt <= 2; dt++ {
			k, m := k, n+dt
			if m <= 0 || (k == int64(tr.Index) && m == n) {
				continue
			}
			lies = append(lies, on(fmt.Sprintf("coord.index=%d,total=N%+d", k, dt), func(r *ctypes.ResultTx) bool {
				r.Index = uint32(k)
				r.Proof.Proof.Index, r.Proof.Proof.Total = k, m
				return true
			}))
		}
	}
	return lies
}

func (r *lieRun) judgeTx(want []byte) func(ret interface{}) verdict {
	return func(ret interface{}) verdict {
		rt := ret.(*ctypes.ResultTx)
		inc, rel := r.w.consistentTx(rt)
		return verdict{inc: inc, relabelled: rel, bound: inc == nil && bytes.Equal(rt.Tx, want)}
	}
}

func (r *lieRun) txs() {
	w, t := r.w, r.t
	if len(w.txs) == 0 {
		return
	}
	tr := rapid.SampledFrom(w.txs).Draw(t, "tx.target")
	if rapid.Bool().Draw(t, "tx.target.last") { // the last leaf of a tree is the boundary case of every index check
		txs := w.chain.Blocks[tr.Height].Txs
		tr = txRef{Height: tr.Height, Index: len(txs) - 1, Tx: txs[len(txs)-1]}
	}
	lib.Class(testF, fmt.Sprintf("tx-target:last=%v,block-txs=%d", tr.Index == len(w.chain.Blocks[tr.Height].Txs)-1, len(w.chain.Blocks[tr.Height].Txs)))
	c := w.drawVerifier(t, r.liar, "tx.v")
	hash := types.Tx(tr.Tx).Hash()
	hon, herr := newLiar(w.core).Tx(bg, hash, true)
	if herr != nil {
		r.t.Fatalf("VERIF-INFRA: rpc/core.Tx: %v", herr)
	}
	// the same bytes may occur more than once: the lies start from the occurrence the node answers with
	tr = txRef{Height: hon.Height, Index: int(hon.Index), Tx: tr.Tx}
	honest := jsonFull(hon)
	for _, l := range w.txLies(t, tr, "tx") {
		r.try("Tx", l, honest, func() (interface{}, error) { return c.Tx(bg, hash, true) }, nil, r.judgeTx(tr.Tx))
	}

	// TxSearch: the same lies on one element of the result list, plus list-level ones
	q := fmt.Sprintf("tx.height=%d", tr.Height)
	if rapid.Bool().Draw(t, "txsearch.all") {
		q = "tx.height>0"
	}
	hs, err := newLiar(w.core).TxSearch(bg, q, true, nil, ip(100), "asc")
	if err != nil || len(hs.Txs) == 0 {
		return
	}
	honest = jsonFull(hs)
	j := rapid.IntRange(0, len(hs.Txs)-1).Draw(t, "txsearch.elem")
	if rapid.Bool().Draw(t, "txsearch.elem.last") { // move to the last tx of that element's block
		for j+1 < len(hs.Txs) && hs.Txs[j+1].Height == hs.Txs[j].Height {
			j++
		}
	}
	elem := txRef{Height: hs.Txs[j].Height, Index: int(hs.Txs[j].Index), Tx: hs.Txs[j].Tx}
	var lies []lie
	for _, l := range w.txLies(t, elem, "txsearch") {
		l := l
		lies = append(lies, lie{"elem." + l.name, func(res interface{}) bool {
			rs := res.(*ctypes.ResultTxSearch)
			if j >= len(rs.Txs) {
				return false
			}
			return l.f(rs.Txs[j])
		}})
	}
	lies = append(lies,
		lie{"list.drop(omission)", func(res interface{}) bool {
			rs := res.(*ctypes.ResultTxSearch)
			rs.Txs = append(rs.Txs[:j:j], rs.Txs[j+1:]...)
			return true
		}},
		lie{"list.duplicate", func(res interface{}) bool {
			rs := res.(*ctypes.ResultTxSearch)
			rs.Txs = append(rs.Txs, rs.Txs[j])
			return true
		}},
		lie{"list.nil-element", func(res interface{}) bool { res.(*ctypes.ResultTxSearch).Txs[j] = nil; return true }},
		lie{"list.insert-nil@front", func(res interface{}) bool {
			rs := res.(*ctypes.ResultTxSearch)
			rs.Txs = insertAt(rs.Txs, "front", nil)
			return true
		}},
		lie{"list.insert-nil@middle", func(res interface{}) bool {
			rs := res.(*ctypes.ResultTxSearch)
			if len(rs.Txs) < 2 {
				return false
			}
			rs.Txs = insertAt(rs.Txs, "middle", nil)
			return true
		}},
		lie{"list.insert-nil@end", func(res interface{}) bool {
			rs := res.(*ctypes.ResultTxSearch)
			rs.Txs = insertAt(rs.Txs, "end", nil)
			return true
		}},
		lie{"list.insert-zero@front", func(res interface{}) bool {
			rs := res.(*ctypes.ResultTxSearch)
			rs.Txs = insertAt(rs.Txs, "front", &ctypes.ResultTx{})
			return true
		}},
		lie{"list.insert-zero@end", func(res interface{}) bool {
			rs := res.(*ctypes.ResultTxSearch)
			rs.Txs = insertAt(rs.Txs, "end", &ctypes.ResultTx{})
			return true
		}},
		lie{"total_count(free)", func(res interface{}) bool { res.(*ctypes.ResultTxSearch).TotalCount++; return true }},
	)
	cs := w.drawVerifier(t, r.liar, "txsearch.v")
	for _, l := range lies {
		r.try("TxSearch", l, honest, func() (interface{}, error) { return cs.TxSearch(bg, q, true, nil, ip(100), "asc") }, nil,
			func(ret interface{}) verdict {
				rs := ret.(*ctypes.ResultTxSearch)
				v := verdict{bound: true}
				for _, rt := range rs.Txs {
					inc, rel := w.consistentTx(rt)
					if inc != nil {
						return verdict{inc: inc}
					}
					v.relabelled = v.relabelled || rel
				}
				// a consistent list that is not the honest one (other members) answers another question
				if len(rs.Txs) != len(hs.Txs) {
					v.bound = false
				} else {
					for i := range rs.Txs {
						if !bytes.Equal(rs.Txs[i].Tx, hs.Txs[i].Tx) {
							v.bound = false
						}
					}
				}
				return v
			})
	}
}

// ---------------------------------------------------------------------------------------------------------------
// ConsensusParams

func (r *lieRun) params() {
	w, t := r.w, r.t
	h := rapid.Int64Range(w.init, w.tip).Draw(t, "params.h")
	other := w.otherHeight(t, h, "params.other")
	on := func(name string, f func(p *ctypes.ResultConsensusParams) bool) lie {
		return lie{name, func(res interface{}) bool { return f(res.(*ctypes.ResultConsensusParams)) }}
	}
	lies := []lie{
		on("block_height.other", func(p *ctypes.ResultConsensusParams) bool { p.BlockHeight = other; return other != h }),
		on("block_height.beyond", func(p *ctypes.ResultConsensusParams) bool { p.BlockHeight = w.tip + 50; return true }),
		on("block.max_bytes", func(p *ctypes.ResultConsensusParams) bool { p.ConsensusParams.Block.MaxBytes++; return true }),
		on("block.max_gas", func(p *ctypes.ResultConsensusParams) bool { p.ConsensusParams.Block.MaxGas += 7; return true }),
		on("block.time_iota_ms(unhashed)", func(p *ctypes.ResultConsensusParams) bool { p.ConsensusParams.Block.TimeIotaMs++; return true }),
		on("evidence.max_age_num_blocks(unhashed)", func(p *ctypes.ResultConsensusParams) bool {
			p.ConsensusParams.Evidence.MaxAgeNumBlocks++
			return true
		}),
		on("evidence.max_age_duration(unhashed)", func(p *ctypes.ResultConsensusParams) bool {
			p.ConsensusParams.Evidence.MaxAgeDuration += time.Second
			return true
		}),
		on("evidence.max_bytes(unhashed)", func(p *ctypes.ResultConsensusParams) bool { p.ConsensusParams.Evidence.MaxBytes++; return true }),
		on("validator.pub_key_types(unhashed)", func(p *ctypes.ResultConsensusParams) bool {
			p.ConsensusParams.Validator.PubKeyTypes = append(p.ConsensusParams.Validator.PubKeyTypes, types.ABCIPubKeyTypeSecp256k1)
			return true
		}),
		on("version.app_version(unhashed)", func(p *ctypes.ResultConsensusParams) bool { p.ConsensusParams.Version.AppVersion++; return true }),
		on("substitute.other-height", func(p *ctypes.ResultConsensusParams) bool {
			o, err := w.core.ConsensusParams(bg, &other)
			if err != nil || other == h {
				return false
			}
			*p = *o
			return true
		}),
	}
	c := w.drawVerifier(t, r.liar, "params.v")
	hon, _ := newLiar(w.core).ConsensusParams(bg, &h)
	honest := jsonFull(hon)
	for _, l := range lies {
		r.try("ConsensusParams", l, honest, func() (interface{}, error) { return c.ConsensusParams(bg, &h) },
			func(handed interface{}) bool {
				return types.ValidateConsensusParams(handed.(*ctypes.ResultConsensusParams).ConsensusParams) == nil
			},
			func(ret interface{}) verdict {
				p := ret.(*ctypes.ResultConsensusParams)
				inc := w.consistentParams(p)
				return verdict{inc: inc, bound: inc == nil && p.BlockHeight == h}
			})
	}
}

// ---------------------------------------------------------------------------------------------------------------
// ABCIQuery

func (r *lieRun) queries() {
	w, t := r.w, r.t
	if w.tip == w.init {
		return
	}
	h := rapid.Int64Range(w.init, w.tip-1).Draw(t, "query.h")
	s := rapid.SampledFrom(stores).Draw(t, "query.store")
	plain := w.kv.Keys(h, s)
	if len(plain) == 0 {
		return
	}
	key := []byte(rapid.SampledFrom(plain).Draw(t, "query.key"))
	// prefer a key that has a look-alike (confusable) sibling in the same store
	var withSibling []string
	for _, k := range plain {
		for _, c := range confusables([]byte(k)) {
			if _, ok := w.kv.Get(h, s, c); ok {
				withSibling = append(withSibling, k)
				break
			}
		}
	}
	if len(withSibling) > 0 && rapid.Bool().Draw(t, "query.prefer-confusable") {
		key = []byte(rapid.SampledFrom(withSibling).Draw(t, "query.confusable-key"))
	}
	path := "/store/" + s + "/key"
	otherStore := map[string]string{"acc": "meta", "meta": "acc", "x+y z": "x y z", "x y z": "x+y z"}[s]
	var otherKey []byte
	var others [][]byte // every other key of the store, look-alikes first
	for _, c := range confusables(key) {
		if _, ok := w.kv.Get(h, s, c); ok {
			others = append(others, c)
		}
	}
	for _, k := range plain {
		dup := k == string(key)
		for _, o := range others {
			dup = dup || string(o) == k
		}
		if !dup && len(others) < 6 {
			others = append(others, []byte(k))
		}
	}
	if len(others) > 0 {
		otherKey = others[0]
	}
	lib.Class(testF, fmt.Sprintf("query-target:store=%q,confusable-sibling=%v", s, len(withSibling) > 0 && len(confusables(key)) > 0 && otherKey != nil && isConfusable(key, otherKey)))
	otherH := w.otherHeight(t, h, "query.otherh")
	if otherH >= w.tip {
		otherH = h
	}
	q := func(store string, k []byte, hh int64) *abci.ResponseQuery {
		res, err := w.core.ABCIQueryWithOptions(bg, "/store/"+store+"/key", k, rpcclient.ABCIQueryOptions{Height: hh, Prove: true})
		if err != nil || res.Response.ProofOps == nil || len(res.Response.ProofOps.Ops) != 2 {
			return nil
		}
		return &res.Response
	}
	on := func(name string, f func(p *abci.ResponseQuery) bool) lie {
		return lie{name, func(res interface{}) bool {
			p := &res.(*ctypes.ResultABCIQuery).Response
			if p.ProofOps == nil || len(p.ProofOps.Ops) != 2 {
				return false
			}
			return f(p)
		}}
	}
	lies := []lie{
		on("code", func(p *abci.ResponseQuery) bool { p.Code = 1; return true }),
		on("key.other", func(p *abci.ResponseQuery) bool { p.Key = otherKey; return otherKey != nil }),
		on("key.empty", func(p *abci.ResponseQuery) bool { p.Key = nil; return true }),
		on("value.alter", func(p *abci.ResponseQuery) bool { p.Value = flip(p.Value); return true }),
		on("value.nil(absence)", func(p *abci.ResponseQuery) bool { p.Value = nil; return true }),
		on("value.other-key", func(p *abci.ResponseQuery) bool {
			o := q(s, otherKey, h)
			if otherKey == nil || o == nil {
				return false
			}
			p.Value = o.Value
			return true
		}),
		on("height-1", func(p *abci.ResponseQuery) bool { p.Height--; return true }),
		on("height+1", func(p *abci.ResponseQuery) bool { p.Height++; return true }),
		on("height.zero", func(p *abci.ResponseQuery) bool { p.Height = 0; return true }),
		on("index(free)", func(p *abci.ResponseQuery) bool { p.Index++; return true }),
		on("log(free)", func(p *abci.ResponseQuery) bool { p.Log += "!"; return true }),
		on("info(free)", func(p *abci.ResponseQuery) bool { p.Info += "!"; return true }),
		on("codespace(free)", func(p *abci.ResponseQuery) bool { p.Codespace += "!"; return true }),
		on("proof.nil", func(p *abci.ResponseQuery) bool { p.ProofOps = nil; return true }),
		on("proof.empty", func(p *abci.ResponseQuery) bool { p.ProofOps = &tmcrypto.ProofOps{}; return true }),
		on("proof.drop-inner", func(p *abci.ResponseQuery) bool { p.ProofOps.Ops = p.ProofOps.Ops[1:]; return true }),
		on("proof.drop-outer", func(p *abci.ResponseQuery) bool { p.ProofOps.Ops = p.ProofOps.Ops[:1]; return true }),
		on("proof.swap", func(p *abci.ResponseQuery) bool {
			p.ProofOps.Ops[0], p.ProofOps.Ops[1] = p.ProofOps.Ops[1], p.ProofOps.Ops[0]
			return true
		}),
		on("proof.insert-zero-op@front", func(p *abci.ResponseQuery) bool {
			p.ProofOps.Ops = insertAt(p.ProofOps.Ops, "front", tmcrypto.ProofOp{})
			return true
		}),
		on("proof.insert-zero-op@middle", func(p *abci.ResponseQuery) bool {
			p.ProofOps.Ops = insertAt(p.ProofOps.Ops, "middle", tmcrypto.ProofOp{})
			return true
		}),
		on("proof.insert-zero-op@end", func(p *abci.ResponseQuery) bool {
			p.ProofOps.Ops = insertAt(p.ProofOps.Ops, "end", tmcrypto.ProofOp{})
			return true
		}),
		on("proof.extra-op", func(p *abci.ResponseQuery) bool { p.ProofOps.Ops = append(p.ProofOps.Ops, p.ProofOps.Ops[1]); return true }),
		on("proof.inner.other-key", func(p *abci.ResponseQuery) bool {
			o := q(s, otherKey, h)
			if otherKey == nil || o == nil {
				return false
			}
			p.ProofOps.Ops[0] = o.ProofOps.Ops[0]
			return true
		}),
		on("proof.inner.other-height", func(p *abci.ResponseQuery) bool {
			o := q(s, key, otherH)
			if o == nil || otherH == h {
				return false
			}
			p.ProofOps.Ops[0] = o.ProofOps.Ops[0]
			return true
		}),
		on("proof.outer.other-height", func(p *abci.ResponseQuery) bool {
			o := q(s, key, otherH)
			if o == nil || otherH == h {
				return false
			}
			p.ProofOps.Ops[1] = o.ProofOps.Ops[1]
			return true
		}),
		on("proof.outer.other-store", func(p *abci.ResponseQuery) bool {
			ks := w.kv.Keys(h, otherStore)
			if len(ks) == 0 {
				return false
			}
			o := q(otherStore, []byte(ks[0]), h)
			if o == nil {
				return false
			}
			p.ProofOps.Ops[1] = o.ProofOps.Ops[1]
			return true
		}),
		on("proof.inner.data", func(p *abci.ResponseQuery) bool { p.ProofOps.Ops[0].Data = flip(p.ProofOps.Ops[0].Data); return true }),
		on("proof.outer.data", func(p *abci.ResponseQuery) bool { p.ProofOps.Ops[1].Data = flip(p.ProofOps.Ops[1].Data); return true }),
		on("proof.inner.key", func(p *abci.ResponseQuery) bool { p.ProofOps.Ops[0].Key = append(p.ProofOps.Ops[0].Key, 'z'); return true }),
		on("proof.inner.key.empty", func(p *abci.ResponseQuery) bool { p.ProofOps.Ops[0].Key = nil; return true }),
		on("proof.inner.type", func(p *abci.ResponseQuery) bool { p.ProofOps.Ops[0].Type = "iavl:v"; return true }),
		on("value+inner-leaf.forged", func(p *abci.ResponseQuery) bool {
			// a proof whose leaf is recomputed for a forged value but whose path is the genuine one
			var vop tmcrypto.ValueOp
			if vop.Unmarshal(p.ProofOps.Ops[0].Data) != nil || vop.Proof == nil {
				return false
			}
			p.Value = []byte("forged-value")
			pr, err := merkle.ProofFromProto(vop.Proof)
			if err != nil {
				return false
			}
			pr.LeafHash = refLeafHash(refKVLeaf(p.Key, p.Value))
			p.ProofOps.Ops[0] = merkle.NewValueOp(p.Key, pr).ProofOp()
			return true
		}),
		// forged value under proofs whose path is structurally impossible (the root cannot be computed), at the queried
		// height and at the height just before the chain's first block (whose successor header carries the genesis app hash)
		on("forge.value+impossible-proof(total=0)", func(p *abci.ResponseQuery) bool { forgeImpossible(p, s, 0, 0); return true }),
		on("forge.value+impossible-proof(no-aunts)", func(p *abci.ResponseQuery) bool { forgeImpossible(p, s, 2, 0); return true }),
		on("forge.value+impossible-proof(total=0)@height=init-1", func(p *abci.ResponseQuery) bool {
			if w.init < 2 {
				return false
			}
			forgeImpossible(p, s, 0, 0)
			p.Height = w.init - 1
			return true
		}),
		on("forge.value+impossible-proof(index>=total)@height=init-1", func(p *abci.ResponseQuery) bool {
			if w.init < 2 {
				return false
			}
			forgeImpossible(p, s, 1, 1)
			p.Height = w.init - 1
			return true
		}),
		// false absence claims for the existing key, under the application's absence operator
		on("absence.claimed(leaf list without the key)", func(p *abci.ResponseQuery) bool {
			m := map[string][]byte{}
			for _, k := range w.kv.Keys(h, s) {
				if k != string(p.Key) {
					v, _ := w.kv.Get(h, s, []byte(k))
					m[k] = v
				}
			}
			p.Value = nil
			p.ProofOps.Ops[0] = lib.NewC20AbsenceOp(p.Key, m).ProofOp()
			return true
		}),
		on("absence.claimed(genuine leaf list)", func(p *abci.ResponseQuery) bool {
			m := map[string][]byte{}
			for _, k := range w.kv.Keys(h, s) {
				v, _ := w.kv.Get(h, s, []byte(k))
				m[k] = v
			}
			p.Value = nil
			p.ProofOps.Ops[0] = lib.NewC20AbsenceOp(p.Key, m).ProofOp()
			return true
		}),
		on("absence.claimed(operator for another key)", func(p *abci.ResponseQuery) bool {
			o := q(s, []byte("no-such-key-anywhere"), h)
			if o == nil {
				return false
			}
			p.Value = nil
			p.ProofOps = o.ProofOps
			return true
		}),
		on("substitute.other-key", func(p *abci.ResponseQuery) bool {
			o := q(s, otherKey, h)
			if otherKey == nil || o == nil {
				return false
			}
			*p = *o
			return true
		}),
		on("substitute.other-height", func(p *abci.ResponseQuery) bool {
			o := q(s, key, otherH)
			if o == nil || otherH == h {
				return false
			}
			*p = *o
			return true
		}),
		on("substitute.other-store", func(p *abci.ResponseQuery) bool {
			ks := w.kv.Keys(h, otherStore)
			if len(ks) == 0 {
				return false
			}
			o := q(otherStore, []byte(ks[0]), h)
			if o == nil {
				return false
			}
			*p = *o
			return true
		}),
	}
	// the answer keeps the asked key (and path) but carries value and proof of ANOTHER key of the store — every other
	// key in turn, look-alikes of the asked key first — or of the same key in the look-alike store
	for _, ok := range others {
		ok := ok
		kind := "other"
		if isConfusable(key, ok) {
			kind = "confusable"
		}
		lies = append(lies,
			on("value+proof.inner."+kind+"-key(key kept)", func(p *abci.ResponseQuery) bool {
				o := q(s, ok, h)
				if o == nil {
					return false
				}
				p.Value, p.ProofOps.Ops[0] = o.Value, o.ProofOps.Ops[0]
				return true
			}),
			on("value+proofs."+kind+"-key(key kept)", func(p *abci.ResponseQuery) bool {
				o := q(s, ok, h)
				if o == nil {
					return false
				}
				p.Value, p.ProofOps = o.Value, o.ProofOps
				return true
			}))
	}
	lies = append(lies, on("value+proofs.other-store(key kept)", func(p *abci.ResponseQuery) bool {
		if _, exists := w.kv.Get(h, otherStore, key); !exists {
			return false
		}
		o := q(otherStore, key, h)
		if o == nil {
			return false
		}
		p.Value, p.ProofOps = o.Value, o.ProofOps
		return true
	}))
	c := w.drawVerifier(t, r.liar, "query.v")
	opts := rpcclient.ABCIQueryOptions{Height: h, Prove: true}
	hon, _ := newLiar(w.core).ABCIQueryWithOptions(bg, path, key, opts)
	honest := jsonFull(hon)
	for _, l := range lies {
		r.try("ABCIQuery", l, honest, func() (interface{}, error) { return c.ABCIQueryWithOptions(bg, path, key, opts) }, nil,
			func(ret interface{}) verdict {
				rq := ret.(*ctypes.ResultABCIQuery)
				inc := w.consistentQuery(path, rq)
				return verdict{inc: inc, bound: inc == nil && bytes.Equal(rq.Response.Key, key) && rq.Response.Height == h}
			})
	}
}

// forgeImpossible replaces value and proof: two value operators (key in store, store in app) whose leaf hashes are
// computed for the forged value but whose (index,total) with no aunts admit no path to any root.
func forgeImpossible(p *abci.ResponseQuery, store string, total, index int64) {
	p.Value = []byte("forged-value")
	inner := &merkle.Proof{Total: total, Index: index, LeafHash: refLeafHash(refKVLeaf(p.Key, p.Value))}
	outer := &merkle.Proof{Total: total, Index: index, LeafHash: refLeafHash(refKVLeaf([]byte(store), nil))} // the inner "root" is nil
	p.ProofOps = &tmcrypto.ProofOps{Ops: []tmcrypto.ProofOp{merkle.NewValueOp(p.Key, inner).ProofOp(), merkle.NewValueOp([]byte(store), outer).ProofOp()}}
}

func isConfusable(k, o []byte) bool {
	for _, c := range confusables(k) {
		if bytes.Equal(c, o) {
			return true
		}
	}
	return false
}

func refKVLeaf(key, value []byte) []byte {
	out := []byte{byte(len(key))}
	out = append(out, key...)
	vh := sha(value)
	out = append(out, byte(len(vh)))
	return append(out, vh...)
}

// ---------------------------------------------------------------------------------------------------------------
// BlockchainInfo

func (r *lieRun) chainInfo() {
	w, t := r.w, r.t
	max := rapid.Int64Range(w.init, w.tip).Draw(t, "info.max")
	min := rapid.Int64Range(w.init, max).Draw(t, "info.min")
	hon, err := newLiar(w.core).BlockchainInfo(bg, min, max)
	if err != nil || len(hon.BlockMetas) == 0 {
		return
	}
	honest := jsonFull(hon)
	j := rapid.IntRange(0, len(hon.BlockMetas)-1).Draw(t, "info.elem")
	outside := w.otherHeight(t, max, "info.outside")
	on := func(name string, f func(m *types.BlockMeta) bool, rehash bool) lie {
		return lie{name, func(res interface{}) bool {
			ri := res.(*ctypes.ResultBlockchainInfo)
			if j >= len(ri.BlockMetas) || !f(ri.BlockMetas[j]) {
				return false
			}
			if rehash {
				ri.BlockMetas[j].BlockID.Hash = ri.BlockMetas[j].Header.Hash()
			}
			return true
		}}
	}
	var lies []lie
	for _, m := range []struct {
		name string
		f    func(m *types.BlockMeta) bool
	}{
		{"meta.header.height", func(m *types.BlockMeta) bool { m.Header.Height++; return true }},
		{"meta.header.time", func(m *types.BlockMeta) bool { m.Header.Time = m.Header.Time.Add(time.Nanosecond); return true }},
		{"meta.header.app_hash", func(m *types.BlockMeta) bool { m.Header.AppHash = flip(m.Header.AppHash); return true }},
		{"meta.header.data_hash", func(m *types.BlockMeta) bool { m.Header.DataHash = flip(m.Header.DataHash); return true }},
		{"meta.header.validators_hash", func(m *types.BlockMeta) bool { m.Header.ValidatorsHash = flip(m.Header.ValidatorsHash); return true }},
		{"meta.header.last_results_hash", func(m *types.BlockMeta) bool { m.Header.LastResultsHash = flip(m.Header.LastResultsHash); return true }},
		{"meta.header.proposer_address", func(m *types.BlockMeta) bool { m.Header.ProposerAddress = flip(m.Header.ProposerAddress); return true }},
		{"meta.header.chain_id", func(m *types.BlockMeta) bool { m.Header.ChainID += "x"; return true }},
	} {
		lies = append(lies, on(m.name, m.f, false), on(m.name+"+rehash", m.f, true))
	}
	lies = append(lies,
		on("meta.block_id.hash", func(m *types.BlockMeta) bool { m.BlockID.Hash = flip(m.BlockID.Hash); return true }, false),
		on("meta.block_id.parts.total", func(m *types.BlockMeta) bool { m.BlockID.PartSetHeader.Total++; return true }, false),
		on("meta.block_id.parts.hash", func(m *types.BlockMeta) bool {
			m.BlockID.PartSetHeader.Hash = flip(m.BlockID.PartSetHeader.Hash)
			return true
		}, false),
		on("meta.block_size(free)", func(m *types.BlockMeta) bool { m.BlockSize++; return true }, false),
		on("meta.num_txs(free)", func(m *types.BlockMeta) bool { m.NumTxs++; return true }, false),
		lie{"last_height(free)", func(res interface{}) bool { res.(*ctypes.ResultBlockchainInfo).LastHeight++; return true }},
		lie{"metas.drop(omission)", func(res interface{}) bool {
			ri := res.(*ctypes.ResultBlockchainInfo)
			ri.BlockMetas = append(ri.BlockMetas[:j:j], ri.BlockMetas[j+1:]...)
			return true
		}},
		lie{"metas.duplicate", func(res interface{}) bool {
			ri := res.(*ctypes.ResultBlockchainInfo)
			ri.BlockMetas = append(ri.BlockMetas, ri.BlockMetas[j])
			return true
		}},
		lie{"metas.nil", func(res interface{}) bool { res.(*ctypes.ResultBlockchainInfo).BlockMetas[j] = nil; return true }},
		lie{"metas.insert-nil@front", func(res interface{}) bool {
			ri := res.(*ctypes.ResultBlockchainInfo)
			ri.BlockMetas = insertAt(ri.BlockMetas, "front", nil)
			return true
		}},
		lie{"metas.insert-nil@middle", func(res interface{}) bool {
			ri := res.(*ctypes.ResultBlockchainInfo)
			if len(ri.BlockMetas) < 2 {
				return false
			}
			ri.BlockMetas = insertAt(ri.BlockMetas, "middle", nil)
			return true
		}},
		lie{"metas.insert-nil@end", func(res interface{}) bool {
			ri := res.(*ctypes.ResultBlockchainInfo)
			ri.BlockMetas = insertAt(ri.BlockMetas, "end", nil)
			return true
		}},
		lie{"metas.insert-zero@front", func(res interface{}) bool {
			ri := res.(*ctypes.ResultBlockchainInfo)
			ri.BlockMetas = insertAt(ri.BlockMetas, "front", &types.BlockMeta{})
			return true
		}},
		lie{"metas.insert-zero@end", func(res interface{}) bool {
			ri := res.(*ctypes.ResultBlockchainInfo)
			ri.BlockMetas = insertAt(ri.BlockMetas, "end", &types.BlockMeta{})
			return true
		}},
		lie{"metas.substitute.other-height", func(res interface{}) bool {
			ri := res.(*ctypes.ResultBlockchainInfo)
			m := w.chain.BlockStore.LoadBlockMeta(outside)
			if m == nil || outside == ri.BlockMetas[j].Header.Height {
				return false
			}
			ri.BlockMetas[j] = m
			return true
		}},
	)
	c := w.drawVerifier(t, r.liar, "info.v")
	for _, l := range lies {
		r.try("BlockchainInfo", l, honest, func() (interface{}, error) { return c.BlockchainInfo(bg, min, max) },
			func(handed interface{}) bool {
				for _, m := range handed.(*ctypes.ResultBlockchainInfo).BlockMetas {
					if m == nil || m.ValidateBasic() != nil {
						return false
					}
				}
				return true
			},
			func(ret interface{}) verdict {
				ri := ret.(*ctypes.ResultBlockchainInfo)
				inc := w.consistentMetas(ri)
				bound := inc == nil && len(ri.BlockMetas) == len(hon.BlockMetas)
				if bound {
					for i := range ri.BlockMetas {
						bound = bound && ri.BlockMetas[i].Header.Height == hon.BlockMetas[i].Header.Height
					}
				}
				return verdict{inc: inc, bound: bound}
			})
	}
}

// ---------------------------------------------------------------------------------------------------------------
// Commit / Validators (this version serves them from the light client's store; the lies document that the server is
// not consulted, and would bite if it were)

func (r *lieRun) commitAndValidators() {
	w, t := r.w, r.t
	h := rapid.Int64Range(w.init, w.tip).Draw(t, "cv.h")
	c := w.drawVerifier(t, r.liar, "cv.v")
	for _, l := range []lie{
		{"header.app_hash", func(res interface{}) bool {
			rc := res.(*ctypes.ResultCommit)
			rc.Header.AppHash = flip(rc.Header.AppHash)
			return true
		}},
		{"commit.sig", func(res interface{}) bool {
			rc := res.(*ctypes.ResultCommit)
			i := firstSigned(rc.Commit)
			if i < 0 {
				return false
			}
			rc.Commit.Signatures[i].Signature = flip(rc.Commit.Signatures[i].Signature)
			return true
		}},
		{"commit.round", func(res interface{}) bool { res.(*ctypes.ResultCommit).Commit.Round++; return true }},
	} {
		r.try("Commit", l, "", func() (interface{}, error) { return c.Commit(bg, &h) }, nil, func(ret interface{}) verdict {
			rc := ret.(*ctypes.ResultCommit)
			inc := w.consistentCommit(rc)
			return verdict{inc: inc, bound: inc == nil && rc.Header.Height == h}
		})
	}
	for _, l := range []lie{
		{"validator.power", func(res interface{}) bool { res.(*ctypes.ResultValidators).Validators[0].VotingPower++; return true }},
		{"validators.insert-nil@front", func(res interface{}) bool {
			rv := res.(*ctypes.ResultValidators)
			rv.Validators = insertAt(rv.Validators, "front", nil)
			return true
		}},
		{"validators.insert-nil@end", func(res interface{}) bool {
			rv := res.(*ctypes.ResultValidators)
			rv.Validators = insertAt(rv.Validators, "end", nil)
			return true
		}},
		{"validators.drop", func(res interface{}) bool {
			rv := res.(*ctypes.ResultValidators)
			rv.Validators = rv.Validators[1:]
			rv.Count--
			rv.Total--
			return true
		}},
		{"total", func(res interface{}) bool { res.(*ctypes.ResultValidators).Total++; return true }},
		{"block_height", func(res interface{}) bool { res.(*ctypes.ResultValidators).BlockHeight++; return true }},
	} {
		r.try("Validators", l, "", func() (interface{}, error) { return c.Validators(bg, &h, nil, nil) }, nil, func(ret interface{}) verdict {
			rv := ret.(*ctypes.ResultValidators)
			inc := w.consistentValidators(rv, 0)
			return verdict{inc: inc, bound: inc == nil && rv.BlockHeight == h}
		})
	}
}

func TestFalsified(t *testing.T) {
	rapid.Check(t, func(t *rapid.T) {
		w := genWorld(t, maxHeights())
		defer w.close()
		r := &lieRun{t: t, w: w, liar: newLiar(w.core)}
		lib.Class(testF, w.classes()...)
		r.blocks()
		r.blockSearch()
		r.blockResults()
		r.txs()
		r.params()
		r.queries()
		r.chainInfo()
		r.commitAndValidators()
	})
}

var _ = lrpc.NewClient
