package c20

// Last sentence of C20: inclusion proofs served by a full node's RPC (rpc/core.Tx and TxSearch with prove=true) verify
// against the data hash of the block they refer to — for every transaction of every block of the generated chain.
// Checked twice: with types.TxProof.Validate (what a client would call) and independently with the reference
// Merkle implementation of ref_test.go (proof.Data is the transaction at that index of that block, the root is the
// block's data hash, index/total are the true ones, the audit path leads from the leaf to the root).

import (
	"bytes"
	"fmt"
	"testing"

	"pgregory.net/rapid"

	ctypes "github.com/tendermint/tendermint/rpc/core/types"
	"github.com/tendermint/tendermint/types"

	"verif/lib"
)

const testP = "TestCoreTxProofs"

func (w *world) checkServedProof(t *rapid.T, via string, rt *ctypes.ResultTx, tr txRef) {
	// The same bytes may be on the chain more than once (the index keeps the last occurrence): the answer must name A
	// position where the chain has the tx, and everything else is judged for THAT position.
	ab, ok := w.chain.Blocks[rt.Height]
	if !ok || int(rt.Index) >= len(ab.Txs) || !bytes.Equal(ab.Txs[rt.Index], tr.Tx) || !bytes.Equal(rt.Tx, tr.Tx) || !bytes.Equal(rt.Hash, sha(tr.Tx)) {
		t.Fatalf("%s for tx %q (at %d/%d): answer describes another tx: height %d index %d tx %q", via, tr.Tx, tr.Height, tr.Index, rt.Height, rt.Index, rt.Tx)
	}
	if rt.Height != tr.Height || int(rt.Index) != tr.Index {
		lib.Class(testP, "answer-names-another-occurrence")
		tr = txRef{Height: rt.Height, Index: int(rt.Index), Tx: tr.Tx}
	}
	b := w.chain.Blocks[tr.Height]
	n := len(b.Txs)
	where := fmt.Sprintf("%s: tx %d/%d of block %d", via, tr.Index, n, tr.Height)
	lib.Case(testP, lib.FP(via, tr.Index, n, tr.Height-w.init), n > 1, "served:"+via, fmt.Sprintf("block-txs:%d", n))
	if err := rt.Proof.Validate(b.DataHash); err != nil {
		t.Fatalf("%s: served proof does not validate against the block's data hash: %v (proof index %d total %d)", where, err,
			rt.Proof.Proof.Index, rt.Proof.Proof.Total)
	}
	p := rt.Proof
	switch {
	case !bytes.Equal(p.Data, tr.Tx):
		t.Fatalf("%s: proof carries tx %q, expected %q", where, p.Data, tr.Tx)
	case !bytes.Equal(p.RootHash, b.DataHash) || !bytes.Equal(refTxsRoot(b.Txs), b.DataHash):
		t.Fatalf("%s: proof root %X is not the data hash %X", where, p.RootHash, b.DataHash)
	case p.Proof.Index != int64(tr.Index) || p.Proof.Total != int64(n):
		t.Fatalf("%s: proof is labelled %d/%d", where, p.Proof.Index, p.Proof.Total)
	case !bytes.Equal(p.Proof.LeafHash, refLeafHash(sha(tr.Tx))):
		t.Fatalf("%s: leaf hash is not that of the tx", where)
	case !bytes.Equal(refRootFromPath(p.Proof.Index, p.Proof.Total, p.Proof.LeafHash, p.Proof.Aunts), b.DataHash):
		t.Fatalf("%s: audit path does not lead to the data hash", where)
	}
}

func TestCoreTxProofs(t *testing.T) {
	rapid.Check(t, func(t *rapid.T) {
		w := genWorld(t, maxHeights())
		defer w.close()
		lib.Class(testP, w.classes()...)
		if len(w.txs) == 0 {
			lib.Case(testP, lib.FP("no-txs"), false, "world:no-txs")
			return
		}
		for _, tr := range w.txs {
			rt, err := w.core.Tx(bg, types.Tx(tr.Tx).Hash(), true)
			if err != nil {
				t.Fatalf("rpc/core.Tx(%q): %v", tr.Tx, err)
			}
			w.checkServedProof(t, "Tx", rt, tr)
		}
		// TxSearch per height (all pages), ascending or descending
		seen := 0
		for _, h := range w.heights() {
			n := len(w.chain.Blocks[h].Txs)
			if n == 0 {
				continue
			}
			perPage := rapid.IntRange(1, 4).Draw(t, "perpage")
			order := rapid.SampledFrom([]string{"asc", "desc", ""}).Draw(t, "order")
			got := 0
			for page := 1; got < n; page++ {
				rs, err := w.core.TxSearch(bg, fmt.Sprintf("tx.height=%d", h), true, ip(page), ip(perPage), order)
				if err != nil && page > 1 {
					break // fewer records than txs (one record per hash): page beyond the last one
				}
				if err != nil {
					t.Fatalf("rpc/core.TxSearch(tx.height=%d, page %d): %v", h, page, err)
				}
				if len(rs.Txs) == 0 {
					break
				}
				for _, rt := range rs.Txs {
					ab, ok := w.chain.Blocks[rt.Height]
					if !ok || int(rt.Index) >= len(ab.Txs) {
						t.Fatalf("TxSearch(tx.height=%d) returned a tx at height %d index %d that the chain does not have", h, rt.Height, rt.Index)
					}
					if rt.Height != h {
						// a tx included again in a later block: the index keeps one record per hash (the later one) but the
						// height key of the earlier inclusion still leads to it. Search semantics are property C19's; here
						// only: the same bytes must really be in block h too, and the proof is judged at the answer's height.
						again := false
						for _, tx := range w.chain.Blocks[h].Txs {
							again = again || bytes.Equal(tx, ab.Txs[rt.Index])
						}
						if !again {
							t.Fatalf("TxSearch(tx.height=%d) returned a tx at height %d index %d that is not in block %d", h, rt.Height, rt.Index, h)
						}
						lib.Class(testP, "search-by-height-returned-later-inclusion")
					}
					w.checkServedProof(t, "TxSearch", rt, txRef{Height: rt.Height, Index: int(rt.Index), Tx: ab.Txs[rt.Index]})
					got++
					seen++
				}
			}
			if got != n {
				// completeness of the search is property C19's business; recorded, not judged here
				lib.Class(testP, "search-incomplete")
			}
		}
		_ = seen

		// TxSearch over SEVERAL heights: queries matching txs of many blocks, every order, page sizes that make one
		// page span several heights. Every returned proof is judged against the block at the answer's OWN height.
		for qi := 0; qi < 3; qi++ {
			q, qkind := w.multiHeightQuery(t, fmt.Sprintf("mq%d", qi))
			order := rapid.SampledFrom([]string{"asc", "desc", "desc", ""}).Draw(t, "morder")
			perPage := rapid.SampledFrom([]int{2, 3, 4, 7, 30, 100}).Draw(t, "mperpage")
			var prev *ctypes.ResultTx
			heightsSeen := map[int64]bool{}
			total := -1
			for page := 1; page < 200; page++ {
				var rs *ctypes.ResultTxSearch
				var err error
				if p := safely(func() { rs, err = w.core.TxSearch(bg, q, true, ip(page), ip(perPage), order) }); p != nil {
					t.Fatalf("rpc/core.TxSearch(%q, prove, page %d, per_page %d, order %q) panicked: %v", q, page, perPage, order, p)
				}
				if err != nil {
					if page == 1 {
						t.Fatalf("rpc/core.TxSearch(%q, order %q): %v", q, order, err)
					}
					break // page beyond the last one
				}
				total = rs.TotalCount
				pageHeights := map[int64]bool{}
				for _, rt := range rs.Txs {
					b, ok := w.chain.Blocks[rt.Height]
					if !ok || int(rt.Index) >= len(b.Txs) {
						t.Fatalf("TxSearch(%q) returned a tx at height %d index %d that the chain does not have", q, rt.Height, rt.Index)
					}
					w.checkServedProof(t, "TxSearch/multi-height/"+orderName(order), rt, txRef{Height: rt.Height, Index: int(rt.Index), Tx: b.Txs[rt.Index]})
					if prev != nil {
						before := prev.Height < rt.Height || (prev.Height == rt.Height && prev.Index < rt.Index)
						if (order == "desc") == before {
							t.Fatalf("TxSearch(%q, order %q): (%d,%d) follows (%d,%d)", q, order, rt.Height, rt.Index, prev.Height, prev.Index)
						}
					}
					prev = rt
					pageHeights[rt.Height], heightsSeen[rt.Height] = true, true
				}
				if len(pageHeights) > 1 {
					lib.Class(testP, "page-spans-heights:"+orderName(order))
				}
				if len(rs.Txs) < perPage {
					break
				}
			}
			lib.Class(testP, "multi-height-query:"+qkind, fmt.Sprintf("multi-height-result-heights:%s", bucket(len(heightsSeen))))
			_ = total
		}
	})
}

func orderName(o string) string {
	if o == "" {
		return "default"
	}
	return o
}

func bucket(n int) string {
	switch {
	case n == 0:
		return "0"
	case n == 1:
		return "1"
	case n <= 3:
		return "2-3"
	}
	return "4+"
}

// multiHeightQuery draws a query that (usually) matches transactions of several heights.
func (w *world) multiHeightQuery(t *rapid.T, label string) (string, string) {
	switch rapid.SampledFrom([]string{"all", "all", "range", "from", "event", "event-and-range"}).Draw(t, label+".kind") {
	case "range":
		a := rapid.Int64Range(w.init, w.tip).Draw(t, label+".a")
		b := rapid.Int64Range(a, w.tip).Draw(t, label+".b")
		return fmt.Sprintf("tx.height>=%d AND tx.height<=%d", a, b), "range"
	case "from":
		a := rapid.Int64Range(w.init, w.tip).Draw(t, label+".a")
		return fmt.Sprintf("tx.height>=%d", a), "from"
	case "event":
		typ := rapid.SampledFrom([]string{"xfer", "mint", "note"}).Draw(t, label+".type")
		key := rapid.SampledFrom([]string{"sender", "amount", "memo"}).Draw(t, label+".key")
		val := rapid.SampledFrom([]string{"alice", "bob", "7", "42"}).Draw(t, label+".val")
		return fmt.Sprintf("%s.%s='%s'", typ, key, val), "event"
	case "event-and-range":
		typ := rapid.SampledFrom([]string{"xfer", "mint", "note"}).Draw(t, label+".type")
		key := rapid.SampledFrom([]string{"sender", "amount", "memo"}).Draw(t, label+".key")
		return fmt.Sprintf("%s.%s EXISTS AND tx.height>=%d", typ, key, w.init), "event-and-range"
	}
	return "tx.height>0", "all"
}
