package c20

// Last sentence of C20: inclusion proofs served by a full node's RPC (rpc/core.Tx and TxSearch with prove=true) verify
// against the data hash of the block they refer to — for every transaction of every block of the generated chain.
// Checked twice: with types.TxProof.Validate (what a client would call) and independently with the reference
// Merkle implementation of ref_test.go (proof.Data is the transaction at that index of that block, the root is the
// block's data hash, index/total are the true ones, the audit path leads from the leaf to the root).

import (
	"bytes"
	"fmt"
	"testing"

	"pgregory.net/rapid"

	ctypes "github.com/tendermint/tendermint/rpc/core/types"
	"github.com/tendermint/tendermint/types"

	"verif/lib"
)

const testP = "TestCoreTxProofs"

func (w *world) checkServedProof(t *rapid.T, via string, rt *ctypes.ResultTx, tr txRef) {
	b := w.chain.Blocks[tr.Height]
	n := len(b.Txs)
	where := fmt.Sprintf("%s: tx %d/%d of block %d", via, tr.Index, n, tr.Height)
	lib.Case(testP, lib.FP(via, tr.Index, n, tr.Height-w.init), n > 1, "served:"+via, fmt.Sprintf("block-txs:%d", n))
	if rt.Height != tr.Height || int(rt.Index) != tr.Index || !bytes.Equal(rt.Tx, tr.Tx) || !bytes.Equal(rt.Hash, sha(tr.Tx)) {
		t.Fatalf("%s: answer describes another tx: height %d index %d tx %q", where, rt.Height, rt.Index, rt.Tx)
	}
	if err := rt.Proof.Validate(b.DataHash); err != nil {
		t.Fatalf("%s: served proof does not validate against the block's data hash: %v (proof index %d total %d)", where, err,
			rt.Proof.Proof.Index, rt.Proof.Proof.Total)
	}
	p := rt.Proof
	switch {
	case !bytes.Equal(p.Data, tr.Tx):
		t.Fatalf("%s: proof carries tx %q, expected %q", where, p.Data, tr.Tx)
	case !bytes.Equal(p.RootHash, b.DataHash) || !bytes.Equal(refTxsRoot(b.Txs), b.DataHash):
		t.Fatalf("%s: proof root %X is not the data hash %X", where, p.RootHash, b.DataHash)
	case p.Proof.Index != int64(tr.Index) || p.Proof.Total != int64(n):
		t.Fatalf("%s: proof is labelled %d/%d", where, p.Proof.Index, p.Proof.Total)
	case !bytes.Equal(p.Proof.LeafHash, refLeafHash(sha(tr.Tx))):
		t.Fatalf("%s: leaf hash is not that of the tx", where)
	case !bytes.Equal(refRootFromPath(p.Proof.Index, p.Proof.Total, p.Proof.LeafHash, p.Proof.Aunts), b.DataHash):
		t.Fatalf("%s: audit path does not lead to the data hash", where)
	}
}

func TestCoreTxProofs(t *testing.T) {
	rapid.Check(t, func(t *rapid.T) {
		w := genWorld(t, maxHeights())
		defer w.close()
		lib.Class(testP, w.classes()...)
		if len(w.txs) == 0 {
			lib.Case(testP, lib.FP("no-txs"), false, "world:no-txs")
			return
		}
		for _, tr := range w.txs {
			rt, err := w.core.Tx(bg, types.Tx(tr.Tx).Hash(), true)
			if err != nil {
				t.Fatalf("rpc/core.Tx(%q): %v", tr.Tx, err)
			}
			w.checkServedProof(t, "Tx", rt, tr)
		}
		// TxSearch per height (all pages), ascending or descending
		seen := 0
		for _, h := range w.heights() {
			n := len(w.chain.Blocks[h].Txs)
			if n == 0 {
				continue
			}
			perPage := rapid.IntRange(1, 4).Draw(t, "perpage")
			order := rapid.SampledFrom([]string{"asc", "desc"}).Draw(t, "order")
			got := 0
			for page := 1; got < n; page++ {
				rs, err := w.core.TxSearch(bg, fmt.Sprintf("tx.height=%d", h), true, ip(page), ip(perPage), order)
				if err != nil {
					t.Fatalf("rpc/core.TxSearch(tx.height=%d, page %d): %v", h, page, err)
				}
				if len(rs.Txs) == 0 {
					break
				}
				for _, rt := range rs.Txs {
					if rt.Height != h || int(rt.Index) >= n {
						t.Fatalf("TxSearch(tx.height=%d) returned a tx at height %d index %d", h, rt.Height, rt.Index)
					}
					w.checkServedProof(t, "TxSearch", rt, txRef{Height: h, Index: int(rt.Index), Tx: w.chain.Blocks[h].Txs[rt.Index]})
					got++
					seen++
				}
			}
			if got != n {
				// completeness of the search is property C19's business; recorded, not judged here
				lib.Class(testP, "search-incomplete")
			}
		}
		_ = seen
	})
}
