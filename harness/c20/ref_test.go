package c20

// Reference side of C20: an RFC-6962 Merkle implementation over crypto/sha256 and, per RPC method, the predicate
// "this returned value is consistent with the chain" evaluated against the chain builder's records (blocks, block
// ids, post-states, the scripted DeliverTx answers, the key/value versions) — none of it goes through light/rpc,
// the light client, types.TxProof or crypto/merkle.

import (
	"bytes"
	"crypto/sha256"
	"fmt"
	"strings"

	"github.com/gogo/protobuf/proto"

	ctypes "github.com/tendermint/tendermint/rpc/core/types"
	"github.com/tendermint/tendermint/types"
)

func refLeafHash(b []byte) []byte {
	h := sha256.New()
	h.Write([]byte{0})
	h.Write(b)
	return h.Sum(nil)
}

func refInnerHash(l, r []byte) []byte {
	h := sha256.New()
	h.Write([]byte{1})
	h.Write(l)
	h.Write(r)
	return h.Sum(nil)
}

func refSplit(n int) int {
	k := 1
	for k*2 < n {
		k *= 2
	}
	return k
}

func refRoot(items [][]byte) []byte {
	switch len(items) {
	case 0:
		e := sha256.Sum256(nil)
		return e[:]
	case 1:
		return refLeafHash(items[0])
	}
	k := refSplit(len(items))
	return refInnerHash(refRoot(items[:k]), refRoot(items[k:]))
}

// refRootFromPath recomputes the root from a leaf hash and its audit path (aunts bottom-up), nil when the path
// does not have the shape of (index,total).
func refRootFromPath(index, total int64, leafHash []byte, aunts [][]byte) []byte {
	if index < 0 || total <= 0 || index >= total {
		return nil
	}
	if total == 1 {
		if len(aunts) != 0 {
			return nil
		}
		return leafHash
	}
	if len(aunts) == 0 {
		return nil
	}
	k := int64(refSplit(int(total)))
	last := aunts[len(aunts)-1]
	if index < k {
		l := refRootFromPath(index, k, leafHash, aunts[:len(aunts)-1])
		if l == nil {
			return nil
		}
		return refInnerHash(l, last)
	}
	r := refRootFromPath(index-k, total-k, leafHash, aunts[:len(aunts)-1])
	if r == nil {
		return nil
	}
	return refInnerHash(last, r)
}

func sha(b []byte) []byte {
	h := sha256.Sum256(b)
	return h[:]
}

func refTxsRoot(txs types.Txs) []byte {
	items := make([][]byte, len(txs))
	for i, tx := range txs {
		items[i] = sha(tx)
	}
	return refRoot(items)
}

func protoEq(a, b proto.Message) bool {
	x, err1 := proto.Marshal(a)
	y, err2 := proto.Marshal(b)
	return err1 == nil && err2 == nil && bytes.Equal(x, y)
}

func blockIDEq(a, b types.BlockID) bool {
	return bytes.Equal(a.Hash, b.Hash) && a.PartSetHeader.Total == b.PartSetHeader.Total && bytes.Equal(a.PartSetHeader.Hash, b.PartSetHeader.Hash)
}

// inconsistency is the oracle's verdict on one returned value: which header-determined field disagrees with the chain.
type inconsistency struct {
	field string
	msg   string
}

func (i *inconsistency) Error() string { return i.field + ": " + i.msg }

func bad(field, format string, args ...interface{}) *inconsistency {
	return &inconsistency{field: field, msg: fmt.Sprintf(format, args...)}
}

// ---- Block / BlockByHash: every field of the response is determined by the signed header chain (the header by
// its hash, the block body by the header's data/evidence/last-commit hashes, the block id by the commit).

func (w *world) consistentBlock(res *ctypes.ResultBlock) *inconsistency {
	if res == nil || res.Block == nil {
		return bad("block", "nil block returned")
	}
	h := res.Block.Height
	cb, ok := w.chain.Blocks[h]
	if !ok {
		return bad("header.height", "no block at height %d", h)
	}
	got, err := res.Block.ToProto()
	if err != nil {
		return bad("block", "%v", err)
	}
	want, _ := cb.ToProto()
	if !protoEq(&got.Header, &want.Header) {
		return bad("header", "header differs from the chain's header at %d", h)
	}
	if !protoEq(&got.Data, &want.Data) {
		return bad("data", "txs differ from the chain's block at %d", h)
	}
	if !protoEq(&got.Evidence, &want.Evidence) {
		return bad("evidence", "evidence differs from the chain's block at %d", h)
	}
	if !protoEq(got.LastCommit, want.LastCommit) {
		return bad("last_commit", "last commit differs from the chain's block at %d", h)
	}
	id := w.chain.IDs[h]
	if !bytes.Equal(res.BlockID.Hash, id.Hash) {
		return bad("block_id.hash", "block id hash differs")
	}
	if res.BlockID.PartSetHeader.Total != id.PartSetHeader.Total || !bytes.Equal(res.BlockID.PartSetHeader.Hash, id.PartSetHeader.Hash) {
		return bad("block_id.parts", "part set header %v differs from the committed one %v", res.BlockID.PartSetHeader, id.PartSetHeader)
	}
	return nil
}

// ---- BlockResults: header h+1 commits (LastResultsHash) to code, data, gas_wanted, gas_used of every DeliverTx
// result of block h, in order. Log, info, codespace, events, begin/end-block events are committed nowhere;
// validator and parameter updates only indirectly (through the resulting sets) — not in the list.

func (w *world) consistentBlockResults(res *ctypes.ResultBlockResults) *inconsistency {
	if res == nil {
		return bad("results", "nil")
	}
	p, ok := w.plans[res.Height]
	if !ok {
		return bad("height", "no block at height %d", res.Height)
	}
	if len(res.TxsResults) != len(p.Txs) {
		return bad("txs_results", "%d results for the %d txs of block %d", len(res.TxsResults), len(p.Txs), res.Height)
	}
	for i, tx := range p.Txs {
		want := w.planned[string(tx)]
		got := res.TxsResults[i]
		if got == nil {
			return bad("txs_results", "nil result %d", i)
		}
		switch {
		case got.Code != want.Code:
			return bad("txs_results.code", "result %d of block %d: code %d, the application answered %d", i, res.Height, got.Code, want.Code)
		case !bytes.Equal(got.Data, want.Data):
			return bad("txs_results.data", "result %d of block %d: data differs", i, res.Height)
		case got.GasWanted != want.GasWanted:
			return bad("txs_results.gas_wanted", "result %d of block %d", i, res.Height)
		case got.GasUsed != want.GasUsed:
			return bad("txs_results.gas_used", "result %d of block %d", i, res.Height)
		}
	}
	return nil
}

// ---- Tx (with proof): tx bytes, hash, height, index and the proof are determined by the data hash of the header
// at that height. The DeliverTx result attached to the answer is not covered by the inclusion proof — not in the list.
//
// relabelled reports the one tolerated deviation: leaf hash, aunts, root and data genuine, (index,total) replaced
// by another pair with the same path shape — the tree does not commit to its leaf count (finding C10-proof-relabel,
// property C10); the answer's own Index field must still be the true one.

func (w *world) consistentTx(res *ctypes.ResultTx) (inc *inconsistency, relabelled bool) {
	if res == nil {
		return bad("tx", "nil"), false
	}
	b, ok := w.chain.Blocks[res.Height]
	if !ok {
		return bad("height", "no block at height %d", res.Height), false
	}
	// the occurrences of the tx in that block (the same bytes may be included more than once); the answer talks about
	// the one its Index names, else the one the proof names
	var occ []int
	for i, tx := range b.Txs {
		if bytes.Equal(tx, res.Tx) {
			occ = append(occ, i)
		}
	}
	if len(occ) == 0 {
		return bad("tx", "returned tx %q is not in block %d", res.Tx, res.Height), false
	}
	ti := -1
	for _, i := range occ {
		if i == int(res.Index) {
			ti = i
		}
	}
	for _, i := range occ {
		if ti < 0 && int64(i) == res.Proof.Proof.Index {
			ti = i
		}
	}
	if ti < 0 {
		ti = occ[len(occ)-1]
	}
	tx := []byte(b.Txs[ti])
	if !bytes.Equal(res.Hash, sha(tx)) {
		return bad("hash", "returned hash is not the hash of the tx"), false
	}
	if !bytes.Equal(res.Proof.Data, tx) {
		return bad("proof.data", "proof carries %q, the tx is %q", res.Proof.Data, tx), false
	}
	if !bytes.Equal(res.Proof.RootHash, b.DataHash) || !bytes.Equal(refTxsRoot(b.Txs), b.DataHash) {
		return bad("proof.root_hash", "proof root is not the data hash of block %d", res.Height), false
	}
	pr := res.Proof.Proof
	if !bytes.Equal(pr.LeafHash, refLeafHash(sha(tx))) {
		return bad("proof.leaf_hash", "leaf hash is not that of the tx"), false
	}
	if !bytes.Equal(refRootFromPath(pr.Index, pr.Total, pr.LeafHash, pr.Aunts), b.DataHash) {
		return bad("proof.path", "audit path does not lead to the data hash"), false
	}
	if int(res.Index) == ti && pr.Index == int64(ti) && pr.Total == int64(len(b.Txs)) {
		return nil, false
	}
	if int64(res.Index) == pr.Index || int(res.Index) == ti {
		// genuine path under another (index,total) of the same shape; the answer's index follows the proof's label
		// or is the true one
		return nil, true
	}
	return bad("index", "index %d, the tx is at %d of block %d (proof says %d/%d)", res.Index, ti, res.Height, pr.Index, pr.Total), false
}

// ---- ConsensusParams: the header at that height commits (ConsensusHash) to Block.MaxBytes and Block.MaxGas only.

func (w *world) consistentParams(res *ctypes.ResultConsensusParams) *inconsistency {
	st, ok := w.chain.States[res.BlockHeight-1]
	if !ok || res.BlockHeight > w.tip+1 {
		return bad("block_height", "no state for height %d", res.BlockHeight)
	}
	want := st.ConsensusParams
	if res.ConsensusParams.Block.MaxBytes != want.Block.MaxBytes {
		return bad("block.max_bytes", "%d, chain has %d at %d", res.ConsensusParams.Block.MaxBytes, want.Block.MaxBytes, res.BlockHeight)
	}
	if res.ConsensusParams.Block.MaxGas != want.Block.MaxGas {
		return bad("block.max_gas", "%d, chain has %d at %d", res.ConsensusParams.Block.MaxGas, want.Block.MaxGas, res.BlockHeight)
	}
	return nil
}

// ---- ABCIQuery (proven): (key, value, height) are determined by the app hash in header height+1.

func storeOfPath(path string) string {
	parts := strings.Split(path, "/")
	if len(parts) == 4 {
		return parts[2]
	}
	return ""
}

func (w *world) consistentQuery(path string, res *ctypes.ResultABCIQuery) *inconsistency {
	r := res.Response
	v, ok := w.kv.Get(r.Height, storeOfPath(path), r.Key)
	if _, known := w.kv.Versions[r.Height]; !known {
		return bad("height", "no application state at height %d", r.Height)
	}
	if !ok {
		if r.Value == nil {
			return nil // absence correctly reported
		}
		return bad("key", "key %q does not exist at height %d", r.Key, r.Height)
	}
	if !bytes.Equal(r.Value, v) {
		return bad("value", "value %q, the application has %q under %q at %d", r.Value, v, r.Key, r.Height)
	}
	return nil
}

// ---- BlockchainInfo: per meta, the header (by its hash) and the block id (by the commit). block_size, num_txs and
// last_height are committed nowhere.

func (w *world) consistentMetas(res *ctypes.ResultBlockchainInfo) *inconsistency {
	for i, m := range res.BlockMetas {
		if m == nil {
			return bad("block_metas", "nil meta %d", i)
		}
		cb, ok := w.chain.Blocks[m.Header.Height]
		if !ok {
			return bad("meta.header.height", "no block at %d", m.Header.Height)
		}
		if !protoEq(m.Header.ToProto(), cb.Header.ToProto()) {
			return bad("meta.header", "meta %d: header differs from the chain's at %d", i, m.Header.Height)
		}
		id := w.chain.IDs[m.Header.Height]
		if !bytes.Equal(m.BlockID.Hash, id.Hash) {
			return bad("meta.block_id.hash", "meta %d", i)
		}
		if m.BlockID.PartSetHeader.Total != id.PartSetHeader.Total || !bytes.Equal(m.BlockID.PartSetHeader.Hash, id.PartSetHeader.Hash) {
			return bad("meta.block_id.parts", "meta %d: part set header differs from the committed one", i)
		}
	}
	return nil
}

// ---- Commit / Validators (served from the light client's own store in this version)

func (w *world) consistentCommit(res *ctypes.ResultCommit) *inconsistency {
	if res.Header == nil || res.Commit == nil {
		return bad("signed_header", "nil part")
	}
	h := res.Header.Height
	cb, ok := w.chain.Blocks[h]
	if !ok {
		return bad("header.height", "no block at %d", h)
	}
	if !protoEq(res.Header.ToProto(), cb.Header.ToProto()) {
		return bad("header", "differs from the chain's at %d", h)
	}
	if !protoEq(res.Commit.ToProto(), w.chain.Commits[h].ToProto()) {
		return bad("commit", "differs from the chain's commit for %d", h)
	}
	return nil
}

func (w *world) consistentValidators(res *ctypes.ResultValidators, skip int) *inconsistency {
	vs := w.chain.ValidatorsAt(res.BlockHeight)
	if vs == nil || res.BlockHeight > w.tip {
		return bad("block_height", "no validator set for %d", res.BlockHeight)
	}
	if res.Total != vs.Size() {
		return bad("total", "%d, the set at %d has %d members", res.Total, res.BlockHeight, vs.Size())
	}
	if res.Count != len(res.Validators) {
		return bad("count", "%d for %d validators", res.Count, len(res.Validators))
	}
	for i, v := range res.Validators {
		if skip+i >= vs.Size() {
			return bad("validators", "member %d beyond the set", skip+i)
		}
		want := vs.Validators[skip+i]
		if !bytes.Equal(v.Address, want.Address) || !v.PubKey.Equals(want.PubKey) || v.VotingPower != want.VotingPower {
			return bad("validators", "member %d differs from the set at %d", skip+i, res.BlockHeight)
		}
	}
	return nil
}
