#!/bin/bash
# usage: mutant.sh <name> <file> <python-regex> <replacement> [count]
# Sensitivity run for C20. Because the unchanged tree already violates C20 (8 findings), mutants are applied ON TOP
# of the proposed repairs: scratch worktree of /repo HEAD + every /verif/fixes/C20-*.patch that still applies (in
# series order) + the one-regex mutation; then the quick (TIER=thorough for the other) check runs against it.
set -u
NAME=$1; FILE=$2; PAT=$3; REP=$4; CNT=${5:-1}
WT=/tmp/mut-C20-$NAME
export GOFLAGS=-mod=mod GOPROXY=off GOSUMDB=off GOTOOLCHAIN=local
git -C /repo worktree remove --force $WT >/dev/null 2>&1
git -C /repo worktree add --detach $WT HEAD >/dev/null 2>&1 || { echo "worktree failed"; exit 2; }
for p in blockresults-hash tx-fields-unchecked txsearch-unverified blockchaininfo-refused latest-nil-deref keypath-x-prefix block-lastcommit-unbound blockid-parts-unchecked; do
  git -C $WT apply /verif/fixes/C20-$p.patch 2>/dev/null || echo "note: C20-$p.patch not applied (already in HEAD?)"
done
if [ "$NAME" != "none" ]; then
python3 - "$WT/$FILE" "$PAT" "$REP" "$CNT" <<'PY'
import re,sys
p,pat,rep,cnt=sys.argv[1],sys.argv[2],sys.argv[3],int(sys.argv[4])
s=open(p).read()
n,k=re.subn(pat,rep,s,count=cnt,flags=re.S)
if k==0: print("MUTATION DID NOT APPLY"); sys.exit(3)
open(p,'w').write(n)
PY
[ $? -ne 0 ] && { git -C /repo worktree remove --force $WT; exit 3; }
fi
(cd $WT && go build ./light/... ./rpc/core/ ./crypto/merkle/ 2>&1 | head -5)
VERIF_REPO=$WT VERIF_OUT=/tmp/mutout-C20-$NAME /verif/check C20 --tier ${TIER:-quick} 2>&1 | grep -E "VIOLATION|KNOWN|INCONCLUSIVE|BUILD-FAILED|tier=" | cut -c1-300 | head -6
rc=${PIPESTATUS[0]}
git -C /repo worktree remove --force $WT
ALT=alt-$(python3 -c "import hashlib,sys;print(hashlib.sha1(sys.argv[1].encode()).hexdigest()[:10])" $WT)
rm -rf /tmp/mutout-C20-$NAME /verif/build/$ALT
echo "mutant C20/$NAME rc=$rc"
