// C20 — the verifying RPC client relays an answer iff it matches light-verified headers.
//
// World: a lib.NewChain chain (5..15 heights; with/without txs, tx/begin/end events, validator and parameter
// updates, evidence, absent commit signatures, initial heights > 1) whose application is PROVABLE (lib.C20KV: app
// hash = Merkle root of two key/value stores, queries answered with merkle.ValueOp proof operators).
// Honest backend: the real rpc/core handlers called in process over the chain's stores and a kv tx indexer
// (coreClient). Lying layer: liar, applies exactly one field-level falsification to one response and passes the
// result through the JSON wire encoding (as the HTTP client would). Verifier under test: light/rpc.Client over a
// real light.Client (MemDB store) whose primary and witness are honest provider doubles serving the same chain.
package c20

import (
	"context"
	"errors"
	"fmt"
	"net/url"
	"strings"
	"testing"
	"time"

	dbm "github.com/tendermint/tm-db"
	"pgregory.net/rapid"

	abci "github.com/tendermint/tendermint/abci/types"
	cfg "github.com/tendermint/tendermint/config"
	"github.com/tendermint/tendermint/consensus"
	tmbytes "github.com/tendermint/tendermint/libs/bytes"
	tmjson "github.com/tendermint/tendermint/libs/json"
	"github.com/tendermint/tendermint/libs/log"
	"github.com/tendermint/tendermint/light"
	"github.com/tendermint/tendermint/light/provider"
	lrpc "github.com/tendermint/tendermint/light/rpc"
	lstore "github.com/tendermint/tendermint/light/store/db"
	"github.com/tendermint/tendermint/p2p"
	tmproto "github.com/tendermint/tendermint/proto/tendermint/types"
	rpcclient "github.com/tendermint/tendermint/rpc/client"
	rpccore "github.com/tendermint/tendermint/rpc/core"
	ctypes "github.com/tendermint/tendermint/rpc/core/types"
	rpctypes "github.com/tendermint/tendermint/rpc/jsonrpc/types"
	sm "github.com/tendermint/tendermint/state"
	blockidxkv "github.com/tendermint/tendermint/state/indexer/block/kv"
	"github.com/tendermint/tendermint/state/txindex"
	txkv "github.com/tendermint/tendermint/state/txindex/kv"
	"github.com/tendermint/tendermint/types"

	"verif/lib"
)

func TestMain(m *testing.M) { lib.Main(m) }

// ---------------------------------------------------------------------------------------------------------------
// world

type txRef struct {
	Height int64
	Index  int
	Tx     []byte
}

type world struct {
	chain   *lib.Chain
	kv      *lib.C20KV
	init    int64
	tip     int64 // head of the chain as the light client's providers serve it
	nodeTip int64 // head of the full node behind the RPC client (tip - lag: a node may be a few blocks behind, or the chain grows after it answered)
	plans   map[int64]*lib.HeightPlan
	planned map[string]abci.ResponseDeliverTx // tx -> the DeliverTx answer the application was scripted to give
	txs     []txRef
	keys    [][]byte // this world's key pool
	env     *rpccore.Environment
	core    *coreClient
	feat    map[string]bool
}

func (w *world) close() { w.chain.Close() }

// heights the full node has.
func (w *world) heights() []int64 {
	hs := make([]int64, 0, w.nodeTip-w.init+1)
	for h := w.init; h <= w.nodeTip; h++ {
		hs = append(hs, h)
	}
	return hs
}

var keyPool = [][]byte{[]byte("a"), []byte("b"), []byte("k1"), []byte("k2"), []byte("owner"), []byte("a/b"), []byte("sp ace"),
	[]byte("p%41"), {0x00, 0x01}, {0xff}, []byte("x:41"), []byte("x:zz")}

// Two plain stores and a pair whose names differ only in how a URL decoder may read them ('+' vs space).
var stores = []string{"acc", "meta", "x+y z", "x y z"}

// keyAlphabet: every printable ASCII byte (all URL-reserved and unreserved characters) and a few non-ASCII ones.
var keyAlphabet = func() []byte {
	var a []byte
	for c := byte(0x20); c < 0x7f; c++ {
		a = append(a, c)
	}
	return append(a, 0x00, 0x7f, 0x80, 0xc3, 0xff)
}()

// confusables: the keys some URL encoder/decoder pair could mistake k for (path vs query escaping, escaping applied
// twice or not at all). Whatever confusion a key-path codec may have, the key it would be mistaken for exists.
func confusables(k []byte) [][]byte {
	var out [][]byte
	add := func(s string, err error) {
		if err == nil && s != "" && s != string(k) {
			for _, o := range out {
				if string(o) == s {
					return
				}
			}
			out = append(out, []byte(s))
		}
	}
	add(url.PathUnescape(string(k)))
	add(url.QueryUnescape(string(k)))
	add(url.PathEscape(string(k)), nil)
	add(url.QueryEscape(string(k)), nil)
	add(strings.ReplaceAll(string(k), " ", "+"), nil)
	return out
}

// genKeys draws the key pool of one world: the fixed pool, a few keys over the whole alphabet, and their confusables.
func genKeys(t *rapid.T) [][]byte {
	keys := append([][]byte(nil), keyPool...)
	for i := 0; i < 3; i++ {
		keys = append(keys, rapid.SliceOfN(rapid.SampledFrom(keyAlphabet), 1, 4).Draw(t, "key.random"))
	}
	keys = append(keys, []byte("a+b"), []byte("q?x=1&y"))
	return keys
}

func genEvent(t *rapid.T, label string) abci.Event {
	typ := rapid.SampledFrom([]string{"xfer", "mint", "note"}).Draw(t, label+".type")
	n := rapid.IntRange(0, 2).Draw(t, label+".nattr")
	ev := abci.Event{Type: typ}
	for i := 0; i < n; i++ {
		ev.Attributes = append(ev.Attributes, abci.EventAttribute{
			Key:   []byte(rapid.SampledFrom([]string{"sender", "amount", "memo"}).Draw(t, label+".k")),
			Value: []byte(rapid.SampledFrom([]string{"alice", "bob", "7", "42", ""}).Draw(t, label+".v")),
			Index: rapid.Bool().Draw(t, label+".idx"),
		})
	}
	return ev
}

func genEvents(t *rapid.T, label string, max int) []abci.Event {
	n := rapid.IntRange(0, max).Draw(t, label+".n")
	var evs []abci.Event
	for i := 0; i < n; i++ {
		evs = append(evs, genEvent(t, fmt.Sprintf("%s.%d", label, i)))
	}
	return evs
}

// genWorld builds a chain of nH heights from rapid draws.
func genWorld(t *rapid.T, maxH int, lags ...int64) *world {
	w := &world{plans: map[int64]*lib.HeightPlan{}, planned: map[string]abci.ResponseDeliverTx{}, feat: map[string]bool{}}
	nVals := rapid.IntRange(1, 5).Draw(t, "nvals")
	keys := make([]int, nVals)
	powers := make([]int64, nVals)
	model := map[int]int64{}
	for i := range keys {
		keys[i] = i
		powers[i] = rapid.Int64Range(1, 20).Draw(t, "power")
		model[i] = powers[i]
	}
	w.init = rapid.SampledFrom([]int64{1, 1, 1, 2, 7, 1000}).Draw(t, "initial")
	nH := rapid.IntRange(5, maxH).Draw(t, "nheights")
	txMode := rapid.SampledFrom([]string{"none", "sparse", "dense", "dense"}).Draw(t, "txmode")
	evMode := rapid.SampledFrom([]string{"none", "some", "some"}).Draw(t, "evmode")
	churn := rapid.SampledFrom([]string{"static", "churn", "churn"}).Draw(t, "churn")

	w.keys = genKeys(t)
	seed := map[string]map[string][]byte{}
	for _, s := range stores {
		seed[s] = map[string][]byte{}
		n := rapid.IntRange(1, 4).Draw(t, "seed.n")
		for i := 0; i < n; i++ {
			k := rapid.SampledFrom(w.keys).Draw(t, "seed.k")
			seed[s][string(k)] = []byte(fmt.Sprintf("genesis-%s-%d", s, i))
			if rapid.Bool().Draw(t, "seed.confusables") { // the keys k could be mistaken for live in the same store
				for j, c := range confusables(k) {
					seed[s][string(c)] = []byte(fmt.Sprintf("genesis-%s-%d-confusable-%d", s, i, j))
				}
			}
		}
	}
	// the two look-alike stores hold the same keys (with their own values)
	for k := range seed["x+y z"] {
		seed["x y z"][k] = []byte("other-store-" + k)
	}
	for k := range seed["x y z"] {
		if _, ok := seed["x+y z"][k]; !ok {
			seed["x+y z"][k] = []byte("plus-store-" + k)
		}
	}
	w.kv = lib.NewC20KV(stores, seed)
	w.kv.ResultFn = func(tx []byte) abci.ResponseDeliverTx { return w.planned[string(tx)] }

	chain, err := lib.NewChain(lib.ChainSpec{ChainID: "c20-chain", InitialHeight: w.init, Keys: keys, Powers: powers})
	if err != nil {
		t.Fatalf("VERIF-INFRA: NewChain: %v", err)
	}
	w.chain = chain
	w.kv.Attach(chain.App)

	for i := 0; i < nH; i++ {
		h := chain.NextHeight()
		label := fmt.Sprintf("h%d", i)
		p := &lib.HeightPlan{DeliverFn: w.kv.DeliverFn}
		// transactions (unique over the chain: every tx carries its height and position)
		ntx := 0
		switch txMode {
		case "sparse":
			ntx = rapid.SampledFrom([]int{0, 0, 0, 1, 2}).Draw(t, label+".ntx")
		case "dense":
			ntx = rapid.IntRange(0, 5).Draw(t, label+".ntx")
		}
		for j := 0; j < ntx; j++ {
			var tx []byte
			// the same transaction bytes may occur again, in the same block or in a later one (block validation allows
			// it; the tx index keeps one record per hash: the last occurrence)
			if len(w.txs) > 0 && rapid.IntRange(0, 5).Draw(t, label+".repeat") == 0 {
				src := rapid.SampledFrom(w.txs).Draw(t, label+".repeat-of")
				if rapid.Bool().Draw(t, label+".repeat-in-block") && len(p.Txs) > 0 {
					src = txRef{Tx: p.Txs[rapid.IntRange(0, len(p.Txs)-1).Draw(t, label+".repeat-idx")]}
					w.feat["tx-repeated-in-block"] = true
				} else if src.Height == h {
					w.feat["tx-repeated-in-block"] = true
				} else {
					w.feat["tx-repeated-across-blocks"] = true
				}
				tx = append([]byte(nil), src.Tx...)
				p.Txs = append(p.Txs, tx)
				w.txs = append(w.txs, txRef{Height: h, Index: j, Tx: tx})
				continue
			}
			if rapid.Bool().Draw(t, label+".kvtx") {
				s := rapid.SampledFrom(stores).Draw(t, label+".store")
				k := rapid.SampledFrom(w.keys).Draw(t, label+".key")
				tx = lib.C20SetTx(s, k, []byte(fmt.Sprintf("v%d.%d", h, j)))
			} else {
				tx = []byte(fmt.Sprintf("t%d.%d:%s", h, j, rapid.StringN(0, 6, 12).Draw(t, label+".body")))
			}
			res := abci.ResponseDeliverTx{
				Code:      rapid.SampledFrom([]uint32{0, 0, 0, 1, 7}).Draw(t, label+".code"),
				Data:      rapid.SliceOfN(rapid.Byte(), 0, 6).Draw(t, label+".data"),
				GasWanted: rapid.Int64Range(0, 50).Draw(t, label+".gw"),
				GasUsed:   rapid.Int64Range(0, 50).Draw(t, label+".gu"),
				Log:       rapid.SampledFrom([]string{"", "ok", "log"}).Draw(t, label+".log"),
				Info:      rapid.SampledFrom([]string{"", "info"}).Draw(t, label+".info"),
				Codespace: rapid.SampledFrom([]string{"", "app"}).Draw(t, label+".cs"),
			}
			if len(res.Data) == 0 {
				res.Data = nil
			}
			if evMode != "none" {
				res.Events = genEvents(t, label+".txev", 2)
				if len(res.Events) > 0 {
					w.feat["tx-events"] = true
				}
			}
			w.planned[string(tx)] = res
			p.Txs = append(p.Txs, tx)
			w.txs = append(w.txs, txRef{Height: h, Index: j, Tx: tx})
		}
		if ntx > 0 {
			w.feat["txs"] = true
		}
		if evMode != "none" {
			p.BeginEvents = genEvents(t, label+".bev", 2)
			p.EndEvents = genEvents(t, label+".eev", 2)
			if len(p.BeginEvents)+len(p.EndEvents) > 0 {
				w.feat["block-events"] = true
			}
		}
		// validator updates against the running model of the (h+2) set
		if churn == "churn" && rapid.IntRange(0, 2).Draw(t, label+".vu") == 0 {
			op := rapid.SampledFrom([]string{"add", "remove", "repower"}).Draw(t, label+".vuop")
			var members []int
			for k := 0; k < 32; k++ {
				if _, ok := model[k]; ok {
					members = append(members, k)
				}
			}
			switch {
			case op == "add" || (op == "remove" && len(members) < 2):
				k := 10 + rapid.IntRange(0, 9).Draw(t, label+".vukey")
				pw := rapid.Int64Range(1, 20).Draw(t, label+".vupow")
				model[k] = pw
				p.ValUpdates = append(p.ValUpdates, lib.ValUpdate{Key: k, Power: pw})
			case op == "remove":
				k := rapid.SampledFrom(members).Draw(t, label+".vurm")
				delete(model, k)
				p.ValUpdates = append(p.ValUpdates, lib.ValUpdate{Key: k, Power: 0})
			default:
				k := rapid.SampledFrom(members).Draw(t, label+".vurp")
				pw := rapid.Int64Range(1, 20).Draw(t, label+".vupow")
				model[k] = pw
				p.ValUpdates = append(p.ValUpdates, lib.ValUpdate{Key: k, Power: pw})
			}
			w.feat["val-updates"] = true
		}
		if rapid.IntRange(0, 4).Draw(t, label+".pu") == 0 {
			u := &abci.ConsensusParams{}
			if rapid.Bool().Draw(t, label+".pblock") {
				u.Block = &abci.BlockParams{
					MaxBytes: rapid.SampledFrom([]int64{2 << 20, 22020096, 50 << 20}).Draw(t, label+".pmaxbytes"),
					MaxGas:   rapid.SampledFrom([]int64{-1, 0, 1000000}).Draw(t, label+".pmaxgas"),
				}
				w.feat["param-updates-hashed"] = true
			} else {
				u.Evidence = &tmproto.EvidenceParams{MaxAgeNumBlocks: rapid.Int64Range(5, 50).Draw(t, label+".pevage"),
					MaxAgeDuration: time.Duration(rapid.Int64Range(10, 100).Draw(t, label+".pevdur")) * time.Second, MaxBytes: 1 << 20}
				w.feat["param-updates-unhashed"] = true
			}
			p.Params = u
		}
		// evidence against a validator of the previous height
		if i > 0 && rapid.IntRange(0, 5).Draw(t, label+".ev") == 0 {
			prev := h - 1
			vals := chain.ValidatorsAt(prev)
			vi := rapid.IntRange(0, vals.Size()-1).Draw(t, label+".evval")
			k := lib.KeyIndex(vals.Validators[vi].Address)
			evKind := rapid.SampledFrom([]string{"duplicate-vote", "light-client-attack", "both"}).Draw(t, label+".evkind")
			if evKind != "light-client-attack" {
				ev, err := chain.DuplicateVote(k, tmproto.PrecommitType, prev, 0, lib.ForgeBlockID(label+"A"), lib.ForgeBlockID(label+"B"))
				if err != nil {
					t.Fatalf("VERIF-INFRA: DuplicateVote: %v", err)
				}
				p.Evidence = append(p.Evidence, ev)
				w.feat["evidence"] = true
			}
			if evKind != "duplicate-vote" {
				// an equivocation / amnesia attack on the previous height by all of its validators
				var signers []int
				for _, v := range vals.Validators {
					signers = append(signers, lib.KeyIndex(v.Address))
				}
				shape := rapid.SampledFrom([]lib.AttackShape{lib.Equivocation, lib.Equivocation, lib.Amnesia}).Draw(t, label+".evshape")
				ev, err := chain.ForgeAttack(lib.AttackSpec{Shape: shape, ConflictHeight: prev, Signers: signers, Salt: label})
				if err != nil {
					t.Fatalf("VERIF-INFRA: ForgeAttack: %v", err)
				}
				p.Evidence = append(p.Evidence, ev)
				w.feat["evidence-light-client-attack"] = true
			}
		}
		// one absent signature when the rest still has more than 2/3
		cur := chain.State.Validators
		if cur.Size() >= 2 && rapid.IntRange(0, 3).Draw(t, label+".abs") == 0 {
			vi := rapid.IntRange(0, cur.Size()-1).Draw(t, label+".absidx")
			total := cur.TotalVotingPower()
			if (total-cur.Validators[vi].VotingPower)*3 > total*2 {
				p.Flags = make([]types.BlockIDFlag, cur.Size())
				p.Flags[vi] = rapid.SampledFrom([]types.BlockIDFlag{types.BlockIDFlagAbsent, types.BlockIDFlagNil}).Draw(t, label+".absflag")
				w.feat["absent-sig"] = true
			}
		}
		p.Round = int32(rapid.SampledFrom([]int{0, 0, 0, 1, 3}).Draw(t, label+".round"))
		w.plans[h] = p
		if err := chain.Advance(p); err != nil {
			t.Fatalf("VERIF-INFRA: Advance(%d): %v", h, err)
		}
	}
	w.tip = chain.Tip()
	w.nodeTip = w.tip
	if len(lags) > 0 {
		// the full node is lag blocks behind what the light client's providers already serve
		if lag := rapid.SampledFrom(lags).Draw(t, "node.lag"); lag > 0 && w.tip-lag >= w.init {
			w.nodeTip = w.tip - lag
			w.feat[fmt.Sprintf("node-lag=%d", lag)] = true
		}
	}
	if w.init > 1 {
		w.feat["initial>1"] = true
	}

	w.finish(t)
	return w
}

// finish builds the full node's side of the world: tx index and rpc/core environment.
func (w *world) finish(t fataler) {
	chain := w.chain
	if w.nodeTip == 0 {
		w.nodeTip = w.tip
	}
	var nodeTxs []txRef
	for _, tr := range w.txs {
		if tr.Height <= w.nodeTip {
			nodeTxs = append(nodeTxs, tr)
		}
	}
	w.txs = nodeTxs
	// the full node's tx index, filled the way the indexer service does it (one batch per block)
	idx := txkv.NewTxIndex(dbm.NewMemDB())
	for _, h := range w.heights() {
		resp, err := chain.StateStore.LoadABCIResponses(h)
		if err != nil {
			t.Fatalf("VERIF-INFRA: LoadABCIResponses(%d): %v", h, err)
		}
		b := chain.Blocks[h]
		batch := txindex.NewBatch(int64(len(b.Txs)))
		for i, tx := range b.Txs {
			if err := batch.Add(&abci.TxResult{Height: h, Index: uint32(i), Tx: tx, Result: *resp.DeliverTxs[i]}); err != nil {
				t.Fatalf("VERIF-INFRA: batch.Add: %v", err)
			}
		}
		if err := idx.AddBatch(batch); err != nil {
			t.Fatalf("VERIF-INFRA: AddBatch: %v", err)
		}
	}
	// ... and its block index (begin/end-block events), filled the way the indexer service does it
	bidx := blockidxkv.New(dbm.NewMemDB())
	for _, h := range w.heights() {
		resp, err := chain.StateStore.LoadABCIResponses(h)
		if err != nil {
			t.Fatalf("VERIF-INFRA: LoadABCIResponses(%d): %v", h, err)
		}
		b := chain.Blocks[h]
		if err := bidx.Index(types.EventDataNewBlockHeader{Header: b.Header, NumTxs: int64(len(b.Txs)),
			ResultBeginBlock: *resp.BeginBlock, ResultEndBlock: *resp.EndBlock}); err != nil {
			t.Fatalf("VERIF-INFRA: block index: %v", err)
		}
	}
	w.env = &rpccore.Environment{
		ProxyAppQuery:    chain.Proxy.Query(),
		StateStore:       chain.StateStore,
		BlockStore:       cappedStore{BlockStore: chain.BlockStore, cap: w.nodeTip},
		EvidencePool:     sm.EmptyEvidencePool{},
		P2PTransport:     stubTransport{},
		PubKey:           lib.Key(0).PubKey(),
		GenDoc:           chain.GenDoc,
		TxIndexer:        idx,
		BlockIndexer:     bidx,
		ConsensusReactor: &consensus.Reactor{},
		Logger:           log.NewNopLogger(),
		Config:           *cfg.DefaultRPCConfig(),
	}
	w.core = &coreClient{env: w.env, calls: map[string]int{}}
}

func (w *world) classes() []string {
	var cs []string
	for _, f := range []string{"txs", "tx-events", "block-events", "val-updates", "param-updates-hashed", "param-updates-unhashed",
		"tx-repeated-in-block", "tx-repeated-across-blocks", "evidence", "evidence-light-client-attack", "absent-sig", "initial>1", "node-lag=1", "node-lag=2"} {
		if w.feat[f] {
			cs = append(cs, "world:"+f)
		}
	}
	return cs
}

// cappedStore is the block store of a node whose head is at cap (it has not seen the later blocks yet).
type cappedStore struct {
	sm.BlockStore
	cap int64
}

func (c cappedStore) Height() int64 { return c.cap }
func (c cappedStore) Size() int64   { return c.cap - c.BlockStore.Base() + 1 }
func (c cappedStore) LoadBlockMeta(h int64) *types.BlockMeta {
	if h > c.cap {
		return nil
	}
	return c.BlockStore.LoadBlockMeta(h)
}
func (c cappedStore) LoadBlock(h int64) *types.Block {
	if h > c.cap {
		return nil
	}
	return c.BlockStore.LoadBlock(h)
}
func (c cappedStore) LoadBlockByHash(hash []byte) *types.Block {
	b := c.BlockStore.LoadBlockByHash(hash)
	if b != nil && b.Height > c.cap {
		return nil
	}
	return b
}
func (c cappedStore) LoadBlockCommit(h int64) *types.Commit {
	if h >= c.cap { // the canonical commit for h is in block h+1
		return nil
	}
	return c.BlockStore.LoadBlockCommit(h)
}
func (c cappedStore) LoadSeenCommit(h int64) *types.Commit {
	if h > c.cap {
		return nil
	}
	return c.BlockStore.LoadSeenCommit(h)
}

type stubTransport struct{}

func (stubTransport) Listeners() []string    { return nil }
func (stubTransport) IsListening() bool      { return true }
func (stubTransport) NodeInfo() p2p.NodeInfo { return p2p.DefaultNodeInfo{} }

// ---------------------------------------------------------------------------------------------------------------
// honest backend: rpc/core handlers behind the rpcclient.Client interface

type coreClient struct {
	rpcclient.Client // nil: any method light/rpc is not expected to call panics
	env              *rpccore.Environment
	calls            map[string]int
}

func (c *coreClient) rc(m string) *rpctypes.Context {
	rpccore.SetEnvironment(c.env)
	c.calls[m]++
	return &rpctypes.Context{}
}

func (c *coreClient) IsRunning() bool { return true }
func (c *coreClient) Start() error    { return nil }
func (c *coreClient) Stop() error     { return nil }

func (c *coreClient) Status(ctx context.Context) (*ctypes.ResultStatus, error) {
	return rpccore.Status(c.rc("Status"))
}
func (c *coreClient) Block(ctx context.Context, h *int64) (*ctypes.ResultBlock, error) {
	return rpccore.Block(c.rc("Block"), h)
}
func (c *coreClient) BlockByHash(ctx context.Context, hash []byte) (*ctypes.ResultBlock, error) {
	return rpccore.BlockByHash(c.rc("BlockByHash"), hash)
}
func (c *coreClient) BlockResults(ctx context.Context, h *int64) (*ctypes.ResultBlockResults, error) {
	return rpccore.BlockResults(c.rc("BlockResults"), h)
}
func (c *coreClient) Commit(ctx context.Context, h *int64) (*ctypes.ResultCommit, error) {
	return rpccore.Commit(c.rc("Commit"), h)
}
func (c *coreClient) Validators(ctx context.Context, h *int64, page, perPage *int) (*ctypes.ResultValidators, error) {
	return rpccore.Validators(c.rc("Validators"), h, page, perPage)
}
func (c *coreClient) Tx(ctx context.Context, hash []byte, prove bool) (*ctypes.ResultTx, error) {
	return rpccore.Tx(c.rc("Tx"), hash, prove)
}
func (c *coreClient) TxSearch(ctx context.Context, query string, prove bool, page, perPage *int, orderBy string) (*ctypes.ResultTxSearch, error) {
	return rpccore.TxSearch(c.rc("TxSearch"), query, prove, page, perPage, orderBy)
}
func (c *coreClient) BlockSearch(ctx context.Context, query string, page, perPage *int, orderBy string) (*ctypes.ResultBlockSearch, error) {
	return rpccore.BlockSearch(c.rc("BlockSearch"), query, page, perPage, orderBy)
}
func (c *coreClient) ConsensusParams(ctx context.Context, h *int64) (*ctypes.ResultConsensusParams, error) {
	return rpccore.ConsensusParams(c.rc("ConsensusParams"), h)
}
func (c *coreClient) BlockchainInfo(ctx context.Context, min, max int64) (*ctypes.ResultBlockchainInfo, error) {
	return rpccore.BlockchainInfo(c.rc("BlockchainInfo"), min, max)
}
func (c *coreClient) ABCIQueryWithOptions(ctx context.Context, path string, data tmbytes.HexBytes, opts rpcclient.ABCIQueryOptions) (*ctypes.ResultABCIQuery, error) {
	return rpccore.ABCIQuery(c.rc("ABCIQuery"), path, data, opts.Height, opts.Prove)
}
func (c *coreClient) ABCIQuery(ctx context.Context, path string, data tmbytes.HexBytes) (*ctypes.ResultABCIQuery, error) {
	return c.ABCIQueryWithOptions(ctx, path, data, rpcclient.DefaultABCIQueryOptions)
}

// ---------------------------------------------------------------------------------------------------------------
// lying layer

var errUndecodable = errors.New("c20: falsified response does not survive the wire encoding")

// liar relays the backend's answers; when armed it applies one falsification to the first response of the armed
// method. Every response is passed through the JSON encoding the RPC client uses (so no cached hashes or shared
// pointers of the backend's objects survive, exactly as over HTTP).
type liar struct {
	rpcclient.Client
	next        *coreClient
	armMethod   string
	arm         func(res interface{}) bool // returns false when the falsification is not applicable to this response
	applied     bool
	notApplic   bool
	undecodable bool
	handed      interface{} // what the verifying client was given for the armed method
	calls       map[string]int
}

func newLiar(next *coreClient) *liar { return &liar{next: next, calls: map[string]int{}} }

func (l *liar) reset(method string, f func(res interface{}) bool) {
	l.armMethod, l.arm, l.applied, l.notApplic, l.undecodable, l.handed = method, f, false, false, false, nil
}

// wire encodes and decodes v the way the JSON-RPC client does.
func wire[T any](v *T) (*T, error) {
	bz, err := tmjson.Marshal(v)
	if err != nil {
		return nil, err
	}
	out := new(T)
	if err := tmjson.Unmarshal(bz, out); err != nil {
		return nil, err
	}
	return out, nil
}

func relay[T any](l *liar, method string, res *T, err error) (*T, error) {
	l.calls[method]++
	if err != nil || res == nil {
		return res, err
	}
	armed := l.arm != nil && l.armMethod == method && !l.applied
	if armed {
		l.applied = true
		if !l.arm(res) {
			l.notApplic = true
		}
	}
	out, werr := wire(res)
	if werr != nil {
		if armed {
			l.undecodable = true
		}
		return nil, errUndecodable
	}
	if armed {
		l.handed = out
	}
	return out, nil
}

func (l *liar) IsRunning() bool { return true }
func (l *liar) Start() error    { return nil }
func (l *liar) Stop() error     { return nil }

func (l *liar) Status(ctx context.Context) (*ctypes.ResultStatus, error) {
	// ResultStatus carries a crypto.PubKey and node info that are of no interest here: relayed as is
	l.calls["Status"]++
	return l.next.Status(ctx)
}
// pass-through routes the proxy serves without verification: a fixed honest answer
func (l *liar) NetInfo(ctx context.Context) (*ctypes.ResultNetInfo, error) {
	return &ctypes.ResultNetInfo{Listening: true, NPeers: 0}, nil
}
func (l *liar) GenesisChunked(ctx context.Context, id uint) (*ctypes.ResultGenesisChunk, error) {
	return &ctypes.ResultGenesisChunk{ChunkNumber: int(id), TotalChunks: 1, Data: "e30="}, nil
}
func (l *liar) Health(ctx context.Context) (*ctypes.ResultHealth, error) { return &ctypes.ResultHealth{}, nil }
func (l *liar) Block(ctx context.Context, h *int64) (*ctypes.ResultBlock, error) {
	r, err := l.next.Block(ctx, h)
	return relay(l, "Block", r, err)
}
func (l *liar) BlockByHash(ctx context.Context, hash []byte) (*ctypes.ResultBlock, error) {
	r, err := l.next.BlockByHash(ctx, hash)
	return relay(l, "BlockByHash", r, err)
}
func (l *liar) BlockResults(ctx context.Context, h *int64) (*ctypes.ResultBlockResults, error) {
	r, err := l.next.BlockResults(ctx, h)
	return relay(l, "BlockResults", r, err)
}
func (l *liar) Commit(ctx context.Context, h *int64) (*ctypes.ResultCommit, error) {
	r, err := l.next.Commit(ctx, h)
	return relay(l, "Commit", r, err)
}
func (l *liar) Validators(ctx context.Context, h *int64, page, perPage *int) (*ctypes.ResultValidators, error) {
	r, err := l.next.Validators(ctx, h, page, perPage)
	return relay(l, "Validators", r, err)
}
func (l *liar) Tx(ctx context.Context, hash []byte, prove bool) (*ctypes.ResultTx, error) {
	r, err := l.next.Tx(ctx, hash, prove)
	return relay(l, "Tx", r, err)
}
func (l *liar) TxSearch(ctx context.Context, query string, prove bool, page, perPage *int, orderBy string) (*ctypes.ResultTxSearch, error) {
	r, err := l.next.TxSearch(ctx, query, prove, page, perPage, orderBy)
	return relay(l, "TxSearch", r, err)
}
func (l *liar) BlockSearch(ctx context.Context, query string, page, perPage *int, orderBy string) (*ctypes.ResultBlockSearch, error) {
	r, err := l.next.BlockSearch(ctx, query, page, perPage, orderBy)
	return relay(l, "BlockSearch", r, err)
}
func (l *liar) ConsensusParams(ctx context.Context, h *int64) (*ctypes.ResultConsensusParams, error) {
	r, err := l.next.ConsensusParams(ctx, h)
	return relay(l, "ConsensusParams", r, err)
}
func (l *liar) BlockchainInfo(ctx context.Context, min, max int64) (*ctypes.ResultBlockchainInfo, error) {
	r, err := l.next.BlockchainInfo(ctx, min, max)
	return relay(l, "BlockchainInfo", r, err)
}
func (l *liar) ABCIQueryWithOptions(ctx context.Context, path string, data tmbytes.HexBytes, opts rpcclient.ABCIQueryOptions) (*ctypes.ResultABCIQuery, error) {
	r, err := l.next.ABCIQueryWithOptions(ctx, path, data, opts)
	return relay(l, "ABCIQuery", r, err)
}
func (l *liar) ABCIQuery(ctx context.Context, path string, data tmbytes.HexBytes) (*ctypes.ResultABCIQuery, error) {
	return l.ABCIQueryWithOptions(ctx, path, data, rpcclient.DefaultABCIQueryOptions)
}

// ---------------------------------------------------------------------------------------------------------------
// honest providers and the verifying client

type chainProvider struct {
	w     *world
	calls int
}

func (p *chainProvider) ChainID() string { return p.w.chain.Spec.ChainID }

func (p *chainProvider) LightBlock(ctx context.Context, h int64) (*types.LightBlock, error) {
	p.calls++
	if h == 0 {
		h = p.w.tip
	}
	if h > p.w.tip {
		return nil, provider.ErrHeightTooHigh
	}
	lb := p.w.chain.LightBlock(h)
	if lb == nil {
		return nil, provider.ErrLightBlockNotFound
	}
	// hand out a private copy (the wire would)
	pb, err := lb.ToProto()
	if err != nil {
		return nil, err
	}
	return types.LightBlockFromProto(pb)
}

func (p *chainProvider) ReportEvidence(context.Context, types.Evidence) error { return nil }

const trustPeriod = 100 * 365 * 24 * time.Hour // block times are fixed in 2023; verdicts must not depend on the clock

type fataler interface {
	Fatalf(format string, args ...interface{})
}

// newVerifier builds light/rpc.Client over next with a fresh light client trusting the block at trustHeight.
func (w *world) newVerifier(t fataler, next rpcclient.Client, trustHeight int64, sequential bool) (*lrpc.Client, *light.Client) {
	opts := []light.Option{}
	if sequential {
		opts = append(opts, light.SequentialVerification())
	}
	lc, err := light.NewClient(context.Background(), w.chain.Spec.ChainID,
		light.TrustOptions{Period: trustPeriod, Height: trustHeight, Hash: w.chain.Blocks[trustHeight].Hash()},
		&chainProvider{w: w}, []provider.Provider{&chainProvider{w: w}}, lstore.New(dbm.NewMemDB(), "c20"), opts...)
	if err != nil {
		t.Fatalf("VERIF-INFRA: light.NewClient: %v", err)
	}
	c := lrpc.NewClient(next, lc, lrpc.KeyPathFn(lrpc.DefaultMerkleKeyPathFn()))
	c.RegisterOpDecoder(lib.C20AbsenceOpType, lib.C20AbsenceOpDecoder) // the application's own absence operator
	return c, lc
}

func (w *world) drawVerifier(t *rapid.T, next rpcclient.Client, label string) *lrpc.Client {
	th := rapid.Int64Range(w.init, w.tip).Draw(t, label+".trust")
	seq := rapid.Bool().Draw(t, label+".sequential")
	c, _ := w.newVerifier(t, next, th, seq)
	return c
}

func jsonOf(v interface{}) string {
	bz, err := tmjson.Marshal(v)
	if err != nil {
		return "marshal error: " + err.Error()
	}
	if len(bz) > 700 {
		return string(bz[:700]) + fmt.Sprintf("...(%d bytes)", len(bz))
	}
	return string(bz)
}

// jsonFull is jsonOf without truncation (for comparisons).
func jsonFull(v interface{}) string {
	bz, err := tmjson.Marshal(v)
	if err != nil {
		return "marshal error: " + err.Error()
	}
	return string(bz)
}
