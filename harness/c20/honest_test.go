package c20

// Completeness half of C20: whatever an honest full node answers is relayed, unchanged.

import (
	"bytes"
	"context"
	"fmt"
	"strings"
	"testing"

	"pgregory.net/rapid"

	lrpc "github.com/tendermint/tendermint/light/rpc"
	rpcclient "github.com/tendermint/tendermint/rpc/client"
	ctypes "github.com/tendermint/tendermint/rpc/core/types"

	"verif/lib"
)

const (
	idBlockResults = "C20-blockresults-hash" // honest block results refused: hash computed over another tuple than the header's
	idTxFields     = "C20-tx-fields-unchecked"
	idTxSearch     = "C20-txsearch-unverified"
	idBlockIDParts = "C20-blockid-parts-unchecked"
	idKeyPath      = "C20-keypath-x-prefix"
	idChainInfo    = "C20-blockchaininfo-refused" // honest BlockchainInfo refused: only the lowest returned height is verified first
	idLastCommit   = "C20-block-lastcommit-unbound" // LastCommitHash covers the signatures only: height/round/block id of Block.LastCommit are relayed unchecked
	idEmptyRoot    = "C20-query-empty-apphash-any-value" // against an empty trusted app hash an uncomputable proof root (nil) "matches": any forged key/value is relayed
	idBlockSearch  = "C20-blocksearch-unverified" // BlockSearch relays blocks without verifying them
	idProxyRoutes  = "C20-proxy-route-args" // light/proxy route table: argument names of block_search (net_info, genesis_chunked) do not match the functions
	idAbsence      = "C20-absence-keypath" // honest absence proofs always refused: VerifyAbsence gets the raw key instead of the key path
	idLatestNil    = "C20-latest-nil-deref" // Commit/Validators without a height panic when the light client is already at the tip
)

var bg = context.Background()

func maxHeights() int {
	if lib.Thorough() {
		return 15
	}
	return 9
}

// safely runs f and turns a panic into an error string (a panic in the verifying client is a failure of its own).
func safely(f func()) (panicked interface{}) {
	defer func() {
		if r := recover(); r != nil {
			panicked = r
		}
	}()
	f()
	return nil
}

type honestRun struct {
	t     *rapid.T
	w     *world
	liar  *liar
	world []string
}

// expect records one honest call: it must be relayed (err == nil) and equal to what the backend said.
func (r *honestRun) expect(method, shape string, got interface{}, err error, want interface{}, werr error, knownID string, inc *inconsistency) {
	const test = "TestHonest"
	cls := []string{"honest:" + method}
	if werr != nil {
		// the honest node itself refuses: the verifying client must refuse too (nothing to relay)
		lib.Case(test, lib.FP(method, shape, "backend-error"), false, append(cls, "honest:"+method+":backend-error")...)
		if err == nil {
			r.t.Fatalf("%s(%s): the full node answers with an error (%v) but the verifying client returned %s", method, shape, werr, jsonOf(got))
		}
		return
	}
	if err != nil {
		lib.Case(test, lib.FP(method, shape, "refused"), true, append(cls, "honest:"+method+":REFUSED")...)
		if lib.WantSample(test + "/refused") {
			lib.Sample(test+"/refused", map[string]interface{}{"method": method, "request": shape, "error": err.Error(), "finding": knownID})
		}
		if knownID != "" && lib.IsKnown(knownID) {
			lib.ObservedKnown(knownID)
			lib.ExcludedByKnown(knownID)
			return
		}
		r.t.Fatalf("[%s] honest answer refused: %s(%s) -> %v\nthe full node answered: %s", knownID, method, shape, err, jsonOf(want))
	}
	lib.Case(test, lib.FP(method, shape, r.world), true, append(cls, "honest:"+method+":relayed")...)
	if lib.WantSample(test) && (method == "BlockResults" || method == "Tx" || method == "ABCIQuery") {
		lib.Sample(test, map[string]interface{}{"method": method, "request": shape, "relayed": jsonOf(got), "world": r.world})
	}
	if inc != nil {
		r.t.Fatalf("%s(%s): relayed value is not consistent with the chain: %v\n%s", method, shape, inc, jsonOf(got))
	}
	if want != nil && jsonFull(got) != jsonFull(want) {
		r.t.Fatalf("%s(%s): relayed value differs from the full node's answer\n got %s\nwant %s", method, shape, jsonOf(got), jsonOf(want))
	}
}

func ip(i int) *int { return &i }

func TestHonest(t *testing.T) {
	rapid.Check(t, func(t *rapid.T) {
		w := genWorld(t, maxHeights(), 0, 0, 1, 2)
		defer w.close()
		li := newLiar(w.core)
		r := &honestRun{t: t, w: w, liar: li, world: w.classes()}
		lib.Class("TestHonest", w.classes()...)
		core := newLiar(w.core) // second relay: what the full node says, through the same wire encoding

		for _, h := range w.heights() {
			h := h
			c := w.drawVerifier(t, li, fmt.Sprintf("v%d", h))
			shape := fmt.Sprintf("h=init+%d,tip-%d", h-w.init, w.tip-h)

			got, err := c.Block(bg, &h)
			want, werr := core.Block(bg, &h)
			var inc *inconsistency
			if err == nil {
				inc = w.consistentBlock(got)
			}
			r.expect("Block", shape, got, err, want, werr, "", inc)

			hash := w.chain.IDs[h].Hash
			got, err = c.BlockByHash(bg, hash)
			want, werr = core.BlockByHash(bg, hash)
			inc = nil
			if err == nil {
				inc = w.consistentBlock(got)
				if inc == nil && !bytes.Equal(got.BlockID.Hash, hash) {
					inc = bad("request", "another block than the one asked for")
				}
			}
			r.expect("BlockByHash", shape, got, err, want, werr, "", inc)

			// Commit: served from the light client's store; the full node's own answer must agree on the signed header
			gc, err := c.Commit(bg, &h)
			wc, werr := core.Commit(bg, &h)
			inc = nil
			var wantSH interface{}
			var gotSH interface{}
			if err == nil {
				inc = w.consistentCommit(gc)
				gotSH = gc.SignedHeader
			}
			if werr == nil {
				wantSH = wc.SignedHeader
			}
			r.expect("Commit", shape, gotSH, err, wantSH, werr, "", inc)

			// Validators with drawn pagination (same contract as the full node's)
			var page, perPage *int
			switch rapid.IntRange(0, 3).Draw(t, "paging") {
			case 1:
				page, perPage = ip(rapid.SampledFrom([]int{1, 1, 2, 2, 3, 0, -1, 6}).Draw(t, "page")), ip(rapid.SampledFrom([]int{1, 1, 2, 3, 0, -1, 100, 101}).Draw(t, "perpage"))
			case 2:
				perPage = ip(rapid.IntRange(1, 3).Draw(t, "perpage"))
			case 3:
				page = ip(rapid.SampledFrom([]int{1, 1, 1, 0, 2}).Draw(t, "page"))
			}
			gv, err := c.Validators(bg, &h, page, perPage)
			wv, werr := core.Validators(bg, &h, page, perPage)
			inc = nil
			if err == nil && werr == nil {
				skip := 0
				if len(wv.Validators) > 0 {
					full := w.chain.ValidatorsAt(h)
					for i, v := range full.Validators {
						if bytes.Equal(v.Address, wv.Validators[0].Address) {
							skip = i
						}
					}
				}
				inc = w.consistentValidators(gv, skip)
				// proposer priorities are not covered by the validators hash: compare without them
				for _, v := range gv.Validators {
					v.ProposerPriority = 0
				}
				for _, v := range wv.Validators {
					v.ProposerPriority = 0
				}
			}
			pshape := shape + fmt.Sprintf(",paged=%v/%v", page != nil, perPage != nil)
			r.expect("Validators", pshape, gv, err, wv, werr, "", inc)

			gp, err := c.ConsensusParams(bg, &h)
			wp, werr := core.ConsensusParams(bg, &h)
			inc = nil
			if err == nil {
				inc = w.consistentParams(gp)
			}
			r.expect("ConsensusParams", shape, gp, err, wp, werr, "", inc)

			if h < w.tip { // results of h are committed by header h+1, which must exist
				gr, err := c.BlockResults(bg, &h)
				wr, werr := core.BlockResults(bg, &h)
				inc = nil
				if err == nil {
					inc = w.consistentBlockResults(gr)
				}
				p := w.plans[h]
				rshape := shape + fmt.Sprintf(",txs=%v,bev=%v,eev=%v", len(p.Txs) > 0, len(p.BeginEvents) > 0, len(p.EndEvents) > 0)
				r.expect("BlockResults", rshape, gr, err, wr, werr, idBlockResults, inc)
			}

			for i, tx := range w.chain.Blocks[h].Txs {
				gt, err := c.Tx(bg, tx.Hash(), true)
				wt, werr := core.Tx(bg, tx.Hash(), true)
				inc = nil
				if err == nil {
					var rel bool
					inc, rel = w.consistentTx(gt)
					if inc == nil && rel {
						inc = bad("proof", "relabelled proof from an honest node")
					}
				}
				r.expect("Tx", shape+fmt.Sprintf(",i=%d/%d", i, len(w.chain.Blocks[h].Txs)), gt, err, wt, werr, "", inc)
			}

			if h < w.tip { // app hash after h is in header h+1
				for _, s := range stores {
					ks := w.kv.Keys(h, s)
					if len(ks) == 0 {
						continue
					}
					k := []byte(rapid.SampledFrom(ks).Draw(t, "qkey"))
					path := "/store/" + s + "/key"
					opts := rpcclient.ABCIQueryOptions{Height: h, Prove: rapid.Bool().Draw(t, "qprove")}
					gq, err := c.ABCIQueryWithOptions(bg, path, k, opts)
					wopts := opts
					wopts.Prove = true // the verifying client always asks for the proof
					wq, werr := core.ABCIQueryWithOptions(bg, path, k, wopts)
					inc = nil
					if err == nil {
						inc = w.consistentQuery(path, gq)
					}
					known := ""
					kcls := "plain"
					if strings.HasPrefix(string(k), "x:") {
						known, kcls = idKeyPath, "x-prefix"
					}
					r.expect("ABCIQuery", shape+",key="+kcls, gq, err, wq, werr, known, inc)

					// a key the store does not have: the application proves its absence with its own operator
					var absent [][]byte
					for _, cand := range w.keys {
						if _, ok := w.kv.Get(h, s, cand); !ok {
							absent = append(absent, cand)
						}
					}
					if len(absent) > 0 && rapid.IntRange(0, 2).Draw(t, "qabsent") == 0 {
						ak := rapid.SampledFrom(absent).Draw(t, "qabsentkey")
						ga, err := c.ABCIQueryWithOptions(bg, path, ak, wopts)
						wa, werr := core.ABCIQueryWithOptions(bg, path, ak, wopts)
						inc = nil
						if err == nil {
							if inc = w.consistentQuery(path, ga); inc == nil && ga.Response.Value != nil {
								inc = bad("value", "a value for an absent key")
							}
						}
						r.expect("ABCIQuery", shape+",absent-key", ga, err, wa, werr, idAbsence, inc)
					}
				}
			}
		}

		// latest-height forms
		c := w.drawVerifier(t, li, "vlatest")
		got, err := c.Block(bg, nil)
		want, werr := core.Block(bg, nil)
		var inc *inconsistency
		if err == nil {
			inc = w.consistentBlock(got)
		}
		if err == nil && inc == nil && got.Block.Height != w.nodeTip {
			inc = bad("height", "latest block of the node is %d, relayed %d", w.nodeTip, got.Block.Height)
		}
		r.expect("Block", fmt.Sprintf("latest,node-lag=%d", w.tip-w.nodeTip), got, err, want, werr, "", inc)

		// Commit / Validators without a height: the latest verified block, whether or not the light client had to move
		for _, m := range []string{"Commit", "Validators"} {
			for _, pre := range []string{"behind", "at-tip"} {
				trust := w.init
				if pre == "at-tip" {
					trust = w.tip
				}
				cc, _ := w.newVerifier(t, li, trust, rapid.Bool().Draw(t, "latest.seq"))
				var gc *ctypes.ResultCommit
				var gv *ctypes.ResultValidators
				var err error
				pan := safely(func() {
					if m == "Commit" {
						gc, err = cc.Commit(bg, nil)
					} else {
						gv, err = cc.Validators(bg, nil, nil, nil)
					}
				})
				if pan != nil {
					err = fmt.Errorf("panic: %v", pan)
				}
				var inc *inconsistency
				var got interface{}
				if err == nil {
					if m == "Commit" {
						got = gc.SignedHeader
						if inc = w.consistentCommit(gc); inc == nil && gc.Header.Height != w.tip {
							inc = bad("height", "latest is %d, tip is %d", gc.Header.Height, w.tip)
						}
					} else {
						got = gv
						if inc = w.consistentValidators(gv, 0); inc == nil && gv.BlockHeight != w.tip {
							inc = bad("height", "latest is %d, tip is %d", gv.BlockHeight, w.tip)
						}
					}
				}
				r.expect(m, "latest,"+pre, got, err, nil, nil, idLatestNil, inc)
			}
		}

		// ConsensusParams without a height: the full node answers for tip+1, whose header does not exist yet, so the
		// answer cannot be verified at that moment. Measured, not judged (see assumptions).
		// When the node is behind the providers (or the chain has grown since it answered) that header exists and the
		// answer must be relayed.
		gpl, err := c.ConsensusParams(bg, nil)
		if w.nodeTip < w.tip {
			wpl, werr := core.ConsensusParams(bg, nil)
			inc = nil
			if err == nil {
				inc = w.consistentParams(gpl)
			}
			r.expect("ConsensusParams", "latest,node-behind", gpl, err, wpl, werr, "", inc)
		} else if err != nil {
			lib.Class("TestHonest", "unjudged:ConsensusParams(latest=tip+1):refused")
		} else {
			lib.Class("TestHonest", "unjudged:ConsensusParams(latest=tip+1):relayed")
		}

		if w.nodeTip-1 >= w.init {
			gr, err := c.BlockResults(bg, nil) // documented: results of the block before the latest
			hh := w.nodeTip - 1
			wr, werr := core.BlockResults(bg, &hh)
			inc = nil
			if err == nil {
				inc = w.consistentBlockResults(gr)
			}
			r.expect("BlockResults", "latest-1", gr, err, wr, werr, idBlockResults, inc)
		}

		// BlockchainInfo over drawn ranges
		for i := 0; i < 3; i++ {
			max := rapid.SampledFrom([]int64{0, w.nodeTip, w.nodeTip + 2, rapid.Int64Range(w.init, w.nodeTip).Draw(t, "bimaxh")}).Draw(t, "bimax")
			min := rapid.SampledFrom([]int64{0, w.init, rapid.Int64Range(w.init, w.nodeTip).Draw(t, "biminh")}).Draw(t, "bimin")
			c := w.drawVerifier(t, li, "vbi")
			gb, err := c.BlockchainInfo(bg, min, max)
			wb, werr := core.BlockchainInfo(bg, min, max)
			inc = nil
			if err == nil {
				inc = w.consistentMetas(gb)
			}
			r.expect("BlockchainInfo", fmt.Sprintf("min0=%v,max0=%v,n=%d", min == 0, max == 0, lenMetas(wb)), gb, err, wb, werr, idChainInfo, inc)
		}

		// BlockSearch: every returned block must be the chain's
		for _, q := range []string{"block.height>0", fmt.Sprintf("block.height<=%d", w.nodeTip)} {
			c := w.drawVerifier(t, li, "vbs")
			order := rapid.SampledFrom([]string{"asc", "desc", ""}).Draw(t, "bsorder")
			perPage := rapid.SampledFrom([]int{2, 5, 30}).Draw(t, "bsperpage")
			gbs, err := c.BlockSearch(bg, q, nil, ip(perPage), order)
			wbs, werr := core.BlockSearch(bg, q, nil, ip(perPage), order)
			inc = nil
			if err == nil {
				for _, rb := range gbs.Blocks {
					if i := w.consistentBlock(rb); i != nil {
						inc = i
					}
				}
			}
			n := -1
			if wbs != nil {
				n = len(wbs.Blocks)
			}
			r.expect("BlockSearch", fmt.Sprintf("order=%s,n=%d", orderName(order), n), gbs, err, wbs, werr, "", inc)
		}

		// TxSearch with proofs: queries over several heights, every order, pages that span heights
		for qi, q := range w.searchQueries(t) {
			c := w.drawVerifier(t, li, "vts")
			order := rapid.SampledFrom([]string{"asc", "desc", "desc", ""}).Draw(t, "tsorder")
			perPage := rapid.SampledFrom([]int{2, 3, 5, 30, 100}).Draw(t, "tsperpage")
			page := rapid.SampledFrom([]int{1, 1, 2}).Draw(t, "tspage")
			gs, err := c.TxSearch(bg, q, true, ip(page), ip(perPage), order)
			var ws *ctypes.ResultTxSearch
			var werr error
			if p := safely(func() { ws, werr = core.TxSearch(bg, q, true, ip(page), ip(perPage), order) }); p != nil {
				t.Fatalf("rpc/core.TxSearch(%q, page %d, per_page %d, order %q) panicked: %v", q, page, perPage, order, p)
			}
			inc = nil
			spans := map[int64]bool{}
			if err == nil {
				for _, rt := range gs.Txs {
					if i, rel := w.consistentTx(rt); i != nil || rel {
						inc = bad("txs", "%v (relabelled=%v)", i, rel)
					}
					spans[rt.Height] = true
				}
			}
			if len(spans) > 1 {
				lib.Class("TestHonest", "honest:TxSearch:page-spans-heights:"+orderName(order))
			}
			r.expect("TxSearch", fmt.Sprintf("q%d,order=%s,n=%d,heights=%s", qi, orderName(order), lenTxs(ws), bucket(len(spans))), gs, err, ws, werr, "", inc)
		}
	})
}

func lenMetas(r *ctypes.ResultBlockchainInfo) int {
	if r == nil {
		return -1
	}
	return len(r.BlockMetas)
}

func lenTxs(r *ctypes.ResultTxSearch) int {
	if r == nil {
		return -1
	}
	return len(r.Txs)
}

func (w *world) searchQueries(t *rapid.T) []string {
	qs := []string{"tx.height>0"}
	if len(w.txs) > 0 {
		tr := rapid.SampledFrom(w.txs).Draw(t, "searchtx")
		qs = append(qs, fmt.Sprintf("tx.height=%d", tr.Height))
	}
	q, _ := w.multiHeightQuery(t, "searchmulti")
	qs = append(qs, q, "xfer.sender='alice'")
	return qs
}

var _ = lrpc.NewClient
