package c16

import (
	"fmt"
	"testing"
	"time"

	"github.com/tendermint/tendermint/p2p"
	"github.com/tendermint/tendermint/p2p/conn"
	"github.com/tendermint/tendermint/version"
	"pgregory.net/rapid"

	"verif/lib"
)

func nodeInfoFor(id p2p.ID, name string) p2p.DefaultNodeInfo {
	return p2p.DefaultNodeInfo{
		ProtocolVersion: p2p.NewProtocolVersion(version.P2PProtocol, version.BlockProtocol, 0),
		DefaultNodeID:   id,
		ListenAddr:      "127.0.0.1:26656",
		Network:         "verif-c16",
		Version:         "0.34.24",
		Channels:        []byte{0x01},
		Moniker:         name,
		Other:           p2p.DefaultNodeInfoOther{TxIndex: "on", RPCAddress: "127.0.0.1:26657"},
	}
}

func idOf(i int) p2p.ID { return p2p.PubKeyToID(lib.Key(i).PubKey()) }

// TestTransportNodeID — mode (5): a real MultiplexTransport listener and dialer over TCP loopback.
//
// Generated: the listener's key and the node id it *claims* in its NodeInfo (its own or somebody else's), the same
// for the dialer, and the node id carried by the dialed address (the listener's real one, a third party's, the
// dialer's own, or the id the listener claims). Oracle: Dial succeeds only if the dialed id is the id of the key the
// listener proved in the secret connection AND the listener's self-reported id is that same id; every rejected
// dial is an ErrRejected authentication failure; an accepted inbound peer carries the id of the key the dialer
// proved, and is never accepted when the dialer's self-reported id differs; with nobody lying and the right id both
// sides succeed.
func TestTransportNodeID(t *testing.T) {
	rapid.Check(t, func(t *rapid.T) {
		perm := rapid.Permutation([]int{10, 11, 12, 13}).Draw(t, "keys")
		kl, kd, third := perm[0], perm[1], perm[2]
		listenerLies := rapid.IntRange(0, 3).Draw(t, "listenerLies") == 0
		dialerLies := rapid.IntRange(0, 4).Draw(t, "dialerLies") == 0
		dialKind := rapid.SampledFrom([]string{"real", "real", "third", "dialer-own", "listener-claimed"}).Draw(t, "dialKind")

		claimedL, claimedD := idOf(kl), idOf(kd)
		if listenerLies {
			claimedL = idOf(third)
		}
		if dialerLies {
			claimedD = idOf(perm[3])
		}
		var dialID p2p.ID
		switch dialKind {
		case "real":
			dialID = idOf(kl)
		case "third":
			dialID = idOf(perm[3])
		case "dialer-own":
			dialID = idOf(kd)
		case "listener-claimed":
			dialID = claimedL
		}

		listener := p2p.NewMultiplexTransport(nodeInfoFor(claimedL, "listener"), p2p.NodeKey{PrivKey: lib.Key(kl)}, conn.DefaultMConnConfig())
		laddr, err := p2p.NewNetAddressString(p2p.IDAddressString(idOf(kl), "127.0.0.1:0"))
		if err != nil {
			t.Fatalf("address: %v", err)
		}
		if err := listener.Listen(*laddr); err != nil {
			t.Fatalf("VERIF-INFRA: listen on loopback: %v", err)
		}
		defer listener.Close()
		dialer := p2p.NewMultiplexTransport(nodeInfoFor(claimedD, "dialer"), p2p.NodeKey{PrivKey: lib.Key(kd)}, conn.DefaultMConnConfig())
		defer dialer.Close()

		type acc struct {
			p   p2p.Peer
			err error
		}
		accc := make(chan acc, 1)
		go func() {
			p, err := listener.VerifC16Accept()
			accc <- acc{p, err}
		}()

		target, err := p2p.NewNetAddressString(p2p.IDAddressString(dialID, listener.VerifC16ListenAddr()))
		if err != nil {
			t.Fatalf("dial address: %v", err)
		}
		peer, derr := dialer.VerifC16Dial(*target)
		var ar acc
		select {
		case ar = <-accc:
		case <-time.After(30 * time.Second):
			t.Fatalf("VERIF-INFRA: listener produced neither a peer nor an error within 30 s")
		}
		if peer != nil {
			defer dialer.Cleanup(peer)
		}
		if ar.p != nil {
			defer listener.Cleanup(ar.p)
		}

		dialShouldSucceed := dialID == idOf(kl) && claimedL == idOf(kl)
		mismatch := dialID != idOf(kl)
		lib.Case("TestTransportNodeID", lib.FP(dialKind, listenerLies, dialerLies, perm), mismatch || listenerLies || dialerLies,
			"dial:"+dialKind, fmt.Sprintf("listener-lies:%v", listenerLies), fmt.Sprintf("dialer-lies:%v", dialerLies),
			fmt.Sprintf("dial-ok:%v", derr == nil), fmt.Sprintf("accept-ok:%v", ar.err == nil))

		desc := fmt.Sprintf("dial=%s listenerLies=%v dialerLies=%v", dialKind, listenerLies, dialerLies)
		if derr == nil {
			if !dialShouldSucceed {
				t.Fatalf("Dial succeeded although the dialed id %s is not the id of the listener's authenticated key %s / claimed %s (%s)", dialID, idOf(kl), claimedL, desc)
			}
			if peer.ID() != idOf(kl) {
				t.Fatalf("outbound peer id %s is not the listener's key id (%s)", peer.ID(), desc)
			}
		} else {
			if dialShouldSucceed {
				t.Fatalf("Dial with the correct id failed: %v (%s)", derr, desc)
			}
			rej, ok := derr.(p2p.ErrRejected)
			if !ok || !rej.IsAuthFailure() {
				t.Fatalf("Dial failed with %T %v, expected ErrRejected auth failure (%s)", derr, derr, desc)
			}
		}
		if ar.err == nil {
			if ar.p.ID() != idOf(kd) || dialerLies {
				t.Fatalf("listener accepted inbound peer with id %s; dialer key id %s, dialer lies=%v (%s)", ar.p.ID(), idOf(kd), dialerLies, desc)
			}
		} else {
			if dialShouldSucceed && !dialerLies {
				t.Fatalf("listener rejected an honest dialer: %v (%s)", ar.err, desc)
			}
			if rej, ok := ar.err.(p2p.ErrRejected); !ok || !rej.IsAuthFailure() {
				t.Fatalf("listener rejected with %T %v, expected ErrRejected auth failure (%s)", ar.err, ar.err, desc)
			}
		}
	})
}
