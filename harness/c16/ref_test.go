// Reference model of the secret-connection protocol, written from the protocol description (STS over X25519,
// merlin transcript, HKDF-SHA256, ChaCha20-Poly1305 frames) and sharing no code with p2p/conn. It is used
//   (a) by the adversary when it terminates a session itself (own ephemeral key, own long-term key), and
//   (b) by the oracle, which recomputes every honest end's keys and challenge from that end's ephemeral private key
//       (captured through the replaced crypto/rand.Reader) and the bytes that end was actually given.
// Only the primitives (curve25519, merlin, hkdf, chacha20poly1305, stdlib ed25519) are shared; their strength is assumed.
package c16

import (
	"bytes"
	"crypto/cipher"
	stded "crypto/ed25519"
	"crypto/sha256"
	"encoding/binary"
	"errors"
	"fmt"
	"io"

	"github.com/gtank/merlin"
	"golang.org/x/crypto/chacha20poly1305"
	"golang.org/x/crypto/curve25519"
	"golang.org/x/crypto/hkdf"
)

const (
	refDataMax   = 1024
	refFrameSize = 4 + refDataMax      // length prefix + payload area
	refSealed    = refFrameSize + 16   // + poly1305 tag
	refEphMsgLen = 1 + 2 + 32          // uvarint(34) | 0x0a 0x20 | key
	refAuthBody  = 2 + (2 + 32) + 2 + 64 // 0x0a 0x22 (0x0a 0x20 key) 0x12 0x40 sig
)

type refSession struct {
	locPriv, locPub, remPub [32]byte
	dh                      [32]byte
	challenge               [32]byte
	sendKey, recvKey        [32]byte
	sendAead, recvAead      cipher.AEAD
	sendCtr, recvCtr        uint64
}

func refPub(priv [32]byte) [32]byte {
	out, err := curve25519.X25519(priv[:], curve25519.Basepoint)
	if err != nil {
		panic(err)
	}
	var p [32]byte
	copy(p[:], out)
	return p
}

// refRawDH is the unchecked Montgomery ladder (all-zero output for low-order inputs).
func refRawDH(priv, pub [32]byte) [32]byte {
	var out [32]byte
	curve25519.ScalarMult(&out, &priv, &pub) //nolint:staticcheck // deliberately the unchecked variant
	return out
}

func refIsLowOrder(pub [32]byte) bool {
	var k [32]byte
	k[0], k[31] = 8, 0x40
	z := refRawDH(k, pub)
	return z == [32]byte{}
}

var errRefLowOrder = errors.New("ref: low-order remote ephemeral key")

func newRefSession(locPriv, remPub [32]byte) (*refSession, error) {
	dh := refRawDH(locPriv, remPub)
	if dh == [32]byte{} {
		return nil, errRefLowOrder
	}
	s := newRefSessionFromDH(refPub(locPriv), remPub, dh)
	s.locPriv = locPriv
	return s, nil
}

// newRefSessionFromDH derives challenge and keys from the two public keys and a given shared secret.
func newRefSessionFromDH(locPub, remPub, dh [32]byte) *refSession {
	s := &refSession{locPub: locPub, remPub: remPub, dh: dh}
	lo, hi := s.locPub, s.remPub
	locLeast := true
	if bytes.Compare(s.locPub[:], s.remPub[:]) > 0 {
		lo, hi = s.remPub, s.locPub
		locLeast = false
	}
	tr := merlin.NewTranscript("TENDERMINT_SECRET_CONNECTION_TRANSCRIPT_HASH")
	tr.AppendMessage([]byte("EPHEMERAL_LOWER_PUBLIC_KEY"), lo[:])
	tr.AppendMessage([]byte("EPHEMERAL_UPPER_PUBLIC_KEY"), hi[:])
	tr.AppendMessage([]byte("DH_SECRET"), s.dh[:])
	copy(s.challenge[:], tr.ExtractBytes([]byte("SECRET_CONNECTION_MAC"), 32))

	var okm [96]byte
	if _, err := io.ReadFull(hkdf.New(sha256.New, s.dh[:], nil, []byte("TENDERMINT_SECRET_CONNECTION_KEY_AND_CHALLENGE_GEN")), okm[:]); err != nil {
		panic(err)
	}
	if locLeast {
		copy(s.recvKey[:], okm[0:32])
		copy(s.sendKey[:], okm[32:64])
	} else {
		copy(s.sendKey[:], okm[0:32])
		copy(s.recvKey[:], okm[32:64])
	}
	var err error
	if s.sendAead, err = chacha20poly1305.New(s.sendKey[:]); err != nil {
		panic(err)
	}
	if s.recvAead, err = chacha20poly1305.New(s.recvKey[:]); err != nil {
		panic(err)
	}
	return s
}

func refNonce(ctr uint64) []byte {
	n := make([]byte, 12)
	binary.LittleEndian.PutUint64(n[4:], ctr)
	return n
}

// seal encrypts one chunk (<= 1024 bytes) as the next frame of the send direction.
func (s *refSession) seal(chunk []byte) []byte {
	if len(chunk) > refDataMax {
		panic("ref: chunk too large")
	}
	frame := make([]byte, refFrameSize)
	binary.LittleEndian.PutUint32(frame, uint32(len(chunk)))
	copy(frame[4:], chunk)
	out := s.sendAead.Seal(nil, refNonce(s.sendCtr), frame, nil)
	s.sendCtr++
	return out
}

// sealRaw encrypts an arbitrary 1028-byte frame (lets the adversary-as-peer send a hostile length prefix).
func (s *refSession) sealRaw(frame []byte) []byte {
	out := s.sendAead.Seal(nil, refNonce(s.sendCtr), frame, nil)
	s.sendCtr++
	return out
}

// sealStream splits data into frames like a well-behaved writer.
func (s *refSession) sealStream(data []byte) []byte {
	var out []byte
	for len(data) > 0 {
		n := len(data)
		if n > refDataMax {
			n = refDataMax
		}
		out = append(out, s.seal(data[:n])...)
		data = data[n:]
	}
	return out
}

// open decrypts the next frame of the receive direction.
func (s *refSession) open(sealed []byte) ([]byte, error) {
	return refOpenWith(s.recvAead, &s.recvCtr, sealed)
}

func refOpenWith(a cipher.AEAD, ctr *uint64, sealed []byte) ([]byte, error) {
	if len(sealed) != refSealed {
		return nil, fmt.Errorf("ref: sealed frame of %d bytes", len(sealed))
	}
	frame, err := a.Open(nil, refNonce(*ctr), sealed, nil)
	if err != nil {
		return nil, err
	}
	*ctr++
	l := binary.LittleEndian.Uint32(frame)
	if l > refDataMax {
		return nil, fmt.Errorf("ref: chunk length %d", l)
	}
	return frame[4 : 4+l], nil
}

// ---- hand-written wire encodings (protobuf, varint-delimited) ----

// refEphMsg: delimited google.protobuf.BytesValue{value}.
func refEphMsg(value []byte) []byte {
	body := append([]byte{0x0a}, refUvarint(uint64(len(value)))...)
	body = append(body, value...)
	return append(refUvarint(uint64(len(body))), body...)
}

// refAuthMsg: delimited tendermint.p2p.AuthSigMessage{pub_key: PublicKey{ed25519: pub}, sig}.
func refAuthMsg(pub, sig []byte) []byte {
	pk := append([]byte{0x0a}, refUvarint(uint64(len(pub)))...)
	pk = append(pk, pub...)
	body := append([]byte{0x0a}, refUvarint(uint64(len(pk)))...)
	body = append(body, pk...)
	body = append(body, 0x12)
	body = append(body, refUvarint(uint64(len(sig)))...)
	body = append(body, sig...)
	return append(refUvarint(uint64(len(body))), body...)
}

func refUvarint(v uint64) []byte {
	var b [10]byte
	n := binary.PutUvarint(b[:], v)
	return b[:n]
}

// refParseEph returns the value of a delimited BytesValue and the total number of bytes it occupies.
func refParseEph(b []byte) (value []byte, total int, err error) {
	l, n := binary.Uvarint(b)
	if n <= 0 || int(l) > len(b)-n {
		return nil, 0, errors.New("ref: short eph message")
	}
	body := b[n : n+int(l)]
	if len(body) < 2 || body[0] != 0x0a {
		return nil, 0, errors.New("ref: eph message is not BytesValue{1}")
	}
	vl, m := binary.Uvarint(body[1:])
	if m <= 0 || int(vl) != len(body)-1-m {
		return nil, 0, errors.New("ref: eph message length mismatch")
	}
	return body[1+m:], n + int(l), nil
}

// refParseAuth parses a delimited AuthSigMessage carrying an ed25519 key.
func refParseAuth(b []byte) (pub, sig []byte, total int, err error) {
	l, n := binary.Uvarint(b)
	if n <= 0 || int(l) > len(b)-n {
		return nil, nil, 0, errors.New("ref: short auth message")
	}
	body := b[n : n+int(l)]
	total = n + int(l)
	for len(body) > 0 {
		tag := body[0]
		fl, m := binary.Uvarint(body[1:])
		if m <= 0 || int(fl) > len(body)-1-m {
			return nil, nil, 0, errors.New("ref: bad auth field")
		}
		val := body[1+m : 1+m+int(fl)]
		body = body[1+m+int(fl):]
		switch tag {
		case 0x0a: // PublicKey
			if len(val) < 2 || val[0] != 0x0a {
				return nil, nil, 0, errors.New("ref: auth key is not ed25519")
			}
			kl, k := binary.Uvarint(val[1:])
			if k <= 0 || int(kl) != len(val)-1-k {
				return nil, nil, 0, errors.New("ref: auth key length")
			}
			pub = val[1+k:]
		case 0x12:
			sig = val
		default:
			return nil, nil, 0, fmt.Errorf("ref: unknown auth field tag %#x", tag)
		}
	}
	return pub, sig, total, nil
}

func refVerify(pub, msg, sig []byte) bool {
	return len(pub) == stded.PublicKeySize && stded.Verify(stded.PublicKey(pub), msg, sig)
}

func refSign(priv []byte, msg []byte) []byte { return stded.Sign(stded.PrivateKey(priv), msg) }

// lowOrderPoints: the classic list of small-order / non-canonical encodings (libsodium's blacklist, which
// tendermint carried before it moved to curve25519.X25519). TestLowOrderList checks each really is low order.
var lowOrderPoints = func() [][32]byte {
	h := func(first byte, fill byte, last byte) [32]byte {
		var p [32]byte
		for i := range p {
			p[i] = fill
		}
		p[0], p[31] = first, last
		return p
	}
	o8a := [32]byte{0xe0, 0xeb, 0x7a, 0x7c, 0x3b, 0x41, 0xb8, 0xae, 0x16, 0x56, 0xe3, 0xfa, 0xf1, 0x9f, 0xc4, 0x6a, 0xda, 0x09, 0x8d, 0xeb, 0x9c, 0x32, 0xb1, 0xfd, 0x86, 0x62, 0x05, 0x16, 0x5f, 0x49, 0xb8, 0x00}
	o8b := [32]byte{0x5f, 0x9c, 0x95, 0xbc, 0xa3, 0x50, 0x8c, 0x24, 0xb1, 0xd0, 0xb1, 0x55, 0x9c, 0x83, 0xef, 0x5b, 0x04, 0x44, 0x5c, 0xc4, 0x58, 0x1c, 0x8e, 0x86, 0xd8, 0x22, 0x4e, 0xdd, 0xd0, 0x9f, 0x11, 0x57}
	o8aHi, o8bHi := o8a, o8b
	o8aHi[31] |= 0x80 // bit 255 is ignored by X25519
	o8bHi[31] |= 0x80
	return [][32]byte{
		{},                   // 0
		h(0x01, 0x00, 0x00),  // 1
		o8a, o8b,             // order 8
		h(0xec, 0xff, 0x7f),  // p-1
		h(0xed, 0xff, 0x7f),  // p
		h(0xee, 0xff, 0x7f),  // p+1
		o8aHi, o8bHi,         // same with the ignored top bit set
		h(0xec, 0xff, 0xff),  // p-1 with top bit
		h(0xed, 0xff, 0xff),  // p with top bit
		h(0xee, 0xff, 0xff),  // p+1 with top bit
		h(0x00, 0x00, 0x80),  // 0 with top bit
		h(0x01, 0x00, 0x80),  // 1 with top bit
	}
}()

// smallOrderEd: the encodings of the eight small-order points of edwards25519 (orders 1, 2, 4, 4, 8, 8, 8, 8) plus
// the non-canonical encodings of the same points (y = p, y = p+1; x = 0 with the sign bit set): 14 in all, i.e. the
// seven y-values of libsodium's ge25519_has_small_order list with either sign bit. Nobody holds a private key for
// such an "identity": a signature (R = small-order point, S = 0) verifies under it for a constant fraction of all
// messages (for the neutral point: for every message). TestLowOrderList self-checks the list.
var smallOrderEd = func() [][32]byte {
	hex32 := func(s string) [32]byte {
		var p [32]byte
		for i := 0; i < 32; i++ {
			fmt.Sscanf(s[2*i:2*i+2], "%02x", &p[i])
		}
		return p
	}
	fl := func(first, last byte) [32]byte {
		var p [32]byte
		for i := range p {
			p[i] = 0xff
		}
		p[0], p[31] = first, last
		return p
	}
	ys := [][32]byte{
		hex32("0100000000000000000000000000000000000000000000000000000000000000"), // y = 1: neutral, order 1
		fl(0xec, 0x7f), // y = -1: order 2
		hex32("0000000000000000000000000000000000000000000000000000000000000000"), // y = 0: order 4
		hex32("26e8958fc2b227b045c3f489f2ef98f0d5dfac05d3c63339b13802886d53fc05"), // order 8
		hex32("c7176a703d4dd84fba3c0b760d10670f2a2053fa2c39ccc64ec7fd7792ac037a"), // order 8
		fl(0xed, 0x7f), // y = p (= 0), non-canonical
		fl(0xee, 0x7f), // y = p+1 (= 1), non-canonical
	}
	var out [][32]byte
	for _, y := range ys {
		out = append(out, y)
		y[31] |= 0x80
		out = append(out, y)
	}
	return out
}()

func isSmallOrderEd(pub []byte) bool {
	for _, p := range smallOrderEd {
		if bytes.Equal(pub, p[:]) {
			return true
		}
	}
	return false
}

// degenerateSig looks for a signature (R small order, S = 0) that verifies for msg under the small-order key pub.
// Everything used is public: this is what a party WITHOUT any private key can do.
func degenerateSig(pub, msg []byte) ([]byte, bool) {
	for _, r := range smallOrderEd {
		sig := make([]byte, 64)
		copy(sig, r[:])
		if refVerify(pub, msg, sig) {
			return sig, true
		}
	}
	sig := make([]byte, 64)
	copy(sig, smallOrderEd[0][:])
	return sig, false
}
