// C16 — peer links are mutually authenticated and tamper-evident.
//
// Two real conn.MakeSecretConnection ends talk over an in-memory pipe whose middle is owned by the harness's
// adversary (pipe_test.go). The oracle is the independent reference model of ref_test.go plus plain byte-stream
// bookkeeping; see the individual tests for what is generated and what is asserted.
package c16

import (
	"bytes"
	"fmt"
	"io"
	"os"
	"sync"
	"testing"
	"time"

	"github.com/tendermint/tendermint/crypto/ed25519"
	"github.com/tendermint/tendermint/p2p/conn"
	"pgregory.net/rapid"

	"verif/lib"
)

func TestMain(m *testing.M) {
	installFeed()
	lib.Main(m)
}

const caseDeadline = 60 * time.Second

// advKeyIdx is the adversary's own long-term identity; honest identities are drawn from ring indices 0..5 and the
// "victim" of replay scenarios too, so the adversary never holds an honest key.
const advKeyIdx = 40

func rawKey(k ed25519.PrivKey) []byte { return []byte(k) }
func pubOf(k ed25519.PrivKey) []byte  { return k.PubKey().Bytes() }

func drawEph(t *rapid.T, label string) [32]byte {
	var k [32]byte
	copy(k[:], rapid.SliceOfN(rapid.Byte(), 32, 32).Draw(t, label))
	return k
}

// drawEphDistinct draws n ephemeral private keys with pairwise distinct public keys (two honest ends drawing the
// same ephemeral key has probability ~2^-250 in reality; a shrunk all-zero draw would otherwise manufacture it).
func drawEphDistinct(t *rapid.T, n int, label string) [][32]byte {
	out := make([][32]byte, 0, n)
	seen := map[[32]byte]bool{}
	for i := 0; i < n; i++ {
		k := drawEph(t, fmt.Sprintf("%s%d", label, i))
		for seen[refPub(k)] {
			k[1]++
			k[2] ^= byte(i + 1)
		}
		seen[refPub(k)] = true
		out = append(out, k)
	}
	return out
}

// pattern produces the plaintext of one direction: position dependent (mode 0) so that any reordering shows, or
// constant (mode 1) so that many frames carry identical plaintext (nonce black-box check).
func pattern(dir byte, mode int, fill byte, off, n int) []byte {
	b := make([]byte, n)
	for i := range b {
		if mode == 1 {
			b[i] = fill
		} else {
			o := off + i
			b[i] = byte(o*131+(o>>8)*7+(o>>16)*3) + dir
		}
	}
	return b
}

var writeSizes = []int{0, 1, 2, 100, 1023, 1024, 1025, 1500, 2047, 2048, 2049, 3072, 4096, 10000, 65535, 65536, 65537}
var readSizes = []int{0, 1, 2, 3, 7, 64, 512, 1023, 1024, 1025, 2048, 4096, 65536, 100000}
var chunkSizes = []int{1, 2, 35, 103, 1043, 1044, 1045, 2088, 5000, 70000}

func genWrites(t *rapid.T, label string, maxTotal int) []int {
	n := rapid.IntRange(0, 8).Draw(t, label+".n")
	var ws []int
	total := 0
	for i := 0; i < n; i++ {
		var s int
		if rapid.IntRange(0, 3).Draw(t, label+".pick") == 0 {
			s = rapid.IntRange(0, 3000).Draw(t, label+".free")
		} else {
			s = rapid.SampledFrom(writeSizes).Draw(t, label+".size")
		}
		if total+s > maxTotal {
			s = maxTotal - total
		}
		total += s
		ws = append(ws, s)
	}
	return ws
}

func genSizes(t *rapid.T, label string, from []int, min, max int) []int {
	n := rapid.IntRange(min, max).Draw(t, label+".n")
	out := make([]int, n)
	for i := range out {
		out[i] = rapid.SampledFrom(from).Draw(t, label)
	}
	return out
}

// expectedChunks: the frame payload sizes a writer must produce for these writes (each write is cut into
// 1024-byte chunks plus a remainder; a zero-length write produces no frame).
func expectedChunks(writes []int) []int {
	var cs []int
	for _, w := range writes {
		for w > 0 {
			c := w
			if c > refDataMax {
				c = refDataMax
			}
			cs = append(cs, c)
			w -= c
		}
	}
	return cs
}

func sum(a []int) int {
	s := 0
	for _, x := range a {
		s += x
	}
	return s
}

// readAll reads from sc with the given cycle of buffer sizes until the first error. A zero-size buffer is always
// followed by a non-empty one. Returns the plaintext, the terminating error, and whether a call returned n>0
// together with an error.
func readAll(sc io.Reader, sizes []int) (data []byte, err error, dataWithErr bool) {
	if len(sizes) == 0 {
		sizes = []int{1024}
	}
	max := 0
	for _, s := range sizes {
		if s > max {
			max = s
		}
	}
	if max == 0 {
		sizes = append(append([]int(nil), sizes...), 1024)
		max = 1024
	}
	buf := make([]byte, max)
	zeros := 0
	for i := 0; ; i++ {
		sz := sizes[i%len(sizes)]
		n, e := sc.Read(buf[:sz])
		data = append(data, buf[:n]...)
		if e != nil {
			return data, e, n > 0
		}
		if n == 0 {
			zeros++
			if zeros > 4*len(sizes)+64 {
				return data, fmt.Errorf("harness: %d consecutive empty reads without error", zeros), false
			}
		} else {
			zeros = 0
		}
	}
}

// forward copies src to dst re-segmenting with the given chunk sizes (a byte stream transport may do that),
// records what passed, and closes dst when src ends.
func forward(src, dst *halfPipe, chunks []int, rec *[]byte, wg *sync.WaitGroup) {
	defer wg.Done()
	defer dst.Close()
	if len(chunks) == 0 {
		chunks = []int{4096}
	}
	max := 0
	for _, c := range chunks {
		if c > max {
			max = c
		}
	}
	buf := make([]byte, max)
	for i := 0; ; i++ {
		n, err := src.Read(buf[:chunks[i%len(chunks)]])
		if n > 0 {
			*rec = append(*rec, buf[:n]...)
			dst.Write(buf[:n])
		}
		if err != nil {
			return
		}
	}
}

type caseEnv struct {
	wg       sync.WaitGroup
	wd       *watchdog
	finished bool
}

func newCaseEnv() *caseEnv { return &caseEnv{wd: newWatchdog(caseDeadline)} }

// finish closes every pipe and waits for every goroutine of the case. A case that needed the watchdog, or whose
// goroutines do not end once all pipes are closed, is an infrastructure problem, not a verdict.
func (e *caseEnv) finish(t *rapid.T) {
	if e.finished {
		return
	}
	e.finished = true
	fired := e.wd.stop()
	if !waitGroupTimeout(&e.wg, 20*time.Second) {
		fmt.Fprintln(os.Stderr, "VERIF-INFRA: goroutines still running after all pipes were closed")
		t.Fatalf("VERIF-INFRA: goroutines still running after all pipes were closed")
	}
	if fired {
		fmt.Fprintln(os.Stderr, "VERIF-INFRA: case exceeded its liveness deadline (pipes force-closed)")
		t.Fatalf("VERIF-INFRA: case exceeded its liveness deadline (pipes force-closed)")
	}
}

// honestPair performs an untampered handshake between two real ends and returns them together with the two
// sealed auth frames that crossed (A->B, B->A). Any failure here is a completeness violation.
func honestPair(t *rapid.T, env *caseEnv, keyA, keyB ed25519.PrivKey, ephA, ephB [32]byte) (a, b *honestEnd, authAB, authBA []byte) {
	feed.reset()
	a, msgA, errA := startEnd("A", keyA, ephA, &env.wg)
	env.wd.add(a.c)
	b, msgB, errB := startEnd("B", keyB, ephB, &env.wg)
	env.wd.add(b.c)
	if errA != nil || errB != nil {
		t.Fatalf("honest end did not send its ephemeral key: %v / %v", errA, errB)
	}
	if !bytes.Equal(msgA, refEphMsg(a.ephPub[:])) || !bytes.Equal(msgB, refEphMsg(b.ephPub[:])) {
		t.Fatalf("ephemeral key message differs from the reference encoding of X25519(priv, base):\n A %x\n B %x", msgA, msgB)
	}
	b.c.in.Write(msgA)
	a.c.in.Write(msgB)
	var e1, e2 error
	authAB, e1 = a.c.out.ReadN(refSealed)
	authBA, e2 = b.c.out.ReadN(refSealed)
	if e1 != nil || e2 != nil {
		ra, rb := a.wait(), b.wait()
		t.Fatalf("honest handshake: no auth frame (A err=%v, B err=%v)", ra.err, rb.err)
	}
	b.c.in.Write(authAB)
	a.c.in.Write(authBA)
	ra, rb := a.wait(), b.wait()
	if ra.err != nil || rb.err != nil {
		t.Fatalf("honest handshake failed: A err=%v, B err=%v", ra.err, rb.err)
	}
	if !bytes.Equal(ra.sc.RemotePubKey().Bytes(), pubOf(keyB)) || !bytes.Equal(rb.sc.RemotePubKey().Bytes(), pubOf(keyA)) {
		t.Fatalf("honest handshake: RemotePubKey is not the peer's key")
	}
	return a, b, authAB, authBA
}

// openWire decrypts a recorded direction with the reference receive state of the reader's side, frame i under
// nonce i (the auth frame is frame 0). Returns the chunks after the auth frame.
// base is the counter of the first data frame (1 unless the link was fast-forwarded).
func openWire(t *rapid.T, what string, rs *refSession, wire []byte, base uint64) [][]byte {
	if len(wire)%refSealed != 0 {
		t.Fatalf("%s: wire stream of %d bytes is not a whole number of %d-byte sealed frames", what, len(wire), refSealed)
	}
	var chunks [][]byte
	for i := 0; i*refSealed < len(wire); i++ {
		if i == 1 {
			rs.recvCtr = base
		}
		nonce := rs.recvCtr
		c, err := rs.open(wire[i*refSealed : (i+1)*refSealed])
		if err != nil {
			t.Fatalf("%s: wire frame %d does not open under the reference key with nonce %d: %v", what, i, nonce, err)
		}
		chunks = append(chunks, append([]byte(nil), c...))
	}
	return chunks[1:]
}

type dirPlan struct {
	writes []int
	mode   int
	fill   byte
	reads  []int
	chunks []int
}

func genDir(t *rapid.T, label string, maxTotal int) dirPlan {
	return dirPlan{
		writes: genWrites(t, label+".w", maxTotal),
		mode:   rapid.IntRange(0, 1).Draw(t, label+".mode"),
		fill:   rapid.SampledFrom([]byte{0x00, 0xaa}).Draw(t, label+".fill"),
		reads:  genSizes(t, label+".r", readSizes, 1, 6),
		chunks: genSizes(t, label+".c", chunkSizes, 1, 4),
	}
}

type dirOutcome struct {
	writeErr   string
	counters   []uint64 // send counter after each write
	got        []byte
	readErr    error
	dataAndErr bool
}

// TestHonestStream — mode (1) and (4): untampered link, both directions concurrently.
//
// Generated: identities, ephemeral keys, per direction a list of write sizes (0, 1, 1023, 1024, 1025, 64 KiB...),
// a cycle of read-buffer sizes (0, 1, ... 100000), a plaintext fill (position-dependent or constant) and the
// transport's re-segmentation. Oracle: concatenated reads == concatenated writes and the reader ends with io.EOF;
// every wire frame i opens under the reference key with nonce i and carries exactly the i-th expected chunk; the
// send counter after each Write equals 1 + frames so far (strictly increasing) and the receive counter ends at the
// same value; frames with identical plaintext (also across the two directions) never have identical ciphertext.
func TestHonestStream(t *testing.T) {
	maxTotal := 150_000
	if lib.Thorough() {
		maxTotal = 400_000
	}
	rapid.Check(t, func(t *rapid.T) {
		ia := rapid.IntRange(0, 5).Draw(t, "idA")
		ib := (ia + 1 + rapid.IntRange(0, 4).Draw(t, "idB")) % 6 // a different identity
		eph := drawEphDistinct(t, 2, "eph")
		plans := [2]dirPlan{genDir(t, "ab", maxTotal), genDir(t, "ba", maxTotal)}
		var bases [2]uint64
		var baseKind [2]string
		for d := 0; d < 2; d++ {
			bases[d], baseKind[d] = drawBase(t, fmt.Sprintf("base%d", d), len(expectedChunks(plans[d].writes)))
		}

		env := newCaseEnv()
		defer env.finish(t)
		a, b, authAB, authBA := honestPair(t, env, lib.Key(ia), lib.Key(ib), eph[0], eph[1])
		ends := [2]*honestEnd{a, b}
		jump(a, b, bases[0])
		jump(b, a, bases[1])
		wire := [2][]byte{append([]byte(nil), authAB...), append([]byte(nil), authBA...)}
		var out [2]dirOutcome

		var work sync.WaitGroup
		for d := 0; d < 2; d++ {
			d := d
			w, r := ends[d], ends[1-d]
			env.wg.Add(1)
			go forward(w.c.out, r.c.in, plans[d].chunks, &wire[d], &env.wg)
			work.Add(2)
			go func() { // writer
				defer work.Done()
				defer w.c.out.Close()
				off := 0
				for _, sz := range plans[d].writes {
					n, err := w.res.sc.Write(pattern(byte(d), plans[d].mode, plans[d].fill, off, sz))
					if err != nil || n != sz {
						out[d].writeErr = fmt.Sprintf("Write(%d bytes) = %d, %v", sz, n, err)
						return
					}
					off += sz
					out[d].counters = append(out[d].counters, w.res.sc.VerifC16SendCounter())
				}
			}()
			go func() { // reader
				defer work.Done()
				out[d].got, out[d].readErr, out[d].dataAndErr = readAll(r.res.sc, plans[d].reads)
			}()
		}
		if !waitGroupTimeout(&work, caseDeadline) {
			env.wd.stop()
		}
		env.finish(t)

		nontrivial := false
		cls := []string{}
		identical, cross := false, false
		seenCT := map[string]string{}
		seenPlain := map[string]int{}
		for d := 0; d < 2; d++ {
			p := plans[d]
			name := []string{"A->B", "B->A"}[d]
			if out[d].writeErr != "" {
				t.Fatalf("%s: %s", name, out[d].writeErr)
			}
			total := sum(p.writes)
			want := pattern(byte(d), p.mode, p.fill, 0, total)
			if !bytes.Equal(out[d].got, want) {
				t.Fatalf("%s: read %d bytes, written %d; first difference at %d (writes=%v reads=%v)", name, len(out[d].got), total, firstDiff(out[d].got, want), p.writes, p.reads)
			}
			if out[d].readErr != io.EOF || out[d].dataAndErr {
				t.Fatalf("%s: reader ended with %v (data with error: %v), want io.EOF after a clean close", name, out[d].readErr, out[d].dataAndErr)
			}
			// black box, no decryption involved: frames whose plaintext is identical (known from the writes) must not
			// have identical ciphertext (first 4+len bytes are keystream xor plaintext) - also across directions
			if exp := expectedChunks(p.writes); len(wire[d]) == (1+len(exp))*refSealed {
				poff := 0
				for i := 1; i <= len(exp); i++ {
					plain := string(want[poff : poff+exp[i-1]])
					poff += exp[i-1]
					ct := wire[d][i*refSealed : i*refSealed+4+len(plain)]
					key := fmt.Sprintf("%d|%s|%x", len(plain), plain, ct)
					if prev, dup := seenCT[key]; dup {
						t.Fatalf("identical plaintext frame produced identical ciphertext: %s frame %d and %s (key/nonce reuse)", name, i, prev)
					}
					seenCT[key] = fmt.Sprintf("%s frame %d", name, i)
					if pd, ok := seenPlain[plain]; ok {
						identical = true
						if pd != d && pd != 2 {
							cross = true
						}
						if pd != d {
							seenPlain[plain] = 2
						}
					} else {
						seenPlain[plain] = d
					}
				}
			}
			// wire: reference model of the reader's side opens frame i with nonce i
			rs, err := newRefSession(ends[1-d].ephPriv, ends[d].ephPub)
			if err != nil {
				t.Fatalf("reference session: %v", err)
			}
			chunks := openWire(t, name, rs, wire[d], bases[d])
			exp := expectedChunks(p.writes)
			if len(chunks) != len(exp) {
				t.Fatalf("%s: %d data frames on the wire, expected %d for writes %v", name, len(chunks), len(exp), p.writes)
			}
			off := 0
			for i, c := range chunks {
				if len(c) != exp[i] || !bytes.Equal(c, want[off:off+len(c)]) {
					t.Fatalf("%s: wire frame %d carries %d bytes, expected chunk of %d at offset %d", name, i+1, len(c), exp[i], off)
				}
				off += len(c)
			}
			// nonce counters through the shim
			frames := bases[d]
			wi := 0
			for _, w := range p.writes {
				frames += uint64((w + refDataMax - 1) / refDataMax)
				if out[d].counters[wi] != frames {
					t.Fatalf("%s: send counter after write %d is %d, expected %d: counter started at %d, every sealed frame must use a fresh, strictly larger nonce (writes=%v)", name, wi, out[d].counters[wi], frames, bases[d], p.writes)
				}
				wi++
			}
			if got := ends[d].res.sc.VerifC16SendCounter(); got != frames {
				t.Fatalf("%s: final send counter %d, expected %d", name, got, frames)
			}
			if got := ends[1-d].res.sc.VerifC16RecvCounter(); got != frames {
				t.Fatalf("%s: final receive counter %d, expected %d", name, got, frames)
			}
			sn, rn := ends[d].res.sc.VerifC16Nonces()
			if !bytes.Equal(sn[:4], []byte{0, 0, 0, 0}) || !bytes.Equal(rn[:4], []byte{0, 0, 0, 0}) {
				t.Fatalf("%s: fixed part of a nonce changed: %x %x", name, sn, rn)
			}
			for _, w := range p.writes {
				if w > refDataMax {
					nontrivial = true
				}
			}
			cls = append(cls, fmt.Sprintf("frames:%s", bucket(len(exp))), fmt.Sprintf("fill:%d", p.mode), "counter-start:"+baseKind[d], "counter-crosses:"+crossed(bases[d], len(exp)))
			for _, w := range p.writes {
				cls = append(cls, "write:"+sizeClass(w))
			}
			for _, r := range p.reads {
				cls = append(cls, "readbuf:"+sizeClass(r))
			}
		}
		// the two directions never share a key: same index, same plaintext, still different ciphertext was checked above;
		// additionally the two auth frames (same nonce 0) must differ
		if bytes.Equal(authAB[:16], authBA[:16]) {
			t.Fatalf("auth frames of the two directions start with identical ciphertext")
		}
		cls = append(cls, fmt.Sprintf("identical-plaintext-frames:%v", identical), fmt.Sprintf("identical-across-directions:%v", cross),
			fmt.Sprintf("same-identity:%v", ia == ib), fmt.Sprintf("crosses-frame-boundary:%v", nontrivial))
		lib.Case("TestHonestStream", lib.FP(bases, plans[0].writes, plans[0].reads, plans[0].chunks, plans[0].mode, plans[1].writes, plans[1].reads, plans[1].chunks, plans[1].mode), nontrivial, cls...)
		if nontrivial && lib.WantSample("TestHonestStream") {
			lib.Sample("TestHonestStream", map[string]interface{}{"A->B writes": plans[0].writes, "A->B read buffers": plans[0].reads, "A->B segments": plans[0].chunks,
				"B->A writes": plans[1].writes, "B->A read buffers": plans[1].reads, "frames A->B": len(expectedChunks(plans[0].writes)), "frames B->A": len(expectedChunks(plans[1].writes))})
		}
	})
}

func firstDiff(a, b []byte) int {
	n := len(a)
	if len(b) < n {
		n = len(b)
	}
	for i := 0; i < n; i++ {
		if a[i] != b[i] {
			return i
		}
	}
	return n
}

func bucket(n int) string {
	switch {
	case n == 0:
		return "0"
	case n == 1:
		return "1"
	case n <= 4:
		return "2-4"
	case n <= 64:
		return "5-64"
	default:
		return ">64"
	}
}

func sizeClass(n int) string {
	switch {
	case n == 0:
		return "0"
	case n < 1023:
		return "<1023"
	case n <= 1025:
		return fmt.Sprint(n)
	case n <= 4096:
		return "1026-4096"
	case n < 65535:
		return "4097-65534"
	default:
		return ">=65535"
	}
}

var _ = conn.VerifC16DataMaxSize
