package c16

import (
	"encoding/binary"
	"fmt"
	"os"
	"testing"

	"pgregory.net/rapid"

	"verif/lib"
)

// TestWriteFailureNonce — "a nonce is never used twice", on the failure path of Write.
//
// Generated: an honest handshake, then the writer's transport becomes faulty: 1..3 drawn underlying writes (= sealed
// frames) accept only a drawn number of bytes (0..1043) and return a timeout-style error; the caller keeps calling
// Write on the same SecretConnection with drawn sizes and fills. Oracle:
//   (a) shim: after every Write the send counter equals 1 + the number of frames sealed so far (every underlying
//       Write call is one sealed frame), whether or not the transport accepted it; Write returns the injected error
//       and counts exactly the chunks that went out completely;
//   (b) black box on what reached the link (completely or partially): for any two emissions with known plaintexts
//       p1,p2 the ciphertext prefixes satisfy c1 xor c2 != p1 xor p2 (no shared key stream), and
//   (c) reference model: emission number i is, on the bytes that were emitted and whose plaintext is known (length
//       prefix + payload), exactly the reference sealing of that plaintext under nonce 1+i.
func TestWriteFailureNonce(t *testing.T) {
	rapid.Check(t, func(t *rapid.T) {
		ia := rapid.IntRange(0, 5).Draw(t, "idA")
		ib := (ia + 1 + rapid.IntRange(0, 4).Draw(t, "idB")) % 6 // a different identity
		eph := drawEphDistinct(t, 2, "eph")
		dir := rapid.IntRange(0, 1).Draw(t, "dir")
		mode := rapid.IntRange(0, 1).Draw(t, "mode")
		fill := rapid.SampledFrom([]byte{0x00, 0xaa}).Draw(t, "fill")
		nw := rapid.IntRange(1, 6).Draw(t, "writes")
		writes := make([]int, nw)
		for i := range writes {
			writes[i] = rapid.SampledFrom([]int{1, 7, 100, 1023, 1024, 1025, 2048, 3000, 5000}).Draw(t, "size")
		}
		maxFrames := len(expectedChunks(writes))
		nf := rapid.IntRange(1, 3).Draw(t, "faults")
		faults := map[int]int{}
		for i := 0; i < nf; i++ {
			at := rapid.IntRange(0, maxFrames-1).Draw(t, "fault.frame")
			k := rapid.SampledFrom([]int{0, 1, 3, 4, 5, 16, 100, 1027, 1028, 1043, -1}).Draw(t, "fault.bytes")
			if k < 0 {
				k = rapid.IntRange(0, refSealed-1).Draw(t, "fault.any")
			}
			faults[at] = k
		}

		env := newCaseEnv()
		defer env.finish(t)
		a, b, _, _ := honestPair(t, env, lib.Key(ia), lib.Key(ib), eph[0], eph[1])
		w, r := [2]*honestEnd{a, b}[dir], [2]*honestEnd{a, b}[1-dir]
		base, baseKind := drawBase(t, "base", maxFrames)
		jump(w, r, base)
		w.c.arm(faults)

		// model: which chunk goes out in which underlying call
		type sealed struct {
			plain []byte // length prefix + payload (padding is not known to the test)
		}
		var model []sealed
		off := 0
		hits, afterFault := 0, 0
		for wi, sz := range writes {
			data := pattern(byte(dir), mode, fill, off, sz)
			off += sz
			// expected behaviour of this Write
			wantN, wantErr := 0, false
			for rest := data; len(rest) > 0 && !wantErr; {
				c := len(rest)
				if c > refDataMax {
					c = refDataMax
				}
				p := make([]byte, 4+c)
				binary.LittleEndian.PutUint32(p, uint32(c))
				copy(p[4:], rest[:c])
				call := len(model)
				model = append(model, sealed{p})
				if hits > 0 {
					afterFault++
				}
				if _, f := faults[call]; f {
					wantErr = true
					hits++
				} else {
					wantN += c
				}
				rest = rest[c:]
			}
			n, err := w.res.sc.Write(data)
			if wantErr {
				if _, ok := err.(timeoutErr); !ok {
					t.Fatalf("write %d: expected the transport's error, got n=%d err=%v", wi, n, err)
				}
			} else if err != nil {
				t.Fatalf("write %d: unexpected error %v", wi, err)
			}
			if n != wantN {
				t.Fatalf("write %d of %d bytes returned n=%d, %d bytes went out in complete frames (err=%v)", wi, sz, n, wantN, err)
			}
			// (a) the counter has moved past every sealed frame
			if c := w.res.sc.VerifC16SendCounter(); os.Getenv("VERIF_C16_NOSHIM") == "" && c != base+uint64(len(model)) {
				t.Fatalf("send counter %d after %d sealed frames (counter started at %d), %d of them refused by the transport: a later frame would be sealed under a used nonce (writes=%v faults=%v)", c, len(model), base, hits, writes, faults)
			}
		}
		w.c.fmu.Lock()
		emits := append([]emission(nil), w.c.emits...)
		w.c.fmu.Unlock()
		if len(emits) != len(model) {
			t.Fatalf("%d underlying writes, model expected %d sealed frames (writes=%v faults=%v)", len(emits), len(model), writes, faults)
		}

		// (c) reference model: emission i == reference sealing under nonce 1+i on the known bytes
		rs, err := newRefSession(r.ephPriv, w.ephPub)
		if err != nil {
			t.Fatalf("reference session: %v", err)
		}
		known := make([]int, len(emits)) // comparable prefix length per emission
		for i, e := range emits {
			if e.asked != refSealed {
				t.Fatalf("underlying write %d carries %d bytes, not one sealed frame", i, e.asked)
			}
			frame := make([]byte, refFrameSize)
			copy(frame, model[i].plain)
			ref := rs.recvAead.Seal(nil, refNonce(base+uint64(i)), frame, nil)
			l := len(model[i].plain)
			if len(e.bytes) < l {
				l = len(e.bytes)
			}
			known[i] = l
			if string(e.bytes[:l]) != string(ref[:l]) {
				t.Fatalf("frame %d (%d bytes on the link, failed=%v) is not the reference sealing of its plaintext under nonce %d (writes=%v faults=%v)", i, len(e.bytes), e.failed, base+uint64(i), writes, faults)
			}
		}
		// (b) black box: no two emissions share a key stream
		pairs := 0
		for i := 0; i < len(emits); i++ {
			for j := i + 1; j < len(emits); j++ {
				l := known[i]
				if known[j] < l {
					l = known[j]
				}
				if l < 8 {
					continue
				}
				pairs++
				same := true
				for x := 0; x < l; x++ {
					if emits[i].bytes[x]^emits[j].bytes[x] != model[i].plain[x]^model[j].plain[x] {
						same = false
						break
					}
				}
				if same {
					t.Fatalf("frames %d and %d were sealed with the same key stream (c1^c2 == p1^p2 over %d bytes): nonce used twice (writes=%v faults=%v)", i, j, l, writes, faults)
				}
			}
		}

		kcls := []string{}
		for _, k := range faults {
			switch {
			case k == 0:
				kcls = append(kcls, "fault-bytes:0")
			case k < 8:
				kcls = append(kcls, "fault-bytes:1-7")
			case k < refSealed-16:
				kcls = append(kcls, "fault-bytes:8-1027")
			default:
				kcls = append(kcls, "fault-bytes:in-tag")
			}
		}
		nontrivial := hits > 0 && afterFault > 0
		lib.Case("TestWriteFailureNonce", lib.FP(writes, faults, mode, dir, base), nontrivial,
			append(kcls, "counter-start:"+baseKind, "counter-crosses:"+crossed(base, len(model)), fmt.Sprintf("faults-hit:%d", hits), fmt.Sprintf("frames-after-first-fault:%s", bucket(afterFault)), fmt.Sprintf("xor-pairs:%s", bucket(pairs)))...)
		if nontrivial && lib.WantSample("TestWriteFailureNonce") {
			lib.Sample("TestWriteFailureNonce", map[string]interface{}{"writes": writes, "faults(frame->bytes accepted)": fmt.Sprint(faults), "sealed frames": len(model), "frames after first fault": afterFault})
		}
	})
}
