package c16

import (
	"fmt"
	"sync"
	"testing"

	"verif/lib"
)

// TestRegressSmallOrderIdentity — finding C16-small-order-identity, replayed without the property-testing library.
// A peer that holds no private key at all does an ordinary ephemeral exchange and then presents, as its identity,
// each of the small-order ed25519 encodings together with a signature made of public constants (R small order,
// S = 0) picked by public computation so that it verifies over this session's challenge. For the neutral element
// 01 00..00 the pair (key, 01 00..00 || 00..00) is the same for every session of every node. MakeSecretConnection
// must refuse: nothing was proven.
func TestRegressSmallOrderIdentity(t *testing.T) {
	accepted := []string{}
	tried := 0
	for i, id := range smallOrderEd {
		for attempt := 0; attempt < 4; attempt++ { // another ephemeral key = another challenge, until a constant verifies
			var vEph, aEph [32]byte
			vEph[0], vEph[1], vEph[5] = 0x40, byte(i), byte(attempt)
			aEph[0], aEph[1], aEph[5] = 0x48, byte(i), byte(attempt)
			feed.reset()
			var wg sync.WaitGroup
			v, _, err := startEnd("V", lib.Key(1), vEph, &wg)
			if err != nil {
				t.Fatalf("victim sent no ephemeral key: %v", err)
			}
			s, err := newRefSession(aEph, v.ephPub)
			if err != nil {
				t.Fatal(err)
			}
			sig, ok := degenerateSig(id[:], s.challenge[:])
			if !ok {
				v.c.Close()
				wg.Wait()
				continue
			}
			tried++
			v.c.in.Write(refEphMsg(s.locPub[:]))
			v.c.in.Write(s.sealStream(refAuthMsg(id[:], sig)))
			v.c.in.Close()
			res := v.wait()
			v.c.Close()
			wg.Wait()
			if res.err == nil {
				accepted = append(accepted, fmt.Sprintf("%x (signature %x...%x)", res.sc.RemotePubKey().Bytes(), sig[:2], sig[62:]))
			}
			break
		}
	}
	lib.Case("TestRegressSmallOrderIdentity", lib.FP(tried), true, fmt.Sprintf("identities-tried:%d", tried), fmt.Sprintf("accepted:%d", len(accepted)))
	if tried < 8 {
		t.Fatalf("only %d small-order identities could be exercised", tried)
	}
	if len(accepted) > 0 && lib.IsKnown(knownSmallOrderIdentity) {
		lib.ObservedKnown(knownSmallOrderIdentity)
		return
	}
	if len(accepted) > 0 {
		t.Fatalf("MakeSecretConnection authenticated %d of %d identities for which no private key exists, on signatures made of public constants:\n  %s",
			len(accepted), tried, joinLines(accepted))
	}
}

func joinLines(l []string) string {
	out := ""
	for i, s := range l {
		if i > 0 {
			out += "\n  "
		}
		out += s
	}
	return out
}

// TestRegressIdentityReflection — finding C16-identity-reflection, replayed without the property-testing library.
// A party that holds no long-term key does an ordinary ephemeral exchange with its own ephemeral key, decrypts the
// victim's auth message and sends exactly that message back (both roles sign the same challenge). The victim must
// not end up with an authenticated connection to "itself".
func TestRegressIdentityReflection(t *testing.T) {
	var vEph, aEph [32]byte
	vEph[0], aEph[0] = 0x50, 0x58
	feed.reset()
	var wg sync.WaitGroup
	v, _, err := startEnd("V", lib.Key(2), vEph, &wg)
	if err != nil {
		t.Fatalf("victim sent no ephemeral key: %v", err)
	}
	defer func() { v.c.Close(); wg.Wait() }()
	s, err := newRefSession(aEph, v.ephPub)
	if err != nil {
		t.Fatal(err)
	}
	v.c.in.Write(refEphMsg(s.locPub[:]))
	sealed, err := v.c.out.ReadN(refSealed)
	if err != nil {
		t.Fatalf("victim sent no auth frame: %v", v.wait().err)
	}
	plain, err := s.open(sealed)
	if err != nil {
		t.Fatalf("auth frame does not open under the reference keys: %v", err)
	}
	pub, sig, _, err := refParseAuth(plain)
	if err != nil {
		t.Fatal(err)
	}
	v.c.in.Write(s.sealStream(refAuthMsg(pub, sig)))
	v.c.in.Close()
	res := v.wait()
	lib.Case("TestRegressIdentityReflection", lib.FP(1), true, fmt.Sprintf("accepted:%v", res.err == nil))
	if res.err == nil {
		if lib.IsKnown(knownIdentityReflection) {
			lib.ObservedKnown(knownIdentityReflection)
			return
		}
		t.Fatalf("MakeSecretConnection returned an authenticated connection with RemotePubKey %x == the local key, to a party that holds no long-term key and merely sent the local auth message back", res.sc.RemotePubKey().Bytes())
	}
}
