// In-memory duplex pipe with an interposed adversary, and the ephemeral-key feed.
package c16

import (
	crand "crypto/rand"
	"crypto/sha256"
	"encoding/binary"
	"errors"
	"io"
	"sync"
	"time"

	"github.com/tendermint/tendermint/crypto/ed25519"
	"github.com/tendermint/tendermint/p2p/conn"
)

// ---- halfPipe: one direction, unbounded buffer (writers never block, so the controller cannot deadlock them) ----

type halfPipe struct {
	mu     sync.Mutex
	cond   *sync.Cond
	buf    []byte
	closed bool
	total  int // bytes ever written
	waits  int // number of times a Read had to park because the pipe was empty
}

func newHalfPipe() *halfPipe {
	h := &halfPipe{}
	h.cond = sync.NewCond(&h.mu)
	return h
}

func (h *halfPipe) Write(p []byte) (int, error) {
	h.mu.Lock()
	defer h.mu.Unlock()
	if h.closed {
		return 0, io.ErrClosedPipe
	}
	h.buf = append(h.buf, p...)
	h.total += len(p)
	h.cond.Broadcast()
	return len(p), nil
}

func (h *halfPipe) Read(p []byte) (int, error) {
	h.mu.Lock()
	defer h.mu.Unlock()
	for len(h.buf) == 0 && !h.closed {
		h.waits++
		h.cond.Wait()
	}
	if len(h.buf) == 0 {
		return 0, io.EOF
	}
	n := copy(p, h.buf)
	h.buf = h.buf[n:]
	return n, nil
}

// ReadN blocks until exactly n bytes are available (returned) or the pipe is closed (error, partial data returned).
func (h *halfPipe) ReadN(n int) ([]byte, error) {
	h.mu.Lock()
	defer h.mu.Unlock()
	for len(h.buf) < n && !h.closed {
		h.cond.Wait()
	}
	if len(h.buf) < n {
		out := append([]byte(nil), h.buf...)
		h.buf = nil
		return out, io.ErrUnexpectedEOF
	}
	out := append([]byte(nil), h.buf[:n]...)
	h.buf = h.buf[n:]
	return out, nil
}

// parkedReads: how often a reader has parked on the empty pipe so far.
func (h *halfPipe) parkedReads() int {
	h.mu.Lock()
	defer h.mu.Unlock()
	return h.waits
}

// Drain returns everything buffered right now without blocking.
func (h *halfPipe) Drain() []byte {
	h.mu.Lock()
	defer h.mu.Unlock()
	out := append([]byte(nil), h.buf...)
	h.buf = nil
	return out
}

func (h *halfPipe) Close() error {
	h.mu.Lock()
	defer h.mu.Unlock()
	h.closed = true
	h.cond.Broadcast()
	return nil
}

// endConn is what one honest end sees: it reads from in and writes to out. The adversary owns the other sides.
// Once armed it is also a faulty transport: the underlying Write number i (counted from arming; after the handshake
// every underlying Write is exactly one sealed frame) accepts only faults[i] bytes and returns a timeout-style error,
// like a write deadline expiring mid-frame. Later writes work again.
type endConn struct {
	in, out *halfPipe

	fmu    sync.Mutex
	armed  bool
	calls  int
	faults map[int]int
	emits  []emission
}

// emission: what one underlying Write call put on the link.
type emission struct {
	call   int
	asked  int
	bytes  []byte
	failed bool
}

type timeoutErr struct{}

func (timeoutErr) Error() string   { return "verif: i/o timeout (injected)" }
func (timeoutErr) Timeout() bool   { return true }
func (timeoutErr) Temporary() bool { return true }

func newEndConn() *endConn { return &endConn{in: newHalfPipe(), out: newHalfPipe()} }

func (c *endConn) arm(faults map[int]int) {
	c.fmu.Lock()
	c.armed, c.calls, c.faults, c.emits = true, 0, faults, nil
	c.fmu.Unlock()
}

func (c *endConn) Read(p []byte) (int, error) { return c.in.Read(p) }
func (c *endConn) Write(p []byte) (int, error) {
	c.fmu.Lock()
	if !c.armed {
		c.fmu.Unlock()
		return c.out.Write(p)
	}
	call := c.calls
	c.calls++
	k, fail := c.faults[call]
	if fail && k > len(p) {
		k = len(p)
	}
	if !fail {
		k = len(p)
	}
	c.emits = append(c.emits, emission{call: call, asked: len(p), bytes: append([]byte(nil), p[:k]...), failed: fail})
	c.fmu.Unlock()
	if k > 0 {
		if _, err := c.out.Write(p[:k]); err != nil {
			return 0, err
		}
	}
	if fail {
		return k, timeoutErr{}
	}
	return k, nil
}
func (c *endConn) Close() error {
	c.in.Close()
	c.out.Close()
	return nil
}

// ---- ephemeral key feed: crypto/rand.Reader is replaced for the whole test process ----
//
// MakeSecretConnection draws its ephemeral private key from crypto/rand.Reader. The harness queues a rapid-drawn
// 32-byte value before it starts an end, so sessions are a function of the draws, and it remembers every value it
// handed out so the oracle can recompute that end's secrets. Reads that find the queue empty (TCP transport test)
// get a deterministic hash stream.

type keyFeed struct {
	mu     sync.Mutex
	queue  [][32]byte
	issued [][32]byte
	ctr    uint64
}

var feed = &keyFeed{}

func (f *keyFeed) Read(p []byte) (int, error) {
	f.mu.Lock()
	defer f.mu.Unlock()
	if len(p) == 32 && len(f.queue) > 0 {
		k := f.queue[0]
		f.queue = f.queue[1:]
		copy(p, k[:])
		f.issued = append(f.issued, k)
		return 32, nil
	}
	for off := 0; off < len(p); {
		var c [8]byte
		binary.LittleEndian.PutUint64(c[:], f.ctr)
		f.ctr++
		h := sha256.Sum256(append([]byte("verif-c16-rand"), c[:]...))
		off += copy(p[off:], h[:])
	}
	if len(p) == 32 {
		var k [32]byte
		copy(k[:], p)
		f.issued = append(f.issued, k)
		if len(f.issued) > 4096 {
			f.issued = f.issued[len(f.issued)-2048:]
		}
	}
	return len(p), nil
}

func (f *keyFeed) push(k [32]byte) {
	f.mu.Lock()
	f.queue = append(f.queue, k)
	f.mu.Unlock()
}

func (f *keyFeed) reset() {
	f.mu.Lock()
	f.queue, f.issued = nil, nil
	f.mu.Unlock()
}

func installFeed() { crand.Reader = feed }

// ---- running one honest end ----

type endResult struct {
	sc  *conn.SecretConnection
	err error
}

type honestEnd struct {
	name    string
	key     ed25519.PrivKey
	ephPriv [32]byte
	ephPub  [32]byte
	c       *endConn
	done    chan endResult
	res     *endResult
}

// startEnd launches MakeSecretConnection for an end whose ephemeral private key is ephPriv and waits until the
// end's ephemeral-key message is on the wire (which also serialises the use of the key feed).
func startEnd(name string, key ed25519.PrivKey, ephPriv [32]byte, wg *sync.WaitGroup) (*honestEnd, []byte, error) {
	e := &honestEnd{name: name, key: key, ephPriv: ephPriv, ephPub: refPub(ephPriv), c: newEndConn(), done: make(chan endResult, 1)}
	feed.push(ephPriv)
	wg.Add(1)
	go func() {
		defer wg.Done()
		sc, err := conn.MakeSecretConnection(e.c, key)
		if err != nil {
			e.c.out.Close() // lets a controller blocked on this end's output continue
		}
		e.done <- endResult{sc, err}
	}()
	msg, err := e.c.out.ReadN(refEphMsgLen)
	return e, msg, err
}

// wait returns the handshake result (cached). The caller must already have delivered or closed the end's input.
func (e *honestEnd) wait() endResult {
	if e.res == nil {
		r := <-e.done
		e.res = &r
	}
	return *e.res
}

// ---- watchdog: closes every pipe of a case if the case does not finish in time ----

type watchdog struct {
	mu    sync.Mutex
	pipes []io.Closer
	fired bool
	timer *time.Timer
}

func newWatchdog(d time.Duration) *watchdog {
	w := &watchdog{}
	w.timer = time.AfterFunc(d, func() {
		w.mu.Lock()
		w.fired = true
		ps := append([]io.Closer(nil), w.pipes...)
		w.mu.Unlock()
		for _, p := range ps {
			p.Close()
		}
	})
	return w
}

func (w *watchdog) add(cs ...io.Closer) {
	w.mu.Lock()
	w.pipes = append(w.pipes, cs...)
	w.mu.Unlock()
}

// stop closes everything (every pipe end gets closed at the end of every case) and reports whether the deadline hit.
func (w *watchdog) stop() bool {
	w.timer.Stop()
	w.mu.Lock()
	ps := append([]io.Closer(nil), w.pipes...)
	fired := w.fired
	w.mu.Unlock()
	for _, p := range ps {
		p.Close()
	}
	return fired
}

// waitGroupTimeout waits for wg with a bound.
func waitGroupTimeout(wg *sync.WaitGroup, d time.Duration) bool {
	ch := make(chan struct{})
	go func() { wg.Wait(); close(ch) }()
	select {
	case <-ch:
		return true
	case <-time.After(d):
		return false
	}
}

var errNoEph = errors.New("end produced no ephemeral key message")
