package c16

import (
	"bytes"
	"encoding/binary"
	"fmt"
	"io"
	"strings"
	"testing"

	"pgregory.net/rapid"

	"verif/lib"
)

var editKinds = []string{
	"flip", "flip", "swap", "drop", "dup-adjacent", "dup-later", "move-to-end",
	"replay-other-direction-insert", "replay-other-direction-replace", "replay-own-auth", "replay-earlier-frame-replace",
	"replay-old-session", "truncate-mid-frame", "truncate-at-boundary", "append-garbage-short", "append-garbage-frame",
	"insert-garbage-frame", "zero-frame", "insert-byte", "delete-byte", "none",
	"replay-pre-jump-frame", "replay-pre-jump-frame",
}

func framesOf(stream []byte) [][]byte {
	var fs [][]byte
	for i := 0; i+refSealed <= len(stream); i += refSealed {
		fs = append(fs, stream[i:i+refSealed])
	}
	return fs
}

func joinFrames(fs [][]byte) []byte {
	var out []byte
	for _, f := range fs {
		out = append(out, f...)
	}
	return out
}

// TestStreamEdits — mode (3) and (4): an untampered handshake, then the adversary edits the sealed stream of one
// direction before the reader sees any of it.
//
// Generated: the writer's write sizes and fill, 1..3 edits out of 20 kinds (bit flip anywhere in any frame, swap,
// drop, duplicate, move, replay of a frame of the other direction / of the handshake / of an earlier session with
// the same identities, truncation inside a frame or at a frame boundary, appended or inserted garbage, a single
// inserted or deleted byte), the re-segmentation of the delivery and the reader's buffer sizes.
// Oracle (independent of the edit kind): let k be the number of leading sealed frames of the delivered stream that
// are byte-identical to what the writer produced. The reader must return exactly the plaintext of those k frames
// and then an error, with no bytes accompanying the error. Reads issued after that error (real callers never do
// that) may only ever continue the same in-order plaintext. The receive counter ends at 1+k, the send counter at
// 1+frames written.
func TestStreamEdits(t *testing.T) {
	rapid.Check(t, func(t *rapid.T) {
		ia := rapid.IntRange(0, 5).Draw(t, "idA")
		ib := (ia + 1 + rapid.IntRange(0, 4).Draw(t, "idB")) % 6 // a different identity
		eph := drawEphDistinct(t, 4, "eph")
		dir := rapid.IntRange(0, 1).Draw(t, "dir")
		plan := genDir(t, "w", 12_000)
		if rapid.IntRange(0, 9).Draw(t, "long") == 0 {
			plan.writes = append(plan.writes, 65536)
		}
		if sum(plan.writes) == 0 && rapid.IntRange(0, 9).Draw(t, "allowEmpty") != 0 {
			plan.writes = append(plan.writes, rapid.SampledFrom([]int{1, 1024, 1025, 3000}).Draw(t, "atLeast"))
		}
		revWrites := rapid.IntRange(0, 4).Draw(t, "revFrames")
		nEdits := rapid.SampledFrom([]int{1, 1, 1, 2, 3}).Draw(t, "nEdits")
		kinds := make([]string, nEdits)
		for i := range kinds {
			kinds[i] = rapid.SampledFrom(editKinds).Draw(t, "kind")
		}

		env := newCaseEnv()
		defer env.finish(t)

		// optional earlier session between the same identities (material for cross-session replay)
		var oldFrames [][]byte
		for _, k := range kinds {
			if k == "replay-old-session" && oldFrames == nil {
				oa, ob, oAB, oBA := honestPair(t, env, lib.Key(ia), lib.Key(ib), eph[2], eph[3])
				ow := [2]*honestEnd{oa, ob}[dir]
				if _, err := ow.res.sc.Write(pattern(byte(dir), plan.mode, plan.fill, 0, 3000)); err != nil {
					t.Fatalf("earlier session write: %v", err)
				}
				oldFrames = append(oldFrames, [2][]byte{oAB, oBA}[dir])
				oldFrames = append(oldFrames, framesOf(ow.c.out.Drain())...)
			}
		}

		a, b, authAB, authBA := honestPair(t, env, lib.Key(ia), lib.Key(ib), eph[0], eph[1])
		w, r := [2]*honestEnd{a, b}[dir], [2]*honestEnd{a, b}[1-dir]
		ownAuth := [2][]byte{authAB, authBA}[dir]

		// long-lived link: a few early frames (nonces 1..p, recorded by the adversary), then both ends of this direction
		// are fast-forwarded to a counter just below a power-of-two boundary which the frames of the case cross
		base, baseKind := drawBase(t, "base", len(expectedChunks(plan.writes))+4)
		earlyFrames := [][]byte{ownAuth}
		if nEarly := rapid.IntRange(0, 4).Draw(t, "earlyFrames"); base > uint64(nEarly)+1 {
			for i := 0; i < nEarly; i++ {
				if _, err := w.res.sc.Write(pattern(byte(dir)+5, plan.mode, plan.fill, i*refDataMax, refDataMax)); err != nil {
					t.Fatalf("early write: %v", err)
				}
			}
			earlyFrames = append(earlyFrames, framesOf(w.c.out.Drain())...)
			jump(w, r, base)
		} else {
			base, baseKind = 1, "none"
		}

		// reverse direction traffic (captured, never delivered): material for cross-direction replay
		for i := 0; i < revWrites; i++ {
			if _, err := r.res.sc.Write(pattern(byte(dir), plan.mode, plan.fill, i*refDataMax, refDataMax)); err != nil {
				t.Fatalf("reverse write: %v", err)
			}
		}
		revFrames := append([][]byte{[2][]byte{authAB, authBA}[1-dir]}, framesOf(r.c.out.Drain())...)

		// the writer writes everything; nothing is delivered yet
		off := 0
		for _, sz := range plan.writes {
			n, err := w.res.sc.Write(pattern(byte(dir), plan.mode, plan.fill, off, sz))
			if err != nil || n != sz {
				t.Fatalf("Write(%d) = %d, %v", sz, n, err)
			}
			off += sz
		}
		orig := w.c.out.Drain()
		want := pattern(byte(dir), plan.mode, plan.fill, 0, off)
		chunks := expectedChunks(plan.writes)
		if len(orig) != len(chunks)*refSealed {
			t.Fatalf("writer produced %d bytes for %d expected frames", len(orig), len(chunks))
		}
		m := len(chunks)

		// ---- apply the edits ----
		fs := framesOf(append([]byte(nil), orig...))
		var tail []byte // bytes after the last whole frame
		cut := -1       // truncate the final stream at this byte offset
		applied := []string{}
		pick := func(label string, n int) int { return rapid.IntRange(0, n-1).Draw(t, label) }
		for _, k := range kinds {
			n := len(fs)
			ok := true
			switch k {
			case "none":
			case "flip":
				if ok = n > 0; ok {
					i := pick("flip.frame", n)
					pos := rapid.SampledFrom([]int{0, 1, 3, 4, 5, 500, 1027, 1028, 1029, 1043, -1}).Draw(t, "flip.pos")
					if pos < 0 {
						pos = pick("flip.anypos", refSealed)
					}
					f := append([]byte(nil), fs[i]...)
					f[pos] ^= 1 << uint(pick("flip.bit", 8))
					fs[i] = f
				}
			case "swap":
				if ok = n > 1; ok {
					i := pick("swap.i", n-1)
					j := i + 1 + pick("swap.d", n-1-i)
					fs[i], fs[j] = fs[j], fs[i]
				}
			case "drop":
				if ok = n > 0; ok {
					i := pick("drop.i", n)
					fs = append(fs[:i:i], fs[i+1:]...)
				}
			case "dup-adjacent":
				if ok = n > 0; ok {
					i := pick("dup.i", n)
					fs = append(fs[:i+1:i+1], append([][]byte{fs[i]}, fs[i+1:]...)...)
				}
			case "dup-later":
				if ok = n > 0; ok {
					i := pick("dupl.i", n)
					j := i + 1 + pick("dupl.j", n-i)
					fs = append(fs[:j:j], append([][]byte{fs[i]}, fs[j:]...)...)
				}
			case "move-to-end":
				if ok = n > 1; ok {
					i := pick("mv.i", n-1)
					f := fs[i]
					fs = append(append(fs[:i:i], fs[i+1:]...), f)
				}
			case "replay-other-direction-insert", "replay-other-direction-replace":
				i := pick("rev.at", n+1)
				src := i + 1 // the frame of the other direction sealed under the nonce the reader expects here
				if src >= len(revFrames) || rapid.Bool().Draw(t, "rev.any") {
					src = pick("rev.src", len(revFrames))
				}
				if k == "replay-other-direction-insert" || i == n {
					fs = append(fs[:i:i], append([][]byte{revFrames[src]}, fs[i:]...)...)
				} else {
					fs[i] = revFrames[src]
				}
			case "replay-pre-jump-frame":
				// a frame recorded at the start of the session (nonce j), placed where the reader's counter, reduced
				// modulo some power of two, equals j - if the case has such a position; else anywhere
				type cand struct{ i, j int }
				var cands []cand
				for i := 0; i <= n; i++ {
					for _, bits := range []uint{8, 16, 24, 31, 32, 40, 48, 56, 63} {
						if j := (base + uint64(i)) & (1<<bits - 1); j < uint64(len(earlyFrames)) {
							cands = append(cands, cand{i, int(j)})
						}
					}
				}
				i, j := pick("pre.at", n+1), pick("pre.src", len(earlyFrames))
				if len(cands) > 0 && rapid.IntRange(0, 3).Draw(t, "pre.aligned") != 0 {
					c := cands[pick("pre.cand", len(cands))]
					i, j = c.i, c.j
				}
				if i == n || rapid.Bool().Draw(t, "pre.insert") {
					fs = append(fs[:i:i], append([][]byte{earlyFrames[j]}, fs[i:]...)...)
				} else {
					fs[i] = earlyFrames[j]
				}
			case "replay-own-auth":
				i := pick("auth.at", n+1)
				fs = append(fs[:i:i], append([][]byte{ownAuth}, fs[i:]...)...)
			case "replay-earlier-frame-replace":
				if ok = n > 1; ok {
					i := 1 + pick("early.i", n-1)
					fs[i] = fs[pick("early.src", i)]
				}
			case "replay-old-session":
				i := pick("old.at", n+1)
				src := i + 1 // same position in the earlier session
				if src >= len(oldFrames) || rapid.Bool().Draw(t, "old.any") {
					src = pick("old.src", len(oldFrames))
				}
				if i == n || rapid.Bool().Draw(t, "old.insert") {
					fs = append(fs[:i:i], append([][]byte{oldFrames[src]}, fs[i:]...)...)
				} else {
					fs[i] = oldFrames[src]
				}
			case "truncate-mid-frame":
				if ok = n > 0; ok {
					cut = pick("cut.frame", n)*refSealed + 1 + pick("cut.off", refSealed-1)
				}
			case "truncate-at-boundary":
				if ok = n > 0; ok {
					cut = pick("cutb.frame", n) * refSealed
				}
			case "append-garbage-short":
				tail = append(tail, rapid.SliceOfN(rapid.Byte(), 1, refSealed-1).Draw(t, "garbage.short")...)
			case "append-garbage-frame":
				tail = append(tail, rapid.SliceOfN(rapid.Byte(), refSealed, refSealed+50).Draw(t, "garbage.frame")...)
			case "insert-garbage-frame":
				i := pick("ins.at", n+1)
				g := rapid.SliceOfN(rapid.Byte(), refSealed, refSealed).Draw(t, "ins.garbage")
				fs = append(fs[:i:i], append([][]byte{g}, fs[i:]...)...)
			case "zero-frame":
				i := pick("zero.at", n+1)
				fs = append(fs[:i:i], append([][]byte{make([]byte, refSealed)}, fs[i:]...)...)
			case "insert-byte", "delete-byte":
				// handled on the byte stream below
			}
			if ok {
				applied = append(applied, k)
			}
		}
		delivered := append(joinFrames(fs), tail...)
		for _, k := range kinds {
			switch k {
			case "insert-byte":
				at := pick("insb.at", len(delivered)+1)
				delivered = append(delivered[:at:at], append([]byte{rapid.Byte().Draw(t, "insb.b")}, delivered[at:]...)...)
			case "delete-byte":
				if len(delivered) > 0 {
					at := pick("delb.at", len(delivered))
					delivered = append(delivered[:at:at], delivered[at+1:]...)
				}
			}
		}
		if cut >= 0 && cut < len(delivered) {
			delivered = delivered[:cut]
		}

		// ---- independent expectation: number of intact leading frames ----
		k := firstDiff(delivered, orig) / refSealed
		reached := !bytes.Equal(delivered, orig)
		expLen := sum(chunks[:k])
		expect := want[:expLen]

		// deliver (re-segmented) and close
		segs := plan.chunks
		for i, p := 0, 0; p < len(delivered); i++ {
			n := segs[i%len(segs)]
			if p+n > len(delivered) {
				n = len(delivered) - p
			}
			r.c.in.Write(delivered[p : p+n])
			p += n
		}
		r.c.in.Close()

		got, err, dataWithErr := readAll(r.res.sc, plan.reads)
		// reads after the error: a caller that ignores the error must still never see altered / out-of-order plaintext
		var after []byte
		buf := make([]byte, 2048)
		for i := 0; i < 6; i++ {
			n, _ := r.res.sc.Read(buf)
			after = append(after, buf[:n]...)
		}

		where := "none"
		if reached {
			switch {
			case k == 0:
				where = "first"
			case k >= m:
				where = "beyond-last"
			case k == m-1:
				where = "last"
			default:
				where = "middle"
			}
		}
		errClass := "other"
		switch {
		case err == io.EOF:
			errClass = "EOF"
		case err == io.ErrUnexpectedEOF:
			errClass = "unexpectedEOF"
		case err != nil && strings.Contains(err.Error(), "decrypt"):
			errClass = "decrypt"
		}
		cls := []string{"first-edited-frame:" + where, "error:" + errClass, fmt.Sprintf("edit-reached-reader:%v", reached),
			fmt.Sprintf("frames:%s", bucket(m)), fmt.Sprintf("plaintext-after-error:%v", len(after) > 0),
			"counter-start:" + baseKind, "counter-crosses:" + crossed(base, m)}
		for _, a := range applied {
			cls = append(cls, "edit:"+a)
			if reached {
				cls = append(cls, "edit-reached:"+a)
			}
		}
		lib.Case("TestStreamEdits", lib.FP(plan.writes, kinds, k, len(delivered), firstDiff(delivered, orig), plan.reads, dir, base), reached, cls...)
		if reached && lib.WantSample("TestStreamEdits") {
			lib.Sample("TestStreamEdits", map[string]interface{}{"writes": plan.writes, "frames": m, "edits": applied, "intact leading frames": k,
				"delivered bytes": len(delivered), "original bytes": len(orig), "plaintext read": len(got), "error": fmt.Sprint(err), "read after error": len(after)})
		}

		desc := fmt.Sprintf("writes=%v frames=%d counter-start=%d edits=%v delivered=%d/%d bytes intact-leading-frames=%d reads=%v", plan.writes, m, base, applied, len(delivered), len(orig), k, plan.reads)
		if !bytes.Equal(got, expect) {
			if len(got) > len(expect) && bytes.Equal(got[:len(expect)], expect) {
				t.Fatalf("reader yielded %d bytes beyond the first edited frame (expected %d, got %d): %s", len(got)-len(expect), len(expect), len(got), desc)
			}
			if len(got) < len(expect) && bytes.Equal(got, expect[:len(got)]) {
				t.Fatalf("reader failed before the first edited frame: got %d of %d bytes, err=%v: %s", len(got), len(expect), err, desc)
			}
			t.Fatalf("reader yielded altered plaintext at offset %d (got %d bytes, expected %d): %s", firstDiff(got, expect), len(got), len(expect), desc)
		}
		if err == nil {
			t.Fatalf("reader did not fail: %s", desc)
		}
		if dataWithErr {
			t.Fatalf("Read returned data together with error %v: %s", err, desc)
		}
		if reached && k < m && errClass == "EOF" && len(delivered) > k*refSealed {
			t.Fatalf("reader reported a clean EOF although %d undelivered-as-plaintext bytes followed the intact prefix: %s", len(delivered)-k*refSealed, desc)
		}
		// after the error: whatever comes must extend the correct in-order plaintext
		if all := append(append([]byte(nil), got...), after...); len(all) > len(want) || !bytes.Equal(all, want[:len(all)]) {
			t.Fatalf("reads after the error yielded plaintext that is not the in-order continuation: %s", desc)
		}
		// counters
		if c := w.res.sc.VerifC16SendCounter(); c != base+uint64(m) {
			t.Fatalf("send counter %d after %d data frames starting at counter %d: %s", c, m, base, desc)
		}
		if len(after) == 0 {
			if c := r.res.sc.VerifC16RecvCounter(); c != base+uint64(k) {
				t.Fatalf("receive counter %d, expected %d (start %d + %d intact frames): %s", c, base+uint64(k), base, k, desc)
			}
		}
	})
}

var hostileLengths = []uint32{1025, 1028, 1029, 2043, 2044, 2045, 2048, 4096, 65536, 0x7fffffff, 0x80000000, 0xffffffff}

// TestHostilePeerFrames — an authenticated but malicious peer (the adversary terminates the session itself with
// its own long-term key, using the reference model) sends well-formed sealed frames whose length prefix exceeds the
// payload area. Oracle: the reader returns exactly the payloads of the valid frames before the first hostile one,
// then an error with no data — never bytes the peer did not write, never a panic. Also cross-validates the
// reference model against the real implementation in both directions (handshake + frames).
func TestHostilePeerFrames(t *testing.T) {
	rapid.Check(t, func(t *rapid.T) {
		ia := rapid.IntRange(0, 5).Draw(t, "idA")
		eph := drawEphDistinct(t, 2, "eph")
		nItems := rapid.IntRange(1, 8).Draw(t, "items")
		type item struct {
			hostile bool
			length  uint32
			n       int
		}
		items := make([]item, nItems)
		firstHostile := -1
		for i := range items {
			if rapid.IntRange(0, 3).Draw(t, "hostile") == 0 {
				items[i] = item{hostile: true, length: rapid.SampledFrom(hostileLengths).Draw(t, "len")}
				if firstHostile < 0 {
					firstHostile = i
				}
			} else {
				items[i] = item{n: rapid.SampledFrom([]int{0, 1, 7, 512, 1023, 1024}).Draw(t, "n")}
			}
		}
		reads := genSizes(t, "r", readSizes, 1, 5)
		echo := rapid.IntRange(0, 3000).Draw(t, "echo")

		env := newCaseEnv()
		defer env.finish(t)
		feed.reset()
		adv := lib.Key(advKeyIdx)
		a, msgA, err := startEnd("A", lib.Key(ia), eph[0], &env.wg)
		env.wd.add(a.c)
		if err != nil {
			t.Fatalf("no ephemeral key from A: %v", err)
		}
		val, _, perr := refParseEph(msgA)
		if perr != nil || !bytes.Equal(val, a.ephPub[:]) {
			t.Fatalf("A's ephemeral message: %v %x", perr, msgA)
		}
		sess, err := newRefSession(eph[1], a.ephPub)
		if err != nil {
			t.Fatalf("ref session: %v", err)
		}
		a.c.in.Write(refEphMsg(sess.locPub[:]))
		// the adversary's stream towards A: auth message, then the items
		stream := sess.sealStream(refAuthMsg(pubOf(adv), refSign(rawKey(adv), sess.challenge[:])))
		var expect []byte
		off := 0
		for i, it := range items {
			if it.hostile {
				frame := make([]byte, refFrameSize)
				binary.LittleEndian.PutUint32(frame, it.length)
				for j := 4; j < len(frame); j++ {
					frame[j] = 0x5a
				}
				stream = append(stream, sess.sealRaw(frame)...)
			} else {
				p := pattern(9, 0, 0, off, it.n)
				off += it.n
				stream = append(stream, sess.seal(p)...)
				if firstHostile < 0 || i < firstHostile {
					expect = append(expect, p...)
				}
			}
		}
		a.c.in.Write(stream)
		a.c.in.Close()
		res := a.wait()
		if res.err != nil {
			t.Fatalf("handshake with a correctly behaving reference peer failed: %v", res.err)
		}
		if !bytes.Equal(res.sc.RemotePubKey().Bytes(), pubOf(adv)) {
			t.Fatalf("RemotePubKey is not the key that signed")
		}
		// A's auth frame must open under the reference model and verify over the reference challenge
		authFrame, err := a.c.out.ReadN(refSealed)
		if err != nil {
			t.Fatalf("A's auth frame missing")
		}
		plain, err := sess.open(authFrame)
		if err != nil {
			t.Fatalf("A's auth frame does not open under the reference keys: %v", err)
		}
		pub, sig, _, err := refParseAuth(plain)
		if err != nil || !bytes.Equal(pub, pubOf(lib.Key(ia))) || !refVerify(pub, sess.challenge[:], sig) {
			t.Fatalf("A's auth message is not (A's key, signature over the reference challenge): %v", err)
		}
		// A -> reference: frames open in order
		msg := pattern(3, 0, 0, 0, echo)
		if n, err := res.sc.Write(msg); err != nil || n != echo {
			t.Fatalf("Write: %d %v", n, err)
		}
		var back []byte
		for _, f := range framesOf(a.c.out.Drain()) {
			c, err := sess.open(f)
			if err != nil {
				t.Fatalf("A's data frame does not open under the reference keys: %v", err)
			}
			back = append(back, c...)
		}
		if !bytes.Equal(back, msg) {
			t.Fatalf("reference model read %d bytes of %d written by A", len(back), len(msg))
		}

		got, rerr, dataWithErr := readAll(res.sc, reads)
		cls := []string{fmt.Sprintf("hostile-present:%v", firstHostile >= 0)}
		if firstHostile >= 0 {
			cls = append(cls, fmt.Sprintf("hostile-len:%d", items[firstHostile].length), fmt.Sprintf("valid-frames-before:%s", bucket(firstHostile)))
		}
		lib.Case("TestHostilePeerFrames", lib.FP(items, reads), firstHostile >= 0, cls...)
		if !bytes.Equal(got, expect) || dataWithErr {
			t.Fatalf("reader returned %d bytes (expected %d, first difference at %d, data with error %v): items=%v reads=%v err=%v", len(got), len(expect), firstDiff(got, expect), dataWithErr, items, reads, rerr)
		}
		if rerr == nil {
			t.Fatalf("reader did not fail")
		}
		if firstHostile < 0 && rerr != io.EOF {
			t.Fatalf("reader ended with %v on a well-formed stream", rerr)
		}
		if firstHostile >= 0 && rerr == io.EOF {
			t.Fatalf("frame with length prefix %d was skipped silently", items[firstHostile].length)
		}
	})
}
