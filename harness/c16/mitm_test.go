package c16

import (
	"bytes"
	"fmt"
	"testing"

	"github.com/tendermint/tendermint/crypto/ed25519"
	"pgregory.net/rapid"

	"verif/lib"
)

const knownSmallOrderIdentity = "C16-small-order-identity"
const knownIdentityReflection = "C16-identity-reflection"

type want int

const (
	wantAny  want = iota // only the generic oracle applies
	wantPeer             // must succeed with the honest peer's key
	wantAdv              // must succeed with the adversary's own key (a visible man in the middle)
	wantFail             // must fail
)

func (w want) String() string { return [...]string{"any", "peer", "adversary", "fail"}[w] }

var mitmScenarios = []string{
	"relay", "relay",
	"eph-bitflip", "eph-pad33", "eph-trunc31", "eph-empty",
	"loworder-one", "loworder-both", "loworder-with-own-auth",
	"reflect-eph-and-auth", "mitm-reflect-victim-auth", "mitm-reflect-victim-auth", "relay-same-identity", "auth-swap-back", "auth-bitflip", "auth-drop", "auth-truncate",
	"auth-replay-old-ciphertext", "auth-own-then-peer",
	"mitm-own-key", "mitm-own-key", "mitm-own-key-split-auth", "mitm-relay-peer-sig", "mitm-replay-old-sig",
	"mitm-third-party-key-own-sig", "mitm-garbage-sig", "mitm-sig-other-session", "mitm-short-key", "mitm-short-sig",
	"mitm-one-sided", "mitm-same-eph-relay-ciphertext", "mitm-peer-key-peer-sig-other-challenge",
	"mitm-small-order-identity", "mitm-small-order-identity",
}

// endView is everything the oracle knows about one honest end: its secrets and exactly the bytes it was given.
type endView struct {
	e        *honestEnd
	peerKey  ed25519.PrivKey
	ephGiven []byte // delivered ephemeral message bytes (nil: nothing delivered)
	authIn   []byte // delivered bytes after the ephemeral message
	want     want
}

// remoteEph mirrors how a 32-byte key is taken from a BytesValue: first 32 bytes, zero padded.
func remoteEph(msg []byte) ([32]byte, bool) {
	var k [32]byte
	v, _, err := refParseEph(msg)
	if err != nil {
		return k, false
	}
	copy(k[:], v)
	return k, true
}

// advTerminate builds the adversary's side of a session with an honest end whose ephemeral public key is pub.
func advTerminate(t *rapid.T, advEph [32]byte, pub [32]byte) *refSession {
	s, err := newRefSession(advEph, pub)
	if err != nil {
		t.Fatalf("adversary reference session: %v", err)
	}
	return s
}

// recordOldSession runs a complete earlier session between a real end with identity victim and the adversary as
// its (legitimate) peer, and returns the victim's authentication data: plaintext (key, signature over the OLD
// challenge) and the sealed frame.
func recordOldSession(t *rapid.T, env *caseEnv, victim ed25519.PrivKey, vEph, advEph [32]byte) (pub, sig, sealed []byte) {
	v, msg, err := startEnd("V", victim, vEph, &env.wg)
	env.wd.add(v.c)
	if err != nil {
		t.Fatalf("earlier session: %v", err)
	}
	_ = msg
	s := advTerminate(t, advEph, v.ephPub)
	adv := lib.Key(advKeyIdx)
	v.c.in.Write(refEphMsg(s.locPub[:]))
	v.c.in.Write(s.sealStream(refAuthMsg(pubOf(adv), refSign(rawKey(adv), s.challenge[:]))))
	sealed, err = v.c.out.ReadN(refSealed)
	if err != nil {
		t.Fatalf("earlier session: victim sent no auth frame: %v", v.wait().err)
	}
	if r := v.wait(); r.err != nil {
		t.Fatalf("earlier session failed: %v", r.err)
	}
	plain, err := s.open(sealed)
	if err != nil {
		t.Fatalf("earlier session: auth frame does not open: %v", err)
	}
	pub, sig, _, err = refParseAuth(plain)
	if err != nil || !refVerify(pub, s.challenge[:], sig) {
		t.Fatalf("earlier session: victim's auth message invalid: %v", err)
	}
	return pub, sig, sealed
}

// TestHandshakeMITM — mode (2): the adversary substitutes / relays / replays the handshake messages.
//
// Generated: identities, all ephemeral keys (honest and adversarial), one of 27 scenarios and its parameters (which
// side is attacked, which low-order point, which bit). Oracle, per honest end E, recomputed by the reference model
// from E's ephemeral private key and exactly the bytes E was given:
//   * E was given a low-order point, or nothing usable  => E fails;
//   * E succeeds => the auth message E was given (decrypted by the oracle) carries RemotePubKey() and a signature
//     that verifies (stdlib ed25519) over E's own session challenge, and that key is either the adversary's own or
//     the honest peer's while the peer is in the very same session (equal challenge) — never any other key;
//   * scenario-specific expectation: untampered relay => both succeed with the peer's key; the adversary acting as
//     a correct peer with its own key on both sides => both succeed and see the adversary's key, not each other's;
//     every substitution / replay of somebody else's signature => failure.
func TestHandshakeMITM(t *testing.T) {
	rapid.Check(t, func(t *rapid.T) {
		scen := rapid.SampledFrom(mitmScenarios).Draw(t, "scenario")
		ia := rapid.IntRange(0, 5).Draw(t, "idA")
		ib := (ia + 1 + rapid.IntRange(0, 4).Draw(t, "idB")) % 6 // a different identity
		if scen == "relay-same-identity" {
			ib = ia
		}
		eph := drawEphDistinct(t, 6, "eph") // 0,1: A,B; 2,3: adversary; 4,5: earlier session
		side := rapid.IntRange(0, 1).Draw(t, "side") // which end is attacked where a scenario is one-sided
		adv := lib.Key(advKeyIdx)
		keys := [2]ed25519.PrivKey{lib.Key(ia), lib.Key(ib)}

		env := newCaseEnv()
		defer env.finish(t)
		feed.reset()

		var oldPub, oldSig, oldSealed []byte
		switch scen {
		case "auth-replay-old-ciphertext", "mitm-replay-old-sig":
			// the victim of the replay is the identity of the honest peer of the attacked side
			oldPub, oldSig, oldSealed = recordOldSession(t, env, keys[1-side], eph[4], eph[5])
		}

		var ends [2]*honestEnd
		var ephMsg [2][]byte
		for i := 0; i < 2; i++ {
			e, msg, err := startEnd([]string{"A", "B"}[i], keys[i], eph[i], &env.wg)
			env.wd.add(e.c)
			if err != nil {
				t.Fatalf("end %d sent no ephemeral key: %v", i, err)
			}
			ends[i], ephMsg[i] = e, msg
		}
		views := [2]*endView{{e: ends[0], peerKey: keys[1]}, {e: ends[1], peerKey: keys[0]}}
		att, oth := views[side], views[1-side]
		_ = oth

		// ---- phase 1: what each end receives as the remote ephemeral key ----
		var advSess [2]*refSession // adversary-terminated session towards end i
		relayEph := func(i int) { views[i].ephGiven = ephMsg[1-i] }
		ownEph := func(i int, k [32]byte) {
			advSess[i] = advTerminate(t, k, ends[i].ephPub)
			views[i].ephGiven = refEphMsg(advSess[i].locPub[:])
		}
		detail := ""
		switch scen {
		case "relay", "relay-same-identity", "auth-swap-back", "auth-bitflip", "auth-drop", "auth-truncate", "auth-replay-old-ciphertext", "auth-own-then-peer":
			relayEph(0)
			relayEph(1)
		case "eph-bitflip":
			relayEph(0)
			relayEph(1)
			m := append([]byte(nil), att.ephGiven...)
			pos := 3 + rapid.IntRange(0, 31).Draw(t, "flip.pos")
			bit := rapid.IntRange(0, 7).Draw(t, "flip.bit")
			detail = fmt.Sprintf("%d.%d", pos, bit) // pos 34 bit 7 is bit 255: ignored by X25519, still part of the transcript
			m[pos] ^= 1 << uint(bit)
			att.ephGiven = m
		case "eph-pad33":
			relayEph(0)
			relayEph(1)
			att.ephGiven = refEphMsg(append(append([]byte(nil), ends[1-side].ephPub[:]...), rapid.Byte().Draw(t, "pad")))
		case "eph-trunc31":
			relayEph(0)
			relayEph(1)
			att.ephGiven = refEphMsg(ends[1-side].ephPub[:31])
		case "eph-empty":
			relayEph(0)
			relayEph(1)
			att.ephGiven = refEphMsg(nil)
		case "loworder-one", "loworder-with-own-auth":
			relayEph(0)
			relayEph(1)
			p := rapid.SampledFrom(lowOrderPoints).Draw(t, "lowpoint")
			att.ephGiven = refEphMsg(p[:])
			detail = fmt.Sprintf("%x", p[:2])
		case "loworder-both":
			p := rapid.SampledFrom(lowOrderPoints).Draw(t, "lowpoint")
			q := p
			if rapid.Bool().Draw(t, "different") {
				q = rapid.SampledFrom(lowOrderPoints).Draw(t, "lowpoint2")
			}
			views[0].ephGiven, views[1].ephGiven = refEphMsg(p[:]), refEphMsg(q[:])
		case "reflect-eph-and-auth":
			views[0].ephGiven, views[1].ephGiven = ephMsg[0], ephMsg[1]
		case "mitm-one-sided":
			relayEph(1 - side)
			ownEph(side, eph[2])
		case "mitm-same-eph-relay-ciphertext":
			ownEph(0, eph[2])
			ownEph(1, eph[2])
		default: // full man in the middle with two different ephemeral keys
			ownEph(0, eph[2])
			ownEph(1, eph[3])
		}
		for i := 0; i < 2; i++ {
			ends[i].c.in.Write(views[i].ephGiven)
		}

		// ---- phase 2: auth frames ----
		var authOut [2][]byte
		for i := 0; i < 2; i++ {
			authOut[i], _ = ends[i].c.out.ReadN(refSealed) // short/empty when the end already failed (low-order point)
		}
		advAuth := func(i int, pub, sig []byte) []byte { return advSess[i].sealStream(refAuthMsg(pub, sig)) }
		ownAuth := func(i int) []byte { return advAuth(i, pubOf(adv), refSign(rawKey(adv), advSess[i].challenge[:])) }
		// peerAuthPlain: what the honest end j said in its session with the adversary
		peerAuthPlain := func(j int) (pub, sig []byte) {
			if len(authOut[j]) != refSealed {
				t.Fatalf("end %d sent no auth frame in scenario %s", j, scen)
			}
			plain, err := advSess[j].open(authOut[j])
			if err != nil {
				t.Fatalf("adversary cannot open end %d's auth frame with the reference keys: %v", j, err)
			}
			pub, sig, _, err = refParseAuth(plain)
			if err != nil {
				t.Fatalf("end %d's auth message: %v", j, err)
			}
			return
		}
		keepOpen := false
		switch scen {
		case "relay":
			views[0].authIn, views[1].authIn = authOut[1], authOut[0]
			views[0].want, views[1].want = wantPeer, wantPeer
			keepOpen = true
		case "eph-bitflip", "eph-trunc31", "eph-empty", "eph-pad33":
			views[0].authIn, views[1].authIn = authOut[1], authOut[0]
			if scen == "eph-bitflip" || scen == "eph-empty" {
				views[0].want, views[1].want = wantFail, wantFail
			}
		case "loworder-one":
			views[0].authIn, views[1].authIn = authOut[1], authOut[0]
			views[0].want, views[1].want = wantFail, wantFail
		case "loworder-with-own-auth":
			// the session secret of a low-order exchange is public: the adversary can compute everything without any
			// ephemeral private key and authenticates with its own key. The attacked end must nevertheless refuse.
			var pt [32]byte
			pt, _ = remoteEph(att.ephGiven)
			if s := lowOrderSession(ends[side].ephPub, pt); s != nil {
				att.authIn = s.sealStream(refAuthMsg(pubOf(adv), refSign(rawKey(adv), s.challenge[:])))
			}
			oth.authIn = authOut[side]
			views[0].want, views[1].want = wantFail, wantFail
		case "loworder-both":
			for i := 0; i < 2; i++ {
				pt, _ := remoteEph(views[i].ephGiven)
				if s := lowOrderSession(ends[i].ephPub, pt); s != nil {
					views[i].authIn = s.sealStream(refAuthMsg(pubOf(adv), refSign(rawKey(adv), s.challenge[:])))
				}
				views[i].want = wantFail
			}
		case "reflect-eph-and-auth", "auth-swap-back":
			views[0].authIn, views[1].authIn = authOut[0], authOut[1]
			views[0].want, views[1].want = wantFail, wantFail
		case "auth-bitflip":
			views[0].authIn, views[1].authIn = authOut[1], authOut[0]
			f := append([]byte(nil), att.authIn...)
			f[rapid.IntRange(0, refSealed-1).Draw(t, "flip.pos")] ^= 1 << uint(rapid.IntRange(0, 7).Draw(t, "flip.bit"))
			att.authIn = f
			att.want, oth.want = wantFail, wantPeer
		case "auth-drop":
			oth.authIn = authOut[side]
			att.want, oth.want = wantFail, wantPeer
		case "auth-truncate":
			views[0].authIn, views[1].authIn = authOut[1], authOut[0]
			att.authIn = att.authIn[:rapid.IntRange(1, refSealed-1).Draw(t, "cut")]
			att.want, oth.want = wantFail, wantPeer
		case "auth-replay-old-ciphertext":
			oth.authIn = authOut[side]
			att.authIn = oldSealed
			att.want, oth.want = wantFail, wantPeer
		case "auth-own-then-peer":
			// the attacked end gets the peer's auth frame behind a copy of its own (a frame under the wrong key first)
			oth.authIn = authOut[side]
			att.authIn = append(append([]byte(nil), authOut[side]...), authOut[1-side]...)
			att.want, oth.want = wantFail, wantPeer
		case "mitm-own-key":
			for j := 0; j < 2; j++ { // the adversary reads both ends' auth messages: genuine keys, signatures over each session's challenge
				pub, sig := peerAuthPlain(j)
				if !bytes.Equal(pub, pubOf(keys[j])) || !refVerify(pub, advSess[j].challenge[:], sig) {
					t.Fatalf("end %d's auth message is not (its key, signature over the reference challenge)", j)
				}
			}
			views[0].authIn, views[1].authIn = ownAuth(0), ownAuth(1)
			views[0].want, views[1].want = wantAdv, wantAdv
			keepOpen = true
		case "mitm-own-key-split-auth":
			msg := refAuthMsg(pubOf(adv), refSign(rawKey(adv), advSess[side].challenge[:]))
			cutAt := rapid.IntRange(1, len(msg)-1).Draw(t, "split")
			att.authIn = append(advSess[side].seal(msg[:cutAt]), advSess[side].seal(msg[cutAt:])...)
			oth.authIn = ownAuth(1 - side)
			views[0].want, views[1].want = wantAdv, wantAdv
		case "mitm-relay-peer-sig":
			pub, sig := peerAuthPlain(1 - side)
			att.authIn = advAuth(side, pub, sig)
			oth.authIn = ownAuth(1 - side)
			att.want, oth.want = wantFail, wantAdv
		case "mitm-replay-old-sig":
			att.authIn = advAuth(side, oldPub, oldSig)
			oth.authIn = ownAuth(1 - side)
			att.want, oth.want = wantFail, wantAdv
		case "mitm-third-party-key-own-sig":
			att.authIn = advAuth(side, pubOf(keys[1-side]), refSign(rawKey(adv), advSess[side].challenge[:]))
			oth.authIn = ownAuth(1 - side)
			att.want, oth.want = wantFail, wantAdv
		case "mitm-garbage-sig":
			att.authIn = advAuth(side, pubOf(adv), rapid.SliceOfN(rapid.Byte(), 64, 64).Draw(t, "sig"))
			oth.authIn = ownAuth(1 - side)
			att.want, oth.want = wantFail, wantAdv
		case "mitm-sig-other-session":
			att.authIn = advAuth(side, pubOf(adv), refSign(rawKey(adv), advSess[1-side].challenge[:]))
			oth.authIn = ownAuth(1 - side)
			att.want, oth.want = wantFail, wantAdv
		case "mitm-peer-key-peer-sig-other-challenge":
			// the peer's genuine signature, but over the challenge of the peer<->adversary session, presented with a
			// fresh encryption — same as relay-peer-sig except the key field is re-encoded by the adversary
			pub, sig := peerAuthPlain(1 - side)
			att.authIn = advAuth(side, append([]byte(nil), pub...), append([]byte(nil), sig...))
			oth.authIn = advAuth(1-side, pubOf(adv), refSign(rawKey(adv), advSess[1-side].challenge[:]))
			att.want, oth.want = wantFail, wantAdv
		case "mitm-short-key":
			att.authIn = advAuth(side, pubOf(adv)[:rapid.IntRange(0, 31).Draw(t, "klen")], refSign(rawKey(adv), advSess[side].challenge[:]))
			oth.authIn = ownAuth(1 - side)
			att.want, oth.want = wantFail, wantAdv
		case "relay-same-identity":
			// two ends configured with the same long-term key: the peer does hold the key it presents, so success is
			// allowed, but nothing obliges an implementation to accept a peer that presents the local identity
			views[0].authIn, views[1].authIn = authOut[1], authOut[0]
		case "mitm-reflect-victim-auth":
			// the adversary holds NO long-term key: honest ephemeral exchange with its own ephemeral key, then it
			// decrypts the victim's auth message and sends exactly that (victim's key, victim's signature over the
			// session challenge, which is the same for both roles) back under the other direction's key
			pub, sig := peerAuthPlain(side)
			att.authIn = advAuth(side, pub, sig)
			oth.authIn = ownAuth(1 - side)
			att.want, oth.want = wantFail, wantAdv
		case "mitm-small-order-identity":
			// an identity nobody holds a private key for: a small-order ed25519 point, with a signature made of public
			// constants (R small order, S = 0) chosen - by public computation only - so that it verifies
			id := rapid.SampledFrom(smallOrderEd).Draw(t, "identity")
			sig, verifies := degenerateSig(id[:], advSess[side].challenge[:])
			detail = fmt.Sprintf("%x/%v", id[:2], verifies)
			att.authIn = advAuth(side, id[:], sig)
			oth.authIn = ownAuth(1 - side)
			att.want, oth.want = wantFail, wantAdv
		case "mitm-short-sig":
			att.authIn = advAuth(side, pubOf(adv), refSign(rawKey(adv), advSess[side].challenge[:])[:rapid.IntRange(0, 63).Draw(t, "slen")])
			oth.authIn = ownAuth(1 - side)
			att.want, oth.want = wantFail, wantAdv
		case "mitm-one-sided":
			att.authIn = ownAuth(side)
			oth.authIn = authOut[side] // sealed under a key the other end does not share
			att.want, oth.want = wantAdv, wantFail
		case "mitm-same-eph-relay-ciphertext":
			views[0].authIn, views[1].authIn = authOut[1], authOut[0]
			views[0].want, views[1].want = wantFail, wantFail
		default:
			t.Fatalf("unhandled scenario %s", scen)
		}
		for i := 0; i < 2; i++ {
			if len(views[i].authIn) > 0 {
				ends[i].c.in.Write(views[i].authIn)
			}
			if !keepOpen {
				ends[i].c.in.Close()
			}
		}
		var res [2]endResult
		for i := 0; i < 2; i++ {
			res[i] = ends[i].wait()
		}

		// ---- oracle ----
		var sess [2]*refSession
		outcome := [2]string{}
		for i := 0; i < 2; i++ {
			if pt, ok := remoteEph(views[i].ephGiven); ok {
				sess[i], _ = newRefSession(ends[i].ephPriv, pt)
			}
		}
		for i := 0; i < 2; i++ {
			v, r := views[i], res[i]
			name := []string{"A", "B"}[i]
			if r.err != nil {
				outcome[i] = "fail"
				if r.sc != nil {
					t.Fatalf("[%s] %s: error %v together with a connection object", scen, name, r.err)
				}
				if v.want == wantPeer || v.want == wantAdv {
					t.Fatalf("[%s] %s: handshake failed (%v) but had to succeed with the %s's key", scen, name, r.err, v.want)
				}
				continue
			}
			got := r.sc.RemotePubKey().Bytes()
			if isSmallOrderEd(got) {
				// finding C16-small-order-identity: an identity without a private key was "authenticated"
				if lib.IsKnown(knownSmallOrderIdentity) {
					lib.ObservedKnown(knownSmallOrderIdentity)
					lib.ExcludedByKnown(knownSmallOrderIdentity)
					outcome[i] = "keyless-identity"
					continue
				}
				t.Fatalf("[%s] %s: handshake succeeded with RemotePubKey %x, a small-order ed25519 point: nobody holds a private key for it, the signature presented is a public constant (no proof of possession)", scen, name, got)
			}
			if bytes.Equal(got, pubOf(keys[i])) && !bytes.Equal(pubOf(v.peerKey), got) {
				// finding C16-identity-reflection: the end authenticated its own identity although no other party of the
				// session holds that key
				if lib.IsKnown(knownIdentityReflection) {
					lib.ObservedKnown(knownIdentityReflection)
					lib.ExcludedByKnown(knownIdentityReflection)
					outcome[i] = "own-identity-reflected"
					continue
				}
				t.Fatalf("[%s] %s: handshake succeeded with RemotePubKey == %s's OWN key %x: its own auth message was sent back by a party that holds no long-term key (the challenge is the same for both roles)", scen, name, name, got[:6])
			}
			if v.want == wantFail {
				t.Fatalf("[%s] %s: handshake succeeded (RemotePubKey %x) but had to fail", scen, name, got[:6])
			}
			pt, ok := remoteEph(v.ephGiven)
			if !ok {
				t.Fatalf("[%s] %s: succeeded without a usable ephemeral key message", scen, name)
			}
			if refIsLowOrder(pt) || sess[i] == nil {
				t.Fatalf("[%s] %s: succeeded over a low-order remote ephemeral key %x (shared secret is public)", scen, name, pt[:4])
			}
			// decrypt what this end was given and check it proves possession for THIS session
			rs, _ := newRefSession(ends[i].ephPriv, pt)
			var plain []byte
			var pub, sig []byte
			parsed := false
			for _, f := range framesOf(v.authIn) {
				c, err := rs.open(f)
				if err != nil {
					break
				}
				plain = append(plain, c...)
				if p, s, _, err := refParseAuth(plain); err == nil {
					pub, sig, parsed = p, s, true
					break
				}
			}
			if !parsed {
				t.Fatalf("[%s] %s: succeeded although the bytes it was given do not decrypt to an auth message under its session keys", scen, name)
			}
			if !bytes.Equal(pub, got) {
				t.Fatalf("[%s] %s: RemotePubKey %x differs from the key in the auth message %x", scen, name, got[:6], pub[:6])
			}
			if !refVerify(pub, rs.challenge[:], sig) {
				t.Fatalf("[%s] %s: accepted key %x whose signature does not verify over this session's challenge", scen, name, pub[:6])
			}
			switch {
			case bytes.Equal(got, pubOf(adv)):
				outcome[i] = "adversary"
			case bytes.Equal(got, pubOf(v.peerKey)):
				outcome[i] = "peer"
				if sess[1-i] == nil || sess[1-i].challenge != rs.challenge {
					t.Fatalf("[%s] %s: authenticated the honest peer's key although the peer is not in this session (third-party signature accepted)", scen, name)
				}
			default:
				t.Fatalf("[%s] %s: authenticated key %x held by nobody in this session", scen, name, got[:6])
			}
			if v.want == wantPeer && outcome[i] != "peer" || v.want == wantAdv && outcome[i] != "adversary" {
				t.Fatalf("[%s] %s: authenticated %s, expected %s", scen, name, outcome[i], v.want)
			}
		}

		// ---- data phase for the sessions kept open ----
		if keepOpen && res[0].err == nil && res[1].err == nil {
			n := rapid.SampledFrom([]int{1, 1024, 1025, 3000}).Draw(t, "data")
			for d := 0; d < 2; d++ {
				w, r := ends[d], ends[1-d]
				msg := pattern(byte(d), 0, 0, 0, n)
				if k, err := w.res.sc.Write(msg); err != nil || k != n {
					t.Fatalf("[%s] write: %d %v", scen, k, err)
				}
				raw := w.c.out.Drain()
				if scen == "mitm-own-key" {
					// the adversary reads and re-encrypts: it is a peer of both, and both know it is not each other
					var plain []byte
					for _, f := range framesOf(raw) {
						c, err := advSess[d].open(f)
						if err != nil {
							t.Fatalf("[%s] adversary cannot read the session it terminates: %v", scen, err)
						}
						plain = append(plain, c...)
					}
					if !bytes.Equal(plain, msg) {
						t.Fatalf("[%s] adversary read wrong plaintext", scen)
					}
					raw = advSess[1-d].sealStream(plain)
				}
				r.c.in.Write(raw)
				buf := make([]byte, n)
				got := 0
				for got < n {
					k, err := r.res.sc.Read(buf[got:])
					got += k
					if err != nil {
						t.Fatalf("[%s] read after %d/%d bytes: %v", scen, got, n, err)
					}
				}
				if !bytes.Equal(buf, msg) {
					t.Fatalf("[%s] data differs at %d", scen, firstDiff(buf, msg))
				}
			}
		}

		tampered := scen != "relay"
		lib.Case("TestHandshakeMITM", lib.FP(scen, side, detail, outcome, ia, ib, eph[0][:4], eph[1][:4]), tampered,
			"scenario:"+scen, "A:"+outcome[0], "B:"+outcome[1], fmt.Sprintf("outcome:%s:%s/%s", scen, outcome[side], outcome[1-side]))
		if tampered && lib.WantSample("TestHandshakeMITM") {
			lib.Sample("TestHandshakeMITM", map[string]interface{}{"scenario": scen, "attacked": []string{"A", "B"}[side],
				"attacked end": outcome[side], "other end": outcome[1-side], "errors": []string{fmt.Sprint(res[0].err), fmt.Sprint(res[1].err)}})
		}
	})
}

// lowOrderSession: what anybody can compute about an end that accepted a low-order point — the "shared" secret is
// all zero whatever the end's private key. Returns the adversary-side view (send/recv as seen from the adversary).
func lowOrderSession(endPub, point [32]byte) *refSession {
	// Build the session from the adversary's perspective without any private key: dh = 0.
	return newRefSessionFromDH(point, endPub, [32]byte{})
}

// TestLowOrderList — the reference list of low-order encodings really is low order (self-check of the generator),
// and an ordinary public key is not.
func TestLowOrderList(t *testing.T) {
	for i, p := range lowOrderPoints {
		if !refIsLowOrder(p) {
			t.Fatalf("point %d (%x) is not low order", i, p)
		}
	}
	var k [32]byte
	k[0] = 9
	if refIsLowOrder(refPub(k)) || refIsLowOrder(k) {
		t.Fatalf("ordinary key classified as low order")
	}
	// small-order ed25519 identities: for each of them a constant (R small order, S = 0) verifies for some of 64 messages
	accepted := 0
	for i, p := range smallOrderEd {
		hits := 0
		for m := 0; m < 64; m++ {
			if _, ok := degenerateSig(p[:], []byte{byte(m), 0x16}); ok {
				hits++
			}
		}
		if hits > 0 {
			accepted++
		}
		lib.Class("TestLowOrderList", fmt.Sprintf("ed-small-order-%02d-%x:verifies-%d/64", i, p[:1], hits))
	}
	if accepted < 8 {
		t.Fatalf("only %d of the listed small-order ed25519 encodings ever verify a degenerate signature; the list is wrong", accepted)
	}
	lib.Case("TestLowOrderList", lib.FP(len(lowOrderPoints)), true, "points")
}
