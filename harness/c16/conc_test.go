package c16

import (
	"bytes"
	"fmt"
	"io"
	"runtime"
	"sync"
	"sync/atomic"
	"testing"
	"time"

	"pgregory.net/rapid"

	"verif/lib"
)

// shuffleOf decides whether stream is an order-preserving interleaving of the segment sequences seqs (every
// segment placed contiguously, each sequence in its own order, nothing left over, nothing missing). Depth-first
// with memoised dead states; returns the furthest stream position reached for diagnostics.
func shuffleOf(stream []byte, seqs [][][]byte) (bool, int) {
	type state [6]int32
	if len(seqs) > len(state{}) {
		panic("too many sequences")
	}
	total := 0
	for _, q := range seqs {
		for _, s := range q {
			total += len(s)
		}
	}
	dead := map[state]bool{}
	furthest := 0
	var rec func(st state, pos int) bool
	rec = func(st state, pos int) bool {
		if pos > furthest {
			furthest = pos
		}
		if pos == len(stream) {
			for i, q := range seqs {
				if int(st[i]) != len(q) {
					return false
				}
			}
			return true
		}
		if dead[st] {
			return false
		}
		for i, q := range seqs {
			if int(st[i]) >= len(q) {
				continue
			}
			seg := q[st[i]]
			if pos+len(seg) <= len(stream) && bytes.Equal(stream[pos:pos+len(seg)], seg) {
				nx := st
				nx[i]++
				if rec(nx, pos+len(seg)) {
					return true
				}
			}
		}
		dead[st] = true
		return false
	}
	if total != len(stream) {
		// still run the search to find where it stops
		rec(state{}, 0)
		return false, furthest
	}
	return rec(state{}, 0), furthest
}

func msgBytes(writer, msg, n int) []byte {
	b := make([]byte, n)
	x := uint32(writer*7919+msg*104729) + 12345
	for i := range b {
		x = x*1103515245 + 12345
		b[i] = byte(x >> 16)
	}
	return b
}

var concReadSizes = []int{1, 2, 3, 7, 10, 33, 64, 100, 255, 500, 1000, 1023}
var concWriteSizes = []int{1, 50, 100, 200, 700, 1023, 1024, 1025, 2500, 4000}

// TestConcurrentReaders — the byte-stream property under concurrent use of one SecretConnection (it is a net.Conn
// with separate send and receive mutexes; the repository itself has TestConcurrentRead/Write).
//
// Generated: 1..3 writer goroutines with 1..4 writes each on one end; on the other end 1..4 reader goroutines, each
// with its own cycle of SMALL read sizes (1..1023, so frames leave a remainder in the receive buffer); the link's
// re-segmentation. By construction the readers are started first and the writers only once a reader is parked on
// the empty link, and the link yields between segments, so that several goroutines are inside Read at once (rate
// reported as class overlap). The schedule is not controlled; asserted are only interleaving-independent facts:
//   * the plaintext stream on the wire (reference-model decryption) is an interleaving of the writers' sequences of
//     WHOLE writes (Write is atomic, nothing lost or duplicated);
//   * the segments returned by all Read calls — each reader's in its own order — tile that stream exactly: every
//     Read returned a contiguous segment, segments are pairwise disjoint, their union is the whole stream (no byte
//     lost, duplicated, invented or overtaken);
//   * no reader sees an error other than io.EOF after the clean close, no Write fails.
func TestConcurrentReaders(t *testing.T) {
	rapid.Check(t, func(t *rapid.T) {
		ia := rapid.IntRange(0, 5).Draw(t, "idA")
		ib := (ia + 1 + rapid.IntRange(0, 4).Draw(t, "idB")) % 6 // a different identity
		eph := drawEphDistinct(t, 2, "eph")
		dir := rapid.IntRange(0, 1).Draw(t, "dir")
		nWriters := rapid.SampledFrom([]int{1, 1, 2, 3}).Draw(t, "writers")
		nReaders := rapid.SampledFrom([]int{1, 2, 2, 3, 4}).Draw(t, "readers")
		msgs := make([][]int, nWriters)
		maxChunk := 0
		for j := range msgs {
			msgs[j] = genSizes(t, fmt.Sprintf("w%d", j), concWriteSizes, 1, 4)
			for _, m := range msgs[j] {
				c := m
				if c > refDataMax {
					c = refDataMax
				}
				if c > maxChunk {
					maxChunk = c
				}
			}
		}
		rsizes := make([][]int, nReaders)
		minRead := 1 << 30
		for i := range rsizes {
			rsizes[i] = genSizes(t, fmt.Sprintf("r%d", i), concReadSizes, 1, 3)
			for _, s := range rsizes[i] {
				if s < minRead {
					minRead = s
				}
			}
		}
		segs := genSizes(t, "link", []int{1, 500, 1044, 1044, 2088, 5000}, 1, 3)

		env := newCaseEnv()
		defer env.finish(t)
		a, b, authAB, authBA := honestPair(t, env, lib.Key(ia), lib.Key(ib), eph[0], eph[1])
		w, r := [2]*honestEnd{a, b}[dir], [2]*honestEnd{a, b}[1-dir]
		auth := [2][]byte{authAB, authBA}[dir]

		// readers first
		type readerOut struct {
			segs [][]byte
			err  error
			bad  string
		}
		outs := make([]readerOut, nReaders)
		var inRead, maxIn int32
		var readers sync.WaitGroup
		for i := 0; i < nReaders; i++ {
			i := i
			readers.Add(1)
			env.wg.Add(1)
			go func() {
				defer env.wg.Done()
				defer readers.Done()
				buf := make([]byte, 1024)
				for k := 0; ; k++ {
					sz := rsizes[i][k%len(rsizes[i])]
					cur := atomic.AddInt32(&inRead, 1)
					for {
						m := atomic.LoadInt32(&maxIn)
						if cur <= m || atomic.CompareAndSwapInt32(&maxIn, m, cur) {
							break
						}
					}
					n, err := r.res.sc.Read(buf[:sz])
					atomic.AddInt32(&inRead, -1)
					if n > 0 {
						outs[i].segs = append(outs[i].segs, append([]byte(nil), buf[:n]...))
					}
					if err != nil {
						outs[i].err = err
						if n > 0 {
							outs[i].bad = fmt.Sprintf("Read returned %d bytes together with %v", n, err)
						}
						return
					}
					if n == 0 {
						outs[i].bad = fmt.Sprintf("Read(%d-byte buffer) returned 0, nil", sz)
						return
					}
				}
			}()
		}
		// wait (bounded, not a verdict) until a reader is parked on the empty link and give the others a moment to queue up
		for i := 0; i < 20000 && r.c.in.parkedReads() == 0; i++ {
			runtime.Gosched()
			if i > 1000 {
				time.Sleep(50 * time.Microsecond)
			}
		}
		for i := 0; i < 50; i++ {
			runtime.Gosched()
		}
		parked := atomic.LoadInt32(&inRead)

		// link: w.out -> r.in, yielding between segments
		var wire []byte
		env.wg.Add(1)
		go func() {
			defer env.wg.Done()
			defer r.c.in.Close()
			buf := make([]byte, 5000)
			for k := 0; ; k++ {
				n, err := w.c.out.Read(buf[:segs[k%len(segs)]])
				if n > 0 {
					wire = append(wire, buf[:n]...)
					r.c.in.Write(buf[:n])
					runtime.Gosched()
				}
				if err != nil {
					return
				}
			}
		}()
		// writers
		werrs := make([]string, nWriters)
		var writers sync.WaitGroup
		for j := 0; j < nWriters; j++ {
			j := j
			writers.Add(1)
			env.wg.Add(1)
			go func() {
				defer env.wg.Done()
				defer writers.Done()
				for m, sz := range msgs[j] {
					n, err := w.res.sc.Write(msgBytes(j, m, sz))
					if err != nil || n != sz {
						werrs[j] = fmt.Sprintf("writer %d: Write(%d) = %d, %v", j, sz, n, err)
						return
					}
					runtime.Gosched()
				}
			}()
		}
		if !waitGroupTimeout(&writers, caseDeadline) {
			env.wd.stop()
		}
		w.c.out.Close()
		if !waitGroupTimeout(&readers, caseDeadline) {
			env.wd.stop()
		}
		env.finish(t)

		overlap := atomic.LoadInt32(&maxIn)
		remainder := minRead < maxChunk
		nontrivial := (nReaders >= 2 || nWriters >= 2) && remainder
		lib.Case("TestConcurrentReaders", lib.FP(msgs, rsizes, segs, dir), nontrivial,
			fmt.Sprintf("readers:%d", nReaders), fmt.Sprintf("writers:%d", nWriters), fmt.Sprintf("max-goroutines-in-Read:%d", overlap),
			fmt.Sprintf("overlap(>=2 in Read):%v", overlap >= 2), fmt.Sprintf("parked-before-first-write:%d", parked), fmt.Sprintf("frame-larger-than-read:%v", remainder))

		desc := fmt.Sprintf("writers=%v readers=%v link=%v max-in-Read=%d", msgs, rsizes, segs, overlap)
		for _, e := range werrs {
			if e != "" {
				t.Fatalf("%s (%s)", e, desc)
			}
		}
		// the plaintext stream, from the wire, by the reference model
		rs, err := newRefSession(r.ephPriv, w.ephPub)
		if err != nil {
			t.Fatalf("reference session: %v", err)
		}
		chunks := openWire(t, "wire", rs, append(append([]byte(nil), auth...), wire...), 1)
		var stream []byte
		for _, c := range chunks {
			stream = append(stream, c...)
		}
		wseqs := make([][][]byte, nWriters)
		for j := range msgs {
			for m, sz := range msgs[j] {
				wseqs[j] = append(wseqs[j], msgBytes(j, m, sz))
			}
		}
		if ok, at := shuffleOf(stream, wseqs); !ok {
			t.Fatalf("the %d plaintext bytes on the wire are not an interleaving of the writers' whole writes (stops at offset %d) (%s)", len(stream), at, desc)
		}
		// readers
		rseqs := make([][][]byte, nReaders)
		got, nsegs := 0, 0
		for i := range outs {
			if outs[i].bad != "" {
				t.Fatalf("reader %d: %s (%s)", i, outs[i].bad, desc)
			}
			if outs[i].err != io.EOF {
				t.Fatalf("reader %d ended with %v on an untampered link (%s)", i, outs[i].err, desc)
			}
			rseqs[i] = outs[i].segs
			nsegs += len(outs[i].segs)
			for _, s := range outs[i].segs {
				got += len(s)
			}
		}
		if ok, at := shuffleOf(stream, rseqs); !ok {
			t.Fatalf("the %d Read results (%d bytes) of %d concurrent readers do not tile the %d bytes written: every Read must return a contiguous, disjoint, in-order segment; no consistent placement beyond stream offset %d (%s)", nsegs, got, nReaders, len(stream), at, desc)
		}
		if nontrivial && lib.WantSample("TestConcurrentReaders") {
			lib.Sample("TestConcurrentReaders", map[string]interface{}{"writes per writer": msgs, "read sizes per reader": rsizes, "stream bytes": len(stream), "read calls": nsegs, "max goroutines in Read": overlap})
		}
	})
}
