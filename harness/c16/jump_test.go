package c16

import (
	"fmt"
	"math"

	"pgregory.net/rapid"
)

// Long-lived links: nobody can send 2^32 frames in a test, so after the handshake the harness may fast-forward the
// frame counters of both ends of a direction consistently (shim VerifC16SetCounters: the state the link reaches
// after that many frames) to a drawn value just below a power-of-two boundary, such that the frames of the case
// cross it. The reference model's counters are set alike. base == 1 means "no jump" (the state after the handshake).

var counterBoundaries = []uint64{1 << 8, 1 << 16, 1 << 24, 1 << 31, 1 << 32, 1 << 40, 1 << 48, 1 << 56, 1 << 63}

// drawBase draws the counter at which the data frames of a direction start; frames = upper bound on the number of
// frames the case seals in that direction (the counter must stay below 2^64-1, where the implementation panics by
// design).
func drawBase(t *rapid.T, label string, frames int) (uint64, string) {
	switch rapid.SampledFrom([]string{"none", "boundary", "boundary", "boundary", "top", "any"}).Draw(t, label+".kind") {
	case "boundary":
		i := rapid.IntRange(0, len(counterBoundaries)-1).Draw(t, label+".boundary")
		b := counterBoundaries[i]
		back := uint64(rapid.IntRange(0, frames+2).Draw(t, label+".back"))
		if back >= b-1 {
			back = b - 2
		}
		return b - back, fmt.Sprintf("2^%d", []int{8, 16, 24, 31, 32, 40, 48, 56, 63}[i])
	case "top":
		return math.MaxUint64 - uint64(frames) - 2 - uint64(rapid.IntRange(0, 5).Draw(t, label+".slack")), "2^64"
	case "any":
		return rapid.Uint64Range(1, math.MaxUint64-uint64(frames)-8).Draw(t, label+".any"), "any"
	}
	return 1, "none"
}

// jump sets the writer's send counter and the reader's receive counter of one direction to base, leaving the
// counters of the other direction as they are.
func jump(w, r *honestEnd, base uint64) {
	if base == 1 {
		return
	}
	_, wr := w.res.sc.VerifC16SendCounter(), w.res.sc.VerifC16RecvCounter()
	w.res.sc.VerifC16SetCounters(base, wr)
	rs := r.res.sc.VerifC16SendCounter()
	r.res.sc.VerifC16SetCounters(rs, base)
}

// crossed: which power-of-two boundaries lie in (base, base+frames].
func crossed(base uint64, frames int) string {
	for i, b := range counterBoundaries {
		if base < b && b-base <= uint64(frames) {
			return fmt.Sprintf("2^%d", []int{8, 16, 24, 31, 32, 40, 48, 56, 63}[i])
		}
	}
	return "none"
}
