package c12

import "sort"

// Reference model of a mempool: an ordered list (arrival order), an LRU "seen" cache and the verdict table of the
// scripted application. It is written from the documented semantics (mempool/mempool.go interface comments, the
// doc comments of v0.CListMempool / v1.TxMempool, config.MempoolConfig) and shares no code with either
// implementation.

// nAlpha is the capacity of the transaction alphabet; a case uses the first conf.Alpha of them.
const nAlpha = 48

// letter names alphabet tx i in logs and is the byte its payload is made of.
func letter(i int) byte {
	if i < 26 {
		return byte('A' + i)
	}
	return byte('a' + i - 26)
}

type verdict struct {
	CodeNew uint32 // answer to a first-time CheckTx (0 = accept)
	CodeRe  uint32 // answer to a recheck
	Gas     int64
	Prio    int64
	Sender  string
}

type conf struct {
	V1          bool
	Profile     string // small | wide (pools beyond 12 txs) | long (tx lengths around the varint boundaries) | wide-long
	Alpha       int    // number of distinct transactions in play
	HugeGas     bool   // gas values and limits near the top of the int64 range
	Size        int
	MaxTxsBytes int64
	MaxTxBytes  int
	CacheSize   int
	Keep        bool // KeepInvalidTxsInCache
	Recheck     bool
	TTLBlocks   int64
	TTLHuge     bool // TTLDuration set to a value no test run can reach
	Lens        [nAlpha]int
	InitHeight  int64
}

type entry struct {
	idx    int
	gas    int64
	prio   int64
	sender string
	height int64
	seq    int
}

type model struct {
	c      conf
	txs    [nAlpha][]byte
	pool   []*entry // arrival order
	lru    []int    // oldest first
	height int64
	preMax int64 // < 0: no pre-check installed; else maximum proto-encoded size of one tx
	postOn bool
	postG  int64 // PostCheckMaxGas argument (-1 = unlimited)
	seq    int
	// forgetRepeats: follow the listed finding C12-update-forgets-repeated-committed-tx instead of the intended
	// behaviour (set by the driver only while that finding is listed as known)
	forgetRepeats bool

	// accounting for the non-triviality rule
	liveEvict      int // cache evictions of a tx that is in the pool at that moment
	fullSeen       int // a submission met a full pool (count or bytes)
	recheckRejects int // txs removed because a recheck (or the new post-check) refused them
	priorityEvict  int // v1: txs displaced by a higher-priority arrival
	expired        int // v1: txs removed by TTLNumBlocks
}

func uvarintLen(x uint64) int64 {
	n := int64(1)
	for x >= 0x80 {
		x >>= 7
		n++
	}
	return n
}

// protoSize is the size of one transaction as a repeated-bytes field 1 entry of tendermint.types.Data:
// one tag byte, the length varint, the payload.
func protoSize(tx []byte) int64 { return 1 + uvarintLen(uint64(len(tx))) + int64(len(tx)) }

func (m *model) bytes() int64 {
	var s int64
	for _, e := range m.pool {
		s += int64(len(m.txs[e.idx]))
	}
	return s
}

func (m *model) find(idx int) int {
	for k, e := range m.pool {
		if e.idx == idx {
			return k
		}
	}
	return -1
}

func (m *model) removeAt(k int) { m.pool = append(m.pool[:k:k], m.pool[k+1:]...) }

func (m *model) poolRemove(idx int) bool {
	if k := m.find(idx); k >= 0 {
		m.removeAt(k)
		return true
	}
	return false
}

func (m *model) cacheHas(idx int) bool {
	for _, x := range m.lru {
		if x == idx {
			return true
		}
	}
	return false
}

func (m *model) cacheRemove(idx int) {
	for k, x := range m.lru {
		if x == idx {
			m.lru = append(m.lru[:k:k], m.lru[k+1:]...)
			return
		}
	}
}

// cachePush: true if idx was not remembered (and is remembered now, capacity permitting); a hit refreshes recency.
func (m *model) cachePush(idx int) bool {
	if m.c.CacheSize <= 0 {
		return true
	}
	if m.cacheHas(idx) {
		m.cacheRemove(idx)
		m.lru = append(m.lru, idx)
		return false
	}
	if len(m.lru) >= m.c.CacheSize {
		old := m.lru[0]
		m.lru = m.lru[1:]
		if m.find(old) >= 0 {
			m.liveEvict++
		}
	}
	m.lru = append(m.lru, idx)
	return true
}

// ordered is the reap order: v0 arrival; v1 priority descending, then arrival.
func (m *model) ordered() []*entry {
	out := append([]*entry(nil), m.pool...)
	if m.c.V1 {
		sort.SliceStable(out, func(i, j int) bool { return out[i].prio > out[j].prio })
	}
	return out
}

func (m *model) preRejects(idx int) bool { return m.preMax >= 0 && protoSize(m.txs[idx]) > m.preMax }

func (m *model) postRejects(gas int64) bool {
	if !m.postOn || m.postG == -1 {
		return false
	}
	return gas < 0 || gas > m.postG
}

type ctExpect struct {
	refuse []string // acceptable refusal kinds; empty: the call must return nil
	corner bool     // a pooled tx the cache no longer remembers is submitted again
	note   string
}

// checkTx applies a submission of alphabet tx idx under verdict v.
func (m *model) checkTx(idx int, v verdict) ctExpect {
	tx := m.txs[idx]
	var reasons []string
	full := len(m.pool) >= m.c.Size || int64(len(tx))+m.bytes() > m.c.MaxTxsBytes
	if full {
		m.fullSeen++
	}
	if !m.c.V1 && full {
		// the FIFO pool refuses up front when it has no room
		reasons = append(reasons, "full")
	}
	if len(tx) > m.c.MaxTxBytes {
		reasons = append(reasons, "toolarge")
	}
	if m.preRejects(idx) {
		reasons = append(reasons, "precheck")
	}
	if len(reasons) > 0 {
		if m.cacheHas(idx) {
			reasons = append(reasons, "incache")
		}
		return ctExpect{refuse: reasons, note: "refused-early"}
	}
	if !m.cachePush(idx) {
		return ctExpect{refuse: []string{"incache"}, note: "refused-incache"}
	}
	if m.find(idx) >= 0 {
		// The pool holds each transaction at most once: whatever the application answers now, no second copy.
		// What the cache remembers afterwards is not specified; the driver adopts the observed membership.
		return ctExpect{corner: true, refuse: []string{"incache"}, note: "pooled-resubmission"}
	}
	if v.CodeNew != 0 || m.postRejects(v.Gas) {
		if !m.c.Keep {
			m.cacheRemove(idx)
		}
		return ctExpect{note: "app-rejected"}
	}
	e := &entry{idx: idx, gas: v.Gas, prio: v.Prio, sender: v.Sender, height: m.height}
	if m.c.V1 {
		if v.Sender != "" {
			for _, o := range m.pool {
				if o.sender == v.Sender {
					return ctExpect{note: "sender-busy"}
				}
			}
		}
		if full {
			// evict strictly lower-priority txs, lowest first, newest first among equals, until at least
			// len(tx) bytes are freed; if that is impossible the newcomer is dropped and forgotten.
			var victims []*entry
			var vb int64
			for _, o := range m.pool {
				if o.prio < v.Prio {
					victims = append(victims, o)
					vb += int64(len(m.txs[o.idx]))
				}
			}
			if len(victims) == 0 || vb < int64(len(tx)) {
				m.cacheRemove(idx)
				return ctExpect{note: "full-dropped"}
			}
			sort.SliceStable(victims, func(i, j int) bool {
				if victims[i].prio != victims[j].prio {
					return victims[i].prio < victims[j].prio
				}
				return victims[i].seq > victims[j].seq
			})
			var freed int64
			for _, o := range victims {
				m.poolRemove(o.idx)
				m.cacheRemove(o.idx)
				m.priorityEvict++
				freed += int64(len(m.txs[o.idx]))
				if freed >= int64(len(tx)) {
					break
				}
			}
		}
	}
	m.seq++
	e.seq = m.seq
	m.pool = append(m.pool, e)
	return ctExpect{note: "admitted"}
}

// update applies a block: committed[i] with DeliverTx success ok[i]; pre/post (when set) replace the filters.
func (m *model) update(height int64, committed []int, ok []bool, tab *[nAlpha]verdict) {
	m.height = height
	// A block may hold the same tx more than once (nothing in block validation forbids it; an application with
	// replay protection answers the repeat with an error code). A tx that was committed successfully stays
	// remembered: a failed repeat behind it does not make the cache forget it.
	okSoFar := map[int]bool{}
	for k, idx := range committed {
		if ok[k] {
			m.cachePush(idx)
			okSoFar[idx] = true
		} else if !m.c.Keep && (!okSoFar[idx] || m.forgetRepeats) {
			m.cacheRemove(idx)
		}
		m.poolRemove(idx)
	}
	if m.c.V1 && m.c.TTLBlocks > 0 {
		for _, e := range append([]*entry(nil), m.pool...) {
			if height-e.height > m.c.TTLBlocks {
				m.poolRemove(e.idx)
				m.cacheRemove(e.idx)
				m.expired++
			}
		}
	}
	if m.c.Recheck {
		for _, e := range append([]*entry(nil), m.pool...) {
			v := tab[e.idx]
			if v.CodeRe != 0 || m.postRejects(v.Gas) {
				m.poolRemove(e.idx)
				if !m.c.Keep {
					m.cacheRemove(e.idx)
				}
				m.recheckRejects++
			} else if m.c.V1 {
				e.prio = v.Prio
			}
		}
	}
}

func (m *model) flush() {
	m.pool = nil
	m.lru = nil
}

// reapPrefix: length of the longest prefix of the reap order whose proto-encoded size and gas stay within the
// limits (a negative limit means none).
func (m *model) reapPrefix(maxBytes, maxGas int64) int {
	var b, g int64
	n := 0
	for _, e := range m.ordered() {
		b += protoSize(m.txs[e.idx])
		// the gas sum is compared without ever forming a value above the limit (no int64 overflow); gas is >= 0
		if (maxBytes >= 0 && b > maxBytes) || (maxGas >= 0 && e.gas > maxGas-g) {
			break
		}
		g += e.gas
		n++
	}
	return n
}
