package c12

import (
	"fmt"
	"runtime"
	"strings"
	"sync"
	"sync/atomic"
	"testing"

	abci "github.com/tendermint/tendermint/abci/types"
	"github.com/tendermint/tendermint/mempool"
	"github.com/tendermint/tendermint/types"
	"pgregory.net/rapid"

	"verif/lib"
)

// TestConcurrentPeers — schedule sampling. Several peer goroutines submit drawn transaction sequences while a
// committer goroutine drives reap -> Lock; FlushAppConn; Update; Unlock cycles, a reaper reaps and a monitor
// samples Size()/SizeBytes(). Only statements that hold under every interleaving are asserted: limits at every
// sampled moment, reap results within their limits and duplicate-free, and at the final quiescent point a
// duplicate-free pool whose Size()/SizeBytes() equal its contents. The contents themselves depend on the
// schedule and are not predicted. In some cases an operator goroutine calls Flush (the unsafe_flush_mempool RPC) at
// drawn points while all this is going on. RemoveTxByKey (no caller in this tree) is left to the sequential tests.
func TestConcurrentPeers(t *testing.T) {
	rapid.Check(t, func(rt *rapid.T) {
		v1 := rapid.Bool().Draw(rt, "v1")
		c := genConf(rt, v1)
		if lib.IsKnown(idDup) && c.CacheSize < nAlpha {
			// listed finding: with a cache that can forget a pooled tx the pool's indexes are corrupted by the
			// duplicate; steer this sub-check away from that class
			lib.ExcludedByKnown(idDup)
			c.CacheSize = 64
		}
		a := &app{alpha: map[string]int{}}
		var txs [nAlpha][]byte
		for i := 0; i < c.Alpha; i++ {
			txs[i] = []byte(strings.Repeat(string(rune(letter(i))), c.Lens[i]))
			a.alpha[string(txs[i])] = i
			a.tab[i] = genVerdict(rt, c)
		}
		nPeers := rapid.IntRange(2, 4).Draw(rt, "peers")
		plans := make([][]int, nPeers)
		for p := range plans {
			plans[p] = rapid.SliceOfN(rapid.IntRange(0, c.Alpha-1), 4, 14).Draw(rt, "plan")
		}
		nBlocks := rapid.IntRange(1, 4).Draw(rt, "blocks")
		takes := make([]int, nBlocks)
		for i := range takes {
			takes[i] = rapid.IntRange(0, 4).Draw(rt, "take")
		}
		reapNs := rapid.SliceOfN(rapid.IntRange(0, 4), 2, 8).Draw(rt, "reapNs")
		var flushAfter []int // Flush calls, each after that many scheduler yields
		if rapid.IntRange(0, 2).Draw(rt, "withFlush") == 0 {
			flushAfter = rapid.SliceOfN(rapid.IntRange(0, 40), 1, 3).Draw(rt, "flushAfter")
		}

		s, err := newSUT(c, a, nil, nil)
		if err != nil {
			rt.Fatalf("VERIF-INFRA: %v", err)
		}
		defer s.stop()
		base := runtime.NumGoroutine()

		var mu sync.Mutex
		var hist, faults []string
		logf := func(f string, x ...interface{}) { mu.Lock(); hist = append(hist, fmt.Sprintf(f, x...)); mu.Unlock() }
		fault := func(f string, x ...interface{}) {
			mu.Lock()
			faults = append(faults, fmt.Sprintf(f, x...))
			mu.Unlock()
		}
		var done int32
		var wg, mon sync.WaitGroup

		for p := range plans {
			wg.Add(1)
			go func(p int) {
				defer wg.Done()
				defer func() { // the p2p layer recovers a panicking Receive and drops the peer
					if x := recover(); x != nil {
						fault("peer %d: CheckTx panicked: %v", p+1, x)
					}
				}()
				for _, i := range plans[p] {
					err := s.mp.CheckTx(txs[i], nil, mempool.TxInfo{SenderID: uint16(p + 1)})
					logf("peer %d CheckTx(%c) -> %s", p+1, letter(i), errKind(err))
				}
			}(p)
		}
		wg.Add(1)
		go func() { // committer
			defer wg.Done()
			h := c.InitHeight
			for _, take := range takes {
				block := s.mp.ReapMaxBytesMaxGas(-1, -1)
				if len(block) > take {
					block = block[:take]
				}
				resps := make([]*abci.ResponseDeliverTx, len(block))
				for i := range resps {
					resps[i] = &abci.ResponseDeliverTx{}
				}
				h++
				s.mp.Lock()
				_ = s.mp.FlushAppConn()
				err := s.mp.Update(h, block, resps, nil, nil)
				s.mp.Unlock()
				logf("Update(h=%d, %q) -> %v", h, name(block, a.alpha), err)
				runtime.Gosched()
			}
		}()
		if len(flushAfter) > 0 {
			wg.Add(1)
			go func() { // operator
				defer wg.Done()
				for _, y := range flushAfter {
					for ; y > 0; y-- {
						runtime.Gosched()
					}
					s.mp.Flush()
					logf("Flush()")
				}
			}()
		}
		wg.Add(1)
		go func() { // reaper
			defer wg.Done()
			for _, n := range reapNs {
				got := s.mp.ReapMaxTxs(n)
				if len(got) > n && !(lib.IsKnown(idReap) && len(got) == n+1) {
					fault("ReapMaxTxs(%d) returned %d txs %q", n, len(got), name(got, a.alpha))
				}
				if d := dupIn(got); d != "" && !lib.IsKnown(idDup) {
					fault("ReapMaxTxs(%d) returned %q twice", n, d)
				}
				maxB := int64(3 * (n + 1))
				got = s.mp.ReapMaxBytesMaxGas(maxB, -1)
				if sz := types.ComputeProtoSizeForTxs(got); len(got) > 0 && sz > maxB {
					fault("ReapMaxBytesMaxGas(%d,-1) returned %d bytes", maxB, sz)
				}
				runtime.Gosched()
			}
		}()
		mon.Add(1)
		samples := 0
		go func() { // monitor: limits at every sampled moment
			defer mon.Done()
			for atomic.LoadInt32(&done) == 0 {
				if n := s.mp.Size(); n > c.Size {
					fault("Size() = %d exceeds the configured %d", n, c.Size)
					return
				}
				if b := s.mp.SizeBytes(); b > c.MaxTxsBytes || b < 0 {
					fault("SizeBytes() = %d outside [0, %d]", b, c.MaxTxsBytes)
					return
				}
				samples++
				runtime.Gosched()
			}
		}()
		wg.Wait()
		atomic.StoreInt32(&done, 1)
		mon.Wait()
		r := &run{t: rt, c: c, a: a, s: s, m: &model{c: c}}
		r.quiesce(base)

		listed, _ := s.list()
		var sum int64
		for _, tx := range listed {
			sum += int64(len(tx))
		}
		dupKnown := false
		if d := dupIn(listed); d != "" {
			if lib.IsKnown(idDup) {
				lib.ObservedKnown(idDup)
				lib.ExcludedByKnown(idDup)
				dupKnown = true
			} else {
				fault("final pool %q holds %q twice", name(listed, a.alpha), d)
			}
		}
		if !dupKnown {
			if s.mp.Size() != len(listed) || s.mp.SizeBytes() != sum {
				fault("final Size()=%d SizeBytes()=%d but the pool holds %d txs / %d bytes (%q)", s.mp.Size(), s.mp.SizeBytes(), len(listed), sum, name(listed, a.alpha))
			}
			if all := s.mp.ReapMaxTxs(-1); len(all) != len(listed) {
				fault("final ReapMaxTxs(-1) returns %d txs, the pool holds %d", len(all), len(listed))
			}
			if len(listed) > c.Size || sum > c.MaxTxsBytes {
				fault("final pool exceeds limits: %d txs (max %d), %d bytes (max %d)", len(listed), c.Size, sum, c.MaxTxsBytes)
			}
		}
		total := 0
		for _, p := range plans {
			total += len(p)
		}
		lib.Case("TestConcurrentPeers", lib.FP(c, plans, takes, reapNs), nBlocks > 0 && total >= 8,
			fmt.Sprintf("v1=%v", v1), "cfg:cache-"+cacheClass(c), fmt.Sprintf("final-size:%d", len(listed)), fmt.Sprintf("flushes:%d", len(flushAfter)))
		if len(faults) > 0 && !v1 && lib.IsKnown(idConc) && overLimitOrDup(faults) {
			// listed finding: v0 admits concurrently submitted txs without serialising the limit check
			lib.ObservedKnown(idConc)
			lib.ExcludedByKnown(idConc)
			faults = nil
		}
		if len(faults) > 0 && !v1 && len(flushAfter) > 0 && lib.IsKnown(idFlush) && accountingOrDup(faults) {
			// listed finding: v0 Flush interleaves with admissions (orphaned list element, byte count off)
			lib.ObservedKnown(idFlush)
			lib.ExcludedByKnown(idFlush)
			faults = nil
		}
		if len(faults) > 0 {
			rt.Fatalf("%s\nconfig: %+v\nverdicts: %+v\nobserved history (one possible linearisation, %d monitor samples):\n  %s",
				strings.Join(faults, "\n"), c, a.tab, samples, strings.Join(hist, "\n  "))
		}
	})
}

func dupIn(txs []types.Tx) string {
	seen := map[string]bool{}
	for _, tx := range txs {
		if seen[string(tx)] {
			return string(tx)
		}
		seen[string(tx)] = true
	}
	return ""
}

// overLimitOrDup: every recorded fault is of the kind the listed v0 admission race produces.
func overLimitOrDup(faults []string) bool {
	for _, f := range faults {
		if !(strings.Contains(f, "exceeds") || strings.Contains(f, "twice") || strings.Contains(f, "outside [0") ||
			strings.Contains(f, "panicked: notified txs available but mempool is empty")) {
			return false
		}
	}
	return true
}

// accountingOrDup: every recorded fault is of the kind a Flush interleaved with an admission produces.
func accountingOrDup(faults []string) bool {
	for _, f := range faults {
		if !(strings.Contains(f, "twice") || strings.Contains(f, "but the pool holds") || strings.Contains(f, "final ReapMaxTxs(-1)") || strings.Contains(f, "outside [0") ||
			strings.Contains(f, "panicked: notified txs available but mempool is empty")) {
			return false
		}
	}
	return true
}
