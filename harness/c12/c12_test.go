// C12 — mempool contents stay unique, bounded, current and correctly ordered (v0 CListMempool, v1 TxMempool).
//
// Generated: a mempool configuration (size 1..8, small byte limits, cache 0 / 1 / < size / >= size, keep-invalid,
// recheck on/off, v1 TTL) and a history of operations (CheckTx from many peers with repeats, block Update exactly
// as BlockExecutor.Commit drives it, Flush, both reaps at exact boundaries, RemoveTxByKey, changes of the
// application's verdict table) over a 12-transaction alphabet. Oracle: the reference model of model_test.go,
// compared after every operation.
package c12

import (
	"fmt"
	"math"
	"os"
	"runtime"
	"strings"
	"sync"
	"sync/atomic"
	"testing"
	"time"

	abcicli "github.com/tendermint/tendermint/abci/client"
	abci "github.com/tendermint/tendermint/abci/types"
	"github.com/tendermint/tendermint/config"
	"github.com/tendermint/tendermint/libs/log"
	"github.com/tendermint/tendermint/mempool"
	mempoolv0 "github.com/tendermint/tendermint/mempool/v0"
	mempoolv1 "github.com/tendermint/tendermint/mempool/v1"
	tmproto "github.com/tendermint/tendermint/proto/tendermint/types"
	"github.com/tendermint/tendermint/proxy"
	sm "github.com/tendermint/tendermint/state"
	"github.com/tendermint/tendermint/types"
	"pgregory.net/rapid"

	"verif/lib"
)

func TestMain(m *testing.M) { lib.Main(m) }

const (
	idReap = "C12-reapmaxtxs-off-by-one"
	idDup  = "C12-duplicate-after-cache-eviction"
	idConc = "C12-v0-concurrent-admission-exceeds-limits"
	// mempool v1 checks new txs outside its lock: an admission (or rejection) that was in flight at the application
	// while a block went through Lock/FlushAppConn/Update/Unlock lands after that Update
	idV1Inflight = "C12-v1-inflight-across-update"
	// v0 Flush ran under the read lock, concurrently with admissions
	idFlush = "C12-v0-flush-races-with-admission"
	// Update walks the block tx by tx: a failed repeat of a tx makes the cache forget its successful occurrence
	idRepeat = "C12-update-forgets-repeated-committed-tx"
	// the running gas sum of ReapMaxBytesMaxGas wraps around int64
	idGasWrap = "C12-reap-gas-sum-overflow"
)

// ---- scripted application ----

type app struct {
	abci.BaseApplication
	mu      sync.Mutex
	alpha   map[string]int
	tab     [nAlpha]verdict
	newN    int
	reN     int
	unknown int
	// latency per CheckTx call, cycled (async_test.go): 0 = none, 1 = yield, n > 1 = n microseconds
	pattern []int
	calls   int64
}

func (a *app) CheckTx(req abci.RequestCheckTx) abci.ResponseCheckTx {
	if len(a.pattern) > 0 {
		switch p := a.pattern[int(atomic.AddInt64(&a.calls, 1))%len(a.pattern)]; {
		case p == 1:
			runtime.Gosched()
		case p > 1:
			time.Sleep(time.Duration(p) * time.Microsecond)
		}
	}
	a.mu.Lock()
	defer a.mu.Unlock()
	i, ok := a.alpha[string(req.Tx)]
	if !ok {
		a.unknown++
		return abci.ResponseCheckTx{Code: 77}
	}
	v := a.tab[i]
	code := v.CodeNew
	if req.Type == abci.CheckTxType_Recheck {
		code = v.CodeRe
		a.reN++
	} else {
		a.newN++
	}
	return abci.ResponseCheckTx{Code: code, GasWanted: v.Gas, Priority: v.Prio, Sender: v.Sender}
}

func (a *app) set(i int, v verdict) {
	a.mu.Lock()
	a.tab[i] = v
	a.mu.Unlock()
}

func (a *app) counts() (int, int, int) {
	a.mu.Lock()
	defer a.mu.Unlock()
	return a.newN, a.reN, a.unknown
}

// ---- system under test ----

type sut struct {
	mp   mempool.Mempool
	has  func(types.Tx) bool
	list func() ([]types.Tx, []time.Time)
	stop func()
}

var hugeTTL = 1000 * time.Hour

func mempoolConfig(c conf) *config.MempoolConfig {
	cfg := config.TestMempoolConfig()
	cfg.Size = c.Size
	cfg.MaxTxsBytes = c.MaxTxsBytes
	cfg.MaxTxBytes = c.MaxTxBytes
	cfg.CacheSize = c.CacheSize
	cfg.KeepInvalidTxsInCache = c.Keep
	cfg.Recheck = c.Recheck
	cfg.Broadcast = false
	if c.V1 {
		cfg.Version = config.MempoolV1
		cfg.TTLNumBlocks = c.TTLBlocks
		if c.TTLHuge {
			cfg.TTLDuration = hugeTTL
		}
	}
	return cfg
}

func newSUT(c conf, a abci.Application, pre mempool.PreCheckFunc, post mempool.PostCheckFunc) (*sut, error) {
	cli, err := proxy.NewLocalClientCreator(a).NewABCIClient()
	if err != nil {
		return nil, err
	}
	if err := cli.Start(); err != nil {
		return nil, err
	}
	return newSUTOn(c, cli, pre, post), nil
}

// newSUTOn builds the mempool on an already started ABCI client (local, or socket: async_test.go).
func newSUTOn(c conf, cli abcicli.Client, pre mempool.PreCheckFunc, post mempool.PostCheckFunc) *sut {
	s := newSUTConn(c, proxy.NewAppConnMempool(cli), pre, post)
	s.stop = func() { _ = cli.Stop() }
	return s
}

// newSUTConn builds the mempool on a given mempool connection (regress_test.go wraps one).
func newSUTConn(c conf, conn proxy.AppConnMempool, pre mempool.PreCheckFunc, post mempool.PostCheckFunc) *sut {
	cfg := mempoolConfig(c)
	s := &sut{stop: func() {}}
	if c.V1 {
		var opts []mempoolv1.TxMempoolOption
		if pre != nil {
			opts = append(opts, mempoolv1.WithPreCheck(pre))
		}
		if post != nil {
			opts = append(opts, mempoolv1.WithPostCheck(post))
		}
		mp := mempoolv1.NewTxMempool(log.NewNopLogger(), cfg, conn, c.InitHeight, opts...)
		s.mp, s.has, s.list = mp, mp.VerifC12CacheHas, mp.VerifC12ListTxs
	} else {
		var opts []mempoolv0.CListMempoolOption
		if pre != nil {
			opts = append(opts, mempoolv0.WithPreCheck(pre))
		}
		if post != nil {
			opts = append(opts, mempoolv0.WithPostCheck(post))
		}
		mp := mempoolv0.NewCListMempool(cfg, conn, c.InitHeight, opts...)
		s.mp, s.has = mp, mp.VerifC12CacheHas
		s.list = func() ([]types.Tx, []time.Time) { return mp.VerifC12ListTxs(), nil }
	}
	return s
}

// ---- filters, built the way the node builds them (state.TxPreCheck / TxPostCheck) or directly ----

var (
	oneVal        = lib.NewValSet([]int{0}, []int64{1}).Set
	blockOverhead = 100000 - types.MaxDataBytesNoEvidence(100000, 1)
)

func mkPre(th int64, viaState bool) mempool.PreCheckFunc {
	if !viaState {
		return mempool.PreCheckMaxBytes(th)
	}
	st := sm.State{Validators: oneVal, ConsensusParams: tmproto.ConsensusParams{Block: tmproto.BlockParams{MaxBytes: blockOverhead + th, MaxGas: -1}}}
	return sm.TxPreCheck(st)
}

func mkPost(g int64, viaState bool) mempool.PostCheckFunc {
	if !viaState {
		return mempool.PostCheckMaxGas(g)
	}
	st := sm.State{Validators: oneVal, ConsensusParams: tmproto.ConsensusParams{Block: tmproto.BlockParams{MaxBytes: 1 << 20, MaxGas: g}}}
	return sm.TxPostCheck(st)
}

func errKind(err error) string {
	switch err.(type) {
	case nil:
		return "ok"
	case mempool.ErrMempoolIsFull:
		return "full"
	case mempool.ErrTxTooLarge:
		return "toolarge"
	case mempool.ErrPreCheck:
		return "precheck"
	}
	if err == mempool.ErrTxInCache {
		return "incache"
	}
	return "other(" + err.Error() + ")"
}

// ---- generators ----

var (
	lenChoices   = []int{1, 1, 1, 2, 2, 2, 3, 3, 4, 5, 6, 8}
	gasChoices   = []int64{0, 0, 1, 1, 2, 3, 5, 10}
	senders      = []string{"", "", "", "s1", "s2"}
	preChoices   = []int64{3, 4, 5, 7, 10, 100, 100}
	postChoices  = []int64{-1, 0, 1, 2, 4, 5, 10, 100}
	cacheKinds   = []string{"none", "one", "below-size", "at-least-size", "large"}
	maxTxChoices = []int{2, 4, 8, 8, 64, 64}
)

// Profiles widen the two dimensions a small alphabet of short txs cannot reach: "wide" puts more than a dozen
// txs in the pool at once (many of them with equal priority), "long" draws tx lengths around the points where the
// length prefix of the block-data encoding grows (127/128, 255/256, 16383/16384).
var (
	profiles       = []string{"small", "small", "small", "small", "wide", "wide", "long", "wide-long"}
	longLens       = []int{1, 3, 100, 126, 127, 128, 129, 130, 200, 254, 255, 256, 257, 300}
	hugeLens       = []int{16382, 16383, 16384, 16385}
	preChoicesLong = []int64{102, 130, 131, 258, 259, 303, 1 << 20, 1 << 20}
	maxTxLong      = []int{128, 255, 256, 1 << 20, 1 << 20, 1 << 20}
)

func (c conf) wide() bool { return strings.HasPrefix(c.Profile, "wide") }
func (c conf) long() bool { return strings.HasSuffix(c.Profile, "long") }

func preChoicesFor(c conf) []int64 {
	if c.long() {
		return preChoicesLong
	}
	if c.wide() {
		return []int64{7, 10, 100, 100}
	}
	return preChoices
}

func genConf(t *rapid.T, v1 bool) conf {
	c := conf{V1: v1}
	c.Profile = rapid.SampledFrom(profiles).Draw(t, "profile")
	c.Alpha = 12
	c.Size = rapid.IntRange(1, 8).Draw(t, "size")
	if c.wide() {
		c.Alpha = rapid.IntRange(20, nAlpha).Draw(t, "alphabet")
		c.Size = rapid.IntRange(13, 40).Draw(t, "sizeWide")
	}
	for i := 0; i < c.Alpha; i++ {
		if c.long() {
			c.Lens[i] = rapid.SampledFrom(longLens).Draw(t, "len")
		} else {
			c.Lens[i] = rapid.SampledFrom(lenChoices).Draw(t, "len")
		}
	}
	if c.long() {
		for k := rapid.IntRange(0, 2).Draw(t, "hugeTxs"); k > 0; k-- {
			c.Lens[rapid.IntRange(0, c.Alpha-1).Draw(t, "hugeIdx")] = rapid.SampledFrom(hugeLens).Draw(t, "hugeLen")
		}
	}
	if rapid.IntRange(0, 7).Draw(t, "emptytx") == 0 {
		c.Lens[0] = 0
	}
	tight, mid, loose := [2]int{2, 12}, [2]int{10, 40}, int64(1000)
	kinds := []string{"tight", "mid", "mid", "loose"}
	switch {
	case c.long():
		tight, mid, loose, kinds = [2]int{128, 700}, [2]int{700, 6000}, 1<<30, []string{"tight", "mid", "loose", "loose"}
	case c.wide():
		tight, mid, loose, kinds = [2]int{10, 40}, [2]int{40, 200}, 1<<30, []string{"mid", "loose", "loose", "loose"}
	}
	switch rapid.SampledFrom(kinds).Draw(t, "bytesKind") {
	case "tight":
		c.MaxTxsBytes = int64(rapid.IntRange(tight[0], tight[1]).Draw(t, "maxTxsBytes"))
	case "mid":
		c.MaxTxsBytes = int64(rapid.IntRange(mid[0], mid[1]).Draw(t, "maxTxsBytes"))
	default:
		c.MaxTxsBytes = loose
	}
	if c.long() {
		c.MaxTxBytes = rapid.SampledFrom(maxTxLong).Draw(t, "maxTxBytes")
	} else if c.wide() {
		c.MaxTxBytes = rapid.SampledFrom([]int{8, 64, 64, 64}).Draw(t, "maxTxBytes")
	} else {
		c.MaxTxBytes = rapid.SampledFrom(maxTxChoices).Draw(t, "maxTxBytes")
	}
	switch rapid.SampledFrom(cacheKinds).Draw(t, "cacheKind") {
	case "none":
		c.CacheSize = 0
	case "one":
		c.CacheSize = 1
	case "below-size":
		if c.Size > 1 {
			c.CacheSize = rapid.IntRange(1, c.Size-1).Draw(t, "cache")
		} else {
			c.CacheSize = 1
		}
	case "at-least-size":
		c.CacheSize = c.Size + rapid.IntRange(0, 4).Draw(t, "cacheExtra")
	default:
		c.CacheSize = 64
	}
	c.Keep = rapid.Bool().Draw(t, "keepInvalid")
	c.HugeGas = rapid.IntRange(0, 5).Draw(t, "hugeGas") == 0
	c.Recheck = rapid.IntRange(0, 3).Draw(t, "recheck") != 0
	c.InitHeight = int64(rapid.IntRange(0, 3).Draw(t, "initHeight"))
	if v1 {
		c.TTLBlocks = int64(rapid.SampledFrom([]int{0, 0, 1, 2, 3}).Draw(t, "ttlBlocks"))
		c.TTLHuge = rapid.Bool().Draw(t, "ttlHuge")
	}
	return c
}

var (
	hugeGasChoices  = []int64{0, 1, 1 << 61, 1 << 62, 1<<62 + 1, math.MaxInt64 / 2, math.MaxInt64 - 1, math.MaxInt64}
	hugePostChoices = []int64{-1, 1 << 62, 1<<62 + 5, math.MaxInt64 - 1, math.MaxInt64, math.MaxInt64}
)

func postChoicesFor(c conf) []int64 {
	if c.HugeGas {
		return hugePostChoices
	}
	return postChoices
}

func genVerdict(t *rapid.T, c conf) verdict {
	v := verdict{}
	if rapid.IntRange(0, 5).Draw(t, "rejNew") == 0 {
		v.CodeNew = 1
	}
	if rapid.IntRange(0, 4).Draw(t, "rejRe") == 0 {
		v.CodeRe = 2
	}
	if c.HugeGas {
		v.Gas = rapid.SampledFrom(hugeGasChoices).Draw(t, "gas")
	} else {
		v.Gas = rapid.SampledFrom(gasChoices).Draw(t, "gas")
	}
	v.Prio = int64(rapid.IntRange(0, 3).Draw(t, "prio"))
	v.Sender = rapid.SampledFrom(senders).Draw(t, "sender")
	return v
}

// ---- the stateful run ----

type run struct {
	name string
	t    *rapid.T
	c    conf
	a    *app
	s    *sut
	m    *model
	hist []string
	dead bool // a condition outside the property's reach ended the comparison (clock tie, listed finding)
	tie  bool
	// last committed txs, for biased re-submission
	lastCommitted []int
	classes       map[string]int
	maxPool       int
}

func (r *run) logf(format string, a ...interface{}) {
	r.hist = append(r.hist, fmt.Sprintf(format, a...))
}

func (r *run) cls(k string) { r.classes[k]++ }

func (r *run) failf(format string, a ...interface{}) {
	msg := fmt.Sprintf(format, a...)
	r.t.Fatalf("%s\nconfig: %+v\nhistory (%d ops):\n  %s\nmodel pool: %s\nmodel cache (oldest first): %v",
		msg, r.c, len(r.hist), strings.Join(r.hist, "\n  "), r.poolString(), r.m.lru)
}

func (r *run) poolString() string {
	var b strings.Builder
	for _, e := range r.m.ordered() {
		fmt.Fprintf(&b, "[%c len=%d gas=%d prio=%d sender=%q h=%d] ", letter(e.idx), len(r.m.txs[e.idx]), e.gas, e.prio, e.sender, e.height)
	}
	return b.String()
}

func name(txs []types.Tx, alpha map[string]int) string {
	var b strings.Builder
	for _, tx := range txs {
		if i, ok := alpha[string(tx)]; ok {
			b.WriteByte(letter(i))
		} else {
			b.WriteByte('?')
		}
	}
	return b.String()
}

func (r *run) want(es []*entry) string {
	var b strings.Builder
	for _, e := range es {
		b.WriteByte(letter(e.idx))
	}
	return b.String()
}

// compare is run after every operation: the real pool against the model.
func (r *run) compare(after string) {
	if r.dead {
		return
	}
	m, mp := r.m, r.s.mp
	listed, stamps := r.s.list()
	if r.c.V1 {
		for i := 1; i < len(stamps); i++ {
			if !stamps[i].After(stamps[i-1]) {
				// the wall clock did not advance between two arrivals: v1's order among equal priorities is then
				// undetermined by design; nothing further can be compared in this history
				r.dead, r.tie = true, true
				return
			}
		}
	}
	gotList := name(listed, r.a.alpha)
	if wantList := r.want(m.pool); gotList != wantList {
		r.failf("after %s: pool (list order) holds %q, reference model holds %q", after, gotList, wantList)
	}
	seen := map[string]bool{}
	for _, tx := range listed {
		if seen[string(tx)] {
			r.failf("after %s: transaction %q is in the pool twice (%s)", after, name([]types.Tx{tx}, r.a.alpha), gotList)
		}
		seen[string(tx)] = true
	}
	all := mp.ReapMaxTxs(-1)
	if got, want := name(all, r.a.alpha), r.want(m.ordered()); got != want {
		r.failf("after %s: ReapMaxTxs(-1) = %q, reference order %q", after, got, want)
	}
	if mp.Size() != len(m.pool) {
		r.failf("after %s: Size() = %d, reference %d", after, mp.Size(), len(m.pool))
	}
	if mp.SizeBytes() != m.bytes() {
		r.failf("after %s: SizeBytes() = %d, reference %d", after, mp.SizeBytes(), m.bytes())
	}
	if mp.Size() > r.c.Size || mp.SizeBytes() > r.c.MaxTxsBytes {
		r.failf("after %s: limits exceeded: Size %d (max %d), SizeBytes %d (max %d)", after, mp.Size(), r.c.Size, mp.SizeBytes(), r.c.MaxTxsBytes)
	}
	for i := 0; i < r.c.Alpha; i++ {
		if got, want := r.s.has(m.txs[i]), m.cacheHas(i); got != want {
			r.failf("after %s: cache remembers %c = %v, reference %v", after, letter(i), got, want)
		}
	}
	if len(m.pool) >= r.c.Size {
		r.cls("state:full-by-count")
	}
	if len(m.pool) > r.maxPool {
		r.maxPool = len(m.pool)
	}
}

func (r *run) pickTx(label string) int {
	t := r.t
	switch rapid.SampledFrom([]string{"any", "any", "any", "pooled", "committed"}).Draw(t, label+".src") {
	case "pooled":
		if len(r.m.pool) > 0 {
			return r.m.pool[rapid.IntRange(0, len(r.m.pool)-1).Draw(t, label+".k")].idx
		}
	case "committed":
		if len(r.lastCommitted) > 0 {
			return r.lastCommitted[rapid.IntRange(0, len(r.lastCommitted)-1).Draw(t, label+".k")]
		}
	}
	return rapid.IntRange(0, r.c.Alpha-1).Draw(t, label+".i")
}

func (r *run) opCheckTx(t *rapid.T) {
	if r.dead {
		return
	}
	r.checkTx(t, r.pickTx("tx"))
}

// checkTx submits alphabet tx idx from a drawn peer and compares with the reference.
func (r *run) checkTx(t *rapid.T, idx int) {
	m := r.m
	peer := uint16(rapid.IntRange(0, 4).Draw(t, "peer"))
	pooled, remembered := m.find(idx) >= 0, m.cacheHas(idx)
	committedRemembered := !pooled && remembered && contains(r.lastCommitted, idx)
	if pooled && !remembered && lib.IsKnown(idDup) && rapid.IntRange(0, 7).Draw(t, "probeListedFinding") != 0 {
		// listed finding: steer away from re-submitting a pooled tx the cache forgot (1 in 8 still probes it)
		lib.ExcludedByKnown(idDup)
		return
	}
	before := append([]*entry(nil), m.pool...)
	exp := m.checkTx(idx, r.a.tab[idx])
	cbN := 0
	err := r.s.mp.CheckTx(m.txs[idx], func(*abci.Response) { cbN++ }, mempool.TxInfo{SenderID: peer})
	kind := errKind(err)
	r.logf("CheckTx(%c len=%d, peer %d) verdict=%+v -> %s   [model: %s]", letter(idx), len(m.txs[idx]), peer, r.a.tab[idx], kind, exp.note)
	r.cls("checktx:" + exp.note)
	if committedRemembered {
		r.cls("checktx:committed-and-remembered")
	}
	if exp.corner {
		// no second copy, whatever else; the cache may or may not remember it afterwards
		listed, _ := r.s.list()
		changed := name(listed, r.a.alpha) != r.want(before) || r.s.mp.Size() != len(before)
		if lib.IsKnown(idDup) {
			// listed finding: the re-inserted copy may also have displaced other txs or carry other metadata, so
			// nothing after this operation can be compared; the history ends here
			if changed {
				lib.ObservedKnown(idDup)
			}
			lib.ExcludedByKnown(idDup)
			r.dead = true
			return
		}
		if changed {
			r.failf("a transaction already in the pool, forgotten by the cache (cache_size=%d), was submitted again and the pool changed: list %q Size()=%d, before %q",
				r.c.CacheSize, name(listed, r.a.alpha), r.s.mp.Size(), r.want(before))
		}
		if kind != "ok" && kind != "incache" {
			r.failf("re-submission of pooled tx %c: unexpected error %v", letter(idx), err)
		}
		if r.c.CacheSize > 0 && !r.s.has(m.txs[idx]) {
			m.cacheRemove(idx)
		}
		r.compare("CheckTx(pooled, forgotten by cache)")
		return
	}
	if len(exp.refuse) == 0 {
		if err != nil {
			r.failf("CheckTx(%c) returned %v; reference: no ground for refusal (%s)", letter(idx), err, exp.note)
		}
	} else {
		if err == nil {
			r.failf("CheckTx(%c) returned nil; reference: must be refused (%v)", letter(idx), exp.refuse)
		}
		if !containsS(exp.refuse, kind) {
			r.failf("CheckTx(%c) refused with %v; reference grounds %v", letter(idx), err, exp.refuse)
		}
		if committedRemembered {
			r.cls("checktx:committed-remembered-refused")
		}
	}
	r.compare(fmt.Sprintf("CheckTx(%c)", letter(idx)))
}

func seqInts(n int) []int {
	l := make([]int, n)
	for i := range l {
		l[i] = i
	}
	return l
}

func contains(l []int, x int) bool {
	for _, y := range l {
		if y == x {
			return true
		}
	}
	return false
}

func containsS(l []string, x string) bool {
	for _, y := range l {
		if y == x {
			return true
		}
	}
	return false
}

const quiesceTimeout = 20 * time.Second

// quiesce waits until the goroutines v1 started for a recheck are gone. A timeout is infrastructure trouble.
func (r *run) quiesce(base int) {
	deadline := time.Now().Add(quiesceTimeout)
	for spins := 0; ; spins++ {
		if runtime.NumGoroutine() <= base {
			break
		}
		if time.Now().After(deadline) {
			fmt.Fprintf(os.Stdout, "VERIF-INFRA: mempool v1 recheck goroutines did not finish within %v (goroutines %d, baseline %d)\n", quiesceTimeout, runtime.NumGoroutine(), base)
			r.t.Fatalf("VERIF-INFRA: recheck quiescence timeout")
		}
		if spins < 50 {
			runtime.Gosched()
		} else {
			time.Sleep(20 * time.Microsecond)
		}
	}
	// a lock round trip orders every handler's writes before our reads
	r.s.mp.Lock()
	r.s.mp.Unlock() //nolint:staticcheck
}

func (r *run) opUpdate(t *rapid.T) {
	if r.dead {
		return
	}
	m := r.m
	var committed []int
	for _, e := range m.ordered() {
		if rapid.IntRange(0, 2).Draw(t, "commit") == 0 {
			committed = append(committed, e.idx)
		}
	}
	for k := rapid.IntRange(0, 2).Draw(t, "foreign"); k > 0; k-- {
		// txs this node never admitted (or no longer holds), possibly repeated inside the block
		committed = append(committed, rapid.IntRange(0, r.c.Alpha-1).Draw(t, "foreignTx"))
	}
	if len(committed) > 0 && rapid.IntRange(0, 3).Draw(t, "repeat") == 0 {
		// the same tx a second time in the block (a replay the proposer did not filter out)
		committed = append(committed, committed[rapid.IntRange(0, len(committed)-1).Draw(t, "repeatWhich")])
	}
	if len(committed) > 1 && rapid.Bool().Draw(t, "shuffle") {
		committed = rapid.Permutation(committed).Draw(t, "order")
	}
	oks := make([]bool, len(committed))
	txs := make(types.Txs, len(committed))
	resps := make([]*abci.ResponseDeliverTx, len(committed))
	for k, idx := range committed {
		oks[k] = rapid.IntRange(0, 4).Draw(t, "deliverOK") != 0
		txs[k] = m.txs[idx]
		resps[k] = &abci.ResponseDeliverTx{}
		if !oks[k] {
			resps[k].Code = 5
		}
	}
	var pre mempool.PreCheckFunc
	var post mempool.PostCheckFunc
	preMax, postOn, postG := m.preMax, m.postOn, m.postG
	desc := ""
	if rapid.IntRange(0, 2).Draw(t, "newPre") == 0 {
		preMax = rapid.SampledFrom(preChoicesFor(r.c)).Draw(t, "preMax")
		pre = mkPre(preMax, rapid.Bool().Draw(t, "preViaState"))
		desc += fmt.Sprintf(" pre<=%d", preMax)
	}
	if rapid.IntRange(0, 2).Draw(t, "newPost") == 0 {
		postOn, postG = true, rapid.SampledFrom(postChoicesFor(r.c)).Draw(t, "postGas")
		post = mkPost(postG, rapid.Bool().Draw(t, "postViaState"))
		desc += fmt.Sprintf(" gas<=%d", postG)
	}
	height := m.height + 1
	m.preMax, m.postOn, m.postG = preMax, postOn, postG
	rejBefore, expBefore, poolBefore := m.recheckRejects, m.expired, len(m.pool)
	m.update(height, committed, oks, &r.a.tab)
	r.lastCommitted = nil
	for k, idx := range committed {
		if oks[k] {
			r.lastCommitted = append(r.lastCommitted, idx)
		}
	}

	base := runtime.NumGoroutine()
	mp := r.s.mp
	// exactly what BlockExecutor.Commit does
	mp.Lock()
	if err := mp.FlushAppConn(); err != nil {
		mp.Unlock()
		r.failf("FlushAppConn: %v", err)
	}
	err := mp.Update(height, txs, resps, pre, post)
	mp.Unlock()
	if err != nil {
		r.failf("Update: %v", err)
	}
	if r.c.V1 && r.c.Recheck {
		r.quiesce(base)
	}
	var cs strings.Builder
	for k, idx := range committed {
		cs.WriteByte(letter(idx))
		if !oks[k] {
			cs.WriteByte('!')
		}
	}
	r.logf("Update(h=%d, block=%q%s)", height, cs.String(), desc)
	r.cls("update")
	if poolBefore > 0 && len(committed) > 0 {
		r.cls("update:nonempty-pool")
	}
	if m.recheckRejects > rejBefore {
		r.cls("update:recheck-rejected-some")
	}
	if m.expired > expBefore {
		r.cls("update:ttl-expired-some")
	}
	// a tx that occurs in the block successfully and again, later, unsuccessfully
	for k, idx := range committed {
		if oks[k] || r.c.Keep {
			continue
		}
		okBefore := false
		for q := 0; q < k; q++ {
			if committed[q] == idx && oks[q] {
				okBefore = true
			}
		}
		if !okBefore {
			continue
		}
		r.cls("update:repeated-tx-ok-then-failed")
		if m.forgetRepeats && r.c.CacheSize > 0 && !r.s.has(m.txs[idx]) {
			// listed finding (the reference follows it while it is listed, so the search goes on behind it)
			lib.ObservedKnown(idRepeat)
			lib.ExcludedByKnown(idRepeat)
		}
	}
	r.compare("Update")
	// a committed transaction is gone (stated on its own, beside the model comparison)
	listed, _ := r.s.list()
	for _, tx := range listed {
		for _, c := range txs {
			if string(tx) == string(c) {
				r.failf("after Update: committed transaction %q is still in the pool", name([]types.Tx{tx}, r.a.alpha))
			}
		}
	}
}

func (r *run) opReapMaxTxs(t *rapid.T) {
	if r.dead {
		return
	}
	n := rapid.IntRange(-1, r.c.Size+1).Draw(t, "n")
	if len(r.m.pool) > 0 && rapid.Bool().Draw(t, "withinPool") {
		n = rapid.IntRange(0, len(r.m.pool)).Draw(t, "k")
	}
	got := r.s.mp.ReapMaxTxs(n)
	ord := r.m.ordered()
	w := len(ord)
	if n >= 0 && n < w {
		w = n
	}
	gs, ws := name(got, r.a.alpha), r.want(ord[:w])
	r.logf("ReapMaxTxs(%d) -> %q", n, gs)
	r.cls("reaptxs")
	if n >= 0 && n < len(ord) {
		r.cls("reaptxs:limit-binds")
	}
	if len(ord) > 12 {
		r.cls("reaptxs:pool-above-12")
	}
	if gs != ws {
		if lib.IsKnown(idReap) && n >= 0 && n < len(ord) && gs == r.want(ord[:n+1]) {
			lib.ObservedKnown(idReap)
			lib.ExcludedByKnown(idReap)
			return
		}
		r.failf("ReapMaxTxs(%d) returned %d txs %q; reference: %q (pool %q)", n, len(got), gs, ws, r.want(ord))
	}
}

func (r *run) opReapBytesGas(t *rapid.T) {
	if r.dead {
		return
	}
	m := r.m
	ord := m.ordered()
	var txs types.Txs
	for _, e := range ord {
		txs = append(txs, m.txs[e.idx])
	}
	limit := func(label string, cum func(k int) int64) int64 {
		switch rapid.SampledFrom([]string{"none", "boundary", "boundary", "boundary", "zero", "below-minus-one"}).Draw(t, label+".kind") {
		case "none":
			return -1
		case "zero":
			return 0
		case "below-minus-one":
			return -int64(rapid.IntRange(2, 5).Draw(t, label+".neg"))
		}
		k := rapid.IntRange(0, len(ord)).Draw(t, label+".k")
		v := cum(k) + int64(rapid.IntRange(-1, 1).Draw(t, label+".delta"))
		if v < 0 {
			v = 0
		}
		return v
	}
	maxBytes := limit("bytes", func(k int) int64 { return types.ComputeProtoSizeForTxs(txs[:k]) })
	maxGas := limit("gas", func(k int) int64 {
		var g int64
		for _, e := range ord[:k] {
			if e.gas > math.MaxInt64-1-g {
				return math.MaxInt64 - 1 // saturate (the +-1 behind it must not wrap either)
			}
			g += e.gas
		}
		return g
	})
	if r.c.HugeGas && rapid.IntRange(0, 3).Draw(t, "gasTop") == 0 {
		maxGas = math.MaxInt64 // "practically unlimited", as some chains configure it
	}
	// the hand-written size formula of the reference against the real encoder
	var ref int64
	for _, tx := range txs {
		ref += protoSize(tx)
	}
	if real := types.ComputeProtoSizeForTxs(txs); len(txs) > 0 && real != ref {
		r.failf("harness: reference proto size %d differs from types.ComputeProtoSizeForTxs %d", ref, real)
	}
	p := m.reapPrefix(maxBytes, maxGas)
	got := r.s.mp.ReapMaxBytesMaxGas(maxBytes, maxGas)
	gs, ws := name(got, r.a.alpha), r.want(ord[:p])
	r.logf("ReapMaxBytesMaxGas(%d, %d) -> %q", maxBytes, maxGas, gs)
	r.cls("reapbytesgas")
	if maxGas > math.MaxInt64/2 {
		r.cls("reapbytesgas:gas-limit-above-half-int64")
	}
	if p < len(ord) {
		r.cls("reapbytesgas:limit-binds")
		for _, e := range ord[:p+1] {
			if len(m.txs[e.idx]) >= 128 {
				r.cls("reapbytesgas:limit-binds-behind-long-tx")
				break
			}
		}
	}
	if len(ord) > 12 {
		r.cls("reapbytesgas:pool-above-12")
	}
	if gs != ws && maxGas >= 0 && lib.IsKnown(idGasWrap) {
		// listed finding: tolerated exactly when the plain int64 running sum over the reap order wraps around
		var g int64
		for _, e := range ord {
			if e.gas > math.MaxInt64-g {
				lib.ObservedKnown(idGasWrap)
				lib.ExcludedByKnown(idGasWrap)
				return
			}
			g += e.gas
		}
	}
	if gs != ws {
		r.failf("ReapMaxBytesMaxGas(maxBytes=%d, maxGas=%d) returned %q; reference (longest prefix within both limits): %q of %s", maxBytes, maxGas, gs, ws, r.poolString())
	}
}

func (r *run) opFlush(t *rapid.T) {
	if r.dead {
		return
	}
	r.s.mp.Flush()
	r.m.flush()
	r.lastCommitted = nil
	r.logf("Flush()")
	r.cls("flush")
	r.compare("Flush")
}

func (r *run) opRemove(t *rapid.T) {
	if r.dead {
		return
	}
	idx := r.pickTx("rm")
	present := r.m.poolRemove(idx)
	err := r.s.mp.RemoveTxByKey(types.Tx(r.m.txs[idx]).Key())
	r.logf("RemoveTxByKey(%c) -> %v", letter(idx), err)
	r.cls(fmt.Sprintf("remove:present=%v", present))
	if present != (err == nil) {
		r.failf("RemoveTxByKey(%c): err=%v, reference: present=%v", letter(idx), err, present)
	}
	r.compare("RemoveTxByKey")
}

func (r *run) opSetVerdict(t *rapid.T) {
	if r.dead {
		return
	}
	idx := rapid.IntRange(0, r.c.Alpha-1).Draw(t, "i")
	v := r.a.tab[idx]
	nv := genVerdict(t, r.c)
	if r.m.find(idx) >= 0 {
		// gas and sender label of a pooled tx are what the application said at admission; keep them stable while
		// it is pooled so that the recheck answer cannot contradict them (the property does not say which wins)
		nv.Gas, nv.Sender = v.Gas, v.Sender
	}
	r.a.set(idx, nv)
	r.logf("SetVerdict(%c) = %+v", letter(idx), nv)
}

func runHistory(rt *rapid.T, testName string, v1 bool) {
	c := genConf(rt, v1)
	a := &app{alpha: map[string]int{}}
	m := &model{c: c, height: c.InitHeight, preMax: -1, forgetRepeats: lib.IsKnown(idRepeat)}
	for i := 0; i < c.Alpha; i++ {
		m.txs[i] = []byte(strings.Repeat(string(rune(letter(i))), c.Lens[i]))
		a.alpha[string(m.txs[i])] = i
		a.tab[i] = genVerdict(rt, c)
	}
	var pre mempool.PreCheckFunc
	var post mempool.PostCheckFunc
	if rapid.IntRange(0, 3).Draw(rt, "initPre") == 0 {
		m.preMax = rapid.SampledFrom(preChoicesFor(c)).Draw(rt, "preMax")
		pre = mkPre(m.preMax, false)
	}
	if rapid.IntRange(0, 3).Draw(rt, "initPost") == 0 {
		m.postOn, m.postG = true, rapid.SampledFrom(postChoicesFor(c)).Draw(rt, "postGas")
		post = mkPost(m.postG, false)
	}
	s, err := newSUT(c, a, pre, post)
	if err != nil {
		rt.Fatalf("VERIF-INFRA: cannot build mempool: %v", err)
	}
	defer s.stop()
	r := &run{name: testName, t: rt, c: c, a: a, s: s, m: m, classes: map[string]int{}}
	r.logf("initial verdicts %+v pre=%d post=%v/%d", a.tab[:c.Alpha], m.preMax, m.postOn, m.postG)
	if c.Profile != "small" {
		// fill up first, so that most of the history runs on a well-stocked pool
		most := c.Alpha
		if !c.wide() && most > c.Size+2 {
			most = c.Size + 2
		}
		order := rapid.Permutation(seqInts(c.Alpha)).Draw(rt, "prefillOrder")
		least := 0
		if c.wide() {
			least = most / 2
		}
		for _, idx := range order[:rapid.IntRange(least, most).Draw(rt, "prefill")] {
			if r.dead {
				break
			}
			r.checkTx(rt, idx)
		}
	}

	actions := map[string]func(*rapid.T){}
	add := func(name string, weight int, f func(*rapid.T)) {
		for i := 0; i < weight; i++ {
			actions[fmt.Sprintf("%s#%02d", name, i)] = f
		}
	}
	add("CheckTx", 18, r.opCheckTx)
	add("Update", 5, r.opUpdate)
	add("ReapMaxTxs", 3, r.opReapMaxTxs)
	add("ReapMaxBytesMaxGas", 4, r.opReapBytesGas)
	add("Flush", 1, r.opFlush)
	add("RemoveTxByKey", 2, r.opRemove)
	add("SetVerdict", 5, r.opSetVerdict)
	rt.Repeat(actions)

	if _, _, unknown := a.counts(); unknown != 0 {
		r.failf("harness: the application saw %d transactions outside the alphabet", unknown)
	}
	nontrivial := m.liveEvict > 0 || m.fullSeen > 0 || m.recheckRejects > 0
	cl := []string{fmt.Sprintf("cfg:cache-%s", cacheClass(c)), fmt.Sprintf("cfg:recheck=%v", c.Recheck), fmt.Sprintf("cfg:keep=%v", c.Keep), "cfg:profile-" + c.Profile}
	if r.maxPool > 12 {
		cl = append(cl, "hist:pool-above-12")
	}
	if c.V1 {
		cl = append(cl, fmt.Sprintf("cfg:ttl=%d", c.TTLBlocks))
	}
	if m.liveEvict > 0 {
		cl = append(cl, "hist:cache-evicted-live-tx")
	}
	if m.fullSeen > 0 {
		cl = append(cl, "hist:full-pool-met")
	}
	if m.recheckRejects > 0 {
		cl = append(cl, "hist:recheck-rejection")
	}
	if m.priorityEvict > 0 {
		cl = append(cl, "hist:priority-eviction")
	}
	if m.expired > 0 {
		cl = append(cl, "hist:ttl-expiry")
	}
	if r.tie {
		cl = append(cl, "hist:abandoned-clock-tie")
	}
	if r.classes["checktx:committed-remembered-refused"] > 0 {
		cl = append(cl, "hist:committed-tx-refused-while-remembered")
	}
	lib.Case(testName, lib.FP(c, strings.Join(r.hist, ";")), nontrivial, cl...)
	for k, n := range r.classes {
		for ; n > 0; n-- {
			lib.Class(testName, "op:"+k)
		}
	}
	if nontrivial && lib.WantSample(testName) {
		h := r.hist
		if len(h) > 25 {
			h = h[:25]
		}
		lib.Sample(testName, map[string]interface{}{"config": fmt.Sprintf("%+v", c), "ops(first25)": h})
	}
}

func cacheClass(c conf) string {
	switch {
	case c.CacheSize == 0:
		return "none"
	case c.CacheSize < c.Size:
		return "below-size"
	default:
		return "at-least-size"
	}
}

// TestV0History: the FIFO mempool (v0.CListMempool).
func TestV0History(t *testing.T) {
	rapid.Check(t, func(rt *rapid.T) { runHistory(rt, "TestV0History", false) })
}

// TestV1History: the priority mempool (v1.TxMempool).
func TestV1History(t *testing.T) {
	rapid.Check(t, func(rt *rapid.T) { runHistory(rt, "TestV1History", true) })
}
