package c12

import (
	"fmt"
	"os"
	"path/filepath"
	"runtime"
	"strings"
	"sync"
	"sync/atomic"
	"testing"
	"time"

	abcicli "github.com/tendermint/tendermint/abci/client"
	abciserver "github.com/tendermint/tendermint/abci/server"
	abci "github.com/tendermint/tendermint/abci/types"
	"github.com/tendermint/tendermint/libs/log"
	"github.com/tendermint/tendermint/mempool"
	"github.com/tendermint/tendermint/types"
	"pgregory.net/rapid"

	"verif/lib"
)

// TestAsyncClientCommit — the commit pipeline over a genuinely asynchronous ABCI client.
//
// The scripted application is served over the ABCI socket protocol (in-process server on a unix socket) and
// answers CheckTx with a drawn latency, so submissions are still unanswered ("in flight") when a block is
// committed. A case is a few rounds of
//
//	burst:  CheckTx for a drawn list of alphabet txs, not waiting for any answer
//	        (v0 returns as soon as the request is queued; v1 blocks per call, so each call gets a goroutine)
//	commit: Lock; FlushAppConn; Update(height, drawn block - biased towards the txs of the burst); Unlock
//	        exactly as BlockExecutor.Commit does, issued right behind the burst
//	settle: every submission answered, the connection drained with the ABCI client's own FlushSync (not the
//	        mempool's), v1's recheck goroutines gone
//
// and at each settled point only statements that hold whatever the timing was:
//
//	gone        no transaction of the block just committed is in the pool (v0: all of them - nothing was
//	            submitted after Lock; v1: those committed successfully under a cache that cannot have
//	            forgotten them, because a v1 call may begin after Unlock)
//	remembered  re-submitting a successfully committed tx (cache large enough never to evict) is refused and
//	            leaves the pool alone
//	unique      no transaction twice; Size()/SizeBytes() equal the contents and respect the limits
//	current     v0, recheck on: every pooled tx is one the application accepts on recheck (everything pooled at
//	            this point was pooled when Update rechecked)
//	order       ReapMaxTxs(n) is a prefix of ReapMaxTxs(-1) (v0: of the list order) of the right length
//
// The contents themselves depend on how far the answers had come when later requests were queued and are not
// predicted. mempool v1 checks new transactions outside its lock: an admission or rejection that was in flight
// during the commit can land after Update (finding C12-v1-inflight-across-update; same root cause as
// C05-v1-checktx-outside-lock, which stands in for it until the C12 entry is listed). "gone" and "remembered"
// are reported for v1 only while neither is listed; everything else is asserted for v1 regardless.
const idV1Outside = "C05-v1-checktx-outside-lock"

var latencyChoices = []int{0, 0, 1, 1, 20, 60, 200, 600}

type asyncEnv struct {
	cli  abcicli.Client
	stop func()
}

// stableGoroutines waits (briefly, bounded) until the goroutine count stops moving: the connection goroutines of
// the socket client and server start and wind down asynchronously and must not be mistaken for v1's recheck
// goroutines by the baseline comparison in quiesce. (The socket server leaves one goroutine behind per
// connection; that one is stable and harmless.)
func stableGoroutines() {
	deadline := time.Now().Add(20 * time.Millisecond)
	for same, last := 0, -1; same < 5 && time.Now().Before(deadline); {
		time.Sleep(100 * time.Microsecond)
		if n := runtime.NumGoroutine(); n == last {
			same++
		} else {
			same, last = 0, n
		}
	}
}

func startSocketApp(a abci.Application) (*asyncEnv, error) {
	dir, err := os.MkdirTemp("/tmp", "c12s") // short: a unix socket path is limited to ~108 bytes
	if err != nil {
		return nil, err
	}
	addr := "unix://" + filepath.Join(dir, "a.sock")
	srv := abciserver.NewSocketServer(addr, a)
	srv.SetLogger(log.NewNopLogger())
	if err := srv.Start(); err != nil {
		os.RemoveAll(dir)
		return nil, err
	}
	cli := abcicli.NewSocketClient(addr, true)
	cli.SetLogger(log.NewNopLogger())
	if err := cli.Start(); err != nil {
		_ = srv.Stop()
		os.RemoveAll(dir)
		return nil, err
	}
	return &asyncEnv{cli: cli, stop: func() {
		// Nothing may be outstanding on the connection when the client stops: the socket client completes the
		// requests it has sent a second time if their answers arrive while it shuts down (negative WaitGroup
		// counter on its receive goroutine, which would take the test process down). Besides the harness's own
		// requests there can be one the client sends by itself: its 20 ms auto-flush. Drain twice.
		_ = cli.FlushSync()
		runtime.Gosched()
		_ = cli.FlushSync()
		_ = cli.Stop()
		_ = srv.Stop()
		os.RemoveAll(dir)
	}}, nil
}

func TestAsyncClientCommit(t *testing.T) {
	rapid.Check(t, func(rt *rapid.T) { runAsync(rt) })
}

func runAsync(rt *rapid.T) {
	const test = "TestAsyncClientCommit"
	v1 := rapid.IntRange(0, 2).Draw(rt, "v1") == 0
	listedID, listed := v1InflightListed()
	if v1 && listed && rapid.IntRange(0, 3).Draw(rt, "probeListedFinding") != 0 {
		// the listed v1 finding blunts the main statement there; spend most of the budget on v0
		lib.ExcludedByKnown(listedID)
		v1 = false
	}
	c := genConf(rt, v1)
	a := &app{alpha: map[string]int{}}
	for i := 0; i < 8; i++ {
		a.pattern = append(a.pattern, rapid.SampledFrom(latencyChoices).Draw(rt, "latency"))
	}
	var txs [nAlpha][]byte
	for i := 0; i < c.Alpha; i++ {
		txs[i] = []byte(strings.Repeat(string(rune(letter(i))), c.Lens[i]))
		a.alpha[string(txs[i])] = i
		a.tab[i] = genVerdict(rt, c)
	}
	env, err := startSocketApp(a)
	if err != nil {
		rt.Fatalf("VERIF-INFRA: socket application: %v", err)
	}
	defer env.stop()
	if _, err := env.cli.EchoSync("up"); err != nil { // the server side of the connection is running
		rt.Fatalf("VERIF-INFRA: echo: %v", err)
	}
	s := newSUTOn(c, env.cli, nil, nil)
	s.stop = func() {} // env.stop tears the client down
	if v1 {
		stableGoroutines()
	}
	base := runtime.NumGoroutine()
	r := &run{t: rt, c: c, a: a, s: s, m: &model{c: c}}
	sureRemembered := c.CacheSize >= 64 // the cache never has to evict: 12 distinct txs

	var hist []string
	logf := func(f string, x ...interface{}) { hist = append(hist, fmt.Sprintf(f, x...)) }
	fail := func(f string, x ...interface{}) {
		rt.Fatalf("%s\nconfig: %+v\napplication latency pattern (us; 1 = yield): %v\nverdicts: %+v\nhistory:\n  %s",
			fmt.Sprintf(f, x...), c, a.pattern, a.tab, strings.Join(hist, "\n  "))
	}
	infra := func(what string, err error) {
		fmt.Fprintf(os.Stdout, "VERIF-INFRA: %s: %v\n", what, err)
		rt.Fatalf("VERIF-INFRA: %s: %v", what, err)
	}
	pooled := func() []types.Tx { l, _ := s.list(); return l }
	inPool := func(tx []byte) bool {
		for _, p := range pooled() {
			if string(p) == string(tx) {
				return true
			}
		}
		return false
	}

	height := c.InitHeight
	var lastBlock []int
	sent := 0     // first-time CheckTx requests handed to the application connection (v0)
	expectRe := 0 // rechecks started by the Updates so far
	inflightHits, roundsWithInflight, v1Late := 0, 0, 0
	rounds := rapid.IntRange(1, 4).Draw(rt, "rounds")
	for round := 0; round < rounds; round++ {
		for k := rapid.IntRange(0, 2).Draw(rt, "verdictChanges"); k > 0; k-- {
			i := rapid.IntRange(0, c.Alpha-1).Draw(rt, "i")
			nv := genVerdict(rt, c)
			if inPool(txs[i]) {
				nv.Gas, nv.Sender = a.tab[i].Gas, a.tab[i].Sender
			}
			a.set(i, nv)
			logf("SetVerdict(%c) = %+v", letter(i), nv)
		}
		// ---- burst
		burst := rapid.SliceOfN(rapid.IntRange(0, c.Alpha-1), 1, 10).Draw(rt, "burst")
		if len(lastBlock) > 0 && rapid.Bool().Draw(rt, "resubmitCommitted") {
			burst = append(burst, lastBlock[rapid.IntRange(0, len(lastBlock)-1).Draw(rt, "which")])
		}
		newBefore, _, _ := a.counts()
		var wg sync.WaitGroup
		var returned int32 // v1: CheckTx calls of this burst that have returned
		var bs strings.Builder
		var queued []int // v0: txs whose request went to the application, in order
		for _, i := range burst {
			if v1 {
				wg.Add(1)
				go func(i int) {
					defer wg.Done()
					_ = s.mp.CheckTx(txs[i], nil, mempool.TxInfo{SenderID: uint16(1 + i%4)})
					atomic.AddInt32(&returned, 1)
				}(i)
				bs.WriteByte(letter(i))
				continue
			}
			err := s.mp.CheckTx(txs[i], nil, mempool.TxInfo{SenderID: uint16(1 + i%4)})
			fmt.Fprintf(&bs, "%c:%s ", letter(i), errKind(err))
			if err == nil {
				queued = append(queued, i)
				sent++
			} else if k := errKind(err); strings.HasPrefix(k, "other") {
				infra("CheckTx over the socket client", err)
			}
		}
		switch rapid.SampledFrom([]string{"none", "none", "none", "yield", "drain"}).Draw(rt, "beforeCommit") {
		case "yield":
			runtime.Gosched()
		case "drain": // now and then nothing is in flight at commit time
			if v1 {
				wg.Wait()
			} else if err := env.cli.FlushSync(); err != nil {
				infra("FlushSync", err)
			}
		}
		// ---- block: biased towards what was just submitted and what is pooled
		var block []int
		for _, i := range burst {
			if rapid.Bool().Draw(rt, "commitSubmitted") && !contains(block, i) {
				block = append(block, i)
			}
		}
		for _, p := range pooled() {
			if i := a.alpha[string(p)]; rapid.IntRange(0, 2).Draw(rt, "commitPooled") == 0 && !contains(block, i) {
				block = append(block, i)
			}
		}
		for k := rapid.IntRange(0, 1).Draw(rt, "foreign"); k > 0; k-- {
			block = append(block, rapid.IntRange(0, c.Alpha-1).Draw(rt, "foreignTx"))
		}
		oks := make([]bool, len(block))
		btxs := make(types.Txs, len(block))
		resps := make([]*abci.ResponseDeliverTx, len(block))
		var cs strings.Builder
		for k, i := range block {
			oks[k] = rapid.IntRange(0, 5).Draw(rt, "deliverOK") != 0
			btxs[k] = txs[i]
			resps[k] = &abci.ResponseDeliverTx{}
			cs.WriteByte(letter(i))
			if !oks[k] {
				resps[k].Code = 5
				cs.WriteByte('!')
			}
		}
		// how many of this burst's requests has the application not answered yet? (it answers in order)
		answered, _, _ := a.counts()
		unanswered := len(queued) - (answered - newBefore)
		if unanswered < 0 {
			unanswered = 0
		}
		hit := false
		if v1 {
			// calls that have not returned yet: begun or about to begin while the block is committed
			unanswered = len(burst) - int(atomic.LoadInt32(&returned))
			for _, i := range burst {
				if unanswered > 0 && contains(block, i) {
					hit = true
				}
			}
		}
		if !v1 && unanswered > 0 {
			for _, i := range queued[len(queued)-unanswered:] {
				if contains(block, i) {
					hit = true
				}
			}
		}
		// ---- commit, as BlockExecutor.Commit does
		height++
		s.mp.Lock()
		if err := s.mp.FlushAppConn(); err != nil {
			s.mp.Unlock()
			infra("FlushAppConn", err)
		}
		err := s.mp.Update(height, btxs, resps, nil, nil)
		if c.Recheck {
			expectRe += s.mp.Size() // still under the lock: exactly these txs are sent for a recheck
		}
		s.mp.Unlock()
		if err != nil {
			fail("Update: %v", err)
		}
		// ---- settle
		wg.Wait()
		if v1 {
			// v1 rechecks on goroutines of its own: first let the application answer every recheck that Update
			// started, so that no request is outstanding on the connection when it is eventually closed
			for deadline := time.Now().Add(quiesceTimeout); ; {
				if _, re, _ := a.counts(); re >= expectRe {
					break
				}
				if time.Now().After(deadline) {
					infra("v1 recheck", fmt.Errorf("the application saw fewer rechecks than Update started (want %d)", expectRe))
				}
				time.Sleep(50 * time.Microsecond)
			}
		}
		if err := env.cli.FlushSync(); err != nil {
			infra("FlushSync", err)
		}
		if v1 {
			r.quiesce(base)
			// belt and braces before anything is torn down under v1's own goroutines: the application has seen
			// no further call for a while
			for quiet, last := 0, -1; quiet < 4; {
				time.Sleep(250 * time.Microsecond)
				n1, n2, _ := a.counts()
				if n1+n2 == last {
					quiet++
				} else {
					quiet, last = 0, n1+n2
				}
			}
			r.quiesce(base)
		}
		logf("burst [%s] then commit h=%d block %q (%d of the burst's requests unanswered at Lock) -> pool %q",
			strings.TrimSpace(bs.String()), height, cs.String(), unanswered, name(pooled(), a.alpha))
		if unanswered > 0 {
			roundsWithInflight++
		}
		if hit {
			inflightHits++
		}
		// committed successfully = every occurrence of the tx in the block succeeded (a failed occurrence makes
		// the cache forget it again unless keep-invalid-txs-in-cache is set)
		allOK := func(i int) bool {
			for k, j := range block {
				if j == i && !oks[k] {
					return false
				}
			}
			return true
		}
		lastBlock = nil
		for _, i := range block {
			if allOK(i) && !contains(lastBlock, i) {
				lastBlock = append(lastBlock, i)
			}
		}

		// ---- gone
		for _, i := range block {
			if !inPool(txs[i]) {
				continue
			}
			if v1 {
				if !(allOK(i) && sureRemembered) {
					continue // a v1 call may have begun after Unlock and the cache need not remember this tx
				}
				if listed {
					lib.ObservedKnown(listedID)
					v1Late++
					continue
				}
			}
			when := "every submission was made before Lock"
			if v1 {
				when = "the cache (never evicting here) remembers it"
			}
			fail("transaction %c was committed in block %d and is in the pool after the commit (pool %q); %s",
				letter(i), height, name(pooled(), a.alpha), when)
		}
		// ---- unique, bounded, accounted
		list := pooled()
		if d := dupIn(list); d != "" {
			fail("pool %q holds %q twice", name(list, a.alpha), d)
		}
		var sum int64
		for _, tx := range list {
			sum += int64(len(tx))
		}
		if s.mp.Size() != len(list) || s.mp.SizeBytes() != sum {
			fail("Size()=%d SizeBytes()=%d but the pool holds %d txs / %d bytes (%q)", s.mp.Size(), s.mp.SizeBytes(), len(list), sum, name(list, a.alpha))
		}
		if len(list) > c.Size || sum > c.MaxTxsBytes {
			fail("limits exceeded: %d txs (max %d), %d bytes (max %d)", len(list), c.Size, sum, c.MaxTxsBytes)
		}
		// ---- current (v0): everything pooled now was pooled when Update rechecked
		if !v1 && c.Recheck {
			for _, tx := range list {
				if v := a.tab[a.alpha[string(tx)]]; v.CodeRe != 0 {
					fail("after the commit of block %d with recheck on, %c is pooled although the application rejects it on recheck (pool %q)",
						height, letter(a.alpha[string(tx)]), name(list, a.alpha))
				}
			}
		}
		// ---- order
		all := s.mp.ReapMaxTxs(-1)
		if !v1 && name(all, a.alpha) != name(list, a.alpha) {
			fail("ReapMaxTxs(-1) = %q, list order %q", name(all, a.alpha), name(list, a.alpha))
		}
		if len(all) != len(list) {
			fail("ReapMaxTxs(-1) returns %d txs, the pool holds %d", len(all), len(list))
		}
		n := rapid.IntRange(0, c.Size).Draw(rt, "reapN")
		w := n
		if w > len(all) {
			w = len(all)
		}
		if got := s.mp.ReapMaxTxs(n); name(got, a.alpha) != name(all[:w], a.alpha) {
			fail("ReapMaxTxs(%d) = %q, want the first %d of %q", n, name(got, a.alpha), w, name(all, a.alpha))
		}
		// ---- remembered
		if sureRemembered && len(lastBlock) > 0 && rapid.Bool().Draw(rt, "probeRemembered") {
			i := lastBlock[rapid.IntRange(0, len(lastBlock)-1).Draw(rt, "probe")]
			was := inPool(txs[i]) // only possible in the tolerated v1 case above
			err := s.mp.CheckTx(txs[i], nil, mempool.TxInfo{SenderID: 9})
			if ferr := env.cli.FlushSync(); ferr != nil {
				infra("FlushSync", ferr)
			}
			logf("CheckTx(%c) again -> %s", letter(i), errKind(err))
			if v1 && listed && (err == nil || (!was && inPool(txs[i]))) {
				// listed finding: an answer that was in flight during the commit landed after Update and made the
				// cache forget the tx (late rejection / late drop)
				lib.ObservedKnown(listedID)
				v1Late++
				continue
			}
			if err == nil {
				fail("transaction %c was committed in block %d and is remembered (cache_size=%d), yet CheckTx accepted it for checking", letter(i), height, c.CacheSize)
			}
			if !was && inPool(txs[i]) {
				fail("transaction %c was committed in block %d, is remembered, and was re-admitted", letter(i), height)
			}
		}
	}
	if _, _, unknown := a.counts(); unknown != 0 {
		fail("harness: the application saw %d transactions outside the alphabet", unknown)
	}
	ver := "v0"
	if v1 {
		ver = "v1"
	}
	cl := []string{"mempool:" + ver, "cfg:cache-" + cacheClass(c), fmt.Sprintf("cfg:recheck=%v", c.Recheck)}
	if roundsWithInflight > 0 {
		cl = append(cl, "hist:requests-unanswered-at-lock")
	}
	if inflightHits > 0 {
		cl = append(cl, "hist:unanswered-tx-in-committed-block")
	}
	if v1Late > 0 {
		cl = append(cl, "hist:v1-late-admission-tolerated")
	}
	nontrivial := inflightHits > 0
	lib.Case(test, lib.FP(c, a.pattern, strings.Join(hist, ";")), nontrivial, cl...)
	if nontrivial && lib.WantSample(test) {
		lib.Sample(test, map[string]interface{}{"config": fmt.Sprintf("%+v", c), "latency_us": a.pattern, "history": hist})
	}
}
