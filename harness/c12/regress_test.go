package c12

import (
	"fmt"
	"sync"
	"testing"

	abci "github.com/tendermint/tendermint/abci/types"
	"github.com/tendermint/tendermint/mempool"

	"verif/lib"
)

// Library-free regression tests for the defects the generated histories found in the v0.34.24 tree. They fail on
// the defect and pass once it is repaired (or tolerate it only while it is listed as known).

type acceptAll struct{ abci.BaseApplication }

func (acceptAll) CheckTx(abci.RequestCheckTx) abci.ResponseCheckTx { return abci.ResponseCheckTx{} }

func regressConf(v1 bool, cache int) conf {
	return conf{V1: v1, Size: 8, MaxTxsBytes: 1000, MaxTxBytes: 64, CacheSize: cache, Recheck: true}
}

// TestRegressReapMaxTxsCount: ReapMaxTxs(n) "reaps up to max transactions" — never more than n.
func TestRegressReapMaxTxsCount(t *testing.T) {
	for _, v1 := range []bool{false, true} {
		s, err := newSUT(regressConf(v1, 100), acceptAll{}, nil, nil)
		if err != nil {
			t.Fatalf("VERIF-INFRA: %v", err)
		}
		for _, tx := range []string{"a", "b", "c"} {
			if err := s.mp.CheckTx([]byte(tx), nil, mempool.TxInfo{}); err != nil {
				t.Fatal(err)
			}
		}
		for n := 0; n <= 4; n++ {
			got := len(s.mp.ReapMaxTxs(n))
			want := n
			if want > 3 {
				want = 3
			}
			lib.Case("TestRegressReapMaxTxsCount", lib.FP(v1, n), true, fmt.Sprintf("v1=%v", v1))
			if got != want {
				if lib.IsKnown(idReap) && got == n+1 {
					lib.ObservedKnown(idReap)
					lib.ExcludedByKnown(idReap)
					continue
				}
				t.Errorf("v1=%v: ReapMaxTxs(%d) on a pool of 3 returned %d transactions, want %d", v1, n, got, want)
			}
		}
		s.stop()
	}
}

// TestRegressNoDuplicateAfterCacheEviction: a transaction that is still in the pool, but that the "seen" cache no
// longer remembers (cache smaller than the pool, or cache_size = 0), is submitted again: the pool must keep
// holding it once.
func TestRegressNoDuplicateAfterCacheEviction(t *testing.T) {
	for _, v1 := range []bool{false, true} {
		for _, cache := range []int{0, 1} {
			s, err := newSUT(regressConf(v1, cache), acceptAll{}, nil, nil)
			if err != nil {
				t.Fatalf("VERIF-INFRA: %v", err)
			}
			for _, tx := range []string{"aa", "b", "aa"} {
				// the third call may or may not report an error; what matters is the pool
				_ = s.mp.CheckTx([]byte(tx), nil, mempool.TxInfo{})
			}
			lib.Case("TestRegressNoDuplicateAfterCacheEviction", lib.FP(v1, cache), true, fmt.Sprintf("v1=%v cache=%d", v1, cache))
			if s.mp.Size() != 2 || s.mp.SizeBytes() != 3 {
				if lib.IsKnown(idDup) && s.mp.Size() == 3 && s.mp.SizeBytes() == 5 {
					lib.ObservedKnown(idDup)
					lib.ExcludedByKnown(idDup)
				} else {
					t.Errorf("v1=%v cache_size=%d: after CheckTx(aa), CheckTx(b), CheckTx(aa): Size()=%d SizeBytes()=%d, want 2 and 3 (tx aa is in the pool twice)",
						v1, cache, s.mp.Size(), s.mp.SizeBytes())
				}
			}
			s.stop()
		}
	}
}

// TestRegressConcurrentAdmissionWithinLimits: peers submit distinct transactions concurrently to a v0 mempool
// behind the local (in-process) ABCI client while blocks keep draining it; the pool must never hold more than
// mempool.size transactions. (Schedule-dependent: the rounds below make the unrepaired tree fail with
// overwhelming probability; a repaired tree can never fail it.)
func TestRegressConcurrentAdmissionWithinLimits(t *testing.T) {
	const rounds, peers, perPeer, size = 60, 8, 60, 3
	over, worst := 0, 0
	for r := 0; r < rounds; r++ {
		c := regressConf(false, 0)
		c.Size = size
		s, err := newSUT(c, acceptAll{}, nil, nil)
		if err != nil {
			t.Fatalf("VERIF-INFRA: %v", err)
		}
		var wg sync.WaitGroup
		stop := make(chan struct{})
		for p := 0; p < peers; p++ {
			wg.Add(1)
			go func(p int) {
				defer wg.Done()
				for k := 0; k < perPeer; k++ {
					_ = s.mp.CheckTx([]byte{byte('a' + p), byte(k)}, nil, mempool.TxInfo{SenderID: uint16(p + 1)})
				}
			}(p)
		}
		maxSeen := 0
		done := make(chan struct{})
		go func() { // blocks: commit whatever is there, as BlockExecutor.Commit does
			defer close(done)
			for h := int64(1); ; h++ {
				select {
				case <-stop:
					return
				default:
				}
				if n := s.mp.Size(); n > maxSeen {
					maxSeen = n
				}
				block := s.mp.ReapMaxTxs(-1)
				resps := make([]*abci.ResponseDeliverTx, len(block))
				for i := range resps {
					resps[i] = &abci.ResponseDeliverTx{}
				}
				s.mp.Lock()
				_ = s.mp.FlushAppConn()
				_ = s.mp.Update(h, block, resps, nil, nil)
				s.mp.Unlock()
			}
		}()
		wg.Wait()
		close(stop)
		<-done
		if n := s.mp.Size(); n > maxSeen {
			maxSeen = n
		}
		if maxSeen > size {
			over++
			if maxSeen > worst {
				worst = maxSeen
			}
		}
		s.stop()
	}
	lib.Case("TestRegressConcurrentAdmissionWithinLimits", lib.FP(rounds, peers, size), true)
	if over > 0 {
		if lib.IsKnown(idConc) {
			lib.ObservedKnown(idConc)
			lib.ExcludedByKnown(idConc)
			return
		}
		t.Errorf("v0, mempool.size=%d, %d peers submitting concurrently: in %d of %d rounds Size() was observed above the limit (worst: %d txs)", size, peers, over, rounds, worst)
	}
}
