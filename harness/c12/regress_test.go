package c12

import (
	"fmt"
	"math"
	"runtime"
	"sync"
	"testing"

	abci "github.com/tendermint/tendermint/abci/types"
	"github.com/tendermint/tendermint/mempool"
	"github.com/tendermint/tendermint/proxy"
	"github.com/tendermint/tendermint/types"

	"verif/lib"
)

// Library-free regression tests for the defects the generated histories found in the v0.34.24 tree. They fail on
// the defect and pass once it is repaired (or tolerate it only while it is listed as known).

type acceptAll struct{ abci.BaseApplication }

func (acceptAll) CheckTx(abci.RequestCheckTx) abci.ResponseCheckTx { return abci.ResponseCheckTx{} }

func regressConf(v1 bool, cache int) conf {
	return conf{V1: v1, Size: 8, MaxTxsBytes: 1000, MaxTxBytes: 64, CacheSize: cache, Recheck: true}
}

// TestRegressReapMaxTxsCount: ReapMaxTxs(n) "reaps up to max transactions" — never more than n.
func TestRegressReapMaxTxsCount(t *testing.T) {
	for _, v1 := range []bool{false, true} {
		s, err := newSUT(regressConf(v1, 100), acceptAll{}, nil, nil)
		if err != nil {
			t.Fatalf("VERIF-INFRA: %v", err)
		}
		for _, tx := range []string{"a", "b", "c"} {
			if err := s.mp.CheckTx([]byte(tx), nil, mempool.TxInfo{}); err != nil {
				t.Fatal(err)
			}
		}
		for n := 0; n <= 4; n++ {
			got := len(s.mp.ReapMaxTxs(n))
			want := n
			if want > 3 {
				want = 3
			}
			lib.Case("TestRegressReapMaxTxsCount", lib.FP(v1, n), true, fmt.Sprintf("v1=%v", v1))
			if got != want {
				if lib.IsKnown(idReap) && got == n+1 {
					lib.ObservedKnown(idReap)
					lib.ExcludedByKnown(idReap)
					continue
				}
				t.Errorf("v1=%v: ReapMaxTxs(%d) on a pool of 3 returned %d transactions, want %d", v1, n, got, want)
			}
		}
		s.stop()
	}
}

// TestRegressNoDuplicateAfterCacheEviction: a transaction that is still in the pool, but that the "seen" cache no
// longer remembers (cache smaller than the pool, or cache_size = 0), is submitted again: the pool must keep
// holding it once.
func TestRegressNoDuplicateAfterCacheEviction(t *testing.T) {
	for _, v1 := range []bool{false, true} {
		for _, cache := range []int{0, 1} {
			s, err := newSUT(regressConf(v1, cache), acceptAll{}, nil, nil)
			if err != nil {
				t.Fatalf("VERIF-INFRA: %v", err)
			}
			for _, tx := range []string{"aa", "b", "aa"} {
				// the third call may or may not report an error; what matters is the pool
				_ = s.mp.CheckTx([]byte(tx), nil, mempool.TxInfo{})
			}
			lib.Case("TestRegressNoDuplicateAfterCacheEviction", lib.FP(v1, cache), true, fmt.Sprintf("v1=%v cache=%d", v1, cache))
			if s.mp.Size() != 2 || s.mp.SizeBytes() != 3 {
				if lib.IsKnown(idDup) && s.mp.Size() == 3 && s.mp.SizeBytes() == 5 {
					lib.ObservedKnown(idDup)
					lib.ExcludedByKnown(idDup)
				} else {
					t.Errorf("v1=%v cache_size=%d: after CheckTx(aa), CheckTx(b), CheckTx(aa): Size()=%d SizeBytes()=%d, want 2 and 3 (tx aa is in the pool twice)",
						v1, cache, s.mp.Size(), s.mp.SizeBytes())
				}
			}
			s.stop()
		}
	}
}

// TestRegressConcurrentAdmissionWithinLimits: peers submit distinct transactions concurrently to a v0 mempool
// behind the local (in-process) ABCI client while blocks keep draining it; the pool must never hold more than
// mempool.size transactions. (Schedule-dependent: the rounds below make the unrepaired tree fail with
// overwhelming probability; a repaired tree can never fail it.)
func TestRegressConcurrentAdmissionWithinLimits(t *testing.T) {
	const rounds, peers, perPeer, size = 60, 8, 60, 3
	over, worst := 0, 0
	for r := 0; r < rounds; r++ {
		c := regressConf(false, 0)
		c.Size = size
		s, err := newSUT(c, acceptAll{}, nil, nil)
		if err != nil {
			t.Fatalf("VERIF-INFRA: %v", err)
		}
		var wg sync.WaitGroup
		stop := make(chan struct{})
		for p := 0; p < peers; p++ {
			wg.Add(1)
			go func(p int) {
				defer wg.Done()
				for k := 0; k < perPeer; k++ {
					_ = s.mp.CheckTx([]byte{byte('a' + p), byte(k)}, nil, mempool.TxInfo{SenderID: uint16(p + 1)})
				}
			}(p)
		}
		maxSeen := 0
		done := make(chan struct{})
		go func() { // blocks: commit whatever is there, as BlockExecutor.Commit does
			defer close(done)
			for h := int64(1); ; h++ {
				select {
				case <-stop:
					return
				default:
				}
				if n := s.mp.Size(); n > maxSeen {
					maxSeen = n
				}
				block := s.mp.ReapMaxTxs(-1)
				resps := make([]*abci.ResponseDeliverTx, len(block))
				for i := range resps {
					resps[i] = &abci.ResponseDeliverTx{}
				}
				s.mp.Lock()
				_ = s.mp.FlushAppConn()
				_ = s.mp.Update(h, block, resps, nil, nil)
				s.mp.Unlock()
			}
		}()
		wg.Wait()
		close(stop)
		<-done
		if n := s.mp.Size(); n > maxSeen {
			maxSeen = n
		}
		if maxSeen > size {
			over++
			if maxSeen > worst {
				worst = maxSeen
			}
		}
		s.stop()
	}
	lib.Case("TestRegressConcurrentAdmissionWithinLimits", lib.FP(rounds, peers, size), true)
	if over > 0 {
		if lib.IsKnown(idConc) {
			lib.ObservedKnown(idConc)
			lib.ExcludedByKnown(idConc)
			return
		}
		t.Errorf("v0, mempool.size=%d, %d peers submitting concurrently: in %d of %d rounds Size() was observed above the limit (worst: %d txs)", size, peers, over, rounds, worst)
	}
}

// pausedConn is a mempool connection on which the goroutine that asked for a CheckTx can be held up right after
// the application has answered - i.e. a caller that is descheduled between receiving the answer and using it.
type pausedConn struct {
	proxy.AppConnMempool
	answered chan struct{}
	resume   chan struct{}
}

func (p *pausedConn) CheckTxSync(req abci.RequestCheckTx) (*abci.ResponseCheckTx, error) {
	res, err := p.AppConnMempool.CheckTxSync(req)
	if req.Type == abci.CheckTxType_New {
		p.answered <- struct{}{}
		<-p.resume
	}
	return res, err
}

// v1InflightListed: the finding is listed under its own id, or (until then) under the root cause it shares.
func v1InflightListed() (string, bool) {
	if lib.IsKnown(idV1Inflight) {
		return idV1Inflight, true
	}
	if lib.IsKnown(idV1Outside) {
		return idV1Outside, true
	}
	return "", false
}

// TestRegressV1InflightAcrossUpdate: a transaction is being checked by the application (the answer has arrived,
// the submitting goroutine has not used it yet) while a block containing that very transaction is committed
// through Lock; FlushAppConn; Update; Unlock. Afterwards the pool must not hold the committed transaction.
// Deterministic (no timing): mempool v0 never gets into this position (its CheckTx holds the update lock for
// reading until the answer is processed), so only v1 is exercised.
func TestRegressV1InflightAcrossUpdate(t *testing.T) {
	for _, late := range []string{"late-admission", "late-rejection"} {
		a := &app{alpha: map[string]int{"in-flight": 0}}
		if late == "late-rejection" {
			a.tab[0].CodeNew = 1 // the (pre-commit) answer is a rejection: it must not make the cache forget the tx
		}
		cli, err := proxy.NewLocalClientCreator(a).NewABCIClient()
		if err != nil || cli.Start() != nil {
			t.Fatalf("VERIF-INFRA: abci client: %v", err)
		}
		conn := &pausedConn{AppConnMempool: proxy.NewAppConnMempool(cli), answered: make(chan struct{}, 1), resume: make(chan struct{})}
		s := newSUTConn(regressConf(true, 100), conn, nil, nil)
		tx := types.Tx("in-flight")
		done := make(chan error, 1)
		go func() { done <- s.mp.CheckTx(tx, nil, mempool.TxInfo{SenderID: 1}) }()
		<-conn.answered
		// the block (proposed by someone else) that contains tx is committed
		s.mp.Lock()
		_ = s.mp.FlushAppConn()
		err = s.mp.Update(1, types.Txs{tx}, []*abci.ResponseDeliverTx{{Code: abci.CodeTypeOK}}, nil, nil)
		s.mp.Unlock()
		if err != nil {
			t.Fatal(err)
		}
		close(conn.resume)
		<-done
		lib.Case("TestRegressV1InflightAcrossUpdate", lib.FP(late), true, late)
		var bad string
		if s.mp.Size() != 0 {
			bad = fmt.Sprintf("the pool holds %q, committed in block 1", s.mp.ReapMaxTxs(-1))
		} else if !s.has(tx) {
			bad = "the cache no longer remembers the tx committed in block 1 (a CheckTx of it would be accepted again)"
		}
		_ = cli.Stop()
		if bad == "" {
			continue
		}
		if id, ok := v1InflightListed(); ok {
			lib.ObservedKnown(id)
			lib.ExcludedByKnown(id)
			continue
		}
		t.Errorf("mempool v1, %s: CheckTx(tx) answered by the application, then Lock/FlushAppConn/Update(1,[tx])/Unlock, then the CheckTx call goes on: %s", late, bad)
	}
}

// TestRegressFlushDuringAdmission: an operator flushes a v0 mempool (unsafe_flush_mempool) while peers keep
// submitting. Whatever survives, the pool must stay consistent: Size()/SizeBytes() equal the contents, no tx twice,
// and a block that commits everything pooled empties it. (Schedule-dependent: the rounds below make the
// unrepaired tree fail with overwhelming probability; a repaired tree can never fail it.)
func TestRegressFlushDuringAdmission(t *testing.T) {
	const rounds, peers, perPeer = 60, 6, 60
	bad := map[string]int{}
	var mu sync.Mutex
	for r := 0; r < rounds; r++ {
		c := regressConf(false, 1000)
		c.Size = 1000
		s, err := newSUT(c, acceptAll{}, nil, nil)
		if err != nil {
			t.Fatalf("VERIF-INFRA: %v", err)
		}
		var wg sync.WaitGroup
		for p := 0; p < peers; p++ {
			wg.Add(1)
			go func(p int) {
				defer wg.Done()
				defer func() { // the p2p layer recovers a panicking Receive and drops the peer
					if x := recover(); x != nil {
						mu.Lock()
						bad[fmt.Sprintf("CheckTx panicked: %v", x)]++
						mu.Unlock()
					}
				}()
				for k := 0; k < perPeer; k++ {
					_ = s.mp.CheckTx([]byte{byte('a' + p), byte(k), 'x'}, nil, mempool.TxInfo{SenderID: uint16(p + 1)})
				}
			}(p)
		}
		wg.Add(1)
		go func() {
			defer wg.Done()
			for i := 0; i < 40; i++ {
				s.mp.Flush()
				runtime.Gosched()
			}
		}()
		wg.Wait()
		all := s.mp.ReapMaxTxs(-1)
		var sum int64
		for _, tx := range all {
			sum += int64(len(tx))
		}
		if d := dupIn(all); d != "" {
			bad["a tx is pooled twice"]++
		}
		if s.mp.Size() != len(all) || s.mp.SizeBytes() != sum {
			bad[fmt.Sprintf("Size()/SizeBytes() differ from the contents (e.g. %d/%d vs %d txs/%d bytes)", s.mp.Size(), s.mp.SizeBytes(), len(all), sum)]++
		}
		resps := make([]*abci.ResponseDeliverTx, len(all))
		for i := range resps {
			resps[i] = &abci.ResponseDeliverTx{}
		}
		s.mp.Lock()
		_ = s.mp.FlushAppConn()
		_ = s.mp.Update(1, all, resps, nil, nil)
		s.mp.Unlock()
		if s.mp.Size() != 0 || s.mp.SizeBytes() != 0 {
			bad["committing everything pooled does not empty the pool"]++
		}
		s.stop()
	}
	lib.Case("TestRegressFlushDuringAdmission", lib.FP(rounds, peers, perPeer), true)
	if len(bad) > 0 {
		if lib.IsKnown(idFlush) {
			lib.ObservedKnown(idFlush)
			lib.ExcludedByKnown(idFlush)
			return
		}
		t.Errorf("v0, Flush while %d peers submit, %d rounds: %v", peers, rounds, bad)
	}
}

type gasApp struct {
	abci.BaseApplication
	gas int64
}

func (a gasApp) CheckTx(abci.RequestCheckTx) abci.ResponseCheckTx {
	return abci.ResponseCheckTx{GasWanted: a.gas}
}

// TestRegressReapGasSumOverflow: the block gas limit is above MaxInt64/2 (MaxInt64 is used as "practically
// unlimited") and three pooled txs want 2^62+1 gas each: only one of them fits, ReapMaxBytesMaxGas must not return
// more (the running sum of two already exceeds the limit - and the range of int64).
func TestRegressReapGasSumOverflow(t *testing.T) {
	for _, v1 := range []bool{false, true} {
		s, err := newSUT(regressConf(v1, 100), gasApp{gas: 1<<62 + 1}, nil, mempool.PostCheckMaxGas(math.MaxInt64))
		if err != nil {
			t.Fatalf("VERIF-INFRA: %v", err)
		}
		for _, tx := range []string{"a", "b", "c"} {
			if err := s.mp.CheckTx([]byte(tx), nil, mempool.TxInfo{}); err != nil {
				t.Fatal(err)
			}
		}
		got := len(s.mp.ReapMaxBytesMaxGas(-1, math.MaxInt64))
		lib.Case("TestRegressReapGasSumOverflow", lib.FP(v1), true, fmt.Sprintf("v1=%v", v1))
		s.stop()
		if got == 1 {
			continue
		}
		if lib.IsKnown(idGasWrap) && got == 3 {
			lib.ObservedKnown(idGasWrap)
			lib.ExcludedByKnown(idGasWrap)
			continue
		}
		t.Errorf("v1=%v: ReapMaxBytesMaxGas(-1, MaxInt64) over three txs wanting 2^62+1 gas each returned %d txs, want 1 (total gas above the limit)", v1, got)
	}
}

// TestRegressRepeatedTxInBlockStaysRemembered: a block holds the same tx twice, DeliverTx succeeds for the first
// occurrence and fails for the replay. The tx was committed: it must be gone from the pool and a CheckTx of it must
// be refused while the cache (plenty of room) remembers it.
func TestRegressRepeatedTxInBlockStaysRemembered(t *testing.T) {
	for _, v1 := range []bool{false, true} {
		s, err := newSUT(regressConf(v1, 100), acceptAll{}, nil, nil)
		if err != nil {
			t.Fatalf("VERIF-INFRA: %v", err)
		}
		tx := types.Tx("replayed")
		if err := s.mp.CheckTx(tx, nil, mempool.TxInfo{}); err != nil {
			t.Fatal(err)
		}
		s.mp.Lock()
		_ = s.mp.FlushAppConn()
		err = s.mp.Update(1, types.Txs{tx, tx}, []*abci.ResponseDeliverTx{{Code: 0}, {Code: 1}}, nil, nil)
		s.mp.Unlock()
		if err != nil {
			t.Fatal(err)
		}
		again := s.mp.CheckTx(tx, nil, mempool.TxInfo{SenderID: 2})
		size := s.mp.Size()
		lib.Case("TestRegressRepeatedTxInBlockStaysRemembered", lib.FP(v1), true, fmt.Sprintf("v1=%v", v1))
		s.stop()
		if again != nil && size == 0 {
			continue
		}
		if lib.IsKnown(idRepeat) && again == nil && size == 1 {
			lib.ObservedKnown(idRepeat)
			lib.ExcludedByKnown(idRepeat)
			continue
		}
		t.Errorf("v1=%v: block [tx, tx] with DeliverTx codes [0, 1]; afterwards CheckTx(tx) returned %v and the pool holds %d txs, want a refusal and an empty pool", v1, again, size)
	}
}
