package c07

import (
	"testing"
	"time"

	tmmath "github.com/tendermint/tendermint/libs/math"
	"github.com/tendermint/tendermint/types"

	"verif/lib"
)

// TestRegressTrustLevelBeyondInt64: library-free replay of the finding C07-trust-level-wraps-negative. Ten validators
// of power 10, a commit with ONE valid for-block signature (the rest absent). A trust fraction whose numerator is
// 2^64-1 (far above 1: no commit can meet it) was converted to int64(-1): the voting power needed became negative
// and the single signature was accepted.
func TestRegressTrustLevelBeyondInt64(t *testing.T) {
	keys := []int{0, 1, 2, 3, 4, 5, 6, 7, 8, 9}
	powers := []int64{10, 10, 10, 10, 10, 10, 10, 10, 10, 10}
	vs := lib.NewValSet(keys, powers).Set
	id := types.BlockID{Hash: make([]byte, 32), PartSetHeader: types.PartSetHeader{Total: 1, Hash: make([]byte, 32)}}
	id.Hash[0], id.PartSetHeader.Hash[0] = 1, 2
	flags := make([]types.BlockIDFlag, 10)
	for i := range flags {
		flags[i] = types.BlockIDFlagAbsent
	}
	flags[3] = types.BlockIDFlagCommit
	c := lib.SignCommit("chain-A", 5, 0, id, vs, flags, time.Unix(1700000000, 0).UTC(), nil)
	if err := vs.VerifyCommitLightTrusting("chain-A", c, tmmath.Fraction{Numerator: 1, Denominator: 3}); err == nil {
		t.Fatalf("VERIF-INFRA: the control (10 of 100 at 1/3) was accepted")
	}
	max := ^uint64(0)
	for _, f := range []tmmath.Fraction{{Numerator: max, Denominator: 1}, {Numerator: max, Denominator: 3}, {Numerator: max - 1, Denominator: 2},
		{Numerator: 1 << 63, Denominator: 1}, {Numerator: max, Denominator: max}, {Numerator: 1, Denominator: max}} {
		if err := vs.VerifyCommitLightTrusting("chain-A", c, f); err == nil && f.Numerator >= f.Denominator {
			t.Fatalf("C07 violated: commit with 10 of 100 power accepted at trust level %d/%d (>= 1)", f.Numerator, f.Denominator)
		}
	}
}
