package c07

import (
	"testing"
	"time"

	tmmath "github.com/tendermint/tendermint/libs/math"
	tmproto "github.com/tendermint/tendermint/proto/tendermint/types"
	"github.com/tendermint/tendermint/types"

	"verif/lib"
)

// TestRegressTrustLevelBeyondInt64: library-free replay of the finding C07-trust-level-wraps-negative. Ten validators
// of power 10, a commit with ONE valid for-block signature (the rest absent). A trust fraction whose numerator is
// 2^64-1 (far above 1: no commit can meet it) was converted to int64(-1): the voting power needed became negative
// and the single signature was accepted.
func TestRegressTrustLevelBeyondInt64(t *testing.T) {
	keys := []int{0, 1, 2, 3, 4, 5, 6, 7, 8, 9}
	powers := []int64{10, 10, 10, 10, 10, 10, 10, 10, 10, 10}
	vs := lib.NewValSet(keys, powers).Set
	id := types.BlockID{Hash: make([]byte, 32), PartSetHeader: types.PartSetHeader{Total: 1, Hash: make([]byte, 32)}}
	id.Hash[0], id.PartSetHeader.Hash[0] = 1, 2
	flags := make([]types.BlockIDFlag, 10)
	for i := range flags {
		flags[i] = types.BlockIDFlagAbsent
	}
	flags[3] = types.BlockIDFlagCommit
	c := lib.SignCommit("chain-A", 5, 0, id, vs, flags, time.Unix(1700000000, 0).UTC(), nil)
	if err := vs.VerifyCommitLightTrusting("chain-A", c, tmmath.Fraction{Numerator: 1, Denominator: 3}); err == nil {
		t.Fatalf("VERIF-INFRA: the control (10 of 100 at 1/3) was accepted")
	}
	max := ^uint64(0)
	for _, f := range []tmmath.Fraction{{Numerator: max, Denominator: 1}, {Numerator: max, Denominator: 3}, {Numerator: max - 1, Denominator: 2},
		{Numerator: 1 << 63, Denominator: 1}, {Numerator: max, Denominator: max}, {Numerator: 1, Denominator: max}} {
		if err := vs.VerifyCommitLightTrusting("chain-A", c, f); err == nil && f.Numerator >= f.Denominator {
			t.Fatalf("C07 violated: commit with 10 of 100 power accepted at trust level %d/%d (>= 1)", f.Numerator, f.Denominator)
		}
	}
}

// TestRegressRepeatedMemberCountedTwice: library-free replay of the finding C07-repeated-member-counted-per-entry. A
// validator set decoded from the wire that lists validator A five times next to B and C (power 1 each): a commit in
// which only A signed - in each of its slots - was accepted by VerifyCommit and VerifyCommitLight (5 of 7 "members").
// Either the decoder refuses such a set or the verifiers count A once.
func TestRegressRepeatedMemberCountedTwice(t *testing.T) {
	a, b, c := types.NewValidator(lib.Key(0).PubKey(), 1), types.NewValidator(lib.Key(1).PubKey(), 1), types.NewValidator(lib.Key(2).PubKey(), 1)
	raw := &types.ValidatorSet{Validators: []*types.Validator{a, a.Copy(), a.Copy(), a.Copy(), a.Copy(), b, c}, Proposer: a.Copy()}
	vp, err := raw.ToProto()
	if err != nil {
		t.Fatalf("VERIF-INFRA: %v", err)
	}
	bz, _ := vp.Marshal()
	var back tmproto.ValidatorSet
	if err := back.Unmarshal(bz); err != nil {
		t.Fatalf("VERIF-INFRA: %v", err)
	}
	vs, err := types.ValidatorSetFromProto(&back)
	if err != nil {
		return // refused at the door
	}
	id := types.BlockID{Hash: make([]byte, 32), PartSetHeader: types.PartSetHeader{Total: 1, Hash: make([]byte, 32)}}
	id.Hash[0], id.PartSetHeader.Hash[0] = 1, 2
	flags := []types.BlockIDFlag{0, 0, 0, 0, 0, types.BlockIDFlagAbsent, types.BlockIDFlagAbsent}
	cm := lib.SignCommit("chain-A", 5, 0, id, vs, flags, time.Unix(1700000000, 0).UTC(), nil)
	if err := noPanic(func() error { return vs.VerifyCommit("chain-A", id, 5, cm) }); err == nil {
		t.Fatalf("C07 violated: VerifyCommit accepted a commit signed by ONE of three validators (listed five times in the decoded set)")
	}
	if err := noPanic(func() error { return vs.VerifyCommitLight("chain-A", id, 5, cm) }); err == nil {
		t.Fatalf("C07 violated: VerifyCommitLight accepted a commit signed by ONE of three validators (listed five times in the decoded set)")
	}
}

// TestRegressSameKeyUnderSeveralAddresses: the companion of TestRegressRepeatedMemberCountedTwice - validator A's
// public key five times under five made-up addresses next to B and C: one signature by A copied into five slots was
// accepted as 5 of 7.
func TestRegressSameKeyUnderSeveralAddresses(t *testing.T) {
	a, b, c := types.NewValidator(lib.Key(0).PubKey(), 1), types.NewValidator(lib.Key(1).PubKey(), 1), types.NewValidator(lib.Key(2).PubKey(), 1)
	list := []*types.Validator{a}
	for i := 1; i < 5; i++ {
		cp := a.Copy()
		cp.Address = append([]byte(nil), a.Address...)
		cp.Address[0] ^= byte(i)
		list = append(list, cp)
	}
	list = append(list, b, c)
	raw := &types.ValidatorSet{Validators: list, Proposer: a.Copy()}
	vp, err := raw.ToProto()
	if err != nil {
		t.Fatalf("VERIF-INFRA: %v", err)
	}
	bz, _ := vp.Marshal()
	var back tmproto.ValidatorSet
	if err := back.Unmarshal(bz); err != nil {
		t.Fatalf("VERIF-INFRA: %v", err)
	}
	vs, err := types.ValidatorSetFromProto(&back)
	if err != nil {
		return // refused at the door
	}
	id := types.BlockID{Hash: make([]byte, 32), PartSetHeader: types.PartSetHeader{Total: 1, Hash: make([]byte, 32)}}
	id.Hash[0], id.PartSetHeader.Hash[0] = 1, 2
	ab := types.BlockIDFlagAbsent
	cm := lib.SignCommit("chain-A", 5, 0, id, vs, []types.BlockIDFlag{0, ab, ab, ab, ab, ab, ab}, time.Unix(1700000000, 0).UTC(), nil)
	for i := 1; i < 5; i++ { // all five entries hold A's key: A's one signature, under the address of each entry
		cm.Signatures[i] = cm.Signatures[0]
		cm.Signatures[i].ValidatorAddress = vs.Validators[i].Address
	}
	if err := noPanic(func() error { return vs.VerifyCommit("chain-A", id, 5, cm) }); err == nil {
		t.Fatalf("C07 violated: VerifyCommit accepted a commit signed by ONE of three validators (its key listed five times under other addresses)")
	}
	if err := noPanic(func() error { return vs.VerifyCommitLight("chain-A", id, 5, cm) }); err == nil {
		t.Fatalf("C07 violated: VerifyCommitLight accepted a commit signed by ONE of three validators (its key listed five times under other addresses)")
	}
}
