// C07 — a commit is accepted only with enough distinct valid signatures for that block.
//
// Generated: validator sets x commits built slot by slot x trust fractions. Oracle: big-integer reference tally
// with stdlib ed25519 over hand-encoded canonical sign bytes (lib/canon.go) — shares no code with
// types.ValidatorSet.VerifyCommit*.
package c07

import (
	stded "crypto/ed25519"
	"fmt"
	"strings"
	"math/big"
	"testing"
	"time"

	tmmath "github.com/tendermint/tendermint/libs/math"
	tmproto "github.com/tendermint/tendermint/proto/tendermint/types"
	"github.com/tendermint/tendermint/types"
	"pgregory.net/rapid"

	"verif/lib"
)

func TestMain(m *testing.M) { lib.Main(m) }

const ringSize = 64

var chains = []string{"chain-A", "chain-B", "c"}

type signed struct {
	chain  string
	height int64
	round  int32
	typ    byte
	id     *lib.BID // nil => nil vote
}

func bidOf(b types.BlockID) *lib.BID {
	return &lib.BID{Hash: b.Hash, PartTotal: b.PartSetHeader.Total, PartHash: b.PartSetHeader.Hash}
}

// genBlockID draws complete block ids and, less often, the incomplete shapes that still pass
// BlockID.ValidateBasic / Commit.ValidateBasic (hash present, part-set header missing or partial): their
// canonical form is NOT the nil block id, so nothing signed for nil may count for them.
func genBlockID(t *rapid.T, label string) types.BlockID {
	h := rapid.SliceOfN(rapid.Byte(), 32, 32).Draw(t, label+".hash")
	ph := rapid.SliceOfN(rapid.Byte(), 32, 32).Draw(t, label+".phash")
	id := types.BlockID{Hash: h, PartSetHeader: types.PartSetHeader{Total: rapid.Uint32Range(1, 5).Draw(t, label+".total"), Hash: ph}}
	switch rapid.SampledFrom([]string{"complete", "complete", "complete", "complete", "complete", "no-psh", "psh-total-only", "psh-hash-only"}).Draw(t, label+".shape") {
	case "no-psh":
		id.PartSetHeader = types.PartSetHeader{}
	case "psh-total-only":
		id.PartSetHeader.Hash = nil
	case "psh-hash-only":
		id.PartSetHeader.Total = 0
	}
	return id
}

var slotKinds = []string{
	"good", "good", "good", "good", "good", "good", "good", "good",
	"absent", "absent", "nil-valid", "nil-valid",
	"nil-flag-sig-for-block", "commit-flag-sig-for-nil",
	"wrong-chain", "wrong-height", "wrong-round", "wrong-block", "wrong-psh", "wrong-type",
	"wrong-signer-member", "wrong-signer-outsider", "garbage-sig", "absent-with-data",
	"wrong-address-member", "wrong-address-unknown", "repeat-signer", "ts-mismatch", "unknown-flag",
}

type scenario struct {
	vs      lib.ValSet
	profile string
	chain   string
	height  int64
	blockID types.BlockID
	commit  *types.Commit
	kinds   []string
	round   int32
	other   types.BlockID
	ts      []time.Time // per slot
}

// nonCounting are the slot kinds whose signature is genuine for SOME other context (the realistic forgery: take
// what the validators really signed elsewhere and relabel it).
var nonCounting = []string{"nil-flag-sig-for-block", "commit-flag-sig-for-nil", "wrong-chain", "wrong-height", "wrong-round",
	"wrong-block", "wrong-psh", "wrong-type", "repeat-signer", "ts-mismatch", "wrong-signer-member"}

func sign(key int, s signed, ts time.Time) []byte {
	return stded.Sign(stded.PrivateKey(lib.Key(key)), lib.CanonVoteBytes(s.chain, s.typ, s.height, s.round, s.id, ts))
}

// repeatedThroughDecoder lists one member of vs one to three more times (any positions) and passes the result through
// the protobuf decoder, the only door such a set can come through.
func repeatedThroughDecoder(t *rapid.T, vs lib.ValSet) (lib.ValSet, bool) {
	n := len(vs.Keys)
	j := rapid.IntRange(0, n-1).Draw(t, "rep.member")
	k := rapid.IntRange(1, 3).Draw(t, "rep.times")
	sum := new(big.Int)
	for _, v := range vs.Set.Validators {
		sum.Add(sum, big.NewInt(v.VotingPower))
	}
	sum.Add(sum, new(big.Int).Mul(big.NewInt(vs.Set.Validators[j].VotingPower), big.NewInt(int64(k))))
	if sum.Cmp(big.NewInt(types.MaxTotalVotingPower)) > 0 {
		return vs, false // the sum over the entries would leave the documented range: not this dimension
	}
	vals := make([]*types.Validator, 0, n+k)
	keys := make([]int, 0, n+k)
	for i, v := range vs.Set.Validators {
		vals = append(vals, v.Copy())
		keys = append(keys, vs.Keys[i])
	}
	alias := rapid.Bool().Draw(t, "rep.alias")
	for ; k > 0; k-- {
		at := rapid.IntRange(0, len(vals)).Draw(t, "rep.at")
		cp := vs.Set.Validators[j].Copy()
		if alias {
			// the same public key under a made-up address: nothing in a decoded validator ties the two together
			cp.Address = rapid.SliceOfN(rapid.Byte(), 20, 20).Draw(t, "rep.addr")
		}
		vals = append(vals[:at], append([]*types.Validator{cp}, vals[at:]...)...)
		keys = append(keys[:at], append([]int{vs.Keys[j]}, keys[at:]...)...)
	}
	raw := &types.ValidatorSet{Validators: vals, Proposer: vals[0].Copy()}
	vp, err := raw.ToProto()
	if err != nil {
		return vs, false
	}
	bz, err := vp.Marshal()
	if err != nil {
		return vs, false
	}
	var back tmproto.ValidatorSet
	if err := back.Unmarshal(bz); err != nil {
		return vs, false
	}
	out, err := types.ValidatorSetFromProto(&back)
	if err != nil {
		return vs, false
	}
	return lib.ValSet{Set: out, Keys: keys}, true
}

// genScenario builds a validator set and a commit whose slots are drawn independently from slotKinds.
// lean: probability weight towards all-good commits near the threshold.
func genScenario(t *rapid.T, maxN int) scenario {
	vs, prof := lib.GenValSet(t, 1, maxN, "vals")
	if rapid.IntRange(0, 7).Draw(t, "repeatMember") == 0 {
		// a validator set as it may come off the wire: one member listed more than once (NewValidatorSet refuses
		// that; whether the decoder does is up to the code under test - if it refuses, the clean set is used)
		if dup, ok := repeatedThroughDecoder(t, vs); ok {
			vs, prof = dup, prof+"+repeated-member"
		} else {
			prof += "+repeated-member-refused-by-decoder"
		}
	}
	n := len(vs.Keys)
	sc := scenario{vs: vs, profile: prof}
	sc.chain = rapid.SampledFrom(chains).Draw(t, "chain")
	sc.height = rapid.Int64Range(1, 1000).Draw(t, "height")
	round := rapid.Int32Range(0, 3).Draw(t, "round")
	sc.blockID = genBlockID(t, "bid")
	other := genBlockID(t, "otherbid")
	base := time.Unix(1_600_000_000, 0).UTC()

	sc.round, sc.other = round, other
	mode := rapid.SampledFrom([]string{"mixed", "mixed", "threshold", "allgood-some-absent", "wholesale"}).Draw(t, "mode")
	wholesale := ""
	if mode == "wholesale" {
		// every validator's genuine signature from ONE other context, relabelled for this block
		wholesale = rapid.SampledFrom(nonCounting).Draw(t, "wholesale")
	}
	length := n
	if mode == "mixed" {
		length = n + rapid.SampledFrom([]int{0, 0, 0, 0, 0, 0, -1, 1}).Draw(t, "dlen")
		if length < 0 {
			length = 0
		}
	}
	sigs := make([]types.CommitSig, length)
	sc.kinds = make([]string, length)
	sc.ts = make([]time.Time, length)

	// threshold mode: choose a subset whose power is as close as possible to 2/3 from a drawn side
	var inSubset []bool
	if mode == "threshold" {
		inSubset = make([]bool, n)
		total := new(big.Int)
		for _, v := range vs.Set.Validators {
			total.Add(total, big.NewInt(v.VotingPower))
		}
		need := new(big.Int).Mul(total, big.NewInt(2))
		need.Div(need, big.NewInt(3)) // floor(2T/3)
		acc := new(big.Int)
		order := rapid.Permutation(seq(n)).Draw(t, "order")
		for _, i := range order {
			p := big.NewInt(vs.Set.Validators[i].VotingPower)
			if new(big.Int).Add(acc, p).Cmp(need) <= 0 {
				acc.Add(acc, p)
				inSubset[i] = true
			}
		}
		// now acc <= floor(2T/3): insufficient. With a drawn coin add one more validator to cross.
		if rapid.Bool().Draw(t, "cross") {
			for _, i := range order {
				if !inSubset[i] {
					inSubset[i] = true
					break
				}
			}
		}
	}

	for i := 0; i < length; i++ {
		kind := "good"
		switch mode {
		case "mixed":
			kind = rapid.SampledFrom(slotKinds).Draw(t, "kind")
		case "threshold":
			if i < n && !inSubset[i] {
				kind = rapid.SampledFrom([]string{"absent", "nil-valid", "absent"}).Draw(t, "kind")
			}
		case "allgood-some-absent":
			kind = rapid.SampledFrom([]string{"good", "good", "good", "absent", "nil-valid"}).Draw(t, "kind")
		case "wholesale":
			kind = wholesale
			if rapid.IntRange(0, 7).Draw(t, "hole") == 0 {
				kind = rapid.SampledFrom([]string{"absent", "good", "nil-valid"}).Draw(t, "kind")
			}
		}
		if i >= n && (kind != "absent") {
			kind = "extra-outsider"
		}
		sc.kinds[i] = kind
		ts := base.Add(time.Duration(rapid.Int64Range(0, 1_000_000_000_000).Draw(t, "ts")))
		sc.ts[i] = ts
		right := signed{sc.chain, sc.height, round, byte(tmproto.PrecommitType), bidOf(sc.blockID)}
		key := -1
		var addr []byte
		if i < n {
			key = vs.Keys[i]
			addr = vs.Set.Validators[i].Address
		}
		cs := types.CommitSig{BlockIDFlag: types.BlockIDFlagCommit, ValidatorAddress: addr, Timestamp: ts}
		switch kind {
		case "good":
			cs.Signature = sign(key, right, ts)
		case "absent":
			cs = types.NewCommitSigAbsent()
		case "nil-valid":
			cs.BlockIDFlag = types.BlockIDFlagNil
			s := right
			s.id = nil
			cs.Signature = sign(key, s, ts)
		case "nil-flag-sig-for-block":
			cs.BlockIDFlag = types.BlockIDFlagNil
			cs.Signature = sign(key, right, ts)
		case "commit-flag-sig-for-nil":
			s := right
			s.id = nil
			cs.Signature = sign(key, s, ts)
		case "wrong-chain":
			s := right
			s.chain = sc.chain + "x"
			cs.Signature = sign(key, s, ts)
		case "wrong-height":
			s := right
			s.height += rapid.SampledFrom([]int64{-1, 1}).Draw(t, "dh")
			cs.Signature = sign(key, s, ts)
		case "wrong-round":
			s := right
			s.round++
			cs.Signature = sign(key, s, ts)
		case "wrong-block":
			s := right
			s.id = bidOf(other)
			cs.Signature = sign(key, s, ts)
		case "wrong-psh":
			s := right
			b := *bidOf(sc.blockID)
			b.PartTotal++
			s.id = &b
			cs.Signature = sign(key, s, ts)
		case "wrong-type":
			s := right
			s.typ = byte(tmproto.PrevoteType)
			cs.Signature = sign(key, s, ts)
		case "wrong-signer-member":
			cs.Signature = sign(vs.Keys[rapid.IntRange(0, n-1).Draw(t, "k")], right, ts)
			if n == 1 {
				cs.Signature = sign(ringSize+1, right, ts)
			} else if string(cs.Signature) == string(sign(key, right, ts)) {
				cs.Signature = sign(vs.Keys[(i+1)%n], right, ts)
			}
		case "wrong-signer-outsider", "extra-outsider":
			o := ringSize + rapid.IntRange(0, 3).Draw(t, "o")
			cs.Signature = sign(o, right, ts)
			if kind == "extra-outsider" {
				cs.ValidatorAddress = lib.Key(o).PubKey().Address()
			}
		case "garbage-sig":
			cs.Signature = rapid.SliceOfN(rapid.Byte(), 64, 64).Draw(t, "garbage")
		case "absent-with-data":
			cs.BlockIDFlag = types.BlockIDFlagAbsent
			cs.Signature = sign(key, right, ts)
		case "wrong-address-member":
			cs.Signature = sign(key, right, ts)
			cs.ValidatorAddress = vs.Set.Validators[rapid.IntRange(0, n-1).Draw(t, "a")].Address
		case "wrong-address-unknown":
			cs.Signature = sign(key, right, ts)
			cs.ValidatorAddress = lib.Key(ringSize + 2).PubKey().Address()
		case "repeat-signer":
			// a slot that carries another member's address and that member's valid signature
			j := rapid.IntRange(0, n-1).Draw(t, "j")
			cs.ValidatorAddress = vs.Set.Validators[j].Address
			cs.Signature = sign(vs.Keys[j], right, ts)
		case "ts-mismatch":
			cs.Signature = sign(key, right, ts.Add(time.Nanosecond))
		case "unknown-flag":
			// a flag value outside absent / commit / nil (a commit built in memory: the wire decoder refuses these),
			// over a signature that would be valid for the block, for nil, or over garbage
			cs.BlockIDFlag = types.BlockIDFlag(rapid.SampledFrom([]byte{0, 4, 5, 200, 255}).Draw(t, "flag"))
			switch rapid.IntRange(0, 2).Draw(t, "flagsig") {
			case 0:
				cs.Signature = sign(key, right, ts)
			case 1:
				s := right
				s.id = nil
				cs.Signature = sign(key, s, ts)
			default:
				cs.Signature = rapid.SliceOfN(rapid.Byte(), 64, 64).Draw(t, "garbage")
			}
		}
		sigs[i] = cs
	}
	sc.commit = types.NewCommit(sc.height, round, sc.blockID, sigs)
	return sc
}

// viaWire passes a validator set through its protobuf encoding with the fields no hash covers forged by the sender
// (total_voting_power; the proposer entry's priority): light blocks, evidence and state-sync data reach the verify
// functions in exactly this way, and the required fraction is a fraction of the set's REAL total power.
func viaWire(t *rapid.T, vals *types.ValidatorSet, label string) (*types.ValidatorSet, string) {
	mode := rapid.SampledFrom([]string{"memory", "memory", "honest-wire", "forged-total", "forged-total"}).Draw(t, label)
	if mode == "memory" {
		return vals, mode
	}
	vp, err := vals.ToProto()
	if err != nil {
		t.Fatalf("VERIF-INFRA: ToProto: %v", err)
	}
	if mode == "forged-total" {
		real := vals.TotalVotingPower()
		vp.TotalVotingPower = rapid.SampledFrom([]int64{1, 2, real / 3, real / 2, real - 1, real + 1, 1<<63 - 1, -1, -real}).Draw(t, label+".total")
		if vp.Proposer != nil && rapid.Bool().Draw(t, label+".prio") {
			vp.Proposer.ProposerPriority = rapid.Int64Range(-1<<40, 1<<40).Draw(t, label+".pp")
		}
	}
	bz, err := vp.Marshal()
	if err != nil {
		t.Fatalf("VERIF-INFRA: marshal: %v", err)
	}
	var back tmproto.ValidatorSet
	if err := back.Unmarshal(bz); err != nil {
		t.Fatalf("VERIF-INFRA: unmarshal: %v", err)
	}
	out, err := types.ValidatorSetFromProto(&back)
	if err != nil {
		// a decoder may refuse a forged message; an honest one must decode
		if mode == "honest-wire" {
			t.Fatalf("honest validator set does not survive its own encoding: %v", err)
		}
		return vals, "forged-total-refused-by-decoder"
	}
	return out, mode
}

// warmUp verifies, through all three entry points and BEFORE the verification under test, genuine commits of the same
// validators at the same timestamps for other contexts (another block, nil, another round / height / chain): the
// signatures the non-counting slot kinds reuse. The property is a function of the arguments alone, so nothing that
// was verified earlier in the process may change an outcome (caches keyed too coarsely would).
func warmUp(t *rapid.T, sc scenario) []string {
	n := len(sc.vs.Keys)
	var done []string
	if strings.HasSuffix(sc.profile, "+repeated-member") {
		return nil // "genuine commit of all validators" has no meaning for a set that lists a member twice
	}
	for _, ctx := range []string{"other-block", "nil", "round+1", "height+1", "height-1", "chain-x"} {
		if !rapid.Bool().Draw(t, "warm."+ctx) {
			continue
		}
		chain, height, round, id := sc.chain, sc.height, sc.round, sc.blockID
		flag := types.BlockIDFlagCommit
		switch ctx {
		case "other-block":
			id = sc.other
		case "nil":
			flag = types.BlockIDFlagNil
		case "round+1":
			round++
		case "height+1":
			height++
		case "height-1":
			height--
		case "chain-x":
			chain += "x"
		}
		if height < 1 {
			continue
		}
		sigs := make([]types.CommitSig, n)
		for i := 0; i < n; i++ {
			ts := time.Unix(1_600_000_000, 0).UTC()
			if i < len(sc.ts) {
				ts = sc.ts[i]
			}
			s := signed{chain, height, round, byte(tmproto.PrecommitType), bidOf(id)}
			if flag == types.BlockIDFlagNil {
				s.id = nil
			}
			sigs[i] = types.CommitSig{BlockIDFlag: flag, ValidatorAddress: sc.vs.Set.Validators[i].Address, Timestamp: ts, Signature: sign(sc.vs.Keys[i], s, ts)}
		}
		c := types.NewCommit(height, round, id, sigs)
		errF := sc.vs.Set.VerifyCommit(chain, id, height, c)
		errL := sc.vs.Set.VerifyCommitLight(chain, id, height, c)
		errT := sc.vs.Set.VerifyCommitLightTrusting(chain, c, tmmath.Fraction{Numerator: 1, Denominator: 3})
		if flag == types.BlockIDFlagCommit && (errF != nil || errL != nil || errT != nil) {
			t.Fatalf("genuine commit of all validators (context %s) rejected: full=%v light=%v trusting=%v", ctx, errF, errL, errT)
		}
		if flag == types.BlockIDFlagNil && (errF == nil || errL == nil || errT == nil) {
			t.Fatalf("commit made of nil precommits only accepted: full=%v light=%v trusting=%v", errF, errL, errT)
		}
		done = append(done, ctx)
	}
	return done
}

func seq(n int) []int {
	s := make([]int, n)
	for i := range s {
		s[i] = i
	}
	return s
}

// ---- reference ----

type refResult struct {
	tally    *big.Int // power of distinct members with a counting signature
	total    *big.Int
	allValid bool // every non-absent slot verifies under its own flag's block id (index lookup)
	counted  int
	nonCount int // slots that are not absent and do not count
}

func refVerifySlot(pub []byte, chain string, c *types.Commit, cs types.CommitSig) bool {
	var id *lib.BID
	if cs.BlockIDFlag == types.BlockIDFlagCommit {
		id = bidOf(c.BlockID)
	}
	msg := lib.CanonVoteBytes(chain, byte(tmproto.PrecommitType), c.Height, c.Round, id, cs.Timestamp)
	return len(pub) == stded.PublicKeySize && stded.Verify(stded.PublicKey(pub), msg, cs.Signature)
}

// noPanic: a verifier that panics has not accepted (the full variant panics on flag values that do not exist); what
// the property forbids is acceptance.
func noPanic(f func() error) (err error) {
	defer func() {
		if r := recover(); r != nil {
			err = fmt.Errorf("panic: %v", r)
		}
	}()
	return f()
}

// refTally: byIndex => validator = vals[idx] (full and light variants); else lookup by address (trusting variant).
func refTally(vals *types.ValidatorSet, chain string, c *types.Commit, byIndex bool) refResult {
	r := refResult{tally: new(big.Int), total: new(big.Int), allValid: true}
	members := map[string]bool{}
	for _, v := range vals.Validators {
		// a member is whoever holds the key the signatures are verified with
		if members[string(v.PubKey.Bytes())] {
			r.allValid = false // a malformed set: soundness only, acceptance is never demanded
			continue           // a member listed again is still one member
		}
		members[string(v.PubKey.Bytes())] = true
		r.total.Add(r.total, big.NewInt(v.VotingPower))
	}
	seen := map[string]bool{}
	for idx, cs := range c.Signatures {
		if cs.BlockIDFlag == types.BlockIDFlagAbsent {
			continue
		}
		if cs.BlockIDFlag != types.BlockIDFlagCommit && cs.BlockIDFlag != types.BlockIDFlagNil {
			// no such flag: the slot counts for nothing and the commit is not one "all of whose signatures are valid"
			r.allValid = false
			r.nonCount++
			continue
		}
		var val *types.Validator
		if byIndex {
			if idx < len(vals.Validators) {
				val = vals.Validators[idx]
			}
		} else {
			for _, v := range vals.Validators {
				if string(v.Address) == string(cs.ValidatorAddress) {
					val = v
				}
			}
		}
		ok := val != nil && refVerifySlot(val.PubKey.Bytes(), chain, c, cs)
		if !ok && (byIndex || val != nil) {
			r.allValid = false
		}
		if ok && cs.BlockIDFlag == types.BlockIDFlagCommit {
			if seen[string(val.PubKey.Bytes())] {
				r.allValid = false // repeated signer
				continue
			}
			seen[string(val.PubKey.Bytes())] = true
			r.tally.Add(r.tally, big.NewInt(val.VotingPower))
			r.counted++
		} else {
			r.nonCount++
		}
	}
	return r
}

func above(tally, total *big.Int, num, den *big.Int) bool {
	// tally * den > total * num
	return new(big.Int).Mul(tally, den).Cmp(new(big.Int).Mul(total, num)) > 0
}

func nearThreshold(r refResult, num, den int64) bool {
	// |tally*den - total*num| <= den  (within one power unit)
	d := new(big.Int).Sub(new(big.Int).Mul(r.tally, big.NewInt(den)), new(big.Int).Mul(r.total, big.NewInt(num)))
	d.Abs(d)
	return d.Cmp(big.NewInt(den)) <= 0
}

func describe(sc scenario) map[string]interface{} {
	ps := []int64{}
	for _, v := range sc.vs.Set.Validators {
		ps = append(ps, v.VotingPower)
	}
	if len(ps) > 12 {
		ps = ps[:12]
	}
	k := sc.kinds
	if len(k) > 12 {
		k = k[:12]
	}
	return map[string]interface{}{"n": len(sc.vs.Keys), "profile": sc.profile, "powers(first12)": ps, "slots(first12)": k,
		"height": sc.height, "round": sc.commit.Round}
}

// TestFullAndLight: soundness of VerifyCommit and VerifyCommitLight, completeness and mutual agreement on
// all-valid commits.
func TestFullAndLight(t *testing.T) {
	maxN := 24
	if lib.Thorough() {
		maxN = 60
	}
	rapid.Check(t, func(t *rapid.T) {
		sc := genScenario(t, maxN)
		// the caller's expectation may differ from what the commit says
		chain, height, blockID := sc.chain, sc.height, sc.blockID
		switch rapid.SampledFrom([]string{"same", "same", "same", "same", "same", "chain", "height", "block", "psh", "zero", "hash-only"}).Draw(t, "expect") {
		case "zero":
			blockID = types.BlockID{} // the caller names no block at all
		case "hash-only":
			blockID.PartSetHeader = types.PartSetHeader{}
		case "chain":
			chain = sc.chain + "y"
		case "height":
			height++
		case "block":
			blockID = genBlockID(t, "expectbid")
		case "psh":
			blockID.PartSetHeader.Total++
		}
		ref := refTally(sc.vs.Set, chain, sc.commit, true)
		threshold := above(ref.tally, ref.total, big.NewInt(2), big.NewInt(3))
		headerOK := len(sc.commit.Signatures) == sc.vs.Set.Size() && height == sc.commit.Height &&
			string(blockID.Hash) == string(sc.commit.BlockID.Hash) &&
			blockID.PartSetHeader.Total == sc.commit.BlockID.PartSetHeader.Total &&
			string(blockID.PartSetHeader.Hash) == string(sc.commit.BlockID.PartSetHeader.Hash)

		warmed := warmUp(t, sc)
		subject, wire := viaWire(t, sc.vs.Set, "wire")
		errFull := noPanic(func() error { return subject.VerifyCommit(chain, blockID, height, sc.commit) })
		errLight := noPanic(func() error { return subject.VerifyCommitLight(chain, blockID, height, sc.commit) })

		nontrivial := ref.nonCount > 0 || nearThreshold(ref, 2, 3)
		cls := []string{"profile:" + sc.profile, fmt.Sprintf("full-accept:%v", errFull == nil), fmt.Sprintf("threshold:%v", threshold),
			fmt.Sprintf("allvalid:%v", ref.allValid)}
		if nearThreshold(ref, 2, 3) {
			cls = append(cls, "near-threshold")
		}
		if len(warmed) > 0 {
			cls = append(cls, "after-verifying-related-commits")
		}
		cls = append(cls, "valset:"+wire)
		if !sc.blockID.IsComplete() {
			cls = append(cls, "incomplete-block-id")
		}
		lib.Case("TestFullAndLight", lib.FP(sc.kinds, sc.profile, len(sc.vs.Keys), ref.tally, ref.total, chain == sc.chain, headerOK), nontrivial, cls...)
		if nontrivial && lib.WantSample("TestFullAndLight") {
			d := describe(sc)
			d["ref_tally"], d["total"], d["full_err"], d["light_err"] = ref.tally.String(), ref.total.String(), fmt.Sprint(errFull), fmt.Sprint(errLight)
			lib.Sample("TestFullAndLight", d)
		}

		// soundness
		if errFull == nil && !(headerOK && threshold) {
			t.Fatalf("VerifyCommit accepted: headerOK=%v tally=%v total=%v kinds=%v", headerOK, ref.tally, ref.total, sc.kinds)
		}
		if errLight == nil && !(headerOK && threshold) {
			t.Fatalf("VerifyCommitLight accepted: headerOK=%v tally=%v total=%v kinds=%v", headerOK, ref.tally, ref.total, sc.kinds)
		}
		// completeness + agreement on commits all of whose signatures are valid
		if headerOK && ref.allValid {
			if (errFull == nil) != threshold {
				t.Fatalf("VerifyCommit on all-valid commit: err=%v but reference threshold=%v (tally=%v total=%v)", errFull, threshold, ref.tally, ref.total)
			}
			if (errLight == nil) != threshold {
				t.Fatalf("VerifyCommitLight on all-valid commit: err=%v but reference threshold=%v (tally=%v total=%v)", errLight, threshold, ref.tally, ref.total)
			}
		}
		// the full variant checks every signature: if it accepts, the light one must accept too
		if errFull == nil && errLight != nil {
			t.Fatalf("full accepts, light rejects: %v", errLight)
		}
	})
}

var u63 = uint64(1) << 63

func genFraction(t *rapid.T) (tmmath.Fraction, string) {
	kind := rapid.SampledFrom([]string{"third", "twothirds", "one", "range", "range", "any-small", "zero-den", "big", "big-wrap", "max"}).Draw(t, "fkind")
	switch kind {
	case "third":
		return tmmath.Fraction{Numerator: 1, Denominator: 3}, kind
	case "twothirds":
		return tmmath.Fraction{Numerator: 2, Denominator: 3}, kind
	case "one":
		d := rapid.Uint64Range(1, 10).Draw(t, "d")
		return tmmath.Fraction{Numerator: d, Denominator: d}, kind
	case "range":
		d := rapid.Uint64Range(1, 1000).Draw(t, "d")
		n := rapid.Uint64Range((d+2)/3, d).Draw(t, "n")
		return tmmath.Fraction{Numerator: n, Denominator: d}, kind
	case "any-small":
		return tmmath.Fraction{Numerator: rapid.Uint64Range(0, 20).Draw(t, "n"), Denominator: rapid.Uint64Range(1, 20).Draw(t, "d")}, kind
	case "zero-den":
		return tmmath.Fraction{Numerator: rapid.Uint64Range(0, 3).Draw(t, "n"), Denominator: 0}, kind
	case "big":
		// large but below 2^63, inside [1/3,1]
		d := rapid.Uint64Range(u63/2, u63-1).Draw(t, "d")
		n := rapid.Uint64Range(d/3+1, d).Draw(t, "n")
		return tmmath.Fraction{Numerator: n, Denominator: d}, kind
	case "big-wrap":
		// denominators at and above 2^63 with numerators that keep the level inside [1/3,1]
		d := u63 + rapid.Uint64Range(0, 1<<20).Draw(t, "dd")
		lo := d/3 + 1
		n := rapid.Uint64Range(lo, lo+rapid.Uint64Range(0, 1<<62).Draw(t, "span")).Draw(t, "n")
		if n > d {
			n = d
		}
		return tmmath.Fraction{Numerator: n, Denominator: d}, kind
	default:
		return tmmath.Fraction{Numerator: rapid.SampledFrom([]uint64{u63 - 1, u63, ^uint64(0)}).Draw(t, "n"),
			Denominator: rapid.SampledFrom([]uint64{u63 - 1, u63, ^uint64(0)}).Draw(t, "d")}, kind
	}
}

// TestTrusting: VerifyCommitLightTrusting against a set that need not be the commit's own set.
func TestTrusting(t *testing.T) {
	maxN := 16
	if lib.Thorough() {
		maxN = 40
	}
	rapid.Check(t, func(t *rapid.T) {
		sc := genScenario(t, maxN)
		// trusted set: same, subset, or overlap with other keys and other powers
		trusted := sc.vs.Set
		tkind := rapid.SampledFrom([]string{"same", "subset", "overlap", "tiny"}).Draw(t, "tkind")
		n := len(sc.vs.Keys)
		switch tkind {
		case "subset", "overlap", "tiny":
			var keys []int
			var powers []int64
			kept := map[int]bool{}
			for i := 0; i < n; i++ {
				if rapid.Bool().Draw(t, "keep") && !kept[sc.vs.Keys[i]] {
					kept[sc.vs.Keys[i]] = true
					keys = append(keys, sc.vs.Keys[i])
					p := sc.vs.Set.Validators[i].VotingPower
					if tkind == "overlap" && rapid.Bool().Draw(t, "repower") {
						p = rapid.Int64Range(1, 100).Draw(t, "p")
					}
					if tkind == "tiny" {
						p = 1
					}
					powers = append(powers, p)
				}
			}
			if tkind == "overlap" {
				for j := 0; j < rapid.IntRange(0, 3).Draw(t, "extra"); j++ {
					keys = append(keys, ringSize+10+j)
					powers = append(powers, rapid.Int64Range(1, 100).Draw(t, "ep"))
				}
			}
			if len(keys) == 0 {
				keys, powers = []int{sc.vs.Keys[0]}, []int64{1}
			}
			if tkind == "tiny" && len(keys) > 3 {
				keys, powers = keys[:3], powers[:3]
			}
			var sum int64
			okSum := true
			for _, p := range powers {
				sum += p
				if sum > types.MaxTotalVotingPower || sum < 0 {
					okSum = false
				}
			}
			if okSum {
				trusted = lib.NewValSet(keys, powers).Set
			}
		}
		level, fkind := genFraction(t)
		chain := sc.chain
		if rapid.IntRange(0, 9).Draw(t, "wrongchain") == 0 {
			chain += "z"
		}
		ref := refTally(trusted, chain, sc.commit, false)

		// "all trust fractions": the fraction type holds uint64s, so values at and above 2^63 belong to the domain
		// (soundness only: nothing may be accepted below the level; completeness is demanded for representable levels)
		inDomain := true
		warmed := warmUp(t, sc)
		subject, wire := viaWire(t, trusted, "wire")
		err := noPanic(func() error { return subject.VerifyCommitLightTrusting(chain, sc.commit, level) })

		num, den := new(big.Int).SetUint64(level.Numerator), new(big.Int).SetUint64(level.Denominator)
		threshold := level.Denominator != 0 && above(ref.tally, ref.total, num, den)
		near := false
		if level.Denominator != 0 {
			d := new(big.Int).Sub(new(big.Int).Mul(ref.tally, den), new(big.Int).Mul(ref.total, num))
			near = d.Abs(d).Cmp(den) <= 0
		}
		nontrivial := ref.nonCount > 0 || near
		lib.Case("TestTrusting", lib.FP(sc.kinds, sc.profile, tkind, n, ref.tally, ref.total, level.Numerator, level.Denominator), nontrivial,
			"fraction:"+fkind, "trusted:"+tkind, fmt.Sprintf("accept:%v", err == nil), fmt.Sprintf("indomain:%v", inDomain),
			fmt.Sprintf("after-verifying-related-commits:%v", len(warmed) > 0), fmt.Sprintf("complete-block-id:%v", sc.blockID.IsComplete()), "valset:"+wire)
		if nontrivial && lib.WantSample("TestTrusting") {
			d := describe(sc)
			d["trusted"], d["level"], d["ref_tally"], d["total"], d["err"] = tkind, level.String(), ref.tally.String(), ref.total.String(), fmt.Sprint(err)
			lib.Sample("TestTrusting", d)
		}
		if !inDomain {
			return
		}
		if err == nil && !threshold {
			t.Fatalf("VerifyCommitLightTrusting accepted with tally=%v total=%v level=%v trusted=%s kinds=%v", ref.tally, ref.total, level, tkind, sc.kinds)
		}
		// completeness: all counting-eligible slots valid, no repeats, arithmetic representable
		prod := new(big.Int).Mul(ref.total, num)
		representable := level.Numerator < u63 && level.Denominator < u63 && level.Denominator != 0 && prod.IsInt64()
		if ref.allValid && representable && threshold && err != nil {
			t.Fatalf("VerifyCommitLightTrusting rejected a commit that meets the level: %v (tally=%v total=%v level=%v)", err, ref.tally, ref.total, level)
		}
	})
}

// TestSignBytesAgree: the hand-written canonical encoder used by the oracle equals the real one on genuine votes
// (guards the oracle itself; a disagreement would make the other tests vacuous or noisy).
func TestSignBytesAgree(t *testing.T) {
	rapid.Check(t, func(t *rapid.T) {
		chain := rapid.StringN(0, 50, 50).Draw(t, "chain")
		typ := rapid.SampledFrom([]tmproto.SignedMsgType{tmproto.PrevoteType, tmproto.PrecommitType}).Draw(t, "typ")
		h := rapid.Int64Range(0, 1<<40).Draw(t, "h")
		r := rapid.Int32Range(0, 1000).Draw(t, "r")
		ts := time.Unix(rapid.Int64Range(-100, 1<<33).Draw(t, "s"), rapid.Int64Range(0, 999_999_999).Draw(t, "ns")).UTC()
		var bid types.BlockID
		nilVote := rapid.Bool().Draw(t, "nil")
		if !nilVote {
			bid = genBlockID(t, "bid")
		}
		v := &types.Vote{Type: typ, Height: h, Round: r, BlockID: bid, Timestamp: ts}
		want := types.VoteSignBytes(chain, v.ToProto())
		var id *lib.BID
		if !nilVote {
			id = bidOf(bid)
		}
		got := lib.CanonVoteBytes(chain, byte(typ), h, r, id, ts)
		lib.Case("TestSignBytesAgree", lib.FP(chain, typ, h, r, nilVote, ts), !nilVote && h != 0)
		if string(got) != string(want) {
			t.Fatalf("sign bytes differ\n got %x\nwant %x", got, want)
		}
		p := &types.Proposal{Type: tmproto.ProposalType, Height: h, Round: r, POLRound: rapid.Int32Range(-1, 5).Draw(t, "pol"), BlockID: bid, Timestamp: ts}
		wantP := types.ProposalSignBytes(chain, p.ToProto())
		gotP := lib.CanonProposalBytes(chain, h, r, p.POLRound, id, ts)
		if string(gotP) != string(wantP) {
			t.Fatalf("proposal sign bytes differ\n got %x\nwant %x", gotP, wantP)
		}
	})
}
