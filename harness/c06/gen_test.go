package c06

import (
	"bytes"
	stded "crypto/ed25519"
	"fmt"
	"math/big"
	"time"

	dbm "github.com/tendermint/tm-db"

	abci "github.com/tendermint/tendermint/abci/types"
	"github.com/tendermint/tendermint/evidence"
	tmproto "github.com/tendermint/tendermint/proto/tendermint/types"
	sm "github.com/tendermint/tendermint/state"
	"github.com/tendermint/tendermint/types"
	"pgregory.net/rapid"

	"verif/lib"
)

const ringMax = 300 // lib.KeyIndex knows the first 320 ring keys

// lazyPool lets the chain builder's executor use a real evidence pool that can only be constructed after the
// chain's stores exist.
type lazyPool struct{ p sm.EvidencePool }

func (l *lazyPool) PendingEvidence(m int64) ([]types.Evidence, int64) { return l.p.PendingEvidence(m) }
func (l *lazyPool) AddEvidence(e types.Evidence) error                { return l.p.AddEvidence(e) }
func (l *lazyPool) Update(s sm.State, e types.EvidenceList)           { l.p.Update(s, e) }
func (l *lazyPool) CheckEvidence(e types.EvidenceList) error          { return l.p.CheckEvidence(e) }

// built is a generated chain plus what the generator needs to keep extending it.
type built struct {
	c        *lib.Chain
	spec     lib.ChainSpec
	plans    map[int64]*lib.HeightPlan
	realPool bool
	profile  string
	nextKey  int
	evSeen   map[string]bool // hashes of evidence committed in blocks so far
	saturate bool            // total power at the maximum: no additions
	farApplied int
	stray      map[int64][]strayVote // per height: validators outside the commit that precommitted another block id
	viaVoteSet map[int64]bool        // per height: the commit handed to the next proposer is VoteSet.MakeCommit() of the precommits
	strayApplied int
	pool       sm.EvidencePool // the real pool when realPool
	far      map[int64][]farStamp // per height: commit slots of a <1/3 minority re-stamped far away from the honest votes
}

// farStamp: slot of the commit for a height whose (validly signed) precommit timestamp lies centuries away from the
// block - vote timestamps are only required to be valid protobuf timestamps (years 1..9999).
type farStamp struct {
	slot int
	kind string
}

var farKinds = []string{"+2^64ns", "-2^64ns", "+2^63ns", "-2^63ns", "+300y", "-300y", "year1", "year9999", "unixnano-max+1"}

func farTime(ts time.Time, kind string) time.Time {
	// stay inside the protobuf timestamp range (years 1..9999) with room for the small shifts other perturbations add
	lo, hi := time.Date(1, 2, 1, 0, 0, 1, 0, time.UTC), time.Date(9999, 11, 30, 23, 59, 59, 999999999, time.UTC)
	clamp := func(x time.Time) time.Time {
		if x.Before(lo) {
			return lo
		}
		if x.After(hi) {
			return hi
		}
		return x
	}
	const half = time.Duration(1<<63 - 1)
	switch kind {
	case "+2^64ns":
		return clamp(ts.Add(half).Add(half).Add(2))
	case "-2^64ns":
		return clamp(ts.Add(-half).Add(-half).Add(-2))
	case "+2^63ns":
		return clamp(ts.Add(half).Add(1))
	case "-2^63ns":
		return clamp(ts.Add(-half).Add(-1))
	case "+300y":
		return clamp(ts.AddDate(300, 0, 0))
	case "-300y":
		return clamp(ts.AddDate(-300, 0, 0))
	case "year1":
		return lo
	case "year9999":
		return hi
	}
	return time.Unix(0, 1<<63-1).Add(1).UTC()
}

// strayVote: a validator whose slot is absent in the commit did cast a (validly signed) precommit, but for another
// block id: the same block hash under another part-set header (one block handed out in two encodings), or another hash.
type strayVote struct {
	pick int // index into the absent slots
	kind string
}

var strayKinds = []string{"same-hash-other-total", "same-hash-other-parthash", "other-hash", "other-hash-same-psh"}

// commitViaVoteSet rebuilds the commit the way a proposer obtains it: every precommit (those of the commit plus the
// stray ones) goes into a real types.VoteSet, the commit is VoteSet.MakeCommit().
func commitViaVoteSet(chainID string, c *types.Commit, vals *types.ValidatorSet, strays []strayVote) (*types.Commit, int, error) {
	vs := types.NewVoteSet(chainID, c.Height, c.Round, tmproto.PrecommitType, vals)
	var absent []int
	for i, s := range c.Signatures {
		if s.BlockIDFlag == types.BlockIDFlagAbsent {
			absent = append(absent, i)
			continue
		}
		if added, err := vs.AddVote(c.GetVote(int32(i))); err != nil || !added {
			return nil, 0, fmt.Errorf("precommit of slot %d not added: %v", i, err)
		}
	}
	used := map[int]bool{}
	n := 0
	for _, sv := range strays {
		if len(absent) == 0 {
			break
		}
		i := absent[sv.pick%len(absent)]
		if used[i] {
			continue
		}
		used[i] = true
		id := c.BlockID
		id.Hash = append([]byte(nil), id.Hash...)
		id.PartSetHeader.Hash = append([]byte(nil), id.PartSetHeader.Hash...)
		switch sv.kind {
		case "same-hash-other-total":
			id.PartSetHeader.Total++
		case "same-hash-other-parthash":
			id.PartSetHeader.Hash[0] ^= 1
		case "other-hash":
			id.Hash[0] ^= 1
			id.PartSetHeader.Hash[0] ^= 1
		default:
			id.Hash[31] ^= 0x80
		}
		v := &types.Vote{Type: tmproto.PrecommitType, Height: c.Height, Round: c.Round, BlockID: id,
			Timestamp: c.Signatures[firstPresent(c)].Timestamp, ValidatorAddress: vals.Validators[i].Address, ValidatorIndex: int32(i)}
		signVote(lib.KeyIndex(vals.Validators[i].Address), chainID, v)
		if added, err := vs.AddVote(v); err != nil || !added {
			return nil, 0, fmt.Errorf("stray precommit of slot %d not added: %v", i, err)
		}
		n++
	}
	if !vs.HasTwoThirdsMajority() {
		return nil, 0, fmt.Errorf("vote set without +2/3")
	}
	return vs.MakeCommit(), n, nil
}

func firstPresent(c *types.Commit) int {
	for i, s := range c.Signatures {
		if s.BlockIDFlag != types.BlockIDFlagAbsent {
			return i
		}
	}
	return 0
}

// genFar draws far-away timestamps for present slots of the commit by vals whose total power stays below one third.
func genFar(t *rapid.T, vals *types.ValidatorSet, flags []types.BlockIDFlag, label string) []farStamp {
	var out []farStamp
	total := powerOf(vals)
	used := new(big.Int)
	n := rapid.IntRange(1, 3).Draw(t, label+".nfar")
	for j := 0; j < n; j++ {
		i := rapid.IntRange(0, len(vals.Validators)-1).Draw(t, label+".farslot")
		if i < len(flags) && flags[i] == types.BlockIDFlagAbsent {
			continue
		}
		dup := false
		for _, f := range out {
			dup = dup || f.slot == i
		}
		nu := new(big.Int).Add(used, big.NewInt(vals.Validators[i].VotingPower))
		if dup || new(big.Int).Mul(nu, big.NewInt(3)).Cmp(total) >= 0 {
			continue
		}
		used = nu
		out = append(out, farStamp{i, rapid.SampledFrom(farKinds).Draw(t, label+".farkind")})
	}
	return out
}

// restamp returns a copy of commit c (by vals) whose slots fs carry far-away timestamps, re-signed by their validators.
func restamp(chainID string, c *types.Commit, vals *types.ValidatorSet, fs []farStamp) *types.Commit {
	nc := cloneCommit(c)
	for _, f := range fs {
		if f.slot >= len(nc.Signatures) || nc.Signatures[f.slot].BlockIDFlag == types.BlockIDFlagAbsent {
			continue
		}
		s := &nc.Signatures[f.slot]
		s.Timestamp = farTime(s.Timestamp, f.kind)
		v := &types.Vote{Type: tmproto.PrecommitType, Height: nc.Height, Round: nc.Round, Timestamp: s.Timestamp}
		if s.BlockIDFlag == types.BlockIDFlagCommit {
			v.BlockID = nc.BlockID
		}
		signVote(lib.KeyIndex(vals.Validators[f.slot].Address), chainID, v)
		s.Signature = v.Signature
	}
	return nc
}

func (b *built) ValsAt(h int64) *types.ValidatorSet {
	if h < b.c.Spec.InitialHeight || h > b.c.Tip()+1 {
		return nil
	}
	return b.c.ValidatorsAt(h)
}

func (b *built) TimeAt(h int64) (time.Time, bool) {
	blk, ok := b.c.Blocks[h]
	if !ok {
		return time.Time{}, false
	}
	return blk.Time, true
}

func (b *built) Committed(h []byte) bool { return b.evSeen[string(h)] }

type genOpts struct {
	maxVals     int
	evidence    bool // allow chains with a real evidence pool and evidence in blocks
	smallBlocks bool // proposer test: tight Block.MaxBytes
}

var chainIDGen = rapid.OneOf(
	rapid.StringMatching(`[a-zA-Z0-9_\-\.]{1,50}`),
	rapid.StringMatching(`[a-z]{50}`),
	rapid.StringMatching(`[a-z]{1,3}`),
)

func genSpec(t *rapid.T, o genOpts) (lib.ChainSpec, string, bool) {
	spec := lib.ChainSpec{}
	spec.ChainID = chainIDGen.Draw(t, "chainid")
	spec.InitialHeight = rapid.SampledFrom([]int64{1, 1, 1, 2, 7, 1000, 99998, 1 << 40, 1 << 62}).Draw(t, "initial")
	spec.GenesisTime = time.Unix(rapid.Int64Range(1, 4_000_000_000).Draw(t, "gsec"), rapid.Int64Range(0, 999_999_999).Draw(t, "gnano")).UTC()
	n := rapid.IntRange(1, o.maxVals).Draw(t, "nvals")
	if o.maxVals > 40 && rapid.IntRange(0, 3).Draw(t, "smallset") != 0 {
		// big sets are expensive: keep most cases moderate
		n = rapid.IntRange(1, 30).Draw(t, "nvals2")
	}
	powers, prof := lib.GenPowers(t, n, "gen")
	keys := make([]int, n)
	for i := range keys {
		keys[i] = i
	}
	spec.Keys, spec.Powers = keys, powers
	hl := rapid.SampledFrom([]int{0, 1, 8, 20, 31, 32, 32, 32, 33, 48, 64}).Draw(t, "apphashlen")
	spec.AppHashLen = hl
	if hl == 0 {
		spec.AppHashLen = -1
	}
	p := lib.DefaultParams()
	p.Evidence.MaxAgeNumBlocks = rapid.Int64Range(1, 8).Draw(t, "maxage")
	p.Evidence.MaxAgeDuration = time.Duration(rapid.Int64Range(1, 30).Draw(t, "maxagedur")) * time.Second
	if rapid.Bool().Draw(t, "smallevbytes") {
		p.Evidence.MaxBytes = rapid.Int64Range(0, 2500).Draw(t, "evbytes")
	}
	p.Version.AppVersion = rapid.SampledFrom([]uint64{0, 0, 1, 7}).Draw(t, "appver")
	spec.Params = p
	return spec, prof, prof == "saturating"
}

// newBuilt creates the chain (real evidence pool when withPool).
func newBuilt(spec lib.ChainSpec, withPool bool, prof string, saturate bool) (*built, error) {
	b := &built{spec: spec, plans: map[int64]*lib.HeightPlan{}, realPool: withPool, profile: prof, nextKey: len(spec.Keys),
		evSeen: map[string]bool{}, saturate: saturate}
	var lp *lazyPool
	if withPool {
		lp = &lazyPool{}
		spec.EvPool = lp
	}
	c, err := lib.NewChain(spec)
	if err != nil {
		return nil, err
	}
	if withPool {
		p, err := evidence.NewPool(dbm.NewMemDB(), c.StateStore, c.BlockStore)
		if err != nil {
			c.Close()
			return nil, err
		}
		lp.p = p
		b.pool = p
	}
	b.c = c
	return b, nil
}

func powerOf(vs *types.ValidatorSet) *big.Int {
	s := new(big.Int)
	for _, v := range vs.Validators {
		s.Add(s, big.NewInt(v.VotingPower))
	}
	return s
}

// genCommitShape draws flags / round / timestamp offsets for a commit by vals such that more than 2/3 commit and the
// weighted median of the offsets is positive (next block time after this one).
func genCommitShape(t *rapid.T, vals *types.ValidatorSet, label string) ([]types.BlockIDFlag, int32, []time.Duration) {
	n := len(vals.Validators)
	flags := make([]types.BlockIDFlag, n)
	offs := make([]time.Duration, n)
	mode := rapid.SampledFrom([]string{"all", "mixed", "mixed", "mixed", "threshold"}).Draw(t, label+".fmode")
	for i := range flags {
		flags[i] = types.BlockIDFlagCommit
		if mode != "all" {
			flags[i] = rapid.SampledFrom([]types.BlockIDFlag{2, 2, 2, 2, 2, 3, 1}).Draw(t, label+".flag")
		}
	}
	total := powerOf(vals)
	tally := func() *big.Int {
		s := new(big.Int)
		for i, f := range flags {
			if f == types.BlockIDFlagCommit {
				s.Add(s, big.NewInt(vals.Validators[i].VotingPower))
			}
		}
		return s
	}
	enough := func() bool {
		return new(big.Int).Mul(tally(), big.NewInt(3)).Cmp(new(big.Int).Mul(total, big.NewInt(2))) > 0
	}
	if mode == "threshold" {
		// drop validators (drawn order) while the quorum survives: lands just above 2/3
		order := rapid.Permutation(seq(n)).Draw(t, label+".order")
		for _, i := range order {
			flags[i] = rapid.SampledFrom([]types.BlockIDFlag{1, 3}).Draw(t, label+".drop")
			if !enough() {
				flags[i] = types.BlockIDFlagCommit
			}
		}
	}
	for i := 0; !enough() && i < n; i++ {
		flags[i] = types.BlockIDFlagCommit
	}
	round := rapid.SampledFrom([]int32{0, 0, 0, 1, 2, 5}).Draw(t, label+".round")
	// offsets: honest votes are later than the block; a minority may carry anything
	tmode := rapid.SampledFrom([]string{"default", "past-minority", "spread", "ties", "byz"}).Draw(t, label+".tmode")
	for i := range offs {
		switch tmode {
		case "default":
			offs[i] = time.Second + time.Duration(i)*time.Millisecond
		case "spread":
			offs[i] = time.Duration(rapid.Int64Range(1, 12_000_000_000).Draw(t, label+".off"))
		case "ties":
			offs[i] = time.Duration(rapid.Int64Range(1, 3).Draw(t, label+".off")) * time.Second
		case "past-minority":
			offs[i] = time.Duration(rapid.Int64Range(1, 3_000_000_000).Draw(t, label+".off"))
		case "byz":
			offs[i] = time.Duration(rapid.Int64Range(1, 5_000_000_000).Draw(t, label+".off"))
			if rapid.IntRange(0, 4).Draw(t, label+".isbyz") == 0 {
				offs[i] = time.Duration(rapid.SampledFrom([]int64{-3_000_000_000, -1, 0, 1, 400_000_000_000, 31_536_000_000_000_000}).Draw(t, label+".byzoff"))
			}
		}
	}
	if tmode == "past-minority" {
		// the boundary of the BFT-time promise: a faulty minority as heavy as "less than one third" allows stamps
		// before / at the block time, and as few honest precommits as the +2/3 quorum allows are in the commit
		order := rapid.Permutation(seq(n)).Draw(t, label+".pastorder")
		isFaulty := make([]bool, n)
		fp := new(big.Int)
		for _, i := range order {
			np := new(big.Int).Add(fp, big.NewInt(vals.Validators[i].VotingPower))
			if new(big.Int).Mul(np, big.NewInt(3)).Cmp(total) < 0 {
				fp, isFaulty[i] = np, true
				flags[i] = types.BlockIDFlagCommit
				offs[i] = -time.Duration(rapid.SampledFrom([]int64{0, 1, 1_000_000_000, 3_600_000_000_000}).Draw(t, label+".pastoff"))
			}
		}
		if rapid.Bool().Draw(t, label+".fewhonest") {
			for _, i := range order {
				if !isFaulty[i] {
					save := flags[i]
					flags[i] = types.BlockIDFlagAbsent
					if !enough() {
						flags[i] = save
						if save == types.BlockIDFlagAbsent || save == types.BlockIDFlagNil {
							flags[i] = types.BlockIDFlagCommit
						}
					}
				}
			}
		}
		for i := 0; !enough() && i < n; i++ {
			flags[i] = types.BlockIDFlagCommit
		}
	}
	fixOffsets(vals, flags, offs)
	return flags, round, offs
}

// fixOffsets: honest precommits are stamped after the block they vote for; faulty ones (offset <= 0 here) are
// unconstrained. bft-time.md promises a block time between honest timestamps - hence after the previous block - as
// long as the faulty validators hold less than one third of the power, so such a commit is part of the domain and is
// left alone: the next correct proposer must be able to build a valid block from it. Only when the past-stamped
// power reaches one third (nothing is promised then and no valid successor need exist) the non-positive offsets are
// made positive. The faulty-minority class is excluded by construction while finding findingFloor is listed as known.
func fixOffsets(vals *types.ValidatorSet, flags []types.BlockIDFlag, offs []time.Duration) {
	var es []wt
	base := time.Unix(1000, 0)
	faulty, total := new(big.Int), powerOf(vals)
	for i, v := range vals.Validators {
		if i < len(flags) && flags[i] == types.BlockIDFlagAbsent {
			continue
		}
		es = append(es, wt{base.Add(offs[i]), v.VotingPower})
		if offs[i] <= 0 {
			faulty.Add(faulty, big.NewInt(v.VotingPower))
		}
	}
	if m, ok := refMedian(es); ok && m.After(base) {
		return
	}
	if new(big.Int).Mul(faulty, big.NewInt(3)).Cmp(total) < 0 {
		if !lib.IsKnown(findingFloor) {
			lib.Class("generator", "past-stamped-minority-is-median")
			return
		}
		lib.ExcludedByKnown(findingFloor)
	}
	for i := range offs {
		if offs[i] <= 0 {
			offs[i] = time.Duration(i+1) * time.Millisecond
		}
	}
}

func seq(n int) []int {
	s := make([]int, n)
	for i := range s {
		s[i] = i
	}
	return s
}

func genTxs(t *rapid.T, label string) [][]byte {
	n := rapid.SampledFrom([]int{0, 0, 1, 2, 3, 5, 9}).Draw(t, label+".ntx")
	txs := make([][]byte, n)
	for i := range txs {
		txs[i] = rapid.SliceOfN(rapid.Byte(), 1, 40).Draw(t, label+".tx")
		if rapid.IntRange(0, 5).Draw(t, label+".bad") == 0 {
			txs[i][0] = '!'
		}
	}
	// now and then a block of several parts (part size 64 KiB)
	if rapid.IntRange(0, 11).Draw(t, label+".bigtx") == 0 {
		big := bytes.Repeat([]byte{rapid.Byte().Draw(t, label+".bigfill")}, rapid.IntRange(60_000, 200_000).Draw(t, label+".bigsize"))
		txs = append(txs, big)
	}
	return txs
}

// genValUpdates draws a valid change set against next (the set the updates apply to).
func (b *built) genValUpdates(t *rapid.T, next *types.ValidatorSet, label string, bias string) []lib.ValUpdate {
	var ups []lib.ValUpdate
	total := powerOf(next)
	headroom := new(big.Int).Sub(big.NewInt(types.MaxTotalVotingPower), total)
	members := map[int]int64{}
	var keys []int
	for _, v := range next.Validators {
		k := lib.KeyIndex(v.Address)
		members[k] = v.VotingPower
		keys = append(keys, k)
	}
	remaining := len(keys)
	touched := map[int]bool{}
	nops := rapid.IntRange(1, 4).Draw(t, label+".nops")
	if bias != "" {
		nops = rapid.IntRange(1, 8).Draw(t, label+".nops2")
	}
	for j := 0; j < nops; j++ {
		choices := []string{"add", "remove", "repower"}
		switch bias {
		case "grow":
			choices = []string{"add", "add", "add", "repower"}
		case "shrink":
			choices = []string{"remove", "remove", "remove", "repower"}
		}
		op := rapid.SampledFrom(choices).Draw(t, label+".op")
		switch op {
		case "add":
			if b.saturate || b.nextKey >= ringMax || headroom.Cmp(big.NewInt(2000)) < 0 {
				continue
			}
			p := rapid.Int64Range(1, 1000).Draw(t, label+".addp")
			ups = append(ups, lib.ValUpdate{Key: b.nextKey, Power: p})
			touched[b.nextKey] = true
			b.nextKey++
			headroom.Sub(headroom, big.NewInt(p))
		case "remove":
			if remaining <= 1 {
				continue
			}
			k := keys[rapid.IntRange(0, len(keys)-1).Draw(t, label+".rm")]
			if touched[k] {
				continue
			}
			touched[k] = true
			remaining--
			ups = append(ups, lib.ValUpdate{Key: k, Power: 0})
		case "repower":
			k := keys[rapid.IntRange(0, len(keys)-1).Draw(t, label+".rp")]
			if touched[k] {
				continue
			}
			old := members[k]
			hi := old + 1000
			if b.saturate || headroom.Cmp(big.NewInt(2000)) < 0 {
				hi = old
			}
			p := rapid.Int64Range(1, hi).Draw(t, label+".rpp")
			if p > old {
				headroom.Sub(headroom, big.NewInt(p-old))
			}
			touched[k] = true
			ups = append(ups, lib.ValUpdate{Key: k, Power: p})
		}
	}
	return ups
}

func genParamUpdate(t *rapid.T, cur tmproto.ConsensusParams, label string, minBytes int64) *abci.ConsensusParams {
	u := &abci.ConsensusParams{}
	maxBytes := cur.Block.MaxBytes
	if rapid.Bool().Draw(t, label+".pblock") {
		// Block.MaxBytes must leave room for header + commit + evidence (documented precondition of
		// CreateProposalBlock / TxPreCheck, which panic otherwise): never below 64 KiB here.
		maxBytes = rapid.SampledFrom([]int64{minBytes, minBytes + 1, 1 << 20, 22020096, 104857600}).Draw(t, label+".pmaxbytes")
		if maxBytes < minBytes {
			maxBytes = minBytes
		}
		u.Block = &abci.BlockParams{MaxBytes: maxBytes, MaxGas: rapid.SampledFrom([]int64{-1, -1, 0, 10, 1 << 40}).Draw(t, label+".pgas")}
	}
	if rapid.Bool().Draw(t, label+".pev") {
		evb := rapid.Int64Range(0, 3000).Draw(t, label+".pevbytes")
		if evb > maxBytes {
			evb = maxBytes
		}
		u.Evidence = &tmproto.EvidenceParams{
			MaxAgeNumBlocks: rapid.Int64Range(1, 8).Draw(t, label+".pmaxage"),
			MaxAgeDuration:  time.Duration(rapid.Int64Range(1, 30).Draw(t, label+".pmaxdur")) * time.Second,
			MaxBytes:        evb,
		}
	} else if cur.Evidence.MaxBytes > maxBytes {
		u.Evidence = &tmproto.EvidenceParams{MaxAgeNumBlocks: cur.Evidence.MaxAgeNumBlocks, MaxAgeDuration: cur.Evidence.MaxAgeDuration, MaxBytes: maxBytes}
	}
	if rapid.IntRange(0, 3).Draw(t, label+".pver") == 0 {
		u.Version = &tmproto.VersionParams{AppVersion: rapid.SampledFrom([]uint64{0, 1, 2, 5, 1 << 63, 1<<64 - 1}).Draw(t, label+".pappver")}
	}
	if rapid.IntRange(0, 2).Draw(t, label+".pval") == 0 {
		// any list that keeps the validators' own key type; longer, shorter, reordered, repeated entries
		u.Validator = &tmproto.ValidatorParams{PubKeyTypes: append([]string(nil), rapid.SampledFrom([][]string{
			{"ed25519", "secp256k1"}, {"secp256k1", "ed25519"}, {"ed25519"}, {"secp256k1", "ed25519", "ed25519"}, {"ed25519", "ed25519"},
		}).Draw(t, label+".ptypes")...)}
	}
	return u
}

// signVote signs with ring key k through stdlib ed25519 and the hand-written canonical encoder.
func signVote(k int, chain string, v *types.Vote) {
	var id *lib.BID
	if !v.BlockID.IsZero() {
		id = refBID(v.BlockID)
	}
	v.Signature = stded.Sign(stded.PrivateKey(lib.Key(k)), lib.CanonVoteBytes(chain, byte(v.Type), v.Height, v.Round, id, v.Timestamp))
}

func fakeBlockID(seed byte, n int) types.BlockID {
	h := bytes.Repeat([]byte{seed}, 32)
	h[0] = byte(n)
	p := bytes.Repeat([]byte{seed ^ 0x5a}, 32)
	p[1] = byte(n)
	return types.BlockID{Hash: h, PartSetHeader: types.PartSetHeader{Total: uint32(1 + n%3), Hash: p}}
}

// makeDupVote builds duplicate-vote evidence against the validator with index vi of the set at height h. flavour
// selects a single defect ("valid" = none).
func (b *built) makeDupVote(h int64, vi int, salt int, flavour string) *types.DuplicateVoteEvidence {
	c := b.c
	vals := c.ValidatorsAt(h)
	v := vals.Validators[vi%len(vals.Validators)]
	k := lib.KeyIndex(v.Address)
	typ := tmproto.PrecommitType
	if salt%2 == 1 {
		typ = tmproto.PrevoteType
	}
	ts := c.Blocks[h].Time.Add(time.Duration(salt+1) * time.Millisecond)
	mk := func(id types.BlockID) *types.Vote {
		return &types.Vote{Type: typ, Height: h, Round: int32(salt % 3), BlockID: id, Timestamp: ts,
			ValidatorAddress: v.Address, ValidatorIndex: int32(vi % len(vals.Validators))}
	}
	v1, v2 := mk(fakeBlockID(byte(salt), 1)), mk(fakeBlockID(byte(salt), 2))
	signKey := k
	if flavour == "nonvalidator" {
		signKey = ringMax + 5
		addr := lib.Key(signKey).PubKey().Address()
		v1.ValidatorAddress, v2.ValidatorAddress = addr, addr
	}
	signVote(signKey, c.Spec.ChainID, v1)
	signVote(signKey, c.Spec.ChainID, v2)
	a, bb := v1, v2
	if a.BlockID.Key() >= bb.BlockID.Key() {
		a, bb = bb, a
	}
	ev := &types.DuplicateVoteEvidence{VoteA: a, VoteB: bb, TotalVotingPower: vals.TotalVotingPower(), ValidatorPower: v.VotingPower,
		Timestamp: c.Blocks[h].Time}
	switch flavour {
	case "badsig":
		s := append([]byte(nil), bb.Signature...)
		s[salt%len(s)] ^= 1 << uint(salt%8)
		bb.Signature = s
	case "power":
		ev.ValidatorPower++
	case "total":
		ev.TotalVotingPower++
	case "time":
		ev.Timestamp = ev.Timestamp.Add(time.Nanosecond)
	case "swapped":
		ev.VoteA, ev.VoteB = ev.VoteB, ev.VoteA
	case "samevote":
		ev.VoteB = ev.VoteA
	case "wrongchain":
		signVote(k, c.Spec.ChainID+"x", a)
	}
	return ev
}

// genPlan draws what happens at the next height of b.c.
func (b *built) genPlan(t *rapid.T, label string, o genOpts, bias string) *lib.HeightPlan {
	c := b.c
	p := &lib.HeightPlan{Txs: genTxs(t, label)}
	p.Flags, p.Round, p.TsOffsets = genCommitShape(t, c.State.Validators, label)
	if bias != "" || rapid.IntRange(0, 9).Draw(t, label+".doval") < 4 {
		p.ValUpdates = b.genValUpdates(t, c.State.NextValidators, label, bias)
	}
	if rapid.IntRange(0, 9).Draw(t, label+".doparam") < 2 {
		minBytes := int64(65536)
		if o.smallBlocks {
			minBytes = c.State.ConsensusParams.Block.MaxBytes // proposer test pins the block size itself
		}
		p.Params = genParamUpdate(t, c.State.ConsensusParams, label, minBytes)
		if o.smallBlocks {
			p.Params.Block = nil
			p.Params.Evidence = nil
		}
	}
	if b.realPool && c.Tip() >= c.Spec.InitialHeight && rapid.IntRange(0, 9).Draw(t, label+".doev") < 4 {
		p.Evidence = b.genValidEvidence(t, label, rapid.IntRange(1, 2).Draw(t, label+".nev"))
	}
	if rapid.IntRange(0, 9).Draw(t, label+".viavoteset") < 4 {
		if b.viaVoteSet == nil {
			b.viaVoteSet, b.stray = map[int64]bool{}, map[int64][]strayVote{}
		}
		h := c.NextHeight()
		b.viaVoteSet[h] = true
		for j := rapid.IntRange(0, 3).Draw(t, label+".nstray"); j > 0; j-- {
			b.stray[h] = append(b.stray[h], strayVote{rapid.IntRange(0, 200).Draw(t, label+".strayslot"), rapid.SampledFrom(strayKinds).Draw(t, label+".straykind")})
		}
	}
	if rapid.IntRange(0, 9).Draw(t, label+".dofar") < 2 {
		if lib.IsKnown(findingWrap) {
			// listed as known and unrepaired: the class is excluded by construction, the search goes on behind it
			lib.ExcludedByKnown(findingWrap)
			return p
		}
		if b.far == nil {
			b.far = map[int64][]farStamp{}
		}
		b.far[c.NextHeight()] = genFar(t, c.State.Validators, p.Flags, label)
	}
	return p
}

// genValidEvidence: n admissible, mutually distinct, not yet committed duplicate-vote items within the age limits
// and the byte limit of the current state.
func (b *built) genValidEvidence(t *rapid.T, label string, n int) []types.Evidence {
	c := b.c
	var out []types.Evidence
	var list tmproto.EvidenceList
	for i := 0; i < n; i++ {
		lo := c.Tip() - c.State.ConsensusParams.Evidence.MaxAgeNumBlocks
		if lo < c.Spec.InitialHeight {
			lo = c.Spec.InitialHeight
		}
		h := rapid.Int64Range(lo, c.Tip()).Draw(t, label+".evh")
		vi := rapid.IntRange(0, 200).Draw(t, label+".evv")
		salt := rapid.IntRange(0, 250).Draw(t, label+".evsalt")
		ev := b.makeDupVote(h, vi, salt, "valid")
		key := string(ev.Hash())
		dup := b.evSeen[key]
		for _, e := range out {
			if string(e.Hash()) == key {
				dup = true
			}
		}
		if dup {
			continue
		}
		pb, _ := types.EvidenceToProto(ev)
		list.Evidence = append(list.Evidence, *pb)
		if int64(list.Size()) > c.State.ConsensusParams.Evidence.MaxBytes {
			break
		}
		out = append(out, ev)
	}
	return out
}

func (b *built) advance(p *lib.HeightPlan) error {
	h := b.c.NextHeight()
	b.plans[h] = p
	pre := b.c.State
	preBytes := pre.Bytes()
	if err := b.c.Advance(p); err != nil {
		return fmt.Errorf("height %d: %w", h, err)
	}
	// the transition is a function: its input state is not modified
	if !bytes.Equal(preBytes, pre.Bytes()) {
		return fmt.Errorf("height %d: ApplyBlock modified the state it was applied to (a second use of that state sees other values)", h)
	}
	for _, e := range p.Evidence {
		b.evSeen[string(e.Hash())] = true
	}
	// the time of the block just built by the correct proposer must be the reference median of its LastCommit
	if blk := b.c.Blocks[h]; pre.LastBlockHeight != 0 {
		if m, ok := refMedian(commitEntries(blk.LastCommit, pre.LastValidators, false)); !ok || !m.Equal(blk.Time) {
			return fmt.Errorf("height %d: the proposer's block time %v is not the weighted median %v of its LastCommit", h, blk.Time, m)
		}
	}
	// the commit the next proposer uses comes out of a real vote set that also saw precommits for other block ids
	if b.viaVoteSet[h] {
		nc, n, err := commitViaVoteSet(pre.ChainID, b.c.Commits[h], pre.Validators, b.stray[h])
		if err != nil {
			return fmt.Errorf("height %d: %v", h, err)
		}
		b.c.Commits[h] = nc
		b.strayApplied += n
	}
	// a minority re-stamps its precommits far away (kept only if a valid successor still exists: median after block time)
	if fs := b.far[h]; len(fs) > 0 {
		vals := pre.Validators
		nc := restamp(pre.ChainID, b.c.Commits[h], vals, fs)
		if m, ok := refMedian(commitEntries(nc, vals, false)); ok && m.After(b.c.Blocks[h].Time) {
			b.c.Commits[h] = nc
			b.farApplied++
		}
	}
	return nil
}

// advanceWith commits and applies an externally built block (the proposer's) as the next block of the chain.
func (b *built) advanceWith(p *lib.HeightPlan, blk *types.Block) error {
	c := b.c
	h := c.NextHeight()
	if blk.Height != h {
		return fmt.Errorf("block height %d, next height %d", blk.Height, h)
	}
	b.plans[h] = p
	c.App.Mu.Lock()
	c.App.Plans[h] = p
	c.App.Mu.Unlock()
	parts := blk.MakePartSet(types.BlockPartSizeBytes)
	id := types.BlockID{Hash: blk.Hash(), PartSetHeader: parts.Header()}
	commit := lib.SignCommit(c.State.ChainID, h, p.Round, id, c.State.Validators, p.Flags, blk.Time, p.TsOffsets)
	c.BlockStore.SaveBlock(blk, parts, commit)
	st, retain, err := c.Exec.ApplyBlock(c.State, id, blk)
	if err != nil {
		return err
	}
	c.State = st
	c.Blocks[h], c.Parts[h], c.IDs[h], c.Commits[h], c.States[h], c.Retain[h] = blk, parts, id, commit, st.Copy(), retain
	return nil
}
