package c06

// Reference block validator, written from spec/core/data_structures.md ("Block" validation list, Header, Commit,
// CommitSig tables) and spec/consensus/bft-time.md. It shares no code with state.validateBlock,
// types.Block.ValidateBasic, types.ValidatorSet.VerifyCommit, state.MedianTime or tmtime.WeightedMedian:
//   - Merkle roots: own RFC-6962 implementation over crypto/sha256;
//   - signatures: stdlib crypto/ed25519 over lib.CanonVoteBytes (hand-written canonical encoder);
//   - quorum and weighted median: math/big + sort;
//   - expected header values: read off the recorded sm.State (plain data record).
// Only protobuf *encoders* of leaf values (CommitSig, Evidence, ConsensusParams hash) are reused.

import (
	"bytes"
	stded "crypto/ed25519"
	"crypto/sha256"
	"math/big"
	"sort"
	"time"

	tmproto "github.com/tendermint/tendermint/proto/tendermint/types"
	sm "github.com/tendermint/tendermint/state"
	"github.com/tendermint/tendermint/types"

	"verif/lib"
)

// ---- RFC 6962 Merkle root ----

func refLeaf(b []byte) []byte {
	h := sha256.New()
	h.Write([]byte{0})
	h.Write(b)
	return h.Sum(nil)
}

func refMerkle(items [][]byte) []byte {
	switch len(items) {
	case 0:
		s := sha256.Sum256(nil)
		return s[:]
	case 1:
		return refLeaf(items[0])
	}
	k := 1
	for k*2 < len(items) {
		k *= 2
	}
	l, r := refMerkle(items[:k]), refMerkle(items[k:])
	h := sha256.New()
	h.Write([]byte{1})
	h.Write(l)
	h.Write(r)
	return h.Sum(nil)
}

func refCommitHash(c *types.Commit) []byte {
	bs := make([][]byte, len(c.Signatures))
	for i := range c.Signatures {
		s := c.Signatures[i]
		pb := tmproto.CommitSig{BlockIdFlag: tmproto.BlockIDFlag(s.BlockIDFlag), ValidatorAddress: s.ValidatorAddress,
			Timestamp: s.Timestamp, Signature: s.Signature}
		bz, err := pb.Marshal()
		if err != nil {
			panic(err)
		}
		bs[i] = bz
	}
	return refMerkle(bs)
}

func refDataHash(txs types.Txs) []byte {
	bs := make([][]byte, len(txs))
	for i, tx := range txs {
		s := sha256.Sum256(tx)
		bs[i] = s[:]
	}
	return refMerkle(bs)
}

func refEvidenceHash(evs types.EvidenceList) []byte {
	bs := make([][]byte, len(evs))
	for i, e := range evs {
		bs[i] = e.Bytes()
	}
	return refMerkle(bs)
}

// ---- weighted median (bft-time.md) ----

type wt struct {
	ts time.Time
	w  int64
}

// refMedian: every timestamp counted as many times as the voting power of the process that cast the vote; the
// value at rank floor(total/2) (1-based, at least 1) of the sorted multiset. The rank convention is the one of the
// worked example in bft-time.md (total 47 -> rank 23 -> 98) and of the deployed chains.
func refMedian(entries []wt) (time.Time, bool) {
	if len(entries) == 0 {
		return time.Time{}, false
	}
	es := append([]wt(nil), entries...)
	sort.SliceStable(es, func(i, j int) bool { return es[i].ts.Before(es[j].ts) })
	total := new(big.Int)
	for _, e := range es {
		total.Add(total, big.NewInt(e.w))
	}
	rank := new(big.Int).Div(total, big.NewInt(2))
	if rank.Sign() == 0 {
		rank.SetInt64(1)
	}
	cum := new(big.Int)
	for _, e := range es {
		cum.Add(cum, big.NewInt(e.w))
		if cum.Cmp(rank) >= 0 {
			return e.ts, true
		}
	}
	return es[len(es)-1].ts, true
}

// commitEntries: the (timestamp, power) pairs of all non-absent slots, power of the validator AT THAT INDEX (the
// process that cast the vote). onlyForBlock=true gives the reading of bft-time.md's last sentence (nil votes not
// taken into account) - measured, not enforced.
func commitEntries(c *types.Commit, vals *types.ValidatorSet, onlyForBlock bool) []wt {
	var es []wt
	for i, s := range c.Signatures {
		if s.BlockIDFlag == types.BlockIDFlagAbsent || i >= len(vals.Validators) {
			continue
		}
		if onlyForBlock && s.BlockIDFlag != types.BlockIDFlagCommit {
			continue
		}
		es = append(es, wt{s.Timestamp, vals.Validators[i].VotingPower})
	}
	return es
}

// ---- the reference validator ----

type refHistory interface {
	// validator set and block time at a committed height (nil/false when unknown)
	ValsAt(h int64) *types.ValidatorSet
	TimeAt(h int64) (time.Time, bool)
	Committed(evHash []byte) bool
}

type ref struct {
	st         sm.State
	hist       refHistory
	strictAddr bool // a non-absent commit slot must carry the address of the validator at its index
	// proposer test: the evidence comes from a pool double, only the byte limit is checked
	skipEvidenceAdmission bool
}

func bidEq(a, b types.BlockID) bool {
	return bytes.Equal(a.Hash, b.Hash) && a.PartSetHeader.Total == b.PartSetHeader.Total &&
		bytes.Equal(a.PartSetHeader.Hash, b.PartSetHeader.Hash)
}

func refBID(b types.BlockID) *lib.BID {
	return &lib.BID{Hash: b.Hash, PartTotal: b.PartSetHeader.Total, PartHash: b.PartSetHeader.Hash}
}

// validate returns (accept, first violated rule).
func (r *ref) validate(b *types.Block) (bool, string) {
	st := r.st
	h := &b.Header
	initial := st.LastBlockHeight == 0

	if h.Version.Block != st.Version.Consensus.Block || h.Version.App != st.Version.Consensus.App {
		return false, "version"
	}
	if h.ChainID != st.ChainID || len(h.ChainID) > 50 {
		return false, "chainid"
	}
	want := st.LastBlockHeight + 1
	if initial {
		want = st.InitialHeight
	}
	if h.Height != want || h.Height <= 0 {
		return false, "height"
	}
	if !bidEq(h.LastBlockID, st.LastBlockID) {
		return false, "lastblockid"
	}
	if b.LastCommit == nil {
		return false, "nil-commit"
	}
	// content hashes
	if !bytes.Equal(h.LastCommitHash, refCommitHash(b.LastCommit)) {
		return false, "lastcommithash"
	}
	if !bytes.Equal(h.DataHash, refDataHash(b.Data.Txs)) {
		return false, "datahash"
	}
	if !bytes.Equal(h.EvidenceHash, refEvidenceHash(b.Evidence.Evidence)) {
		return false, "evidencehash"
	}
	// state-derived hashes
	if !bytes.Equal(h.ValidatorsHash, st.Validators.Hash()) {
		return false, "validatorshash"
	}
	if !bytes.Equal(h.NextValidatorsHash, st.NextValidators.Hash()) {
		return false, "nextvalidatorshash"
	}
	if !bytes.Equal(h.ConsensusHash, types.HashConsensusParams(st.ConsensusParams)) {
		return false, "consensushash"
	}
	if !bytes.Equal(h.AppHash, st.AppHash) {
		return false, "apphash"
	}
	if !bytes.Equal(h.LastResultsHash, st.LastResultsHash) {
		return false, "lastresultshash"
	}
	// proposer
	if len(h.ProposerAddress) != 20 {
		return false, "proposer-len"
	}
	member := false
	for _, v := range st.Validators.Validators {
		if bytes.Equal(v.Address, h.ProposerAddress) {
			member = true
		}
	}
	if !member {
		return false, "proposer-not-member"
	}
	// last commit + time
	c := b.LastCommit
	if c.Height < 0 || c.Round < 0 {
		return false, "commit-negative"
	}
	if initial {
		// "this step is skipped for the initial height"; the first block has no signatures (a commit of height >= 1
		// must carry signatures, so the height must be 0)
		if len(c.Signatures) != 0 || c.Height != 0 {
			return false, "initial-commit-not-empty"
		}
		if !h.Time.Equal(st.LastBlockTime) {
			return false, "time-not-genesis"
		}
	} else {
		if ok, why := r.commitValid(c); !ok {
			return false, why
		}
		if !h.Time.After(st.LastBlockTime) {
			return false, "time-not-after-last"
		}
		med, ok := refMedian(commitEntries(c, st.LastValidators, false))
		if !ok || !h.Time.Equal(med) {
			return false, "time-not-median"
		}
	}
	// evidence
	if ok, why := r.evidenceOK(b); !ok {
		return false, why
	}
	return true, "ok"
}

func (r *ref) commitValid(c *types.Commit) (bool, string) {
	st := r.st
	vals := st.LastValidators
	if c.Height != st.LastBlockHeight {
		return false, "commit-height"
	}
	if !bidEq(c.BlockID, st.LastBlockID) || (len(c.BlockID.Hash) == 0 && c.BlockID.PartSetHeader.Total == 0 && len(c.BlockID.PartSetHeader.Hash) == 0) {
		return false, "commit-blockid"
	}
	if len(c.Signatures) == 0 || len(c.Signatures) != len(vals.Validators) {
		return false, "commit-size"
	}
	total, tally := new(big.Int), new(big.Int)
	for _, v := range vals.Validators {
		total.Add(total, big.NewInt(v.VotingPower))
	}
	for i, s := range c.Signatures {
		v := vals.Validators[i]
		switch s.BlockIDFlag {
		case types.BlockIDFlagAbsent:
			if len(s.ValidatorAddress) != 0 || !s.Timestamp.IsZero() || len(s.Signature) != 0 {
				return false, "slot-absent-with-data"
			}
			continue
		case types.BlockIDFlagCommit, types.BlockIDFlagNil:
		default:
			return false, "slot-flag"
		}
		if len(s.ValidatorAddress) != 20 {
			return false, "slot-address-len"
		}
		if len(s.Signature) == 0 || len(s.Signature) > 64 {
			return false, "slot-signature-len"
		}
		var id *lib.BID
		if s.BlockIDFlag == types.BlockIDFlagCommit {
			id = refBID(c.BlockID)
		}
		msg := lib.CanonVoteBytes(st.ChainID, byte(tmproto.PrecommitType), c.Height, c.Round, id, s.Timestamp)
		pub := v.PubKey.Bytes()
		if len(pub) != stded.PublicKeySize || !stded.Verify(stded.PublicKey(pub), msg, s.Signature) {
			return false, "slot-signature"
		}
		if r.strictAddr && !bytes.Equal(s.ValidatorAddress, v.Address) {
			return false, "slot-address"
		}
		if s.BlockIDFlag == types.BlockIDFlagCommit {
			tally.Add(tally, big.NewInt(v.VotingPower))
		}
	}
	// strictly more than two thirds: 3*tally > 2*total
	if new(big.Int).Mul(tally, big.NewInt(3)).Cmp(new(big.Int).Mul(total, big.NewInt(2))) <= 0 {
		return false, "commit-power"
	}
	return true, ""
}

// evidenceOK: byte limit, admissibility of every item (duplicate-vote evidence only: the generator produces no other
// kind), no repetition.
func (r *ref) evidenceOK(b *types.Block) (bool, string) {
	st := r.st
	evs := b.Evidence.Evidence
	if len(evs) == 0 {
		return true, ""
	}
	var list tmproto.EvidenceList
	for _, e := range evs {
		pb, err := types.EvidenceToProto(e)
		if err != nil {
			return false, "evidence-encoding"
		}
		list.Evidence = append(list.Evidence, *pb)
	}
	if int64(list.Size()) > st.ConsensusParams.Evidence.MaxBytes {
		return false, "evidence-bytes"
	}
	if r.skipEvidenceAdmission {
		return true, ""
	}
	seen := map[string]bool{}
	for _, e := range evs {
		d, ok := e.(*types.DuplicateVoteEvidence)
		if !ok || d == nil || d.VoteA == nil || d.VoteB == nil {
			return false, "evidence-kind"
		}
		a, bb := d.VoteA, d.VoteB
		// structure
		for _, v := range []*types.Vote{a, bb} {
			if (v.Type != tmproto.PrevoteType && v.Type != tmproto.PrecommitType) || v.Height <= 0 || v.Round < 0 ||
				len(v.ValidatorAddress) != 20 || v.ValidatorIndex < 0 || len(v.Signature) == 0 || len(v.Signature) > 64 {
				return false, "evidence-vote-basic"
			}
		}
		if a.BlockID.Key() >= bb.BlockID.Key() {
			return false, "evidence-order"
		}
		if a.Height != bb.Height || a.Round != bb.Round || a.Type != bb.Type || !bytes.Equal(a.ValidatorAddress, bb.ValidatorAddress) {
			return false, "evidence-hrs"
		}
		key := string(e.Hash())
		if r.hist.Committed(e.Hash()) {
			return false, "evidence-committed"
		}
		// time of the infraction = time of the block at that height
		bt, known := r.hist.TimeAt(a.Height)
		if !known {
			return false, "evidence-unknown-height"
		}
		if !d.Timestamp.Equal(bt) {
			return false, "evidence-time"
		}
		ageBlocks := st.LastBlockHeight - a.Height
		ageDur := st.LastBlockTime.Sub(bt)
		if ageDur > st.ConsensusParams.Evidence.MaxAgeDuration && ageBlocks > st.ConsensusParams.Evidence.MaxAgeNumBlocks {
			return false, "evidence-expired"
		}
		vals := r.hist.ValsAt(a.Height)
		if vals == nil {
			return false, "evidence-unknown-height"
		}
		var val *types.Validator
		total := new(big.Int)
		for _, v := range vals.Validators {
			total.Add(total, big.NewInt(v.VotingPower))
			if bytes.Equal(v.Address, a.ValidatorAddress) {
				val = v
			}
		}
		if val == nil {
			return false, "evidence-not-validator"
		}
		if val.VotingPower != d.ValidatorPower || total.Cmp(big.NewInt(d.TotalVotingPower)) != 0 {
			return false, "evidence-power"
		}
		pub := val.PubKey.Bytes()
		for _, v := range []*types.Vote{a, bb} {
			var id *lib.BID
			if !v.BlockID.IsZero() {
				id = refBID(v.BlockID)
			}
			msg := lib.CanonVoteBytes(st.ChainID, byte(v.Type), v.Height, v.Round, id, v.Timestamp)
			if !stded.Verify(stded.PublicKey(pub), msg, v.Signature) {
				return false, "evidence-signature"
			}
		}
		if seen[key] {
			return false, "evidence-duplicate"
		}
		seen[key] = true
	}
	return true, ""
}

// ---- reference results hash (types/results.go: code, data, gas_wanted, gas_used of every DeliverTx) ----

func pbUvarint(b []byte, v uint64) []byte {
	for v >= 0x80 {
		b = append(b, byte(v)|0x80)
		v >>= 7
	}
	return append(b, byte(v))
}

type refResult struct {
	Code      uint32
	Data      []byte
	GasWanted int64
	GasUsed   int64
}

func refResultsHash(rs []refResult) []byte {
	bs := make([][]byte, len(rs))
	for i, r := range rs {
		var b []byte
		if r.Code != 0 {
			b = append(b, 0x08)
			b = pbUvarint(b, uint64(r.Code))
		}
		if len(r.Data) != 0 {
			b = append(b, 0x12)
			b = pbUvarint(b, uint64(len(r.Data)))
			b = append(b, r.Data...)
		}
		if r.GasWanted != 0 {
			b = append(b, 0x28)
			b = pbUvarint(b, uint64(r.GasWanted))
		}
		if r.GasUsed != 0 {
			b = append(b, 0x30)
			b = pbUvarint(b, uint64(r.GasUsed))
		}
		bs[i] = b
	}
	return refMerkle(bs)
}
