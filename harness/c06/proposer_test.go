package c06

import (
	"bytes"
	"encoding/binary"
	"fmt"
	"io"
	"strings"
	"testing"
	"time"

	"github.com/gogo/protobuf/proto"
	abci "github.com/tendermint/tendermint/abci/types"
	cfg "github.com/tendermint/tendermint/config"
	"github.com/tendermint/tendermint/libs/log"
	mempl "github.com/tendermint/tendermint/mempool"
	mempoolv0 "github.com/tendermint/tendermint/mempool/v0"
	tmproto "github.com/tendermint/tendermint/proto/tendermint/types"
	sm "github.com/tendermint/tendermint/state"
	"github.com/tendermint/tendermint/types"
	"pgregory.net/rapid"

	"verif/lib"
)

// evDouble is an evidence pool holding a fixed list; PendingEvidence follows the documented contract (longest
// prefix whose EvidenceList encoding fits maxBytes, together with that encoding's size).
type evDouble struct{ list []types.Evidence }

func (d *evDouble) PendingEvidence(maxBytes int64) ([]types.Evidence, int64) {
	var pl tmproto.EvidenceList
	var out []types.Evidence
	var size int64
	for _, e := range d.list {
		pb, err := types.EvidenceToProto(e)
		if err != nil {
			panic(err)
		}
		pl.Evidence = append(pl.Evidence, *pb)
		s := int64(pl.Size())
		if maxBytes != -1 && s > maxBytes {
			break
		}
		size = s
		out = append(out, e)
	}
	return out, size
}
func (d *evDouble) AddEvidence(types.Evidence) error          { return nil }
func (d *evDouble) Update(sm.State, types.EvidenceList)       {}
func (d *evDouble) CheckEvidence(types.EvidenceList) error    { return nil }

// structDupVote: structurally valid duplicate-vote evidence of generated encoded size (field magnitudes vary).
func structDupVote(t *rapid.T, chain string, i int) types.Evidence {
	k := ringMax + 1 + i%8
	addr := lib.Key(k).PubKey().Address()
	h := rapid.SampledFrom([]int64{1, 300, 1 << 40, 1<<63 - 1}).Draw(t, "evheight")
	r := rapid.SampledFrom([]int32{0, 1, 1<<31 - 1}).Draw(t, "evround")
	idx := rapid.SampledFrom([]int32{0, 200, 1<<31 - 1}).Draw(t, "evidx")
	ts := time.Unix(rapid.Int64Range(1, 1<<33).Draw(t, "evsec"), rapid.Int64Range(0, 999_999_999).Draw(t, "evnano")).UTC()
	mk := func(n int) *types.Vote {
		v := &types.Vote{Type: tmproto.PrecommitType, Height: h, Round: r, BlockID: fakeBlockID(byte(i), n), Timestamp: ts,
			ValidatorAddress: addr, ValidatorIndex: idx}
		signVote(k, chain, v)
		return v
	}
	a, b := mk(1), mk(2)
	if a.BlockID.Key() >= b.BlockID.Key() {
		a, b = b, a
	}
	return &types.DuplicateVoteEvidence{VoteA: a, VoteB: b, TotalVotingPower: rapid.SampledFrom([]int64{1, 1 << 59}).Draw(t, "evtotal"),
		ValidatorPower: rapid.SampledFrom([]int64{1, 1 << 58}).Draw(t, "evpow"), Timestamp: ts}
}

// reassemble pushes every part through its wire form into a fresh part set and decodes the block.
func reassemble(parts *types.PartSet) (*types.Block, int64, error) {
	ps := types.NewPartSetFromHeader(parts.Header())
	for i := 0; i < int(parts.Total()); i++ {
		pp, err := parts.GetPart(i).ToProto()
		if err != nil {
			return nil, 0, err
		}
		bz, err := proto.Marshal(pp)
		if err != nil {
			return nil, 0, err
		}
		var back tmproto.Part
		if err := proto.Unmarshal(bz, &back); err != nil {
			return nil, 0, err
		}
		part, err := types.PartFromProto(&back)
		if err != nil {
			return nil, 0, err
		}
		if added, err := ps.AddPart(part); err != nil || !added {
			return nil, 0, fmt.Errorf("part %d not added: %v", i, err)
		}
	}
	if !ps.IsComplete() {
		return nil, 0, fmt.Errorf("part set incomplete")
	}
	bz, err := io.ReadAll(ps.GetReader())
	if err != nil {
		return nil, 0, err
	}
	var pb tmproto.Block
	if err := proto.Unmarshal(bz, &pb); err != nil {
		return nil, 0, err
	}
	blk, err := types.BlockFromProto(&pb)
	return blk, ps.ByteSize(), err
}

func slackClass(s int64) string {
	switch {
	case s < 0:
		return "slack:negative"
	case s < 16:
		return "slack:<16"
	case s < 128:
		return "slack:<128"
	case s < 256:
		return "slack:<256"
	case s < 1024:
		return "slack:<1024"
	}
	return "slack:>=1024"
}

// TestProposerBlock: the block CreateProposalBlock builds from a brim-full mempool and a full evidence pool passes
// ValidateBlock, fits Block.MaxBytes (proto size and part-set size), carries at most Evidence.MaxBytes of evidence
// and reassembles from its parts - after validator-set growth and shrinkage.
func TestProposerBlock(t *testing.T) {
	const name = "TestProposerBlock"
	rapid.Check(t, func(t *rapid.T) {
		o := genOpts{maxVals: maxVals(), smallBlocks: true}
		spec, prof, sat := genSpec(t, o)
		if rapid.IntRange(0, 2).Draw(t, "fatheader") == 0 {
			// header as large as a real chain can make it: longest chain id, 9-byte height varint, 64-byte app hash
			spec.ChainID = strings.Repeat("c", 50)
			spec.InitialHeight = 1 << 62
			spec.AppHashLen = 64
		}
		k := rapid.IntRange(2, 6).Draw(t, "k")
		n0 := len(spec.Keys)
		nCap := n0 + 8*k // genValUpdates adds at most 8 validators per height
		evMax := rapid.SampledFrom([]int64{0, 0, 300, 480, 600, 1000, 2000, 3000}).Draw(t, "evmax")
		slack := rapid.SampledFrom([]int64{0, 1, 10, 100, 500, 2000, 6000}).Draw(t, "dataroom")
		maxBytes := types.MaxOverheadForBlock + types.MaxHeaderBytes + types.MaxCommitBytes(nCap) + evMax + slack
		spec.Params.Block.MaxBytes = maxBytes
		spec.Params.Evidence.MaxBytes = evMax
		// Evidence.MaxBytes is only required to be <= Block.MaxBytes: it may exceed what is left of the block next to
		// header and commit; a correct proposer then has to take less evidence
		evMode := "fits"
		if rapid.IntRange(0, 3).Draw(t, "evbudget") == 0 {
			if lib.IsKnown(findingRoom) {
				lib.ExcludedByKnown(findingRoom)
			} else {
				evMode = "exceeds-room"
				spec.Params.Evidence.MaxBytes = rapid.Int64Range(evMax, maxBytes).Draw(t, "evparam")
			}
		}
		spec.Params.Block.MaxGas = rapid.SampledFrom([]int64{-1, -1, -1, -1, 40, 100000}).Draw(t, "maxgas")
		b, err := newBuilt(spec, false, prof, sat)
		if err != nil {
			t.Fatalf("genesis rejected: %v", err)
		}
		defer b.c.Close()
		c := b.c

		// evidence pool double, filled beyond Evidence.MaxBytes
		evd := &evDouble{}
		for i := 0; i < 9; i++ {
			evd.list = append(evd.list, structDupVote(t, spec.ChainID, i))
		}
		// real v0 mempool, filled far beyond Block.MaxBytes
		mcfg := cfg.DefaultMempoolConfig()
		mcfg.Size, mcfg.CacheSize, mcfg.Recheck = 1_000_000, 0, false
		mp := mempoolv0.NewCListMempool(mcfg, c.Proxy.Mempool(), 0)
		sizes := rapid.SliceOfN(rapid.OneOf(rapid.IntRange(1, 8), rapid.IntRange(1, 64), rapid.IntRange(100, 3000)), 16, 16).Draw(t, "txsizes")
		tprof := rapid.SampledFrom([]string{"cycle", "tiny", "one-size"}).Draw(t, "txprofile")
		var total int64
		for i := 0; total < 2*maxBytes+4096 && i < 200000; i++ {
			sz := sizes[i%len(sizes)]
			switch tprof {
			case "tiny":
				sz = 1 + sz%8
				if sz < 3 {
					sz = 3
				}
			case "one-size":
				sz = sizes[0]
				if sz < 3 {
					sz = 3
				}
			}
			tx := bytes.Repeat([]byte{byte('a' + i%26)}, sz)
			var ctr [4]byte
			binary.BigEndian.PutUint32(ctr[:], uint32(i))
			copy(tx[len(tx)-min(4, len(tx)):], ctr[4-min(4, len(tx)):])
			if err := mp.CheckTx(tx, nil, mempl.TxInfo{}); err == nil {
				total += int64(len(tx))
			}
		}
		pexec := sm.NewBlockExecutor(c.StateStore, log.NewNopLogger(), c.Proxy.Consensus(), mp, evd)

		mode := rapid.SampledFrom([]string{"shrink", "grow", "both", "both", "free"}).Draw(t, "mode")
		for i := 0; i <= k; i++ {
			// proposer check at the current state (height i = 0 is the initial block)
			st := c.State
			h := c.NextHeight()
			last := types.NewCommit(0, 0, types.BlockID{}, nil)
			if h != st.InitialHeight {
				last = c.Commits[h-1]
			}
			prop := st.Validators.GetProposer().Address
			blk, parts := pexec.CreateProposalBlock(h, st, last, prop)
			size := int64(blk.Size())
			limit := st.ConsensusParams.Block.MaxBytes
			nLast, nCur := st.LastValidators.Size(), st.Validators.Size()
			reaped := len(blk.Txs)
			brim := reaped < mp.Size()
			hdr, _ := proto.Marshal(blk.Header.ToProto())
			cls := []string{"mode:" + mode, "evidence-budget:" + evMode, slackClass(limit - size), fmt.Sprintf("brim:%v", brim), fmt.Sprintf("evidence-items:%d", len(blk.Evidence.Evidence))}
			switch {
			case nLast > nCur:
				cls = append(cls, "valset:shrunk")
				if nLast-nCur >= 2 {
					cls = append(cls, "valset:shrunk-by>=2")
				}
			case nLast < nCur && nLast > 0:
				cls = append(cls, "valset:grown")
			default:
				cls = append(cls, "valset:same-size")
			}
			lib.Case(name, lib.FP(fmt.Sprintf("%X", blk.Hash()), size), brim, cls...)
			if brim && lib.WantSample(name) {
				lib.Sample(name, map[string]interface{}{"height": h, "maxbytes": limit, "size": size, "txs": reaped, "mempool": mp.Size(),
					"evidence": len(blk.Evidence.Evidence), "last_vals": nLast, "vals": nCur, "header_bytes": len(hdr)})
			}

			if err := pexec.ValidateBlock(st, blk); err != nil {
				t.Fatalf("height %d: the proposer's own block is rejected: %v", h, err)
			}
			r := &ref{st: st, hist: b, strictAddr: true, skipEvidenceAdmission: true}
			if ok, why := r.validate(cloneBlock(blk)); !ok {
				t.Fatalf("height %d: reference rejects the proposer's block: %s", h, why)
			}
			if eb := blk.Evidence.ByteSize(); eb > st.ConsensusParams.Evidence.MaxBytes {
				t.Fatalf("height %d: evidence bytes %d > Evidence.MaxBytes %d", h, eb, st.ConsensusParams.Evidence.MaxBytes)
			}
			back, psize, err := reassemble(parts)
			if err != nil {
				t.Fatalf("height %d: block does not reassemble from its parts: %v", h, err)
			}
			if !bytes.Equal(back.Hash(), blk.Hash()) || !bytes.Equal(blockBytes(back), blockBytes(blk)) {
				t.Fatalf("height %d: reassembled block differs", h)
			}
			if psize != size {
				t.Fatalf("height %d: part set size %d != block size %d", h, psize, size)
			}
			if int64(len(hdr)) <= types.MaxHeaderBytes && size > limit {
				over := size - limit
				shrunk := int64(nLast - nCur)
				if lib.IsKnown(findingSize) && shrunk > 0 && over <= shrunk*(types.MaxCommitSigBytes+2) {
					lib.ObservedKnown(findingSize)
					lib.ExcludedByKnown(findingSize)
				} else {
					t.Fatalf("height %d: proposer block of %d bytes exceeds Block.MaxBytes=%d by %d (txs=%d of %d in mempool, evidence=%d bytes, last commit slots=%d, current validators=%d, header=%d bytes)",
						h, size, limit, over, reaped, mp.Size(), blk.Evidence.ByteSize(), nLast, nCur, len(hdr))
				}
			}
			if i == k {
				break
			}
			bias := ""
			switch mode {
			case "shrink":
				bias = "shrink"
			case "grow":
				bias = "grow"
			case "both":
				bias = "grow"
				if i >= k/2 {
					bias = "shrink"
				}
			}
			p := b.genPlan(t, fmt.Sprintf("h%d", i), o, bias)
			// proposer blocks are about size: keep the commits full so that the previous commit is as large as it gets
			if rapid.IntRange(0, 3).Draw(t, "fullcommit") != 0 {
				p.Flags = nil
				fixOffsets(c.State.Validators, nil, p.TsOffsets)
			}
			if err := b.advance(p); err != nil {
				t.Fatalf("valid chain could not be extended: %v", err)
			}
		}
	})
}


// evListSize: encoded size of the first j items as the evidence section of a block.
func evListSize(evs []types.Evidence, j int) int64 {
	var pl tmproto.EvidenceList
	for _, e := range evs[:j] {
		pb, err := types.EvidenceToProto(e)
		if err != nil {
			panic(err)
		}
		pl.Evidence = append(pl.Evidence, *pb)
	}
	return int64(pl.Size())
}

// TestProposerEvidence: the proposer side of the evidence byte limit with the REAL evidence pool. Valid duplicate-vote
// evidence is pending in the pool; a valid parameter update moves Evidence.MaxBytes to within +-3 bytes of the encoded
// size of some prefix of the pending list (or anywhere else); the block CreateProposalBlock then builds must pass
// ValidateBlock and the reference (which re-verifies every item), and carry at most Evidence.MaxBytes of evidence.
func TestProposerEvidence(t *testing.T) {
	const name = "TestProposerEvidence"
	rapid.Check(t, func(t *rapid.T) {
		o := genOpts{maxVals: 12, evidence: true}
		spec, prof, sat := genSpec(t, o)
		spec.Params.Evidence.MaxAgeNumBlocks = 1000 // nothing expires in this test
		spec.Params.Evidence.MaxBytes = 1 << 20
		b, err := newBuilt(spec, true, prof, sat)
		if err != nil {
			t.Fatalf("genesis rejected: %v", err)
		}
		defer b.c.Close()
		c := b.c
		pool := c.Exec // executor of the chain: real pool behind it
		k := rapid.IntRange(1, 4).Draw(t, "k")
		for i := 0; i < k; i++ {
			p := b.genPlan(t, fmt.Sprintf("h%d", i), o, "")
			if p.Params != nil {
				p.Params.Evidence, p.Params.Block = nil, nil // the evidence parameters are this test's own dimension
			}
			if err := b.advance(p); err != nil {
				t.Fatalf("valid chain could not be extended: %v", err)
			}
		}
		// evidence reaches the pool
		lp := b.pool
		want := rapid.IntRange(1, 6).Draw(t, "npending")
		for i := 0; i < want; i++ {
			h := rapid.Int64Range(c.Spec.InitialHeight, c.Tip()).Draw(t, "evh")
			ev := b.makeDupVote(h, rapid.IntRange(0, 200).Draw(t, "evv"), 600+rapid.IntRange(0, 250).Draw(t, "evsalt"), "valid")
			if b.evSeen[string(ev.Hash())] {
				continue
			}
			if err := lp.AddEvidence(ev); err != nil {
				t.Fatalf("valid evidence refused by the pool: %v", err)
			}
		}
		pending, _ := lp.PendingEvidence(-1)
		// move the limit next to a prefix size of the pending list (pool order)
		cur := c.State.ConsensusParams.Evidence
		limit := int64(0)
		near := false
		switch rapid.SampledFrom([]string{"near", "near", "near", "any", "zero"}).Draw(t, "limitmode") {
		case "near":
			j := rapid.Permutation(seq(len(pending) + 1)).Draw(t, "prefixes")[0] // uniform, unlike IntRange
			limit = evListSize(pending, j) + int64(rapid.IntRange(-3, 3).Draw(t, "delta"))
			near = true
		case "any":
			limit = rapid.Int64Range(0, evListSize(pending, len(pending))+10).Draw(t, "limit")
		}
		if limit < 0 {
			limit = 0
		}
		p := b.genPlan(t, "limit", o, "")
		p.Evidence = nil
		p.Params = &abci.ConsensusParams{Evidence: &tmproto.EvidenceParams{MaxAgeNumBlocks: cur.MaxAgeNumBlocks, MaxAgeDuration: cur.MaxAgeDuration, MaxBytes: limit}}
		if err := b.advance(p); err != nil {
			t.Fatalf("valid chain could not be extended: %v", err)
		}
		for step := 0; step < 2; step++ {
			st := c.State
			if st.ConsensusParams.Evidence.MaxBytes != limit {
				t.Fatalf("parameter update not in force: %d != %d", st.ConsensusParams.Evidence.MaxBytes, limit)
			}
			h := c.NextHeight()
			blk, _ := pool.CreateProposalBlock(h, st, c.Commits[h-1], st.Validators.GetProposer().Address)
			pendingNow, _ := lp.PendingEvidence(-1)
			got := blk.Evidence.ByteSize()
			maximal := 0
			for j := 0; j <= len(pendingNow); j++ {
				if evListSize(pendingNow, j) <= limit {
					maximal = j
				}
			}
			lib.Case(name, lib.FP(fmt.Sprintf("%X", blk.Hash()), limit), len(pendingNow) > 0 && near,
				fmt.Sprintf("pending:%d", len(pendingNow)), fmt.Sprintf("included:%d", len(blk.Evidence.Evidence)),
				fmt.Sprintf("included-is-maximal-prefix:%v", len(blk.Evidence.Evidence) == maximal), fmt.Sprintf("near-boundary:%v", near))
			if lib.WantSample(name) && near {
				lib.Sample(name, map[string]interface{}{"height": h, "pending": len(pendingNow), "included": len(blk.Evidence.Evidence),
					"evidence_bytes": got, "evidence_maxbytes": limit})
			}
			if got > limit {
				t.Fatalf("height %d: the proposer put %d bytes of evidence (%d items) in its block, Evidence.MaxBytes=%d (pending: %d items)",
					h, got, len(blk.Evidence.Evidence), limit, len(pendingNow))
			}
			if err := pool.ValidateBlock(st, blk); err != nil {
				t.Fatalf("height %d: the proposer's own block is rejected: %v", h, err)
			}
			r := &ref{st: st, hist: b, strictAddr: true}
			if ok, why := r.validate(cloneBlock(blk)); !ok {
				t.Fatalf("height %d: reference rejects the proposer's block: %s", h, why)
			}
			if step == 1 {
				break
			}
			// commit the proposer's block and propose once more: what was committed must not come back
			plan := b.genPlan(t, "after", o, "")
			plan.Evidence, plan.Params, plan.Txs = nil, nil, nil
			if err := b.advanceWith(plan, blk); err != nil {
				t.Fatalf("the proposer's block could not be applied: %v", err)
			}
			for _, e := range blk.Evidence.Evidence {
				b.evSeen[string(e.Hash())] = true
			}
		}
	})
}
