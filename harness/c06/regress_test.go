package c06

// Library-free (no rapid) regression tests for the two findings of the C06 search. Both FAIL on tendermint
// v0.34.24 and pass with /verif/fixes/C06-*.patch applied.

import (
	"bytes"
	"testing"
	"time"

	cfg "github.com/tendermint/tendermint/config"
	"github.com/tendermint/tendermint/libs/log"
	mempl "github.com/tendermint/tendermint/mempool"
	mpmock "github.com/tendermint/tendermint/mempool/mock"
	mempoolv0 "github.com/tendermint/tendermint/mempool/v0"
	sm "github.com/tendermint/tendermint/state"
	"github.com/tendermint/tendermint/types"

	"verif/lib"
)

// TestRegressCommitSigAddress: ValidateBlock must reject a block whose LastCommit carries, in a signed slot, an
// address that is not the address of the validator at that index. v0.34.24 verifies the signatures by index
// (VerifyCommit) but computes the block time by ADDRESS lookup (MedianTime): relabelling the honest slots with
// unknown addresses removes them from the median, so the proposer's own vote timestamp alone becomes the block time.
func TestRegressCommitSigAddress(t *testing.T) {
	c, err := lib.NewChain(lib.ChainSpec{ChainID: "regress-c06", Keys: []int{0, 1, 2, 3}, Powers: []int64{10, 10, 10, 10}})
	if err != nil {
		t.Fatal(err)
	}
	defer c.Close()
	if err := c.Advance(&lib.HeightPlan{}); err != nil {
		t.Fatal(err)
	}
	// the validator in slot 0 (the attacker) stamps its precommit one year ahead; the other three are honest
	year := 365 * 24 * time.Hour
	if err := c.Advance(&lib.HeightPlan{TsOffsets: []time.Duration{year, time.Second, time.Second, time.Second}}); err != nil {
		t.Fatal(err)
	}
	honest, _ := c.BuildNext(&lib.HeightPlan{})
	if err := c.Exec.ValidateBlock(c.State, cloneBlock(honest)); err != nil {
		t.Fatalf("honest block rejected: %v", err)
	}
	if honest.Time.Sub(c.State.LastBlockTime) > time.Minute {
		t.Fatalf("honest block time is not the honest median")
	}

	// (1) single-field perturbation: one signed slot relabelled with an address outside the validator set
	one := cloneBlock(honest)
	one.LastCommit.Signatures[3].ValidatorAddress = lib.Key(99).PubKey().Address()
	one.LastCommitHash = refCommitHash(one.LastCommit)
	errOne := c.Exec.ValidateBlock(c.State, one)

	// (2) the exploit: all honest slots relabelled, block time := the attacker's timestamp
	evil := cloneBlock(honest)
	for i := 1; i < 4; i++ {
		evil.LastCommit.Signatures[i].ValidatorAddress = lib.Key(100 + i).PubKey().Address()
	}
	evil.LastCommitHash = refCommitHash(evil.LastCommit)
	evil.Time = evil.LastCommit.Signatures[0].Timestamp
	errEvil := c.Exec.ValidateBlock(c.State, evil)

	if (errEvil == nil || errOne == nil) && lib.IsKnown(findingAddr) {
		lib.ObservedKnown(findingAddr)
		return
	}
	if errEvil == nil {
		parts := evil.MakePartSet(types.BlockPartSizeBytes)
		st, _, err := c.Exec.ApplyBlock(c.State, types.BlockID{Hash: evil.Hash(), PartSetHeader: parts.Header()}, evil)
		t.Errorf("ValidateBlock accepts a block whose time (%v) is one validator's timestamp, a year after the honest median (%v): "+
			"three of four LastCommit slots carry addresses of non-validators; ApplyBlock err=%v, new LastBlockTime=%v",
			evil.Time, honest.Time, err, st.LastBlockTime)
	}
	if errOne == nil {
		t.Errorf("ValidateBlock accepts a block whose LastCommit slot #3 carries the address of a non-validator")
	}
}

// TestRegressProposalSizeAfterShrink: the height after the validator set shrinks, the LastCommit still has one slot
// per member of the PREVIOUS set, but CreateProposalBlock sizes the data by the CURRENT set: with a full mempool
// the proposer's block exceeds Block.MaxBytes (every peer then refuses its parts).
func TestRegressProposalSizeAfterShrink(t *testing.T) {
	const n = 12
	keys := make([]int, n)
	powers := make([]int64, n)
	for i := range keys {
		keys[i], powers[i] = i, 10
	}
	p := lib.DefaultParams()
	p.Block.MaxBytes = types.MaxOverheadForBlock + types.MaxHeaderBytes + types.MaxCommitBytes(n) + 3000
	p.Evidence.MaxBytes = 0
	c, err := lib.NewChain(lib.ChainSpec{ChainID: "regress-c06", Keys: keys, Powers: powers, Params: p})
	if err != nil {
		t.Fatal(err)
	}
	defer c.Close()
	mcfg := cfg.DefaultMempoolConfig()
	mcfg.CacheSize, mcfg.Recheck = 0, false
	mp := mempoolv0.NewCListMempool(mcfg, c.Proxy.Mempool(), 0)
	for i := 0; i < 4000; i++ {
		if err := mp.CheckTx([]byte{'t', byte(i >> 8), byte(i)}, nil, mempl.TxInfo{}); err != nil {
			t.Fatal(err)
		}
	}
	pexec := sm.NewBlockExecutor(c.StateStore, log.NewNopLogger(), c.Proxy.Consensus(), mp, sm.EmptyEvidencePool{})

	// height 1 removes 8 of the 12 validators; the change is in force from height 3 on
	var rm []lib.ValUpdate
	for i := 0; i < 8; i++ {
		rm = append(rm, lib.ValUpdate{Key: i, Power: 0})
	}
	if err := c.Advance(&lib.HeightPlan{ValUpdates: rm}); err != nil {
		t.Fatal(err)
	}
	if err := c.Advance(&lib.HeightPlan{}); err != nil {
		t.Fatal(err)
	}
	st := c.State
	if st.LastValidators.Size() != n || st.Validators.Size() != n-8 {
		t.Fatalf("setup: last set %d, current set %d", st.LastValidators.Size(), st.Validators.Size())
	}
	h := c.NextHeight()
	blk, parts := pexec.CreateProposalBlock(h, st, c.Commits[h-1], st.Validators.GetProposer().Address)
	if err := pexec.ValidateBlock(st, blk); err != nil {
		t.Fatalf("proposer block rejected: %v", err)
	}
	if len(blk.Txs) >= mp.Size() {
		t.Fatalf("setup: mempool not full enough")
	}
	back, _, err := reassemble(parts)
	if err != nil || !bytes.Equal(back.Hash(), blk.Hash()) {
		t.Fatalf("reassembly: %v", err)
	}
	if size, limit := int64(blk.Size()), st.ConsensusParams.Block.MaxBytes; size > limit || parts.ByteSize() > limit {
		if lib.IsKnown(findingSize) {
			lib.ObservedKnown(findingSize)
			return
		}
		t.Errorf("proposer block at height %d is %d bytes (part set %d), Block.MaxBytes is %d: LastCommit has %d slots, data was sized for %d validators",
			h, size, parts.ByteSize(), limit, st.LastValidators.Size(), st.Validators.Size())
	}
}

// TestRegressMedianTimeUnixNanoWrap: the weighted median must order vote timestamps as instants. v0.34.24 orders them
// by Time.UnixNano(), which wraps outside 1678..2262: one of four equal validators stamps its (validly signed)
// precommit 2^64 ns (584 years) after an instant inside the honest spread, is sorted into the middle, and its
// far-future timestamp becomes the block time of the correct proposer's block, accepted by every node.
func TestRegressMedianTimeUnixNanoWrap(t *testing.T) {
	c, err := lib.NewChain(lib.ChainSpec{ChainID: "regress-c06", Keys: []int{0, 1, 2, 3}, Powers: []int64{10, 10, 10, 10}})
	if err != nil {
		t.Fatal(err)
	}
	defer c.Close()
	// honest precommits at +1s, +2s, +3s after the block; the fourth validator at +1.5s, re-stamped below
	offs := []time.Duration{1500 * time.Millisecond, time.Second, 2 * time.Second, 3 * time.Second}
	if err := c.Advance(&lib.HeightPlan{TsOffsets: offs}); err != nil {
		t.Fatal(err)
	}
	h := c.Tip()
	c.Commits[h] = restamp(c.Spec.ChainID, c.Commits[h], c.State.LastValidators, []farStamp{{slot: 0, kind: "+2^64ns"}})
	far := c.Commits[h].Signatures[0].Timestamp
	latestHonest := c.Blocks[h].Time.Add(3 * time.Second)
	blk, _ := c.BuildNext(&lib.HeightPlan{}) // the correct proposer
	want, _ := refMedian(commitEntries(c.Commits[h], c.State.LastValidators, false))
	err = c.Exec.ValidateBlock(c.State, cloneBlock(blk))
	if !blk.Time.Equal(want) || blk.Time.After(latestHonest) {
		if lib.IsKnown(findingWrap) {
			lib.ObservedKnown(findingWrap)
			return
		}
		t.Errorf("precommit timestamps: %v (one of four equal validators), honest ones up to %v; weighted median is %v, "+
			"but the proposer's block time is %v and ValidateBlock says %v", far, latestHonest, want, blk.Time, err)
	} else if err != nil {
		t.Errorf("correct block rejected: %v", err)
	}
}

// TestRegressEvidenceBudgetExceedsBlockRoom: ConsensusParams only require Evidence.MaxBytes <= Block.MaxBytes. With
// Block.MaxBytes = Evidence.MaxBytes = 4096 and ten pending evidence items (well within Evidence.MaxBytes) the
// proposer of v0.34.24 asks the pool for the full Evidence.MaxBytes and then panics in MaxDataBytes ("Negative
// MaxDataBytes") instead of building a block with the evidence that fits.
func TestRegressEvidenceBudgetExceedsBlockRoom(t *testing.T) {
	p := lib.DefaultParams()
	p.Block.MaxBytes, p.Evidence.MaxBytes = 4096, 4096
	c, err := lib.NewChain(lib.ChainSpec{ChainID: "regress-c06", Keys: []int{0, 1, 2, 3}, Powers: []int64{10, 10, 10, 10}, Params: p})
	if err != nil {
		t.Fatal(err)
	}
	defer c.Close()
	if err := c.Advance(&lib.HeightPlan{}); err != nil {
		t.Fatal(err)
	}
	evd := &evDouble{}
	for i := 0; i < 10; i++ {
		k := ringMax + 1 + i
		mk := func(n int) *types.Vote {
			v := &types.Vote{Type: 2, Height: 1, Round: 0, BlockID: fakeBlockID(byte(i), n), Timestamp: c.Blocks[1].Time,
				ValidatorAddress: lib.Key(k).PubKey().Address(), ValidatorIndex: 0}
			signVote(k, c.Spec.ChainID, v)
			return v
		}
		a, b := mk(1), mk(2)
		if a.BlockID.Key() >= b.BlockID.Key() {
			a, b = b, a
		}
		evd.list = append(evd.list, &types.DuplicateVoteEvidence{VoteA: a, VoteB: b, TotalVotingPower: 40, ValidatorPower: 10, Timestamp: c.Blocks[1].Time})
	}
	if _, sz := evd.PendingEvidence(p.Evidence.MaxBytes); sz > p.Evidence.MaxBytes || sz < 3000 {
		t.Fatalf("setup: pending evidence %d bytes", sz)
	}
	pexec := sm.NewBlockExecutor(c.StateStore, log.NewNopLogger(), c.Proxy.Consensus(), mpmock.Mempool{}, evd)
	st := c.State
	h := c.NextHeight()
	var blk *types.Block
	panicked := func() (r interface{}) {
		defer func() { r = recover() }()
		blk, _ = pexec.CreateProposalBlock(h, st, c.Commits[h-1], st.Validators.GetProposer().Address)
		return nil
	}()
	if panicked != nil {
		if lib.IsKnown(findingRoom) {
			lib.ObservedKnown(findingRoom)
			return
		}
		t.Fatalf("the proposer cannot build a block although Block.MaxBytes=%d, Evidence.MaxBytes=%d are valid parameters: panic: %v",
			p.Block.MaxBytes, p.Evidence.MaxBytes, panicked)
	}
	if err := pexec.ValidateBlock(st, blk); err != nil {
		t.Errorf("proposer block rejected: %v", err)
	}
	if size := int64(blk.Size()); size > p.Block.MaxBytes || blk.Evidence.ByteSize() > p.Evidence.MaxBytes {
		t.Errorf("proposer block of %d bytes (evidence %d), Block.MaxBytes=%d", size, blk.Evidence.ByteSize(), p.Block.MaxBytes)
	}
	if len(blk.Evidence.Evidence) == 0 {
		t.Errorf("the block carries no evidence although several items fit")
	}
}

// TestRegressMedianFloorFaultyMinority: four validators of power 1; the commit for block 1 carries three precommits
// (the fourth did not arrive), one of them from a faulty validator stamped an hour in the past. WeightedMedian picks
// the element whose cumulative weight reaches floor(3/2) = 1, i.e. the faulty one: the block the correct proposer
// builds from this commit has a time before the previous block and is rejected by ValidateBlock on every node.
func TestRegressMedianFloorFaultyMinority(t *testing.T) {
	c, err := lib.NewChain(lib.ChainSpec{ChainID: "regress-c06", Keys: []int{0, 1, 2, 3}, Powers: []int64{1, 1, 1, 1}})
	if err != nil {
		t.Fatal(err)
	}
	defer c.Close()
	flags := []types.BlockIDFlag{types.BlockIDFlagCommit, types.BlockIDFlagCommit, types.BlockIDFlagCommit, types.BlockIDFlagAbsent}
	offs := []time.Duration{-time.Hour, time.Second, 2 * time.Second, 0}
	if err := c.Advance(&lib.HeightPlan{Flags: flags, TsOffsets: offs}); err != nil {
		t.Fatal(err)
	}
	blk, _ := c.BuildNext(&lib.HeightPlan{}) // the correct proposer
	err = c.Exec.ValidateBlock(c.State, cloneBlock(blk))
	if err != nil {
		if lib.IsKnown(findingFloor) && !blk.Time.After(c.State.LastBlockTime) {
			lib.ObservedKnown(findingFloor)
			return
		}
		t.Errorf("commit with 3 of 4 unit-power precommits, one faulty (1/4 of the power) stamped one hour before the block: "+
			"the correct proposer's block has time %v (previous block %v) and is rejected: %v", blk.Time, c.State.LastBlockTime, err)
	}
}
