package c06

// Library-free (no rapid) regression tests for the two findings of the C06 search. Both FAIL on tendermint
// v0.34.24 and pass with /verif/fixes/C06-*.patch applied.

import (
	"bytes"
	"testing"
	"time"

	cfg "github.com/tendermint/tendermint/config"
	"github.com/tendermint/tendermint/libs/log"
	mempl "github.com/tendermint/tendermint/mempool"
	mempoolv0 "github.com/tendermint/tendermint/mempool/v0"
	sm "github.com/tendermint/tendermint/state"
	"github.com/tendermint/tendermint/types"

	"verif/lib"
)

// TestRegressCommitSigAddress: ValidateBlock must reject a block whose LastCommit carries, in a signed slot, an
// address that is not the address of the validator at that index. v0.34.24 verifies the signatures by index
// (VerifyCommit) but computes the block time by ADDRESS lookup (MedianTime): relabelling the honest slots with
// unknown addresses removes them from the median, so the proposer's own vote timestamp alone becomes the block time.
func TestRegressCommitSigAddress(t *testing.T) {
	c, err := lib.NewChain(lib.ChainSpec{ChainID: "regress-c06", Keys: []int{0, 1, 2, 3}, Powers: []int64{10, 10, 10, 10}})
	if err != nil {
		t.Fatal(err)
	}
	defer c.Close()
	if err := c.Advance(&lib.HeightPlan{}); err != nil {
		t.Fatal(err)
	}
	// the validator in slot 0 (the attacker) stamps its precommit one year ahead; the other three are honest
	year := 365 * 24 * time.Hour
	if err := c.Advance(&lib.HeightPlan{TsOffsets: []time.Duration{year, time.Second, time.Second, time.Second}}); err != nil {
		t.Fatal(err)
	}
	honest, _ := c.BuildNext(&lib.HeightPlan{})
	if err := c.Exec.ValidateBlock(c.State, cloneBlock(honest)); err != nil {
		t.Fatalf("honest block rejected: %v", err)
	}
	if honest.Time.Sub(c.State.LastBlockTime) > time.Minute {
		t.Fatalf("honest block time is not the honest median")
	}

	// (1) single-field perturbation: one signed slot relabelled with an address outside the validator set
	one := cloneBlock(honest)
	one.LastCommit.Signatures[3].ValidatorAddress = lib.Key(99).PubKey().Address()
	one.LastCommitHash = refCommitHash(one.LastCommit)
	errOne := c.Exec.ValidateBlock(c.State, one)

	// (2) the exploit: all honest slots relabelled, block time := the attacker's timestamp
	evil := cloneBlock(honest)
	for i := 1; i < 4; i++ {
		evil.LastCommit.Signatures[i].ValidatorAddress = lib.Key(100 + i).PubKey().Address()
	}
	evil.LastCommitHash = refCommitHash(evil.LastCommit)
	evil.Time = evil.LastCommit.Signatures[0].Timestamp
	errEvil := c.Exec.ValidateBlock(c.State, evil)

	if (errEvil == nil || errOne == nil) && lib.IsKnown(findingAddr) {
		lib.ObservedKnown(findingAddr)
		return
	}
	if errEvil == nil {
		parts := evil.MakePartSet(types.BlockPartSizeBytes)
		st, _, err := c.Exec.ApplyBlock(c.State, types.BlockID{Hash: evil.Hash(), PartSetHeader: parts.Header()}, evil)
		t.Errorf("ValidateBlock accepts a block whose time (%v) is one validator's timestamp, a year after the honest median (%v): "+
			"three of four LastCommit slots carry addresses of non-validators; ApplyBlock err=%v, new LastBlockTime=%v",
			evil.Time, honest.Time, err, st.LastBlockTime)
	}
	if errOne == nil {
		t.Errorf("ValidateBlock accepts a block whose LastCommit slot #3 carries the address of a non-validator")
	}
}

// TestRegressProposalSizeAfterShrink: the height after the validator set shrinks, the LastCommit still has one slot
// per member of the PREVIOUS set, but CreateProposalBlock sizes the data by the CURRENT set: with a full mempool
// the proposer's block exceeds Block.MaxBytes (every peer then refuses its parts).
func TestRegressProposalSizeAfterShrink(t *testing.T) {
	const n = 12
	keys := make([]int, n)
	powers := make([]int64, n)
	for i := range keys {
		keys[i], powers[i] = i, 10
	}
	p := lib.DefaultParams()
	p.Block.MaxBytes = types.MaxOverheadForBlock + types.MaxHeaderBytes + types.MaxCommitBytes(n) + 3000
	p.Evidence.MaxBytes = 0
	c, err := lib.NewChain(lib.ChainSpec{ChainID: "regress-c06", Keys: keys, Powers: powers, Params: p})
	if err != nil {
		t.Fatal(err)
	}
	defer c.Close()
	mcfg := cfg.DefaultMempoolConfig()
	mcfg.CacheSize, mcfg.Recheck = 0, false
	mp := mempoolv0.NewCListMempool(mcfg, c.Proxy.Mempool(), 0)
	for i := 0; i < 4000; i++ {
		if err := mp.CheckTx([]byte{'t', byte(i >> 8), byte(i)}, nil, mempl.TxInfo{}); err != nil {
			t.Fatal(err)
		}
	}
	pexec := sm.NewBlockExecutor(c.StateStore, log.NewNopLogger(), c.Proxy.Consensus(), mp, sm.EmptyEvidencePool{})

	// height 1 removes 8 of the 12 validators; the change is in force from height 3 on
	var rm []lib.ValUpdate
	for i := 0; i < 8; i++ {
		rm = append(rm, lib.ValUpdate{Key: i, Power: 0})
	}
	if err := c.Advance(&lib.HeightPlan{ValUpdates: rm}); err != nil {
		t.Fatal(err)
	}
	if err := c.Advance(&lib.HeightPlan{}); err != nil {
		t.Fatal(err)
	}
	st := c.State
	if st.LastValidators.Size() != n || st.Validators.Size() != n-8 {
		t.Fatalf("setup: last set %d, current set %d", st.LastValidators.Size(), st.Validators.Size())
	}
	h := c.NextHeight()
	blk, parts := pexec.CreateProposalBlock(h, st, c.Commits[h-1], st.Validators.GetProposer().Address)
	if err := pexec.ValidateBlock(st, blk); err != nil {
		t.Fatalf("proposer block rejected: %v", err)
	}
	if len(blk.Txs) >= mp.Size() {
		t.Fatalf("setup: mempool not full enough")
	}
	back, _, err := reassemble(parts)
	if err != nil || !bytes.Equal(back.Hash(), blk.Hash()) {
		t.Fatalf("reassembly: %v", err)
	}
	if size, limit := int64(blk.Size()), st.ConsensusParams.Block.MaxBytes; size > limit || parts.ByteSize() > limit {
		if lib.IsKnown(findingSize) {
			lib.ObservedKnown(findingSize)
			return
		}
		t.Errorf("proposer block at height %d is %d bytes (part set %d), Block.MaxBytes is %d: LastCommit has %d slots, data was sized for %d validators",
			h, size, parts.ByteSize(), limit, st.LastValidators.Size(), st.Validators.Size())
	}
}
