package c06

import (
	"bytes"
	"fmt"
	"time"

	"github.com/gogo/protobuf/proto"
	sm "github.com/tendermint/tendermint/state"
	"github.com/tendermint/tendermint/types"
	"pgregory.net/rapid"

	"verif/lib"
)

// cloneBlock builds a fresh block object (no memoised hashes) with the same content.
func cloneBlock(b *types.Block) *types.Block {
	cp := func(x []byte) []byte {
		if x == nil {
			return nil
		}
		return append([]byte{}, x...)
	}
	h := b.Header
	h.LastBlockID.Hash = cp(h.LastBlockID.Hash)
	h.LastBlockID.PartSetHeader.Hash = cp(h.LastBlockID.PartSetHeader.Hash)
	h.LastCommitHash, h.DataHash, h.ValidatorsHash = cp(h.LastCommitHash), cp(h.DataHash), cp(h.ValidatorsHash)
	h.NextValidatorsHash, h.ConsensusHash, h.AppHash = cp(h.NextValidatorsHash), cp(h.ConsensusHash), cp(h.AppHash)
	h.LastResultsHash, h.EvidenceHash, h.ProposerAddress = cp(h.LastResultsHash), cp(h.EvidenceHash), cp(h.ProposerAddress)
	txs := make(types.Txs, len(b.Data.Txs))
	for i, tx := range b.Data.Txs {
		txs[i] = cp(tx)
	}
	if b.Data.Txs == nil {
		txs = nil
	}
	nb := &types.Block{Header: h, Data: types.Data{Txs: txs}}
	nb.Evidence = types.EvidenceData{Evidence: append(types.EvidenceList(nil), b.Evidence.Evidence...)}
	if b.LastCommit != nil {
		nb.LastCommit = cloneCommit(b.LastCommit)
	}
	return nb
}

func cloneCommit(c *types.Commit) *types.Commit {
	sigs := make([]types.CommitSig, len(c.Signatures))
	for i, s := range c.Signatures {
		sigs[i] = types.CommitSig{BlockIDFlag: s.BlockIDFlag, ValidatorAddress: append([]byte(nil), s.ValidatorAddress...),
			Timestamp: s.Timestamp, Signature: append([]byte(nil), s.Signature...)}
		if s.ValidatorAddress == nil {
			sigs[i].ValidatorAddress = nil
		}
		if s.Signature == nil {
			sigs[i].Signature = nil
		}
	}
	if c.Signatures == nil {
		sigs = nil
	}
	bid := c.BlockID
	bid.Hash = append([]byte(nil), bid.Hash...)
	bid.PartSetHeader.Hash = append([]byte(nil), bid.PartSetHeader.Hash...)
	return types.NewCommit(c.Height, c.Round, bid, sigs)
}

func blockBytes(b *types.Block) []byte {
	pb, err := b.ToProto()
	if err != nil {
		panic(err)
	}
	bz, err := proto.Marshal(pb)
	if err != nil {
		panic(err)
	}
	return bz
}

func flipBit(t *rapid.T, x []byte, label string) []byte {
	if len(x) == 0 {
		return []byte{1}
	}
	y := append([]byte(nil), x...)
	i := rapid.IntRange(0, len(y)*8-1).Draw(t, label+".bit")
	y[i/8] ^= 1 << uint(i%8)
	return y
}

// env: the state a block is validated against, the valid block, and the generated history behind it.
type env struct {
	b       *built
	st      sm.State
	valid   *types.Block
	initial bool
}

// perturbation kinds. Suffix conventions: kinds in commitKinds / dataKinds / evKinds are drawn together with a
// "rederive" coin (content hash in the header recomputed from the changed content or left alone).
var headerKinds = []string{
	"ver-block", "ver-app", "chainid-append", "chainid-other", "chainid-empty", "chainid-long",
	"height+1", "height-1", "height-zero",
	"time+1ns", "time-1ns", "time=last", "time-before-last", "time+1s", "time-median-subset", "time-median-forblock-only",
	"lbid-hash", "lbid-total", "lbid-parthash", "lbid-zero",
	"lastcommithash-flip", "lastcommithash-empty", "lastcommithash-short",
	"datahash-flip", "datahash-empty",
	"valhash-flip", "valhash=next", "valhash-empty",
	"nextvalhash-flip", "nextvalhash=cur",
	"conshash-flip", "conshash=prev", "conshash-empty",
	"apphash-flip", "apphash-append", "apphash-trunc", "apphash=prev",
	"resultshash-flip", "resultshash-empty", "resultshash=prev",
	"evhash-flip", "evhash-empty",
	"proposer-outsider", "proposer-other-member", "proposer-short", "proposer-empty", "proposer-removed-member", "proposer-future-member",
}

var dataKinds = []string{"tx-append", "tx-drop", "tx-flip", "tx-swap", "tx-empty-all"}

var commitKinds = []string{
	"commit-height+1", "commit-height-1", "commit-round+1", "commit-round-1", "commit-bid-hash", "commit-bid-total", "commit-bid-parthash", "commit-bid-zero",
	"slot-commit>nil", "slot-commit>absent-keepdata", "slot-commit>absent", "slot-nil>commit", "slot-absent>commit-nodata", "slot-flag-0", "slot-flag-4",
	"slot-nil>absent", "slot-commit>absent+retime", "slot-nil>absent+retime",
	"slot-addr-member", "slot-addr-outsider", "slot-addr-short", "slot-addr-empty",
	"slot-ts+1ns", "slot-ts-zero", "slot-ts-resigned", "slot-ts-resigned+retime", "slot-ts-far-resigned", "slot-ts-far-resigned+retime",
	"slot-sig-flip", "slot-sig-trunc", "slot-sig-empty", "slot-sig-65", "slot-sig-otherkey", "slot-sig-swap",
	"slots-swap", "slots-drop-last", "slots-append-absent", "slots-append-signed",
	"commit-wrongset-keys", "commit-wrongset-current", "commit-nil",
	"power-insufficient", "power-insufficient+retime", "power-minimal+retime",
	// every present slot re-stamped (and re-signed) relative to the previous block time, block time re-derived:
	// isolates the "later than the previous block" rule from the median rule
	"commit-allts=last+retime", "commit-allts<last+retime", "commit-allts=last+1ns+retime",
}

var initialKinds = []string{"initial-with-sig", "initial-commit-round", "initial-commit-blockid", "initial-commit-height", "initial-time+1ns", "initial-time-1ns", "commit-nil"}

var evKinds = []string{"ev-add-valid", "ev-add-badsig", "ev-add-power", "ev-add-total", "ev-add-time", "ev-add-committed", "ev-add-expired",
	"ev-add-nonvalidator", "ev-add-twice", "ev-add-many", "ev-add-swapped", "ev-add-wrongchain", "ev-add-future-height", "ev-drop"}

func (e *env) lastVals() *types.ValidatorSet { return e.st.LastValidators }

// pickSlot draws a slot index of the commit with the wanted flag (-1 if none).
func pickSlot(t *rapid.T, c *types.Commit, want func(types.CommitSig) bool, label string) int {
	var idx []int
	for i, s := range c.Signatures {
		if want(s) {
			idx = append(idx, i)
		}
	}
	if len(idx) == 0 {
		return -1
	}
	return idx[rapid.IntRange(0, len(idx)-1).Draw(t, label)]
}

func isCommit(s types.CommitSig) bool   { return s.BlockIDFlag == types.BlockIDFlagCommit }
func isNil(s types.CommitSig) bool      { return s.BlockIDFlag == types.BlockIDFlagNil }
func isAbsent(s types.CommitSig) bool   { return s.BlockIDFlag == types.BlockIDFlagAbsent }
func isPresent(s types.CommitSig) bool  { return s.BlockIDFlag != types.BlockIDFlagAbsent }
func anySlot(s types.CommitSig) bool    { return true }

// resign recomputes slot i's signature with the key of validator i of vals.
func (e *env) resign(c *types.Commit, i int, vals *types.ValidatorSet) {
	s := &c.Signatures[i]
	v := &types.Vote{Type: 2, Height: c.Height, Round: c.Round, Timestamp: s.Timestamp}
	if s.BlockIDFlag == types.BlockIDFlagCommit {
		v.BlockID = c.BlockID
	}
	signVote(lib.KeyIndex(vals.Validators[i].Address), e.st.ChainID, v)
	s.Signature = v.Signature
}

func (e *env) retime(b *types.Block) {
	if m, ok := refMedian(commitEntries(b.LastCommit, e.lastVals(), false)); ok {
		b.Time = m
	}
}

// apply performs the perturbation kind on the fresh clone b. Returns false when not applicable in this situation.
// detail is part of the case fingerprint.
func (e *env) apply(t *rapid.T, kind string, b *types.Block) (ok bool, detail string) {
	st := e.st
	c := b.LastCommit
	h := &b.Header
	prevState, havePrev := e.b.c.States[st.LastBlockHeight-1]
	switch kind {
	// ---- header ----
	case "ver-block":
		h.Version.Block += uint64(rapid.SampledFrom([]int{1, -1}).Draw(t, "d"))
	case "ver-app":
		h.Version.App++
	case "chainid-append":
		h.ChainID += "x"
	case "chainid-other":
		h.ChainID = "other-chain"
	case "chainid-empty":
		h.ChainID = ""
	case "chainid-long":
		h.ChainID = h.ChainID + string(bytes.Repeat([]byte{'y'}, 51-len(h.ChainID)))
	case "height+1":
		h.Height++
	case "height-1":
		h.Height--
	case "height-zero":
		h.Height = 0
	case "time+1ns":
		h.Time = h.Time.Add(1)
	case "time-1ns":
		h.Time = h.Time.Add(-1)
	case "time=last":
		h.Time = st.LastBlockTime
	case "time-before-last":
		h.Time = st.LastBlockTime.Add(-time.Duration(rapid.Int64Range(1, 1_000_000_000).Draw(t, "d")))
	case "time+1s":
		h.Time = h.Time.Add(time.Second)
	case "time-median-subset":
		if e.initial {
			return false, ""
		}
		// median over a different subset of the present slots
		var es []wt
		for i, s := range c.Signatures {
			if isPresent(s) && rapid.Bool().Draw(t, "keep") {
				es = append(es, wt{s.Timestamp, e.lastVals().Validators[i].VotingPower})
			}
		}
		m, ok := refMedian(es)
		if !ok {
			return false, ""
		}
		h.Time = m
	case "time-median-forblock-only":
		if e.initial {
			return false, ""
		}
		m, ok := refMedian(commitEntries(c, e.lastVals(), true))
		if !ok {
			return false, ""
		}
		h.Time = m
	case "lbid-hash":
		h.LastBlockID.Hash = flipBit(t, h.LastBlockID.Hash, "lbid")
		if e.initial {
			h.LastBlockID.Hash = bytes.Repeat([]byte{7}, 32)
		}
	case "lbid-total":
		h.LastBlockID.PartSetHeader.Total++
	case "lbid-parthash":
		h.LastBlockID.PartSetHeader.Hash = flipBit(t, h.LastBlockID.PartSetHeader.Hash, "lbid")
		if e.initial {
			h.LastBlockID.PartSetHeader.Hash = bytes.Repeat([]byte{7}, 32)
		}
	case "lbid-zero":
		if e.initial {
			return false, ""
		}
		h.LastBlockID = types.BlockID{}
	case "lastcommithash-flip":
		h.LastCommitHash = flipBit(t, h.LastCommitHash, "x")
	case "lastcommithash-empty":
		h.LastCommitHash = nil
	case "lastcommithash-short":
		h.LastCommitHash = h.LastCommitHash[:31]
	case "datahash-flip":
		h.DataHash = flipBit(t, h.DataHash, "x")
	case "datahash-empty":
		h.DataHash = nil
	case "valhash-flip":
		h.ValidatorsHash = flipBit(t, h.ValidatorsHash, "x")
	case "valhash=next":
		h.ValidatorsHash = st.NextValidators.Hash()
	case "valhash-empty":
		h.ValidatorsHash = nil
	case "nextvalhash-flip":
		h.NextValidatorsHash = flipBit(t, h.NextValidatorsHash, "x")
	case "nextvalhash=cur":
		h.NextValidatorsHash = st.Validators.Hash()
	case "conshash-flip":
		h.ConsensusHash = flipBit(t, h.ConsensusHash, "x")
	case "conshash=prev":
		if !havePrev {
			return false, ""
		}
		h.ConsensusHash = types.HashConsensusParams(prevState.ConsensusParams)
	case "conshash-empty":
		h.ConsensusHash = nil
	case "apphash-flip":
		h.AppHash = flipBit(t, h.AppHash, "x")
	case "apphash-append":
		h.AppHash = append(append([]byte{}, h.AppHash...), 0)
	case "apphash-trunc":
		if len(h.AppHash) == 0 {
			return false, ""
		}
		h.AppHash = h.AppHash[:len(h.AppHash)-1]
	case "apphash=prev":
		if !havePrev {
			return false, ""
		}
		h.AppHash = prevState.AppHash
	case "resultshash-flip":
		h.LastResultsHash = flipBit(t, h.LastResultsHash, "x")
	case "resultshash-empty":
		h.LastResultsHash = nil
	case "resultshash=prev":
		if !havePrev {
			return false, ""
		}
		h.LastResultsHash = prevState.LastResultsHash
	case "evhash-flip":
		h.EvidenceHash = flipBit(t, h.EvidenceHash, "x")
	case "evhash-empty":
		h.EvidenceHash = nil
	case "proposer-outsider":
		h.ProposerAddress = lib.Key(ringMax + 7).PubKey().Address()
	case "proposer-other-member":
		vs := st.Validators.Validators
		h.ProposerAddress = vs[rapid.IntRange(0, len(vs)-1).Draw(t, "m")].Address
	case "proposer-short":
		h.ProposerAddress = h.ProposerAddress[:19]
	case "proposer-empty":
		h.ProposerAddress = nil
	case "proposer-removed-member", "proposer-future-member":
		from := st.LastValidators
		if kind == "proposer-future-member" {
			from = st.NextValidators
		}
		var cands [][]byte
		for _, v := range from.Validators {
			if !st.Validators.HasAddress(v.Address) {
				cands = append(cands, v.Address)
			}
		}
		if len(cands) == 0 {
			return false, ""
		}
		h.ProposerAddress = cands[rapid.IntRange(0, len(cands)-1).Draw(t, "m")]

	// ---- data ----
	case "tx-append":
		b.Data.Txs = append(b.Data.Txs, types.Tx("appended"))
	case "tx-drop":
		if len(b.Data.Txs) == 0 {
			return false, ""
		}
		i := rapid.IntRange(0, len(b.Data.Txs)-1).Draw(t, "i")
		b.Data.Txs = append(append(types.Txs{}, b.Data.Txs[:i]...), b.Data.Txs[i+1:]...)
	case "tx-flip":
		if len(b.Data.Txs) == 0 {
			return false, ""
		}
		i := rapid.IntRange(0, len(b.Data.Txs)-1).Draw(t, "i")
		b.Data.Txs[i] = flipBit(t, b.Data.Txs[i], "tx")
	case "tx-swap":
		if len(b.Data.Txs) < 2 {
			return false, ""
		}
		i := rapid.IntRange(0, len(b.Data.Txs)-2).Draw(t, "i")
		b.Data.Txs[i], b.Data.Txs[i+1] = b.Data.Txs[i+1], b.Data.Txs[i]
	case "tx-empty-all":
		if len(b.Data.Txs) == 0 {
			return false, ""
		}
		b.Data.Txs = nil

	// ---- initial block ----
	case "initial-with-sig":
		vs := st.Validators
		fake := lib.SignCommit(st.ChainID, 0, 0, fakeBlockID(9, 1), vs, nil, st.LastBlockTime, nil)
		c.Signatures = fake.Signatures[:rapid.IntRange(1, len(fake.Signatures)).Draw(t, "n")]
	case "initial-commit-round":
		c.Round = int32(rapid.IntRange(1, 9).Draw(t, "r"))
	case "initial-commit-blockid":
		c.BlockID = fakeBlockID(3, 1)
	case "initial-commit-height":
		c.Height = rapid.SampledFrom([]int64{1, st.InitialHeight - 1, st.InitialHeight}).Draw(t, "h")
		if c.Height == 0 {
			c.Height = 1
		}
	case "initial-time+1ns":
		h.Time = h.Time.Add(1)
	case "initial-time-1ns":
		h.Time = h.Time.Add(-1)
	case "commit-nil":
		b.LastCommit = nil

	// ---- commit ----
	case "commit-height+1":
		c.Height++
	case "commit-height-1":
		c.Height--
	case "commit-round+1":
		c.Round++
	case "commit-round-1":
		c.Round--
	case "commit-bid-hash":
		c.BlockID.Hash = flipBit(t, c.BlockID.Hash, "x")
	case "commit-bid-total":
		c.BlockID.PartSetHeader.Total++
	case "commit-bid-parthash":
		c.BlockID.PartSetHeader.Hash = flipBit(t, c.BlockID.PartSetHeader.Hash, "x")
	case "commit-bid-zero":
		c.BlockID = types.BlockID{}
	case "slot-commit>nil", "slot-commit>absent-keepdata", "slot-commit>absent", "slot-commit>absent+retime":
		i := pickSlot(t, c, isCommit, "slot")
		if i < 0 {
			return false, ""
		}
		switch kind {
		case "slot-commit>nil":
			c.Signatures[i].BlockIDFlag = types.BlockIDFlagNil
		case "slot-commit>absent-keepdata":
			c.Signatures[i].BlockIDFlag = types.BlockIDFlagAbsent
		default:
			c.Signatures[i] = types.NewCommitSigAbsent()
		}
		if kind == "slot-commit>absent+retime" {
			e.retime(b)
		}
		detail = fmt.Sprint(i)
	case "slot-nil>commit", "slot-nil>absent", "slot-nil>absent+retime":
		i := pickSlot(t, c, isNil, "slot")
		if i < 0 {
			return false, ""
		}
		if kind == "slot-nil>commit" {
			c.Signatures[i].BlockIDFlag = types.BlockIDFlagCommit
		} else {
			c.Signatures[i] = types.NewCommitSigAbsent()
		}
		if kind == "slot-nil>absent+retime" {
			e.retime(b)
		}
		detail = fmt.Sprint(i)
	case "slot-absent>commit-nodata":
		i := pickSlot(t, c, isAbsent, "slot")
		if i < 0 {
			return false, ""
		}
		c.Signatures[i].BlockIDFlag = types.BlockIDFlagCommit
		detail = fmt.Sprint(i)
	case "slot-flag-0", "slot-flag-4":
		i := pickSlot(t, c, anySlot, "slot")
		if i < 0 {
			return false, ""
		}
		c.Signatures[i].BlockIDFlag = 0
		if kind == "slot-flag-4" {
			c.Signatures[i].BlockIDFlag = 4
		}
	case "slot-addr-member", "slot-addr-outsider", "slot-addr-short", "slot-addr-empty":
		i := pickSlot(t, c, isPresent, "slot")
		if i < 0 {
			return false, ""
		}
		s := &c.Signatures[i]
		switch kind {
		case "slot-addr-member":
			vs := e.lastVals().Validators
			s.ValidatorAddress = append([]byte(nil), vs[rapid.IntRange(0, len(vs)-1).Draw(t, "m")].Address...)
		case "slot-addr-outsider":
			s.ValidatorAddress = lib.Key(ringMax + 9).PubKey().Address()
		case "slot-addr-short":
			s.ValidatorAddress = s.ValidatorAddress[:19]
		case "slot-addr-empty":
			s.ValidatorAddress = nil
		}
		detail = fmt.Sprint(i)
	case "slot-ts-far-resigned", "slot-ts-far-resigned+retime":
		// one validator's precommit re-stamped centuries away (valid signature): the median may or may not move
		if lib.IsKnown(findingWrap) {
			lib.ExcludedByKnown(findingWrap)
			return false, ""
		}
		i := pickSlot(t, c, isPresent, "slot")
		if i < 0 {
			return false, ""
		}
		fk := rapid.SampledFrom(farKinds).Draw(t, "farkind")
		c.Signatures[i].Timestamp = farTime(c.Signatures[i].Timestamp, fk)
		e.resign(c, i, e.lastVals())
		if kind == "slot-ts-far-resigned+retime" {
			e.retime(b)
		}
		detail = fmt.Sprint(i, fk)
	case "slot-ts+1ns", "slot-ts-zero", "slot-ts-resigned", "slot-ts-resigned+retime":
		i := pickSlot(t, c, isPresent, "slot")
		if i < 0 {
			return false, ""
		}
		s := &c.Signatures[i]
		switch kind {
		case "slot-ts+1ns":
			s.Timestamp = s.Timestamp.Add(1)
		case "slot-ts-zero":
			s.Timestamp = time.Time{}
		default:
			s.Timestamp = s.Timestamp.Add(time.Duration(rapid.SampledFrom([]int64{-5_000_000_000, -1_000_000, 1, 1_000_000, 7_000_000_000, 86_400_000_000_000}).Draw(t, "dts")))
			e.resign(c, i, e.lastVals())
			if kind == "slot-ts-resigned+retime" {
				e.retime(b)
			}
		}
		detail = fmt.Sprint(i)
	case "slot-sig-flip", "slot-sig-trunc", "slot-sig-empty", "slot-sig-65", "slot-sig-otherkey", "slot-sig-swap":
		i := pickSlot(t, c, isPresent, "slot")
		if i < 0 {
			return false, ""
		}
		s := &c.Signatures[i]
		switch kind {
		case "slot-sig-flip":
			s.Signature = flipBit(t, s.Signature, "sig")
		case "slot-sig-trunc":
			s.Signature = s.Signature[:63]
		case "slot-sig-empty":
			s.Signature = nil
		case "slot-sig-65":
			s.Signature = append(s.Signature, 0)
		case "slot-sig-otherkey":
			v := &types.Vote{Type: 2, Height: c.Height, Round: c.Round, Timestamp: s.Timestamp}
			if isCommit(*s) {
				v.BlockID = c.BlockID
			}
			signVote(ringMax+11, st.ChainID, v)
			s.Signature = v.Signature
		case "slot-sig-swap":
			j := pickSlot(t, c, isPresent, "slot2")
			if j == i {
				return false, ""
			}
			s.Signature, c.Signatures[j].Signature = c.Signatures[j].Signature, s.Signature
		}
		detail = fmt.Sprint(i)
	case "slots-swap":
		if len(c.Signatures) < 2 {
			return false, ""
		}
		i := rapid.IntRange(0, len(c.Signatures)-2).Draw(t, "i")
		c.Signatures[i], c.Signatures[i+1] = c.Signatures[i+1], c.Signatures[i]
	case "slots-drop-last":
		c.Signatures = c.Signatures[:len(c.Signatures)-1]
	case "slots-append-absent":
		c.Signatures = append(c.Signatures, types.NewCommitSigAbsent())
	case "slots-append-signed":
		k := ringMax + 12
		v := &types.Vote{Type: 2, Height: c.Height, Round: c.Round, Timestamp: b.Time, BlockID: c.BlockID}
		signVote(k, st.ChainID, v)
		c.Signatures = append(c.Signatures, types.CommitSig{BlockIDFlag: types.BlockIDFlagCommit, ValidatorAddress: lib.Key(k).PubKey().Address(),
			Timestamp: v.Timestamp, Signature: v.Signature})
	case "commit-wrongset-keys":
		// same shape, every slot signed by a key that is not the validator's (set of equal size over other keys)
		n := len(c.Signatures)
		keys := make([]int, n)
		pw := make([]int64, n)
		for i := range keys {
			keys[i] = (lib.KeyIndex(e.lastVals().Validators[i].Address) + 1 + rapid.IntRange(0, 3).Draw(t, "shift")) % ringMax
			pw[i] = e.lastVals().Validators[i].VotingPower
		}
		seen := map[int]bool{}
		for _, k := range keys {
			if seen[k] {
				return false, ""
			}
			seen[k] = true
		}
		other := lib.NewValSet(keys, pw).Set
		if bytes.Equal(other.Hash(), e.lastVals().Hash()) {
			return false, ""
		}
		offs := make([]time.Duration, n)
		flags := make([]types.BlockIDFlag, n)
		for i, s := range c.Signatures {
			flags[i] = s.BlockIDFlag
			offs[i] = s.Timestamp.Sub(st.LastBlockTime)
		}
		nc := lib.SignCommit(st.ChainID, c.Height, c.Round, c.BlockID, other, flags, st.LastBlockTime, offs)
		b.LastCommit = nc
	case "commit-wrongset-current":
		// a commit for the previous block by the CURRENT validator set (differs from the previous set after updates)
		if bytes.Equal(st.Validators.Hash(), st.LastValidators.Hash()) {
			return false, ""
		}
		b.LastCommit = lib.SignCommit(st.ChainID, c.Height, c.Round, c.BlockID, st.Validators, nil, st.LastBlockTime, nil)
		m, ok := refMedian(commitEntries(b.LastCommit, st.Validators, false))
		if ok {
			b.Time = m
		}
	case "commit-allts=last+retime", "commit-allts<last+retime", "commit-allts=last+1ns+retime":
		ts := st.LastBlockTime
		switch kind {
		case "commit-allts<last+retime":
			ts = ts.Add(-time.Duration(rapid.Int64Range(1, 2_000_000_000).Draw(t, "d")))
		case "commit-allts=last+1ns+retime":
			ts = ts.Add(1)
		}
		for i := range c.Signatures {
			if isPresent(c.Signatures[i]) {
				c.Signatures[i].Timestamp = ts
				e.resign(c, i, e.lastVals())
			}
		}
		e.retime(b)
	case "power-insufficient", "power-insufficient+retime", "power-minimal+retime":
		// clear for-block slots in a drawn order; stop right after (insufficient) or right before (minimal) the quorum is lost
		order := rapid.Permutation(seq(len(c.Signatures))).Draw(t, "order")
		r := &ref{st: st, hist: e.b}
		changed := false
		for _, i := range order {
			if !isCommit(c.Signatures[i]) {
				continue
			}
			save := c.Signatures[i]
			c.Signatures[i] = types.NewCommitSigAbsent()
			okc, why := r.commitValid(c)
			if !okc && why == "commit-power" {
				if kind == "power-minimal+retime" {
					c.Signatures[i] = save
					continue
				}
				changed = true
				break
			}
			changed = true
		}
		if !changed {
			return false, ""
		}
		if kind != "power-insufficient" {
			e.retime(b)
		}

	// ---- evidence ----
	case "ev-drop":
		if len(b.Evidence.Evidence) == 0 {
			return false, ""
		}
		i := rapid.IntRange(0, len(b.Evidence.Evidence)-1).Draw(t, "i")
		b.Evidence.Evidence = append(append(types.EvidenceList{}, b.Evidence.Evidence[:i]...), b.Evidence.Evidence[i+1:]...)
	default:
		if len(kind) > 7 && kind[:7] == "ev-add-" {
			return e.applyEvidence(t, kind[7:], b)
		}
		panic("unknown perturbation kind " + kind)
	}
	return true, detail
}

func (e *env) applyEvidence(t *rapid.T, flavour string, b *types.Block) (bool, string) {
	c := e.b.c
	if c.Tip() < c.Spec.InitialHeight {
		return false, ""
	}
	st := e.st
	lo := c.Tip() - st.ConsensusParams.Evidence.MaxAgeNumBlocks
	if lo < c.Spec.InitialHeight {
		lo = c.Spec.InitialHeight
	}
	h := rapid.Int64Range(lo, c.Tip()).Draw(t, "evh")
	vi := rapid.IntRange(0, 200).Draw(t, "evv")
	salt := 300 + rapid.IntRange(0, 250).Draw(t, "evsalt") // salts >= 300: never collides with chain evidence
	add := func(ev types.Evidence) { b.Evidence.Evidence = append(b.Evidence.Evidence, ev) }
	switch flavour {
	case "valid":
		add(e.b.makeDupVote(h, vi, salt, "valid"))
	case "badsig", "power", "total", "time", "nonvalidator", "swapped", "wrongchain":
		add(e.b.makeDupVote(h, vi, salt, flavour))
	case "twice":
		ev := e.b.makeDupVote(h, vi, salt, "valid")
		add(ev)
		add(ev)
	case "many":
		n := rapid.IntRange(2, 7).Draw(t, "n")
		for i := 0; i < n; i++ {
			add(e.b.makeDupVote(h, vi+i, salt+i, "valid"))
		}
	case "committed":
		// an item that an earlier block of this chain already carries
		var old []types.Evidence
		for hh := c.Spec.InitialHeight; hh <= c.Tip(); hh++ {
			old = append(old, c.Blocks[hh].Evidence.Evidence...)
		}
		if len(old) == 0 {
			return false, ""
		}
		add(old[rapid.IntRange(0, len(old)-1).Draw(t, "i")])
	case "expired":
		// otherwise valid evidence older than both age limits
		var cands []int64
		for hh := c.Spec.InitialHeight; hh <= c.Tip(); hh++ {
			if st.LastBlockHeight-hh > st.ConsensusParams.Evidence.MaxAgeNumBlocks &&
				st.LastBlockTime.Sub(c.Blocks[hh].Time) > st.ConsensusParams.Evidence.MaxAgeDuration {
				cands = append(cands, hh)
			}
		}
		if len(cands) == 0 {
			return false, ""
		}
		add(e.b.makeDupVote(cands[rapid.IntRange(0, len(cands)-1).Draw(t, "i")], vi, salt, "valid"))
	case "future-height":
		// votes at the height of the block under validation (no block, no time yet)
		vals := st.Validators
		v := vals.Validators[vi%len(vals.Validators)]
		k := lib.KeyIndex(v.Address)
		mk := func(id types.BlockID) *types.Vote {
			vv := &types.Vote{Type: 2, Height: b.Height, Round: 0, BlockID: id, Timestamp: b.Time, ValidatorAddress: v.Address, ValidatorIndex: int32(vi % len(vals.Validators))}
			signVote(k, st.ChainID, vv)
			return vv
		}
		a, bb := mk(fakeBlockID(byte(salt), 1)), mk(fakeBlockID(byte(salt), 2))
		if a.BlockID.Key() >= bb.BlockID.Key() {
			a, bb = bb, a
		}
		add(&types.DuplicateVoteEvidence{VoteA: a, VoteB: bb, TotalVotingPower: vals.TotalVotingPower(), ValidatorPower: v.VotingPower, Timestamp: b.Time})
	default:
		panic("unknown evidence flavour " + flavour)
	}
	return true, flavour
}

// rederive recomputes the three content hashes of the header from the (changed) content.
func rederive(b *types.Block) {
	if b.LastCommit != nil {
		b.LastCommitHash = refCommitHash(b.LastCommit)
	}
	b.DataHash = refDataHash(b.Data.Txs)
	b.EvidenceHash = refEvidenceHash(b.Evidence.Evidence)
}
