// C06 — block validation is exact and the state transition is a deterministic function.
//
// Entry point under test for the validation part: state.BlockExecutor.ValidateBlock(state, block)
//   = state.validateBlock (which calls types.Block.ValidateBasic first) + evpool.CheckEvidence.
// Oracle: the reference validator of ref_test.go (own Merkle, own median, stdlib ed25519 over hand-encoded sign
// bytes). Proposer part: BlockExecutor.CreateProposalBlock with a brim-full real v0 mempool and an evidence-pool
// double. Determinism part: three replicas fed the same blocks through different transports.
package c06

import (
	"bytes"
	"fmt"
	"strings"
	"testing"

	"github.com/tendermint/tendermint/types"
	"pgregory.net/rapid"

	"verif/lib"
)

func TestMain(m *testing.M) { lib.Main(m) }

const (
	findingAddr = "C06-commit-sig-address-unchecked"
	findingSize = "C06-maxdatabytes-last-valset"
	findingWrap = "C06-median-unixnano-wrap"
	findingRoom = "C06-evidence-budget-exceeds-block-room"
	findingFloor = "C06-median-floor-rank-faulty-minority"
)

func maxVals() int {
	if lib.Thorough() {
		return 150
	}
	return 30
}

func maxHeights() int {
	if lib.Thorough() {
		return 24
	}
	return 11
}

// buildChain draws a chain of k heights (k may be 0: the block under test is then the initial block).
func buildChain(t *rapid.T, o genOpts, k int) *built {
	spec, prof, sat := genSpec(t, o)
	withPool := o.evidence && rapid.IntRange(0, 9).Draw(t, "withpool") < 4
	b, err := newBuilt(spec, withPool, prof, sat)
	if err != nil {
		t.Fatalf("genesis rejected: %v (spec %+v)", err, spec)
	}
	for i := 0; i < k; i++ {
		p := b.genPlan(t, fmt.Sprintf("h%d", i), o, "")
		if err := b.advance(p); err != nil {
			b.c.Close()
			// a valid successor built by the correct proposer must be accepted by ApplyBlock
			t.Fatalf("valid chain could not be extended: %v", err)
		}
	}
	return b
}

func kindGroup(kind string) string {
	switch {
	case strings.HasPrefix(kind, "ev-"):
		return "evidence"
	case strings.HasPrefix(kind, "tx-"):
		return "data"
	case strings.HasPrefix(kind, "slot") || strings.HasPrefix(kind, "commit-") || strings.HasPrefix(kind, "power-"):
		return "commit"
	case strings.HasPrefix(kind, "initial-"):
		return "initial"
	}
	return "header"
}

// TestValidateBlock: ValidateBlock accepts <=> the reference accepts, on the valid block and on single-field
// perturbations of it.
func TestValidateBlock(t *testing.T) {
	const name = "TestValidateBlock"
	rapid.Check(t, func(t *rapid.T) {
		o := genOpts{maxVals: maxVals(), evidence: true}
		k := rapid.IntRange(0, maxHeights()).Draw(t, "k")
		if k > 0 && rapid.IntRange(0, 9).Draw(t, "short") < 3 {
			k = rapid.IntRange(1, 3).Draw(t, "k2")
		}
		b := buildChain(t, o, k)
		defer b.c.Close()
		c := b.c
		plan := b.genPlan(t, "target", o, "")
		validBlock, _ := c.BuildNext(plan)
		e := &env{b: b, st: c.State, valid: validBlock, initial: c.State.LastBlockHeight == 0}
		validBytes := blockBytes(validBlock)
		strict := &ref{st: e.st, hist: b, strictAddr: true}
		lenient := &ref{st: e.st, hist: b, strictAddr: false}

		// the block of the correct proposer
		if err := c.Exec.ValidateBlock(e.st, cloneBlock(validBlock)); err != nil {
			t.Fatalf("ValidateBlock rejects the correct proposer's block at height %d: %v", validBlock.Height, err)
		}
		if ok, why := strict.validate(cloneBlock(validBlock)); !ok {
			t.Fatalf("reference rejects the correct proposer's block at height %d: %s", validBlock.Height, why)
		}
		chainFP := fmt.Sprintf("%X", validBlock.Hash())
		nvals := len(e.st.Validators.Validators)
		sizeClass := "vals:1"
		switch {
		case nvals > 30:
			sizeClass = "vals:31+"
		case nvals > 8:
			sizeClass = "vals:9-30"
		case nvals > 1:
			sizeClass = "vals:2-8"
		}
		changed := "valset:stable"
		if !e.initial && !bytes.Equal(e.st.Validators.Hash(), e.st.LastValidators.Hash()) {
			changed = "valset:changed-since-last"
		}
		medNil := "n/a"
		if !e.initial {
			m1, _ := refMedian(commitEntries(validBlock.LastCommit, e.st.LastValidators, false))
			m2, ok2 := refMedian(commitEntries(validBlock.LastCommit, e.st.LastValidators, true))
			medNil = fmt.Sprint(ok2 && !m1.Equal(m2))
		}
		lib.Case(name, lib.FP("valid", chainFP), true, "kind:valid/accept", sizeClass, changed, "profile:"+b.profile,
			fmt.Sprintf("initial:%v", e.initial), fmt.Sprintf("pool:%v", b.realPool), "nil-votes-move-median:"+medNil,
			fmt.Sprintf("apphashlen:%d", len(e.st.AppHash)), fmt.Sprintf("far-stamped-commits:%v", b.farApplied > 0),
			fmt.Sprintf("lastcommit-via-voteset:%v", b.viaVoteSet[c.Tip()]), fmt.Sprintf("stray-precommits:%v", b.strayApplied > 0))

		// perturbations
		kinds := append([]string{}, headerKinds...)
		kinds = append(kinds, dataKinds...)
		if e.initial {
			kinds = append(kinds, initialKinds...)
			kinds = append(kinds, initialKinds...)
		} else {
			kinds = append(kinds, commitKinds...)
			kinds = append(kinds, commitKinds...) // the commit is the richest section: double weight
		}
		if b.realPool {
			kinds = append(kinds, evKinds...)
			kinds = append(kinds, evKinds...)
		}
		np := rapid.IntRange(6, 14).Draw(t, "nperts")
		// rapid.SampledFrom favours low indices; a permutation prefix samples the kinds uniformly
		order := rapid.Permutation(seq(len(kinds))).Draw(t, "kinds")
		for pi := 0; pi < np; pi++ {
			kind := kinds[order[pi]]
			grp := kindGroup(kind)
			re := false
			if grp == "commit" || grp == "data" || grp == "evidence" || grp == "initial" {
				re = rapid.Bool().Draw(t, "rederive")
			}
			pb := cloneBlock(validBlock)
			applied, detail := e.apply(t, kind, pb)
			if !applied {
				lib.Class(name, "inapplicable:"+kind)
				continue
			}
			if re {
				rederive(pb)
			}
			label := kind
			if re {
				label += "+rehash"
			}
			noop := bytes.Equal(blockBytes2(pb), validBytes)
			// two independent clones: neither side sees hashes memoised by the other
			forCode, forRef := cloneBlock2(pb), cloneBlock2(pb)
			err := c.Exec.ValidateBlock(e.st, forCode)
			refOK, why := strict.validate(forRef)
			vbGreen := cloneBlock2(pb).ValidateBasic() == nil
			verdict := "reject"
			if err == nil {
				verdict = "accept"
			}
			cls := []string{"kind:" + label + "/" + verdict, "group:" + grp + "/" + verdict, fmt.Sprintf("validatebasic-green:%v", vbGreen), "ref:" + why}
			if noop {
				cls = append(cls, "noop")
			}
			lib.Case(name, lib.FP(label, detail, chainFP, why), vbGreen && !noop, cls...)
			if vbGreen && !noop && lib.WantSample(name) {
				lib.Sample(name, map[string]interface{}{"height": pb.Height, "nvals": nvals, "perturbation": label, "detail": detail,
					"code": fmt.Sprint(err), "reference": why})
			}
			if (err == nil) == refOK {
				continue
			}
			// disagreement
			if err == nil && why == "slot-address" {
				if lok, _ := lenient.validate(cloneBlock2(pb)); lok && lib.IsKnown(findingAddr) {
					lib.ObservedKnown(findingAddr)
					lib.ExcludedByKnown(findingAddr)
					continue
				}
			}
			t.Fatalf("ValidateBlock and the reference disagree on perturbation %q (%s) of block %d (initial=%v, %d validators, chain %q):\n code: %v\n reference: accept=%v rule=%s",
				label, detail, pb.Height, e.initial, nvals, e.st.ChainID, err, refOK, why)
		}
	})
}

// blockBytes2 tolerates a nil LastCommit.
func blockBytes2(b *types.Block) []byte {
	if b.LastCommit == nil {
		return []byte("nil-commit")
	}
	return blockBytes(b)
}

func cloneBlock2(b *types.Block) *types.Block { return cloneBlock(b) }
