package c06

import (
	"bytes"
	"crypto/sha256"
	"fmt"
	"testing"

	"github.com/gogo/protobuf/proto"
	abci "github.com/tendermint/tendermint/abci/types"
	"github.com/tendermint/tendermint/consensus"
	tmproto "github.com/tendermint/tendermint/proto/tendermint/types"
	sm "github.com/tendermint/tendermint/state"
	"github.com/tendermint/tendermint/types"
	"pgregory.net/rapid"

	"verif/lib"
)

func valsetBytes(vs *types.ValidatorSet) []byte {
	pb, err := vs.ToProto()
	if err != nil {
		panic(err)
	}
	bz, err := proto.Marshal(pb)
	if err != nil {
		panic(err)
	}
	return bz
}

// refTransition checks the post-state against the transition function read off the spec: next state = f(state,
// header, ABCI results) - nothing else.
func refTransition(pre, post sm.State, blk *types.Block, id types.BlockID, p *lib.HeightPlan, appHash []byte) error {
	h := blk.Height
	if post.ChainID != pre.ChainID || post.InitialHeight != pre.InitialHeight {
		return fmt.Errorf("chain id / initial height changed")
	}
	if post.LastBlockHeight != h || !bidEq(post.LastBlockID, id) || !post.LastBlockTime.Equal(blk.Time) {
		return fmt.Errorf("last block info: height %d id %v time %v", post.LastBlockHeight, post.LastBlockID, post.LastBlockTime)
	}
	if !bytes.Equal(valsetBytes(post.LastValidators), valsetBytes(pre.Validators)) {
		return fmt.Errorf("LastValidators is not the previous Validators")
	}
	if !bytes.Equal(valsetBytes(post.Validators), valsetBytes(pre.NextValidators)) {
		return fmt.Errorf("Validators is not the previous NextValidators")
	}
	// membership and powers of the next-next set
	want := map[string]int64{}
	for _, v := range pre.NextValidators.Validators {
		want[string(v.Address)] = v.VotingPower
	}
	for _, u := range p.ValUpdates {
		a := string(lib.Key(u.Key).PubKey().Address())
		if u.Power == 0 {
			delete(want, a)
		} else {
			want[a] = u.Power
		}
	}
	if len(want) != len(post.NextValidators.Validators) {
		return fmt.Errorf("NextValidators has %d members, want %d", len(post.NextValidators.Validators), len(want))
	}
	for _, v := range post.NextValidators.Validators {
		if pw, ok := want[string(v.Address)]; !ok || pw != v.VotingPower {
			return fmt.Errorf("NextValidators member %X power %d, want %d (member=%v)", v.Address, v.VotingPower, pw, ok)
		}
	}
	wantChanged := pre.LastHeightValidatorsChanged
	if len(p.ValUpdates) > 0 {
		wantChanged = h + 2
	}
	if post.LastHeightValidatorsChanged != wantChanged {
		return fmt.Errorf("LastHeightValidatorsChanged %d, want %d", post.LastHeightValidatorsChanged, wantChanged)
	}
	// parameters
	cp := pre.ConsensusParams
	wantPChanged := pre.LastHeightConsensusParamsChanged
	wantApp := pre.Version.Consensus.App
	if u := p.Params; u != nil {
		if u.Block != nil {
			cp.Block.MaxBytes, cp.Block.MaxGas = u.Block.MaxBytes, u.Block.MaxGas
		}
		if u.Evidence != nil {
			cp.Evidence.MaxAgeNumBlocks, cp.Evidence.MaxAgeDuration, cp.Evidence.MaxBytes = u.Evidence.MaxAgeNumBlocks, u.Evidence.MaxAgeDuration, u.Evidence.MaxBytes
		}
		if u.Validator != nil {
			cp.Validator.PubKeyTypes = u.Validator.PubKeyTypes
		}
		if u.Version != nil {
			cp.Version.AppVersion = u.Version.AppVersion
		}
		wantPChanged = h + 1
		wantApp = cp.Version.AppVersion
	}
	if !cp.Equal(&post.ConsensusParams) {
		return fmt.Errorf("ConsensusParams %v, want %v", post.ConsensusParams, cp)
	}
	if post.LastHeightConsensusParamsChanged != wantPChanged {
		return fmt.Errorf("LastHeightConsensusParamsChanged %d, want %d", post.LastHeightConsensusParamsChanged, wantPChanged)
	}
	if post.Version.Consensus.App != wantApp || post.Version.Consensus.Block != pre.Version.Consensus.Block {
		return fmt.Errorf("version %v, want app %d", post.Version.Consensus, wantApp)
	}
	// application and results hashes
	if !bytes.Equal(post.AppHash, appHash) {
		return fmt.Errorf("AppHash %X, application committed %X", post.AppHash, appHash)
	}
	rs := make([]refResult, len(p.Txs))
	for i, tx := range p.Txs {
		s := sha256.Sum256(tx)
		rs[i] = refResult{Data: s[:4], GasWanted: 1, GasUsed: 1}
		if len(tx) > 0 && tx[0] == '!' {
			rs[i].Code = 1
		}
	}
	if !bytes.Equal(post.LastResultsHash, refResultsHash(rs)) {
		return fmt.Errorf("LastResultsHash %X, reference %X", post.LastResultsHash, refResultsHash(rs))
	}
	return nil
}

// replicaPlan: the same application behaviour, but the fields a node may legitimately fill differently (log, info,
// codespace, events - "non-deterministic" per spec, excluded from LastResultsHash) carry the replica's name.
func replicaPlan(p *lib.HeightPlan, who string) *lib.HeightPlan {
	q := *p
	ev := []abci.Event{{Type: "replica", Attributes: []abci.EventAttribute{{Key: []byte("name"), Value: []byte(who), Index: true}}}}
	q.BeginEvents, q.EndEvents = ev, ev
	q.DeliverFn = func(tx []byte) abci.ResponseDeliverTx {
		s := sha256.Sum256(tx)
		code := uint32(0)
		if len(tx) > 0 && tx[0] == '!' {
			code = 1
		}
		return abci.ResponseDeliverTx{Code: code, Data: s[:4], GasWanted: 1, GasUsed: 1, Log: "log of " + who, Info: who, Codespace: who, Events: ev}
	}
	return &q
}

// applyExternal feeds an externally produced block to replica b.
func applyExternal(b *built, p *lib.HeightPlan, blk *types.Block, id types.BlockID) (sm.State, error) {
	c := b.c
	c.App.Mu.Lock()
	c.App.Plans[blk.Height] = p
	c.App.Mu.Unlock()
	before := c.State.Bytes()
	st, _, err := c.Exec.ApplyBlock(c.State, id, blk)
	if err != nil {
		return st, err
	}
	if !bytes.Equal(before, c.State.Bytes()) {
		return st, fmt.Errorf("ApplyBlock modified the state it was applied to")
	}
	c.State = st
	return st, nil
}

type crashSignal struct{}

// applyWithCrash applies blk on replica b. With crash, the node dies right after the application's Commit (before
// ApplyBlock saves the new state), "restarts" and recovers with consensus.Handshaker from its stores.
func applyWithCrash(b *built, p *lib.HeightPlan, blk *types.Block, id types.BlockID, parts *types.PartSet, seen *types.Commit, crash bool) (st sm.State, err error) {
	c := b.c
	c.BlockStore.SaveBlock(blk, parts, seen) // consensus saves the block before applying it
	if !crash {
		return applyExternal(b, p, blk, id)
	}
	armed := true
	c.App.OnCall = func(m string) {
		if m == "CommitDone" && armed {
			armed = false
			panic(crashSignal{})
		}
	}
	died := func() (died bool) {
		defer func() {
			if r := recover(); r != nil {
				if _, ok := r.(crashSignal); !ok {
					panic(r)
				}
				died = true
			}
		}()
		_, err = applyExternal(b, p, blk, id)
		return false
	}()
	c.App.OnCall = nil
	if !died {
		return st, fmt.Errorf("crash point not reached: %v", err)
	}
	// restart
	loaded, err := c.StateStore.Load()
	if err != nil {
		return st, err
	}
	if loaded.LastBlockHeight == blk.Height {
		return st, fmt.Errorf("state was saved before the crash point")
	}
	hs := consensus.NewHandshaker(c.StateStore, loaded, c.BlockStore, c.GenDoc)
	if err := hs.Handshake(c.Proxy); err != nil {
		return st, fmt.Errorf("handshake: %w", err)
	}
	st, err = c.StateStore.Load()
	if err != nil {
		return st, err
	}
	c.State = st
	return st, nil
}

func viaProto(blk *types.Block) (*types.Block, error) {
	var pb tmproto.Block
	if err := proto.Unmarshal(blockBytes(blk), &pb); err != nil {
		return nil, err
	}
	return types.BlockFromProto(&pb)
}

// TestDeterminism: three replicas of one genesis. A builds the chain; B receives every block as protobuf bytes; C
// receives it as gossiped parts and applies it twice to copies of the same state. State bytes, block hashes and
// part-set headers must coincide at every height, and A's transition must match the reference transition.
func TestDeterminism(t *testing.T) {
	const name = "TestDeterminism"
	rapid.Check(t, func(t *rapid.T) {
		o := genOpts{maxVals: maxVals(), evidence: true}
		spec, prof, sat := genSpec(t, o)
		withPool := rapid.IntRange(0, 9).Draw(t, "withpool") < 4
		k := rapid.IntRange(2, maxHeights()).Draw(t, "k")
		var reps [4]*built
		for i := range reps {
			r, err := newBuilt(spec, withPool && i == 0, prof, sat)
			if err != nil {
				t.Fatalf("genesis rejected: %v", err)
			}
			defer r.c.Close()
			reps[i] = r
		}
		A, B, C, D := reps[0], reps[1], reps[2], reps[3]
		if !bytes.Equal(A.c.State.Bytes(), B.c.State.Bytes()) || !bytes.Equal(A.c.State.Bytes(), C.c.State.Bytes()) {
			t.Fatalf("genesis states differ")
		}
		for i := 0; i < k; i++ {
			pre := A.c.State.Copy()
			p := A.genPlan(t, fmt.Sprintf("h%d", i), o, "")
			if err := A.advance(p); err != nil {
				t.Fatalf("valid chain could not be extended: %v", err)
			}
			h := A.c.Tip()
			blk, id, post := A.c.Blocks[h], A.c.IDs[h], A.c.States[h]
			busy := len(p.Txs) > 0 || len(p.ValUpdates) > 0 || p.Params != nil || len(p.Evidence) > 0
			lib.Case(name, lib.FP(fmt.Sprintf("%X", id.Hash)), busy, fmt.Sprintf("txs:%v", len(p.Txs) > 0), fmt.Sprintf("valupdates:%v", len(p.ValUpdates) > 0),
				fmt.Sprintf("params:%v", p.Params != nil), fmt.Sprintf("evidence:%v", len(p.Evidence) > 0), fmt.Sprintf("parts:%d", id.PartSetHeader.Total))

			if err := refTransition(pre, post, blk, id, p, A.c.App.AppHash); err != nil {
				t.Fatalf("height %d: state transition differs from the reference: %v", h, err)
			}

			// B: protobuf bytes
			bb, err := viaProto(blk)
			if err != nil {
				t.Fatalf("height %d: block does not survive marshal/unmarshal: %v", h, err)
			}
			idB := types.BlockID{Hash: bb.Hash(), PartSetHeader: bb.MakePartSet(types.BlockPartSizeBytes).Header()}
			if !bidEq(idB, id) {
				t.Fatalf("height %d: block id after marshal/unmarshal %v != %v", h, idB, id)
			}
			sb, err := applyExternal(B, replicaPlan(p, "B"), bb, idB)
			if err != nil {
				t.Fatalf("height %d: replica B rejects the block: %v", h, err)
			}
			if !bytes.Equal(sb.Bytes(), post.Bytes()) {
				t.Fatalf("height %d: replica B (protobuf transport) reaches a different state\nA: %+v\nB: %+v", h, post, sb)
			}

			// C: gossiped parts, applied twice to copies of the same state
			bc, _, err := reassemble(A.c.Parts[h])
			if err != nil {
				t.Fatalf("height %d: block does not reassemble from parts: %v", h, err)
			}
			idC := types.BlockID{Hash: bc.Hash(), PartSetHeader: bc.MakePartSet(types.BlockPartSizeBytes).Header()}
			if !bidEq(idC, id) {
				t.Fatalf("height %d: block id after part transport %v != %v", h, idC, id)
			}
			stateBefore := C.c.State.Copy()
			appH, appHash := C.c.App.Height, append([]byte(nil), C.c.App.AppHash...)
			sc1, err := applyExternal(C, replicaPlan(p, "C1"), bc, idC)
			if err != nil {
				t.Fatalf("height %d: replica C rejects the block: %v", h, err)
			}
			// rewind the application and apply the same block to a copy of the same state
			C.c.App.Mu.Lock()
			C.c.App.Height, C.c.App.AppHash = appH, appHash
			C.c.App.Mu.Unlock()
			C.c.State = stateBefore
			bc2, _ := viaProto(bc)
			sc2, err := applyExternal(C, replicaPlan(p, "C2"), bc2, idC)
			if err != nil {
				t.Fatalf("height %d: second application fails: %v", h, err)
			}
			if !bytes.Equal(sc1.Bytes(), sc2.Bytes()) {
				t.Fatalf("height %d: applying the same block twice to the same state gives different states", h)
			}
			if !bytes.Equal(sc1.Bytes(), post.Bytes()) {
				t.Fatalf("height %d: replica C (part transport) reaches a different state", h)
			}
			// the stored state is the returned state
			if ld, err := C.c.StateStore.Load(); err != nil || !bytes.Equal(ld.Bytes(), post.Bytes()) {
				t.Fatalf("height %d: stored state differs from the returned state (%v)", h, err)
			}

			// D: a node that (at drawn heights) crashes after the application committed the block and before the new
			// state is saved, and recovers through the real consensus.Handshaker (replay of the stored ABCI responses)
			crash := rapid.IntRange(0, 2).Draw(t, "crash") == 0
			sd, err := applyWithCrash(D, replicaPlan(p, "D"), bb, idB, A.c.Parts[h], A.c.Commits[h], crash)
			if err != nil {
				t.Fatalf("height %d: replica D (crash=%v): %v", h, crash, err)
			}
			lib.Class(name, fmt.Sprintf("replica-D-crash-recovery:%v", crash))
			if !bytes.Equal(sd.Bytes(), post.Bytes()) {
				t.Fatalf("height %d: replica D (crash before state save=%v, recovered by handshake) reaches a different state\nA: %+v\nD: %+v", h, crash, post, sd)
			}
		}
	})
}
