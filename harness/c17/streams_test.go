// C17 (b) — sustained streams: ONE peer sends hundreds to thousands of well-formed hostile messages of one kind that
// differ in one field (round, height, index, hash ...). A single message may be harmless; what the node RETAINS must
// stay bounded by a constant per peer and must not grow with the number of messages ("never makes it buffer more
// than ...", over time). Two oracles:
//   - structural: the number of things the node tracks because of the stream (round vote sets, pooled snapshots,
//     peer-set entries, mempool entries) stays within the per-peer constant the protocol allows;
//   - live heap: HeapAlloc after a forced GC, taken before the stream, at half time and at the end; the growth over the
//     SECOND half (warm-up excluded) must stay below 128 KiB + 64 bytes per message.
package c17

import (
	"fmt"
	"math"
	"runtime"
	"testing"
	"time"

	"pgregory.net/rapid"

	bcv0 "github.com/tendermint/tendermint/blockchain/v0"
	cfg "github.com/tendermint/tendermint/config"
	"github.com/tendermint/tendermint/consensus"
	"github.com/tendermint/tendermint/mempool"
	bcproto "github.com/tendermint/tendermint/proto/tendermint/blockchain"
	tmcons "github.com/tendermint/tendermint/proto/tendermint/consensus"
	tmbits "github.com/tendermint/tendermint/proto/tendermint/libs/bits"
	protomem "github.com/tendermint/tendermint/proto/tendermint/mempool"
	ssproto "github.com/tendermint/tendermint/proto/tendermint/statesync"
	tmproto "github.com/tendermint/tendermint/proto/tendermint/types"
	"github.com/tendermint/tendermint/statesync"
	"github.com/tendermint/tendermint/types"

	"verif/lib"
)

const (
	streamHeapSlack   = 128 << 10
	streamHeapPerMsg  = 64
	streamWarmupShare = 2 // the first 1/2 of the stream is warm-up for the heap oracle
)

func liveHeap() uint64 {
	runtime.GC()
	runtime.GC()
	var m runtime.MemStats
	runtime.ReadMemStats(&m)
	return m.HeapAlloc
}

// stream describes one sustained stream.
type stream struct {
	name    string
	ch      byte
	msg     func(i int) []byte // i-th message
	tracked func() int         // how many things the node holds because of this stream (nil: none to count)
	limit   int                // per-peer bound on tracked()
	quiesce func() bool        // wait until the node has handled everything (false = the node's routine died)
}

type streamResult struct {
	sent, dropped int
	h0, h1, h2    uint64
}

// runStream sends up to n messages from peer p (stops when the peer gets dropped: that is a fine outcome) and applies
// both oracles.
func runStream(t failer, test, reactor string, deliverOne func(ch byte, b []byte, what string) recvOutcome, st stream, n int) streamResult {
	var res streamResult
	quiesce := func(when string) {
		if st.quiesce != nil && !st.quiesce() {
			t.Fatalf("%s: stream %s: the node's routine died %s (%d messages sent)", reactor, st.name, when, res.sent)
		}
	}
	quiesce("before the stream")
	res.h0 = liveHeap()
	res.h1 = res.h0
	half := n / streamWarmupShare
	for i := 0; i < n; i++ {
		if i == half {
			quiesce("at half time")
			res.h1 = liveHeap()
		}
		o := deliverOne(st.ch, st.msg(i), st.name)
		res.sent++
		if o.dropped {
			res.dropped++
			break
		}
	}
	quiesce("after the stream")
	res.h2 = liveHeap()
	lib.Class(test, fmt.Sprintf("%s:%s sent:%s dropped:%v", reactor, st.name, sizeBucket(res.sent), res.dropped > 0))
	if st.tracked != nil {
		if got := st.tracked(); got > st.limit {
			t.Fatalf("RETAINED STATE: %s: after %d %s messages from ONE peer the node tracks %d entries because of them (per-peer bound: %d) — state grows with the number of hostile messages",
				reactor, res.sent, st.name, got, st.limit)
		}
	}
	if res.sent >= n && res.h2 > res.h1 {
		second := uint64(n - half)
		over := func(g uint64) bool { return g > streamHeapSlack+streamHeapPerMsg*second }
		series := []int64{int64(res.h1) - int64(res.h0), int64(res.h2) - int64(res.h1)}
		grown, prev, next := res.h2-res.h1, res.h2, n
		// A bounded structure that is still filling up (e.g. the block pool's capped set of requesters, paced by a
		// timer) also shows growth: keep the stream going and demand a plateau. Only growth that persists through three
		// more segments of the same length is "per message".
		for extra := 0; over(grown) && extra < 3; extra++ {
			for i := 0; i < int(second); i++ {
				if o := deliverOne(st.ch, st.msg(next), st.name); o.dropped {
					return res
				}
				next++
				res.sent++
			}
			quiesce("during the extended stream")
			h := liveHeap()
			grown = 0
			if h > prev {
				grown = h - prev
			}
			series = append(series, int64(h)-int64(prev))
			prev = h
		}
		if over(grown) {
			t.Fatalf("RETAINED HEAP: %s: live heap (after GC) keeps growing with a stream of %s messages from one peer: growth per segment of %d messages %v bytes (last: %d bytes per message) after %d messages — the node keeps something per hostile message",
				reactor, st.name, second, series, grown/second, res.sent)
		}
		if st.tracked != nil {
			if got := st.tracked(); got > st.limit {
				t.Fatalf("RETAINED STATE: %s: after %d %s messages from ONE peer the node tracks %d entries because of them (per-peer bound: %d)", reactor, res.sent, st.name, got, st.limit)
			}
		}
	}
	return res
}

func sizeBucket(n int) string {
	switch {
	case n < 10:
		return "<10"
	case n < 100:
		return "<100"
	default:
		return ">=100"
	}
}

// ---- consensus ---------------------------------------------------------------------------------------------------

var consStreamKinds = []string{"vote-far-rounds", "vote-far-rounds", "vote-heights", "vote-indices", "hasvote-rounds", "hasvote-indices",
	"votesetmaj23-rounds", "votesetbits-rounds", "proposal-rounds", "proposalpol-rounds", "blockpart-indices", "newroundstep-rounds"}

func consStream(t *rapid.T, e *consEnv, p *hpeer, kind string) stream {
	rs := e.cs.GetRoundState()
	base := rapid.SampledFrom([]int32{2, 3, 10, 1000, 1 << 20}).Draw(t, "stream.base")
	step := rapid.SampledFrom([]int32{1, 1, 2, 7}).Draw(t, "stream.step")
	typ := rapid.SampledFrom([]tmproto.SignedMsgType{tmproto.PrevoteType, tmproto.PrecommitType}).Draw(t, "stream.type")
	vi := rapid.IntRange(0, e.nVals-1).Draw(t, "stream.val")
	st := stream{name: kind, quiesce: e.barrier}
	round := func(i int) int32 { return rs.Round + base + int32(i)*step }
	junkVote := func(h int64, r int32, idx int32) []byte {
		val := e.chain.State.Validators.Validators[vi]
		v := &tmproto.Vote{Type: typ, Height: h, Round: r, Timestamp: time.Unix(1_700_000_100, 0).UTC(), ValidatorAddress: val.Address, ValidatorIndex: idx,
			Signature: fill(uint64(r)^uint64(h), 64)}
		return wrapCons(&tmcons.Vote{Vote: v})
	}
	switch kind {
	case "vote-far-rounds":
		// votes of the node's current height for ever new rounds; a peer may open at most 2 catch-up rounds per height
		st.ch = consensus.VoteChannel
		st.msg = func(i int) []byte { return junkVote(e.h, round(i), int32(vi)) }
		st.limit = 2
		var named []int32
		orig := st.msg
		st.msg = func(i int) []byte { named = append(named, round(i)); return orig(i) }
		st.tracked = func() int {
			votes := e.cs.GetRoundState().Votes
			n := 0
			for _, r := range named {
				if votes.Prevotes(r) != nil {
					n++
				}
			}
			return n
		}
	case "vote-heights":
		st.ch = consensus.VoteChannel
		st.msg = func(i int) []byte { return junkVote(e.h+1+int64(i)*int64(step), 0, int32(vi)) }
	case "vote-indices":
		st.ch = consensus.VoteChannel
		st.msg = func(i int) []byte { return junkVote(e.h, rs.Round, int32(i)) }
	case "hasvote-rounds":
		st.ch = consensus.StateChannel
		st.msg = func(i int) []byte {
			return wrapCons(&tmcons.HasVote{Height: e.h, Round: round(i), Type: typ, Index: int32(vi)})
		}
	case "hasvote-indices":
		st.ch = consensus.StateChannel
		st.msg = func(i int) []byte {
			return wrapCons(&tmcons.HasVote{Height: e.h, Round: rs.Round, Type: typ, Index: int32(i)})
		}
	case "votesetmaj23-rounds":
		st.ch = consensus.StateChannel
		st.msg = func(i int) []byte {
			return wrapCons(&tmcons.VoteSetMaj23{Height: e.h, Round: round(i), Type: typ, BlockID: tmproto.BlockID{Hash: b32(uint64(i)), PartSetHeader: tmproto.PartSetHeader{Total: 1, Hash: b32(1)}}})
		}
	case "votesetbits-rounds":
		st.ch = consensus.VoteSetBitsChannel
		st.msg = func(i int) []byte {
			return wrapCons(&tmcons.VoteSetBits{Height: e.h, Round: round(i), Type: typ, BlockID: tmproto.BlockID{Hash: b32(uint64(i)), PartSetHeader: tmproto.PartSetHeader{Total: 1, Hash: b32(1)}},
				Votes: tmbits.BitArray{Bits: int64(e.nVals), Elems: make([]uint64, (e.nVals+63)/64)}})
		}
	case "proposal-rounds":
		st.ch = consensus.DataChannel
		st.msg = func(i int) []byte {
			return wrapCons(&tmcons.Proposal{Proposal: tmproto.Proposal{Type: tmproto.ProposalType, Height: e.h, Round: round(i), PolRound: -1, Timestamp: time.Unix(1_700_000_100, 0).UTC(),
				BlockID: tmproto.BlockID{Hash: b32(uint64(i)), PartSetHeader: tmproto.PartSetHeader{Total: 1, Hash: b32(2)}}, Signature: fill(uint64(i), 64)}})
		}
	case "proposalpol-rounds":
		st.ch = consensus.DataChannel
		st.msg = func(i int) []byte {
			return wrapCons(&tmcons.ProposalPOL{Height: e.h, ProposalPolRound: round(i), ProposalPol: tmbits.BitArray{Bits: int64(e.nVals), Elems: make([]uint64, (e.nVals+63)/64)}})
		}
	case "blockpart-indices":
		st.ch = consensus.DataChannel
		st.msg = func(i int) []byte {
			return wrapCons(&tmcons.BlockPart{Height: e.h, Round: rs.Round, Part: tmproto.Part{Index: uint32(i), Bytes: fill(uint64(i), 64)}})
		}
	case "newroundstep-rounds":
		// a peer that keeps announcing new rounds (valid): its PeerState is replaced, not accumulated
		st.ch = consensus.StateChannel
		lcr := int32(0)
		if e.h == e.chain.Spec.InitialHeight {
			lcr = -1
		}
		st.msg = func(i int) []byte {
			return wrapCons(&tmcons.NewRoundStep{Height: e.h, Round: int32(i), Step: 3, LastCommitRound: lcr})
		}
	}
	_ = p
	return st
}

func TestHostileStreams(t *testing.T) {
	rapid.Check(t, func(t *rapid.T) { streamCase(t, "TestHostileStreams", false) })
}

// TestIdleReactorStreams: the same streams against reactors that are REGISTERED BUT IDLE — blockchain reactor of a node
// that is not fast syncing (pool never started), statesync reactor of a node that is not syncing, consensus reactor of a
// node that is still syncing (wait-sync) — always longer than the 1000-slot internal queues. Nobody drains what an idle
// reactor queues internally; it must not queue.
func TestIdleReactorStreams(t *testing.T) {
	rapid.Check(t, func(t *rapid.T) { streamCase(t, "TestIdleReactorStreams", true) })
}

func streamCase(t *rapid.T, test string, idle bool) {
	{
		newCase()
		// lengths around the capacities of the node's internal queues (1000 slots: consensus input queue, block pool
		// error channel, block pool request channel ...): just below, at, just above, well above
		n := rapid.SampledFrom([]int{400, 1000, 1001, 1200, 2000}).Draw(t, "n")
		if lib.Thorough() {
			n = rapid.SampledFrom([]int{400, 999, 1000, 1001, 1200, 2000, 4000}).Draw(t, "n.thorough")
		}
		reactor := rapid.SampledFrom([]string{"consensus", "consensus", "consensus", "mempool", "blockchain", "statesync"}).Draw(t, "reactor")
		if idle {
			reactor = rapid.SampledFrom([]string{"consensus", "blockchain", "blockchain", "statesync"}).Draw(t, "idle.reactor")
			n = rapid.SampledFrom([]int{1001, 1200, 2000}).Draw(t, "idle.n")
		}
		switch reactor {
		case "consensus":
			nVals := rapid.SampledFrom([]int{4, 4, 4, 70}).Draw(t, "nvals")
			nBlocks := rapid.SampledFrom([]int{0, 1, 2}).Draw(t, "blocks")
			// waitSync: the node is still block/state syncing — the reactor is registered and running, the state machine idle
			waitSync := idle || rapid.IntRange(0, 3).Draw(t, "waitsync") == 0
			e := newConsEnvOpt(t, nVals, nBlocks, rapid.SampledFrom([]int{-1, 0}).Draw(t, "nodeval"), 1, waitSync)
			defer func() {
				e.closeChecked()
				if !wedged() {
					checkNoLeak(t, e.before, "consensus")
				}
			}()
			state := rapid.SampledFrom([]string{"newheight", "propose-empty", "proposal", "prevotes", "round1"}).Draw(t, "nodestate")
			if waitSync {
				state = "wait-sync"
			} else {
				e.drive(state)
			}
			p := newPeer(false)
			var ps *consensus.PeerState
			must(t, "consensus: InitPeer+AddPeer for a new connection (Switch.addPeer)", func() { ps = e.addPeer(p) })
			lcr := int32(0)
			if e.h == e.chain.Spec.InitialHeight {
				lcr = -1
			}
			deliver(t, e.sw, e.conR, consensus.StateChannel, p, wrapCons(&tmcons.NewRoundStep{Height: e.h, Round: e.cs.GetRoundState().Round, Step: 3, LastCommitRound: lcr}), "NewRoundStep")
			kind := rapid.SampledFrom(consStreamKinds).Draw(t, "kind")
			st := consStream(t, e, p, kind)
			before := e.ownStateChecked()
			res := runStream(t, test, "consensus", func(ch byte, b []byte, what string) recvOutcome {
				return deliver(t, e.sw, e.conR, ch, p, b, what)
			}, st, n)
			if after := e.ownStateChecked(); after != before {
				t.Fatalf("node's own consensus state changed by a stream of %d %s messages:\nbefore %s\nafter  %s", res.sent, kind, before, after)
			}
			if p.BaseService.IsRunning() {
				e.settle(p)
			}
			if pn := e.routinePanic(); pn != "" {
				t.Fatalf("PROCESS DEATH: a per-peer routine panicked after a stream of %d %s messages\n%s", res.sent, kind, pn)
			}
			e.probe(ps)
			lib.Case(test, lib.FP(reactor, kind, n, nVals, nBlocks, state), res.sent >= 100, "stream:consensus/"+kind, "node:"+state)
		case "mempool":
			version := rapid.SampledFrom([]string{"v0", "v1"}).Draw(t, "version")
			mcfg := cfg.DefaultMempoolConfig()
			mcfg.Version, mcfg.Size, mcfg.CacheSize = version, rapid.SampledFrom([]int{5, 50}).Draw(t, "size"), rapid.SampledFrom([]int{0, 10, 100}).Draw(t, "cache")
			e := newMempoolEnv(t, version, mcfg)
			defer func() {
				e.closeChecked(t)
				if !wedged() {
					checkNoLeak(t, e.before, e.name)
				}
			}()
			var p *hpeer
			must(t, e.name+": connect", func() { p = e.addPeer(false) })
			kind := rapid.SampledFrom([]string{"rejected-txs", "distinct-valid-txs", "same-tx"}).Draw(t, "kind")
			st := stream{name: kind, ch: mempool.MempoolChannel, limit: mcfg.Size}
			switch kind {
			case "rejected-txs":
				st.msg = func(i int) []byte { return wrap(&protomem.Txs{Txs: [][]byte{[]byte(fmt.Sprintf("!no-%d", i))}}) }
			case "distinct-valid-txs": // fills the pool up to its configured size, then every further one is refused
				st.msg = func(i int) []byte { return wrap(&protomem.Txs{Txs: [][]byte{[]byte(fmt.Sprintf("ok-%d", i))}}) }
			case "same-tx":
				st.msg = func(i int) []byte { return wrap(&protomem.Txs{Txs: [][]byte{[]byte("again-and-again")}}) }
			}
			var size func() int
			must(t, e.name+": reading the node's own state", func() { e.own() })
			size = func() (k int) {
				must(t, e.name+": reading the node's own state", func() { fmt.Sscanf(e.own(), "n=%d", &k) })
				return
			}
			st.tracked = size
			res := runStream(t, test, e.name, func(ch byte, b []byte, what string) recvOutcome {
				return deliver(t, e.sw, e.r, ch, p, b, what)
			}, st, n)
			if bad := e.inv(); bad != "" {
				t.Fatalf("%s: after the stream: %s", e.name, bad)
			}
			e.probe(t)
			lib.Case(test, lib.FP(reactor, version, kind, n, mcfg.Size, mcfg.CacheSize), res.sent >= 100, "stream:"+e.name+"/"+kind)
		case "blockchain":
			fast := !idle && rapid.Bool().Draw(t, "fastsync")
			e, ch := newBlockchainEnv(t, 2, fast)
			defer func() {
				e.closeChecked(t)
				if !wedged() {
					checkNoLeak(t, e.before, e.name)
				}
			}()
			var p *hpeer
			must(t, e.name+": connect", func() { p = e.addPeer(false) })
			kind := rapid.SampledFrom(append([]string{"blockresponse-far-heights"}, bcStreamKinds...)).Draw(t, "kind")
			st := stream{name: kind, ch: bcv0.BlockchainChannel, msg: bcStreamMsg(kind, ch)}
			before := e.own()
			res := runStream(t, test, e.name, func(c byte, b []byte, what string) recvOutcome {
				return deliver(t, e.sw, e.r, c, p, b, what)
			}, st, n)
			if after := e.own(); after != before {
				t.Fatalf("%s: node's own state changed by the stream: %s -> %s", e.name, before, after)
			}
			e.probe(t)
			lib.Case(test, lib.FP(reactor, fast, kind, n), res.sent >= 100, "stream:"+e.name+"/"+kind)
		case "statesync":
			e, r, _ := newStatesyncEnv(t)
			defer func() {
				e.closeChecked(t)
				if !wedged() {
					checkNoLeak(t, e.before, e.name)
				}
			}()
			syncing := !idle && rapid.Bool().Draw(t, "syncing")
			if syncing {
				must(t, "statesync: Reactor.Sync, first half", func() { r.VerifC17BeginSync(&failingProvider{}) })
			}
			var p *hpeer
			must(t, e.name+": connect", func() { p = e.addPeer(false) })
			kind := rapid.SampledFrom(ssStreamKinds).Draw(t, "kind")
			st := stream{name: kind, limit: 10} // recentSnapshots per peer
			st.ch, st.msg = ssStreamMsg(kind)
			st.tracked = r.VerifC17SnapshotCount
			res := runStream(t, test, e.name, func(c byte, b []byte, what string) recvOutcome {
				return deliver(t, e.sw, e.r, c, p, b, what)
			}, st, n)
			if syncing {
				bounded(t, "statesync: Reactor.Sync, second half (SyncAny)", func() { _, _, _ = r.VerifC17FinishSync() })
			}
			e.probe(t)
			lib.Case(test, lib.FP(reactor, syncing, kind, n), res.sent >= 100, fmt.Sprintf("stream:statesync(syncing=%v)/%s", syncing, kind))
		}
	}
}

var bcStreamKinds = []string{"status-heights", "blockrequest-heights", "noblock-heights", "blockresponse-far-heights", "blockresponse-near-heights"}

func bcStreamMsg(kind string, ch *lib.Chain) func(i int) []byte {
	switch kind {
	case "status-heights":
		return func(i int) []byte { return wrap(&bcproto.StatusResponse{Base: 1, Height: ch.Tip() + 1 + int64(i)}) }
	case "blockrequest-heights":
		return func(i int) []byte { return wrap(&bcproto.BlockRequest{Height: math.MaxInt64 - int64(i)}) }
	case "noblock-heights":
		return func(i int) []byte { return wrap(&bcproto.NoBlockResponse{Height: ch.Tip() + 1 + int64(i)}) }
	default: // blockresponse-far-heights, blockresponse-near-heights
		// blocks nobody asked for: a real, decodable block relabelled with another height
		pb, err := ch.Blocks[1].ToProto()
		if err != nil {
			panic(err)
		}
		far := int64(5_000_000)
		if kind == "blockresponse-near-heights" {
			far = 3
		}
		return func(i int) []byte {
			b := *pb
			b.Header.Height = ch.Tip() + far + int64(i%7)
			return wrap(&bcproto.BlockResponse{Block: &b})
		}
	}
}

var ssStreamKinds = []string{"snapshots-heights", "snapshots-hashes", "chunks-indices"}

func ssStreamMsg(kind string) (byte, func(i int) []byte) {
	switch kind {
	case "snapshots-heights":
		return statesync.SnapshotChannel, func(i int) []byte {
			return wrap(&ssproto.SnapshotsResponse{Height: uint64(10 + i), Format: 1, Chunks: 1, Hash: b32(1)})
		}
	case "snapshots-hashes":
		return statesync.SnapshotChannel, func(i int) []byte {
			return wrap(&ssproto.SnapshotsResponse{Height: 10, Format: uint32(i % 3), Chunks: 1, Hash: b32(uint64(i)), Metadata: fill(uint64(i), 200)})
		}
	default:
		return statesync.ChunkChannel, func(i int) []byte {
			return wrap(&ssproto.ChunkResponse{Height: 10, Format: 1, Index: uint32(i), Chunk: fill(uint64(i), 100)})
		}
	}
}

// TestDirectedIdleReactorsLongStreams: every block-sync and state-sync stream kind, 1200 messages from one peer, against
// the reactor of a node that is NOT syncing (block pool never started / no syncer), followed by the liveness probes.
func TestDirectedIdleReactorsLongStreams(t *testing.T) {
	ft := tfail{t}
	for _, kind := range bcStreamKinds {
		e, ch := newBlockchainEnv(ft, 2, false)
		p := e.addPeer(false)
		res := runStream(ft, "TestDirectedIdleReactorsLongStreams", e.name, func(c byte, b []byte, what string) recvOutcome {
			return deliver(ft, e.sw, e.r, c, p, b, what)
		}, stream{name: kind, ch: bcv0.BlockchainChannel, msg: bcStreamMsg(kind, ch)}, 1200)
		e.probe(ft)
		e.closeChecked(ft)
		lib.Case("TestDirectedIdleReactorsLongStreams", lib.FP("bc", kind), res.sent >= 100, "stream:"+e.name+"/"+kind)
	}
	for _, kind := range ssStreamKinds {
		e, r, _ := newStatesyncEnv(ft)
		p := e.addPeer(false)
		c, msg := ssStreamMsg(kind)
		res := runStream(ft, "TestDirectedIdleReactorsLongStreams", e.name, func(c byte, b []byte, what string) recvOutcome {
			return deliver(ft, e.sw, e.r, c, p, b, what)
		}, stream{name: kind, ch: c, msg: msg, limit: 10, tracked: r.VerifC17SnapshotCount}, 1200)
		e.probe(ft)
		e.closeChecked(ft)
		lib.Case("TestDirectedIdleReactorsLongStreams", lib.FP("ss", kind), res.sent >= 100, "stream:statesync(idle)/"+kind)
	}
}

// TestDirectedFarRoundVotesFromOnePeer: the fixed instance — 1500 junk prevotes of the current height for 1500 different
// far rounds from one non-validator peer; the node may hold vote sets for at most 2 of those rounds.
func TestDirectedFarRoundVotesFromOnePeer(t *testing.T) {
	ft := tfail{t}
	e := newConsEnv(ft, 4, 1, 0, 1)
	defer e.close()
	e.drive("propose-empty")
	p := newPeer(false)
	e.addPeer(p)
	val := e.chain.State.Validators.Validators[1]
	var named []int32
	st := stream{name: "vote-far-rounds", ch: consensus.VoteChannel, limit: 2, quiesce: e.barrier,
		msg: func(i int) []byte {
			r := int32(1000 + i)
			named = append(named, r)
			return wrapCons(&tmcons.Vote{Vote: &tmproto.Vote{Type: tmproto.PrevoteType, Height: e.h, Round: r, Timestamp: time.Unix(1_700_000_100, 0).UTC(),
				ValidatorAddress: val.Address, ValidatorIndex: 1, Signature: fill(uint64(i), 64)}})
		},
		tracked: func() int {
			votes, n := e.cs.GetRoundState().Votes, 0
			for _, r := range named {
				if votes.Prevotes(r) != nil {
					n++
				}
			}
			return n
		}}
	res := runStream(ft, "TestDirectedFarRoundVotesFromOnePeer", "consensus", func(ch byte, b []byte, what string) recvOutcome {
		return deliver(ft, e.sw, e.conR, ch, p, b, what)
	}, st, 1500)
	lib.Case("TestDirectedFarRoundVotesFromOnePeer", lib.FP(1), res.sent == 1500)
	lib.Note("far-round stream heap", fmt.Sprintf("h0=%d h1=%d h2=%d", res.h0, res.h1, res.h2))
}

var _ = types.MaxVotesCount
