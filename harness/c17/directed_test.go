package c17

import (
	"net"
	"testing"
	"time"

	"github.com/tendermint/tendermint/consensus"
	"github.com/tendermint/tendermint/libs/log"
	"github.com/tendermint/tendermint/p2p/conn"
	tmcons "github.com/tendermint/tendermint/proto/tendermint/consensus"
	tmbits "github.com/tendermint/tendermint/proto/tendermint/libs/bits"
	tmproto "github.com/tendermint/tendermint/proto/tendermint/types"

	"verif/lib"
)

// Directed scenarios: fixed instances of input classes the generated tests also cover, kept as plain tests so that the
// quick tier does not depend on a seed to reach them. They pass on a correct tree.

// TestDirectedUnterminatedStream: non-EOF packets forever on one channel. The receiver must error at the packet that
// takes the partial message past RecvMessageCapacity (see the "unterminated-stream" tail of TestDelivery for why
// 4096 further accepted wire bytes prove that packet was handled).
func TestDirectedUnterminatedStream(t *testing.T) {
	for _, tc := range []struct{ payload, capacity, chunk int }{{1024, 3000, 1024}, {1024, 1024, 1}, {16, 100, 16}, {1, 5, 1}, {65536, 4, 65536}, {16384, 40000, 16384}} {
		descs := []*conn.ChannelDescriptor{{ID: 0x01, Priority: 1, SendQueueCapacity: 1, RecvMessageCapacity: tc.capacity}}
		cfg := conn.DefaultMConnConfig()
		cfg.MaxPacketMsgPayloadSize, cfg.SendRate, cfg.RecvRate, cfg.FlushThrottle = tc.payload, 0, 0, time.Millisecond
		c1, c2 := net.Pipe()
		rs := &recvSide{got: map[byte][][]byte{}, notify: make(chan struct{}, 1)}
		receiver := conn.NewMConnectionWithConfig(c2, descs, rs.onReceive, rs.onError, cfg)
		receiver.SetLogger(log.NewNopLogger())
		if err := receiver.Start(); err != nil {
			t.Fatal(err)
		}
		acc, past, refused, crossed := 0, 0, false, false
		for !refused && past < 2048+2*(tc.payload+16) {
			if err := writeRawPacket(c1, 0x01, false, fill(uint64(acc), tc.chunk)); err != nil {
				refused = true
				break
			}
			acc += tc.chunk
			if crossed {
				past += tc.chunk + 8
			}
			if acc > tc.capacity {
				crossed = true
			}
		}
		_, nerr := rs.snapshot()
		lib.Case("TestDirectedUnterminatedStream", lib.FP(tc), true)
		if !refused && nerr == 0 {
			t.Fatalf("receiver keeps buffering an unterminated message: capacity %d, %d bytes of non-EOF packets taken, connection still up", tc.capacity, acc)
		}
		if !rs.waitFor(func(n, nerr int) bool { return nerr > 0 }) {
			t.Fatalf("VERIF-INFRA: connection closed but onError not seen within %v", deliveryWait)
		}
		if n, _ := rs.snapshot(); n != 0 {
			t.Fatalf("part of an unterminated message reached onReceive")
		}
		receiver.Stop() //nolint
		c1.Close()
		c2.Close()
	}
}

// TestDirectedPeerBitArraysOfOtherWidth: bit arrays from the peer that are wider / narrower (in 64-bit words) than the
// node's own, in every place the per-peer routines combine the two: ProposalPOL (via a Proposal claiming POLRound 0 for
// round 1), VoteSetBits, NewValidBlock parts. After each message all three per-peer routines run at least two loops.
func TestDirectedPeerBitArraysOfOtherWidth(t *testing.T) {
	for _, nVals := range []int{4, 70} {
		for _, state := range []string{"newheight", "prevotes", "round1"} {
			ft := tfail{t}
			e := newConsEnv(ft, nVals, 2, 0, 1)
			e.drive(state)
			for _, bitsN := range []int64{1, 64, 65, 128, 129, 10000} {
				p := newPeer(false)
				e.addPeer(p)
				ba := tmbits.BitArray{Bits: bitsN, Elems: make([]uint64, (bitsN+63)/64)}
				for i := range ba.Elems {
					ba.Elems[i] = 0x5555555555555555
				}
				if r := bitsN % 64; r != 0 {
					ba.Elems[len(ba.Elems)-1] &= (1 << uint(r)) - 1
				}
				nodeRound := e.cs.GetRoundState().Round
				prop := tmproto.Proposal{Type: tmproto.ProposalType, Height: e.h, Round: nodeRound + 1, PolRound: 0, Timestamp: time.Unix(1_700_000_100, 0).UTC(),
					BlockID: tmproto.BlockID{Hash: b32(1), PartSetHeader: tmproto.PartSetHeader{Total: 1, Hash: b32(2)}}, Signature: fill(3, 64)}
				msgs := []struct {
					ch byte
					b  []byte
				}{
					{consensus.StateChannel, wrapCons(&tmcons.NewRoundStep{Height: e.h, Round: nodeRound + 1, Step: 3, LastCommitRound: 0})},
					{consensus.DataChannel, wrapCons(&tmcons.Proposal{Proposal: prop})},
					{consensus.DataChannel, wrapCons(&tmcons.ProposalPOL{Height: e.h, ProposalPolRound: 0, ProposalPol: ba})},
					{consensus.VoteSetBitsChannel, wrapCons(&tmcons.VoteSetBits{Height: e.h, Round: 0, Type: tmproto.PrevoteType, Votes: ba})},
					{consensus.StateChannel, wrapCons(&tmcons.NewValidBlock{Height: e.h, Round: nodeRound + 1, BlockPartSetHeader: tmproto.PartSetHeader{Total: uint32(bitsN % 1602), Hash: b32(2)}, BlockParts: &ba, IsCommit: true})},
				}
				for _, m := range msgs {
					o := deliver(ft, e.sw, e.conR, m.ch, p, m.b, "directed")
					if !e.barrier() {
						t.Fatalf("consensus receive routine died")
					}
					if o.dropped {
						break
					}
					e.settle(p)
					if pn := e.routinePanic(); pn != "" {
						t.Fatalf("PROCESS DEATH: %d validators, node state %s, peer bit array of %d bits: a per-peer routine panicked\n%s", nVals, state, bitsN, firstLines(pn, 16))
					}
				}
				lib.Case("TestDirectedPeerBitArraysOfOtherWidth", lib.FP(nVals, state, bitsN), true)
				e.sw.StopPeerGracefully(p)
				e.awaitPeerRoutines(p)
			}
			e.close()
		}
	}
}

// TestDirectedPayloadSizes: two honest ends with the same max_packet_msg_payload_size, for sizes around every point where
// the packet envelope grows, channel ids below and above 0x7f, messages of 1, p-1, p, p+1, 2p and 3p+17 bytes.
func TestDirectedPayloadSizes(t *testing.T) {
	for _, p := range []int{1, 100, 118, 127, 128, 1024, 16375, 16376, 16383, 16384, 65536} {
		descs := []*conn.ChannelDescriptor{
			{ID: 0x20, Priority: 1, SendQueueCapacity: 16, RecvMessageCapacity: 4*p + 100},
			{ID: 0x90, Priority: 1, SendQueueCapacity: 16, RecvMessageCapacity: 4*p + 100}}
		cfg := conn.DefaultMConnConfig()
		cfg.MaxPacketMsgPayloadSize, cfg.SendRate, cfg.RecvRate, cfg.FlushThrottle = p, 0, 0, time.Millisecond
		c1, c2 := net.Pipe()
		rs := &recvSide{got: map[byte][][]byte{}, notify: make(chan struct{}, 1)}
		ss := &recvSide{got: map[byte][][]byte{}, notify: make(chan struct{}, 1)}
		sender := conn.NewMConnectionWithConfig(c1, descs, ss.onReceive, ss.onError, cfg)
		receiver := conn.NewMConnectionWithConfig(c2, descs, rs.onReceive, rs.onError, cfg)
		sender.SetLogger(log.NewNopLogger())
		receiver.SetLogger(log.NewNopLogger())
		if err := sender.Start(); err != nil {
			t.Fatal(err)
		}
		if err := receiver.Start(); err != nil {
			t.Fatal(err)
		}
		var want [][]byte
		for i, n := range []int{1, p - 1, p, p + 1, 2 * p, 3*p + 17} {
			if n < 0 {
				n = 0
			}
			m := fill(uint64(i+1), n)
			m = append([]byte{byte(i)}, m...)
			if !sender.Send([]byte{0x20, 0x90}[i%2], m) {
				t.Fatalf("payload size %d: message of %d bytes not accepted for sending", p, len(m))
			}
			want = append(want, m)
		}
		ok := rs.waitFor(func(n, nerr int) bool { return n >= len(want) || nerr > 0 })
		rs.mu.Lock()
		if len(rs.errs) > 0 {
			t.Fatalf("max_packet_msg_payload_size=%d on both ends: the receiver killed the connection on legitimate traffic: %v", p, rs.errs)
		}
		if !ok {
			t.Fatalf("VERIF-INFRA: payload %d: delivery not finished in %v", p, deliveryWait)
		}
		for i, m := range want {
			got := rs.got[[]byte{0x20, 0x90}[i%2]][i/2]
			if string(got) != string(m) {
				t.Fatalf("payload size %d: message %d altered", p, i)
			}
		}
		rs.mu.Unlock()
		lib.Case("TestDirectedPayloadSizes", lib.FP(p), true)
		sender.Stop()   //nolint
		receiver.Stop() //nolint
		c1.Close()
		c2.Close()
	}
}
