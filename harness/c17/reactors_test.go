// C17 (b) — mempool (v0, v1), evidence, blockchain v0, statesync and pex reactors under hostile input.
package c17

import (
	"context"
	"errors"
	"fmt"
	"math"
	"os"
	"path/filepath"
	"runtime"
	"strings"
	"sync"
	"testing"
	"time"

	"github.com/gogo/protobuf/proto"
	dbm "github.com/tendermint/tm-db"
	"pgregory.net/rapid"

	abci "github.com/tendermint/tendermint/abci/types"
	bcv0 "github.com/tendermint/tendermint/blockchain/v0"
	cfg "github.com/tendermint/tendermint/config"
	"github.com/tendermint/tendermint/evidence"
	"github.com/tendermint/tendermint/mempool"
	mempoolv0 "github.com/tendermint/tendermint/mempool/v0"
	mempoolv1 "github.com/tendermint/tendermint/mempool/v1"
	"github.com/tendermint/tendermint/p2p"
	"github.com/tendermint/tendermint/p2p/pex"
	bcproto "github.com/tendermint/tendermint/proto/tendermint/blockchain"
	protomem "github.com/tendermint/tendermint/proto/tendermint/mempool"
	tmp2p "github.com/tendermint/tendermint/proto/tendermint/p2p"
	ssproto "github.com/tendermint/tendermint/proto/tendermint/statesync"
	tmproto "github.com/tendermint/tendermint/proto/tendermint/types"
	sm "github.com/tendermint/tendermint/state"
	"github.com/tendermint/tendermint/statesync"
	"github.com/tendermint/tendermint/types"

	"verif/lib"
)

// rmsg is one generated message for a reactor.
type rmsg struct {
	ch        byte
	kind      string
	b         []byte
	valid     bool // decodes and passes the reactor's validation (classification)
	mayChange bool // carries something the node is right to accept: its own state may change
	items     int  // number of repeated elements (txs, evidence, addresses): per-element garbage allowance
	chunks    int  // statesync: advertised chunk count
}

// renv is a reactor over real stores with a real Switch.
type renv struct {
	name    string
	sw      *p2p.Switch
	r       p2p.Reactor
	caps    map[byte]int
	own     func() string         // fingerprint of the node's own state this reactor guards
	inv     func() string         // invariant over the node's own state ("" = holds)
	onPeer  func(p *hpeer)        // extra per-peer setup before AddPeer
	after   func(p *hpeer) string // extra per-message check ("" = fine)
	cleanup []func()
	before  map[string]int
	peers   []*hpeer
	// probes: the reactor's ordinary entry points, exercised after hostile input from a fresh well-behaved peer p
	// (already connected); generic ones (connect, disconnect) are added by probe()
	probes func(p *hpeer) []probe
}

// benign delivers a message that is fine by every rule, from a well-behaved peer: hostile input from somebody else
// must not make it block or blow up.
func (e *renv) benign(what string, ch byte, p *hpeer, b []byte) probe {
	return probe{"Receive(" + what + ") from a well-behaved peer", func() { e.r.Receive(ch, p, b) }}
}

// probe checks that the reactor still completes its ordinary entry points.
func (e *renv) probe(t failer) {
	var p *hpeer
	must(t, e.name+": InitPeer+AddPeer for a new connection (Switch.addPeer)", func() { p = e.addPeer(false) })
	if e.probes != nil {
		runProbes(t, e.name, e.probes(p))
	}
	must(t, e.name+": reading the node's own state", func() { e.own() })
	must(t, e.name+": RemovePeer (Switch.StopPeerGracefully)", func() { e.sw.StopPeerGracefully(p) })
}

// closeChecked stops everything; a stop that hangs is a wedge too.
func (e *renv) closeChecked(t failer) {
	quietly(t, e.name+": stopping the reactor (peers removed, Reactor.Stop)", e.close)
}

func (e *renv) addPeer(outbound bool) *hpeer {
	p := newPeer(outbound)
	if e.onPeer != nil {
		e.onPeer(p)
	}
	// Switch.addPeer: InitPeer on every reactor, add to the peer set, AddPeer on every reactor
	e.peers = append(e.peers, p)
	e.r.InitPeer(p)
	p2p.AddPeerToSwitchPeerSet(e.sw, p)
	e.r.AddPeer(p)
	return p
}

func (e *renv) close() {
	for _, p := range e.sw.Peers().List() {
		e.sw.StopPeerGracefully(p)
	}
	if e.r.IsRunning() {
		e.r.Stop() //nolint
	}
	for i := len(e.cleanup) - 1; i >= 0; i-- {
		e.cleanup[i]()
	}
}

func (e *renv) capOf(ch byte) int {
	if c, ok := e.caps[ch]; ok {
		return c
	}
	// a channel this reactor does not own: the smallest of its capacities is the strictest reading
	m := 0
	for _, c := range e.caps {
		if m == 0 || c < m {
			m = c
		}
	}
	return m
}

func chanCaps(r p2p.Reactor) map[byte]int {
	m := map[byte]int{}
	for _, d := range r.GetChannels() {
		c := d.RecvMessageCapacity
		if c == 0 {
			c = 22020096 // conn.defaultRecvMessageCapacity
		}
		m[d.ID] = c
	}
	return m
}

type knownAlloc struct {
	id    string
	match func(m rmsg) bool
}

// runHostile feeds n generated messages to the reactor of e from one peer (re-connecting under a new identity when
// the peer gets dropped) and applies the oracles after every message.
func runHostile(t *rapid.T, test string, e *renv, outbound bool, n int, gen func(p *hpeer) rmsg, known *knownAlloc) (kinds []string, hostileValid int) {
	connect := func() (p *hpeer) {
		must(t, e.name+": InitPeer+AddPeer for a new connection (Switch.addPeer)", func() { p = e.addPeer(outbound) })
		return
	}
	own := func() (s string) {
		must(t, e.name+": reading the node's own state", func() { s = e.own() })
		return
	}
	p := connect()
	for i := 0; i < n; i++ {
		m := gen(p)
		kinds = append(kinds, m.kind)
		before := own()
		o := deliver(t, e.sw, e.r, m.ch, p, m.b, e.name+"/"+m.kind)
		cls := outcomeClass(o)
		lib.Class(test, e.name+":"+m.kind+"=>"+cls, fmt.Sprintf("msg-valid:%v", m.valid))
		if m.valid && !m.mayChange {
			hostileValid++
		}
		if bound := allocBoundItems(e.capOf(m.ch), m.items); o.alloc > bound {
			lib.Class(test, "ALLOC-over-bound:"+e.name+":"+m.kind)
			if known != nil && lib.IsKnown(known.id) && known.match(m) {
				lib.ObservedKnown(known.id)
				lib.ExcludedByKnown(known.id)
			} else {
				t.Fatalf("ALLOCATION: %s reactor, one %d-byte %s message (%d items) on channel %#x allocated %d bytes (> 16 x RecvMessageCapacity %d + 1MiB + 4KiB per item)",
					e.name, len(m.b), m.kind, m.items, m.ch, o.alloc, e.capOf(m.ch))
			}
		}
		after := own()
		if !m.mayChange && after != before {
			t.Fatalf("%s reactor: node's own state changed by %s (valid=%v):\nbefore %s\nafter  %s", e.name, m.kind, m.valid, before, after)
		}
		if e.inv != nil {
			var bad string
			must(t, e.name+": reading the node's own state", func() { bad = e.inv() })
			if bad != "" {
				t.Fatalf("%s reactor: after %s: %s", e.name, m.kind, bad)
			}
		}
		if e.after != nil {
			if bad := e.after(p); bad != "" {
				t.Fatalf("%s reactor: after %s: %s", e.name, m.kind, bad)
			}
		}
		if o.dropped || !p.BaseService.IsRunning() {
			p = connect()
		}
	}
	// liveness: whatever was sent, the reactor still serves everybody else
	e.probe(t)
	return
}

func wrap(m interface{ Wrap() proto.Message }) []byte {
	b, err := proto.Marshal(m.Wrap())
	if err != nil {
		panic(err)
	}
	return b
}

func mustMarshal(m proto.Message) []byte {
	b, err := proto.Marshal(m)
	if err != nil {
		panic(err)
	}
	return b
}

func newChain(t failer, nVals, nBlocks int, spec lib.ChainSpec) *lib.Chain {
	spec.Keys, spec.Powers = seqInts(nVals), equalPowers(nVals, 10)
	ch, err := lib.NewChain(spec)
	if err != nil {
		t.Fatalf("VERIF-INFRA: chain: %v", err)
	}
	for i := 0; i < nBlocks; i++ {
		if err := ch.Advance(&lib.HeightPlan{Txs: [][]byte{[]byte(fmt.Sprintf("tx-%d", i))}}); err != nil {
			t.Fatalf("VERIF-INFRA: advance: %v", err)
		}
	}
	return ch
}

// =================================================================================================================
// mempool

type heightState struct{ h int64 }

func (s heightState) GetHeight() int64 { return s.h }

type mempoolLike interface {
	Size() int
	SizeBytes() int64
	ReapMaxTxs(int) types.Txs
	Lock()
	Unlock()
}

func newMempoolEnv(t failer, version string, mcfg *cfg.MempoolConfig) *renv {
	e := &renv{name: "mempool-" + version}
	e.before, _ = goroutineSummary()
	ch := newChain(t, 1, 1, lib.ChainSpec{})
	ch.App.CheckTxFn = func(req abci.RequestCheckTx) abci.ResponseCheckTx {
		if len(req.Tx) > 0 && req.Tx[0] == '!' {
			return abci.ResponseCheckTx{Code: 1}
		}
		return abci.ResponseCheckTx{Code: 0, GasWanted: 1}
	}
	e.cleanup = append(e.cleanup, ch.Close)
	var mp mempoolLike
	if version == "v0" {
		m := mempoolv0.NewCListMempool(mcfg, ch.Proxy.Mempool(), ch.Tip())
		m.SetLogger(nopLogger)
		r := mempoolv0.NewReactor(mcfg, m)
		r.SetLogger(nopLogger)
		mp, e.r = m, r
	} else {
		m := mempoolv1.NewTxMempool(nopLogger, mcfg, ch.Proxy.Mempool(), ch.Tip())
		r := mempoolv1.NewReactor(mcfg, m)
		r.SetLogger(nopLogger)
		mp, e.r = m, r
	}
	e.sw = newSwitch()
	e.sw.AddReactor("MEMPOOL", e.r)
	if err := e.r.Start(); err != nil {
		t.Fatalf("VERIF-INFRA: %v", err)
	}
	e.caps = chanCaps(e.r)
	e.onPeer = func(p *hpeer) { p.Set(types.PeerStateKey, heightState{1 << 40}) }
	e.own = func() string {
		txs := mp.ReapMaxTxs(-1)
		keys := make([]string, len(txs))
		for i, tx := range txs {
			k := tx.Key()
			keys[i] = fmt.Sprintf("%x", k[:6])
		}
		return fmt.Sprintf("n=%d bytes=%d %v", mp.Size(), mp.SizeBytes(), keys)
	}
	e.inv = func() string {
		txs := mp.ReapMaxTxs(-1)
		var total int64
		for _, tx := range txs {
			total += int64(len(tx))
			if len(tx) > 0 && tx[0] == '!' {
				return fmt.Sprintf("the mempool holds a transaction the application rejected: %.16x", []byte(tx))
			}
			if len(tx) > mcfg.MaxTxBytes {
				return fmt.Sprintf("the mempool holds a %d-byte transaction (MaxTxBytes %d)", len(tx), mcfg.MaxTxBytes)
			}
		}
		if len(txs) > mcfg.Size || total > mcfg.MaxTxsBytes {
			return fmt.Sprintf("the mempool holds %d txs / %d bytes (limits %d / %d)", len(txs), total, mcfg.Size, mcfg.MaxTxsBytes)
		}
		return ""
	}
	e.probes = func(p *hpeer) []probe {
		return []probe{
			e.benign("Txs with one transaction the application rejects", mempool.MempoolChannel, p, wrap(&protomem.Txs{Txs: [][]byte{[]byte("!probe")}})),
			{"Mempool.Lock/Unlock (what consensus does around every commit)", func() { mp.Lock(); mp.Unlock() }},
			{"Mempool.ReapMaxTxs / Size (what the proposer does)", func() { mp.ReapMaxTxs(-1); mp.Size() }},
		}
	}
	return e
}

func genTxsMsg(t *rapid.T, mcfg *cfg.MempoolConfig, capacity int) rmsg {
	kind := rapid.SampledFrom([]string{"many-tiny", "many-tiny", "huge-one", "over-one", "dups", "rejected", "empty-tx", "empty-list", "mixed", "fill-capacity", "raw-garbage", "wrong-channel"}).Draw(t, "kind")
	m := rmsg{ch: mempool.MempoolChannel, kind: kind, valid: true}
	var txs [][]byte
	seed := rapid.Uint64().Draw(t, "seed")
	switch kind {
	case "many-tiny":
		n := rapid.SampledFrom([]int{1, 10, 100, 1000, 5000}).Draw(t, "n")
		for i := 0; i < n; i++ {
			txs = append(txs, []byte(fmt.Sprintf("%x-%d", seed&0xffff, i)))
		}
		m.mayChange = true
	case "huge-one":
		txs = [][]byte{fill(seed, mcfg.MaxTxBytes)}
		txs[0][0] = 'h'
		m.mayChange = true
	case "over-one":
		txs = [][]byte{fill(seed, mcfg.MaxTxBytes+rapid.IntRange(1, 10).Draw(t, "over"))}
		txs[0][0] = 'o'
	case "dups":
		n := rapid.SampledFrom([]int{2, 50, 2000}).Draw(t, "n")
		tx := []byte(fmt.Sprintf("dup-%x", seed&0xff))
		for i := 0; i < n; i++ {
			txs = append(txs, tx)
		}
		m.mayChange = true
	case "rejected":
		n := rapid.SampledFrom([]int{1, 10, 1000}).Draw(t, "n")
		for i := 0; i < n; i++ {
			txs = append(txs, []byte(fmt.Sprintf("!%x-%d", seed&0xffff, i)))
		}
	case "empty-tx":
		txs = [][]byte{{}}
		m.mayChange = true // an empty transaction is the application's business
	case "empty-list":
	case "mixed":
		n := rapid.IntRange(1, 30).Draw(t, "n")
		for i := 0; i < n; i++ {
			sz := rapid.SampledFrom([]int{1, 2, 100, 4000}).Draw(t, "sz")
			tx := fill(seed+uint64(i), sz)
			tx[0] = rapid.SampledFrom([]byte{'!', 'a', 'a'}).Draw(t, "first")
			m.mayChange = m.mayChange || tx[0] != '!'
			txs = append(txs, tx)
		}
	case "fill-capacity":
		// as many 1-byte-payload transactions as one message of full channel capacity can carry
		per := 4
		n := (capacity - 8) / per
		if n > 8000 { // v1 admission into a full pool is linear in the pool size: keep the case cheap
			n = 8000
		}
		for i := 0; i < n; i++ {
			txs = append(txs, []byte{byte('a' + i%20), byte(i >> 8)})
		}
		m.mayChange = true
	case "raw-garbage":
		m.b = rapid.SliceOfN(rapid.Byte(), 0, 64).Draw(t, "garbage")
		m.valid = false
		return m
	case "wrong-channel":
		m.ch = rapid.SampledFrom([]byte{0x00, 0x20, 0x31, 0xff}).Draw(t, "wch")
		txs = [][]byte{[]byte("!on-the-wrong-channel")}
	}
	m.b = wrap(&protomem.Txs{Txs: txs})
	// MConnection delivers nothing longer than the channel's RecvMessageCapacity: keep what fits. (A single
	// transaction above MaxTxBytes therefore never reaches the reactor at all.)
	for len(m.b) > capacity && len(txs) > 0 {
		drop := len(txs) / 8
		if drop == 0 {
			drop = 1
		}
		txs = txs[:len(txs)-drop]
		m.b = wrap(&protomem.Txs{Txs: txs})
	}
	m.items = len(txs)
	return m
}

func TestHostileMempool(t *testing.T) {
	rapid.Check(t, func(t *rapid.T) {
		newCase()
		version := rapid.SampledFrom([]string{"v0", "v1"}).Draw(t, "version")
		mcfg := cfg.DefaultMempoolConfig()
		mcfg.Version = version
		mcfg.Size = rapid.SampledFrom([]int{5, 50, 5000}).Draw(t, "size")
		mcfg.MaxTxBytes = rapid.SampledFrom([]int{256, 8192, 1048576}).Draw(t, "maxtxbytes")
		mcfg.MaxTxsBytes = int64(rapid.SampledFrom([]int{4096, 1 << 20, 1 << 30}).Draw(t, "maxtxsbytes"))
		mcfg.CacheSize = rapid.SampledFrom([]int{0, 10, 10000}).Draw(t, "cache")
		e := newMempoolEnv(t, version, mcfg)
		defer func() {
			e.closeChecked(t)
			if !wedged() {
				checkNoLeak(t, e.before, e.name)
			}
		}()
		capacity := e.caps[mempool.MempoolChannel]
		n := rapid.IntRange(2, 12).Draw(t, "nmsgs")
		kinds, hv := runHostile(t, "TestHostileMempool", e, rapid.Bool().Draw(t, "outbound"), n, func(p *hpeer) rmsg { return genTxsMsg(t, mcfg, capacity) }, nil)
		lib.Case("TestHostileMempool", lib.FP(version, mcfg.Size, mcfg.MaxTxBytes, mcfg.MaxTxsBytes, mcfg.CacheSize, kinds), hv > 0, "mempool:"+version, fmt.Sprintf("cap:%d", capacity))
	})
}

// =================================================================================================================
// evidence

func newEvidenceEnv(t failer, nBlocks int) (*renv, *lib.Chain, *evidence.Pool) {
	e := &renv{name: "evidence"}
	e.before, _ = goroutineSummary()
	ch := newChain(t, 4, nBlocks, lib.ChainSpec{})
	e.cleanup = append(e.cleanup, ch.Close)
	pool, err := evidence.NewPool(dbm.NewMemDB(), ch.StateStore, ch.BlockStore)
	if err != nil {
		t.Fatalf("VERIF-INFRA: %v", err)
	}
	pool.SetLogger(nopLogger)
	r := evidence.NewReactor(pool)
	r.SetLogger(nopLogger)
	e.r = r
	e.sw = newSwitch()
	e.sw.AddReactor("EVIDENCE", r)
	if err := r.Start(); err != nil {
		t.Fatalf("VERIF-INFRA: %v", err)
	}
	e.caps = chanCaps(r)
	e.onPeer = func(p *hpeer) { p.Set(types.PeerStateKey, heightState{ch.Tip()}) }
	e.own = func() string {
		evs, size := pool.PendingEvidence(-1)
		s := fmt.Sprintf("n=%d size=%d", len(evs), size)
		for _, ev := range evs {
			s += fmt.Sprintf(" %X", ev.Hash()[:4])
		}
		return s
	}
	e.probes = func(p *hpeer) []probe {
		return []probe{
			e.benign("empty EvidenceList", evidence.EvidenceChannel, p, mustMarshal(&tmproto.EvidenceList{})),
			{"Pool.PendingEvidence / Pool.State / Pool.Size (what block production does)", func() { pool.PendingEvidence(-1); pool.State(); pool.Size() }},
		}
	}
	return e, ch, pool
}

func genEvidenceMsg(t *rapid.T, ch *lib.Chain) rmsg {
	kind := rapid.SampledFrom([]string{"dupvote-badsig", "dupvote-badsig", "dupvote-extreme", "dupvote-valid", "many-invalid", "lca-empty", "nil-evidence", "raw-garbage", "wrong-channel"}).Draw(t, "kind")
	m := rmsg{ch: evidence.EvidenceChannel, kind: kind}
	tip := ch.Tip()
	h := rapid.Int64Range(1, tip).Draw(t, "h")
	mkDup := func(key int, height int64, good bool) *types.DuplicateVoteEvidence {
		vals := ch.ValidatorsAt(h)
		idx := lib.ValIndexOf(vals, key%len(vals.Validators))
		signer := key % len(vals.Validators)
		if !good {
			signer = 400 + key
		}
		va := lib.MakeVote(ch.Spec.ChainID, signer, idx, tmproto.PrevoteType, height, 0, lib.ForgeBlockID("a"), ch.Blocks[h].Time.Add(time.Second))
		vb := lib.MakeVote(ch.Spec.ChainID, signer, idx, tmproto.PrevoteType, height, 0, lib.ForgeBlockID("b"), ch.Blocks[h].Time.Add(2*time.Second))
		va.ValidatorAddress, vb.ValidatorAddress = vals.Validators[idx].Address, vals.Validators[idx].Address
		ev, err := lib.NewDuplicateVote(va, vb, ch.Blocks[h].Time, vals)
		if err != nil {
			panic(err)
		}
		return ev
	}
	var list []tmproto.Evidence
	add := func(ev types.Evidence) {
		pb, err := types.EvidenceToProto(ev)
		if err != nil {
			panic(err)
		}
		list = append(list, *pb)
	}
	switch kind {
	case "dupvote-badsig":
		add(mkDup(rapid.IntRange(0, 3).Draw(t, "key"), h, false))
		m.valid = true
	case "dupvote-extreme":
		ev := mkDup(rapid.IntRange(0, 3).Draw(t, "key"), rapid.SampledFrom([]int64{math.MaxInt64, math.MaxInt64 - 1, tip + 1, tip + 1000, 0}).Draw(t, "eh"), false)
		ev.TotalVotingPower = rapid.SampledFrom([]int64{ev.TotalVotingPower, math.MaxInt64, -1, 0}).Draw(t, "tvp")
		ev.ValidatorPower = rapid.SampledFrom([]int64{ev.ValidatorPower, math.MaxInt64, -1}).Draw(t, "vp")
		add(ev)
		m.valid = true
	case "dupvote-valid":
		add(mkDup(rapid.IntRange(0, 3).Draw(t, "key"), h, true))
		m.valid, m.mayChange = true, true
	case "many-invalid":
		n := rapid.SampledFrom([]int{10, 100, 1500}).Draw(t, "n")
		ev := mkDup(rapid.IntRange(0, 3).Draw(t, "key"), h, false)
		for i := 0; i < n; i++ {
			add(ev)
		}
		m.valid = true
	case "lca-empty":
		list = append(list, tmproto.Evidence{Sum: &tmproto.Evidence_LightClientAttackEvidence{LightClientAttackEvidence: &tmproto.LightClientAttackEvidence{
			CommonHeight: rapid.SampledFrom([]int64{1, tip, math.MaxInt64, -1}).Draw(t, "ch"), TotalVotingPower: math.MaxInt64}}})
	case "nil-evidence":
		list = append(list, tmproto.Evidence{})
	case "raw-garbage":
		m.b = rapid.SliceOfN(rapid.Byte(), 0, 64).Draw(t, "garbage")
		return m
	case "wrong-channel":
		m.ch = rapid.SampledFrom([]byte{0x00, 0x20, 0x39, 0xff}).Draw(t, "wch")
		add(mkDup(0, h, false))
	}
	m.items = len(list)
	m.b = mustMarshal(&tmproto.EvidenceList{Evidence: list})
	return m
}

func TestHostileEvidence(t *testing.T) {
	rapid.Check(t, func(t *rapid.T) {
		newCase()
		e, ch, _ := newEvidenceEnv(t, rapid.IntRange(2, 4).Draw(t, "blocks"))
		defer func() {
			e.closeChecked(t)
			if !wedged() {
				checkNoLeak(t, e.before, e.name)
			}
		}()
		n := rapid.IntRange(2, 10).Draw(t, "nmsgs")
		kinds, hv := runHostile(t, "TestHostileEvidence", e, false, n, func(p *hpeer) rmsg { return genEvidenceMsg(t, ch) }, nil)
		lib.Case("TestHostileEvidence", lib.FP(ch.Tip(), kinds), hv > 0)
	})
}

// =================================================================================================================
// blockchain v0

func newBlockchainEnv(t failer, nBlocks int, fastSync bool) (*renv, *lib.Chain) {
	e := &renv{name: fmt.Sprintf("blockchain(fastsync=%v)", fastSync)}
	e.before, _ = goroutineSummary()
	ch := newChain(t, 4, nBlocks, lib.ChainSpec{})
	e.cleanup = append(e.cleanup, ch.Close)
	r := bcv0.NewBlockchainReactor(ch.State.Copy(), ch.Exec, ch.BlockStore, fastSync)
	r.SetLogger(nopLogger)
	e.r = r
	e.sw = newSwitch()
	e.sw.AddReactor("BLOCKCHAIN", r)
	if err := r.Start(); err != nil {
		t.Fatalf("VERIF-INFRA: %v", err)
	}
	e.caps = chanCaps(r)
	e.own = func() string {
		st, _ := ch.StateStore.Load()
		return fmt.Sprintf("store=%d/%d state=%d app=%X", ch.BlockStore.Base(), ch.BlockStore.Height(), st.LastBlockHeight, st.AppHash)
	}
	e.probes = func(p *hpeer) []probe {
		return []probe{
			e.benign("StatusRequest", bcv0.BlockchainChannel, p, wrap(&bcproto.StatusRequest{})),
			e.benign("StatusResponse with the node's own range", bcv0.BlockchainChannel, p, wrap(&bcproto.StatusResponse{Base: ch.BlockStore.Base(), Height: ch.Tip()})),
			e.benign("BlockRequest for a stored block", bcv0.BlockchainChannel, p, wrap(&bcproto.BlockRequest{Height: 1})),
		}
	}
	return e, ch
}

func genBlockchainMsg(t *rapid.T, ch *lib.Chain) rmsg {
	kind := rapid.SampledFrom([]string{"BlockRequest", "BlockResponse-stored", "BlockResponse-mutated", "BlockResponse-empty", "StatusRequest", "StatusResponse", "StatusResponse", "NoBlockResponse", "raw-garbage", "wrong-channel"}).Draw(t, "kind")
	m := rmsg{ch: bcv0.BlockchainChannel, kind: kind, valid: true}
	tip := ch.Tip()
	hs := []int64{0, 1, tip, tip + 1, tip + 2, math.MaxInt64, math.MaxInt64 - 1, -1}
	switch kind {
	case "BlockRequest":
		h := rapid.SampledFrom(hs).Draw(t, "h")
		m.valid = h >= 0
		m.b = wrap(&bcproto.BlockRequest{Height: h})
	case "BlockResponse-stored", "BlockResponse-mutated":
		b := ch.Blocks[rapid.Int64Range(1, tip).Draw(t, "h")]
		pb, err := b.ToProto()
		if err != nil {
			panic(err)
		}
		if kind == "BlockResponse-mutated" {
			pb.Header.Height = rapid.SampledFrom([]int64{tip + 1, tip + 2, math.MaxInt64}).Draw(t, "mh")
			pb.Header.AppHash = fill(3, 32)
		}
		m.b = wrap(&bcproto.BlockResponse{Block: pb})
	case "BlockResponse-empty":
		m.b = wrap(&bcproto.BlockResponse{})
		m.valid = false
	case "StatusRequest":
		m.b = wrap(&bcproto.StatusRequest{})
	case "StatusResponse":
		base, h := rapid.SampledFrom(hs).Draw(t, "base"), rapid.SampledFrom(hs).Draw(t, "h")
		m.valid = base >= 0 && h >= 0 && base <= h
		m.b = wrap(&bcproto.StatusResponse{Base: base, Height: h})
	case "NoBlockResponse":
		h := rapid.SampledFrom(hs).Draw(t, "h")
		m.valid = h >= 0
		m.b = wrap(&bcproto.NoBlockResponse{Height: h})
	case "raw-garbage":
		m.b = rapid.SliceOfN(rapid.Byte(), 0, 64).Draw(t, "garbage")
		m.valid = false
	case "wrong-channel":
		m.ch = rapid.SampledFrom([]byte{0x00, 0x20, 0x41, 0xff}).Draw(t, "wch")
		m.b = wrap(&bcproto.StatusResponse{Base: 1, Height: math.MaxInt64})
	}
	return m
}

func TestHostileBlockchain(t *testing.T) {
	rapid.Check(t, func(t *rapid.T) {
		newCase()
		fast := rapid.Bool().Draw(t, "fastsync")
		e, ch := newBlockchainEnv(t, rapid.IntRange(1, 4).Draw(t, "blocks"), fast)
		defer func() {
			e.closeChecked(t)
			if !wedged() {
				checkNoLeak(t, e.before, e.name)
			}
		}()
		n := rapid.IntRange(2, 12).Draw(t, "nmsgs")
		kinds, hv := runHostile(t, "TestHostileBlockchain", e, false, n, func(p *hpeer) rmsg { return genBlockchainMsg(t, ch) }, nil)
		if fast && rapid.Bool().Draw(t, "linger") {
			time.Sleep(15 * time.Millisecond) // a few rounds of the pool routine's 10 ms sync ticker
			if s := e.own(); !strings.HasPrefix(s, fmt.Sprintf("store=%d/%d state=%d", ch.BlockStore.Base(), ch.Tip(), ch.Tip())) {
				t.Fatalf("block store / state moved by hostile block-sync input: %s", s)
			}
		}
		lib.Case("TestHostileBlockchain", lib.FP(fast, ch.Tip(), kinds), hv > 0, fmt.Sprintf("fastsync:%v", fast))
	})
}

// =================================================================================================================
// statesync

type failingProvider struct{ calls int }

func (f *failingProvider) AppHash(ctx context.Context, height uint64) ([]byte, error) {
	f.calls++
	return nil, errors.New("verif: light client cannot verify this height")
}
func (f *failingProvider) Commit(ctx context.Context, height uint64) (*types.Commit, error) {
	return nil, errors.New("verif: no commit")
}
func (f *failingProvider) State(ctx context.Context, height uint64) (sm.State, error) {
	return sm.State{}, errors.New("verif: no state")
}

const findStatesyncChunks = "C17-statesync-snapshot-chunk-count-presizes-maps"

var (
	presizeOnce sync.Once
	presizes    bool
)

// statesyncPresizes probes (once per process) whether picking a snapshot allocates in proportion to its advertised
// chunk count.
func statesyncPresizes() bool {
	presizeOnce.Do(func() {
		e, r, _ := newStatesyncEnv(tfail{nil})
		defer e.close()
		p := e.addPeer(false)
		var o recvOutcome
		bounded(tfail{nil}, "statesync probe", func() {
			r.VerifC17BeginSync(&failingProvider{})
			r.Receive(statesync.SnapshotChannel, p, wrap(&ssproto.SnapshotsResponse{Height: 9, Format: 1, Chunks: 1 << 20, Hash: b32(1)}))
			o = measured(func() { _, _, _ = r.VerifC17FinishSync() })
		})
		presizes = o.alloc > allocBound(e.caps[statesync.SnapshotChannel])
	})
	return presizes
}

func newStatesyncEnv(t failer) (*renv, *statesync.Reactor, string) {
	e := &renv{name: "statesync"}
	e.before, _ = goroutineSummary()
	ch := newChain(t, 1, 1, lib.ChainSpec{})
	e.cleanup = append(e.cleanup, ch.Close)
	dir := tmpDir(t, "c17-ss-")
	e.cleanup = append(e.cleanup, func() { os.RemoveAll(dir) })
	scfg := *cfg.DefaultStateSyncConfig()
	r := statesync.NewReactor(scfg, ch.Proxy.Snapshot(), ch.Proxy.Query(), dir)
	r.SetLogger(nopLogger)
	e.r = r
	e.sw = newSwitch()
	e.sw.AddReactor("STATESYNC", r)
	if err := r.Start(); err != nil {
		t.Fatalf("VERIF-INFRA: %v", err)
	}
	e.caps = chanCaps(r)
	e.own = func() string {
		st, _ := ch.StateStore.Load()
		return fmt.Sprintf("store=%d state=%d app=%X", ch.BlockStore.Height(), st.LastBlockHeight, st.AppHash)
	}
	e.probes = func(p *hpeer) []probe {
		return []probe{
			e.benign("SnapshotsRequest", statesync.SnapshotChannel, p, wrap(&ssproto.SnapshotsRequest{})),
			e.benign("ChunkRequest", statesync.ChunkChannel, p, wrap(&ssproto.ChunkRequest{Height: 1, Format: 1, Index: 0})),
			// what node.startStateSync does; with nothing advertised and no discovery time it returns at once
			{"Reactor.Sync (the node starting a state sync)", func() { _, _, _ = r.Sync(&failingProvider{}, 0) }},
		}
	}
	return e, r, dir
}

func genStatesyncMsg(t *rapid.T, syncing bool) rmsg {
	kind := rapid.SampledFrom([]string{"SnapshotsRequest", "SnapshotsResponse", "SnapshotsResponse", "SnapshotsResponse-bigmeta", "ChunkRequest", "ChunkResponse", "ChunkResponse", "raw-garbage", "wrong-channel"}).Draw(t, "kind")
	m := rmsg{kind: kind, valid: true}
	heights := []uint64{1, 2, 1000, math.MaxUint64, math.MaxInt64, 0}
	u32 := []uint32{0, 1, 2, 1000, math.MaxUint32, 1 << 31}
	chunkCounts := []uint32{1, 2, 5, 1000, 1 << 16, 1 << 20, 1 << 22, 0}
	if !statesyncPresizes() {
		// only once a probe has shown that the chunk count is not used to size anything up front: with it, 2^32-1
		// is a ~190 GB allocation request, i.e. instant death of the test process instead of a reported violation
		chunkCounts = append(chunkCounts, math.MaxUint32, 1<<31)
	}
	switch kind {
	case "SnapshotsRequest":
		m.ch = statesync.SnapshotChannel
		m.b = wrap(&ssproto.SnapshotsRequest{})
	case "SnapshotsResponse", "SnapshotsResponse-bigmeta":
		m.ch = statesync.SnapshotChannel
		r := &ssproto.SnapshotsResponse{Height: rapid.SampledFrom(heights).Draw(t, "h"), Format: rapid.SampledFrom(u32).Draw(t, "fmt"),
			Chunks: rapid.SampledFrom(chunkCounts).Draw(t, "chunks"), Hash: fill(rapid.Uint64().Draw(t, "hs"), rapid.SampledFrom([]int{32, 32, 0, 1, 1000}).Draw(t, "hlen"))}
		if kind == "SnapshotsResponse-bigmeta" {
			r.Metadata = fill(4, rapid.SampledFrom([]int{1000, 100000, 3900000}).Draw(t, "meta"))
		}
		m.valid = r.Height != 0 && len(r.Hash) > 0 && r.Chunks != 0
		m.chunks = int(r.Chunks)
		m.b = wrap(r)
	case "ChunkRequest":
		m.ch = statesync.ChunkChannel
		r := &ssproto.ChunkRequest{Height: rapid.SampledFrom(heights).Draw(t, "h"), Format: rapid.SampledFrom(u32).Draw(t, "fmt"), Index: rapid.SampledFrom(u32).Draw(t, "idx")}
		m.valid = r.Height != 0
		m.b = wrap(r)
	case "ChunkResponse":
		m.ch = statesync.ChunkChannel
		r := &ssproto.ChunkResponse{Height: rapid.SampledFrom(heights).Draw(t, "h"), Format: rapid.SampledFrom(u32).Draw(t, "fmt"), Index: rapid.SampledFrom(u32).Draw(t, "idx"),
			Missing: rapid.Bool().Draw(t, "missing")}
		switch rapid.SampledFrom([]string{"nil", "empty", "small", "big"}).Draw(t, "chunk") {
		case "empty":
			r.Chunk = []byte{}
		case "small":
			r.Chunk = fill(1, 100)
		case "big":
			r.Chunk = fill(2, 1<<20)
		}
		m.valid = r.Height != 0 && !(r.Missing && len(r.Chunk) > 0) && !(!r.Missing && r.Chunk == nil)
		m.b = wrap(r)
	case "raw-garbage":
		m.ch = rapid.SampledFrom([]byte{statesync.SnapshotChannel, statesync.ChunkChannel}).Draw(t, "gch")
		m.b = rapid.SliceOfN(rapid.Byte(), 0, 64).Draw(t, "garbage")
		m.valid = false
	case "wrong-channel":
		m.ch = rapid.SampledFrom([]byte{statesync.SnapshotChannel, statesync.ChunkChannel, 0x00, 0x62}).Draw(t, "wch")
		m.b = wrap(&ssproto.ChunkResponse{Height: 5, Index: math.MaxUint32, Chunk: []byte{1}})
	}
	_ = syncing
	return m
}

func TestHostileStatesync(t *testing.T) {
	rapid.Check(t, func(t *rapid.T) {
		newCase()
		e, r, dir := newStatesyncEnv(t)
		defer func() {
			e.closeChecked(t)
			if !wedged() {
				checkNoLeak(t, e.before, e.name)
			}
		}()
		syncing := rapid.Bool().Draw(t, "syncing")
		prov := &failingProvider{}
		if syncing {
			must(t, "statesync: Reactor.Sync, first half (installing the syncer)", func() { r.VerifC17BeginSync(prov) })
		}
		n := rapid.IntRange(2, 12).Draw(t, "nmsgs")
		maxChunks := 0
		kinds, hv := runHostile(t, "TestHostileStatesync", e, false, n, func(p *hpeer) rmsg {
			m := genStatesyncMsg(t, syncing)
			if strings.HasPrefix(m.kind, "SnapshotsResponse") && m.valid && m.chunks > maxChunks {
				maxChunks = m.chunks
			}
			return m
		}, nil)
		if syncing {
			// the node now picks among what the peers advertised (Reactor.Sync after its discovery sleep). It runs on the
			// node's own start-up goroutine: a panic there is process death, so is running out of memory.
			pooled := r.VerifC17SnapshotCount()
			var o recvOutcome
			bounded(t, fmt.Sprintf("statesync: Reactor.Sync, second half (SyncAny over %d advertised snapshots)", pooled), func() {
				o = measured(func() { _, _, _ = r.VerifC17FinishSync() })
			})
			if o.panicked {
				t.Fatalf("PROCESS DEATH: state sync goroutine panicked over hostile snapshots: %v", o.panicVal)
			}
			lib.Class("TestHostileStatesync", fmt.Sprintf("sync-over-pooled:%d", pooled))
			// every pooled snapshot costs at most one message's worth of buffering
			bound := uint64(pooled+1) * allocBound(e.caps[statesync.SnapshotChannel])
			if o.alloc > bound {
				lib.Class("TestHostileStatesync", "ALLOC-over-bound:sync")
				if lib.IsKnown(findStatesyncChunks) && maxChunks >= 1<<16 {
					lib.ObservedKnown(findStatesyncChunks)
					lib.ExcludedByKnown(findStatesyncChunks)
				} else {
					t.Fatalf("ALLOCATION: choosing among %d advertised snapshots (largest chunk count %d) allocated %d bytes (> %d x (16 x RecvMessageCapacity %d + 1MiB))",
						pooled, maxChunks, o.alloc, pooled+1, e.caps[statesync.SnapshotChannel])
				}
			}
			if left, _ := filepath.Glob(filepath.Join(dir, "*")); len(left) > 0 {
				t.Fatalf("state sync left scratch directories behind after giving up: %v", left)
			}
		}
		lib.Case("TestHostileStatesync", lib.FP(syncing, kinds), hv > 0, fmt.Sprintf("syncing:%v", syncing))
	})
}

// measured runs f on the current goroutine with panic capture and TotalAlloc accounting.
func measured(f func()) (out recvOutcome) {
	var m0, m1 runtime.MemStats
	runtime.ReadMemStats(&m0)
	defer func() {
		if r := recover(); r != nil {
			out.panicked, out.panicVal = true, r
		}
		runtime.ReadMemStats(&m1)
		out.alloc = m1.TotalAlloc - m0.TotalAlloc
	}()
	f()
	return
}

// =================================================================================================================
// pex

func newPexEnv(t failer, seedMode, strict bool) (*renv, pex.AddrBook, *pex.Reactor) {
	e := &renv{name: fmt.Sprintf("pex(seed=%v)", seedMode)}
	e.before, _ = goroutineSummary()
	dir := tmpDir(t, "c17-pex-")
	e.cleanup = append(e.cleanup, func() { os.RemoveAll(dir) })
	book := pex.NewAddrBook(filepath.Join(dir, "addrbook.json"), strict)
	book.SetLogger(nopLogger)
	// a few honest entries so that selections are not empty
	var honest []*p2p.NetAddress
	for i := 0; i < 5; i++ {
		a := p2p.NewNetAddressIPPort([]byte{7, 7, byte(i), 1}, 26656)
		a.ID = p2p.ID(fmt.Sprintf("%040x", 0xabc000+i))
		honest = append(honest, a)
		src := p2p.NewNetAddressIPPort([]byte{7, 8, byte(i), 1}, 26656)
		src.ID = p2p.ID(fmt.Sprintf("%040x", 0xdef000+i))
		_ = book.AddAddress(a, src)
	}
	r := pex.NewReactor(book, &pex.ReactorConfig{SeedMode: seedMode})
	r.SetLogger(nopLogger)
	// NOT started: OnStart launches the dial/crawl routines, which would make real connections. Receive does not
	// depend on the reactor running (the upstream fuzz target under test/fuzz/p2p/pex drives it the same way).
	e.r = r
	e.sw = newSwitch()
	e.sw.AddReactor("PEX", r)
	e.sw.SetAddrBook(book)
	e.caps = chanCaps(r)
	// the peers' own addresses come and go with the peers (AddPeer adds an inbound peer, MarkBad bans a misbehaving
	// one): what hostile input must not touch is everything else in the book
	e.own = func() string {
		kept := 0
		for _, a := range honest {
			if book.HasAddress(a) {
				kept++
			}
		}
		own := 0
		for _, p := range e.peers {
			if book.HasAddress(p.addr) {
				own++
			}
		}
		return fmt.Sprintf("honest-entries=%d other-entries=%d", kept, book.Size()-own-kept)
	}
	e.probes = func(p *hpeer) []probe {
		return []probe{
			e.benign("a first PexRequest", pex.PexChannel, p, wrap(&tmp2p.PexRequest{})),
			{"AddrBook.Size / GetSelection / PickAddress (what the dial routine does)", func() { book.Size(); book.GetSelection(); book.PickAddress(50) }},
		}
	}
	return e, book, r
}

func genPexMsg(t *rapid.T, p *hpeer) rmsg {
	kind := rapid.SampledFrom([]string{"PexRequest", "PexRequest", "PexAddrs", "PexAddrs", "PexAddrs-flood", "PexAddrs-bad", "raw-garbage", "wrong-channel"}).Draw(t, "kind")
	m := rmsg{ch: pex.PexChannel, kind: kind, valid: true, mayChange: true}
	seed := rapid.Uint64().Draw(t, "seed")
	addr := func(i int) tmp2p.NetAddress {
		return tmp2p.NetAddress{ID: fmt.Sprintf("%040x", seed%1000+uint64(i)), IP: fmt.Sprintf("11.%d.%d.%d", (i>>16)&255, (i>>8)&255, i&255), Port: 26656}
	}
	switch kind {
	case "PexRequest":
		m.b = wrap(&tmp2p.PexRequest{})
		m.mayChange = false
	case "PexAddrs":
		n := rapid.IntRange(0, 30).Draw(t, "n")
		var as []tmp2p.NetAddress
		for i := 0; i < n; i++ {
			as = append(as, addr(i))
		}
		m.items = n
		m.b = wrap(&tmp2p.PexAddrs{Addrs: as})
	case "PexAddrs-flood":
		n := rapid.SampledFrom([]int{250, 251, 1000}).Draw(t, "n")
		var as []tmp2p.NetAddress
		for i := 0; i < n; i++ {
			as = append(as, addr(i))
		}
		m.items = n
		m.b = wrap(&tmp2p.PexAddrs{Addrs: as})
	case "PexAddrs-bad":
		bad := []tmp2p.NetAddress{
			{ID: "", IP: "1.2.3.4", Port: 1},
			{ID: strings.Repeat("z", 40), IP: "1.2.3.4", Port: 1},
			{ID: fmt.Sprintf("%040x", 5), IP: "not-an-ip", Port: 1},
			{ID: fmt.Sprintf("%040x", 6), IP: "1.2.3.4", Port: math.MaxUint32},
			{ID: fmt.Sprintf("%040x", 7), IP: "127.0.0.1", Port: 26656},
			{ID: fmt.Sprintf("%040x", 8), IP: strings.Repeat("9", 300), Port: 0},
			{ID: string(p.ID()), IP: p.addr.IP.String(), Port: 26656},
			{ID: strings.Repeat("ab", 20), IP: "9.9.9.9", Port: 26656}, // the node itself
		}
		k := rapid.IntRange(0, len(bad)-1).Draw(t, "which")
		m.b = wrap(&tmp2p.PexAddrs{Addrs: []tmp2p.NetAddress{addr(1), bad[k]}})
		m.items = 2
	case "raw-garbage":
		m.b = rapid.SliceOfN(rapid.Byte(), 0, 64).Draw(t, "garbage")
		m.valid, m.mayChange = false, false
	case "wrong-channel":
		m.ch = rapid.SampledFrom([]byte{0x01, 0x20, 0xff}).Draw(t, "wch")
		m.b = wrap(&tmp2p.PexAddrs{Addrs: []tmp2p.NetAddress{addr(1)}})
	}
	return m
}

func TestHostilePex(t *testing.T) {
	rapid.Check(t, func(t *rapid.T) {
		newCase()
		seedMode := rapid.Bool().Draw(t, "seedmode")
		strict := rapid.Bool().Draw(t, "strict")
		outbound := rapid.Bool().Draw(t, "outbound")
		e, book, r := newPexEnv(t, seedMode, strict)
		defer func() {
			e.closeChecked(t)
			if !wedged() {
				checkNoLeak(t, e.before, e.name)
			}
		}()
		n := rapid.IntRange(2, 12).Draw(t, "nmsgs")
		solicited := map[p2p.ID]bool{}
		var lastSize int
		var lastPeer *hpeer
		e.after = func(p *hpeer) string { return "" }
		kinds, hv := runHostile(t, "TestHostilePex", e, outbound, n, func(p *hpeer) rmsg {
			if p != lastPeer {
				lastPeer = p
				// an outbound peer is asked for addresses by AddPeer when the book wants more; occasionally the node asks again
				solicited[p.ID()] = outbound && book.NeedMoreAddrs()
			}
			if rapid.IntRange(0, 4).Draw(t, "ask") == 0 {
				r.RequestAddrs(p)
				solicited[p.ID()] = true
			}
			m := genPexMsg(t, p)
			lastSize = book.Size()
			if strings.HasPrefix(m.kind, "PexAddrs") && m.ch == pex.PexChannel {
				if !solicited[p.ID()] {
					m.mayChange = false // an unsolicited list must not touch the address book
					m.kind += "(unsolicited)"
				} else {
					solicited[p.ID()] = false
				}
			}
			return m
		}, nil)
		_ = lastSize
		lib.Case("TestHostilePex", lib.FP(seedMode, strict, outbound, kinds), hv > 0, fmt.Sprintf("seed:%v", seedMode), fmt.Sprintf("outbound:%v", outbound))
	})
}
