package c17

import (
	"fmt"
	"net"
	"os"
	"os/exec"
	"strings"
	"sync"
	"testing"
	"time"

	cfg "github.com/tendermint/tendermint/config"
	"github.com/tendermint/tendermint/consensus"
	"github.com/tendermint/tendermint/p2p"
	"github.com/tendermint/tendermint/p2p/conn"
	tmcons "github.com/tendermint/tendermint/proto/tendermint/consensus"
	tmbits "github.com/tendermint/tendermint/proto/tendermint/libs/bits"
	ssproto "github.com/tendermint/tendermint/proto/tendermint/statesync"
	tmproto "github.com/tendermint/tendermint/proto/tendermint/types"
	"github.com/tendermint/tendermint/statesync"

	"verif/lib"
)

// TestRegressBitArrayKillsGossipRoutine — replay of finding C17-bitarray-size-mismatch-kills-gossip-routine.
//
// bits.BitArray.FromProto copies Bits and Elems from the wire without checking that they fit each other, and the
// ValidateBasic of NewValidBlock / ProposalPOL / VoteSetBits only looks at Bits. A peer that is one height behind
// sends NewValidBlock{Total:1, BlockParts:{Bits:1, Elems:[]}}: the message is accepted, the array becomes the peer's
// ProposalBlockParts, and the node's own gossipDataRoutine (started with a bare `go` in Reactor.AddPeer, no recover)
// indexes Elems[-1] in BitArray.PickRandom: the whole node process dies. Two unauthenticated messages of <50 bytes.
func TestRegressBitArrayKillsGossipRoutine(t *testing.T) {
	ft := tfail{t}
	e := newConsEnv(ft, 4, 3, -1, 1)
	defer e.close()
	p := newPeer(false)
	e.addPeer(p)
	send := func(ch byte, b []byte, what string) {
		o := deliver(ft, e.sw, e.conR, ch, p, b, what)
		if o.panicked || o.dropped {
			t.Fatalf("%s was rejected (panic=%v): the scenario needs it accepted", what, o.panicVal)
		}
	}
	send(consensus.StateChannel, wrapCons(&tmcons.NewRoundStep{Height: e.h - 1, Round: 0, Step: 3, LastCommitRound: 0}), "NewRoundStep")
	nvb := wrapCons(&tmcons.NewValidBlock{Height: e.h - 1, Round: 0, BlockPartSetHeader: tmproto.PartSetHeader{Total: 1, Hash: b32(4)},
		BlockParts: &tmbits.BitArray{Bits: 1}, IsCommit: true})
	o := deliver(ft, e.sw, e.conR, consensus.StateChannel, p, nvb, "NewValidBlock")
	if o.panicked || o.dropped {
		return // rejected at the door: repaired
	}
	e.settle(p)
	if pn := e.routinePanic(); pn != "" {
		if lib.IsKnown(findBitArray) {
			lib.ObservedKnown(findBitArray)
			return
		}
		t.Fatalf("PROCESS DEATH: NewValidBlock with a bit array of 1 bit and 0 elements from a lagging peer (%d bytes, no authentication) made the node's gossipDataRoutine panic:\n%s", len(nvb), firstLines(pn, 14))
	}
}

// TestRegressProposalTotalAlloc — replay of finding C17-proposal-part-total-unbounded-alloc.
//
// Reactor.Receive calls PeerState.SetHasProposal BEFORE the proposal's signature is checked by the state machine, and
// SetHasProposal allocates bits.NewBitArray(int(PartSetHeader.Total)). Nothing bounds Total (up to 2^32-1 = 512 MiB
// of bit array) — NewValidBlockMessage.ValidateBasic does bound it by types.MaxBlockPartsCount. One ~170-byte
// message with a garbage signature per (height, round) the peer announces.
func TestRegressProposalTotalAlloc(t *testing.T) {
	ft := tfail{t}
	e := newConsEnv(ft, 4, 2, -1, 1)
	defer e.close()
	p := newPeer(false)
	e.addPeer(p)
	deliver(ft, e.sw, e.conR, consensus.StateChannel, p, wrapCons(&tmcons.NewRoundStep{Height: e.h, Round: 0, Step: 3, LastCommitRound: 0}), "NewRoundStep")
	const total = 1 << 28 // 32 MiB of bit array; 2^32-1 works the same and costs 512 MiB
	prop := tmproto.Proposal{Type: tmproto.ProposalType, Height: e.h, Round: 0, PolRound: -1, Timestamp: time.Unix(1_700_000_100, 0).UTC(),
		BlockID: tmproto.BlockID{Hash: b32(1), PartSetHeader: tmproto.PartSetHeader{Total: total, Hash: b32(2)}}, Signature: fill(3, 64)}
	msg := wrapCons(&tmcons.Proposal{Proposal: prop})
	o := deliver(ft, e.sw, e.conR, consensus.DataChannel, p, msg, "Proposal")
	if o.alloc > allocBound(consMaxMsgSize) {
		if lib.IsKnown(findProposalTotal) {
			lib.ObservedKnown(findProposalTotal)
			return
		}
		t.Fatalf("ALLOCATION: a %d-byte Proposal with a garbage signature and PartSetHeader.Total=%d made the node allocate %d bytes for that peer (channel capacity %d)",
			len(msg), total, o.alloc, consMaxMsgSize)
	}
}

// TestRegressStatesyncChunkCount — replay of finding C17-statesync-snapshot-chunk-count-presizes-maps.
//
// newChunkQueue sizes four maps with make(map, snapshot.Chunks) where Chunks is the number a peer ADVERTISED in a
// SnapshotsResponse; it runs before the light client has verified anything about the snapshot. 2^22 chunks cost
// ~500 MB; 2^32-1 is a ~190 GB request that kills the node with "out of memory" while it is state syncing.
func TestRegressStatesyncChunkCount(t *testing.T) {
	ft := tfail{t}
	e, r, _ := newStatesyncEnv(ft)
	defer e.close()
	p := e.addPeer(false)
	r.VerifC17BeginSync(&failingProvider{})
	msg := wrap(&ssproto.SnapshotsResponse{Height: 9, Format: 1, Chunks: 1 << 22, Hash: b32(1)})
	o := deliver(ft, e.sw, r, statesync.SnapshotChannel, p, msg, "SnapshotsResponse")
	if o.panicked || o.dropped {
		return
	}
	s := measured(func() { _, _, _ = r.VerifC17FinishSync() })
	if s.alloc > 2*allocBound(e.caps[statesync.SnapshotChannel]) {
		if lib.IsKnown(findStatesyncChunks) {
			lib.ObservedKnown(findStatesyncChunks)
			return
		}
		t.Fatalf("ALLOCATION: a %d-byte SnapshotsResponse advertising %d chunks made the syncing node allocate %d bytes before verifying anything", len(msg), 1<<22, s.alloc)
	}
}

func firstLines(s string, n int) string {
	l := strings.Split(s, "\n")
	if len(l) > n {
		l = l[:n]
	}
	return strings.Join(l, "\n")
}

// -----------------------------------------------------------------------------------------------------------------
// A panic inside Receive must cost the peer, not the process: through the REAL MConnection receive routine.

// TestWirePanicDropsPeerOnly sends undecodable bytes to every reactor through a real MConnection whose onReceive is
// the reactor's Receive (what p2p.peer wires up). Reactor.Receive panics on such input by design; MConnection's
// recvRoutine recovers and reports a peer error. Without that recover the process dies — so the scenario runs in a
// child process and the parent judges the exit.
func TestWirePanicDropsPeerOnly(t *testing.T) {
	cmd := exec.Command(os.Args[0], "-test.run", "^TestWireChild$", "-test.timeout", "120s")
	cmd.Env = append(os.Environ(), "C17_WIRE_CHILD=1", "VERIF_STATS_OUT=")
	out, err := cmd.CombinedOutput()
	s := string(out)
	n := strings.Count(s, "CHILD-DROPPED")
	lib.Case("TestWirePanicDropsPeerOnly", lib.FP(n), n > 0, fmt.Sprintf("reactors-dropping-peer:%d", n))
	if strings.Contains(s, "VERIF-INFRA") {
		t.Fatalf("VERIF-INFRA: child: %s", lastLines(s, 20))
	}
	if err != nil || !strings.Contains(s, "CHILD-OK") {
		t.Fatalf("PROCESS DEATH: undecodable bytes from a peer, delivered through MConnection to Reactor.Receive, took the whole process down (%v):\n%s", err, lastLines(s, 40))
	}
	if n != 7 {
		t.Fatalf("expected 7 reactors to drop the peer, got %d:\n%s", n, lastLines(s, 40))
	}
}

func TestWireChild(t *testing.T) {
	if os.Getenv("C17_WIRE_CHILD") == "" {
		t.Skip("helper process of TestWirePanicDropsPeerOnly")
	}
	ft := tfail{t}
	type target struct {
		name string
		r    p2p.Reactor
		sw   *p2p.Switch
		ch   byte
	}
	var ts []target
	ce := newConsEnv(ft, 4, 1, -1, 1)
	defer ce.close()
	ts = append(ts, target{"consensus", ce.conR, ce.sw, consensus.DataChannel})
	for _, v := range []string{"v0", "v1"} {
		mcfg := cfg.DefaultMempoolConfig()
		mcfg.Version = v
		me := newMempoolEnv(ft, v, mcfg)
		defer me.close()
		ts = append(ts, target{"mempool-" + v, me.r, me.sw, 0x30})
	}
	ee, _, _ := newEvidenceEnv(ft, 2)
	defer ee.close()
	ts = append(ts, target{"evidence", ee.r, ee.sw, 0x38})
	be, _ := newBlockchainEnv(ft, 2, false)
	defer be.close()
	ts = append(ts, target{"blockchain", be.r, be.sw, 0x40})
	se, _, _ := newStatesyncEnv(ft)
	defer se.close()
	ts = append(ts, target{"statesync", se.r, se.sw, 0x60})
	pe, _, _ := newPexEnv(ft, false, true)
	defer pe.close()
	ts = append(ts, target{"pex", pe.r, pe.sw, 0x00})

	for _, tg := range ts {
		p := newPeer(false)
		tg.r.InitPeer(p)
		p2p.AddPeerToSwitchPeerSet(tg.sw, p)
		descs := tg.r.GetChannels()
		c1, c2 := net.Pipe()
		var mu sync.Mutex
		var perr interface{}
		errc := make(chan struct{}, 1)
		mcfg := conn.DefaultMConnConfig()
		mcfg.SendRate, mcfg.RecvRate, mcfg.FlushThrottle = 0, 0, time.Millisecond
		// p2p.createMConnection: onReceive -> reactor.Receive, onError -> switch.StopPeerForError
		recv := conn.NewMConnectionWithConfig(c2, descs, func(chID byte, b []byte) { tg.r.Receive(chID, p, b) },
			func(r interface{}) {
				mu.Lock()
				perr = r
				mu.Unlock()
				tg.sw.StopPeerForError(p, r)
				errc <- struct{}{}
			}, mcfg)
		send := conn.NewMConnectionWithConfig(c1, descs, func(byte, []byte) {}, func(interface{}) {}, mcfg)
		recv.SetLogger(nopLogger)
		send.SetLogger(nopLogger)
		if err := recv.Start(); err != nil {
			t.Fatal(err)
		}
		if err := send.Start(); err != nil {
			t.Fatal(err)
		}
		if !send.Send(tg.ch, []byte{0xff, 0xff, 0xff, 0xff, 0xff, 0xff, 0xff, 0xff, 0xff, 0x01}) {
			t.Fatalf("VERIF-INFRA: send refused")
		}
		select {
		case <-errc:
		case <-time.After(receiveWait):
			t.Fatalf("VERIF-INFRA: %s: no peer error %v after undecodable bytes", tg.name, receiveWait)
		}
		mu.Lock()
		fmt.Printf("CHILD-DROPPED %s: peer running=%v err=%.80v\n", tg.name, p.BaseService.IsRunning(), perr)
		mu.Unlock()
		if p.BaseService.IsRunning() {
			t.Fatalf("%s: peer still running after its Receive panicked", tg.name)
		}
		send.Stop() //nolint
		recv.Stop() //nolint
	}
	fmt.Println("CHILD-OK")
}

// TestRegressPrecommitBeforeFirstHeight — replay of finding C17-precommit-before-first-height.
//
// A node at the chain's first height waits in RoundStepNewHeight (until genesis time / the commit timeout) with
// cs.LastCommit == nil. State.addVote treats any precommit with Height+1 == cs.Height as "a precommit for the previous
// height" and calls cs.LastCommit.AddVote(vote): (*VoteSet)(nil).AddVote panics, the receive routine recovers into
// "CONSENSUS FAILURE" and consensus of that node stays halted. One unauthenticated Vote message (height
// InitialHeight-1, which is 0 on an ordinary chain and passes Vote.ValidateBasic) from any peer.
func TestRegressPrecommitBeforeFirstHeight(t *testing.T) {
	for _, initial := range []int64{1, 7} {
		ft := tfail{t}
		e := newConsEnv(ft, 4, 0, -1, initial)
		p := newPeer(false)
		e.addPeer(p)
		if st := e.cs.GetRoundState(); st.Height != initial || st.Step.String() != "RoundStepNewHeight" {
			t.Fatalf("harness: node not at (first height, NewHeight): %d %v", st.Height, st.Step)
		}
		v := &tmproto.Vote{Type: tmproto.PrecommitType, Height: initial - 1, Round: 0, Timestamp: time.Unix(1_700_000_000, 0).UTC(),
			ValidatorAddress: fill(1, 20), ValidatorIndex: 0, Signature: fill(2, 64)}
		msg := wrapCons(&tmcons.Vote{Vote: v})
		o := deliver(ft, e.sw, e.conR, consensus.VoteChannel, p, msg, "Vote")
		alive := e.barrier()
		if !alive {
			abandonAfter(e.close)
			if lib.IsKnown(findFirstHeightPrecommit) {
				lib.ObservedKnown(findFirstHeightPrecommit)
				continue
			}
			t.Fatalf("CONSENSUS FAILURE: a %d-byte precommit for height %d (= InitialHeight-1, garbage signature) from a peer, received while the node waits in NewHeight of its first height %d, killed the consensus receive routine (peer dropped=%v)",
				len(msg), initial-1, initial, o.dropped)
		}
		e.close()
	}
}

const findMempoolIDLeak = "C17-mempool-peer-id-leak-on-duplicate-initpeer"

// TestRegressMempoolPeerIDLeak — replay of finding C17-mempool-peer-id-leak-on-duplicate-initpeer.
//
// Switch.addPeer calls InitPeer on every reactor BEFORE it adds the peer to the peer set; when a connection with the
// same node id is already there (we dial X while X dials us) the Add fails and the switch drops the second connection
// without calling RemovePeer. mempoolIDs.ReserveForPeer hands out a fresh id on every InitPeer and overwrites the map
// entry, Reclaim frees only the id currently mapped: each such event leaks one of the 65535 ids for the life of the
// process, and when they run out nextPeerID panics inside InitPeer on the accept / dial goroutine (no recover).
func TestRegressMempoolPeerIDLeak(t *testing.T) {
	for _, v := range []string{"v0", "v1"} {
		mcfg := cfg.DefaultMempoolConfig()
		mcfg.Version = v
		e := newMempoolEnv(tfail{t}, v, mcfg)
		active := func() int {
			switch r := e.r.(type) {
			case interface{ VerifC17ActivePeerIDs() int }:
				return r.VerifC17ActivePeerIDs()
			}
			t.Fatalf("harness: no id accessor")
			return 0
		}
		base := active()
		for i := 0; i < 5; i++ {
			p := newPeer(false)
			dup := newPeer(true)
			dup.id, dup.addr.ID = p.id, p.id // the same node, second connection
			e.r.InitPeer(p)
			p2p.AddPeerToSwitchPeerSet(e.sw, p)
			e.r.AddPeer(p)
			e.r.InitPeer(dup)          // Switch.addPeer of the losing connection gets this far ...
			dup.Stop()                 //nolint // ... then fails on the duplicate id and only cleans the connection up
			e.sw.StopPeerGracefully(p) // later the node disconnects: RemovePeer
		}
		e.close()
		if got := active(); got != base {
			if lib.IsKnown(findMempoolIDLeak) {
				lib.ObservedKnown(findMempoolIDLeak)
				continue
			}
			t.Fatalf("mempool %s: after 5 connect / duplicate-connect / disconnect rounds of nodes that are all gone, %d peer ids are still reserved (%d before): one id leaks per duplicate connection; at 65535 InitPeer panics on the switch's accept routine", v, got, base)
		}
	}
}
