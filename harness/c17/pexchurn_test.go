// C17 (b) — the PEX reactor's address book under churn: peers from different networks (/16 groups) advertise
// overlapping sets of addresses (so that addresses end up referenced from several buckets), advertised nodes connect,
// behave, misbehave and get banned, are marked good, are removed — all through the reactor's and the switch's ordinary
// entry points. After every step the book must still answer (Size / GetSelection / GetSelectionWithBias / PickAddress are
// what PexRequest handling and the bare ensurePeers / crawl routines call: a panic there disconnects the honest asker or
// kills the process), a first PexRequest from a fresh honest peer must be answered, and the book's size must equal the
// number of addresses it says it has.
package c17

import (
	"fmt"
	"net"
	"testing"
	"time"

	"pgregory.net/rapid"

	"github.com/tendermint/tendermint/p2p"
	"github.com/tendermint/tendermint/p2p/pex"
	tmp2p "github.com/tendermint/tendermint/proto/tendermint/p2p"

	"verif/lib"
)

type pexNode struct {
	addr *p2p.NetAddress
	peer *hpeer // connected right now (nil otherwise)
}

func pexBookChurn(t failer, test string, seedMode, strict bool, nGroups, nTargets, steps int, draw func(label string, n int) int) {
	e, book, r := newPexEnv(t, seedMode, strict)
	defer e.closeChecked(t)
	// the universe of addresses this case ever mentions: advertised nodes ("targets") + the advertising peers themselves
	universe := map[p2p.ID]*p2p.NetAddress{}
	for i := 0; i < 5; i++ { // the honest entries newPexEnv seeds
		a := p2p.NewNetAddressIPPort([]byte{7, 7, byte(i), 1}, 26656)
		a.ID = p2p.ID(fmt.Sprintf("%040x", 0xabc000+i))
		universe[a.ID] = a
	}
	targets := make([]*pexNode, nTargets)
	for i := range targets {
		a := p2p.NewNetAddressIPPort(net.IPv4(21, byte(i+1), 1, byte(i+1)), 26656)
		a.ID = p2p.ID(fmt.Sprintf("%040x", 0x7a0000+i))
		targets[i] = &pexNode{addr: a}
		universe[a.ID] = a
	}
	connect := func(ip net.IP, id p2p.ID, outbound bool) *hpeer {
		p := newPeerAt(outbound, ip)
		if id != "" {
			p.id, p.addr.ID = id, id
		}
		universe[p.id] = p.addr
		must(t, e.name+": InitPeer+AddPeer (Switch.addPeer)", func() {
			e.peers = append(e.peers, p)
			e.r.InitPeer(p)
			p2p.AddPeerToSwitchPeerSet(e.sw, p)
			e.r.AddPeer(p)
		})
		return p
	}
	check := func(after string) {
		has := 0
		for _, a := range universe {
			if book.HasAddress(a) {
				has++
			}
		}
		var sz int
		must(t, e.name+": AddrBook.Size", func() { sz = book.Size() })
		if sz != has {
			t.Fatalf("%s: after %s the address book says Size()=%d but holds %d of the addresses it was ever given — its counters have drifted (GetSelection sizes its result by Size(), PickAddress panics on a negative size)",
				e.name, after, sz, has)
		}
		must(t, e.name+": AddrBook.Size/GetSelection/GetSelectionWithBias/PickAddress after "+after+" (PexRequest handling, ensurePeers and crawl routines call these)", func() {
			book.Size()
			book.GetSelection()
			book.GetSelectionWithBias(30)
			book.PickAddress(50)
			book.Empty()
		})
		// an honest newcomer asks for addresses: must be served, not dropped
		p := connect(net.IPv4(31, byte(draw("asker.g", 200)), 1, 1), "", false)
		o := deliver(t, e.sw, e.r, pex.PexChannel, p, wrap(&tmp2p.PexRequest{}), "PexRequest")
		if o.panicked {
			t.Fatalf("%s: after %s an honest peer's first PexRequest blew up inside the reactor (the asker gets disconnected for it): %v", e.name, after, o.panicVal)
		}
		if p.sentCount() == 0 && !seedMode {
			t.Fatalf("%s: after %s an honest peer's first PexRequest was not answered", e.name, after)
		}
		must(t, e.name+": RemovePeer", func() { e.sw.StopPeerGracefully(p) })
	}
	check("start-up")
	var advertisers []*hpeer
	for s := 0; s < steps; s++ {
		switch act := []string{"advertise", "advertise", "advertise", "advertise", "target-connects-and-misbehaves", "target-marked-good", "remove-address", "advertiser-misbehaves"}[draw("action", 8)]; act {
		case "advertise":
			// a peer from network g answers our request with a list that contains some of the targets
			g := draw("group", nGroups)
			p := connect(net.IPv4(byte(40+g), byte(g+1), byte(draw("host", 250)), 9), "", true)
			advertisers = append(advertisers, p)
			r.RequestAddrs(p)
			var list []tmp2p.NetAddress
			for i, tg := range targets {
				if draw(fmt.Sprintf("adv%d", i), 3) > 0 {
					list = append(list, tmp2p.NetAddress{ID: string(tg.addr.ID), IP: tg.addr.IP.String(), Port: uint32(tg.addr.Port)})
				}
			}
			o := deliver(t, e.sw, e.r, pex.PexChannel, p, wrap(&tmp2p.PexAddrs{Addrs: list}), "PexAddrs(solicited)")
			if o.panicked {
				t.Fatalf("%s: a solicited address list blew up inside the reactor: %v", e.name, o.panicVal)
			}
			check(act)
		case "target-connects-and-misbehaves":
			// an advertised node connects to us and sends an unsolicited list: it is banned (MarkBad)
			tg := targets[draw("target", nTargets)]
			p := connect(tg.addr.IP, tg.addr.ID, false)
			deliver(t, e.sw, e.r, pex.PexChannel, p, wrap(&tmp2p.PexAddrs{Addrs: []tmp2p.NetAddress{{ID: fmt.Sprintf("%040x", 5), IP: "22.1.1.1", Port: 1}}}), "PexAddrs(unsolicited)")
			if p.BaseService.IsRunning() {
				t.Fatalf("%s: the sender of an unsolicited address list was not disconnected", e.name)
			}
			check(act)
		case "target-marked-good":
			// an advertised node connects and behaves: the node marks it good (what consensus' peerStatsRoutine does)
			tg := targets[draw("target", nTargets)]
			p := connect(tg.addr.IP, tg.addr.ID, draw("outbound", 2) == 1)
			must(t, e.name+": Switch.MarkPeerAsGood", func() { e.sw.MarkPeerAsGood(p) })
			must(t, e.name+": RemovePeer", func() { e.sw.StopPeerGracefully(p) })
			check(act)
		case "remove-address":
			// what the switch does when dialing an address fails authentication / turns out to be itself
			tg := targets[draw("target", nTargets)]
			must(t, e.name+": AddrBook.RemoveAddress", func() { book.RemoveAddress(tg.addr) })
			check(act)
		case "advertiser-misbehaves":
			if len(advertisers) == 0 {
				continue
			}
			p := advertisers[draw("which", len(advertisers))]
			if !p.BaseService.IsRunning() {
				continue
			}
			deliver(t, e.sw, e.r, pex.PexChannel, p, wrap(&tmp2p.PexAddrs{}), "PexAddrs(unsolicited)")
			check(act)
		}
	}
	e.probe(t)
	_ = time.Second
}

func TestPexBookChurn(t *testing.T) {
	rapid.Check(t, func(t *rapid.T) {
		newCase()
		seedMode, strict := rapid.Bool().Draw(t, "seedmode"), rapid.Bool().Draw(t, "strict")
		nGroups := rapid.IntRange(2, 8).Draw(t, "groups")
		nTargets := rapid.IntRange(1, 4).Draw(t, "targets")
		steps := rapid.IntRange(5, 40).Draw(t, "steps")
		lib.Case("TestPexBookChurn", lib.FP(seedMode, strict, nGroups, nTargets, steps), nGroups >= 2 && steps >= 5, fmt.Sprintf("seed:%v", seedMode), fmt.Sprintf("groups:%d", nGroups))
		pexBookChurn(t, "TestPexBookChurn", seedMode, strict, nGroups, nTargets, steps, func(label string, n int) int { return rapid.IntRange(0, n-1).Draw(t, label) })
	})
}
