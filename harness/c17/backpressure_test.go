// C17 (b) — back-pressure: bursts from several peers while the consensus state machine is NOT draining its input queue.
//
// The reactor hands proposals, block parts and votes to the state machine through a bounded queue (1000 slots); when it
// is full, the delivering peer's receive routine waits — that is the design: a full queue slows the SENDING peers down
// and nothing else. Here the consumer is stalled the way a slow disk stalls it (every input is written to the WAL
// before it is handled; the harness puts a gate in front of the real WAL), two or three peers deliver more than the
// queue holds, concurrently, and then the disk answers again. Everything must drain: every delivery returns, the
// state machine is idle again, its state is what it was (the input was junk), and the liveness probes pass.
package c17

import (
	"fmt"
	"sync/atomic"
	"testing"
	"time"

	"pgregory.net/rapid"

	"github.com/tendermint/tendermint/consensus"
	tmcons "github.com/tendermint/tendermint/proto/tendermint/consensus"
	tmcrypto "github.com/tendermint/tendermint/proto/tendermint/crypto"
	tmproto "github.com/tendermint/tendermint/proto/tendermint/types"

	"verif/lib"
)

type burstPlan struct {
	kind string // Vote | Proposal | BlockPart
	n    int
}

func burstMsg(e *consEnv, kind string, peerNo, i int, round int32) (byte, []byte) {
	switch kind {
	case "Proposal":
		return consensus.DataChannel, wrapCons(&tmcons.Proposal{Proposal: tmproto.Proposal{Type: tmproto.ProposalType, Height: e.h, Round: round, PolRound: -1,
			Timestamp: time.Unix(1_700_000_100, 0).UTC(), Signature: fill(uint64(i), 64),
			BlockID: tmproto.BlockID{Hash: b32(uint64(peerNo*100000 + i)), PartSetHeader: tmproto.PartSetHeader{Total: 1, Hash: b32(2)}}}})
	case "BlockPart":
		return consensus.DataChannel, wrapCons(&tmcons.BlockPart{Height: e.h, Round: round, Part: tmproto.Part{Index: uint32(i % 3), Bytes: fill(uint64(i), 64),
			Proof: tmcrypto.Proof{Total: 3, Index: int64(i % 3), LeafHash: b32(uint64(i))}}})
	default:
		val := e.chain.State.Validators.Validators[(peerNo+i)%e.nVals]
		typ := tmproto.PrevoteType
		if i%2 == 1 {
			typ = tmproto.PrecommitType
		}
		return consensus.VoteChannel, wrapCons(&tmcons.Vote{Vote: &tmproto.Vote{Type: typ, Height: e.h, Round: round, Timestamp: time.Unix(1_700_000_100, 0).UTC(),
			ValidatorAddress: val.Address, ValidatorIndex: int32((peerNo + i) % e.nVals), Signature: fill(uint64(peerNo*100000+i), 64)}})
	}
}

// backpressureCase runs the scenario on e (started, driven into its state) and returns how many deliveries were parked
// on the full queue when the disk came back.
func backpressureCase(t failer, e *consEnv, plans []burstPlan) (parked int) {
	if !e.barrier() {
		t.Fatalf("harness: node not alive")
	}
	before := e.ownStateChecked()
	round := e.cs.GetRoundState().Round
	gate := e.installGate()
	lcr := int32(0)
	if e.h == e.chain.Spec.InitialHeight {
		lcr = -1
	}
	type sender struct {
		p     *hpeer
		ps    *consensus.PeerState
		sent  int64
		gid   int64
		done  chan struct{}
		panic interface{}
	}
	senders := make([]*sender, len(plans))
	for k := range plans {
		s := &sender{p: newPeer(false), done: make(chan struct{})}
		must(t, "consensus: InitPeer+AddPeer for a new connection (Switch.addPeer)", func() { s.ps = e.addPeer(s.p) })
		deliver(t, e.sw, e.conR, consensus.StateChannel, s.p, wrapCons(&tmcons.NewRoundStep{Height: e.h, Round: round, Step: 3, LastCommitRound: lcr}), "NewRoundStep")
		senders[k] = s
	}
	gate.shut() // the disk stops answering
	for k, s := range senders {
		go func(k int, s *sender) {
			defer close(s.done)
			defer func() {
				if r := recover(); r != nil { // MConnection._recover: this peer is dropped
					s.panic = r
					e.sw.StopPeerForError(s.p, fmt.Errorf("recovered from panic: %v", r))
				}
			}()
			atomic.StoreInt64(&s.gid, curGoroutineID())
			for i := 0; i < plans[k].n && s.p.BaseService.IsRunning(); i++ {
				ch, b := burstMsg(e, plans[k].kind, k, i, round)
				e.conR.Receive(ch, s.p, b)
				atomic.AddInt64(&s.sent, 1)
			}
		}(k, s)
	}
	isDone := func(s *sender) bool {
		select {
		case <-s.done:
			return true
		default:
			return false
		}
	}
	// wait until nothing moves any more: every sender has finished or is parked on the full queue
	cal.reset()
	deadline := time.Now().Add(probeWait)
	var last int64 = -1
	stable := 0
	for stable < 25 {
		var total int64
		for _, s := range senders {
			total += atomic.LoadInt64(&s.sent)
		}
		if total == last {
			stable++
		} else {
			stable, last = 0, total
		}
		if time.Now().After(deadline) {
			t.Fatalf("VERIF-INFRA: the bursts did not come to rest within %v (worst calibration gap %v)", probeWait, cal.worstGap())
		}
		time.Sleep(time.Millisecond)
	}
	for _, s := range senders {
		if !isDone(s) {
			parked++
		}
	}
	qlen, _ := e.cs.VerifQueueLens()
	// while the disk is stalled the node can still be inspected (the state machine holds no lock while it waits for it)
	must(t, "consensus: State.GetRoundState while the WAL write is stalled", func() { e.cs.GetRoundState() })
	gate.open() // the disk answers again
	cal.reset()
	for k, s := range senders {
		tm := time.NewTimer(bound())
		select {
		case <-s.done:
			tm.Stop()
		case <-tm.C:
			stallVerdict(t, fmt.Sprintf("Receive(%s) of peer %d — delivery %d of %d, parked on the full input queue (%d queued) while the state machine was stalled by its disk; the disk has answered again, so it",
				plans[k].kind, k, atomic.LoadInt64(&s.sent)+1, plans[k].n, qlen), atomic.LoadInt64(&s.gid), bound())
		}
	}
	if !e.barrier() {
		t.Fatalf("CONSENSUS FAILURE: the consensus receive routine died while draining the bursts")
	}
	if after := e.ownStateChecked(); after != before {
		t.Fatalf("node's own consensus state changed by bursts of unauthenticated messages:\nbefore %s\nafter  %s", before, after)
	}
	for _, s := range senders {
		if s.p.BaseService.IsRunning() {
			e.settle(s.p)
		}
	}
	if pn := e.routinePanic(); pn != "" {
		t.Fatalf("PROCESS DEATH: a per-peer routine panicked after the bursts\n%s", pn)
	}
	e.probe(senders[0].ps)
	return parked
}

func TestConsensusBackpressure(t *testing.T) {
	rapid.Check(t, func(t *rapid.T) {
		newCase()
		nVals := 4
		e := newConsEnv(t, nVals, rapid.SampledFrom([]int{0, 1, 2}).Draw(t, "blocks"), rapid.SampledFrom([]int{-1, 0}).Draw(t, "nodeval"), 1)
		defer func() {
			e.closeChecked()
			if !wedged() {
				checkNoLeak(t, e.before, "consensus")
			}
		}()
		state := rapid.SampledFrom([]string{"newheight", "propose-empty", "proposal", "prevotes"}).Draw(t, "nodestate")
		e.drive(state)
		nPeers := rapid.SampledFrom([]int{2, 2, 3}).Draw(t, "peers")
		plans := make([]burstPlan, nPeers)
		total := 0
		for k := range plans {
			plans[k] = burstPlan{kind: rapid.SampledFrom([]string{"Vote", "Vote", "Vote", "Proposal", "BlockPart"}).Draw(t, "kind"),
				n: rapid.SampledFrom([]int{300, 700, 1001, 1500}).Draw(t, "n")}
			total += plans[k].n
		}
		if total <= 1100 { // the point is to exceed the queue
			plans[0].n += 1101 - total
		}
		parked := backpressureCase(t, e, plans)
		lib.Case("TestConsensusBackpressure", lib.FP(state, plans), parked >= 1, "node:"+state, fmt.Sprintf("peers:%d", nPeers), fmt.Sprintf("parked-deliveries:%d", parked))
	})
}

// TestDirectedVoteBurstWhileDiskStalls: two peers, 1100 junk votes each, state machine stalled by its disk meanwhile.
func TestDirectedVoteBurstWhileDiskStalls(t *testing.T) {
	ft := tfail{t}
	e := newConsEnv(ft, 4, 1, 0, 1)
	defer e.closeChecked()
	e.drive("propose-empty")
	parked := backpressureCase(ft, e, []burstPlan{{"Vote", 1100}, {"Vote", 1100}})
	lib.Case("TestDirectedVoteBurstWhileDiskStalls", lib.FP(1), parked >= 2, fmt.Sprintf("parked-deliveries:%d", parked))
	if parked < 2 {
		t.Fatalf("harness: expected both peers parked on the full queue, got %d", parked)
	}
}
