package c17

import (
	"fmt"
	"os"
	"path/filepath"
	"strconv"
	"strings"
	"sync"
	"testing"

	"verif/lib"
)

// Scratch space. WAL files are fsynced on every vote of the node; on a memory-backed file system that costs
// microseconds instead of tens of milliseconds, so the scratch root is /dev/shm/verif-c17-p<pid> when /dev/shm
// exists (else $TMPDIR). The root is removed when the test process ends; roots of processes that were killed are
// swept by the next C17 process that starts.
var (
	scratchOnce sync.Once
	scratchRoot string
)

const scratchPrefix = "verif-c17-p"

func scratch() string {
	scratchOnce.Do(func() {
		base := os.TempDir()
		if st, err := os.Stat("/dev/shm"); err == nil && st.IsDir() {
			base = "/dev/shm"
		}
		scratchRoot = filepath.Join(base, fmt.Sprintf("%s%d", scratchPrefix, os.Getpid()))
		if err := os.MkdirAll(scratchRoot, 0o700); err != nil {
			scratchRoot, _ = os.MkdirTemp("", scratchPrefix)
		}
	})
	return scratchRoot
}

func sweepStaleScratch() {
	for _, base := range []string{"/dev/shm", os.TempDir()} {
		ents, err := os.ReadDir(base)
		if err != nil {
			continue
		}
		for _, e := range ents {
			if !strings.HasPrefix(e.Name(), scratchPrefix) {
				continue
			}
			pid, err := strconv.Atoi(strings.TrimPrefix(e.Name(), scratchPrefix))
			if err != nil || pid == os.Getpid() {
				continue
			}
			if _, err := os.Stat(fmt.Sprintf("/proc/%d", pid)); os.IsNotExist(err) {
				os.RemoveAll(filepath.Join(base, e.Name()))
			}
		}
	}
}

func TestMain(m *testing.M) {
	sweepStaleScratch()
	code := m.Run()
	closeFuzzEnvs()
	if scratchRoot != "" {
		os.RemoveAll(scratchRoot)
	}
	lib.Flush()
	os.Exit(code)
}
