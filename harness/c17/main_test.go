package c17

import (
	"testing"

	"verif/lib"
)

func TestMain(m *testing.M) { lib.Main(m) }
