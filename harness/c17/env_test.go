// C17 (b) — common machinery of the hostile-input checks: peer double, real Switch over a no-op transport, the
// Receive wrapper (recover where MConnection._recover would, allocation accounting, wedge watchdog), goroutine
// accounting.
package c17

import (
	"bytes"
	"fmt"
	"net"
	"os"
	"regexp"
	"runtime"
	"sort"
	"strings"
	"sync"
	"sync/atomic"
	"testing"
	"time"

	cfg "github.com/tendermint/tendermint/config"
	"github.com/tendermint/tendermint/libs/service"
	"github.com/tendermint/tendermint/p2p"
	tmconn "github.com/tendermint/tendermint/p2p/conn"

	"verif/lib"
)

// -----------------------------------------------------------------------------------------------------------------
// failing: rapid.T and testing.T/F both satisfy this

type failer interface {
	Fatalf(format string, args ...interface{})
	Logf(format string, args ...interface{})
}

// -----------------------------------------------------------------------------------------------------------------
// peer double

var peerSeq int64

// hpeer is the peer double handed to reactors. It is a running service (so that Switch.StopPeerForError stops it),
// accepts every Send, counts what the node sends to it and counts how often each per-peer gossip routine polls it
// (the harness uses those polls as a "the routine has looped again" barrier).
type hpeer struct {
	*service.BaseService
	id       p2p.ID
	addr     *p2p.NetAddress
	outbound bool

	mu        sync.Mutex
	kv        map[string]interface{}
	sent      map[byte]int
	sentBytes int

	pollData, pollVotes, pollMaj23 int64
}

func newPeer(outbound bool) *hpeer {
	n := atomic.LoadInt64(&peerSeq) + 1
	return newPeerAt(outbound, net.IPv4(8, byte(n>>16), byte(n>>8), byte(n))) // routable
}

// newPeerAt: a peer connecting from the given address (the /16 of a peer decides which address-book buckets its
// advertisements land in).
func newPeerAt(outbound bool, ip net.IP) *hpeer {
	n := atomic.AddInt64(&peerSeq, 1)
	id := p2p.ID(fmt.Sprintf("%040x", n))
	p := &hpeer{id: id, outbound: outbound, kv: map[string]interface{}{}, sent: map[byte]int{}}
	p.addr = p2p.NewNetAddressIPPort(ip, 26656)
	p.addr.ID = id
	p.BaseService = service.NewBaseService(nil, "verif-peer", p)
	if err := p.Start(); err != nil {
		panic(err)
	}
	return p
}

func (p *hpeer) FlushStop()           { p.Stop() } //nolint
func (p *hpeer) ID() p2p.ID           { return p.id }
func (p *hpeer) RemoteIP() net.IP     { return p.addr.IP }
func (p *hpeer) RemoteAddr() net.Addr { return &net.TCPAddr{IP: p.addr.IP, Port: 26656} }
func (p *hpeer) IsOutbound() bool     { return p.outbound }
func (p *hpeer) IsPersistent() bool   { return false }
func (p *hpeer) CloseConn() error     { return nil }
func (p *hpeer) NodeInfo() p2p.NodeInfo {
	return p2p.DefaultNodeInfo{DefaultNodeID: p.id, ListenAddr: p.addr.DialString()}
}
func (p *hpeer) Status() tmconn.ConnectionStatus { return tmconn.ConnectionStatus{} }
func (p *hpeer) SocketAddr() *p2p.NetAddress     { return p.addr }
func (p *hpeer) SetRemovalFailed()               {}
func (p *hpeer) GetRemovalFailed() bool          { return false }

func (p *hpeer) Send(ch byte, b []byte) bool {
	if !p.BaseService.IsRunning() {
		return false
	}
	p.mu.Lock()
	p.sent[ch]++
	p.sentBytes += len(b)
	p.mu.Unlock()
	return true
}
func (p *hpeer) TrySend(ch byte, b []byte) bool { return p.Send(ch, b) }

func (p *hpeer) Set(k string, v interface{}) {
	p.mu.Lock()
	p.kv[k] = v
	p.mu.Unlock()
}
func (p *hpeer) Get(k string) interface{} {
	p.mu.Lock()
	defer p.mu.Unlock()
	return p.kv[k]
}

// IsRunning is what every per-peer routine of the consensus reactor calls at the top of its loop.
func (p *hpeer) IsRunning() bool {
	var pcs [1]uintptr
	if runtime.Callers(2, pcs[:]) == 1 {
		if f := runtime.FuncForPC(pcs[0] - 1); f != nil {
			name := f.Name()
			switch {
			case strings.HasSuffix(name, "gossipDataRoutine"):
				atomic.AddInt64(&p.pollData, 1)
			case strings.HasSuffix(name, "gossipVotesRoutine"):
				atomic.AddInt64(&p.pollVotes, 1)
			case strings.HasSuffix(name, "queryMaj23Routine"):
				atomic.AddInt64(&p.pollMaj23, 1)
			}
		}
	}
	return p.BaseService.IsRunning()
}

func (p *hpeer) sentCount() int {
	p.mu.Lock()
	defer p.mu.Unlock()
	n := 0
	for _, c := range p.sent {
		n += c
	}
	return n
}

// -----------------------------------------------------------------------------------------------------------------
// switch

func newSwitch() *p2p.Switch {
	pc := cfg.DefaultP2PConfig()
	self := p2p.NewNetAddressIPPort(net.IPv4(9, 9, 9, 9), 26656)
	self.ID = p2p.ID(strings.Repeat("ab", 20))
	sw := p2p.VerifC17NewSwitch(pc, *self)
	sw.SetLogger(nopLogger)
	ni := p2p.DefaultNodeInfo{DefaultNodeID: self.ID, ListenAddr: self.DialString(), Network: "verif", Version: "0.34.24", Moniker: "verif"}
	sw.SetNodeInfo(ni)
	return sw
}

// -----------------------------------------------------------------------------------------------------------------
// Receive wrapper

const (
	receiveWait = probeWait
	allocFactor = 16
	allocSlack  = 1 << 20 // fixed slack: bookkeeping, logging arguments, background routines of the node
)

type receiver interface {
	Receive(chID byte, peer p2p.Peer, msgBytes []byte)
}

type recvOutcome struct {
	panicked bool        // Receive panicked: MConnection._recover turns that into a peer error => peer dropped
	panicVal interface{} //
	dropped  bool        // the peer is no longer running afterwards (dropped by StopPeerForError or by the recovered panic)
	alloc    uint64      // bytes allocated while Receive ran (TotalAlloc delta)
}

// deliver calls r.Receive(ch, p, b) the way MConnection.recvRoutine does: on its own goroutine, with a recover that
// turns a panic into "stop this peer for error". The harness waits for it (so the node handles one input at a time and
// the TotalAlloc delta is attributable), with a generous watchdog: a Receive that is still BLOCKED after 20 s is a
// wedge (violation), one that is still running is infrastructure trouble.
func deliver(t failer, sw *p2p.Switch, r receiver, ch byte, p *hpeer, b []byte, what string) recvOutcome {
	cal.reset()
	done := make(chan recvOutcome, 1)
	var gid int64
	go func() {
		var out recvOutcome
		atomic.StoreInt64(&gid, curGoroutineID())
		var m0, m1 runtime.MemStats
		defer func() {
			if rec := recover(); rec != nil {
				out.panicked, out.panicVal = true, rec
				// what conn.MConnection._recover + peer.onError do
				if sw != nil {
					sw.StopPeerForError(p, fmt.Errorf("recovered from panic: %v", rec))
				} else {
					p.Stop() //nolint
				}
			}
			runtime.ReadMemStats(&m1)
			out.alloc = m1.TotalAlloc - m0.TotalAlloc
			done <- out
		}()
		runtime.ReadMemStats(&m0)
		r.Receive(ch, p, b)
	}()
	wait := bound()
	timer := time.NewTimer(wait)
	defer timer.Stop()
	select {
	case out := <-done:
		out.dropped = !p.BaseService.IsRunning()
		return out
	case <-timer.C:
		stallVerdict(t, fmt.Sprintf("Receive(%s) — the peer's receive routine, and with it this reactor's input,", what), atomic.LoadInt64(&gid), wait)
	}
	return recvOutcome{}
}

// checkAlloc is the buffering oracle: bytes allocated while handling ONE message stay below 16x the channel's
// RecvMessageCapacity (+1 MiB).
func allocBound(recvCap int) uint64 { return uint64(allocFactor)*uint64(recvCap) + allocSlack }

// allocPerItem: a message that is a LIST (transactions, pieces of evidence, addresses) legitimately costs some
// short-lived garbage per element while each element is checked (ABCI request/response, hashing, signature
// verification): 4 KiB per element are not counted as buffering. An allocation sized by a NUMBER in the message
// rather than by its content is not covered by this allowance.
const allocPerItem = 4 << 10

func allocBoundItems(recvCap, items int) uint64 {
	return allocBound(recvCap) + uint64(items)*allocPerItem
}

var goidRe = regexp.MustCompile(`^goroutine (\d+) \[([^\],]+)`)

func curGoroutineID() int64 {
	var buf [64]byte
	n := runtime.Stack(buf[:], false)
	m := goidRe.FindSubmatch(buf[:n])
	if m == nil {
		return -1
	}
	var id int64
	fmt.Sscan(string(m[1]), &id)
	return id
}

var (
	stackMu  sync.Mutex
	stackBuf = make([]byte, 256<<10)
)

func allStacks() string {
	stackMu.Lock()
	defer stackMu.Unlock()
	for {
		n := runtime.Stack(stackBuf, true)
		if n < len(stackBuf) {
			return string(stackBuf[:n])
		}
		stackBuf = make([]byte, 2*len(stackBuf))
	}
}

func goroutineState(id int64) (string, string) {
	for _, g := range strings.Split(allStacks(), "\n\n") {
		m := goidRe.FindStringSubmatch(g)
		if m == nil {
			continue
		}
		var gid int64
		fmt.Sscan(m[1], &gid)
		if gid == id {
			return m[2], g
		}
	}
	return "", ""
}

// -----------------------------------------------------------------------------------------------------------------
// goroutine accounting

// goroutineSummary maps "top tendermint frame <- created by" to a count, ignoring the test runner's own goroutines.
func goroutineSummary() (map[string]int, map[string]string) {
	sum := map[string]int{}
	example := map[string]string{}
	for _, g := range strings.Split(allStacks(), "\n\n") {
		lines := strings.Split(g, "\n")
		if len(lines) < 2 {
			continue
		}
		key := ""
		for _, l := range lines[1:] {
			if strings.HasPrefix(l, "\t") {
				continue
			}
			if strings.Contains(l, "tendermint/") || strings.HasPrefix(l, "verif/") || strings.HasPrefix(l, "created by") {
				if key == "" || strings.HasPrefix(l, "created by") {
					fn := l
					if i := strings.Index(fn, "("); i > 0 && !strings.HasPrefix(l, "created by") {
						fn = fn[:i]
					}
					if j := strings.Index(fn, " in goroutine"); j > 0 {
						fn = fn[:j]
					}
					if key == "" {
						key = fn
					} else {
						key += " <- " + fn
					}
				}
			}
		}
		if key == "" || strings.Contains(key, "testing.") || strings.Contains(key, "rapid.") {
			continue
		}
		if !strings.Contains(key, "tendermint/") {
			continue
		}
		if strings.Contains(key, "libs/autofile.") {
			// BaseWAL.OnStop never closes the head AutoFile of its group: two goroutines per stopped WAL stay behind
			// whatever the input was. Independent of peer input, so not this property's business.
			continue
		}
		sum[key]++
		example[key] = g
	}
	return sum, example
}

const leakSettle = 10 * time.Second

// checkNoLeak: after the environment was closed the normal way, no goroutine that runs tendermint code may be left
// over compared to before the environment was built. Polls up to leakSettle (routines notice Quit at their next
// sleep); what is still there after that and is blocked (not sleeping/running) is reported.
func checkNoLeak(t failer, before map[string]int, label string) {
	deadline := time.Now().Add(leakSettle)
	for {
		after, ex := goroutineSummary()
		var extra []string
		for k, n := range after {
			if n > before[k] {
				extra = append(extra, fmt.Sprintf("%dx %s", n-before[k], k))
			}
		}
		if len(extra) == 0 {
			return
		}
		if time.Now().After(deadline) {
			sort.Strings(extra)
			dump := ""
			for k := range after {
				if after[k] > before[k] {
					dump += ex[k] + "\n\n"
				}
			}
			t.Fatalf("%s: goroutines left behind %v after everything was stopped:\n%s\n%s", label, leakSettle, strings.Join(extra, "\n"), dump)
		}
		time.Sleep(2 * time.Millisecond)
	}
}

// -----------------------------------------------------------------------------------------------------------------
// misc

// tmpDir makes a scratch directory under the per-process scratch root (see main_test.go); callers remove it.
func tmpDir(t failer, pat string) string {
	d, err := os.MkdirTemp(scratch(), pat)
	if err != nil {
		t.Fatalf("VERIF-INFRA: %v", err)
	}
	return d
}

func seqInts(n int) []int {
	s := make([]int, n)
	for i := range s {
		s[i] = i
	}
	return s
}

func equalPowers(n int, p int64) []int64 {
	s := make([]int64, n)
	for i := range s {
		s[i] = p
	}
	return s
}

// outcomeClass names what happened to the peer.
func outcomeClass(o recvOutcome) string {
	switch {
	case o.panicked:
		return "peer-dropped:panic-in-receive"
	case o.dropped:
		return "peer-dropped:stopped-for-error"
	default:
		return "accepted-or-ignored"
	}
}

var _ = bytes.Equal
var _ = testing.Short
var _ = lib.Seed
