// C17 (b) — liveness: "never ... wedges the node". Every call the harness makes into a reactor (and every wait on a
// reactor's routine) is bounded; a call that is still BLOCKED after the bound while the machine demonstrably kept
// scheduling goroutines is reported as a wedge (violation) with the blocked frames. After hostile input each reactor's
// ordinary entry points are probed (AddPeer, Receive of a benign message on every channel, the exported calls other
// parts of the node make into it — mempool Lock/Unlock, statesync Sync, ... — and RemovePeer).
package c17

import (
	"fmt"
	"runtime/debug"
	"strings"
	"sync"
	"sync/atomic"
	"time"
)

const (
	probeWait = 12 * time.Second // microseconds are normal
	// The machine "stalled" if a 2 ms sleeper of this process went unscheduled for a third of the bound. (Under a load
	// average of 200 gaps of 0.9 s were observed; a call that needs microseconds of CPU and is parked on a lock for 12 s
	// while the process got the CPU at least every 4 s is not waiting for the CPU.)
	stallGapFraction = 3
)

// ---- calibration: did the machine keep scheduling goroutines? ---------------------------------------------------

type calibrator struct {
	once   sync.Once
	mu     sync.Mutex
	last   time.Time
	maxGap time.Duration
}

var cal calibrator

func (c *calibrator) start() {
	c.once.Do(func() {
		c.last = time.Now()
		go func() {
			for {
				time.Sleep(2 * time.Millisecond)
				now := time.Now()
				c.mu.Lock()
				if g := now.Sub(c.last); g > c.maxGap {
					c.maxGap = g
				}
				c.last = now
				c.mu.Unlock()
			}
		}()
	})
}

// reset starts a new observation window.
func (c *calibrator) reset() {
	c.start()
	c.mu.Lock()
	c.maxGap, c.last = 0, time.Now()
	c.mu.Unlock()
}

// worstGap is the longest time the calibration goroutine went without running in the current window.
func (c *calibrator) worstGap() time.Duration {
	c.mu.Lock()
	defer c.mu.Unlock()
	g := c.maxGap
	if d := time.Since(c.last); d > g {
		g = d
	}
	return g
}

// wedgedFlag is set once a wedge has been reported in the current case: clean-up after that is best effort (it may
// block on the same lock). wedgedOnce stays set for the rest of the process: the violation has been established with
// the generous bound; re-runs of the property (rapid's shrinking, replays) then use a shorter one so that minimising
// the case does not cost 12 s per attempt.
var wedgedFlag, wedgedOnce int32

func wedged() bool { return atomic.LoadInt32(&wedgedFlag) != 0 }

// newCase is called at the start of every generated case.
func newCase() { atomic.StoreInt32(&wedgedFlag, 0) }

func bound() time.Duration {
	if atomic.LoadInt32(&wedgedOnce) != 0 {
		return probeWait / 3
	}
	return probeWait
}

// blockedStates: goroutine wait reasons that mean "waiting for somebody else", as opposed to running or sleeping.
func isBlockedState(s string) bool {
	for _, p := range []string{"semacquire", "sync.Mutex", "sync.RWMutex", "chan send", "chan receive", "select", "sync.Cond", "sync.WaitGroup", "IO wait"} {
		if strings.HasPrefix(s, p) {
			return true
		}
	}
	return false
}

// blockedTendermintGoroutines lists the goroutines that are blocked on a lock inside tendermint code (the other
// victims of a leaked mutex), for the report.
func blockedOnLocks() string {
	var out []string
	for _, g := range strings.Split(allStacks(), "\n\n") {
		m := goidRe.FindStringSubmatch(g)
		if m == nil {
			continue
		}
		if (strings.HasPrefix(m[2], "semacquire") || strings.HasPrefix(m[2], "sync.")) && strings.Contains(g, "tendermint/") {
			out = append(out, firstLines(g, 9))
		}
	}
	if len(out) > 3 {
		out = append(out[:3], fmt.Sprintf("... and %d more", len(out)-3))
	}
	return strings.Join(out, "\n\n")
}

// stallVerdict ends the test after `what` (running on goroutine gid, 0 = unknown / a routine of the node) failed to
// finish within `waited`: a wedge (violation) when the machine was demonstrably alive and the goroutine is blocked,
// infrastructure trouble otherwise.
func stallVerdict(t failer, what string, gid int64, waited time.Duration) {
	gap := cal.worstGap()
	state, stack := "", ""
	if gid > 0 {
		state, stack = goroutineState(gid)
	}
	if gap > waited/stallGapFraction {
		t.Fatalf("VERIF-INFRA: %s not finished after %v, but the machine stalled (calibration goroutine not scheduled for %v)", what, waited, gap)
	}
	if gid > 0 && !isBlockedState(state) {
		t.Fatalf("VERIF-INFRA: %s not finished after %v: still %q (busy, not blocked)\n%s", what, waited, state, firstLines(stack, 20))
	}
	atomic.StoreInt32(&wedgedFlag, 1)
	atomic.StoreInt32(&wedgedOnce, 1)
	t.Fatalf("NODE WEDGED: %s did not return within %v (microseconds are normal; the machine kept scheduling: worst calibration gap %v). Blocked [%s]:\n%s\n\nother goroutines blocked on locks:\n%s",
		what, waited, gap, state, firstLines(stack, 13), blockedOnLocks())
}

// ---- bounded calls ----------------------------------------------------------------------------------------------

type callResult struct {
	panicked bool
	val      interface{}
	stack    string
}

// bounded runs f on its own goroutine (as the node would: the switch's accept routine, a peer's receive routine, the
// node's start-up goroutine ...) and waits for it for at most probeWait.
func bounded(t failer, what string, f func()) callResult {
	cal.reset()
	done := make(chan callResult, 1)
	var gid int64
	go func() {
		atomic.StoreInt64(&gid, curGoroutineID())
		var res callResult
		defer func() {
			if r := recover(); r != nil {
				res = callResult{panicked: true, val: r, stack: string(debug.Stack())}
			}
			done <- res
		}()
		f()
	}()
	wait := bound()
	tm := time.NewTimer(wait)
	defer tm.Stop()
	select {
	case res := <-done:
		return res
	case <-tm.C:
		stallVerdict(t, what, atomic.LoadInt64(&gid), wait)
		return callResult{}
	}
}

// must is bounded + "and it must not panic": for entry points a panic of which is not confined to one peer.
func must(t failer, what string, f func()) {
	if r := bounded(t, what, f); r.panicked {
		t.Fatalf("PROCESS DEATH: %s panicked: %v\n%s", what, r.val, firstLines(r.stack, 24))
	}
}

// quietly runs clean-up code bounded; once a wedge has been reported a hang here is expected and ignored.
func quietly(t failer, what string, f func()) {
	if wedged() {
		done := make(chan struct{})
		go func() { defer func() { recover(); close(done) }(); f() }()
		select {
		case <-done:
		case <-time.After(2 * time.Second):
		}
		return
	}
	must(t, what, f)
}

type probe struct {
	what string
	f    func()
}

func runProbes(t failer, reactor string, ps []probe) {
	for _, p := range ps {
		must(t, fmt.Sprintf("%s: %s (ordinary entry point, probed after hostile input)", reactor, p.what), p.f)
	}
}

// abandonAfter runs clean-up at process exit without letting a wedged node keep the process alive.
func abandonAfter(f func()) {
	done := make(chan struct{})
	go func() { defer func() { recover(); close(done) }(); f() }()
	select {
	case <-done:
	case <-time.After(3 * time.Second):
	}
}
