package c17

import (
	"net"
	"sync"
	"testing"
	"time"

	"github.com/tendermint/tendermint/libs/log"
	"github.com/tendermint/tendermint/p2p/conn"

	"verif/lib"
)

// gatedConn lets the test hold back the sender's writes, so that two channels provably have a message pending in
// the same scan of MConnection.sendPacketMsg.
type gatedConn struct {
	net.Conn
	mu      sync.Mutex
	gate    chan struct{} // closed = open
	blocked chan struct{} // receives one token per Write that found the gate shut
}

func (g *gatedConn) Write(b []byte) (int, error) {
	g.mu.Lock()
	gate := g.gate
	g.mu.Unlock()
	select {
	case <-gate:
	default:
		select {
		case g.blocked <- struct{}{}:
		default:
		}
		<-gate
	}
	return g.Conn.Write(b)
}

func (g *gatedConn) shut() {
	g.mu.Lock()
	g.gate = make(chan struct{})
	g.mu.Unlock()
}

func (g *gatedConn) open() {
	g.mu.Lock()
	close(g.gate)
	g.mu.Unlock()
}

// TestRegressZeroLengthMessageLost — library-free replay of finding C17-zero-length-message-lost.
//
// Channel.isSendPending uses len(ch.sending)==0 for "nothing in progress". A zero-length message taken off the send
// queue therefore looks like "nothing in progress": if another channel wins that scan, the empty message stays parked
// in ch.sending and is overwritten by the next message dequeued on its channel (or is never sent at all). Send had
// returned true for it.
func TestRegressZeroLengthMessageLost(t *testing.T) {
	const chA, chB = byte(0x01), byte(0x02)
	descs := []*conn.ChannelDescriptor{
		{ID: chA, Priority: 10, SendQueueCapacity: 4, RecvMessageCapacity: 1 << 16},
		{ID: chB, Priority: 1, SendQueueCapacity: 4, RecvMessageCapacity: 1 << 16},
	}
	cfg := conn.DefaultMConnConfig()
	cfg.SendRate, cfg.RecvRate = 0, 0
	cfg.FlushThrottle = time.Millisecond

	c1, c2 := net.Pipe()
	open := make(chan struct{})
	close(open)
	gc := &gatedConn{Conn: c1, gate: open, blocked: make(chan struct{}, 1)}
	rs := &recvSide{got: map[byte][][]byte{}, notify: make(chan struct{}, 1)}
	ss := &recvSide{got: map[byte][][]byte{}, notify: make(chan struct{}, 1)}
	sender := conn.NewMConnectionWithConfig(gc, descs, ss.onReceive, ss.onError, cfg)
	receiver := conn.NewMConnectionWithConfig(c2, descs, rs.onReceive, rs.onError, cfg)
	sender.SetLogger(log.NewNopLogger())
	receiver.SetLogger(log.NewNopLogger())
	if err := sender.Start(); err != nil {
		t.Fatal(err)
	}
	if err := receiver.Start(); err != nil {
		t.Fatal(err)
	}
	defer func() {
		sender.Stop()   //nolint
		receiver.Stop() //nolint
		c1.Close()
		c2.Close()
	}()
	must := func(ok bool, what string) {
		if !ok {
			t.Fatalf("VERIF-INFRA: %s was not accepted", what)
		}
	}
	// 1. make channel B the "recently busy" one, so that A wins the next scan
	must(sender.Send(chB, fill(1, 8000)), "warm-up on B")
	if !rs.waitFor(func(n, nerr int) bool { return n >= 1 || nerr > 0 }) {
		t.Fatalf("VERIF-INFRA: warm-up message not delivered")
	}
	// 2. park the send routine inside a flush, then queue one message on A and the EMPTY message on B
	gc.shut()
	must(sender.Send(chA, []byte{0xA1}), "A1")
	select {
	case <-gc.blocked:
	case <-time.After(deliveryWait):
		t.Fatalf("VERIF-INFRA: send routine never reached the gated write")
	}
	must(sender.Send(chA, []byte{0xA2}), "A2")
	must(sender.Send(chB, []byte{}), "empty message on B")
	gc.open()
	// 3. a later message on B
	if !rs.waitFor(func(n, nerr int) bool { return n >= 3 || nerr > 0 }) { // warm-up, A1, A2
		t.Fatalf("VERIF-INFRA: A1/A2 not delivered")
	}
	must(sender.Send(chB, []byte{0xB3}), "B3")
	sender.FlushStop()
	if !rs.waitFor(func(n, nerr int) bool { return nerr > 0 }) {
		t.Fatalf("VERIF-INFRA: receiver did not see the close")
	}
	rs.mu.Lock()
	defer rs.mu.Unlock()
	gotB := rs.got[chB]
	// accepted on B: warm-up, empty, B3
	if len(gotB) != 3 || len(gotB[1]) != 0 || len(gotB[2]) != 1 {
		sizes := []int{}
		for _, m := range gotB {
			sizes = append(sizes, len(m))
		}
		if lib.IsKnown(zeroLenFinding) {
			lib.ObservedKnown(zeroLenFinding)
			return
		}
		t.Fatalf("channel B: accepted 3 messages of sizes [8000 0 1], delivered sizes %v — the zero-length message was lost", sizes)
	}
}

const highChanFinding = "C17-channel-id-above-0x7f-full-packet-rejected"

// TestRegressHighChannelIDFullPacket — library-free replay of finding C17-channel-id-above-0x7f-full-packet-rejected.
//
// MConnection.maxPacketMsgSize sizes the largest packet with ChannelID 0x01 (one varint byte). A channel id >= 0x80
// needs two bytes, so a packet carrying a full MaxPacketMsgPayloadSize payload on such a channel is one byte longer
// than the limit the RECEIVER gives its delimited reader: a perfectly legal message of >= 1024 bytes kills the
// connection ("message exceeds max size").
func TestRegressHighChannelIDFullPacket(t *testing.T) {
	const ch = byte(0x80)
	descs := []*conn.ChannelDescriptor{{ID: ch, Priority: 1, SendQueueCapacity: 2, RecvMessageCapacity: 1 << 16}}
	cfg := conn.DefaultMConnConfig() // payload 1024
	cfg.SendRate, cfg.RecvRate = 0, 0
	cfg.FlushThrottle = time.Millisecond
	c1, c2 := net.Pipe()
	rs := &recvSide{got: map[byte][][]byte{}, notify: make(chan struct{}, 1)}
	ss := &recvSide{got: map[byte][][]byte{}, notify: make(chan struct{}, 1)}
	sender := conn.NewMConnectionWithConfig(c1, descs, ss.onReceive, ss.onError, cfg)
	receiver := conn.NewMConnectionWithConfig(c2, descs, rs.onReceive, rs.onError, cfg)
	sender.SetLogger(log.NewNopLogger())
	receiver.SetLogger(log.NewNopLogger())
	if err := sender.Start(); err != nil {
		t.Fatal(err)
	}
	if err := receiver.Start(); err != nil {
		t.Fatal(err)
	}
	defer func() {
		sender.Stop()   //nolint
		receiver.Stop() //nolint
		c1.Close()
		c2.Close()
	}()
	msg := fill(3, 1024)
	if !sender.Send(ch, msg) {
		t.Fatalf("VERIF-INFRA: message not accepted")
	}
	if !rs.waitFor(func(n, nerr int) bool { return n >= 1 || nerr > 0 }) {
		t.Fatalf("VERIF-INFRA: neither delivery nor error within %v", deliveryWait)
	}
	rs.mu.Lock()
	defer rs.mu.Unlock()
	if len(rs.errs) > 0 {
		if lib.IsKnown(highChanFinding) {
			lib.ObservedKnown(highChanFinding)
			return
		}
		t.Fatalf("a 1024-byte message (capacity 65536) on channel 0x80 killed the connection: %v", rs.errs)
	}
	if len(rs.got[ch]) != 1 || string(rs.got[ch][0]) != string(msg) {
		t.Fatalf("message altered")
	}
}
