package c17

import (
	"fmt"
	"os"
	"path/filepath"
	"runtime/debug"
	"strings"
	"sync"
	"sync/atomic"
	"time"

	"github.com/gogo/protobuf/proto"

	cfg "github.com/tendermint/tendermint/config"
	"github.com/tendermint/tendermint/consensus"
	cstypes "github.com/tendermint/tendermint/consensus/types"
	"github.com/tendermint/tendermint/libs/log"
	mpmock "github.com/tendermint/tendermint/mempool/mock"
	"github.com/tendermint/tendermint/p2p"
	tmcons "github.com/tendermint/tendermint/proto/tendermint/consensus"
	tmbits "github.com/tendermint/tendermint/proto/tendermint/libs/bits"
	tmproto "github.com/tendermint/tendermint/proto/tendermint/types"
	sm "github.com/tendermint/tendermint/state"
	"github.com/tendermint/tendermint/types"

	"verif/lib"
)

var nopLogger = log.NewNopLogger()

const consMaxMsgSize = 1048576 // RecvMessageCapacity of all four consensus channels (consensus.maxMsgSize)

// consEnv is one real consensus node: chain built through the real pipeline (lib.Chain), consensus.State started
// with the real receiveRoutine and a ticker that only fires when the harness says so, consensus.Reactor started and
// attached to a real Switch. Per-peer routines are the real ones, started by the harness under a recover (see overlay
// consensus/c17.go).
type consEnv struct {
	t       failer
	dir     string
	chain   *lib.Chain
	nVals   int
	nodeVal int // validator index of the node, -1 = not a validator
	cs      *consensus.State
	conR    *consensus.Reactor
	sw      *p2p.Switch
	bus     *types.EventBus
	ticker  *consensus.VerifTicker
	chainID string
	h       int64

	good *hpeer

	panicMu  sync.Mutex
	panics   []string
	routines sync.WaitGroup
	dead     map[p2p.ID]*int32 // per peer: number of its routines that have ended

	before   map[string]int
	closed   bool
	waitSync bool
	gate     *gateWAL
}

func newConsEnv(t failer, nVals, nBlocks, nodeVal int, initialHeight int64) *consEnv {
	return newConsEnvOpt(t, nVals, nBlocks, nodeVal, initialHeight, false)
}

// newConsEnvOpt: waitSync = the node is still block/state syncing — the consensus reactor is registered and running
// (it tracks peers and answers on the state channel) but the state machine has not been started.
func newConsEnvOpt(t failer, nVals, nBlocks, nodeVal int, initialHeight int64, waitSync bool) *consEnv {
	e := &consEnv{t: t, nVals: nVals, nodeVal: nodeVal, dead: map[p2p.ID]*int32{}, waitSync: waitSync}
	e.before, _ = goroutineSummary()
	e.dir = tmpDir(t, "c17-cons-")
	ch, err := lib.NewChain(lib.ChainSpec{Keys: seqInts(nVals), Powers: equalPowers(nVals, 10), InitialHeight: initialHeight})
	if err != nil {
		t.Fatalf("VERIF-INFRA: chain: %v", err)
	}
	e.chain = ch
	for i := 0; i < nBlocks; i++ {
		if err := ch.Advance(&lib.HeightPlan{Txs: [][]byte{[]byte(fmt.Sprintf("tx-%d", i))}}); err != nil {
			t.Fatalf("VERIF-INFRA: advance: %v", err)
		}
	}
	e.chainID = ch.State.ChainID
	e.h = ch.NextHeight()

	ccfg := cfg.TestConsensusConfig()
	ccfg.SetWalFile(filepath.Join(e.dir, "wal"))
	ccfg.PeerGossipSleepDuration = time.Millisecond
	ccfg.PeerQueryMaj23SleepDuration = time.Millisecond
	ccfg.SkipTimeoutCommit = false
	ccfg.CreateEmptyBlocks = true
	ccfg.CreateEmptyBlocksInterval = 0
	e.cs = consensus.NewState(ccfg, ch.State.Copy(), ch.Exec, ch.BlockStore, mpmock.Mempool{}, sm.EmptyEvidencePool{})
	e.cs.SetLogger(nopLogger)
	if nodeVal >= 0 {
		e.cs.SetPrivValidator(lib.PV(e.keyOf(nodeVal)))
	}
	e.bus = types.NewEventBus()
	e.bus.SetLogger(nopLogger)
	if err := e.bus.Start(); err != nil {
		t.Fatalf("VERIF-INFRA: bus: %v", err)
	}
	e.ticker = consensus.NewVerifTicker()
	e.cs.SetTimeoutTicker(e.ticker)
	e.conR = consensus.NewReactor(e.cs, waitSync)
	e.conR.SetLogger(nopLogger)
	e.conR.SetEventBus(e.bus)
	e.sw = newSwitch()
	e.sw.AddReactor("CONSENSUS", e.conR)
	if err := e.conR.Start(); err != nil {
		t.Fatalf("VERIF-INFRA: reactor start: %v", err)
	}
	e.barrier()
	e.good = newPeer(false)
	e.conR.InitPeer(e.good)
	p2p.AddPeerToSwitchPeerSet(e.sw, e.good)
	return e
}

func (e *consEnv) keyOf(valIdx int) int {
	return lib.KeyIndex(e.chain.State.Validators.Validators[valIdx].Address)
}

// addPeer does what Switch.addPeer + Reactor.AddPeer do for a new connection.
func (e *consEnv) addPeer(p *hpeer) *consensus.PeerState {
	e.conR.InitPeer(p)
	p2p.AddPeerToSwitchPeerSet(e.sw, p)
	ps := p.Get(types.PeerStateKey).(*consensus.PeerState)
	cnt := new(int32)
	e.dead[p.id] = cnt
	run := func(name string, fn func(p2p.Peer, *consensus.PeerState)) {
		e.routines.Add(1)
		go func() {
			defer e.routines.Done()
			defer atomic.AddInt32(cnt, 1)
			defer func() {
				if r := recover(); r != nil {
					e.panicMu.Lock()
					e.panics = append(e.panics, fmt.Sprintf("%s panicked: %v\n%s", name, r, debug.Stack()))
					e.panicMu.Unlock()
				}
			}()
			fn(p, ps)
		}()
	}
	// consensus.Reactor.AddPeer:
	run("gossipDataRoutine", e.conR.VerifC17GossipDataRoutine)
	run("gossipVotesRoutine", e.conR.VerifC17GossipVotesRoutine)
	run("queryMaj23Routine", e.conR.VerifC17QueryMaj23Routine)
	if !e.conR.WaitSync() {
		e.conR.VerifC17SendNewRoundStep(p)
	}
	return ps
}

// routinePanic returns the first panic of a per-peer routine ("" if none). In a node that panic is process death.
func (e *consEnv) routinePanic() string {
	e.panicMu.Lock()
	defer e.panicMu.Unlock()
	if len(e.panics) > 0 {
		return e.panics[0]
	}
	return ""
}

func (e *consEnv) clearPanics() {
	e.panicMu.Lock()
	e.panics = nil
	e.panicMu.Unlock()
}

// settle waits until each per-peer routine of p has gone round its loop at least twice more (or has ended).
func (e *consEnv) settle(p *hpeer) {
	d0, v0, m0 := atomic.LoadInt64(&p.pollData), atomic.LoadInt64(&p.pollVotes), atomic.LoadInt64(&p.pollMaj23)
	cal.reset()
	deadline := time.Now().Add(receiveWait)
	for {
		if atomic.LoadInt32(e.dead[p.id]) > 0 || !p.BaseService.IsRunning() {
			return // a routine ended (peer stopped or panic): nothing more to wait for
		}
		if atomic.LoadInt64(&p.pollData) >= d0+2 && atomic.LoadInt64(&p.pollVotes) >= v0+2 && atomic.LoadInt64(&p.pollMaj23) >= m0+2 {
			return
		}
		if time.Now().After(deadline) {
			stallVerdict(e.t, fmt.Sprintf("the per-peer routines of the consensus reactor (1 ms loops; loops completed since the last message: gossipData=%d gossipVotes=%d queryMaj23=%d, 2 each wanted)",
				atomic.LoadInt64(&p.pollData)-d0, atomic.LoadInt64(&p.pollVotes)-v0, atomic.LoadInt64(&p.pollMaj23)-m0), 0, receiveWait)
		}
		time.Sleep(200 * time.Microsecond)
	}
}

// awaitPeerRoutines: once a peer is gone, its three routines must end (they poll peer.IsRunning every loop).
func (e *consEnv) awaitPeerRoutines(p *hpeer) {
	cnt, ok := e.dead[p.id]
	if !ok {
		return
	}
	cal.reset()
	deadline := time.Now().Add(leakSettle)
	for atomic.LoadInt32(cnt) < 3 {
		if time.Now().After(deadline) {
			e.t.Fatalf("per-peer routines of the consensus reactor still alive %v after the peer was removed (%d of 3 ended)\n%s", leakSettle, atomic.LoadInt32(cnt), allStacks())
		}
		time.Sleep(200 * time.Microsecond)
	}
	delete(e.dead, p.id)
}

func (e *consEnv) sendDummy() bool {
	tm := time.NewTimer(receiveWait)
	defer tm.Stop()
	select {
	case e.ticker.C <- consensus.VerifTimeout{Height: -1}:
		return true
	case <-e.cs.VerifDone():
		return false
	case <-tm.C:
		stallVerdict(e.t, "the consensus receive routine (taking a timeout tick)", receiveRoutineGID(), receiveWait)
		return false
	}
}

// alive reports whether the node's consensus receiveRoutine is still running.
func (e *consEnv) alive() bool {
	select {
	case <-e.cs.VerifDone():
		return false
	default:
		return true
	}
}

// receiveRoutineParked reports whether the node's consensus receive routine is parked in its select.
func receiveRoutineParked() bool {
	for _, g := range strings.Split(allStacks(), "\n\n") {
		nl := strings.IndexByte(g, '\n')
		if nl < 0 {
			continue
		}
		if strings.HasPrefix(g[nl+1:], "github.com/tendermint/tendermint/consensus.(*State).receiveRoutine(") {
			return strings.Contains(g[:nl], "[select")
		}
	}
	return false
}

// receiveRoutineGID finds the goroutine running consensus.(*State).receiveRoutine (0 if none).
func receiveRoutineGID() int64 {
	for _, g := range strings.Split(allStacks(), "\n\n") {
		if strings.Contains(g, "consensus.(*State).receiveRoutine(") {
			if m := goidRe.FindStringSubmatch(g); m != nil {
				var id int64
				fmt.Sscan(m[1], &id)
				return id
			}
		}
	}
	return 0
}

// barrier returns when the consensus state machine has handled everything queued so far: the receive routine is
// parked in its select with both queues empty. (Queue lengths alone are not enough: an item may have been taken off
// a queue and still be in the middle of handleMsg, about to enqueue the node's own vote.) Nothing but the receive
// routine itself and this harness puts anything into those queues, so "parked" is stable until the harness acts.
// False if the receive routine has died (CONSENSUS FAILURE).
func (e *consEnv) barrier() bool {
	if e.waitSync {
		return true // no state machine running: nothing is queued for it (the reactor drops data/vote traffic)
	}
	cal.reset()
	deadline := time.Now().Add(receiveWait)
	for i := 0; ; i++ {
		if !e.sendDummy() {
			return false
		}
		if a, b := e.cs.VerifQueueLens(); a == 0 && b == 0 && receiveRoutineParked() {
			if a, b = e.cs.VerifQueueLens(); a == 0 && b == 0 {
				return true
			}
		}
		if !e.alive() {
			return false
		}
		if time.Now().After(deadline) {
			stallVerdict(e.t, "the consensus receive routine (draining its queues)", receiveRoutineGID(), receiveWait)
		}
		if i > 3 {
			time.Sleep(50 * time.Microsecond)
		}
	}
}

// fireTimeout lets the currently armed timeout fire (if any).
func (e *consEnv) fireTimeout() bool {
	if e.waitSync {
		return false
	}
	ti, ok := e.ticker.Take()
	if !ok {
		return false
	}
	cal.reset()
	tm := time.NewTimer(receiveWait)
	defer tm.Stop()
	select {
	case e.ticker.C <- ti:
	case <-e.cs.VerifDone():
		return false
	case <-tm.C:
		stallVerdict(e.t, "the consensus receive routine (taking a timeout)", receiveRoutineGID(), receiveWait)
	}
	e.barrier()
	return true
}

// probe: after hostile input the consensus reactor still serves a well-behaved new peer on all four channels, its
// state can be read (RPC does that), the state machine still takes input and the per-peer routines of the newcomer
// run; then the newcomer disconnects.
func (e *consEnv) probe(hostile *consensus.PeerState) {
	t := e.t
	var p *hpeer
	must(t, "consensus: InitPeer+AddPeer for a new connection (Switch.addPeer)", func() { p = newPeer(false); e.addPeer(p) })
	lcr := int32(0)
	if e.h == e.chain.Spec.InitialHeight {
		lcr = -1
	}
	rs := e.cs.GetRoundState()
	outsider := e.signedVote(0, tmproto.PrevoteType, rs.Round, types.BlockID{}, false)
	fb := lib.ForgeBlockID("probe")
	forged := fb.ToProto()
	recv := func(what string, ch byte, b []byte) probe {
		return probe{"Receive(" + what + ") from a well-behaved peer", func() { e.conR.Receive(ch, p, b) }}
	}
	runProbes(t, "consensus", []probe{
		recv("NewRoundStep", consensus.StateChannel, wrapCons(&tmcons.NewRoundStep{Height: e.h, Round: rs.Round, Step: 3, LastCommitRound: lcr})),
		recv("HasVote", consensus.StateChannel, wrapCons(&tmcons.HasVote{Height: e.h, Round: rs.Round, Type: tmproto.PrevoteType, Index: 0})),
		recv("VoteSetMaj23 (reads the node's vote sets under the state lock)", consensus.StateChannel, wrapCons(&tmcons.VoteSetMaj23{Height: e.h, Round: rs.Round, Type: tmproto.PrevoteType, BlockID: forged})),
		recv("ProposalPOL for another height", consensus.DataChannel, wrapCons(&tmcons.ProposalPOL{Height: e.h + 7, ProposalPolRound: 0, ProposalPol: tmbits.BitArray{Bits: 1, Elems: []uint64{0}}})),
		recv("Vote that the state machine will refuse", consensus.VoteChannel, wrapCons(&tmcons.Vote{Vote: outsider.ToProto()})),
		recv("VoteSetBits", consensus.VoteSetBitsChannel, wrapCons(&tmcons.VoteSetBits{Height: e.h, Round: rs.Round, Type: tmproto.PrevoteType, BlockID: forged})),
		{"State.GetRoundState / GetRoundStateJSON (RPC)", func() { e.cs.GetRoundState(); _, _ = e.cs.GetRoundStateJSON() }},
		{"PeerState.GetRoundState / ToJSON of the hostile peer (RPC dump_consensus_state)", func() {
			if hostile != nil {
				hostile.GetRoundState()
				_, _ = hostile.ToJSON()
			}
		}},
	})
	if !e.barrier() {
		t.Fatalf("consensus receive routine died (CONSENSUS FAILURE) while serving a well-behaved peer after hostile input")
	}
	e.settle(p)
	if pn := e.routinePanic(); pn != "" {
		return // reported by the caller with the message history
	}
	must(t, "consensus: RemovePeer (Switch.StopPeerGracefully)", func() { e.sw.StopPeerGracefully(p) })
	e.awaitPeerRoutines(p)
}

// closeChecked stops the node; a stop that hangs is a wedge too.
func (e *consEnv) closeChecked() {
	quietly(e.t, "consensus: stopping the node (peers removed, Reactor.Stop, State.Stop)", e.close)
}

func (e *consEnv) close() {
	if e.closed {
		return
	}
	e.closed = true
	if e.gate != nil {
		e.gate.open()
	}
	for _, p := range e.sw.Peers().List() {
		e.sw.StopPeerGracefully(p)
	}
	e.good.Stop() //nolint
	if e.alive() {
		e.conR.Stop() //nolint
	} else {
		// receiveRoutine already gone: Reactor.OnStop would still work (Wait on a closed channel)
		e.conR.Stop() //nolint
	}
	e.bus.Stop() //nolint
	e.chain.Close()
	done := make(chan struct{})
	go func() { e.routines.Wait(); close(done) }()
	select {
	case <-done:
	case <-time.After(leakSettle):
		// reported by the leak check below with stacks
	}
	os.RemoveAll(e.dir)
}

// ownStateChecked is ownState on a bounded goroutine (it takes the state machine's read lock).
func (e *consEnv) ownStateChecked() (s string) {
	must(e.t, "consensus: State.GetRoundState (reading the node's own state)", func() { s = e.ownState() })
	return
}

// ownState is a fingerprint of everything of the NODE's own consensus state that input from a peer which is not a
// validator must not be able to change.
func (e *consEnv) ownState() string {
	rs := e.cs.GetRoundState()
	s := fmt.Sprintf("H=%d R=%d S=%v commitRound=%d", rs.Height, rs.Round, rs.Step, rs.CommitRound)
	if rs.Proposal != nil {
		s += fmt.Sprintf(" prop=%X/%d/pol%d", rs.Proposal.BlockID.Hash, rs.Proposal.Round, rs.Proposal.POLRound)
	}
	if rs.ProposalBlock != nil {
		s += fmt.Sprintf(" block=%X", rs.ProposalBlock.Hash())
	}
	if rs.ProposalBlockParts != nil {
		s += fmt.Sprintf(" parts=%v/%d:%v", rs.ProposalBlockParts.Header(), rs.ProposalBlockParts.Count(), rs.ProposalBlockParts.BitArray())
	}
	if rs.LockedBlock != nil {
		s += fmt.Sprintf(" locked=%d/%X", rs.LockedRound, rs.LockedBlock.Hash())
	}
	if rs.ValidBlock != nil {
		s += fmt.Sprintf(" valid=%d/%X", rs.ValidRound, rs.ValidBlock.Hash())
	}
	for r := int32(0); r <= rs.Round+1; r++ {
		// (empty vote sets for a round appear as soon as any vote for that round is looked at: not state)
		if pv := rs.Votes.Prevotes(r); pv != nil && !pv.BitArray().IsEmpty() {
			s += fmt.Sprintf(" pv%d=%v", r, pv.BitArray())
		}
		if pc := rs.Votes.Precommits(r); pc != nil && !pc.BitArray().IsEmpty() {
			s += fmt.Sprintf(" pc%d=%v", r, pc.BitArray())
		}
	}
	if rs.LastCommit != nil {
		s += fmt.Sprintf(" last=%v", rs.LastCommit.BitArray())
	}
	s += fmt.Sprintf(" store=%d", e.chain.BlockStore.Height())
	return s
}

// ---- valid traffic (what an honest validator's node would send) -------------------------------------------------

func wrapCons(m interface{ Wrap() proto.Message }) []byte {
	b, err := proto.Marshal(m.Wrap())
	if err != nil {
		panic(err)
	}
	return b
}

// feedGood delivers a valid message from the well-behaved peer and waits for the state machine.
func (e *consEnv) feedGood(ch byte, b []byte, what string) {
	o := deliver(e.t, e.sw, e.conR, ch, e.good, b, what)
	if o.panicked || o.dropped {
		e.t.Fatalf("harness bug or defect: well-formed %s from the honest peer got the peer dropped (panic=%v)", what, o.panicVal)
	}
	if !e.barrier() {
		e.t.Fatalf("consensus receive routine died while handling valid %s", what)
	}
}

func (e *consEnv) signedVote(valIdx int, typ tmproto.SignedMsgType, round int32, bid types.BlockID, goodSig bool) *types.Vote {
	val := e.chain.State.Validators.Validators[valIdx]
	v := &types.Vote{Type: typ, Height: e.h, Round: round, BlockID: bid, Timestamp: e.chain.State.LastBlockTime.Add(2 * time.Second),
		ValidatorAddress: val.Address, ValidatorIndex: int32(valIdx)}
	key := e.keyOf(valIdx)
	if !goodSig {
		key = 200 + valIdx // not a validator key
	}
	pb := v.ToProto()
	if err := lib.PV(key).SignVote(e.chainID, pb); err != nil {
		panic(err)
	}
	v.Signature = pb.Signature
	return v
}

func (e *consEnv) feedVote(valIdx int, typ tmproto.SignedMsgType, round int32, bid types.BlockID) {
	v := e.signedVote(valIdx, typ, round, bid, true)
	e.feedGood(consensus.VoteChannel, wrapCons(&tmcons.Vote{Vote: v.ToProto()}), "Vote")
}

// ensureProposal makes sure the node has the complete proposal for (h, round 0): if the node is the proposer it made
// its own; otherwise the proposer's proposal and all parts are delivered through the honest peer.
func (e *consEnv) ensureProposal(withParts int) {
	rs := e.cs.GetRoundState()
	if rs.Proposal != nil {
		return
	}
	block, parts := e.chain.BuildNext(&lib.HeightPlan{Txs: [][]byte{[]byte("next")}})
	bid := types.BlockID{Hash: block.Hash(), PartSetHeader: parts.Header()}
	prop := types.NewProposal(e.h, 0, -1, bid)
	pb := prop.ToProto()
	proposer := e.chain.State.Validators.GetProposer()
	if err := lib.PV(lib.KeyIndex(proposer.Address)).SignProposal(e.chainID, pb); err != nil {
		panic(err)
	}
	prop.Signature = pb.Signature
	e.feedGood(consensus.DataChannel, wrapCons(&tmcons.Proposal{Proposal: *prop.ToProto()}), "Proposal")
	n := int(parts.Total())
	if withParts >= 0 && withParts < n {
		n = withParts
	}
	for i := 0; i < n; i++ {
		pp, err := parts.GetPart(i).ToProto()
		if err != nil {
			panic(err)
		}
		e.feedGood(consensus.DataChannel, wrapCons(&tmcons.BlockPart{Height: e.h, Round: 0, Part: *pp}), "BlockPart")
	}
}

// quorum is the number of (equal-power) validators that makes +2/3.
func (e *consEnv) quorum() int { return e.nVals*2/3 + 1 }

// others lists validator indices other than the node's.
func (e *consEnv) others() []int {
	var o []int
	for i := 0; i < e.nVals; i++ {
		if i != e.nodeVal {
			o = append(o, i)
		}
	}
	return o
}

var nodeStates = []string{"newheight", "newheight", "propose-empty", "propose-partial", "proposal", "prevotes", "precommits", "round1"}

// drive puts the node into one of the named states using only valid traffic and harness-fired timeouts.
func (e *consEnv) drive(state string) {
	if state == "newheight" {
		return
	}
	e.fireTimeout() // NewHeight -> NewRound -> Propose (round 0)
	switch state {
	case "propose-empty":
		return
	case "propose-partial":
		e.ensureProposal(0)
		return
	case "round1":
		// nobody proposed: everybody prevotes and precommits nil, on to round 1
		e.fireTimeout() // propose timeout -> prevote nil (if validator)
		for _, v := range e.others() {
			e.feedVote(v, tmproto.PrevoteType, 0, types.BlockID{})
		}
		e.fireTimeout() // prevote-wait timeout -> precommit nil
		for _, v := range e.others() {
			e.feedVote(v, tmproto.PrecommitType, 0, types.BlockID{})
		}
		e.fireTimeout() // precommit-wait timeout -> round 1
		return
	}
	e.ensureProposal(-1)
	if state == "proposal" {
		return
	}
	rs := e.cs.GetRoundState()
	bid := types.BlockID{Hash: rs.ProposalBlock.Hash(), PartSetHeader: rs.ProposalBlockParts.Header()}
	oth := e.others()
	// prevotes from enough others that, with the node's own (if any), there are exactly 2 of 4 (no polka) ...
	// one vote short of a polka (counting the node's own prevote, if it is a validator) ...
	nPre := e.quorum() - 1
	if e.nodeVal >= 0 {
		nPre--
	}
	if state == "precommits" {
		nPre++ // ... or a polka
	}
	for _, v := range oth[:nPre] {
		e.feedVote(v, tmproto.PrevoteType, 0, bid)
	}
	if state == "precommits" {
		e.feedVote(oth[0], tmproto.PrecommitType, 0, bid)
	}
}

var _ = cstypes.RoundStepPropose

// ---- a slow disk: the write-ahead log the state machine writes every input to before handling it ------------------

// gateWAL wraps the node's real WAL; while the gate is shut every Write/WriteSync waits (a disk that does not answer),
// so the state machine stops taking input off its queues WITHOUT holding any of its locks.
type gateWAL struct {
	consensus.WAL
	mu   sync.Mutex
	gate chan struct{} // closed = open
}

func (w *gateWAL) wait() {
	w.mu.Lock()
	g := w.gate
	w.mu.Unlock()
	<-g
}
func (w *gateWAL) Write(m consensus.WALMessage) error     { w.wait(); return w.WAL.Write(m) }
func (w *gateWAL) WriteSync(m consensus.WALMessage) error { w.wait(); return w.WAL.WriteSync(m) }

func (w *gateWAL) shut() {
	w.mu.Lock()
	w.gate = make(chan struct{})
	w.mu.Unlock()
}
func (w *gateWAL) open() {
	w.mu.Lock()
	select {
	case <-w.gate:
	default:
		close(w.gate)
	}
	w.mu.Unlock()
}

// installGate puts the gate (open) in front of the node's WAL. Call at a barrier (receive routine parked).
func (e *consEnv) installGate() *gateWAL {
	open := make(chan struct{})
	close(open)
	e.gate = &gateWAL{WAL: e.cs.VerifWAL(), gate: open}
	e.cs.VerifSetWAL(e.gate)
	return e.gate
}
