// C17 (a), switch level — "delivered exactly once, unmodified, in per-channel order" through the REAL p2p peer layer:
// several real peers (p2p.newPeer: secret connection, MConnection, peer.onReceive decoding and dispatching to the
// reactor) connected to ONE switch, sending different payloads on the same channels concurrently. The receiving reactor
// records (source peer, channel, payload); the oracle compares, per source and channel, with what that peer sent.
//
// Interleavings: besides free-running concurrent senders (schedule sampling, race build) the channel's message type
// is a harness-made proto.Message whose Unmarshal can park the first of two decodes until the second one has finished
// — the overlap of two peers' receive routines a scheduler may produce, forced.
package c17

import (
	"bytes"
	"fmt"
	"net"
	"sync"
	"testing"
	"time"

	"github.com/gogo/protobuf/proto"
	"pgregory.net/rapid"

	cfg "github.com/tendermint/tendermint/config"
	"github.com/tendermint/tendermint/crypto/ed25519"
	"github.com/tendermint/tendermint/p2p"
	"github.com/tendermint/tendermint/p2p/conn"

	"verif/lib"
)

// wireMsg is a minimal hand-written proto.Message: the wire format is the payload itself.
type wireMsg struct{ Payload []byte }

func (m *wireMsg) Reset()         { *m = wireMsg{} }
func (m *wireMsg) String() string { return fmt.Sprintf("wireMsg{%d bytes}", len(m.Payload)) }
func (*wireMsg) ProtoMessage()    {}
func (m *wireMsg) Marshal() ([]byte, error) {
	return append([]byte(nil), m.Payload...), nil
}
func (m *wireMsg) Merge(src proto.Message) { m.Payload = append(m.Payload, src.(*wireMsg).Payload...) }

// decodeGate interleaves two decodes: when armed, the first Unmarshal parks (after having decoded) until a second
// Unmarshal has completed, or until the fallback expires (then nothing was forced; counted, no verdict depends on it).
var decodeGate struct {
	mu       sync.Mutex
	armed    bool
	n        int
	second   chan struct{}
	timeouts int
}

func armGate() {
	decodeGate.mu.Lock()
	decodeGate.armed, decodeGate.n, decodeGate.second = true, 0, make(chan struct{})
	decodeGate.mu.Unlock()
}

func disarmGate() {
	decodeGate.mu.Lock()
	decodeGate.armed = false
	decodeGate.mu.Unlock()
}

func (m *wireMsg) Unmarshal(bz []byte) error {
	m.Payload = append([]byte(nil), bz...)
	decodeGate.mu.Lock()
	if !decodeGate.armed {
		decodeGate.mu.Unlock()
		return nil
	}
	decodeGate.n++
	n, second := decodeGate.n, decodeGate.second
	decodeGate.mu.Unlock()
	switch n {
	case 1:
		select {
		case <-second:
		case <-time.After(2 * time.Second):
			decodeGate.mu.Lock()
			decodeGate.timeouts++
			decodeGate.mu.Unlock()
		}
	case 2:
		close(second)
	}
	return nil
}

type received struct {
	src     p2p.ID
	ch      byte
	payload []byte
}

// recReactor records what it is handed. It implements ReceiveEnvelope (like every stock reactor), so peer.onReceive
// gives it the decoded message.
type recReactor struct {
	p2p.BaseReactor
	chans []*conn.ChannelDescriptor
	mu    sync.Mutex
	got   []received
	note  chan struct{}
}

func newRecReactor(chans []*conn.ChannelDescriptor) *recReactor {
	r := &recReactor{chans: chans, note: make(chan struct{}, 1)}
	r.BaseReactor = *p2p.NewBaseReactor("rec", r)
	return r
}

func (r *recReactor) GetChannels() []*conn.ChannelDescriptor { return r.chans }

func (r *recReactor) ReceiveEnvelope(e p2p.Envelope) {
	m, ok := e.Message.(*wireMsg)
	if !ok {
		panic(fmt.Sprintf("unexpected message type %T", e.Message))
	}
	r.mu.Lock()
	r.got = append(r.got, received{src: e.Src.ID(), ch: e.ChannelID, payload: append([]byte(nil), m.Payload...)})
	r.mu.Unlock()
	select {
	case r.note <- struct{}{}:
	default:
	}
}

func (r *recReactor) Receive(chID byte, peer p2p.Peer, msgBytes []byte) {
	r.ReceiveEnvelope(p2p.Envelope{ChannelID: chID, Src: peer, Message: &wireMsg{Payload: append([]byte(nil), msgBytes...)}})
}

func (r *recReactor) count() int {
	r.mu.Lock()
	defer r.mu.Unlock()
	return len(r.got)
}

type swNode struct {
	sw  *p2p.Switch
	r   *recReactor
	id  p2p.ID
	err []interface{}
}

// swPayload is the p2p.max_packet_msg_payload_size all switches of the current case are configured with.
var swPayload = 1024

func newSwNode(t failer, i int, chIDs []byte) *swNode {
	pc := cfg.DefaultP2PConfig()
	pc.MaxPacketMsgPayloadSize = swPayload
	pc.FlushThrottleTimeout = time.Millisecond
	pc.SendRate, pc.RecvRate = 1<<30, 1<<30
	key := ed25519.GenPrivKeyFromSecret([]byte(fmt.Sprintf("verif-c17-node-%d", i)))
	nk := &p2p.NodeKey{PrivKey: key}
	self := p2p.NewNetAddressIPPort(net.IPv4(10, 0, 0, byte(i+1)), 26656)
	self.ID = nk.ID()
	sw := p2p.VerifC17NewSwitch(pc, *self)
	sw.SetLogger(nopLogger)
	sw.SetNodeKey(nk)
	var descs []*conn.ChannelDescriptor
	for _, id := range chIDs {
		descs = append(descs, &conn.ChannelDescriptor{ID: id, Priority: 1, SendQueueCapacity: 64, RecvMessageCapacity: 1 << 16, MessageType: &wireMsg{}})
	}
	r := newRecReactor(descs)
	r.SetLogger(nopLogger)
	sw.AddReactor("rec", r)
	sw.SetNodeInfo(p2p.DefaultNodeInfo{DefaultNodeID: nk.ID(), ListenAddr: self.DialString(), Network: "verif", Version: "0.34.24", Channels: chIDs, Moniker: fmt.Sprintf("n%d", i)})
	if err := sw.Start(); err != nil {
		t.Fatalf("VERIF-INFRA: switch start: %v", err)
	}
	return &swNode{sw: sw, r: r, id: nk.ID()}
}

// connectNodes links a and b over net.Pipe with the real upgrade + handshake + newPeer + Switch.addPeer on both sides.
func connectNodes(t failer, a, b *swNode) {
	for attempt := 0; ; attempt++ {
		c1, c2 := net.Pipe()
		errs := make(chan error, 2)
		go func() { errs <- a.sw.VerifC17AddPeerWithConnection(c1) }()
		go func() { errs <- b.sw.VerifC17AddPeerWithConnection(c2) }()
		e1, e2 := <-errs, <-errs
		if e1 == nil && e2 == nil {
			return
		}
		// the helper's node-info handshake has a fixed 1 s deadline: on a stalled machine it can expire
		c1.Close()
		c2.Close()
		for _, n := range []*swNode{a, b} {
			for _, p := range n.sw.Peers().List() {
				if p.ID() == a.id || p.ID() == b.id {
					n.sw.StopPeerGracefully(p)
				}
			}
		}
		if attempt == 3 {
			t.Fatalf("VERIF-INFRA: could not connect two switches: %v / %v", e1, e2)
		}
	}
}

type sent struct {
	ch      byte
	payload []byte
}

// runSwitchDelivery: nSenders switches each connected to one receiving switch; plan[i] = what sender i sends, in
// order; gated = pairs of (sender, message index) decoded under the forced overlap first.
func switchDeliveryCase(t failer, test string, chIDs []byte, plans [][]sent, forced int) {
	nodes := []*swNode{newSwNode(t, 0, chIDs)}
	defer func() {
		for _, n := range nodes {
			n.sw.Stop() //nolint
		}
	}()
	for i := range plans {
		n := newSwNode(t, i+1, chIDs)
		nodes = append(nodes, n)
		connectNodes(t, nodes[0], n)
	}
	recv := nodes[0]
	if recv.sw.Peers().Size() != len(plans) {
		t.Fatalf("VERIF-INFRA: receiver has %d peers, want %d", recv.sw.Peers().Size(), len(plans))
	}
	total := 0
	accepted := make([][]sent, len(plans))
	next := make([]int, len(plans))
	sendOne := func(i int) {
		if next[i] >= len(plans[i]) {
			return
		}
		m := plans[i][next[i]]
		next[i]++
		peer := nodes[i+1].sw.Peers().Get(recv.id)
		if peer != nil && p2p.SendEnvelopeShim(peer, p2p.Envelope{ChannelID: m.ch, Message: &wireMsg{Payload: m.payload}}, nopLogger) { //nolint
			accepted[i] = append(accepted[i], m)
		}
	}
	waitCount := func(want int) {
		cal.reset()
		deadline := time.Now().Add(deliveryWait)
		for recv.r.count() < want {
			select {
			case <-recv.r.note:
			case <-time.After(2 * time.Millisecond):
			}
			if time.Now().After(deadline) {
				if cal.worstGap() > deliveryWait/3 {
					t.Fatalf("VERIF-INFRA: delivery stalled together with the machine")
				}
				return // judged by the comparison below (lost messages)
			}
		}
	}
	// phase 1: forced overlaps — two different peers' messages are decoded "at the same time"
	for k := 0; k < forced && len(plans) >= 2; k++ {
		a, b := k%len(plans), (k+1)%len(plans)
		if next[a] >= len(plans[a]) || next[b] >= len(plans[b]) {
			break
		}
		armGate()
		var wg sync.WaitGroup
		for _, i := range []int{a, b} {
			wg.Add(1)
			go func(i int) { defer wg.Done(); sendOne(i) }(i)
		}
		wg.Wait()
		total = 0
		for _, acc := range accepted {
			total += len(acc)
		}
		waitCount(total)
		disarmGate()
	}
	// phase 2: everybody sends the rest concurrently
	var wg sync.WaitGroup
	var accMu sync.Mutex
	for i := range plans {
		wg.Add(1)
		go func(i int) {
			defer wg.Done()
			peer := nodes[i+1].sw.Peers().Get(recv.id)
			for _, m := range plans[i][next[i]:] {
				if peer != nil && p2p.SendEnvelopeShim(peer, p2p.Envelope{ChannelID: m.ch, Message: &wireMsg{Payload: m.payload}}, nopLogger) { //nolint
					accMu.Lock()
					accepted[i] = append(accepted[i], m)
					accMu.Unlock()
				}
			}
		}(i)
	}
	wg.Wait()
	total = 0
	for _, acc := range accepted {
		total += len(acc)
	}
	waitCount(total)

	// oracle: per source peer and channel, the recorded sequence equals what that peer sent
	recv.r.mu.Lock()
	got := append([]received(nil), recv.r.got...)
	recv.r.mu.Unlock()
	for i := range plans {
		src := nodes[i+1].id
		for _, ch := range chIDs {
			var want, have [][]byte
			for _, m := range accepted[i] {
				if m.ch == ch {
					want = append(want, m.payload)
				}
			}
			for _, g := range got {
				if g.src == src && g.ch == ch {
					have = append(have, g.payload)
				}
			}
			for k := 0; k < len(want) && k < len(have); k++ {
				if !bytes.Equal(want[k], have[k]) {
					owner := "nobody"
					for j := range plans {
						for _, m := range plans[j] {
							if bytes.Equal(m.payload, have[k]) {
								owner = fmt.Sprintf("peer %d", j)
							}
						}
					}
					t.Fatalf("message %d from peer %d on channel %#x reached the reactor altered: sent %q, reactor was handed %q attributed to peer %d (that payload was sent by %s)",
						k, i, ch, clip(want[k]), clip(have[k]), i, owner)
				}
			}
			if len(want) != len(have) {
				t.Fatalf("peer %d, channel %#x: %d messages accepted for sending, %d handed to the reactor as coming from that peer", i, ch, len(want), len(have))
			}
		}
	}
	if len(got) != total {
		t.Fatalf("%d messages accepted for sending, %d handed to the reactor", total, len(got))
	}
}

func clip(b []byte) string {
	if len(b) > 40 {
		return string(b[:40]) + "..."
	}
	return string(b)
}

func TestSwitchDelivery(t *testing.T) {
	rapid.Check(t, func(t *rapid.T) {
		swPayload = rapid.SampledFrom([]int{1024, 1024, 100, 127, 16376, 16384, 65536}).Draw(t, "payload")
		defer func() { swPayload = 1024 }()
		nSenders := rapid.SampledFrom([]int{2, 2, 3, 4}).Draw(t, "senders")
		nCh := rapid.IntRange(1, 2).Draw(t, "channels")
		chIDs := []byte{0x71, 0x72}[:nCh]
		plans := make([][]sent, nSenders)
		msgs := 0
		for i := range plans {
			n := rapid.IntRange(3, 40).Draw(t, fmt.Sprintf("s%d.n", i))
			for k := 0; k < n; k++ {
				size := rapid.SampledFrom([]int{0, 1, 30, 1000, 1024, 3000, swPayload - 20, swPayload, 2*swPayload + 1}).Draw(t, "size")
				if size < 0 {
					size = 0
				}
				if size > 60000 { // channel capacity is 64 KiB
					size = 60000
				}
				p := []byte(fmt.Sprintf("from-peer-%d-msg-%d|", i, k))
				p = append(p, fill(uint64(i*1000+k), size)...)
				plans[i] = append(plans[i], sent{ch: chIDs[rapid.IntRange(0, nCh-1).Draw(t, "ch")], payload: p})
				msgs++
			}
		}
		forced := rapid.IntRange(0, 4).Draw(t, "forced-overlaps")
		lib.Case("TestSwitchDelivery", lib.FP(nSenders, nCh, forced, msgs), nSenders >= 2 && msgs >= 2*nSenders,
			fmt.Sprintf("senders:%d", nSenders), fmt.Sprintf("payload:%d", swPayload), fmt.Sprintf("channels:%d", nCh), fmt.Sprintf("forced-overlaps:%d", forced))
		switchDeliveryCase(t, "TestSwitchDelivery", chIDs, plans, forced)
	})
}

// TestDirectedTwoPeersSameChannel: the smallest instance — two peers, one message each on one channel, decodes forced
// to overlap.
func TestDirectedTwoPeersSameChannel(t *testing.T) {
	plans := [][]sent{{{0x71, []byte("from-peer-0")}}, {{0x71, []byte("from-peer-1")}}}
	lib.Case("TestDirectedTwoPeersSameChannel", lib.FP(1), true)
	switchDeliveryCase(tfail{t}, "TestDirectedTwoPeersSameChannel", []byte{0x71}, plans, 1)
}
