package c17

import (
	"fmt"
	"net"
	"strings"
	"sync"
	"testing"
	"time"

	"github.com/tendermint/tendermint/p2p"

	"verif/lib"
)

const findDupEvicts = "C17-duplicate-connection-evicts-live-peer"

// TestRegressDuplicateConnectionEvictsLivePeer — replay of finding C17-duplicate-connection-evicts-live-peer.
//
// A node opens two connections to us at the same time. Both pass Switch.filterPeer (neither is in the peer set yet);
// the second one fails sw.peers.Add with ErrSwitchDuplicatePeerID after its MConnection has been started, and addPeer
// returns without stopping it. When that refused connection then breaks (its socket is closed by the caller),
// onPeerError -> StopPeerForError -> stopAndRemovePeer looks the peer up BY ID: every reactor gets RemovePeer for the
// id and the FIRST, healthy connection is taken out of the peer set while it keeps running and delivering messages.
func TestRegressDuplicateConnectionEvictsLivePeer(t *testing.T) {
	ft := tfail{t}
	chIDs := []byte{0x71}
	won := 0
	for attempt := 0; attempt < 300 && won < 3; attempt++ {
		recv := newSwNode(ft, 0, chIDs)
		a := newSwNode(ft, 1, chIDs) // the remote node: two switch objects with ONE node key = one node, two connections
		b := newSwNode(ft, 1, chIDs)
		var wg sync.WaitGroup
		errs := make([]error, 2)
		for i, n := range []*swNode{a, b} {
			c1, c2 := net.Pipe()
			wg.Add(2)
			go func(i int) { defer wg.Done(); errs[i] = recv.sw.VerifC17AddPeerWithConnection(c1) }(i)
			go func(n *swNode) { defer wg.Done(); _ = n.sw.VerifC17AddPeerWithConnection(c2) }(n)
		}
		wg.Wait()
		raceWon := false
		for _, e := range errs {
			if e != nil && strings.Contains(fmt.Sprintf("%T %v", e, e), "DuplicatePeerID") {
				raceWon = true
			}
		}
		if raceWon {
			won++
			// the refused connection has been closed by addPeerWithConnection; give its error the time to travel
			time.Sleep(50 * time.Millisecond)
			listed := recv.sw.Peers().Has(a.id)
			// is the accepted connection still alive? send over whichever of a/b still has the receiver as a peer
			delivered := false
			for _, n := range []*swNode{a, b} {
				if p := n.sw.Peers().Get(recv.id); p != nil && p.IsRunning() {
					before := recv.r.count()
					p2p.SendEnvelopeShim(p, p2p.Envelope{ChannelID: 0x71, Message: &wireMsg{Payload: []byte("still-here")}}, nopLogger) //nolint
					for k := 0; k < 200 && recv.r.count() == before; k++ {
						time.Sleep(time.Millisecond)
					}
					delivered = delivered || recv.r.count() > before
				}
			}
			lib.Case("TestRegressDuplicateConnectionEvictsLivePeer", lib.FP(attempt), true, fmt.Sprintf("listed:%v delivered:%v", listed, delivered))
			if delivered && !listed {
				if lib.IsKnown(findDupEvicts) {
					lib.ObservedKnown(findDupEvicts)
				} else {
					t.Fatalf("after a refused duplicate connection broke, the node's peer set no longer lists node %s although its first connection is alive and still delivers messages to the reactors (RemovePeer was called for it)", a.id[:8])
				}
			}
		}
		for _, n := range []*swNode{recv, a, b} {
			n.sw.Stop() //nolint
		}
	}
	if won == 0 {
		t.Skip("the simultaneous-connection race was not won in 300 attempts: nothing observed")
	}
}
