// C17 (b)(i) — raw bytes into Receive of every reactor: native fuzz targets. The seed corpus (valid encodings of
// every message type of the reactor + hostile constants) runs as an ordinary test in the quick tier
// (`-test.run ^FuzzX$`); TestFuzzThorough runs the mutation engine in the thorough tier.
//
// Each fuzz process builds ONE node per reactor and keeps it (building a chain per input would make fuzzing
// pointless); every input comes from a fresh peer connection.
package c17

import (
	"fmt"
	"math"
	"os"
	"os/exec"
	"path/filepath"
	"strings"
	"sync"
	"testing"
	"time"

	"github.com/gogo/protobuf/proto"

	bcv0 "github.com/tendermint/tendermint/blockchain/v0"
	cfg "github.com/tendermint/tendermint/config"
	"github.com/tendermint/tendermint/consensus"
	"github.com/tendermint/tendermint/evidence"
	"github.com/tendermint/tendermint/mempool"
	"github.com/tendermint/tendermint/p2p/pex"
	bcproto "github.com/tendermint/tendermint/proto/tendermint/blockchain"
	tmcons "github.com/tendermint/tendermint/proto/tendermint/consensus"
	tmcrypto "github.com/tendermint/tendermint/proto/tendermint/crypto"
	tmbits "github.com/tendermint/tendermint/proto/tendermint/libs/bits"
	protomem "github.com/tendermint/tendermint/proto/tendermint/mempool"
	tmp2p "github.com/tendermint/tendermint/proto/tendermint/p2p"
	ssproto "github.com/tendermint/tendermint/proto/tendermint/statesync"
	tmproto "github.com/tendermint/tendermint/proto/tendermint/types"
	"github.com/tendermint/tendermint/statesync"
	"github.com/tendermint/tendermint/types"

	"verif/lib"
)

// tfail adapts *testing.T / *testing.F to failer.
type tfail struct{ testing.TB }

func (t tfail) Fatalf(f string, a ...interface{}) {
	if t.TB == nil {
		panic(fmt.Sprintf(f, a...))
	}
	t.TB.Helper()
	t.TB.Fatalf(f, a...)
}
func (t tfail) Logf(f string, a ...interface{}) {
	if t.TB != nil {
		t.TB.Logf(f, a...)
	}
}

// ---- consensus ---------------------------------------------------------------------------------------------------

var (
	fuzzConsOnce sync.Once
	fuzzConsEnvs [2]*consEnv // 0: established chain, node in the prevote step; 1: fresh chain, first height, before round 0
	fuzzConsDead [2]bool     // the node's consensus has halted (reported once)
	fuzzConsMu   sync.Mutex
)

func consFuzzEnv(tb testing.TB, i int) *consEnv {
	fuzzConsOnce.Do(func() {
		e := newConsEnv(tfail{tb}, 4, 3, -1, 1)
		e.drive("prevotes")
		fuzzConsEnvs[0] = e
		fuzzConsEnvs[1] = newConsEnv(tfail{tb}, 4, 0, -1, 1)
	})
	return fuzzConsEnvs[i]
}

var consFuzzChans = []byte{consensus.StateChannel, consensus.DataChannel, consensus.VoteChannel, consensus.VoteSetBitsChannel}
var consFuzzPeerStates = []string{"fresh", "same", "lag1", "lag2", "ahead", "same-round1", "round1-pol0"}

// consPeerInto puts a fresh peer into one of a few states with one valid NewRoundStep.
func consPeerInto(t failer, e *consEnv, p *hpeer, state string) {
	h, r := e.h, int32(0)
	switch state {
	case "fresh":
		return
	case "lag1":
		h--
	case "lag2":
		h -= 2
	case "ahead":
		h += 2
	case "same-round1", "round1-pol0":
		r = 1
	}
	lcr := int32(0)
	if h <= 1 {
		h, lcr = 1, -1
	}
	o := deliver(t, e.sw, e.conR, consensus.StateChannel, p, wrapCons(&tmcons.NewRoundStep{Height: h, Round: r, Step: 3, LastCommitRound: lcr}), "NewRoundStep")
	if o.panicked || o.dropped {
		t.Fatalf("valid NewRoundStep got the peer dropped")
	}
	if state == "round1-pol0" {
		// the peer also claims a proposal for (H, 1) with POLRound 0 — recorded by the reactor whatever the signature
		prop := tmproto.Proposal{Type: tmproto.ProposalType, Height: h, Round: r, PolRound: 0, Timestamp: time.Unix(1_700_000_100, 0).UTC(),
			BlockID: tmproto.BlockID{Hash: b32(1), PartSetHeader: tmproto.PartSetHeader{Total: 1, Hash: b32(2)}}, Signature: fill(3, 64)}
		o = deliver(t, e.sw, e.conR, consensus.DataChannel, p, wrapCons(&tmcons.Proposal{Proposal: prop}), "Proposal")
		if o.panicked || o.dropped {
			t.Fatalf("well-formed Proposal got the peer dropped")
		}
	}
}

func consSeeds(e *consEnv) [][2]interface{} {
	rs := e.cs.GetRoundState()
	ohh := rs.ProposalBlockParts.Header()
	oh := ohh.ToProto()
	bid := tmproto.BlockID{Hash: rs.ProposalBlock.Hash(), PartSetHeader: oh}
	h := e.h
	ba := func(bits int64, n int) *tmbits.BitArray {
		b := &tmbits.BitArray{Bits: bits}
		if n > 0 {
			b.Elems = make([]uint64, n)
		}
		return b
	}
	prop := func(hh int64, rr int32, total uint32, pol int32) []byte {
		p := tmproto.Proposal{Type: tmproto.ProposalType, Height: hh, Round: rr, PolRound: pol, Timestamp: time.Unix(1_700_000_100, 0).UTC(),
			BlockID: tmproto.BlockID{Hash: b32(1), PartSetHeader: tmproto.PartSetHeader{Total: total, Hash: b32(2)}}}
		pc := p
		if err := lib.PV(300).SignProposal(e.chainID, &pc); err != nil {
			panic(err)
		}
		p.Signature = pc.Signature
		return wrapCons(&tmcons.Proposal{Proposal: p})
	}
	vote := func(idx int32, round int32) []byte {
		v := e.signedVote(1, tmproto.PrevoteType, round, types.BlockID{}, false)
		v.ValidatorIndex = idx
		return wrapCons(&tmcons.Vote{Vote: v.ToProto()})
	}
	part := func(idx uint32, total int64, aunts int) []byte {
		as := make([][]byte, aunts)
		for i := range as {
			as[i] = b32(uint64(i))
		}
		return wrapCons(&tmcons.BlockPart{Height: h, Round: 0, Part: tmproto.Part{Index: idx, Bytes: fill(1, 100), Proof: tmcrypto.Proof{Total: total, Index: int64(idx), LeafHash: b32(3), Aunts: as}}})
	}
	S, D, V, B := byte(0), byte(1), byte(2), byte(3)
	seeds := [][2]interface{}{
		{S, wrapCons(&tmcons.NewRoundStep{Height: h, Round: 0, Step: 3, LastCommitRound: 0})},
		{S, wrapCons(&tmcons.NewRoundStep{Height: math.MaxInt64, Round: math.MaxInt32, Step: 8, SecondsSinceStartTime: math.MinInt64, LastCommitRound: math.MaxInt32})},
		{S, wrapCons(&tmcons.NewRoundStep{Height: 1, Round: 0, Step: 1, LastCommitRound: -1})},
		{S, wrapCons(&tmcons.NewRoundStep{Height: h, Round: -1, Step: 300, LastCommitRound: -2})},
		{S, wrapCons(&tmcons.NewValidBlock{Height: h, Round: 0, BlockPartSetHeader: oh, BlockParts: ba(int64(oh.Total), int((oh.Total+63)/64)), IsCommit: false})},
		{S, wrapCons(&tmcons.NewValidBlock{Height: h, Round: 0, BlockPartSetHeader: oh, BlockParts: ba(int64(oh.Total), 0), IsCommit: true})},
		{S, wrapCons(&tmcons.NewValidBlock{Height: h - 1, Round: 0, BlockPartSetHeader: tmproto.PartSetHeader{Total: 1, Hash: b32(4)}, BlockParts: ba(1, 0), IsCommit: true})},
		{S, wrapCons(&tmcons.NewValidBlock{Height: h, Round: 0, BlockPartSetHeader: tmproto.PartSetHeader{Total: 1601, Hash: b32(4)}, BlockParts: ba(1601, 1), IsCommit: true})},
		{S, wrapCons(&tmcons.NewValidBlock{Height: h, Round: 0, BlockPartSetHeader: tmproto.PartSetHeader{Total: 1602, Hash: b32(4)}, BlockParts: ba(1602, 26)})},
		{S, wrapCons(&tmcons.NewValidBlock{Height: h, Round: 0, BlockPartSetHeader: tmproto.PartSetHeader{Total: 4, Hash: b32(4)}, BlockParts: ba(-1, 200)})},
		{S, wrapCons(&tmcons.HasVote{Height: h, Round: 0, Type: tmproto.PrevoteType, Index: 1})},
		{S, wrapCons(&tmcons.HasVote{Height: h, Round: math.MaxInt32, Type: tmproto.PrecommitType, Index: math.MaxInt32})},
		{S, wrapCons(&tmcons.HasVote{Height: h, Round: 0, Type: 99, Index: -1})},
		{S, wrapCons(&tmcons.VoteSetMaj23{Height: h, Round: 0, Type: tmproto.PrevoteType, BlockID: bid})},
		{S, wrapCons(&tmcons.VoteSetMaj23{Height: h, Round: math.MaxInt32, Type: tmproto.PrecommitType, BlockID: tmproto.BlockID{Hash: b32(5), PartSetHeader: tmproto.PartSetHeader{Total: math.MaxUint32, Hash: b32(6)}}})},
		{B, wrapCons(&tmcons.VoteSetBits{Height: h, Round: 0, Type: tmproto.PrevoteType, BlockID: bid, Votes: *ba(4, 1)})},
		{B, wrapCons(&tmcons.VoteSetBits{Height: h, Round: math.MinInt32, Type: tmproto.PrecommitType, BlockID: bid, Votes: *ba(10000, 0)})},
		{B, wrapCons(&tmcons.VoteSetBits{Height: h - 1, Round: 0, Type: tmproto.PrecommitType, BlockID: bid, Votes: *ba(10001, 157)})},
		{B, wrapCons(&tmcons.VoteSetBits{Height: h, Round: 0, Type: tmproto.PrevoteType, BlockID: bid, Votes: *ba(math.MaxInt64, 1)})},
		{D, prop(h, 0, 1, -1)},
		{D, prop(h, 1, 1601, 0)},
		{D, prop(h, 0, 1602, -1)},
		{D, prop(h, 0, math.MaxUint32, -1)},
		{D, prop(h-1, 0, 1<<28, -1)},
		{D, prop(math.MaxInt64, math.MaxInt32, 7, math.MaxInt32-1)},
		{D, prop(h, 0, 1, -2)},
		{D, wrapCons(&tmcons.ProposalPOL{Height: h, ProposalPolRound: 0, ProposalPol: *ba(4, 1)})},
		{D, wrapCons(&tmcons.ProposalPOL{Height: h, ProposalPolRound: 0, ProposalPol: *ba(4, 0)})},
		{D, wrapCons(&tmcons.ProposalPOL{Height: h, ProposalPolRound: math.MaxInt32, ProposalPol: *ba(10000, 157)})},
		{D, wrapCons(&tmcons.ProposalPOL{Height: h, ProposalPolRound: 0, ProposalPol: *ba(-5, 3)})},
		{D, wrapCons(&tmcons.ProposalPOL{Height: h, ProposalPolRound: 0, ProposalPol: *ba(65, 2)})},
		{D, wrapCons(&tmcons.ProposalPOL{Height: h, ProposalPolRound: 0, ProposalPol: *ba(128, 2)})},
		{D, wrapCons(&tmcons.ProposalPOL{Height: h, ProposalPolRound: 0, ProposalPol: *ba(10000, 157)})},
		{D, wrapCons(&tmcons.ProposalPOL{Height: h, ProposalPolRound: 0, ProposalPol: *ba(1, 1)})},
		{B, wrapCons(&tmcons.VoteSetBits{Height: h, Round: 0, Type: tmproto.PrevoteType, BlockID: bid, Votes: *ba(129, 3)})},
		{B, wrapCons(&tmcons.VoteSetBits{Height: h, Round: 0, Type: tmproto.PrecommitType, BlockID: bid, Votes: *ba(1, 1)})},
		{S, wrapCons(&tmcons.NewValidBlock{Height: h, Round: 0, BlockPartSetHeader: tmproto.PartSetHeader{Total: 129, Hash: oh.Hash}, BlockParts: ba(129, 3), IsCommit: true})},
		{D, part(0, 1, 0)},
		{D, part(math.MaxUint32, math.MaxInt64, 100)},
		{D, part(1600, 1601, 101)},
		{V, vote(1, 0)},
		{V, vote(math.MaxInt32, math.MaxInt32)},
		{V, vote(4, 0)},
		{V, wrapCons(&tmcons.Vote{})},
		{S, []byte{}},
		{D, []byte{0xff, 0xff, 0xff, 0xff, 0xff, 0xff, 0xff, 0xff, 0xff, 0x01}},
		{V, []byte{0x0a, 0xff, 0xff, 0xff, 0xff, 0x0f}},
		{D, wrapCons(&tmcons.HasVote{Height: h, Round: 0, Type: tmproto.PrevoteType, Index: 1})}, // wrong channel
	}
	return seeds
}

// consPrecommitBelow: is this a precommit for the height just below h? (signature of a known finding)
func consPrecommitBelow(b []byte, h int64) bool {
	var m tmcons.Message
	if proto.Unmarshal(b, &m) != nil {
		return false
	}
	v := m.GetVote()
	return v != nil && v.Vote != nil && v.Vote.Type == tmproto.PrecommitType && v.Vote.Height+1 == h
}

// consBigProposal: is this a Proposal whose part total exceeds the protocol maximum? (signature of a known finding)
func consBigProposal(b []byte) bool {
	var m tmcons.Message
	if proto.Unmarshal(b, &m) != nil {
		return false
	}
	p := m.GetProposal()
	return p != nil && p.Proposal.BlockID.PartSetHeader.Total > types.MaxBlockPartsCount
}

func FuzzConsensus(f *testing.F) {
	e0 := consFuzzEnv(f, 0)
	for _, s := range consSeeds(e0) {
		for ps := range consFuzzPeerStates {
			f.Add(s[0].(byte)|byte(ps<<2), s[1].([]byte))
		}
	}
	// votes and vote-related messages at heights around the FIRST height of a fresh chain (bit 0x40 = that node)
	for _, h := range []int64{0, 1, 2} {
		for _, typ := range []tmproto.SignedMsgType{tmproto.PrevoteType, tmproto.PrecommitType} {
			v := e0.signedVote(1, typ, 0, types.BlockID{}, false)
			v.Height = h
			for _, ps := range []int{0, 1} {
				f.Add(byte(2)|byte(ps<<2)|0x40, wrapCons(&tmcons.Vote{Vote: v.ToProto()}))
			}
			f.Add(byte(0)|0x40, wrapCons(&tmcons.HasVote{Height: h, Round: 0, Type: typ, Index: 1}))
			f.Add(byte(0)|0x40, wrapCons(&tmcons.VoteSetMaj23{Height: h, Round: 0, Type: typ, BlockID: tmproto.BlockID{}}))
			f.Add(byte(3)|0x40, wrapCons(&tmcons.VoteSetBits{Height: h, Round: 0, Type: typ, BlockID: tmproto.BlockID{}}))
		}
	}
	f.Fuzz(func(t *testing.T, sel byte, data []byte) {
		fuzzConsMu.Lock()
		defer fuzzConsMu.Unlock()
		if len(data) > consMaxMsgSize {
			return
		}
		ei := int(sel>>6) & 1
		e := consFuzzEnv(t, ei)
		if fuzzConsDead[ei] {
			t.Skip("the consensus of this fuzz process's node has halted on an earlier input (reported above)")
		}
		ft := tfail{t}
		e.t = ft
		if wedged() {
			t.Skip("the node of this fuzz process was wedged by an earlier input (reported above): nothing more can be learnt from it")
		}
		ch := consFuzzChans[sel&3]
		pstate := consFuzzPeerStates[int(sel>>2)&0xF%len(consFuzzPeerStates)]
		p := newPeer(sel&0x80 != 0)
		var ps *consensus.PeerState
		must(ft, "consensus: InitPeer+AddPeer for a new connection (Switch.addPeer)", func() { ps = e.addPeer(p) })
		consPeerInto(ft, e, p, pstate)
		before := e.ownStateChecked()
		o := deliver(ft, e.sw, e.conR, ch, p, data, "fuzz")
		alive := e.barrier()
		valid := consDecodes(data)
		lib.Case("FuzzConsensus", lib.FP(sel, data), valid, "peer:"+pstate, fmt.Sprintf("ch:%#x", ch), "=>"+outcomeClass(o), fmt.Sprintf("valid:%v", valid))
		if !alive {
			fuzzConsDead[ei] = true
			if lib.IsKnown(findFirstHeightPrecommit) && ei == 1 && consPrecommitBelow(data, e.h) {
				lib.ObservedKnown(findFirstHeightPrecommit)
				lib.ExcludedByKnown(findFirstHeightPrecommit)
				return
			}
			t.Fatalf("CONSENSUS FAILURE: the consensus receive routine died — consensus of this node has halted — after %s on %#x (peer %s, node at height %d step %v)",
				hx(data), ch, pstate, e.h, e.cs.GetRoundState().Step)
		}
		if o.alloc > allocBound(consMaxMsgSize) {
			if lib.IsKnown(findProposalTotal) && consBigProposal(data) {
				lib.ObservedKnown(findProposalTotal)
				lib.ExcludedByKnown(findProposalTotal)
			} else {
				t.Fatalf("ALLOCATION: %d bytes allocated for a %d-byte message on %#x (> 16 x %d + 1MiB); peer %s; message %s", o.alloc, len(data), ch, consMaxMsgSize, pstate, hx(data))
			}
		}
		if after := e.ownStateChecked(); after != before {
			t.Fatalf("node's own consensus state changed by unauthenticated bytes %s:\nbefore %s\nafter  %s", hx(data), before, after)
		}
		e.settle(p)
		if pn := e.routinePanic(); pn != "" {
			e.clearPanics()
			if lib.IsKnown(findBitArray) && strings.Contains(pn, "bits.(*BitArray)") {
				lib.ObservedKnown(findBitArray)
				lib.ExcludedByKnown(findBitArray)
			} else {
				t.Fatalf("PROCESS DEATH: per-peer routine panicked after %s on %#x (peer %s)\n%s", hx(data), ch, pstate, pn)
			}
		}
		// liveness: the node still serves a well-behaved newcomer and can be inspected
		e.probe(ps)
		if pn := e.routinePanic(); pn != "" {
			e.clearPanics()
			t.Fatalf("PROCESS DEATH: per-peer routine panicked while a well-behaved peer was served after %s on %#x (peer %s)\n%s", hx(data), ch, pstate, pn)
		}
		// disconnect; the peer's three routines must end
		must(ft, "consensus: RemovePeer (Switch.StopPeerGracefully)", func() { e.sw.StopPeerGracefully(p) })
		e.awaitPeerRoutines(p)
	})
}

// closeFuzzEnvs stops the per-process nodes of the fuzz targets (called from TestMain).
func closeFuzzEnvs() {
	for _, e := range fuzzConsEnvs {
		if e != nil {
			abandonAfter(e.close)
		}
	}
	var all []*fuzzTarget
	for _, t := range fuzzMempool {
		all = append(all, t)
	}
	for _, t := range fuzzBlockchain {
		all = append(all, t)
	}
	for _, t := range fuzzPex {
		all = append(all, t)
	}
	all = append(all, fuzzEvidence, fuzzStatesync)
	for _, t := range all {
		if t.env != nil {
			abandonAfter(t.env.close)
		}
	}
}

// ---- the single-channel reactors ---------------------------------------------------------------------------------

type fuzzTarget struct {
	once  sync.Once
	mu    sync.Mutex
	env   *renv
	build func(t failer) *renv
}

func (ft *fuzzTarget) get(tb testing.TB) *renv {
	ft.once.Do(func() { ft.env = ft.build(tfail{tb}) })
	return ft.env
}

// fuzzReactor is the body shared by the simple targets: one message from a fresh peer, oracles, disconnect.
func fuzzReactor(t *testing.T, name string, target *fuzzTarget, ch byte, outbound bool, data []byte, items int, mayChange bool, valid bool, prep func(e *renv, p *hpeer), post ...func(e *renv)) {
	target.mu.Lock()
	defer target.mu.Unlock()
	e := target.get(t)
	if len(data) > e.capOf(ch) {
		return // MConnection would not have delivered it
	}
	ft := tfail{t}
	if wedged() {
		t.Skip("the node of this fuzz process was wedged by an earlier input (reported above): nothing more can be learnt from it")
	}
	own := func() (s string) {
		must(ft, e.name+": reading the node's own state", func() { s = e.own() })
		return
	}
	var p *hpeer
	must(ft, e.name+": InitPeer+AddPeer for a new connection (Switch.addPeer)", func() { p = e.addPeer(outbound) })
	if prep != nil {
		must(ft, e.name+": the node's own calls into the reactor before the message", func() { prep(e, p) })
	}
	before := own()
	o := deliver(ft, e.sw, e.r, ch, p, data, name)
	lib.Case(name, lib.FP(ch, outbound, data), valid, fmt.Sprintf("ch:%#x", ch), "=>"+outcomeClass(o), fmt.Sprintf("valid:%v", valid))
	if o.alloc > allocBoundItems(e.capOf(ch), items) {
		t.Fatalf("ALLOCATION: %s: %d bytes allocated for a %d-byte message (%d items) on %#x (> 16 x %d + 1MiB + 4KiB/item): %s", e.name, o.alloc, len(data), items, ch, e.capOf(ch), hx(data))
	}
	if after := own(); !mayChange && after != before {
		t.Fatalf("%s: node's own state changed by %s:\nbefore %s\nafter  %s", e.name, hx(data), before, after)
	}
	if e.inv != nil {
		var bad string
		must(ft, e.name+": reading the node's own state", func() { bad = e.inv() })
		if bad != "" {
			t.Fatalf("%s: %s (after %s)", e.name, bad, hx(data))
		}
	}
	for _, f := range post {
		f(e) // while the peer is still connected
	}
	// liveness: the reactor still serves everybody else
	e.probe(ft)
	must(ft, e.name+": RemovePeer (Switch.StopPeerGracefully)", func() { e.sw.StopPeerGracefully(p) })
	e.peers = nil
}

var fuzzMempool = map[string]*fuzzTarget{}

func init() {
	for _, v := range []string{"v0", "v1"} {
		v := v
		fuzzMempool[v] = &fuzzTarget{build: func(t failer) *renv {
			mcfg := cfg.DefaultMempoolConfig()
			mcfg.Version, mcfg.Size, mcfg.MaxTxBytes, mcfg.CacheSize = v, 200, 4096, 100
			return newMempoolEnv(t, v, mcfg)
		}}
	}
}

func FuzzMempool(f *testing.F) {
	seeds := [][]byte{
		wrap(&protomem.Txs{Txs: [][]byte{[]byte("a=1")}}),
		wrap(&protomem.Txs{Txs: [][]byte{[]byte("!rejected")}}),
		wrap(&protomem.Txs{Txs: [][]byte{{}, {}, []byte("x"), []byte("x")}}),
		wrap(&protomem.Txs{}),
		wrap(&protomem.Txs{Txs: [][]byte{fill(1, 4096)}}),
		wrap(&protomem.Txs{Txs: [][]byte{fill(1, 4090)}}),
		mustMarshal(&protomem.Message{}),
		{},
		{0x0a, 0xff, 0xff, 0xff, 0xff, 0x0f},
		{0xff, 0xff, 0xff, 0xff, 0xff, 0xff, 0xff, 0xff, 0xff, 0x01},
	}
	many := [][]byte{}
	for i := 0; i < 900; i++ {
		many = append(many, []byte{byte(i), byte(i >> 8)})
	}
	seeds = append(seeds, wrap(&protomem.Txs{Txs: many}))
	for _, s := range seeds {
		f.Add(byte(0), s)
		f.Add(byte(1), s)
		f.Add(byte(2), s)
	}
	f.Fuzz(func(t *testing.T, sel byte, data []byte) {
		v := "v0"
		if sel&1 == 1 {
			v = "v1"
		}
		ch := mempool.MempoolChannel
		if sel&2 != 0 {
			ch = 0x31 // a channel the reactor does not own
		}
		items, mayChange, valid := 0, false, false
		var m protomem.Message
		if proto.Unmarshal(data, &m) == nil && m.GetTxs() != nil {
			items = len(m.GetTxs().Txs)
			valid = items > 0
			for _, tx := range m.GetTxs().Txs {
				if len(tx) == 0 || tx[0] != '!' {
					mayChange = true
				}
			}
		}
		fuzzReactor(t, "FuzzMempool", fuzzMempool[v], ch, sel&4 != 0, data, items, mayChange, valid, nil)
	})
}

var fuzzEvidence = &fuzzTarget{build: func(t failer) *renv { e, _, _ := newEvidenceEnv(t, 3); return e }}

func FuzzEvidence(f *testing.F) {
	// the seeds need a chain for plausible heights and validator addresses
	ch := newChain(tfail{f}, 4, 3, lib.ChainSpec{})
	defer ch.Close()
	vals := ch.ValidatorsAt(2)
	mk := func(height int64, signer int) tmproto.Evidence {
		va := lib.MakeVote(ch.Spec.ChainID, signer, 0, tmproto.PrevoteType, height, 0, lib.ForgeBlockID("a"), ch.Blocks[2].Time.Add(time.Second))
		vb := lib.MakeVote(ch.Spec.ChainID, signer, 0, tmproto.PrevoteType, height, 0, lib.ForgeBlockID("b"), ch.Blocks[2].Time.Add(2*time.Second))
		va.ValidatorAddress, vb.ValidatorAddress = vals.Validators[0].Address, vals.Validators[0].Address
		ev, err := lib.NewDuplicateVote(va, vb, ch.Blocks[2].Time, vals)
		if err != nil {
			panic(err)
		}
		pb, err := types.EvidenceToProto(ev)
		if err != nil {
			panic(err)
		}
		return *pb
	}
	seeds := [][]byte{
		mustMarshal(&tmproto.EvidenceList{Evidence: []tmproto.Evidence{mk(2, 500)}}),
		mustMarshal(&tmproto.EvidenceList{Evidence: []tmproto.Evidence{mk(math.MaxInt64, 500)}}),
		mustMarshal(&tmproto.EvidenceList{Evidence: []tmproto.Evidence{mk(2, 500), mk(2, 500), mk(3, 501)}}),
		mustMarshal(&tmproto.EvidenceList{Evidence: []tmproto.Evidence{{}}}),
		mustMarshal(&tmproto.EvidenceList{}),
		mustMarshal(&tmproto.EvidenceList{Evidence: []tmproto.Evidence{{Sum: &tmproto.Evidence_LightClientAttackEvidence{LightClientAttackEvidence: &tmproto.LightClientAttackEvidence{CommonHeight: math.MaxInt64, TotalVotingPower: math.MaxInt64}}}}}),
		{},
		{0x0a, 0xff, 0xff, 0xff, 0xff, 0x0f},
	}
	for _, s := range seeds {
		f.Add(byte(0), s)
		f.Add(byte(1), s)
	}
	f.Fuzz(func(t *testing.T, sel byte, data []byte) {
		chID := byte(evidence.EvidenceChannel)
		if sel&1 == 1 {
			chID = 0x39
		}
		var l tmproto.EvidenceList
		items, valid := 0, false
		if proto.Unmarshal(data, &l) == nil {
			items = len(l.Evidence)
			valid = items > 0
		}
		// nothing a fuzzer can produce is validly signed evidence: the pool must not change
		fuzzReactor(t, "FuzzEvidence", fuzzEvidence, chID, false, data, items, false, valid, nil)
	})
}

var fuzzBlockchain = map[bool]*fuzzTarget{
	false: {build: func(t failer) *renv { e, _ := newBlockchainEnv(t, 3, false); return e }},
	true:  {build: func(t failer) *renv { e, _ := newBlockchainEnv(t, 3, true); return e }},
}

func FuzzBlockchain(f *testing.F) {
	ch := newChain(tfail{f}, 4, 3, lib.ChainSpec{})
	defer ch.Close()
	pb, _ := ch.Blocks[2].ToProto()
	pb2, _ := ch.Blocks[3].ToProto()
	pb2.Header.Height = math.MaxInt64
	seeds := [][]byte{
		wrap(&bcproto.BlockRequest{Height: 1}),
		wrap(&bcproto.BlockRequest{Height: math.MaxInt64}),
		wrap(&bcproto.BlockRequest{Height: -1}),
		wrap(&bcproto.NoBlockResponse{Height: math.MaxInt64}),
		wrap(&bcproto.StatusRequest{}),
		wrap(&bcproto.StatusResponse{Base: 1, Height: 3}),
		wrap(&bcproto.StatusResponse{Base: 0, Height: math.MaxInt64}),
		wrap(&bcproto.StatusResponse{Base: math.MaxInt64, Height: math.MaxInt64}),
		wrap(&bcproto.StatusResponse{Base: 5, Height: 3}),
		wrap(&bcproto.BlockResponse{Block: pb}),
		wrap(&bcproto.BlockResponse{Block: pb2}),
		wrap(&bcproto.BlockResponse{}),
		mustMarshal(&bcproto.Message{}),
		{},
		{0x0a, 0xff, 0xff, 0xff, 0xff, 0x0f},
	}
	for _, s := range seeds {
		for sel := byte(0); sel < 4; sel++ {
			f.Add(sel, s)
		}
	}
	f.Fuzz(func(t *testing.T, sel byte, data []byte) {
		chID := byte(bcv0.BlockchainChannel)
		if sel&2 != 0 {
			chID = 0x41
		}
		var m bcproto.Message
		valid := proto.Unmarshal(data, &m) == nil && m.Sum != nil
		fuzzReactor(t, "FuzzBlockchain", fuzzBlockchain[sel&1 == 1], chID, false, data, 0, false, valid, nil)
	})
}

var fuzzStatesync = &fuzzTarget{build: func(t failer) *renv { e, _, _ := newStatesyncEnv(t); return e }}

func FuzzStatesync(f *testing.F) {
	seeds := [][2]interface{}{
		{byte(0), wrap(&ssproto.SnapshotsRequest{})},
		{byte(0), wrap(&ssproto.SnapshotsResponse{Height: 5, Format: 1, Chunks: 3, Hash: b32(1)})},
		{byte(0), wrap(&ssproto.SnapshotsResponse{Height: math.MaxUint64, Format: math.MaxUint32, Chunks: 1 << 22, Hash: b32(1), Metadata: fill(2, 5000)})},
		{byte(0), wrap(&ssproto.SnapshotsResponse{Height: 0, Chunks: 0})},
		{byte(1), wrap(&ssproto.ChunkRequest{Height: 5, Format: 1, Index: 0})},
		{byte(1), wrap(&ssproto.ChunkRequest{Height: math.MaxUint64, Format: math.MaxUint32, Index: math.MaxUint32})},
		{byte(1), wrap(&ssproto.ChunkResponse{Height: 5, Format: 1, Index: 2, Chunk: []byte{1, 2, 3}})},
		{byte(1), wrap(&ssproto.ChunkResponse{Height: 5, Format: 1, Index: math.MaxUint32, Missing: true})},
		{byte(1), wrap(&ssproto.ChunkResponse{Height: 5, Missing: true, Chunk: []byte{1}})},
		{byte(0), wrap(&ssproto.ChunkResponse{Height: 5, Chunk: []byte{1}})},
		{byte(1), mustMarshal(&ssproto.Message{})},
		{byte(0), []byte{}},
		{byte(1), []byte{0x0a, 0xff, 0xff, 0xff, 0xff, 0x0f}},
	}
	for _, s := range seeds {
		f.Add(s[0].(byte), s[1].([]byte))
		f.Add(s[0].(byte)|2, s[1].([]byte))
	}
	f.Fuzz(func(t *testing.T, sel byte, data []byte) {
		chID := byte(statesync.SnapshotChannel)
		if sel&1 == 1 {
			chID = statesync.ChunkChannel
		}
		var m ssproto.Message
		valid := proto.Unmarshal(data, &m) == nil && m.Sum != nil
		// sel&2: a state sync is in progress (snapshots and chunks are then taken in)
		fuzzReactor(t, "FuzzStatesync", fuzzStatesync, chID, false, data, 0, false, valid, func(e *renv, p *hpeer) {
			r := e.r.(*statesync.Reactor)
			if sel&2 != 0 {
				r.VerifC17BeginSync(&failingProvider{})
			}
		}, func(e *renv) {
			if sel&2 == 0 {
				return
			}
			// the node's start-up goroutine now chooses among what was advertised (second half of Reactor.Sync)
			r := e.r.(*statesync.Reactor)
			pooled := r.VerifC17SnapshotCount()
			var o recvOutcome
			bounded(tfail{t}, "statesync: Reactor.Sync, second half (SyncAny)", func() { o = measured(func() { _, _, _ = r.VerifC17FinishSync() }) })
			if o.panicked {
				t.Fatalf("PROCESS DEATH: state sync goroutine panicked after %s: %v", hx(data), o.panicVal)
			}
			if o.alloc > uint64(pooled+1)*allocBound(e.caps[statesync.SnapshotChannel]) {
				if lib.IsKnown(findStatesyncChunks) && m.GetSnapshotsResponse() != nil && m.GetSnapshotsResponse().Chunks >= 1<<16 {
					lib.ObservedKnown(findStatesyncChunks)
					lib.ExcludedByKnown(findStatesyncChunks)
				} else {
					t.Fatalf("ALLOCATION: picking among %d advertised snapshots allocated %d bytes after %s", pooled, o.alloc, hx(data))
				}
			}
		})
	})
}

var fuzzPex = map[bool]*fuzzTarget{
	false: {build: func(t failer) *renv { e, _, _ := newPexEnv(t, false, true); return e }},
	true:  {build: func(t failer) *renv { e, _, _ := newPexEnv(t, true, false); return e }},
}

func FuzzPex(f *testing.F) {
	var addrs []tmp2p.NetAddress
	for i := 0; i < 250; i++ {
		addrs = append(addrs, tmp2p.NetAddress{ID: fmt.Sprintf("%040x", i+1), IP: fmt.Sprintf("12.0.%d.%d", i>>8, i&255), Port: 26656})
	}
	seeds := [][]byte{
		wrap(&tmp2p.PexRequest{}),
		wrap(&tmp2p.PexAddrs{Addrs: addrs[:3]}),
		wrap(&tmp2p.PexAddrs{Addrs: addrs}),
		wrap(&tmp2p.PexAddrs{}),
		wrap(&tmp2p.PexAddrs{Addrs: []tmp2p.NetAddress{{ID: "zz", IP: "1.2.3.4", Port: math.MaxUint32}}}),
		wrap(&tmp2p.PexAddrs{Addrs: []tmp2p.NetAddress{{ID: fmt.Sprintf("%040x", 9), IP: strings.Repeat("1", 200), Port: 0}}}),
		mustMarshal(&tmp2p.Message{}),
		{},
		{0x0a, 0xff, 0xff, 0xff, 0xff, 0x0f},
	}
	for _, s := range seeds {
		for sel := byte(0); sel < 8; sel++ {
			f.Add(sel, s)
		}
	}
	f.Fuzz(func(t *testing.T, sel byte, data []byte) {
		var m tmp2p.Message
		valid := proto.Unmarshal(data, &m) == nil && m.Sum != nil
		items := 0
		if a := m.GetPexAddrs(); a != nil {
			items = len(a.Addrs)
		}
		// AddPeer itself asks an outbound peer for addresses while the book wants more (it always does here)
		solicit := sel&4 != 0 || sel&2 != 0
		// an unsolicited message must leave the address book alone; a solicited list may add to it
		fuzzReactor(t, "FuzzPex", fuzzPex[sel&1 == 1], pex.PexChannel, sel&2 != 0, data, items, solicit, valid, func(e *renv, p *hpeer) {
			if sel&4 != 0 {
				e.r.(*pex.Reactor).RequestAddrs(p)
			}
		})
	})
}

// ---- thorough tier: the mutation engine --------------------------------------------------------------------------

// TestFuzzThorough runs `-test.fuzz` for every target for a slice of the thorough budget (no-op in the quick tier).
// The binary is built without coverage instrumentation by the driver, so this is blind mutation from the seed corpus;
// for coverage-guided fuzzing run, from /verif/harness:
//
//	go test -tags verif -vet=off -overlay /verif/build/main/overlay.json -modfile /verif/build/main/go.mod ./c17/ -run '^$' -fuzz '^FuzzConsensus$' -fuzztime 10m
func TestFuzzThorough(t *testing.T) {
	if !lib.Thorough() {
		t.Skip("thorough tier only")
	}
	targets := []string{"FuzzConsensus", "FuzzMempool", "FuzzEvidence", "FuzzBlockchain", "FuzzStatesync", "FuzzPex"}
	shard := 0
	fmt.Sscan(os.Getenv("VERIF_SHARD"), &shard)
	target := targets[shard%len(targets)]
	secs := 60
	if n := os.Getenv("VERIF_N"); n != "" {
		fmt.Sscan(n, &secs)
	}
	cache, err := os.MkdirTemp("", "c17-fuzzcache-")
	if err != nil {
		t.Fatalf("VERIF-INFRA: %v", err)
	}
	defer os.RemoveAll(cache)
	cmd := exec.Command(os.Args[0], "-test.run", "^$", "-test.fuzz", "^"+target+"$", "-test.fuzztime", fmt.Sprintf("%ds", secs),
		"-test.fuzzcachedir", cache, "-test.parallel", "2", "-test.timeout", fmt.Sprintf("%ds", secs+300))
	cmd.Env = append(os.Environ(), "VERIF_STATS_OUT=") // the workers must not overwrite this process's statistics
	out, err := cmd.CombinedOutput()
	lib.Note("fuzz:"+target, lastLines(string(out), 3))
	lib.Case("TestFuzzThorough", lib.FP(target, shard), true, "target:"+target)
	if err != nil {
		crashers, _ := filepath.Glob(filepath.Join("testdata", "fuzz", target, "*"))
		t.Fatalf("fuzzing %s failed: %v\ncrashers: %v\n%s", target, err, crashers, lastLines(string(out), 80))
	}
}

// hx prints a (possibly long) message compactly.
func hx(b []byte) string {
	if len(b) <= 96 {
		return fmt.Sprintf("%x", b)
	}
	return fmt.Sprintf("%x...(%d bytes)", b[:96], len(b))
}

func lastLines(s string, n int) string {
	l := strings.Split(strings.TrimSpace(s), "\n")
	if len(l) > n {
		l = l[len(l)-n:]
	}
	return strings.Join(l, "\n")
}
