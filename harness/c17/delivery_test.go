// C17 (a) — MConnection delivery: every message accepted for sending on a channel reaches the receiver's onReceive
// exactly once, unmodified, in per-channel order, for any size mix and any cross-channel interleaving; an oversize
// message or a packet for an unknown channel only makes the RECEIVER's onError fire and never reaches onReceive.
//
// Two real MConnections (conn.NewMConnectionWithConfig) over net.Pipe. Real goroutines and real timers: this is
// schedule sampling (race build); the oracle only asserts what holds under every interleaving.
package c17

import (
	"bytes"
	"encoding/binary"
	"fmt"
	"io"
	"net"
	"sync"
	"testing"
	"time"

	"github.com/gogo/protobuf/proto"
	"github.com/tendermint/tendermint/libs/log"
	"github.com/tendermint/tendermint/p2p/conn"
	tmp2p "github.com/tendermint/tendermint/proto/tendermint/p2p"
	"pgregory.net/rapid"

	"verif/lib"
)

const deliveryWait = 20 * time.Second

// fill expands a drawn seed to n pseudo-random bytes (content only; every choice that matters is a rapid draw).
func fill(seed uint64, n int) []byte {
	b := make([]byte, n)
	x := seed*0x9E3779B97F4A7C15 + 0x1234567
	for i := range b {
		x ^= x << 13
		x ^= x >> 7
		x ^= x << 17
		b[i] = byte(x >> 24)
	}
	return b
}

type chanSpec struct {
	id       byte
	prio     int
	sendQ    int
	recvCap  int
	recvBuf  int
	accepted [][]byte // accepted-for-send sequence, in acceptance order (guarded by mu)
	mu       sync.Mutex
}

type sendOp struct {
	ch   int
	size int
	try  bool
	seed uint64
}

type recvSide struct {
	mu     sync.Mutex
	got    map[byte][][]byte
	n      int
	errs   []interface{}
	notify chan struct{}
	last   time.Time // last receive/error event
}

// stalled reports for how long the receiver has seen no event at all.
func (r *recvSide) stalled() time.Duration {
	r.mu.Lock()
	defer r.mu.Unlock()
	if r.last.IsZero() {
		return 0
	}
	return time.Since(r.last)
}

func (r *recvSide) onReceive(ch byte, b []byte) {
	c := append([]byte(nil), b...) // the API documents that b is reused
	r.mu.Lock()
	r.got[ch] = append(r.got[ch], c)
	r.n++
	r.last = time.Now()
	r.mu.Unlock()
	select {
	case r.notify <- struct{}{}:
	default:
	}
}

func (r *recvSide) onError(e interface{}) {
	r.mu.Lock()
	r.errs = append(r.errs, e)
	r.last = time.Now()
	r.mu.Unlock()
	select {
	case r.notify <- struct{}{}:
	default:
	}
}

func (r *recvSide) snapshot() (int, int) {
	r.mu.Lock()
	defer r.mu.Unlock()
	return r.n, len(r.errs)
}

// waitFor polls cond (re-evaluated on every receiver event) until it holds or the generous deadline passes.
func (r *recvSide) waitFor(cond func(n, nerr int) bool) bool {
	deadline := time.NewTimer(deliveryWait)
	defer deadline.Stop()
	for {
		if cond(r.snapshot()) {
			return true
		}
		select {
		case <-r.notify:
		case <-time.After(2 * time.Millisecond):
		case <-deadline.C:
			return cond(r.snapshot())
		}
	}
}

// lostSummary lists, per channel, the sizes accepted for sending and the sizes delivered.
func lostSummary(chans []*chanSpec, rs *recvSide) string {
	rs.mu.Lock()
	defer rs.mu.Unlock()
	out := ""
	for _, c := range chans {
		var a, g []int
		for _, m := range c.accepted {
			a = append(a, len(m))
		}
		for _, m := range rs.got[c.id] {
			g = append(g, len(m))
		}
		if len(a) != len(g) {
			out += fmt.Sprintf("channel %#x: accepted sizes %v, delivered sizes %v; ", c.id, a, g)
		}
	}
	return out
}

const zeroLenFinding = "C17-zero-length-message-lost"

// writeRawPacket writes one length-delimited p2p Packet carrying a PacketMsg, as the wire format defines it
// (uvarint length, then the protobuf encoding) — independent of MConnection's own sending code.
func writeRawPacket(w io.Writer, chID byte, eof bool, data []byte) error {
	pkt := &tmp2p.Packet{Sum: &tmp2p.Packet_PacketMsg{PacketMsg: &tmp2p.PacketMsg{ChannelID: int32(chID), EOF: eof, Data: data}}}
	body, err := proto.Marshal(pkt)
	if err != nil {
		panic(err)
	}
	var hdr [binary.MaxVarintLen64]byte
	n := binary.PutUvarint(hdr[:], uint64(len(body)))
	_, err = w.Write(append(hdr[:n:n], body...))
	return err
}

// bucket coarsens a byte count for the class histogram.
func bucket(n int) int {
	switch {
	case n <= 0:
		return 0
	case n <= 1024:
		return 1024
	case n <= 4096:
		return 4096
	default:
		return 1 << 20
	}
}

func genSize(t *rapid.T, payload, recvCap int, label string) int {
	cands := []int{0, 1, payload - 1, payload, payload + 1, 2 * payload, 2*payload + 1, 3 * payload, recvCap - 1, recvCap, recvCap / 2}
	var s int
	if rapid.IntRange(0, 9).Draw(t, label+".kind") < 7 {
		s = rapid.SampledFrom(cands).Draw(t, label+".edge")
	} else {
		s = rapid.IntRange(0, recvCap).Draw(t, label+".any")
	}
	if s < 0 {
		s = 0
	}
	if s > recvCap {
		s = recvCap
	}
	if s == 0 && lib.IsKnown(zeroLenFinding) {
		// listed known finding: empty messages are excluded by construction so that the search continues behind it
		lib.ExcludedByKnown(zeroLenFinding)
		s = 1
	}
	return s
}

func TestDelivery(t *testing.T) {
	rapid.Check(t, func(t *rapid.T) {
		// MaxPacketMsgPayloadSize is configuration (p2p.max_packet_msg_payload_size): small values, the default, and values
		// around the points where the packet envelope's length prefixes grow by a byte (127/128, 16375/16376/16384) and
		// the usual "tuned" sizes above the default
		payload := rapid.SampledFrom([]int{1, 3, 16, 100, 118, 127, 128, 1024, 1024, 1024, 4096, 16375, 16376, 16384, 32768, 65536}).Draw(t, "payload")
		nCh := rapid.SampledFrom([]int{1, 2, 2, 3, 3, 4}).Draw(t, "nch")
		// channel ids: mostly the range the stock reactors use (< 0x80), sometimes the upper half
		maxID := byte(0x7F)
		if rapid.IntRange(0, 3).Draw(t, "highids") == 0 {
			if lib.IsKnown(highChanFinding) {
				lib.ExcludedByKnown(highChanFinding)
			} else {
				maxID = 0xFF
			}
		}
		ids := rapid.SliceOfNDistinct(rapid.ByteRange(0, maxID), nCh+1, nCh+1, rapid.ID[byte]).Draw(t, "ids")
		chans := make([]*chanSpec, nCh)
		var rdescs, sdescs []*conn.ChannelDescriptor
		for i := range chans {
			capKind := rapid.SampledFrom([]string{"tiny", "one-packet", "few-packets", "many"}).Draw(t, fmt.Sprintf("ch%d.capkind", i))
			var rc int
			switch capKind {
			case "tiny":
				rc = rapid.IntRange(1, 8).Draw(t, "cap")
			case "one-packet":
				rc = payload + rapid.IntRange(-1, 1).Draw(t, "cap")
			case "few-packets":
				rc = 3*payload + rapid.IntRange(0, payload).Draw(t, "cap")
			default:
				rc = rapid.IntRange(5*payload, 5*payload+20000/(1+1024/payload)).Draw(t, "cap")
			}
			if rc < 1 {
				rc = 1
			}
			c := &chanSpec{id: ids[i], prio: rapid.IntRange(1, 10).Draw(t, "prio"), sendQ: rapid.IntRange(1, 6).Draw(t, "sendq"),
				recvCap: rc, recvBuf: rapid.SampledFrom([]int{0, 1, 64, 4096}).Draw(t, "recvbuf")}
			chans[i] = c
			// the receiver's view (capacities matter here)
			rdescs = append(rdescs, &conn.ChannelDescriptor{ID: c.id, Priority: c.prio, SendQueueCapacity: 1,
				RecvMessageCapacity: c.recvCap, RecvBufferCapacity: c.recvBuf})
			// the sender's view (send queue and priority matter here)
			sdescs = append(sdescs, &conn.ChannelDescriptor{ID: c.id, Priority: c.prio, SendQueueCapacity: c.sendQ,
				RecvMessageCapacity: c.recvCap})
		}
		unknownID := ids[nCh]
		sdescs = append(sdescs, &conn.ChannelDescriptor{ID: unknownID, Priority: 1, SendQueueCapacity: 1})

		nG := rapid.IntRange(1, 4).Draw(t, "goroutines")
		plans := make([][]sendOp, nG)
		total, multi := 0, 0
		maxOps := 12
		if lib.Thorough() {
			maxOps = 30
		}
		for g := range plans {
			n := rapid.IntRange(1, maxOps).Draw(t, fmt.Sprintf("g%d.n", g))
			for k := 0; k < n; k++ {
				ci := rapid.IntRange(0, nCh-1).Draw(t, "op.ch")
				sz := genSize(t, payload, chans[ci].recvCap, "op.size")
				if sz > payload {
					multi++
				}
				plans[g] = append(plans[g], sendOp{ch: ci, size: sz, try: rapid.Bool().Draw(t, "op.try"), seed: rapid.Uint64().Draw(t, "op.seed")})
				total++
			}
		}
		hostile := rapid.SampledFrom([]string{"none", "oversize", "oversize-by-many", "unknown-channel", "unterminated-stream", "unterminated-stream"}).Draw(t, "hostile")
		hostileCh := rapid.IntRange(0, nCh-1).Draw(t, "hostile.ch")

		cfg := conn.DefaultMConnConfig()
		cfg.MaxPacketMsgPayloadSize = payload
		cfg.SendRate, cfg.RecvRate = 0, 0 // unthrottled
		cfg.FlushThrottle = time.Duration(rapid.SampledFrom([]int{50, 200, 1000}).Draw(t, "flush_us")) * time.Microsecond

		c1, c2 := net.Pipe()
		rs := &recvSide{got: map[byte][][]byte{}, notify: make(chan struct{}, 1)}
		ss := &recvSide{got: map[byte][][]byte{}, notify: make(chan struct{}, 1)}
		sender := conn.NewMConnectionWithConfig(c1, sdescs, ss.onReceive, ss.onError, cfg)
		receiver := conn.NewMConnectionWithConfig(c2, rdescs, rs.onReceive, rs.onError, cfg)
		sender.SetLogger(log.NewNopLogger())
		receiver.SetLogger(log.NewNopLogger())
		if err := sender.Start(); err != nil {
			t.Fatalf("start: %v", err)
		}
		if err := receiver.Start(); err != nil {
			t.Fatalf("start: %v", err)
		}
		defer func() {
			sender.Stop()   //nolint
			receiver.Stop() //nolint
			c1.Close()
			c2.Close()
		}()

		var wg sync.WaitGroup
		var rejected int64
		var rejMu sync.Mutex
		for g := range plans {
			wg.Add(1)
			go func(ops []sendOp) {
				defer wg.Done()
				for _, op := range ops {
					c := chans[op.ch]
					msg := fill(op.seed, op.size)
					// the lock makes the acceptance order on this channel known to the oracle; sends on different
					// channels stay fully concurrent
					c.mu.Lock()
					var ok bool
					if op.try {
						ok = sender.TrySend(c.id, msg)
					} else {
						ok = sender.Send(c.id, msg)
					}
					if ok {
						c.accepted = append(c.accepted, msg)
					}
					c.mu.Unlock()
					if !ok {
						rejMu.Lock()
						rejected++
						rejMu.Unlock()
					}
				}
			}(plans[g])
		}
		wg.Wait()
		want := 0
		for _, c := range chans {
			want += len(c.accepted)
		}

		nontrivial := nCh >= 2 && multi > 0
		lib.Case("TestDelivery", lib.FP(payload, nCh, nG, total, multi, hostile, fmt.Sprint(plans)), nontrivial,
			fmt.Sprintf("channels:%d", nCh), fmt.Sprintf("payload:%d", payload), fmt.Sprintf("high-ids:%v", maxID == 0xFF), fmt.Sprintf("goroutines:%d", nG), "hostile:"+hostile,
			fmt.Sprintf("multipacket:%v", multi > 0), fmt.Sprintf("rejected-some:%v", rejected > 0))

		if !rs.waitFor(func(n, nerr int) bool { return n >= want || nerr > 0 }) {
			n, _ := rs.snapshot()
			if st := rs.stalled(); st < deliveryWait/2 && n > 0 {
				t.Fatalf("VERIF-INFRA: delivery of %d accepted messages not finished after %v (got %d, still progressing)", want, deliveryWait, n)
			}
			// nothing at all has arrived for >= 10 s on an unthrottled in-memory pipe with every sender done: the
			// remaining messages are not coming
			t.Fatalf("connection up, all senders done, no receiver event for %v: %d accepted, %d delivered — %s", rs.stalled().Round(time.Second), want, n, lostSummary(chans, rs))
		}
		if _, nerr := rs.snapshot(); nerr > 0 {
			t.Fatalf("receiver reported an error although only in-capacity messages on known channels were sent: %v", rs.errs)
		}
		if _, nerr := ss.snapshot(); nerr > 0 {
			t.Fatalf("sender reported an error during plain delivery: %v", ss.errs)
		}

		// hostile tail: everything accepted so far has already been delivered, so nothing legitimate is in flight
		switch hostile {
		case "oversize", "oversize-by-many":
			c := chans[hostileCh]
			extra := 1
			if hostile == "oversize-by-many" {
				extra = rapid.IntRange(2, 3*payload+2).Draw(t, "hostile.extra")
			}
			if !sender.Send(c.id, fill(7, c.recvCap+extra)) {
				t.Fatalf("VERIF-INFRA: could not enqueue the oversize message")
			}
		case "unknown-channel":
			if !sender.Send(unknownID, fill(9, rapid.IntRange(0, 2*payload).Draw(t, "hostile.size"))) {
				t.Fatalf("VERIF-INFRA: could not enqueue the unknown-channel message")
			}
		case "unterminated-stream":
			// A peer that never finishes its message: packets WITHOUT the EOF flag, written straight onto the wire (a
			// well-behaved MConnection cannot produce them). The receiver must cut the connection at the packet that takes
			// the partial message past the channel's RecvMessageCapacity — not buffer on until an EOF that never comes.
			c := chans[hostileCh]
			chunk := rapid.SampledFrom([]int{payload, payload, 1, payload/2 + 1}).Draw(t, "hostile.chunk")
			if chunk > payload {
				chunk = payload
			}
			prefill := rapid.SampledFrom([]string{"none", "exactly-capacity", "one-below"}).Draw(t, "hostile.prefill")
			acc, past, refused := 0, 0, false
			write := func(n int) bool {
				if err := writeRawPacket(c1, c.id, false, fill(uint64(acc), n)); err != nil {
					refused = true // the receiver has closed the connection
					return false
				}
				acc += n
				return true
			}
			// optional: walk up to the capacity (or one byte below) first — that much the receiver may hold
			target := 0
			switch prefill {
			case "exactly-capacity":
				target = c.recvCap
			case "one-below":
				target = c.recvCap - 1
			}
			for acc < target && !refused {
				n := chunk
				if acc+n > target {
					n = target - acc
				}
				write(n)
			}
			// then keep streaming. Between the wire and recvPacketMsg sit a 1024-byte bufio.Reader and at most one packet
			// being read (up to payload+~12 bytes), so once more than that has been ACCEPTED by the pipe AFTER the packet
			// that crossed the capacity, that packet has provably been handled without an error.
			slack := 2048 + 2*(payload+16)
			crossed := false
			for !refused && past < slack {
				if !write(chunk) {
					break
				}
				if crossed {
					past += chunk + 8 // wire bytes accepted AFTER the packet that crossed the capacity
				}
				if acc > c.recvCap {
					crossed = true
				}
			}
			if _, nerr := rs.snapshot(); !refused && nerr == 0 {
				t.Fatalf("receiver keeps buffering an unterminated message: channel %#x has RecvMessageCapacity %d, %d bytes in non-EOF packets of %d bytes were taken (capacity crossed %d wire bytes ago) and the connection is still up without any error",
					c.id, c.recvCap, acc, chunk, past)
			}
			lib.Class("TestDelivery", "unterminated-prefill:"+prefill, fmt.Sprintf("unterminated-cut-after-bytes-over:%d", bucket(acc-c.recvCap)))
		}
		if hostile != "none" {
			if !rs.waitFor(func(n, nerr int) bool { return nerr > 0 }) {
				t.Fatalf("%s message did not make the receiver's onError fire within %v (receiver running=%v)", hostile, deliveryWait, receiver.IsRunning())
			}
			if receiver.IsRunning() {
				t.Fatalf("receiver still running after %s message", hostile)
			}
		} else {
			// orderly end: flush and close; the receiver sees EOF after having processed every byte written
			sender.FlushStop()
			if !rs.waitFor(func(n, nerr int) bool { return nerr > 0 }) {
				t.Fatalf("VERIF-INFRA: receiver did not observe the close within %v", deliveryWait)
			}
		}

		// oracle: per channel the received sequence equals the accepted sequence exactly
		rs.mu.Lock()
		defer rs.mu.Unlock()
		for _, c := range chans {
			got := rs.got[c.id]
			if len(got) != len(c.accepted) {
				t.Fatalf("channel %#x: %d messages accepted for sending, %d delivered (hostile=%s)", c.id, len(c.accepted), len(got), hostile)
			}
			for i := range got {
				if !bytes.Equal(got[i], c.accepted[i]) {
					t.Fatalf("channel %#x message %d altered/reordered: sent %d bytes %.16x.., received %d bytes %.16x..", c.id, i,
						len(c.accepted[i]), c.accepted[i], len(got[i]), got[i])
				}
			}
		}
		if g := rs.got[unknownID]; len(g) > 0 {
			t.Fatalf("message for unknown channel %#x reached onReceive", unknownID)
		}
		for id := range rs.got {
			known := false
			for _, c := range chans {
				known = known || c.id == id
			}
			if !known {
				t.Fatalf("onReceive called for channel %#x that the receiver does not have", id)
			}
		}
	})
}
