// C17 (b) — consensus reactor under hostile input.
package c17

import (
	"fmt"
	"math"
	"strings"
	"testing"
	"time"

	"github.com/gogo/protobuf/proto"
	"pgregory.net/rapid"

	"github.com/tendermint/tendermint/consensus"
	"github.com/tendermint/tendermint/crypto/merkle"
	tmcons "github.com/tendermint/tendermint/proto/tendermint/consensus"
	tmcrypto "github.com/tendermint/tendermint/proto/tendermint/crypto"
	tmbits "github.com/tendermint/tendermint/proto/tendermint/libs/bits"
	tmproto "github.com/tendermint/tendermint/proto/tendermint/types"
	"github.com/tendermint/tendermint/types"

	"verif/lib"
)

const (
	findProposalTotal = "C17-proposal-part-total-unbounded-alloc"
	findBitArray      = "C17-bitarray-size-mismatch-kills-gossip-routine"
	// precommit for InitialHeight-1 while the node waits in NewHeight of the chain's first height: LastCommit is a nil
	// *VoteSet there and addVote calls AddVote on it
	findFirstHeightPrecommit = "C17-precommit-before-first-height"
)

// hmsg is one generated message for a consensus channel.
type hmsg struct {
	ch    byte
	kind  string
	b     []byte
	valid bool // passes decoding + ValidateBasic (classification only)
	// expectations
	validInput bool // a genuinely valid contribution (correctly signed vote): the node's state MAY change
	bigTotal   bool // Proposal whose PartSetHeader.Total exceeds types.MaxBlockPartsCount
	badBits    bool // carries a bit array whose Elems do not match Bits
}

func b32(seed uint64) []byte { return fill(seed, 32) }

type consGen struct {
	t       *rapid.T
	e       *consEnv
	prs     func() (h int64, r int32, polRound int32)
	pending []hmsg // follow-ups of a directed chain, delivered before anything else is drawn
}

func (g *consGen) height(label string) int64 {
	ph, _, _ := g.prs()
	ih := g.e.chain.Spec.InitialHeight
	return rapid.SampledFrom([]int64{g.e.h, g.e.h, g.e.h, ph, ph, g.e.h - 1, g.e.h - 1, g.e.h + 1, g.e.h - 2, ih - 1, ih, 0, 1, math.MaxInt64, math.MaxInt64 - 1}).Draw(g.t, label)
}

func (g *consGen) round(label string) int32 {
	_, pr, _ := g.prs()
	nr := g.e.cs.GetRoundState().Round
	if pr < 0 {
		pr = 0
	}
	return rapid.SampledFrom([]int32{nr, nr, pr, pr, 0, 1, 2, math.MaxInt32, math.MaxInt32 - 1}).Draw(g.t, label)
}

func (g *consGen) voteType(label string) tmproto.SignedMsgType {
	return rapid.SampledFrom([]tmproto.SignedMsgType{tmproto.PrevoteType, tmproto.PrecommitType, tmproto.PrevoteType, tmproto.PrecommitType, tmproto.ProposalType, 0}).Draw(g.t, label)
}

// bitArray draws a protobuf bit array: mostly plausible sizes, and Elems that may or may not fit Bits.
func (g *consGen) bitArray(natural int, label string) (tmbits.BitArray, bool) {
	// sizes around the node's own array (same words), with MORE words (65, 128, 129, 1601, 10000) and with FEWER (1, 64)
	bits := rapid.SampledFrom([]int64{int64(natural), int64(natural), int64(natural), int64(natural) + 1, int64(natural) - 1, 1, 64, 65, 65, 128, 129, 1601, 10000,
		10001, 0, -1, math.MaxInt64}).Draw(g.t, label+".bits")
	want := 0
	if bits > 0 && bits < 1<<20 {
		want = int((bits + 63) / 64)
	}
	n := want
	switch rapid.SampledFrom([]string{"fit", "fit", "fit", "fit", "fit", "fit", "none", "short", "long", "many"}).Draw(g.t, label+".elems") {
	case "none":
		n = 0
	case "short":
		n = want - 1
	case "long":
		n = want + 1
	case "many":
		n = 200
	}
	if n < 0 {
		n = 0
	}
	elems := make([]uint64, n)
	switch rapid.SampledFrom([]string{"zero", "ones", "mixed"}).Draw(g.t, label+".fill") {
	case "ones":
		for i := range elems {
			elems[i] = math.MaxUint64
		}
	case "mixed":
		for i := range elems {
			elems[i] = 0xAAAAAAAAAAAAAAAA >> uint(i%3)
		}
	}
	var e []uint64
	if n > 0 {
		e = elems
	}
	return tmbits.BitArray{Bits: bits, Elems: e}, n != want
}

func (g *consGen) ourHeader() (tmproto.PartSetHeader, []byte) {
	rs := g.e.cs.GetRoundState()
	if rs.ProposalBlockParts != nil {
		h := rs.ProposalBlockParts.Header()
		var bh []byte
		if rs.Proposal != nil {
			bh = rs.Proposal.BlockID.Hash
		}
		return h.ToProto(), bh
	}
	// a stored block's header (catch-up)
	if m := g.e.chain.BlockStore.LoadBlockMeta(g.e.h - 1); m != nil {
		return m.BlockID.PartSetHeader.ToProto(), m.BlockID.Hash
	}
	return tmproto.PartSetHeader{Total: 1, Hash: b32(1)}, b32(2)
}

func (g *consGen) blockID(label string, totals []uint32) tmproto.BlockID {
	oh, bh := g.ourHeader()
	switch rapid.SampledFrom([]string{"ours", "random", "random", "nil"}).Draw(g.t, label+".bid") {
	case "ours":
		if len(bh) == 32 {
			return tmproto.BlockID{Hash: bh, PartSetHeader: oh}
		}
		fallthrough
	case "random":
		return tmproto.BlockID{Hash: b32(rapid.Uint64().Draw(g.t, label+".h")), PartSetHeader: tmproto.PartSetHeader{
			Total: rapid.SampledFrom(totals).Draw(g.t, label+".total"), Hash: b32(rapid.Uint64().Draw(g.t, label+".ph"))}}
	}
	return tmproto.BlockID{}
}

var smallTotals = []uint32{1, 1, 2, 64, 65, 1601}
var hugeTotals = []uint32{1, 2, 65, 1601, 1602, 1 << 16, 1 << 24, 1 << 28, 1 << 30, math.MaxUint32}

var consKinds = []string{
	"NewRoundStep", "NewValidBlock", "NewValidBlock", "HasVote", "VoteSetMaj23", "VoteSetBits", "VoteSetBits",
	"Proposal", "Proposal", "Proposal", "ProposalPOL", "ProposalPOL", "BlockPart", "BlockPart", "Vote", "Vote",
	"valid-vote", "wrong-channel", "raw-garbage",
	"chain:proposal-then-POL", "chain:proposal-then-POL",
}

func (g *consGen) gen() hmsg {
	t, e := g.t, g.e
	if len(g.pending) > 0 {
		m := g.pending[0]
		g.pending = g.pending[1:]
		return m
	}
	kind := rapid.SampledFrom(consKinds).Draw(t, "kind")
	m := hmsg{kind: kind}
	ph, pr, ppol := g.prs()
	switch kind {
	case "chain:proposal-then-POL":
		// What a peer does to make the node track a proof-of-lock bit array of the PEER's choosing: announce (H, R),
		// send a Proposal for (H, R) with POLRound p != R (any signature: the reactor records it before the state machine
		// checks it), then ProposalPOL{H, p, bits}. gossipVotesRoutine then subtracts that array from the node's own
		// prevotes of round p.
		nrs := e.cs.GetRoundState()
		hh := rapid.SampledFrom([]int64{e.h, e.h, e.h, ph}).Draw(t, "chain.h")
		if hh < e.chain.Spec.InitialHeight {
			hh = e.h
		}
		rr := rapid.SampledFrom([]int32{nrs.Round + 1, nrs.Round + 1, nrs.Round, 1, 2, 0}).Draw(t, "chain.r")
		pol := rapid.SampledFrom([]int32{0, 0, nrs.Round, rr - 1, rr + 1, 1}).Draw(t, "chain.pol")
		if pol < 0 {
			pol = 0
		}
		lcr := int32(0)
		if hh == e.chain.Spec.InitialHeight {
			lcr = -1
		}
		first := hmsg{ch: consensus.StateChannel, kind: "chain:NewRoundStep", b: wrapCons(&tmcons.NewRoundStep{Height: hh, Round: rr, Step: 3, LastCommitRound: lcr})}
		prop := tmproto.Proposal{Type: tmproto.ProposalType, Height: hh, Round: rr, PolRound: pol, Timestamp: time.Unix(1_700_000_100, 0).UTC(),
			BlockID:   tmproto.BlockID{Hash: b32(rapid.Uint64().Draw(t, "bh")), PartSetHeader: tmproto.PartSetHeader{Total: rapid.SampledFrom(smallTotals).Draw(t, "total"), Hash: b32(7)}},
			Signature: fill(rapid.Uint64().Draw(t, "sigseed"), 64)}
		second := hmsg{ch: consensus.DataChannel, kind: "chain:Proposal", b: wrapCons(&tmcons.Proposal{Proposal: prop})}
		ba, bad := g.bitArray(e.nVals, "pol")
		third := hmsg{ch: consensus.DataChannel, kind: "chain:ProposalPOL", badBits: bad, b: wrapCons(&tmcons.ProposalPOL{Height: hh, ProposalPolRound: pol, ProposalPol: ba})}
		for _, x := range []*hmsg{&first, &second, &third} {
			x.valid = consDecodes(x.b)
		}
		g.pending = append(g.pending, second, third)
		return first
	case "NewRoundStep":
		m.ch = consensus.StateChannel
		m.b = wrapCons(&tmcons.NewRoundStep{Height: g.height("h"), Round: g.round("r"),
			Step:                  rapid.SampledFrom([]uint32{1, 2, 3, 4, 5, 6, 7, 8, 8, 0, 9, 255, 256, math.MaxUint32}).Draw(t, "step"),
			SecondsSinceStartTime: rapid.SampledFrom([]int64{0, 1, -1, math.MaxInt64, math.MinInt64, 1 << 40}).Draw(t, "secs"),
			LastCommitRound:       rapid.SampledFrom([]int32{0, 0, -1, 1, math.MaxInt32, -2}).Draw(t, "lcr")})
	case "NewValidBlock":
		m.ch = consensus.StateChannel
		oh, _ := g.ourHeader()
		psh := oh
		if rapid.Bool().Draw(t, "otherheader") {
			psh = tmproto.PartSetHeader{Total: rapid.SampledFrom(append([]uint32{1602, 0}, smallTotals...)).Draw(t, "total"), Hash: b32(rapid.Uint64().Draw(t, "ph"))}
		}
		var ba tmbits.BitArray
		if rapid.IntRange(0, 3).Draw(t, "bitsmatch") > 0 {
			// Bits == Total (what ValidateBasic demands), Elems free
			ba, m.badBits = g.bitArray(int(psh.Total), "parts")
			if ba.Bits != int64(psh.Total) {
				ba.Bits = int64(psh.Total)
				m.badBits = len(ba.Elems) != int((ba.Bits+63)/64)
			}
		} else {
			ba, m.badBits = g.bitArray(int(psh.Total), "parts")
		}
		hh, rr := g.height("h"), g.round("r")
		if rapid.Bool().Draw(t, "atpeer") {
			hh, rr = ph, pr
			if rr < 0 {
				rr = 0
			}
		}
		m.b = wrapCons(&tmcons.NewValidBlock{Height: hh, Round: rr, BlockPartSetHeader: psh, BlockParts: &ba, IsCommit: rapid.Bool().Draw(t, "iscommit")})
	case "HasVote":
		m.ch = consensus.StateChannel
		m.b = wrapCons(&tmcons.HasVote{Height: g.height("h"), Round: g.round("r"), Type: g.voteType("type"),
			Index: rapid.SampledFrom([]int32{0, int32(e.nVals - 1), int32(e.nVals), 63, 64, 9999, math.MaxInt32, -1}).Draw(t, "idx")})
	case "VoteSetMaj23":
		m.ch = consensus.StateChannel
		m.b = wrapCons(&tmcons.VoteSetMaj23{Height: g.height("h"), Round: g.round("r"), Type: g.voteType("type"), BlockID: g.blockID("bid", hugeTotals)})
	case "VoteSetBits":
		m.ch = consensus.VoteSetBitsChannel
		ba, bad := g.bitArray(e.nVals, "votes")
		m.badBits = bad
		r := g.round("r")
		if rapid.IntRange(0, 5).Draw(t, "neground") == 0 {
			r = rapid.SampledFrom([]int32{-1, math.MinInt32}).Draw(t, "nr")
		}
		m.b = wrapCons(&tmcons.VoteSetBits{Height: g.height("h"), Round: r, Type: g.voteType("type"), BlockID: g.blockID("bid", hugeTotals), Votes: ba})
	case "Proposal":
		m.ch = consensus.DataChannel
		hh, rr := ph, pr
		if rr < 0 {
			rr = 0
		}
		if rapid.IntRange(0, 3).Draw(t, "elsewhere") == 0 {
			hh, rr = g.height("h"), g.round("r")
		}
		total := rapid.SampledFrom(hugeTotals).Draw(t, "total")
		m.bigTotal = total > types.MaxBlockPartsCount
		pol := rapid.SampledFrom([]int32{-1, -1, 0, 0, rr - 1, rr, rr + 1, 1, math.MaxInt32, -2}).Draw(t, "pol")
		p := tmproto.Proposal{Type: tmproto.ProposalType, Height: hh, Round: rr, PolRound: pol,
			BlockID:   tmproto.BlockID{Hash: b32(rapid.Uint64().Draw(t, "bh")), PartSetHeader: tmproto.PartSetHeader{Total: total, Hash: b32(rapid.Uint64().Draw(t, "ph"))}},
			Timestamp: time.Unix(1_700_000_100, 0).UTC()}
		switch rapid.SampledFrom([]string{"garbage", "outsider", "empty", "huge"}).Draw(t, "sig") {
		case "garbage":
			p.Signature = fill(rapid.Uint64().Draw(t, "sigseed"), 64)
		case "outsider":
			pc := p
			if err := lib.PV(300).SignProposal(e.chainID, &pc); err != nil {
				panic(err)
			}
			p.Signature = pc.Signature
		case "huge":
			p.Signature = fill(1, 65)
		}
		m.b = wrapCons(&tmcons.Proposal{Proposal: p})
	case "ProposalPOL":
		m.ch = consensus.DataChannel
		ba, bad := g.bitArray(e.nVals, "pol")
		m.badBits = bad
		hh := ph
		if rapid.IntRange(0, 3).Draw(t, "elsewhere") == 0 {
			hh = g.height("h")
		}
		polr := ppol
		if polr < 0 || rapid.IntRange(0, 3).Draw(t, "otherpol") == 0 {
			polr = rapid.SampledFrom([]int32{0, 1, math.MaxInt32, -1}).Draw(t, "polr")
		}
		m.b = wrapCons(&tmcons.ProposalPOL{Height: hh, ProposalPolRound: polr, ProposalPol: ba})
	case "BlockPart":
		m.ch = consensus.DataChannel
		hh, rr := g.height("h"), g.round("r")
		if rapid.Bool().Draw(t, "atpeer") {
			hh, rr = ph, pr
			if rr < 0 {
				rr = 0
			}
		}
		var part tmproto.Part
		rs := e.cs.GetRoundState()
		mode := rapid.SampledFrom([]string{"synthetic", "synthetic", "real-wrong-index", "real-corrupt"}).Draw(t, "partmode")
		if mode != "synthetic" && (rs.ProposalBlockParts == nil || rs.ProposalBlockParts.Count() == 0) {
			mode = "synthetic"
		}
		if mode == "synthetic" {
			nb := rapid.SampledFrom([]int{0, 1, 100, 65536, 65537}).Draw(t, "nbytes")
			total := rapid.SampledFrom([]int64{1, 2, 1601, math.MaxInt64, 0, -1}).Draw(t, "ptotal")
			na := rapid.SampledFrom([]int{0, 1, 7, 100, 101}).Draw(t, "aunts")
			aunts := make([][]byte, na)
			for i := range aunts {
				aunts[i] = b32(uint64(i))
			}
			part = tmproto.Part{Index: rapid.SampledFrom([]uint32{0, 1, 1600, 1601, math.MaxUint32}).Draw(t, "pidx"), Bytes: fill(5, nb),
				Proof: tmcrypto.Proof{Total: total, Index: rapid.SampledFrom([]int64{0, 1, total - 1, total, math.MaxInt64, -1}).Draw(t, "proofidx"),
					LeafHash: fill(6, rapid.SampledFrom([]int{32, 32, 32, 0, 31}).Draw(t, "leaflen")), Aunts: aunts}}
		} else {
			// a part of the block the node is actually collecting, relabelled or corrupted
			var src *types.Part
			for i := 0; i < int(rs.ProposalBlockParts.Total()); i++ {
				if p := rs.ProposalBlockParts.GetPart(i); p != nil {
					src = p
					break
				}
			}
			pp, err := src.ToProto()
			if err != nil {
				panic(err)
			}
			part = *pp
			part.Bytes = append([]byte(nil), part.Bytes...)
			if mode == "real-wrong-index" {
				part.Index = rapid.SampledFrom([]uint32{part.Index + 1, rs.ProposalBlockParts.Total(), math.MaxUint32}).Draw(t, "pidx")
			} else if len(part.Bytes) > 0 {
				part.Bytes[rapid.IntRange(0, len(part.Bytes)-1).Draw(t, "flip")] ^= 0x40
			}
			hh, rr = e.h, rs.Round
		}
		m.b = wrapCons(&tmcons.BlockPart{Height: hh, Round: rr, Part: part})
	case "Vote", "valid-vote":
		m.ch = consensus.VoteChannel
		rs := e.cs.GetRoundState()
		var bid types.BlockID
		if rs.ProposalBlock != nil && rapid.Bool().Draw(t, "forblock") {
			bid = types.BlockID{Hash: rs.ProposalBlock.Hash(), PartSetHeader: rs.ProposalBlockParts.Header()}
		}
		typ := rapid.SampledFrom([]tmproto.SignedMsgType{tmproto.PrevoteType, tmproto.PrecommitType}).Draw(t, "type")
		vi := rapid.IntRange(0, e.nVals-1).Draw(t, "val")
		if kind == "valid-vote" {
			// only prevotes of the current round from a validator that has not voted, and never a third one: the node
			// must not be pushed over a 2/3 threshold by this harness-made "valid input" (keeps the fixture simple)
			pv := rs.Votes.Prevotes(rs.Round)
			if e.waitSync || pv == nil || pv.BitArray().GetIndex(vi) || vi == e.nodeVal || countTrue(pv.BitArray().String())+2 > e.quorum() {
				kind, m.kind = "Vote", "Vote"
			} else {
				v := e.signedVote(vi, tmproto.PrevoteType, rs.Round, bid, true)
				m.validInput = true
				m.b = wrapCons(&tmcons.Vote{Vote: v.ToProto()})
				break
			}
		}
		v := e.signedVote(vi, typ, g.round("r"), bid, false)
		// votes are judged relative to the node: its height, the one below (last-commit votes while the node waits in
		// NewHeight), the chain's initial height and the one below that, far away
		ih := e.chain.Spec.InitialHeight
		v.Height = rapid.SampledFrom([]int64{e.h, e.h, e.h, e.h - 1, e.h - 1, e.h - 1, ih - 1, ih, 0, e.h + 1, e.h - 2, math.MaxInt64}).Draw(t, "voteh")
		if lib.IsKnown(findFirstHeightPrecommit) && e.h == e.chain.Spec.InitialHeight && v.Type == tmproto.PrecommitType && v.Height+1 == e.h {
			lib.ExcludedByKnown(findFirstHeightPrecommit) // listed known finding: excluded by construction
			v.Height = e.h
		}
		switch rapid.SampledFrom([]string{"outsider-sig", "garbage-sig", "idx-out", "idx-max", "addr-unknown", "idx-addr-mismatch"}).Draw(t, "votebad") {
		case "garbage-sig":
			v.Signature = fill(rapid.Uint64().Draw(t, "sigseed"), 64)
		case "idx-out":
			v.ValidatorIndex = int32(e.nVals)
		case "idx-max":
			v.ValidatorIndex = math.MaxInt32
		case "addr-unknown":
			v.ValidatorAddress = fill(77, 20)
		case "idx-addr-mismatch":
			v.ValidatorIndex = int32((vi + 1) % e.nVals)
		}
		m.b = wrapCons(&tmcons.Vote{Vote: v.ToProto()})
	case "wrong-channel":
		inner := g.gen()
		for inner.kind == "wrong-channel" || inner.validInput {
			inner = g.gen()
		}
		inner.kind = "wrong-channel:" + inner.kind
		inner.ch = rapid.SampledFrom([]byte{consensus.StateChannel, consensus.DataChannel, consensus.VoteChannel, consensus.VoteSetBitsChannel, 0x99}).Draw(t, "wch")
		return inner
	case "raw-garbage":
		m.ch = rapid.SampledFrom([]byte{consensus.StateChannel, consensus.DataChannel, consensus.VoteChannel, consensus.VoteSetBitsChannel}).Draw(t, "gch")
		m.b = rapid.SliceOfN(rapid.Byte(), 0, 64).Draw(t, "garbage")
	}
	m.valid = consDecodes(m.b)
	return m
}

func countTrue(s string) int { return strings.Count(s, "x") }

// consDecodes: does the byte string decode to a consensus message that passes ValidateBasic? (classification only)
func consDecodes(b []byte) (ok bool) {
	defer func() {
		if recover() != nil {
			ok = false
		}
	}()
	var m tmcons.Message
	if proto.Unmarshal(b, &m) != nil {
		return false
	}
	_, err := consensus.MsgFromProto(&m)
	return err == nil
}

var peerKinds = []string{"fresh", "same", "same", "same-other-round", "same-other-round", "lag1", "lagN", "ahead"}

// genPeerState brings the PeerState of p into a generated state with valid messages only.
func genPeerState(t *rapid.T, e *consEnv, p *hpeer) string {
	kind := rapid.SampledFrom(peerKinds).Draw(t, "peerstate")
	rs := e.cs.GetRoundState()
	base := e.chain.BlockStore.Base()
	h, r := e.h, rs.Round
	switch kind {
	case "fresh":
		return kind
	case "same-other-round":
		r = rapid.Int32Range(0, 3).Draw(t, "peer.round")
	case "lag1":
		h = e.h - 1
	case "lagN":
		if e.h-2 >= base && base > 0 {
			h = rapid.Int64Range(base, e.h-2).Draw(t, "peer.h")
		} else {
			h = e.h - 1
		}
		r = 0
	case "ahead":
		h = e.h + rapid.Int64Range(1, 5).Draw(t, "peer.ahead")
	}
	if h < e.chain.Spec.InitialHeight {
		h = e.chain.Spec.InitialHeight
	}
	lcr := int32(0)
	if h == e.chain.Spec.InitialHeight {
		lcr = -1
	}
	step := rapid.Uint32Range(1, 8).Draw(t, "peer.step")
	send := func(ch byte, b []byte, what string) {
		o := deliver(t, e.sw, e.conR, ch, p, b, what)
		if o.panicked || o.dropped {
			t.Fatalf("valid %s got the peer dropped (panic=%v)", what, o.panicVal)
		}
	}
	send(consensus.StateChannel, wrapCons(&tmcons.NewRoundStep{Height: h, Round: r, Step: step, SecondsSinceStartTime: 1, LastCommitRound: lcr}), "NewRoundStep")
	// optional valid follow-ups
	if rapid.Bool().Draw(t, "peer.hasvote") {
		send(consensus.StateChannel, wrapCons(&tmcons.HasVote{Height: h, Round: r, Type: tmproto.PrevoteType, Index: int32(rapid.IntRange(0, e.nVals-1).Draw(t, "peer.hv"))}), "HasVote")
	}
	if rs.Proposal != nil && h == e.h && r == rs.Round && rapid.Bool().Draw(t, "peer.proposal") {
		send(consensus.DataChannel, wrapCons(&tmcons.Proposal{Proposal: *rs.Proposal.ToProto()}), "Proposal")
		kind += "+proposal"
	} else if rapid.Bool().Draw(t, "peer.nvb") {
		psh := types.PartSetHeader{Total: 1, Hash: b32(9)}
		if m := e.chain.BlockStore.LoadBlockMeta(h); m != nil {
			psh = m.BlockID.PartSetHeader
		} else if rs.ProposalBlockParts != nil && h == e.h {
			psh = rs.ProposalBlockParts.Header()
		}
		n := int((psh.Total + 63) / 64)
		send(consensus.StateChannel, wrapCons(&tmcons.NewValidBlock{Height: h, Round: r, BlockPartSetHeader: psh.ToProto(),
			BlockParts: &tmbits.BitArray{Bits: int64(psh.Total), Elems: make([]uint64, n)}, IsCommit: rapid.Bool().Draw(t, "peer.iscommit")}), "NewValidBlock")
		kind += "+nvb"
	}
	return kind
}

func TestHostileConsensus(t *testing.T) {
	rapid.Check(t, func(t *rapid.T) {
		newCase()
		// mostly 4 validators (1-word bit arrays); sometimes 70 (2 words), so that peer arrays can also have FEWER words
		nVals := rapid.SampledFrom([]int{4, 4, 4, 4, 4, 4, 4, 70}).Draw(t, "nvals")
		nodeVal := rapid.SampledFrom([]int{-1, 0, 1, 2, 3}).Draw(t, "nodeval")
		// chain length 0 = a fresh chain: the node sits at the chain's FIRST height (no last commit, no stored block)
		nBlocks := rapid.SampledFrom([]int{0, 0, 1, 2, 3}).Draw(t, "blocks")
		initialHeight := rapid.SampledFrom([]int64{1, 1, 1, 7, 1000}).Draw(t, "initialheight")
		// waitSync: the node is still block/state syncing — the consensus reactor is registered and running (tracks
		// peers, answers on the state channel), the state machine has not been started
		waitSync := rapid.IntRange(0, 7).Draw(t, "waitsync") == 0
		e := newConsEnvOpt(t, nVals, nBlocks, nodeVal, initialHeight, waitSync)
		defer func() {
			e.closeChecked()
			if !wedged() {
				checkNoLeak(t, e.before, "consensus")
			}
		}()
		state := rapid.SampledFrom(nodeStates).Draw(t, "nodestate")
		if waitSync {
			state = "wait-sync"
		} else {
			e.drive(state)
		}

		p := newPeer(rapid.Bool().Draw(t, "outbound"))
		var ps *consensus.PeerState
		must(t, "consensus: InitPeer+AddPeer for a new connection (Switch.addPeer)", func() { ps = e.addPeer(p) })
		pkind := genPeerState(t, e, p)
		g := &consGen{t: t, e: e}
		g.prs = func() (int64, int32, int32) {
			s := ps.GetRoundState()
			return s.Height, s.Round, s.ProposalPOLRound
		}

		n := rapid.IntRange(3, 20).Draw(t, "nmsgs")
		hostileValid := 0
		var kinds []string
		sample := []string{}
		for i := 0; i < n; i++ {
			m := g.gen()
			kinds = append(kinds, m.kind)
			before := e.ownStateChecked()
			o := deliver(t, e.sw, e.conR, m.ch, p, m.b, m.kind)
			okAlive := e.barrier()
			cls := outcomeClass(o)
			lib.Class("TestHostileConsensus", "msg:"+m.kind+"=>"+cls, fmt.Sprintf("msg-valid:%v", m.valid))
			if m.valid && !m.validInput {
				hostileValid++
			}
			if len(sample) < 8 {
				sample = append(sample, fmt.Sprintf("%s(%dB,vb=%v)=>%s alloc=%d", m.kind, len(m.b), m.valid, cls, o.alloc))
			}
			// (1) the consensus state machine must survive
			if !okAlive {
				t.Fatalf("CONSENSUS FAILURE: the consensus receive routine died — consensus of this node has halted — after %s from a peer (node state %s, chain length %d, initial height %d, node height %d); messages so far %v",
					m.kind, state, nBlocks, initialHeight, e.h, kinds)
			}
			// (2) buffering bound
			if o.alloc > allocBound(consMaxMsgSize) {
				lib.Class("TestHostileConsensus", "ALLOC-over-bound:"+m.kind)
				if m.bigTotal && lib.IsKnown(findProposalTotal) {
					lib.ObservedKnown(findProposalTotal)
					lib.ExcludedByKnown(findProposalTotal)
				} else {
					t.Fatalf("ALLOCATION: handling one %d-byte %s message allocated %d bytes (> 16 x RecvMessageCapacity %d + 1MiB); peer state %s, node state %s",
						len(m.b), m.kind, o.alloc, consMaxMsgSize, pkind, state)
				}
			}
			// (3) the node's own consensus state is not changed by input that is not a validator's
			after := e.ownStateChecked()
			if m.validInput {
				if after == before && !o.dropped {
					t.Fatalf("a correctly signed new prevote had no effect on the node's vote set (harness sanity)\n%s", before)
				}
			} else if after != before {
				t.Fatalf("node's own consensus state changed by %s (valid=%v) from a non-validator peer:\nbefore %s\nafter  %s", m.kind, m.valid, before, after)
			}
			// (4) the per-peer routines must survive what the peer state now contains
			// after EVERY message each of gossipData / gossipVotes / queryMaj23 goes round its loop at least twice
			e.settle(p)
			if pn := e.routinePanic(); pn != "" {
				lib.Class("TestHostileConsensus", "ROUTINE-PANIC-after:"+m.kind)
				if lib.IsKnown(findBitArray) && strings.Contains(pn, "bits.(*BitArray)") {
					lib.ObservedKnown(findBitArray)
					lib.ExcludedByKnown(findBitArray)
					e.clearPanics()
					o.dropped = true // that peer's routines are gone; continue with a new connection
					e.sw.StopPeerForError(p, "routine died")
				} else {
					t.Fatalf("PROCESS DEATH: a per-peer routine of the consensus reactor (started with a bare `go` in Reactor.AddPeer) panicked after the peer sent %v; peer state %s, node state %s\n%s",
						kinds, pkind, state, pn)
				}
			}
			if o.dropped || !p.BaseService.IsRunning() {
				e.awaitPeerRoutines(p)
				// the peer reconnects under a new identity
				p = newPeer(false)
				must(t, "consensus: InitPeer+AddPeer for a new connection (Switch.addPeer)", func() { ps = e.addPeer(p) })
				pkind = genPeerState(t, e, p)
			}
		}
		// liveness: whatever was sent, the node still serves a well-behaved newcomer and can be inspected
		e.probe(ps)
		if pn := e.routinePanic(); pn != "" {
			t.Fatalf("PROCESS DEATH: a per-peer routine panicked while a well-behaved peer was served after %v\n%s", kinds, pn)
		}
		nontrivial := hostileValid > 0
		lib.Case("TestHostileConsensus", lib.FP(state, pkind, nodeVal, nVals, nBlocks, initialHeight, kinds), nontrivial, "node:"+state, "peer:"+pkind, fmt.Sprintf("validators:%d", nVals),
			fmt.Sprintf("first-height:%v", nBlocks == 0), fmt.Sprintf("initial-height:%d", initialHeight))
		if nontrivial && lib.WantSample("TestHostileConsensus") {
			lib.Sample("TestHostileConsensus", map[string]interface{}{"node": state, "peer": pkind, "messages": sample})
		}
	})
}

var _ = merkle.MaxAunts
