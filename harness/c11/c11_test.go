// C11 — evidence is admitted exactly when valid, fresh and new, and is used once.
//
// TestAdmission: chain with validator changes and irregular block times -> genuine evidence of every kind and
// single-field perturbations -> AddEvidence / CheckEvidence on fresh pools vs. the reference verifier (ref_test.go).
// TestLifecycle: stateful (t.Repeat) histories of add / check / report-conflicting-votes / advance (evidence really
// committed through ApplyBlock with the real pool) / pending(maxBytes) / restart against a set model
// {pending, committed}.
// TestRegress*: library-free replays of the defects found (see MUTANTS.md / the fixes directory).
package c11

import (
	"bytes"
	"fmt"
	"sort"
	"strings"
	"testing"
	"time"

	dbm "github.com/tendermint/tm-db"

	"github.com/tendermint/tendermint/evidence"
	tmproto "github.com/tendermint/tendermint/proto/tendermint/types"
	sm "github.com/tendermint/tendermint/state"
	"github.com/tendermint/tendermint/types"
	"pgregory.net/rapid"

	"verif/lib"
)

func TestMain(m *testing.M) { lib.Main(m) }

// known-finding ids (active only when /verif/known_findings.json lists them with status "known")
const (
	kfSizeDrift  = "C11-size-drift"                     // CheckEvidence re-adds pending light-client evidence: Size() > #pending
	kfAmnesia    = "C11-amnesia-empty-list"             // amnesia evidence decoded from the wire (empty, non-nil list) is rejected
	kfUnverified = "C11-unverified-signatures"          // validators are named byzantine on the strength of unverified signatures
	kfForward    = "C11-forward-lunatic"                // forward lunatic evidence is never verifiable (no canonical commit of the tip)
	kfExpired    = "C11-expired-pending"                // expired evidence that is still pending is accepted inside a block
	kfPanic      = "C11-nil-validator-panic"            // a commit slot naming a non-member makes GetByzantineValidators panic
	kfIndex      = "C11-validator-index-malleable"      // duplicate-vote evidence verifies with any Vote.ValidatorIndex: new hash, same offence
	kfCrash      = "C11-update-lost-in-crash"           // crash between SaveBlock and Pool.Update: replay uses EmptyEvidencePool
	kfRepeated   = "C11-repeated-validator-named-twice" // a validator listed twice in the conflicting set is named (punished) twice
	kfReanchor   = "C11-same-block-other-common-height" // one conflicting block is new evidence for every admissible common height
	kfRace       = "C11-add-evidence-not-atomic"        // AddEvidence interleaved with AddEvidence / CheckEvidence / Update
)

// guarded runs a pool call; a panic is returned instead of propagated so that it can be matched against the
// known-finding signature (a panic is never a legitimate answer).
func guarded(f func() error) (err error, panicked interface{}) {
	defer func() {
		if r := recover(); r != nil {
			panicked = r
		}
	}()
	return f(), nil
}

// foreignSlot: some non-absent slot of the conflicting commit carries an address that is not in the conflicting
// validator set (signature of known finding kfPanic).
func foreignSlot(ev types.Evidence) bool {
	l, ok := ev.(*types.LightClientAttackEvidence)
	if !ok || l.ConflictingBlock == nil || l.ConflictingBlock.Commit == nil || l.ConflictingBlock.ValidatorSet == nil {
		return false
	}
	for _, s := range l.ConflictingBlock.Commit.Signatures {
		if s.BlockIDFlag != types.BlockIDFlagAbsent && member(l.ConflictingBlock.ValidatorSet, s.ValidatorAddress) == nil {
			return true
		}
	}
	return false
}

type panicErr struct{ v interface{} }

func (p panicErr) Error() string { return fmt.Sprintf("PANIC: %v", p.v) }

// poolErr turns a guarded result into one error value; unknown panics fail the test.
func poolErr(t *rapid.T, ev []types.Evidence, err error, pv interface{}) error {
	if pv == nil {
		return err
	}
	for _, e := range ev {
		if foreignSlot(e) && tolerate(kfPanic) {
			return panicErr{pv}
		}
	}
	t.Fatalf("the evidence pool panicked: %v\n evidence: %s", pv, describeEv(ev[0]))
	return nil
}

func tolerate(id string) bool {
	if lib.IsKnown(id) {
		lib.ObservedKnown(id)
		lib.ExcludedByKnown(id)
		return true
	}
	return false
}

// present passes evidence to a node the way real callers do: "wire" = decoded from protobuf (reactor, block
// parts), "direct" = a local object that passed ValidateBasic (RPC broadcast_evidence, consensus).
// "wire-hostile" = wire, written by an encoder that forges every field no hash or signature covers (forgeUnhashed).
func present(t *rapid.T, ev types.Evidence, form string) (types.Evidence, error) {
	switch form {
	case "wire":
		return lib.WireEvidence(ev)
	case "wire-hostile":
		return lib.WireEvidenceWith(ev, func(pb *tmproto.Evidence) { forgeUnhashed(t, pb) })
	}
	if err := ev.ValidateBasic(); err != nil {
		return nil, err
	}
	return ev, nil
}

func (w *world) newPool(t *rapid.T, db dbm.DB) *evidence.Pool {
	p, err := evidence.NewPool(db, w.c.StateStore, w.c.BlockStore)
	if err != nil {
		t.Fatalf("VERIF-INFRA: NewPool: %v", err)
	}
	return p
}

func hashesOf(l []types.Evidence) []string {
	hs := make([]string, len(l))
	for i, e := range l {
		hs[i] = string(e.Hash())
	}
	return hs
}

func isEmptyNonNilAmnesia(ev types.Evidence, r refOut) bool {
	l, ok := ev.(*types.LightClientAttackEvidence)
	return ok && r.shape == "amnesia" && l.ByzantineValidators != nil && len(l.ByzantineValidators) == 0
}

// knownMismatch decides whether a disagreement between the pool and the reference on ONE offered item carries the
// signature of a listed known finding.
func knownMismatch(ev types.Evidence, r refOut, accepted bool, err error) (string, bool) {
	msg := ""
	if err != nil {
		msg = err.Error()
	}
	switch {
	case !accepted && r.v == vValid && isEmptyNonNilAmnesia(ev, r) && strings.Contains(msg, "expected nil validators from an amnesia"):
		return kfAmnesia, true
	case !accepted && r.v == vValid && r.forward && strings.Contains(msg, "don't have commit at height"):
		return kfForward, true
	case accepted && r.v == vInvalid && r.unprovenCulprit:
		return kfUnverified, true
	case accepted && r.v == vInvalid && r.wrongIndex:
		return kfIndex, true
	case accepted && r.v == vInvalid && r.repeatedCulprit:
		return kfRepeated, true
	}
	return "", false
}

// ---------------------------------------------------------------------------------------------------------------

func TestAdmission(t *testing.T) {
	const name = "TestAdmission"
	rapid.Check(t, func(t *rapid.T) {
		w := newWorld(t)
		defer w.c.Close()
		for i, n := 0, rapid.IntRange(3, 12).Draw(t, "len"); i < n; i++ {
			if err := w.advance(w.genPlan(t)); err != nil {
				t.Fatalf("VERIF-INFRA: Advance: %v", err)
			}
		}
		k := rapid.IntRange(2, 5).Draw(t, "items")
		var fp []interface{}
		nontrivial := false
		for j := 0; j < k; j++ {
			it := w.genItem(t)
			form := rapid.SampledFrom(forms).Draw(t, "form")
			r := w.ref(it.ev)
			offered, perr := present(t, it.ev, form)
			var errA, errC error = perr, perr
			addOK, checkOK := false, false
			if perr == nil {
				// re-judge what the node actually sees (identical content; nil/empty list differences are visible to known-finding signatures)
				pa := w.newPool(t, dbm.NewMemDB())
				e1, p1 := guarded(func() error { return pa.AddEvidence(offered) })
				errA = poolErr(t, []types.Evidence{offered}, e1, p1)
				la, _ := pa.PendingEvidence(-1)
				addOK = errA == nil && len(la) == 1 && string(la[0].Hash()) == string(offered.Hash())
				if errA == nil && !addOK {
					t.Fatalf("AddEvidence returned nil on an empty pool but nothing is pending: %s %s", it, describeEv(offered))
				}
				if errA != nil && len(la) != 0 {
					t.Fatalf("AddEvidence failed (%v) but left %d items pending", errA, len(la))
				}
				if int(pa.Size()) != len(la) {
					t.Fatalf("Size()=%d but %d pending after AddEvidence", pa.Size(), len(la))
				}
				pc := w.newPool(t, dbm.NewMemDB())
				e2, p2 := guarded(func() error { return pc.CheckEvidence(types.EvidenceList{offered}) })
				errC = poolErr(t, []types.Evidence{offered}, e2, p2)
				lc, _ := pc.PendingEvidence(-1)
				checkOK = errC == nil
				if checkOK != (len(lc) == 1) || int(pc.Size()) != len(lc) {
					t.Fatalf("CheckEvidence err=%v but %d pending, Size()=%d", errC, len(lc), pc.Size())
				}
			}
			lib.Class(name, "kind:"+it.kind, "ref:"+r.v.String(), r.age, "form:"+form, fmt.Sprintf("outcome:%s:%v", r.v, addOK))
			if it.base || strings.HasPrefix(it.pert, "none") {
				// perturbation table: only cases where the perturbation alone decides (the base evidence was admissible)
				lib.Class(name, fmt.Sprintf("pert:%s/%s:%s", it.kind, it.pert, map[bool]string{true: "accept", false: "reject"}[addOK]))
			}
			if it.pert != "none" && !strings.HasPrefix(it.pert, "none:") || r.age != "age:fresh" {
				nontrivial = true
			}
			fp = append(fp, it.kind, it.pert, r.v, r.age, r.why, form)
			if lib.WantSample(name) && r.v != vValid {
				lib.Sample(name, map[string]interface{}{"item": it.String(), "evidence": describeEv(it.ev), "form": form, "ref": r.v.String(),
					"why": r.why, "age": r.age, "add_err": short(errA), "check_err": short(errC), "tip": w.tip(),
					"maxAgeBlocks": w.maxBlocks, "maxAgeDur": w.maxDur.String()})
			}
			for _, o := range []struct {
				api string
				ok  bool
				err error
			}{{"AddEvidence", addOK, errA}, {"CheckEvidence", checkOK, errC}} {
				want := r.v == vValid
				if r.v == vAmbig || o.ok == want {
					continue
				}
				if perr == nil {
					if id, ok := knownMismatch(offered, r, o.ok, o.err); ok && tolerate(id) {
						continue
					}
				}
				t.Fatalf("%s %s evidence that the reference judges %s (%s)\n item=%s form=%s %s\n tip=%d tipTime=%s maxAgeBlocks=%d maxAgeDur=%s\n validators at evidence height: %s\n err=%v",
					o.api, map[bool]string{true: "ADMITTED", false: "REJECTED"}[o.ok], r.v, r.why, it, form, describeEv(it.ev),
					w.tip(), w.tipTime().Format(time.RFC3339Nano), w.maxBlocks, w.maxDur, describeVals(w.c.ValidatorsAt(it.ev.Height())), short(o.err))
			}
		}
		lib.Case(name, lib.FP(fp...), nontrivial)
	})
}

// ---------------------------------------------------------------------------------------------------------------
// lifecycle model

type mItem struct {
	it    item
	ev    types.Evidence // as presented to the node
	hash  string
	h     int64
	isLCA bool
}

type model struct {
	w         *world
	db        dbm.DB
	pool      *evidence.Pool
	universe  []*mItem
	byContent map[string]*mItem
	pending   map[string]*mItem // by evidence hash: admitted, not committed (may have expired and await pruning)
	committed map[string]bool
	buffer    [][2]*types.Vote
	reported  [][2]*types.Vote // every pair of conflicting votes consensus ever reported
	// committed items in commit order; blind = committed through Update alone while not pending in this pool
	// gossip: evidence that entered through AddEvidence or from consensus and is therefore broadcast to peers; it must
	// stay in the broadcast list (EvidenceFront/Next) until committed or expired — across restarts too
	gossip        map[string]bool
	committedList []*mItem
	// conflicting block hash -> hash of the committed light-client evidence that carried it
	committedBlocks map[string]string
	blind           map[string]bool
	crashes         int // crashes between SaveBlock and Pool.Update (block replayed by the handshake)
	bigRestarts     int // restarts with more pending evidence than fits one block (Evidence.MaxBytes)
	blindCommits    int
	blindReoffers   int
	drift           int // upper bound of the tolerated Size() excess (known finding kfSizeDrift only)

	commits, reoffers, expiries, restarts, reports, reportsFlushed, dupLists int
	ops                                                                      []string
}

func (m *model) log(f string, a ...interface{}) { m.ops = append(m.ops, fmt.Sprintf(f, a...)) }

func (m *model) history() string { return "history:\n  " + strings.Join(m.ops, "\n  ") }

func (m *model) fatalf(t *rapid.T, f string, a ...interface{}) {
	t.Fatalf("%s\n%s", fmt.Sprintf(f, a...), m.history())
}

func (m *model) intern(it item, ev types.Evidence) *mItem {
	key := string(ev.Bytes())
	if l, ok := ev.(*types.LightClientAttackEvidence); ok && l.ByzantineValidators == nil {
		key += "/nil"
	}
	if x, ok := m.byContent[key]; ok {
		return x
	}
	_, isLCA := ev.(*types.LightClientAttackEvidence)
	x := &mItem{it: it, ev: ev, hash: string(ev.Hash()), h: ev.Height(), isLCA: isLCA}
	m.byContent[key] = x
	m.universe = append(m.universe, x)
	return x
}

// excluded: items that fall in the class of a LISTED known finding are kept out of the lifecycle histories (the
// admission test tolerates exactly them); with nothing listed, nothing is excluded.
func (m *model) excluded(x *mItem, r refOut) bool {
	switch {
	case r.v == vValid && isEmptyNonNilAmnesia(x.ev, r) && lib.IsKnown(kfAmnesia):
		lib.ExcludedByKnown(kfAmnesia)
		return true
	case r.v == vValid && r.forward && lib.IsKnown(kfForward):
		lib.ExcludedByKnown(kfForward)
		return true
	case r.v == vInvalid && r.unprovenCulprit && lib.IsKnown(kfUnverified):
		lib.ExcludedByKnown(kfUnverified)
		return true
	case r.v == vInvalid && r.repeatedCulprit && lib.IsKnown(kfRepeated):
		lib.ExcludedByKnown(kfRepeated)
		return true
	case r.v == vInvalid && r.wrongIndex && lib.IsKnown(kfIndex):
		lib.ExcludedByKnown(kfIndex)
		return true
	}
	return false
}

// drawItem: a new item (genuine or perturbed) or one seen before (pending / committed / rejected / expired).
// Ambiguous items are left to TestAdmission.
func (m *model) drawItem(t *rapid.T, validOnly bool) (*mItem, refOut, bool) {
	for try := 0; try < 4; try++ {
		var x *mItem
		reuse := rapid.IntRange(0, 9).Draw(t, "reuse")
		if !validOnly && len(m.committedList) > 0 && reuse < 2 {
			// re-offer something that was committed (the most recent ones are the ones still fresh)
			n := len(m.committedList)
			x = m.committedList[n-1-rapid.IntRange(0, min(n, 3)-1).Draw(t, "recent")]
		} else if !validOnly && reuse == 2 && len(m.committedList) > 0 {
			// a conflicting block that was already committed as evidence, observed by another light client from
			// another common height
			n := len(m.committedList)
			y := m.committedList[n-1-rapid.IntRange(0, min(n, 3)-1).Draw(t, "recent-block")]
			l, ok := y.ev.(*types.LightClientAttackEvidence)
			if !ok || l.ConflictingBlock.Height <= 1 {
				continue
			}
			h2 := m.w.pickHeight(t, "reanchor.h", 1, min64(l.ConflictingBlock.Height-1, m.w.tip()))
			ne, err := m.w.c.AttackEvidence(l.ConflictingBlock, h2, lib.Lunatic)
			if err != nil {
				continue
			}
			x = m.intern(item{ev: ne, kind: y.it.kind, pert: "committed-block-other-common-height"}, ne)
		} else if len(m.universe) > 0 && reuse < 5 {
			x = rapid.SampledFrom(m.universe).Draw(t, "known")
		} else {
			it := m.w.genItem(t)
			ev, err := present(t, it.ev, rapid.SampledFrom(forms).Draw(t, "form"))
			if err != nil {
				lib.Class("TestLifecycle", "offer:malformed-before-pool")
				continue
			}
			x = m.intern(it, ev)
		}
		r := m.w.ref(x.ev)
		if r.v == vValid && m.sameBlockCommitted(x) {
			r = refOut{v: vInvalid, why: "its conflicting block was already committed as evidence (other common height)", age: r.age}
		}
		if r.v == vAmbig || m.excluded(x, r) || (validOnly && r.v != vValid) {
			continue
		}
		return x, r, true
	}
	return nil, refOut{}, false
}

func conflictingBlockHash(ev types.Evidence) string {
	if l, ok := ev.(*types.LightClientAttackEvidence); ok && l.ConflictingBlock != nil && l.ConflictingBlock.Header != nil {
		return string(l.ConflictingBlock.Header.Hash())
	}
	return ""
}

// sameBlockCommitted: the conflicting block of x has already been committed as evidence under another evidence hash
// (the evidence hash covers the common height, so the same signatures re-anchored at another admissible common height are
// "new" evidence). "The same evidence never appears in two blocks": the offence is the signed block. While the
// finding is listed as known the rule is switched off (and the encounter counted).
func (m *model) sameBlockCommitted(x *mItem) bool {
	h := conflictingBlockHash(x.ev)
	if h == "" {
		return false
	}
	prev, ok := m.committedBlocks[h]
	if !ok || prev == x.hash {
		return false
	}
	if lib.IsKnown(kfReanchor) {
		lib.ObservedKnown(kfReanchor)
		lib.ExcludedByKnown(kfReanchor)
		return false
	}
	return true
}

func (m *model) expired(h int64) bool { e, _ := m.w.ageClass(h); return e }

// listVerdict judges a block's evidence list from the property: every item valid, fresh, not committed, not
// repeated. lenientExpired emulates known finding kfExpired (pending duplicate-vote evidence is not re-checked for
// expiry).
// undecided: no item is definitely inadmissible but the reference cannot decide one of them (AMBIGUOUS) — then either
// answer is tolerated.
func (m *model) listVerdict(list []*mItem, lenientExpired bool) (ok bool, why string, undecided bool) {
	defer func() {
		if !ok {
			undecided = false // a definite offender decides the list whatever else is in it
		}
	}()
	seen := map[string]bool{}
	for i, x := range list {
		switch {
		case m.committed[x.hash]:
			return false, fmt.Sprintf("#%d already committed", i), false
		case seen[x.hash]:
			return false, fmt.Sprintf("#%d repeated in the list", i), false
		}
		seen[x.hash] = true
		if m.sameBlockCommitted(x) {
			return false, fmt.Sprintf("#%d its conflicting block was already committed as evidence (other common height)", i), false
		}
		if !x.isLCA && m.pending[x.hash] != nil {
			// the very same bytes were verified when they were admitted; only freshness can have changed
			if m.expired(x.h) && !lenientExpired {
				return false, fmt.Sprintf("#%d expired (still pending)", i), false
			}
			continue
		}
		switch r := m.w.ref(x.ev); r.v {
		case vInvalid:
			return false, fmt.Sprintf("#%d %s: %s", i, r.v, r.why), false
		case vAmbig:
			undecided, why = true, fmt.Sprintf("#%d %s: %s", i, r.v, r.why)
		}
	}
	return true, why, undecided
}

// fitBytes drops items from the end of a block's evidence list until it respects Evidence.MaxBytes (a block that
// exceeds it is invalid for reasons outside this property: state.validateBlock).
func fitBytes(list []*mItem, max int64) []*mItem {
	for len(list) > 0 {
		var pb tmproto.EvidenceList
		for _, x := range list {
			p, err := types.EvidenceToProto(x.ev)
			if err != nil {
				return nil
			}
			pb.Evidence = append(pb.Evidence, *p)
		}
		if int64(pb.Size()) <= max {
			break
		}
		list = list[:len(list)-1]
	}
	return list
}

func evList(list []*mItem) types.EvidenceList {
	l := make(types.EvidenceList, len(list))
	for i, x := range list {
		l[i] = x.ev
	}
	return l
}

func names(list []*mItem) string {
	s := make([]string, len(list))
	for i, x := range list {
		s[i] = fmt.Sprintf("%s@%d#%X", x.it, x.h, x.hash[:3])
	}
	return "[" + strings.Join(s, " ") + "]"
}

func (m *model) poolSet() map[string]bool {
	l, _ := m.pool.PendingEvidence(-1)
	set := map[string]bool{}
	for _, e := range l {
		set[string(e.Hash())] = true
	}
	return set
}

// check runs CheckEvidence(list): accepted <=> listVerdict. Side effects allowed by the property: valid, fresh, new
// items of the list may have entered the pool (all of them if the list is accepted); nothing may leave it.
func (m *model) check(t *rapid.T, list []*mItem, ctx string) bool {
	return m.checkVia(t, list, ctx, "", func() error { return m.pool.CheckEvidence(evList(list)) })
}

// validateBlock is "accepted inside a block" taken literally: the node's BlockExecutor.ValidateBlock (what consensus
// calls when it prevotes, precommits and finalizes) on a real block for the next height. body, if not nil, replaces
// the evidence section while the header (and with it the block hash) stays what it was built with: another body
// under the same header. Such a block must be rejected whenever the body is not the one the header commits to.
func (m *model) validateBlock(t *rapid.T, block *types.Block, headerList, body []*mItem, ctx string) bool {
	b := *block
	list, mismatch := headerList, ""
	if body != nil {
		b.Evidence = types.EvidenceData{Evidence: evList(body)}
		list = body
		if !bytes.Equal(evList(body).Hash(), block.EvidenceHash) {
			mismatch = "the evidence section is not the one the header commits to"
		}
	}
	return m.checkVia(t, list, ctx, mismatch, func() error { return m.w.c.Exec.ValidateBlock(m.w.c.State, &b) })
}

// checkVia: mustReject != "" — the call has to fail for a reason outside the list (and may then leave the pool alone).
func (m *model) checkVia(t *rapid.T, list []*mItem, ctx, mustReject string, call func() error) bool {
	before := m.poolSet()
	e0, p0 := guarded(call)
	err := poolErr(t, evList(list), e0, p0)
	ok, why, undecided := m.listVerdict(list, false)
	if mustReject != "" {
		ok, why, undecided = false, mustReject, false
	}
	m.log("%s check %s -> err=%v (model: ok=%v undecided=%v %s)", ctx, names(list), err != nil, ok, undecided, why)
	if undecided {
		lib.Class("TestLifecycle", "check:undecided-by-reference")
	} else if ok != (err == nil) {
		// the only tolerated deviation: listed known finding kfExpired
		if ok2, _, _ := m.listVerdict(list, true); mustReject == "" && ok2 == (err == nil) && tolerate(kfExpired) {
			ok = ok2
		} else {
			m.fatalf(t, "%s: validating evidence %s returned err=%v but the property says ok=%v (%s)\n tip=%d", ctx, names(list), short(err), ok, why, m.w.tip())
		}
	}
	after := m.poolSet()
	for h := range before {
		if !after[h] {
			m.fatalf(t, "CheckEvidence removed pending evidence %X", h[:4])
		}
	}
	for _, x := range list {
		if x.isLCA {
			m.drift++ // upper bound of the Size() excess this call can cause under known finding kfSizeDrift
		}
		if err == nil && !after[x.hash] {
			m.fatalf(t, "CheckEvidence accepted %s but it is not in the pool afterwards", names(list))
		}
		if after[x.hash] && !before[x.hash] && m.pending[x.hash] == nil {
			if r := m.w.ref(x.ev); r.v == vInvalid || m.committed[x.hash] {
				m.fatalf(t, "CheckEvidence put %s into the pool: %s %s committed=%v", x.it, r.v, r.why, m.committed[x.hash])
			}
			m.pending[x.hash] = x
		}
	}
	return err == nil
}

// invariant: the pool's observable state equals the model after every operation.
func (m *model) invariant(t *rapid.T) {
	list, sz := m.pool.PendingEvidence(-1)
	seen := map[string]bool{}
	var pb tmproto.EvidenceList
	for _, e := range list {
		h := string(e.Hash())
		if seen[h] {
			m.fatalf(t, "PendingEvidence returns the same evidence twice: %s", describeEv(e))
		}
		seen[h] = true
		if m.committed[h] {
			m.fatalf(t, "committed evidence is pending again: %s", describeEv(e))
		}
		x, ok := m.pending[h]
		if !ok {
			m.fatalf(t, "pool holds evidence the model never admitted: %s", describeEv(e))
		}
		// whatever is stored must be a valid piece of evidence (up to freshness) with that hash
		if r := m.w.ref(e); r.v == vInvalid && r.why != "expired" {
			m.fatalf(t, "pool holds invalid evidence (%s): %s (admitted as %s)", r.why, describeEv(e), x.it)
		}
		p, err := types.EvidenceToProto(e)
		if err != nil {
			m.fatalf(t, "pending evidence does not encode: %v", err)
		}
		pb.Evidence = append(pb.Evidence, *p)
	}
	if len(list) > 0 && sz != int64(pb.Size()) {
		m.fatalf(t, "PendingEvidence(-1) reports %d bytes, the list encodes to %d", sz, pb.Size())
	}
	var keys []string
	for h := range m.pending {
		keys = append(keys, h)
	}
	sort.Strings(keys)
	for _, h := range keys {
		x := m.pending[h]
		if seen[h] {
			if m.expired(x.h) {
				lib.Class("TestLifecycle", "expired-but-still-listed")
			}
			continue
		}
		if !m.expired(x.h) {
			m.fatalf(t, "pending evidence vanished without being committed or expired: %s@%d %s", x.it, x.h, describeEv(x.ev))
		}
		delete(m.pending, h)
		delete(m.gossip, h)
		m.expiries++
		m.log("   (expired and pruned: %s@%d)", x.it, x.h)
	}
	if got, want := int(m.pool.Size()), len(list); got != want {
		if got > want && got <= want+m.drift && lib.IsKnown(kfSizeDrift) {
			lib.ObservedKnown(kfSizeDrift)
		} else {
			m.fatalf(t, "Size()=%d but %d items are pending", got, want)
		}
	}
	// the gossip list never carries committed or unknown evidence, nor the same evidence twice
	inList := map[string]bool{}
	for e := m.pool.EvidenceFront(); e != nil; e = e.Next() {
		h := string(e.Value.(types.Evidence).Hash())
		if inList[h] || !seen[h] {
			m.fatalf(t, "broadcast list carries evidence that is not pending (or twice): %s", describeEv(e.Value.(types.Evidence)))
		}
		inList[h] = true
	}
	for h := range m.gossip {
		if x := m.pending[h]; x != nil && !inList[h] {
			m.fatalf(t, "pending evidence that was being broadcast is no longer in the broadcast list: %s@%d %s", x.it, x.h, describeEv(x.ev))
		}
	}
}

func TestLifecycle(t *testing.T) {
	const name = "TestLifecycle"
	rapid.Check(t, func(t *rapid.T) {
		w := newWorld(t)
		defer w.c.Close()
		m := &model{w: w, db: dbm.NewMemDB(), byContent: map[string]*mItem{}, pending: map[string]*mItem{}, committed: map[string]bool{},
			blind: map[string]bool{}, gossip: map[string]bool{}, committedBlocks: map[string]string{}}
		m.pool = w.newPool(t, m.db)
		w.c.SetEvidencePool(m.pool)
		kinds := map[string]bool{}

		// advance: mode "" = no evidence; "validated" = consensus path (ValidateBlock -> CheckEvidence, then ApplyBlock);
		// "blocksync" = block sync / handshake replay: ApplyBlock -> Update only, the pool never checked the evidence
		// and need not have it pending (nobody gossiped it to this node, or only another pool instance ever saw it).
		advance := func(t *rapid.T, mode string) {
			plan := w.genPlan(t)
			var list []*mItem
			blind := 0
			if mode == "blocksync" {
				for i, n := 0, rapid.IntRange(1, 2).Draw(t, "nblind"); i < n; i++ {
					x, _, ok := m.drawItem(t, true)
					if !ok || m.committed[x.hash] {
						continue
					}
					dup := false
					for _, y := range list {
						dup = dup || y.hash == x.hash
					}
					if dup {
						continue
					}
					list = append(list, x)
				}
				list = fitBytes(list, w.maxBytes)
				for _, x := range list {
					if m.pending[x.hash] == nil {
						blind++
					}
				}
				if len(list) > 0 && rapid.Bool().Draw(t, "otherpool") {
					// the block was validated by ANOTHER pool instance on the same stores (e.g. before the evidence DB
					// was lost / on the node we sync from): it must accept the list; this pool learns nothing from it
					other := w.newPool(t, dbm.NewMemDB())
					if err := other.CheckEvidence(evList(list)); err != nil {
						m.fatalf(t, "a pool that never saw %s rejects it: %v", names(list), short(err))
					}
				}
			}
			if mode == "validated" || mode == "crash" {
				var cand []*mItem
				var keys []string
				for h := range m.pending {
					keys = append(keys, h)
				}
				sort.Strings(keys)
				for _, h := range keys {
					x := m.pending[h]
					if r := w.ref(x.ev); r.v == vValid {
						cand = append(cand, x)
					}
				}
				for _, x := range cand {
					if rapid.IntRange(0, 2).Draw(t, "take") != 0 && len(list) < 3 {
						list = append(list, x)
					}
				}
				if rapid.IntRange(0, 3).Draw(t, "foreign") == 0 {
					// evidence the proposer has and we do not
					if x, _, ok := m.drawItem(t, true); ok && !m.committed[x.hash] {
						dup := false
						for _, y := range list {
							dup = dup || y.hash == x.hash
						}
						if !dup {
							list = append(list, x)
						}
					}
				}
			}
			list = fitBytes(list, w.maxBytes)
			if len(list) > 0 && (mode == "validated" || mode == "crash") {
				// consensus validates the block's evidence (BlockExecutor.ValidateBlock -> CheckEvidence) when it
				// prevotes and once more when it finalizes the commit; ApplyBlock itself only calls Update.
				plan.Evidence = evList(list)
				block, _ := w.c.BuildNext(plan) // the very block Advance is going to build, save and apply
				for _, stage := range []string{"prevote", "second-body", "finalize"} {
					switch stage {
					case "finalize":
						if !rapid.Bool().Draw(t, "revalidate") {
							continue
						}
					case "second-body":
						// a later round (or a byzantine proposer) presents the same header with another evidence section:
						// an item twice, an item less, or evidence that is already committed
						if rapid.IntRange(0, 2).Draw(t, "otherbody") != 0 {
							continue
						}
						body := append([]*mItem(nil), list...)
						switch k := rapid.SampledFrom([]string{"repeat", "drop", "committed"}).Draw(t, "bodykind"); {
						case k == "repeat":
							body = append(body, rapid.SampledFrom(list).Draw(t, "repeated"))
						case k == "committed" && len(m.committedList) > 0:
							body = append(body, rapid.SampledFrom(m.committedList).Draw(t, "stale"))
						default:
							body = body[:len(body)-1]
						}
						m.validateBlock(t, block, list, body, stage)
						continue
					}
					if !m.validateBlock(t, block, list, nil, stage) {
						m.fatalf(t, "a block with valid, fresh, new evidence %s is rejected", names(list))
					}
				}
			}
			plan.Evidence = evList(list)
			if mode == "crash" {
				// the node dies after the block was saved and before ApplyBlock reached Pool.Update; when it comes back the
				// handshake replays that block with a stub evidence pool (consensus.Handshaker.replayBlock) and only then
				// is the real pool opened again on its database
				w.c.SetEvidencePool(sm.EmptyEvidencePool{})
			}
			if err := w.advance(plan); err != nil {
				m.fatalf(t, "ApplyBlock with evidence %s failed: %v", names(list), err)
			}
			if mode == "crash" {
				m.pool = w.newPool(t, m.db)
				w.c.SetEvidencePool(m.pool)
				m.buffer = nil // in memory only, gone with the process
				m.drift = 0
				m.restarts++
				m.crashes++
			}
			if plan.Params != nil {
				m.log("   (evidence params now: MaxAgeNumBlocks=%d MaxAgeDuration=%s MaxBytes=%d)", w.maxBlocks, w.maxDur, w.maxBytes)
			}
			tip := w.tip()
			// conflicting votes whose height is now decided become pending
			for _, pr := range m.buffer {
				h := pr[0].Height
				if h > tip {
					continue
				}
				tm, _ := w.timeAt(h)
				dve, err := lib.NewDuplicateVote(pr[0], pr[1], tm, w.c.ValidatorsAt(h))
				if err != nil {
					t.Fatalf("VERIF-INFRA: %v", err)
				}
				x := m.intern(item{ev: dve, kind: "dve", pert: "reported"}, dve)
				if m.pending[x.hash] == nil && !m.committed[x.hash] {
					m.pending[x.hash] = x
					m.gossip[x.hash] = true
					m.reportsFlushed++
				}
			}
			m.buffer = nil
			for _, x := range list {
				delete(m.pending, x.hash)
				delete(m.gossip, x.hash)
				if h := conflictingBlockHash(x.ev); h != "" && m.committedBlocks[h] == "" {
					m.committedBlocks[h] = x.hash
				}
				if !m.committed[x.hash] {
					m.committedList = append(m.committedList, x)
				}
				m.committed[x.hash] = true
				kinds["committed:"+x.it.kind] = true
			}
			if len(list) > 0 {
				m.commits++
			}
			if blind > 0 {
				m.blindCommits++
				for _, x := range list {
					m.blind[x.hash] = true
				}
			}
			m.log("advance(%s) -> tip=%d time=+%s committed=%s never-pending=%d", mode, tip, w.tipTime().Sub(w.c.Blocks[1].Time), names(list), blind)
		}

		for i, n := 0, rapid.IntRange(2, 4).Draw(t, "prefix"); i < n; i++ {
			advance(t, "")
		}
		m.invariant(t)

		t.Repeat(map[string]func(*rapid.T){
			"": m.invariant,
			"add": func(t *rapid.T) {
				x, r, ok := m.drawItem(t, false)
				if !ok {
					t.Skip("no item")
				}
				wasPending, wasCommitted := m.pending[x.hash] != nil, m.committed[x.hash]
				e0, p0 := guarded(func() error { return m.pool.AddEvidence(x.ev) })
				err := poolErr(t, []types.Evidence{x.ev}, e0, p0)
				if wasCommitted {
					m.reoffers++
					if m.blind[x.hash] {
						m.blindReoffers++
					}
				}
				m.log("add %s@%d#%X ref=%s(%s) pending=%v committed=%v -> err=%v", x.it, x.h, x.hash[:3], r.v, r.why, wasPending, wasCommitted, err != nil)
				lib.Class(name, "kind:"+x.it.kind, fmt.Sprintf("add:%s:%v", r.v, err == nil))
				switch {
				case wasPending || wasCommitted:
					// nothing may change in the pool (checked by the invariant); the property does not fix the return
					// value (the pool answers nil so that a peer that is merely behind is not punished)
				case r.v == vValid:
					if err != nil {
						m.fatalf(t, "AddEvidence rejected valid, fresh, new evidence %s: %v\n %s", x.it, err, describeEv(x.ev))
					}
					m.pending[x.hash] = x
					m.gossip[x.hash] = true
					kinds["admitted:"+x.it.kind] = true
				default:
					if err == nil {
						m.fatalf(t, "AddEvidence admitted invalid evidence %s (%s)\n %s", x.it, r.why, describeEv(x.ev))
					}
				}
			},
			"check": func(t *rapid.T) {
				n := rapid.IntRange(1, 4).Draw(t, "n")
				var list []*mItem
				for i := 0; i < n; i++ {
					if len(list) > 0 && rapid.IntRange(0, 4).Draw(t, "dup") == 0 {
						list = append(list, rapid.SampledFrom(list).Draw(t, "dupof"))
						m.dupLists++
						continue
					}
					// mostly acceptable items, so that lists get past their first element
					x, _, ok := m.drawItem(t, rapid.IntRange(0, 3).Draw(t, "validonly") != 0)
					if ok {
						list = append(list, x)
					}
				}
				if len(list) == 0 {
					t.Skip("no item")
				}
				for _, x := range list {
					if m.committed[x.hash] {
						m.reoffers++
						if m.blind[x.hash] {
							m.blindReoffers++
						}
					}
				}
				ok := m.check(t, list, "block")
				lib.Class(name, fmt.Sprintf("check:len%d:%v", len(list), ok))
			},
			"report": func(t *rapid.T) {
				// consensus reports conflicting votes of the height being decided (or of a recent decided one)
				tip := w.tip()
				h := tip + 1
				if rapid.IntRange(0, 3).Draw(t, "old") == 0 {
					h = w.pickHeight(t, "report.h", 1, tip)
				}
				a, b, _ := w.genVotes(t, h)
				var offence *types.DuplicateVoteEvidence
				if n := len(m.committedList); n > 0 && rapid.IntRange(0, 3).Draw(t, "committed-offence") == 0 {
					// consensus (e.g. replaying its WAL, or a late peer) sees the two votes of an offence that is already
					// committed on chain
					x := m.committedList[n-1-rapid.IntRange(0, min(n, 3)-1).Draw(t, "recent")]
					offence, _ = x.ev.(*types.DuplicateVoteEvidence)
					if offence != nil && m.blind[x.hash] {
						m.blindReoffers++
					}
				}
				if offence != nil {
					a, b, h = offence.VoteA, offence.VoteB, offence.VoteA.Height
					m.reoffers++
				} else if len(m.reported) > 0 && rapid.IntRange(0, 2).Draw(t, "again") == 0 {
					// consensus sees the same pair again (e.g. from another peer, or after the evidence was committed)
					pr := rapid.SampledFrom(m.reported).Draw(t, "pair")
					a, b, h = pr[0], pr[1], pr[0].Height
				} else {
					m.reported = append(m.reported, [2]*types.Vote{a, b})
				}
				if rapid.Bool().Draw(t, "swap") {
					a, b = b, a
				}
				m.pool.ReportConflictingVotes(a, b)
				m.buffer = append(m.buffer, [2]*types.Vote{a, b})
				m.reports++
				m.log("report votes h=%d (tip=%d)", h, tip)
			},
			"propose": func(t *rapid.T) {
				// what CreateProposalBlock does: take PendingEvidence(maxBytes) as the block's evidence; every validator
				// (this node included) then validates exactly that list. Whatever the pool hands out is judged like any
				// other block content: accepted <=> valid, fresh, uncommitted, unrepeated.
				max := rapid.SampledFrom([]int64{w.maxBytes, w.maxBytes, -1, 3000, 800}).Draw(t, "maxb")
				got, _ := m.pool.PendingEvidence(max)
				if len(got) == 0 {
					t.Skip("nothing pending")
				}
				var list []*mItem
				for _, e := range got {
					x := m.pending[string(e.Hash())]
					if x == nil {
						m.fatalf(t, "PendingEvidence hands out evidence the model never admitted: %s", describeEv(e))
					}
					list = append(list, m.intern(x.it, e))
				}
				ok := m.check(t, list, "own-proposal")
				lib.Class(name, fmt.Sprintf("propose:len%d:%v", min(len(list), 3), ok))
			},
			"advance":           func(t *rapid.T) { advance(t, "") },
			"advance-evidence":  func(t *rapid.T) { advance(t, "validated") },
			"advance-blocksync": func(t *rapid.T) { advance(t, "blocksync") },
			"advance-crash": func(t *rapid.T) {
				if lib.IsKnown(kfCrash) {
					lib.ExcludedByKnown(kfCrash)
					t.Skip("crash between SaveBlock and Pool.Update: listed known finding")
				}
				advance(t, "crash")
			},
			"pending": func(t *rapid.T) {
				all, total := m.pool.PendingEvidence(-1)
				max := int64(-1)
				switch rapid.SampledFrom([]string{"zero", "tiny", "below", "exact", "half", "all", "params"}).Draw(t, "max") {
				case "params":
					max = w.maxBytes // what CreateProposalBlock asks for
				case "zero":
					max = 0
				case "tiny":
					max = rapid.Int64Range(1, 300).Draw(t, "maxb")
				case "below":
					max = total - 1
				case "exact":
					max = total
				case "half":
					max = total / 2
				}
				if max < 0 {
					max = -1
				}
				got, sz := m.pool.PendingEvidence(max)
				var pb tmproto.EvidenceList
				for i, e := range got {
					if i >= len(all) || string(e.Hash()) != string(all[i].Hash()) {
						m.fatalf(t, "PendingEvidence(%d) is not a prefix of the pending list", max)
					}
					p, _ := types.EvidenceToProto(e)
					pb.Evidence = append(pb.Evidence, *p)
				}
				if max >= 0 && int64(pb.Size()) > max {
					m.fatalf(t, "PendingEvidence(%d) returned %d bytes", max, pb.Size())
				}
				if len(got) > 0 && sz != int64(pb.Size()) {
					m.fatalf(t, "PendingEvidence(%d) reports %d bytes, encodes to %d", max, sz, pb.Size())
				}
				if (max == -1 || max >= total) && len(got) != len(all) {
					m.fatalf(t, "PendingEvidence(%d) returned %d of %d items although all fit (%d bytes)", max, len(got), len(all), total)
				}
				lib.Class(name, fmt.Sprintf("pending:%d-of-%d", min(len(got), 3), min(len(all), 3)))
				m.log("pending(%d) -> %d of %d", max, len(got), len(all))
			},
			"restart": func(t *rapid.T) {
				m.pool = w.newPool(t, m.db)
				w.c.SetEvidencePool(m.pool)
				m.buffer = nil // votes not yet turned into evidence live in memory only
				m.drift = 0
				m.restarts++
				if _, total := m.pool.PendingEvidence(-1); total > w.maxBytes {
					m.bigRestarts++
				}
				m.log("restart")
			},
		})

		nontrivial := (m.commits > 0 && m.reoffers > 0) || m.expiries > 0
		var ks []string
		for k := range kinds {
			ks = append(ks, k)
		}
		sort.Strings(ks)
		cls := []string{fmt.Sprintf("commits:%d", min(m.commits, 3)), fmt.Sprintf("reoffers-of-committed:%d", min(m.reoffers, 3)),
			fmt.Sprintf("expiries:%d", min(m.expiries, 3)), fmt.Sprintf("restarts:%d", min(m.restarts, 2)),
			fmt.Sprintf("reports-flushed:%d", min(m.reportsFlushed, 3)), fmt.Sprintf("lists-with-repeats:%d", min(m.dupLists, 2)),
			fmt.Sprintf("evidence-param-changes:%d", min(w.paramChanges, 3)), fmt.Sprintf("crashes-before-update:%d", min(m.crashes, 2)), fmt.Sprintf("restarts-with-more-pending-than-maxbytes:%d", min(m.bigRestarts, 2)), fmt.Sprintf("commits-never-pending:%d", min(m.blindCommits, 3)), fmt.Sprintf("reoffers-of-never-pending-committed:%d", min(m.blindReoffers, 3))}
		cls = append(cls, ks...)
		lib.Case(name, lib.FP(strings.Join(m.ops, ";")), nontrivial, cls...)
		if nontrivial && lib.WantSample(name) {
			ops := m.ops
			if len(ops) > 40 {
				ops = ops[:40]
			}
			lib.Sample(name, map[string]interface{}{"ops": ops, "maxAgeBlocks": w.maxBlocks, "maxAgeDur": w.maxDur.String()})
		}
	})
}

func describeVals(vs *types.ValidatorSet) string {
	if vs == nil {
		return "<none>"
	}
	o := ""
	for _, v := range vs.Validators {
		o += fmt.Sprintf("%X:%d(key %d) ", v.Address[:3], v.VotingPower, lib.KeyIndex(v.Address))
	}
	return o
}

// short keeps the head of an error message (pool errors print the whole evidence).
func short(err error) string {
	if err == nil {
		return "<nil>"
	}
	s := err.Error()
	if i := strings.Index(s, "Evidence: "); i > 0 {
		s = s[:i]
	}
	if len(s) > 300 {
		s = s[:300] + "..."
	}
	return s
}

func min64(a, b int64) int64 {
	if a < b {
		return a
	}
	return b
}

func min(a, b int) int {
	if a < b {
		return a
	}
	return b
}
