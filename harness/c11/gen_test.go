package c11

// Generators: a chain with validator changes and irregular block times (world), genuine evidence of every kind
// (via lib/forger.go) and single-field perturbations of it. Labels produced here are only used for statistics —
// every verdict comes from the reference verifier in ref_test.go.

import (
	"fmt"
	"time"

	abci "github.com/tendermint/tendermint/abci/types"
	tmproto "github.com/tendermint/tendermint/proto/tendermint/types"
	"github.com/tendermint/tendermint/types"
	"pgregory.net/rapid"

	"verif/lib"
)

const (
	spareKeyLo   = 8  // ring keys [spareKeyLo, spareKeyHi) may join the validator set later
	spareKeyHi   = 12 //
	phantomKeyLo = 20 // ring keys only ever used inside forged validator sets
	outsiderKey  = 40 // never a validator anywhere
)

type world struct {
	c         *lib.Chain
	chainID   string
	maxBlocks int64
	maxDur    time.Duration
	maxBytes  int64 // Evidence.MaxBytes in force after the tip (genesis value or the last on-chain change)
	sigCache  map[string]bool
	// number of on-chain changes of the evidence params so far
	paramChanges int
}

// advance applies the next block; the evidence age limits in force afterwards are the ones the application
// returned with that block (recorded here from the plan, cross-checked against the state the chain builder keeps).
func (w *world) advance(plan *lib.HeightPlan) error {
	if err := w.c.Advance(plan); err != nil {
		return err
	}
	if plan != nil && plan.Params != nil && plan.Params.Evidence != nil {
		w.maxBlocks, w.maxDur = plan.Params.Evidence.MaxAgeNumBlocks, plan.Params.Evidence.MaxAgeDuration
		w.maxBytes = plan.Params.Evidence.MaxBytes
		w.paramChanges++
	}
	if got := w.c.State.ConsensusParams.Evidence; got.MaxAgeNumBlocks != w.maxBlocks || got.MaxAgeDuration != w.maxDur || got.MaxBytes != w.maxBytes {
		return fmt.Errorf("VERIF-INFRA: chain state has evidence params %v, harness recorded %d/%s", got, w.maxBlocks, w.maxDur)
	}
	return nil
}

func (w *world) tip() int64         { return w.c.Tip() }
func (w *world) tipTime() time.Time { return w.c.Blocks[w.c.Tip()].Time }
func (w *world) timeAt(h int64) (time.Time, bool) {
	b, ok := w.c.Blocks[h]
	if !ok {
		return time.Time{}, false
	}
	return b.Time, true
}

// ageClass classifies height h against both age limits at the current tip (reference arithmetic).
func (w *world) ageClass(h int64) (expired bool, cls string) {
	tm, ok := w.timeAt(h)
	if !ok {
		return false, "age:n/a"
	}
	byH := w.tip()-h > w.maxBlocks
	byT := w.tipTime().Sub(tm) > w.maxDur
	switch {
	case byH && byT:
		return true, "age:both-exceeded"
	case byH:
		return false, "age:height-only-exceeded"
	case byT:
		return false, "age:time-only-exceeded"
	}
	return false, "age:fresh"
}

var evMaxBytes = []int64{1048576, 1048576, 500, 900, 1600, 3000}

func newWorld(t *rapid.T) *world {
	n := rapid.IntRange(3, 5).Draw(t, "nvals")
	keys := make([]int, n)
	powers := make([]int64, n)
	for i := range keys {
		keys[i] = i
		powers[i] = rapid.Int64Range(1, 10).Draw(t, "power")
	}
	p := types.DefaultConsensusParams()
	p.Evidence.MaxAgeNumBlocks = rapid.Int64Range(1, 4).Draw(t, "maxAgeBlocks")
	p.Evidence.MaxAgeDuration = time.Duration(rapid.SampledFrom([]int{3, 5, 8}).Draw(t, "maxAgeSec")) * time.Second
	// evidence bytes allowed per block: the 1 MiB default, or so few that the pending evidence does not fit in one block
	p.Evidence.MaxBytes = rapid.SampledFrom(evMaxBytes).Draw(t, "maxEvidenceBytes")
	c, err := lib.NewChain(lib.ChainSpec{Keys: keys, Powers: powers, Params: p})
	if err != nil {
		t.Fatalf("VERIF-INFRA: NewChain: %v", err)
	}
	return &world{c: c, chainID: c.Spec.ChainID, maxBlocks: p.Evidence.MaxAgeNumBlocks, maxDur: p.Evidence.MaxAgeDuration, maxBytes: p.Evidence.MaxBytes,
		sigCache: map[string]bool{}}
}

// genPlan draws what happens at the next height: time step, validator updates, commit round and flags.
func (w *world) genPlan(t *rapid.T) *lib.HeightPlan {
	c := w.c
	p := &lib.HeightPlan{}
	dt := time.Duration(rapid.SampledFrom([]int{1, 1, 1, 2, 2, 3, 5, 9}).Draw(t, "dt")) * time.Second
	cur := c.State.Validators
	p.TsOffsets = make([]time.Duration, cur.Size())
	for i := range p.TsOffsets {
		p.TsOffsets[i] = dt
	}
	p.Round = int32(rapid.SampledFrom([]int{0, 0, 0, 1, 2}).Draw(t, "round"))
	// one validator may be absent / vote nil in the commit if the rest still has +2/3
	if rapid.IntRange(0, 3).Draw(t, "flagcoin") == 0 {
		i := rapid.IntRange(0, cur.Size()-1).Draw(t, "flagidx")
		rest := lib.SumPower(cur) - cur.Validators[i].VotingPower
		if rest*3 > lib.SumPower(cur)*2 {
			p.Flags = make([]types.BlockIDFlag, cur.Size())
			p.Flags[i] = rapid.SampledFrom([]types.BlockIDFlag{types.BlockIDFlagAbsent, types.BlockIDFlagNil}).Draw(t, "flag")
		}
	}
	if rapid.IntRange(0, 7).Draw(t, "paramcoin") == 0 {
		// the application changes the evidence age limits (EndBlock consensus-param update): lowered, raised or mixed
		cur := c.State.ConsensusParams.Evidence
		p.Params = &abci.ConsensusParams{Evidence: &tmproto.EvidenceParams{
			MaxAgeNumBlocks: rapid.Int64Range(1, 6).Draw(t, "newMaxAgeBlocks"),
			MaxAgeDuration:  time.Duration(rapid.SampledFrom([]int{1, 3, 5, 8, 20}).Draw(t, "newMaxAgeSec")) * time.Second,
			MaxBytes:        rapid.SampledFrom(append([]int64{cur.MaxBytes, cur.MaxBytes}, evMaxBytes...)).Draw(t, "newMaxEvidenceBytes"),
		}}
	}
	if rapid.IntRange(0, 2).Draw(t, "updcoin") == 0 {
		base := c.State.NextValidators // updates returned at h apply on top of this (in force at h+2)
		switch rapid.SampledFrom([]string{"add", "remove", "repower", "repower"}).Draw(t, "upd") {
		case "add":
			k := rapid.IntRange(spareKeyLo, spareKeyHi-1).Draw(t, "addkey")
			if lib.ValIndexOf(base, k) < 0 {
				p.ValUpdates = []lib.ValUpdate{{Key: k, Power: rapid.Int64Range(1, 10).Draw(t, "addpower")}}
			}
		case "remove":
			if base.Size() >= 3 {
				i := rapid.IntRange(0, base.Size()-1).Draw(t, "rmidx")
				p.ValUpdates = []lib.ValUpdate{{Key: lib.KeyIndex(base.Validators[i].Address), Power: 0}}
			}
		case "repower":
			i := rapid.IntRange(0, base.Size()-1).Draw(t, "rpidx")
			np := rapid.Int64Range(1, 10).Draw(t, "rppower")
			if np != base.Validators[i].VotingPower {
				p.ValUpdates = []lib.ValUpdate{{Key: lib.KeyIndex(base.Validators[i].Address), Power: np}}
			}
		}
	}
	return p
}

// item is one piece of evidence offered to the pool, with generator-side labels.
type item struct {
	ev   types.Evidence
	kind string // dve | lunatic | equivocation | amnesia
	pert string // perturbation label ("none" = genuine as built)
	base bool   // for perturbed items: the unperturbed evidence was valid and fresh (the perturbation alone decides)
}

func (it item) String() string { return it.kind + "/" + it.pert }

// pickHeight draws a height in [1, tip] that favours the tip and both edges of the age window.
func (w *world) pickHeight(t *rapid.T, label string, lo, hi int64) int64 {
	if hi < lo {
		return lo
	}
	switch rapid.SampledFrom([]string{"fresh", "fresh", "fresh", "uniform", "hi", "hi-1", "edge", "edge+1", "lo"}).Draw(t, label+".mode") {
	case "fresh": // any height that has not expired
		var fresh []int64
		for h := lo; h <= hi; h++ {
			if e, _ := w.ageClass(h); !e {
				fresh = append(fresh, h)
			}
		}
		if len(fresh) > 0 {
			return rapid.SampledFrom(fresh).Draw(t, label+".fresh")
		}
	case "hi":
		return hi
	case "hi-1":
		if hi-1 >= lo {
			return hi - 1
		}
	case "edge": // last height still inside the block-age window
		if h := w.tip() - w.maxBlocks; h >= lo && h <= hi {
			return h
		}
	case "edge+1":
		if h := w.tip() - w.maxBlocks - 1; h >= lo && h <= hi {
			return h
		}
	case "lo":
		return lo
	}
	return rapid.Int64Range(lo, hi).Draw(t, label)
}

// ---------------------------------------------------------------------------------------------------------------
// duplicate votes

type dveCtx struct {
	h     int64
	key   int
	vals  *types.ValidatorSet
	typ   tmproto.SignedMsgType
	round int32
}

func (w *world) genBlockIDPair(t *rapid.T, h int64) (types.BlockID, types.BlockID) {
	pool := []types.BlockID{{}, lib.ForgeBlockID(fmt.Sprintf("a%d", h)), lib.ForgeBlockID(fmt.Sprintf("b%d", h)), lib.ForgeBlockID("c")}
	if id, ok := w.c.IDs[h]; ok {
		alt := id
		alt.PartSetHeader.Total++
		pool = append(pool, id, alt)
	}
	i := rapid.IntRange(0, len(pool)-1).Draw(t, "idA")
	j := rapid.IntRange(0, len(pool)-2).Draw(t, "idB")
	if j >= i {
		j++
	}
	return pool[i], pool[j]
}

// genVotes draws two genuinely conflicting votes of a validator of height h (h may be tip+1: being decided).
func (w *world) genVotes(t *rapid.T, h int64) (*types.Vote, *types.Vote, dveCtx) {
	vals := w.c.ValidatorsAt(h)
	vi := rapid.IntRange(0, vals.Size()-1).Draw(t, "dve.val")
	ctx := dveCtx{h: h, key: lib.KeyIndex(vals.Validators[vi].Address), vals: vals}
	ctx.typ = rapid.SampledFrom([]tmproto.SignedMsgType{tmproto.PrevoteType, tmproto.PrecommitType}).Draw(t, "dve.type")
	ctx.round = int32(rapid.IntRange(0, 2).Draw(t, "dve.round"))
	idA, idB := w.genBlockIDPair(t, h)
	base := w.tipTime()
	if tm, ok := w.timeAt(h); ok {
		base = tm
	}
	tsA := base.Add(time.Duration(rapid.IntRange(0, 3000).Draw(t, "tsA")) * time.Millisecond)
	tsB := base.Add(time.Duration(rapid.IntRange(0, 3000).Draw(t, "tsB")) * time.Millisecond)
	a, b := lib.ConflictingVotes(w.chainID, ctx.key, int32(vi), ctx.typ, h, ctx.round, idA, idB, tsA, tsB)
	return a, b, ctx
}

func (w *world) genDVE(t *rapid.T) (*types.DuplicateVoteEvidence, dveCtx) {
	h := w.pickHeight(t, "dve.h", 1, w.tip())
	a, b, ctx := w.genVotes(t, h)
	tm, _ := w.timeAt(h)
	ev, err := lib.NewDuplicateVote(a, b, tm, ctx.vals)
	if err != nil {
		t.Fatalf("VERIF-INFRA: forger: %v", err)
	}
	return ev, ctx
}

func cloneVote(v *types.Vote) *types.Vote {
	c := *v
	c.Signature = append([]byte(nil), v.Signature...)
	c.ValidatorAddress = append([]byte(nil), v.ValidatorAddress...)
	c.BlockID.Hash = append([]byte(nil), v.BlockID.Hash...)
	c.BlockID.PartSetHeader.Hash = append([]byte(nil), v.BlockID.PartSetHeader.Hash...)
	return &c
}

func cloneDVE(e *types.DuplicateVoteEvidence) *types.DuplicateVoteEvidence {
	c := *e
	c.VoteA, c.VoteB = cloneVote(e.VoteA), cloneVote(e.VoteB)
	return &c
}

var dvePerts = []string{
	"type-one", "type-both-invalid", "height-one", "round-one", "same-block", "blockhash-one", "vote-ts-one",
	"addr-one", "addr-both", "valindex", "sig-flip", "sig-otherkey", "wrong-chain", "power", "total", "ev-ts-ns",
	"ev-ts-other-height", "swap", "outsider", "non-member-at-height", "abci-from-other-height", "future-height",
}

// otherMember returns a ring key of another member of vals (or an outsider if there is none).
func otherMember(t *rapid.T, vals *types.ValidatorSet, notKey int) int {
	var ks []int
	for _, v := range vals.Validators {
		if k := lib.KeyIndex(v.Address); k != notKey {
			ks = append(ks, k)
		}
	}
	if len(ks) == 0 {
		return outsiderKey
	}
	return rapid.SampledFrom(ks).Draw(t, "other")
}

// perturbDVE changes one aspect of genuine evidence. resign => the touched vote is signed again by its key.
func (w *world) perturbDVE(t *rapid.T, gen *types.DuplicateVoteEvidence, ctx dveCtx) (types.Evidence, string) {
	kind := rapid.SampledFrom(dvePerts).Draw(t, "dve.pert")
	e := cloneDVE(gen)
	which := rapid.Bool().Draw(t, "dve.which")
	v := e.VoteA
	if which {
		v = e.VoteB
	}
	resign := rapid.Bool().Draw(t, "dve.resign")
	rs := func(x *types.Vote) {
		if resign {
			lib.SignVote(w.chainID, ctx.key, x)
		}
	}
	label := kind
	if resign {
		switch kind {
		case "type-one", "height-one", "round-one", "blockhash-one", "vote-ts-one", "valindex":
			label += "+resign"
		}
	}
	switch kind {
	case "type-one":
		if v.Type == tmproto.PrevoteType {
			v.Type = tmproto.PrecommitType
		} else {
			v.Type = tmproto.PrevoteType
		}
		rs(v)
	case "type-both-invalid":
		bad := rapid.SampledFrom([]tmproto.SignedMsgType{tmproto.ProposalType, tmproto.UnknownType}).Draw(t, "badtype")
		e.VoteA.Type, e.VoteB.Type = bad, bad
		lib.SignVote(w.chainID, ctx.key, e.VoteA)
		lib.SignVote(w.chainID, ctx.key, e.VoteB)
	case "height-one":
		v.Height += rapid.SampledFrom([]int64{-1, 1}).Draw(t, "dh")
		rs(v)
	case "round-one":
		v.Round++
		rs(v)
	case "same-block":
		e.VoteB.BlockID = e.VoteA.BlockID
		lib.SignVote(w.chainID, ctx.key, e.VoteB)
	case "blockhash-one":
		if v.BlockID.IsZero() {
			v.BlockID = lib.ForgeBlockID("z")
		} else {
			v.BlockID.Hash[len(v.BlockID.Hash)-1] ^= 1
		}
		rs(v)
	case "vote-ts-one":
		v.Timestamp = v.Timestamp.Add(time.Nanosecond)
		rs(v)
	case "addr-one":
		v.ValidatorAddress = lib.Key(otherMember(t, ctx.vals, ctx.key)).PubKey().Address()
	case "addr-both":
		o := lib.Key(otherMember(t, ctx.vals, ctx.key)).PubKey().Address()
		e.VoteA.ValidatorAddress, e.VoteB.ValidatorAddress = o, append([]byte(nil), o...)
	case "valindex":
		v.ValidatorIndex += 1
		rs(v)
	case "sig-flip":
		v.Signature[rapid.IntRange(0, len(v.Signature)-1).Draw(t, "sigbyte")] ^= 1 << uint(rapid.IntRange(0, 7).Draw(t, "sigbit"))
	case "sig-otherkey":
		lib.SignVote(w.chainID, otherMember(t, ctx.vals, ctx.key), v)
	case "wrong-chain":
		lib.SignVote(w.chainID+"x", ctx.key, e.VoteA)
		lib.SignVote(w.chainID+"x", ctx.key, e.VoteB)
	case "power":
		e.ValidatorPower += rapid.SampledFrom([]int64{-1, 1}).Draw(t, "dp")
	case "total":
		e.TotalVotingPower += rapid.SampledFrom([]int64{-1, 1}).Draw(t, "dp")
	case "ev-ts-ns":
		e.Timestamp = e.Timestamp.Add(time.Duration(rapid.SampledFrom([]int{-1, 1}).Draw(t, "dns")))
	case "ev-ts-other-height":
		oh := ctx.h + rapid.SampledFrom([]int64{-1, 1}).Draw(t, "doh")
		if tm, ok := w.timeAt(oh); ok {
			e.Timestamp = tm
		} else {
			e.Timestamp = e.Timestamp.Add(time.Second)
		}
	case "swap":
		e.VoteA, e.VoteB = e.VoteB, e.VoteA
	case "outsider":
		a, b := lib.ConflictingVotes(w.chainID, outsiderKey, 0, ctx.typ, ctx.h, ctx.round, gen.VoteA.BlockID, gen.VoteB.BlockID,
			gen.VoteA.Timestamp, gen.VoteB.Timestamp)
		e.VoteA, e.VoteB = a, b
	case "non-member-at-height", "abci-from-other-height":
		// evidence assembled with the validator set of ANOTHER height h2 (votes still at h): the signer may not be a
		// member at h, or its power / the total may differ.
		h2 := w.pickHeight(t, "dve.h2", 1, w.tip()+1)
		vals2 := w.c.ValidatorsAt(h2)
		key := ctx.key
		if kind == "non-member-at-height" {
			// prefer a member of h2 that is not a member at h
			for _, x := range vals2.Validators {
				if k := lib.KeyIndex(x.Address); lib.ValIndexOf(ctx.vals, k) < 0 {
					key = k
				}
			}
		}
		if lib.ValIndexOf(vals2, key) < 0 {
			return e, kind + "(n/a)"
		}
		a, b := lib.ConflictingVotes(w.chainID, key, lib.ValIndexOf(vals2, key), ctx.typ, ctx.h, ctx.round, gen.VoteA.BlockID,
			gen.VoteB.BlockID, gen.VoteA.Timestamp, gen.VoteB.Timestamp)
		ne, err := lib.NewDuplicateVote(a, b, gen.Timestamp, vals2)
		if err != nil {
			t.Fatalf("VERIF-INFRA: forger: %v", err)
		}
		return ne, kind
	case "future-height":
		h := w.tip() + 1
		a, b, c2 := w.genVotes(t, h)
		ne, err := lib.NewDuplicateVote(a, b, w.tipTime().Add(time.Second), c2.vals)
		if err != nil {
			t.Fatalf("VERIF-INFRA: forger: %v", err)
		}
		return ne, kind
	}
	return e, label
}

// ---------------------------------------------------------------------------------------------------------------
// light-client attacks

type lcaCtx struct {
	spec     lib.AttackSpec
	coalMode string
	valsMode string
}

func keysOf(vals *types.ValidatorSet) []int {
	ks := make([]int, vals.Size())
	for i, v := range vals.Validators {
		ks[i] = lib.KeyIndex(v.Address)
	}
	return ks
}

// genCoalition draws who signs the forged block: everybody, a minimal +2/3 subset (in a drawn order), or one less
// than that (under-powered).
func genCoalition(t *rapid.T, vals *types.ValidatorSet) (signers, nilSigners []int, mode string) {
	mode = rapid.SampledFrom([]string{"all", "all", "minimal", "minimal", "under", "all-but-nil"}).Draw(t, "coal")
	ks := keysOf(vals)
	if mode == "all" {
		return ks, nil, mode
	}
	order := rapid.Permutation(ks).Draw(t, "coal.order")
	if mode == "all-but-nil" {
		// one member signs nil instead, if the rest keeps +2/3
		k := order[0]
		rest := lib.SumPower(vals) - vals.Validators[lib.ValIndexOf(vals, k)].VotingPower
		if rest*3 > lib.SumPower(vals)*2 {
			return order[1:], []int{k}, mode
		}
		return ks, nil, "all"
	}
	total := lib.SumPower(vals)
	var acc int64
	for _, k := range order {
		signers = append(signers, k)
		acc += vals.Validators[lib.ValIndexOf(vals, k)].VotingPower
		if acc*3 > total*2 {
			break
		}
	}
	if mode == "under" {
		signers = signers[:len(signers)-1]
		if len(signers) == 0 {
			return ks, nil, "all"
		}
	}
	return signers, nil, mode
}

func (w *world) genLCA(t *rapid.T) (*types.LightClientAttackEvidence, lcaCtx) {
	c := w.c
	tip := w.tip()
	var ctx lcaCtx
	sp := &ctx.spec
	sp.Shape = rapid.SampledFrom([]lib.AttackShape{lib.Lunatic, lib.Lunatic, lib.Equivocation, lib.Amnesia}).Draw(t, "shape")
	sp.Salt = fmt.Sprintf("s%d", rapid.IntRange(0, 2).Draw(t, "salt"))
	ctx.valsMode = "canonical"
	var forgedVals *types.ValidatorSet
	switch sp.Shape {
	case lib.Lunatic:
		hiCommon := tip - 1
		if hiCommon < 1 {
			hiCommon = 1
		}
		sp.CommonHeight = w.pickHeight(t, "lca.common", 1, hiCommon)
		sp.ConflictHeight = sp.CommonHeight + int64(rapid.SampledFrom([]int{1, 1, 2, 3, 5}).Draw(t, "lca.gap"))
		base := sp.ConflictHeight
		if base > tip {
			base = tip
			// forward attack: the forged time decides whether it is misbehaviour at all
			sp.Time = w.tipTime().Add(time.Duration(rapid.SampledFrom([]int{-2000, -1, 0, 0, 1, 1000}).Draw(t, "lca.fwd.dt")) * time.Millisecond)
		}
		forgedVals = c.ValidatorsAt(base)
		if rapid.Bool().Draw(t, "lca.phantom") {
			// forged set = some members of the common set (with made-up powers) + phantoms
			ctx.valsMode = "phantom"
			common := c.ValidatorsAt(sp.CommonHeight)
			var ks []int
			var ps []int64
			for _, k := range keysOf(common) {
				if rapid.IntRange(0, 3).Draw(t, "lca.keep") != 0 {
					ks = append(ks, k)
					ps = append(ps, rapid.Int64Range(1, 10).Draw(t, "lca.fpower"))
				}
			}
			for j := 0; j < rapid.IntRange(0, 2).Draw(t, "lca.nphantom"); j++ {
				ks = append(ks, phantomKeyLo+j)
				ps = append(ps, rapid.Int64Range(1, 6).Draw(t, "lca.ppower"))
			}
			if len(ks) == 0 {
				ks, ps = []int{phantomKeyLo}, []int64{1}
			}
			forgedVals = lib.NewValSet(ks, ps).Set
			sp.ForgedVals = forgedVals
		}
		if rapid.IntRange(0, 5).Draw(t, "lca.repeated") == 0 {
			// forged set = ONE member of the common set listed k times (decoders accept that), every slot signed by it:
			// its power must count once against the common set however often it appears
			ctx.valsMode = "repeated"
			common := c.ValidatorsAt(sp.CommonHeight)
			i := common.Size() - 1 - rapid.SampledFrom([]int{0, 0, 0, 1, 2}).Draw(t, "lca.rep.fromtail")
			if i < 0 {
				i = 0
			}
			forgedVals = lib.RepeatedValSet(lib.KeyIndex(common.Validators[i].Address), rapid.Int64Range(1, 10).Draw(t, "lca.rep.power"),
				rapid.IntRange(2, 12).Draw(t, "lca.rep.k"))
			sp.ForgedVals = forgedVals
		}
		sp.Round = int32(rapid.IntRange(0, 1).Draw(t, "lca.round"))
	default:
		sp.ConflictHeight = w.pickHeight(t, "lca.h", 1, tip)
		forgedVals = c.ValidatorsAt(sp.ConflictHeight)
		if sp.Shape == lib.Amnesia {
			sp.Round = c.Commits[sp.ConflictHeight].Round + int32(rapid.SampledFrom([]int{1, 2, -1}).Draw(t, "lca.dround"))
			if sp.Round < 0 {
				sp.Round = c.Commits[sp.ConflictHeight].Round + 1
			}
		}
	}
	if ctx.valsMode == "repeated" {
		sp.Signers, ctx.coalMode = keysOf(forgedVals)[:1], "all"
	} else {
		sp.Signers, sp.NilSigners, ctx.coalMode = genCoalition(t, forgedVals)
	}
	ev, err := c.ForgeAttack(*sp)
	if err != nil {
		t.Fatalf("VERIF-INFRA: forger: %v", err)
	}
	return ev, ctx
}

func cloneLCA(e *types.LightClientAttackEvidence) *types.LightClientAttackEvidence {
	c := *e
	lb := *e.ConflictingBlock
	sh := *lb.SignedHeader
	h := *sh.Header
	cm := *sh.Commit
	cm.Signatures = make([]types.CommitSig, len(sh.Commit.Signatures))
	for i, s := range sh.Commit.Signatures {
		s.Signature = append([]byte(nil), s.Signature...)
		s.ValidatorAddress = append([]byte(nil), s.ValidatorAddress...)
		cm.Signatures[i] = s
	}
	// a fresh Commit value: the hash / bit-array caches inside must not be carried over
	cm2 := types.NewCommit(cm.Height, cm.Round, cm.BlockID, cm.Signatures)
	h.AppHash = append([]byte(nil), h.AppHash...)
	sh.Header, sh.Commit = &h, cm2
	lb.SignedHeader = &sh
	lb.ValidatorSet = e.ConflictingBlock.ValidatorSet.Copy()
	c.ConflictingBlock = &lb
	if e.ByzantineValidators != nil {
		c.ByzantineValidators = make([]*types.Validator, len(e.ByzantineValidators))
		for i, v := range e.ByzantineValidators {
			c.ByzantineValidators[i] = v.Copy()
		}
	}
	return &c
}

var lcaPerts = []string{
	"common-1", "common+1", "reanchor", "ev-ts-ns", "ev-ts-other-height", "total",
	"byz-swap", "byz-drop", "byz-add-member", "byz-add-outsider", "byz-power", "byz-addr",
	"hdr-field-noresign", "hdr-derived-field-resign", "hdr-free-field-resign", "round-noresign", "round-resign",
	"foreign-chain-block", "foreign-chain-block", "foreign-chain-header-signed-here", "signed-for-foreign-chain",
	"commit-height", "commit-psh", "sig-corrupt", "sig-corrupt", "sig-ts", "sig-flag-nil", "sig-flag-absent",
	"sig-addr", "valset-power", "valset-drop", "same-as-canonical", "lunatic-at-common", "alias-frame",
}

func nonAbsent(cm *types.Commit) []int {
	var idx []int
	for i, s := range cm.Signatures {
		if s.BlockIDFlag != types.BlockIDFlagAbsent {
			idx = append(idx, i)
		}
	}
	return idx
}

func (w *world) perturbLCA(t *rapid.T, gen *types.LightClientAttackEvidence, ctx lcaCtx) (types.Evidence, string) {
	kind := rapid.SampledFrom(lcaPerts).Draw(t, "lca.pert")
	if ctx.valsMode == "repeated" && (kind == "valset-drop" || kind == "alias-frame" || kind == "sig-addr") {
		return cloneLCA(gen), kind + "(n/a)" // these rebuild the forged set with the duplicate-refusing constructor
	}
	e := cloneLCA(gen)
	cm := e.ConflictingBlock.Commit
	na := "(n/a)"
	reforge := func(edit func(sp *lib.AttackSpec)) (types.Evidence, bool) {
		sp := ctx.spec
		edit(&sp)
		lb, err := w.c.ForgeConflictingBlock(sp)
		if err != nil {
			return nil, false
		}
		// keep the ABCI fields of the genuine evidence: only the conflicting block changes
		ne := cloneLCA(gen)
		ne.ConflictingBlock = lb
		return ne, true
	}
	switch kind {
	case "common-1":
		e.CommonHeight--
	case "common+1":
		e.CommonHeight++
	case "reanchor":
		// consistently anchored at another common height (time, total power, byzantine list recomputed)
		h2 := w.pickHeight(t, "lca.h2", 1, w.tip())
		ne, err := w.c.AttackEvidence(e.ConflictingBlock, h2, ctx.spec.Shape)
		if err != nil {
			return e, kind + na
		}
		return ne, kind
	case "ev-ts-ns":
		e.Timestamp = e.Timestamp.Add(time.Duration(rapid.SampledFrom([]int{-1, 1}).Draw(t, "dns")))
	case "ev-ts-other-height":
		if tm, ok := w.timeAt(e.CommonHeight + rapid.SampledFrom([]int64{-1, 1}).Draw(t, "doh")); ok {
			e.Timestamp = tm
		} else {
			e.Timestamp = e.Timestamp.Add(time.Second)
		}
	case "total":
		e.TotalVotingPower += rapid.SampledFrom([]int64{-1, 1}).Draw(t, "dp")
	case "byz-swap":
		if len(e.ByzantineValidators) < 2 {
			return e, kind + na
		}
		i := rapid.IntRange(0, len(e.ByzantineValidators)-2).Draw(t, "swapidx")
		e.ByzantineValidators[i], e.ByzantineValidators[i+1] = e.ByzantineValidators[i+1], e.ByzantineValidators[i]
	case "byz-drop":
		if len(e.ByzantineValidators) == 0 {
			return e, kind + na
		}
		i := rapid.IntRange(0, len(e.ByzantineValidators)-1).Draw(t, "dropidx")
		e.ByzantineValidators = append(e.ByzantineValidators[:i:i], e.ByzantineValidators[i+1:]...)
	case "byz-add-member", "byz-add-outsider":
		var add *types.Validator
		if kind == "byz-add-outsider" {
			add = types.NewValidator(lib.Key(outsiderKey).PubKey(), rapid.Int64Range(1, 10).Draw(t, "op"))
		} else if cv := w.c.ValidatorsAt(e.CommonHeight); cv != nil {
			for _, v := range cv.Validators {
				listed := false
				for _, b := range e.ByzantineValidators {
					if string(b.Address) == string(v.Address) {
						listed = true
					}
				}
				if !listed {
					add = v.Copy()
				}
			}
		}
		if add == nil {
			return e, kind + na
		}
		e.ByzantineValidators = append(e.ByzantineValidators, add)
		if rapid.Bool().Draw(t, "resort") {
			lib.SortByPower(e.ByzantineValidators)
		}
	case "byz-power":
		if len(e.ByzantineValidators) == 0 {
			return e, kind + na
		}
		e.ByzantineValidators[rapid.IntRange(0, len(e.ByzantineValidators)-1).Draw(t, "bpi")].VotingPower += rapid.SampledFrom([]int64{-1, 1}).Draw(t, "dp")
	case "byz-addr":
		if len(e.ByzantineValidators) == 0 {
			return e, kind + na
		}
		e.ByzantineValidators[rapid.IntRange(0, len(e.ByzantineValidators)-1).Draw(t, "bai")].Address = lib.Key(outsiderKey).PubKey().Address()
	case "hdr-field-noresign":
		h := e.ConflictingBlock.Header
		switch rapid.SampledFrom([]string{"app", "data", "time", "height", "proposer", "chainid"}).Draw(t, "hf") {
		case "chainid":
			h.ChainID += "x"
		case "app":
			h.AppHash = append(h.AppHash, 1)
		case "data":
			h.DataHash = lib.ForgeBlockID("d").Hash
		case "time":
			h.Time = h.Time.Add(time.Nanosecond)
		case "height":
			h.Height++
		case "proposer":
			h.ProposerAddress = lib.Key(outsiderKey).PubKey().Address()
		}
	case "hdr-derived-field-resign":
		// one of the five derived hashes is forged too (an equivocation/amnesia block turns lunatic)
		f := rapid.SampledFrom([]string{"app", "results", "consensus", "nextvals"}).Draw(t, "df")
		ne, ok := reforge(func(sp *lib.AttackSpec) {
			sp.Mutate = func(h *types.Header) {
				x := lib.ForgeBlockID("derived-" + f).Hash
				switch f {
				case "app":
					h.AppHash = x
				case "results":
					h.LastResultsHash = x
				case "consensus":
					h.ConsensusHash = x
				case "nextvals":
					h.NextValidatorsHash = x
				}
			}
		})
		if !ok {
			return e, kind + na
		}
		return ne, kind
	case "hdr-free-field-resign":
		// a field outside the five derived hashes changes and the coalition signs the result: another genuine attack
		f := rapid.SampledFrom([]string{"time", "proposer", "evidence", "lastcommit"}).Draw(t, "ff")
		ne, ok := reforge(func(sp *lib.AttackSpec) {
			sp.Mutate = func(h *types.Header) {
				switch f {
				case "time":
					h.Time = h.Time.Add(-time.Millisecond)
				case "proposer":
					h.ProposerAddress = lib.Key(outsiderKey).PubKey().Address()
				case "evidence":
					h.EvidenceHash = lib.ForgeBlockID("e").Hash
				case "lastcommit":
					h.LastCommitHash = lib.ForgeBlockID("l").Hash
				}
			}
		})
		if !ok {
			return e, kind + na
		}
		return ne, kind
	case "foreign-chain-block", "foreign-chain-header-signed-here", "signed-for-foreign-chain":
		// the same keys also validate another chain (testnet, the chain before a fork that renamed it):
		//  - a block of that chain, genuinely signed for it, presented as an attack on this chain;
		//  - a header naming that chain but signed as a vote of this chain;
		//  - this chain's forged header with signatures that were made for the other chain.
		other := rapid.SampledFrom([]string{w.chainID + "-2", "other-net", "v"}).Draw(t, "otherchain")
		hh := *gen.ConflictingBlock.Header
		signFor := other
		if kind != "signed-for-foreign-chain" {
			hh.ChainID = other
		}
		if kind == "foreign-chain-header-signed-here" {
			signFor = w.chainID
		}
		e.ConflictingBlock = lib.ForgeLightBlock(signFor, hh, gen.ConflictingBlock.ValidatorSet, false, gen.ConflictingBlock.Commit.Round,
			ctx.spec.Signers, ctx.spec.NilSigners)
	case "round-noresign":
		cm.Round++
	case "round-resign":
		// the forged commit moves to / away from the canonical round: equivocation <-> amnesia with stale ABCI fields
		base := ctx.spec.ConflictHeight
		if base > w.tip() {
			return e, kind + na
		}
		canon := w.c.Commits[base].Round
		sp := ctx.spec
		lbspec := sp
		if cm.Round == canon {
			lbspec.Round = canon + 1
		} else {
			lbspec.Round = canon
		}
		// build by hand: ForgeConflictingBlock would force the shape's round
		hh := *gen.ConflictingBlock.Header
		lb := lib.ForgeLightBlock(w.chainID, hh, gen.ConflictingBlock.ValidatorSet, false, lbspec.Round, sp.Signers, sp.NilSigners)
		e.ConflictingBlock = lb
	case "commit-height":
		cm.Height++
	case "commit-psh":
		cm.BlockID.PartSetHeader.Total++
	case "sig-corrupt", "sig-ts", "sig-flag-nil", "sig-flag-absent", "sig-addr":
		idx := nonAbsent(cm)
		if len(idx) == 0 {
			return e, kind + na
		}
		i := rapid.SampledFrom(idx).Draw(t, "sigidx")
		s := &cm.Signatures[i]
		switch kind {
		case "sig-corrupt":
			s.Signature[rapid.IntRange(0, len(s.Signature)-1).Draw(t, "sigbyte")] ^= 1 << uint(rapid.IntRange(0, 7).Draw(t, "sigbit"))
		case "sig-ts":
			s.Timestamp = s.Timestamp.Add(time.Nanosecond)
		case "sig-flag-nil":
			if s.BlockIDFlag == types.BlockIDFlagNil {
				s.BlockIDFlag = types.BlockIDFlagCommit
			} else {
				s.BlockIDFlag = types.BlockIDFlagNil
			}
		case "sig-flag-absent":
			*s = types.NewCommitSigAbsent()
		case "sig-addr":
			vs := e.ConflictingBlock.ValidatorSet
			o := outsiderKey
			if rapid.Bool().Draw(t, "addr-member") {
				o = otherMember(t, vs, lib.KeyIndex(s.ValidatorAddress))
			}
			s.ValidatorAddress = lib.Key(o).PubKey().Address()
		}
	case "valset-power":
		vs := e.ConflictingBlock.ValidatorSet
		vs.Validators[rapid.IntRange(0, vs.Size()-1).Draw(t, "vpi")].VotingPower++
	case "valset-drop":
		vs := e.ConflictingBlock.ValidatorSet
		if vs.Size() < 2 {
			return e, kind + na
		}
		ks, ps := []int{}, []int64{}
		drop := rapid.IntRange(0, vs.Size()-1).Draw(t, "vdi")
		for i, v := range vs.Validators {
			if i != drop {
				ks = append(ks, lib.KeyIndex(v.Address))
				ps = append(ps, v.VotingPower)
			}
		}
		e.ConflictingBlock.ValidatorSet = lib.NewValSet(ks, ps).Set
	case "same-as-canonical":
		h := ctx.spec.ConflictHeight
		if h >= w.tip() {
			return e, kind + na
		}
		lb := w.c.LightBlock(h)
		// the canonical commit FOR block h as stored next to block h+1
		lb.SignedHeader.Commit = w.c.Blocks[h+1].LastCommit
		ne, err := w.c.AttackEvidence(lb, h, lib.Equivocation)
		if err != nil {
			return e, kind + na
		}
		return ne, kind
	case "lunatic-at-common":
		if ctx.spec.Shape != lib.Lunatic || ctx.spec.ConflictHeight > w.tip() {
			return e, kind + na
		}
		ne, err := w.c.AttackEvidence(e.ConflictingBlock, ctx.spec.ConflictHeight, lib.Lunatic)
		if err != nil {
			return e, kind + na
		}
		return ne, kind
	case "alias-frame":
		// lunatic attack whose forged set contains an entry with the coalition's key but the ADDRESS of an innocent
		// member of the common set: the commit slot verifies by index, and the address points at the innocent one.
		if ctx.spec.Shape != lib.Lunatic {
			return e, kind + na
		}
		common := w.c.ValidatorsAt(ctx.spec.CommonHeight)
		var innocent *types.Validator
		for _, v := range common.Validators {
			k := lib.KeyIndex(v.Address)
			in := false
			for _, s := range ctx.spec.Signers {
				if s == k {
					in = true
				}
			}
			if !in && lib.ValIndexOf(gen.ConflictingBlock.ValidatorSet, k) < 0 {
				innocent = v
			}
		}
		if innocent == nil {
			return e, kind + na
		}
		// forged set: the genuine forged set + one low-power alias entry (sorted last among equal powers or not —
		// position is whatever the set's ordering gives)
		old := gen.ConflictingBlock.ValidatorSet
		vals := make([]*types.Validator, 0, old.Size()+1)
		for _, v := range old.Validators {
			vals = append(vals, types.NewValidator(v.PubKey, v.VotingPower))
		}
		alias := types.NewValidator(lib.Key(phantomKeyLo+5).PubKey(), 1)
		alias.Address = append([]byte(nil), innocent.Address...)
		vals = append(vals, alias)
		nvs := types.NewValidatorSet(vals)
		hh := *gen.ConflictingBlock.Header
		hh.ValidatorsHash = nvs.Hash()
		id := types.BlockID{Hash: hh.Hash(), PartSetHeader: types.PartSetHeader{Total: 1, Hash: lib.ForgeBlockID("alias").Hash}}
		sigs := make([]types.CommitSig, nvs.Size())
		for i, v := range nvs.Validators {
			signer := -1
			if string(v.Address) == string(innocent.Address) {
				signer = phantomKeyLo + 5
			} else if k := lib.KeyIndex(v.Address); k >= 0 {
				for _, s := range ctx.spec.Signers {
					if s == k {
						signer = k
					}
				}
			}
			if signer < 0 {
				sigs[i] = types.NewCommitSigAbsent()
				continue
			}
			ts := hh.Time.Add(time.Second)
			vote := &types.Vote{Type: tmproto.PrecommitType, Height: hh.Height, Round: 0, BlockID: id, Timestamp: ts,
				ValidatorAddress: v.Address, ValidatorIndex: int32(i)}
			lib.SignVote(w.chainID, signer, vote)
			sigs[i] = types.CommitSig{BlockIDFlag: types.BlockIDFlagCommit, ValidatorAddress: v.Address, Timestamp: ts, Signature: vote.Signature}
		}
		lb := &types.LightBlock{SignedHeader: &types.SignedHeader{Header: &hh, Commit: types.NewCommit(hh.Height, 0, id, sigs)}, ValidatorSet: nvs}
		ne, err := w.c.AttackEvidence(lb, ctx.spec.CommonHeight, lib.Lunatic) // lists the innocent one (by address)
		if err != nil {
			return e, kind + na
		}
		return ne, kind
	}
	return e, kind
}

// genItem draws one piece of evidence: genuine (as forged) or a single-field perturbation of a genuine one.
func (w *world) genItem(t *rapid.T) item {
	isDVE := rapid.Bool().Draw(t, "isDVE")
	perturb := rapid.IntRange(0, 9).Draw(t, "perturb") < 6
	if isDVE {
		ev, ctx := w.genDVE(t)
		if !perturb {
			return item{ev: ev, kind: "dve", pert: "none"}
		}
		pe, label := w.perturbDVE(t, ev, ctx)
		return item{ev: pe, kind: "dve", pert: label, base: w.ref(ev).v == vValid}
	}
	ev, ctx := w.genLCA(t)
	kind := string(ctx.spec.Shape)
	if ctx.spec.ConflictHeight > w.tip() {
		kind = "lunatic-forward"
	}
	if !perturb {
		return item{ev: ev, kind: kind, pert: "none:" + ctx.coalMode + ":" + ctx.valsMode}
	}
	pe, label := w.perturbLCA(t, ev, ctx)
	return item{ev: pe, kind: kind, pert: label, base: w.ref(ev).v == vValid}
}

// ---------------------------------------------------------------------------------------------------------------
// hostile encoder

// forgeUnhashed edits an encoded piece of evidence the way a hostile peer / proposer can without changing anything
// a hash or a signature covers and without making the message undecodable: the redundant total voting power of the
// conflicting validator set, proposer priorities, the set's proposer entry, public keys in the byzantine list.
// The reference verifier reads none of these fields, so its verdict for the decoded evidence is the verdict for the
// original.
func forgeUnhashed(t *rapid.T, pb *tmproto.Evidence) {
	l := pb.GetLightClientAttackEvidence()
	if l == nil || l.ConflictingBlock == nil || l.ConflictingBlock.ValidatorSet == nil {
		return // duplicate-vote evidence has no field outside its hash
	}
	vs := l.ConflictingBlock.ValidatorSet
	var real int64
	for _, v := range vs.Validators {
		if v != nil {
			real += v.VotingPower
		}
	}
	prio := func(label string) int64 {
		return rapid.SampledFrom([]int64{0, 1, -1, 1 << 40, -(1 << 40), 1<<63 - 1, -1 << 63}).Draw(t, label)
	}
	switch rapid.SampledFrom([]string{"one", "small", "below", "above", "huge", "negative", "keep"}).Draw(t, "forged-total") {
	case "one":
		vs.TotalVotingPower = 1
	case "small":
		vs.TotalVotingPower = rapid.Int64Range(1, real+1).Draw(t, "forged-total-v")
	case "below":
		vs.TotalVotingPower = real - 1
	case "above":
		vs.TotalVotingPower = real + 1
	case "huge":
		vs.TotalVotingPower = 1<<63 - 1
	case "negative":
		vs.TotalVotingPower = -rapid.Int64Range(1, 100).Draw(t, "forged-total-v")
	}
	for _, v := range vs.Validators {
		if v != nil && rapid.Bool().Draw(t, "forge-prio") {
			v.ProposerPriority = prio("prio")
		}
	}
	if n := len(vs.Validators); n > 0 && rapid.Bool().Draw(t, "forge-proposer") {
		cp := *vs.Validators[rapid.IntRange(0, n-1).Draw(t, "proposer")]
		cp.ProposerPriority = prio("proposer-prio")
		vs.Proposer = &cp
	}
	for _, v := range l.ByzantineValidators {
		if v == nil {
			continue
		}
		if rapid.Bool().Draw(t, "forge-byz-prio") {
			v.ProposerPriority = prio("byz-prio")
		}
		if n := len(vs.Validators); n > 0 && rapid.IntRange(0, 3).Draw(t, "forge-byz-key") == 0 {
			v.PubKey = vs.Validators[rapid.IntRange(0, n-1).Draw(t, "byz-key")].PubKey
		}
	}
}

var forms = []string{"direct", "wire", "wire", "wire-hostile", "wire-hostile"}
