package c11

// TestInterleaving — AddEvidence runs on one goroutine per peer (evidence reactor) while consensus validates and
// commits blocks (CheckEvidence / Update) on its own goroutine. This test drives those calls through the real pool
// under a generated schedule: every call of Pool.verify into the block store (LoadBlockMeta) is a yield point at which
// the calling goroutine parks until the scheduler resumes it, so the interleavings are chosen by rapid draws, one
// goroutine runs at a time, and a failing schedule replays. Oracle: only what must hold after ANY interleaving —
// nothing committed is pending, listed or accepted again, Size() equals the number of pending items, no evidence is
// pending or broadcast twice.

import (
	"bytes"
	"fmt"
	"runtime"
	"strconv"
	"strings"
	"sync"
	"testing"
	"time"

	dbm "github.com/tendermint/tm-db"

	"github.com/tendermint/tendermint/evidence"
	"github.com/tendermint/tendermint/types"
	"pgregory.net/rapid"

	"verif/lib"
)

func goid() int64 {
	var buf [64]byte
	n := runtime.Stack(buf[:], false)
	f := bytes.Fields(buf[:n])
	id, _ := strconv.ParseInt(string(f[1]), 10, 64)
	return id
}

type actor struct {
	name   string
	fn     func()
	parked chan struct{}
	resume chan struct{}
	done   chan struct{}
	state  string // new | parked | blocked | done
	panicv interface{}
}

type sched struct {
	mu     sync.Mutex
	byGoid map[int64]*actor
}

// yield is called on an actor's goroutine from inside the pool.
func (s *sched) yield() {
	s.mu.Lock()
	a := s.byGoid[goid()]
	s.mu.Unlock()
	if a == nil {
		return // the scheduler's own goroutine (oracle calls)
	}
	a.parked <- struct{}{}
	<-a.resume
}

type yieldingStore struct {
	evidence.BlockStore
	s *sched
}

func (y yieldingStore) LoadBlockMeta(h int64) *types.BlockMeta {
	y.s.yield()
	return y.BlockStore.LoadBlockMeta(h)
}

// run lets a make one step: start or resume it, then wait until it parks again, finishes, or turns out to be blocked
// on a lock held by a parked actor (no progress for a short while; it will continue on its own later).
func (s *sched) run(a *actor) {
	switch a.state {
	case "new":
		ready := make(chan struct{})
		go func() {
			defer close(a.done)
			defer func() { a.panicv = recover() }()
			s.mu.Lock()
			s.byGoid[goid()] = a
			s.mu.Unlock()
			close(ready)
			a.fn()
		}()
		<-ready
	case "parked":
		a.resume <- struct{}{}
	}
	s.wait(a, 25*time.Millisecond)
}

func (s *sched) wait(a *actor, d time.Duration) {
	select {
	case <-a.parked:
		a.state = "parked"
	case <-a.done:
		a.state = "done"
	case <-time.After(d):
		a.state = "blocked"
	}
}

// progress polls the blocked actors until one of them has parked or finished.
func (s *sched) progress(actors []*actor, max time.Duration) bool {
	for deadline := time.Now().Add(max); time.Now().Before(deadline); {
		for _, a := range actors {
			if a.state == "blocked" {
				s.wait(a, time.Millisecond)
				if a.state != "blocked" {
					return true
				}
			}
		}
	}
	return false
}

func TestInterleaving(t *testing.T) {
	const name = "TestInterleaving"
	rapid.Check(t, func(t *rapid.T) {
		w := newWorld(t)
		defer w.c.Close()
		s := &sched{byGoid: map[int64]*actor{}}
		pool, err := evidence.NewPool(dbm.NewMemDB(), w.c.StateStore, yieldingStore{w.c.BlockStore, s})
		if err != nil {
			t.Fatalf("VERIF-INFRA: %v", err)
		}
		w.c.SetEvidencePool(pool)
		for i, n := 0, rapid.IntRange(3, 5).Draw(t, "prefix"); i < n; i++ {
			if err := w.advance(w.genPlan(t)); err != nil {
				t.Fatalf("VERIF-INFRA: %v", err)
			}
		}
		committed := map[string]types.Evidence{}
		var log []string
		races, commits := 0, 0
		for round, rounds := 0, rapid.IntRange(1, 3).Draw(t, "rounds"); round < rounds; round++ {
			// a few pieces of valid evidence that peers gossip and a proposer may include
			var pieces []types.Evidence
			for try := 0; try < 8 && len(pieces) < 3; try++ {
				it := w.genItem(t)
				ev, err := present(t, it.ev, "wire")
				if err != nil || w.ref(ev).v != vValid || committed[string(ev.Hash())] != nil {
					continue
				}
				pieces = append(pieces, ev)
			}
			if len(pieces) == 0 {
				continue
			}
			var actors []*actor
			mk := func(n string, fn func()) {
				actors = append(actors, &actor{name: n, fn: fn, parked: make(chan struct{}), resume: make(chan struct{}), done: make(chan struct{}), state: "new"})
			}
			for i, n := 0, rapid.IntRange(1, 3).Draw(t, "peers"); i < n; i++ {
				ev := rapid.SampledFrom(pieces).Draw(t, "gossiped")
				mk(fmt.Sprintf("peer%d:add#%X", i, ev.Hash()[:3]), func() { _ = pool.AddEvidence(ev) })
			}
			if rapid.IntRange(0, 3).Draw(t, "block") != 0 {
				var list types.EvidenceList
				var lm []*mItem
				for _, ev := range pieces {
					if rapid.Bool().Draw(t, "inblock") {
						lm = append(lm, &mItem{ev: ev})
					}
				}
				for _, x := range fitBytes(lm, w.maxBytes) {
					list = append(list, x.ev)
				}
				plan := w.genPlan(t)
				mk(fmt.Sprintf("consensus:block(%d items)", len(list)), func() {
					if len(list) > 0 && pool.CheckEvidence(list) != nil {
						list = nil // the proposal is rejected; an empty block is decided instead
					}
					plan.Evidence = list
					if err := w.advance(plan); err != nil {
						panic(fmt.Sprintf("VERIF-INFRA: ApplyBlock: %v", err))
					}
					for _, ev := range list {
						committed[string(ev.Hash())] = ev
					}
					if len(list) > 0 {
						commits++
					}
				})
			}
			// generated schedule
			for {
				var runnable []*actor
				live := 0
				for _, a := range actors {
					if a.state == "new" || a.state == "parked" {
						runnable = append(runnable, a)
					}
					if a.state != "done" {
						live++
					}
				}
				if live == 0 {
					break
				}
				if len(runnable) == 0 {
					// everybody left is blocked on a lock; its holder is one of them that has meanwhile got it and runs or
					// has parked: wait until somebody's state changes
					if !s.progress(actors, 5*time.Second) {
						t.Fatalf("VERIF-INFRA: no actor makes progress (deadlock?)\n%s", strings.Join(log, "\n"))
					}
					continue
				}
				a := runnable[rapid.IntRange(0, len(runnable)-1).Draw(t, "next")]
				s.run(a)
				log = append(log, fmt.Sprintf("round %d: %s -> %s", round, a.name, a.state))
				if a.state == "parked" && live > 1 {
					races++
				}
				// an actor that was blocked may have moved on meanwhile
				for _, b := range actors {
					if b.state == "blocked" {
						s.wait(b, time.Millisecond)
					}
				}
			}
			for _, a := range actors {
				if a.panicv != nil {
					t.Fatalf("%s panicked: %v\n%s", a.name, a.panicv, strings.Join(log, "\n"))
				}
			}
			// what must hold after any interleaving
			fail := func(f string, args ...interface{}) {
				msg := fmt.Sprintf(f, args...)
				if tolerate(kfRace) {
					return
				}
				t.Fatalf("%s\nschedule:\n  %s", msg, strings.Join(log, "\n  "))
			}
			pend, _ := pool.PendingEvidence(-1)
			seen := map[string]bool{}
			for _, e := range pend {
				h := string(e.Hash())
				if seen[h] {
					fail("the same evidence is pending twice: %s", describeEv(e))
				}
				seen[h] = true
				if committed[h] != nil {
					fail("evidence is committed AND pending (it will be proposed again): %s", describeEv(e))
				}
			}
			if int(pool.Size()) != len(pend) {
				fail("Size()=%d but %d items are pending", pool.Size(), len(pend))
			}
			inList := map[string]bool{}
			for e := pool.EvidenceFront(); e != nil; e = e.Next() {
				h := string(e.Value.(types.Evidence).Hash())
				if inList[h] || !seen[h] {
					fail("broadcast list carries evidence that is not pending (or twice): %s", describeEv(e.Value.(types.Evidence)))
				}
				inList[h] = true
			}
			for _, ev := range committed {
				if pool.CheckEvidence(types.EvidenceList{ev}) == nil {
					fail("committed evidence is accepted in another block: %s", describeEv(ev))
				}
			}
		}
		lib.Case(name, lib.FP(strings.Join(log, ";")), races > 0 && commits > 0, fmt.Sprintf("yields-with-others-live:%d", min(races, 3)),
			fmt.Sprintf("commits:%d", min(commits, 2)))
	})
}

// drive runs the actors in the given order of steps (indices into actors; steps naming an actor that cannot run are
// skipped), then lets everybody finish. Used by the library-free replays below.
func drive(t *testing.T, s *sched, actors []*actor, order []int) {
	t.Helper()
	step := func(a *actor) {
		if a.state == "new" || a.state == "parked" {
			s.run(a)
		}
		for _, b := range actors {
			if b.state == "blocked" {
				s.wait(b, time.Millisecond)
			}
		}
	}
	for _, i := range order {
		step(actors[i])
	}
	for guard := 0; guard < 20000; guard++ {
		live := false
		for _, a := range actors {
			switch a.state {
			case "new", "parked":
				step(a)
				live = true
			case "blocked":
				s.wait(a, time.Millisecond)
				live = true
			}
		}
		if !live {
			break
		}
	}
	for _, a := range actors {
		if a.state != "done" {
			t.Fatalf("VERIF-INFRA: %s did not finish (%s)", a.name, a.state)
		}
		if a.panicv != nil {
			t.Fatalf("%s panicked: %v", a.name, a.panicv)
		}
	}
}

func newActor(n string, fn func()) *actor {
	return &actor{name: n, fn: fn, parked: make(chan struct{}), resume: make(chan struct{}), done: make(chan struct{}), state: "new"}
}

func raceFixture(t *testing.T) (*lib.Chain, *evidence.Pool, *sched) {
	t.Helper()
	p := types.DefaultConsensusParams()
	p.Evidence.MaxAgeNumBlocks, p.Evidence.MaxAgeDuration = 10, time.Hour
	c, err := lib.NewChain(lib.ChainSpec{Keys: []int{0, 1, 2, 3}, Powers: []int64{10, 10, 10, 10}, Params: p})
	if err != nil {
		t.Fatalf("VERIF-INFRA: %v", err)
	}
	t.Cleanup(c.Close)
	s := &sched{byGoid: map[int64]*actor{}}
	pool, err := evidence.NewPool(dbm.NewMemDB(), c.StateStore, yieldingStore{c.BlockStore, s})
	if err != nil {
		t.Fatalf("VERIF-INFRA: %v", err)
	}
	c.SetEvidencePool(pool)
	for i := 0; i < 3; i++ {
		if err := c.Advance(nil); err != nil {
			t.Fatalf("VERIF-INFRA: %v", err)
		}
	}
	return c, pool, s
}

// Two peers deliver the same evidence at the same time: both pass the "already pending?" check before either has
// written it.
func TestRegressConcurrentAddCountsTwice(t *testing.T) {
	const name = "TestRegressConcurrentAddCountsTwice"
	c, pool, s := raceFixture(t)
	ev, err := c.DuplicateVote(1, 2, 2, 0, lib.ForgeBlockID("a"), lib.ForgeBlockID("b"))
	if err != nil {
		t.Fatal(err)
	}
	a := newActor("peer A", func() { _ = pool.AddEvidence(ev) })
	b := newActor("peer B", func() { _ = pool.AddEvidence(ev) })
	drive(t, s, []*actor{a, b}, []int{0, 1}) // A parks inside verify, B starts
	pend, _ := pool.PendingEvidence(-1)
	n := 0
	for e := pool.EvidenceFront(); e != nil; e = e.Next() {
		n++
	}
	if int(pool.Size()) != len(pend) || n != len(pend) {
		report(t, name, kfRace, "the same evidence from two peers at once: Size()="+itoa(int(pool.Size()))+", broadcast list holds "+itoa(n)+
			", pending items: "+itoa(len(pend)))
		return
	}
	lib.Case(name, lib.FP(1), true)
}

// A peer's AddEvidence(E) is still verifying E when the block carrying E is validated and committed.
func TestRegressAddRacesWithCommit(t *testing.T) {
	const name = "TestRegressAddRacesWithCommit"
	c, pool, s := raceFixture(t)
	ev, err := c.DuplicateVote(1, 2, 2, 0, lib.ForgeBlockID("a"), lib.ForgeBlockID("b"))
	if err != nil {
		t.Fatal(err)
	}
	peer := newActor("peer", func() { _ = pool.AddEvidence(ev) })
	cons := newActor("consensus", func() {
		if err := pool.CheckEvidence(types.EvidenceList{ev}); err != nil {
			panic(err)
		}
		if err := c.Advance(&lib.HeightPlan{Evidence: types.EvidenceList{ev}}); err != nil {
			panic(err)
		}
	})
	drive(t, s, []*actor{peer, cons}, []int{0, 1, 1, 1}) // peer parks inside verify; consensus validates and commits
	pend, _ := pool.PendingEvidence(-1)
	errC := pool.CheckEvidence(types.EvidenceList{ev})
	if len(pend) != 0 || errC == nil {
		report(t, name, kfRace, "evidence committed in block 4 while a peer's AddEvidence was verifying it: pending afterwards="+itoa(len(pend))+
			", accepted in another block: CheckEvidence err="+short(errC))
		return
	}
	lib.Case(name, lib.FP(1), true)
}
