package c11

// Library-free (no rapid) replays of the defects the generated search found in evidence/ (tendermint v0.34.24).
// Each fails on the defect; if the finding is listed as "known" in /verif/known_findings.json it is recorded as
// re-observed instead.

import (
	"strconv"
	"strings"
	"testing"
	"time"

	dbm "github.com/tendermint/tm-db"

	"github.com/tendermint/tendermint/evidence"
	tmproto "github.com/tendermint/tendermint/proto/tendermint/types"
	sm "github.com/tendermint/tendermint/state"
	"github.com/tendermint/tendermint/types"

	"verif/lib"
)

type fixture struct {
	c    *lib.Chain
	pool *evidence.Pool
}

// newFixture: 4 validators of power 10, a pool on the chain's stores, `heights` blocks one second apart.
func newFixture(t *testing.T, heights int, maxAgeBlocks int64, maxAgeDur time.Duration) *fixture {
	t.Helper()
	p := types.DefaultConsensusParams()
	p.Evidence.MaxAgeNumBlocks, p.Evidence.MaxAgeDuration = maxAgeBlocks, maxAgeDur
	c, err := lib.NewChain(lib.ChainSpec{Keys: []int{0, 1, 2, 3}, Powers: []int64{10, 10, 10, 10}, Params: p})
	if err != nil {
		t.Fatalf("VERIF-INFRA: %v", err)
	}
	t.Cleanup(c.Close)
	pool, err := evidence.NewPool(dbm.NewMemDB(), c.StateStore, c.BlockStore)
	if err != nil {
		t.Fatalf("VERIF-INFRA: %v", err)
	}
	c.SetEvidencePool(pool)
	f := &fixture{c: c, pool: pool}
	f.advance(t, heights)
	return f
}

func (f *fixture) advance(t *testing.T, n int) {
	t.Helper()
	for i := 0; i < n; i++ {
		sec := []time.Duration{time.Second, time.Second, time.Second, time.Second}
		if err := f.c.Advance(&lib.HeightPlan{TsOffsets: sec}); err != nil {
			t.Fatalf("VERIF-INFRA: %v", err)
		}
	}
}

func report(t *testing.T, name, id, msg string) {
	t.Helper()
	lib.Case(name, lib.FP(name), true)
	if lib.IsKnown(id) {
		lib.ObservedKnown(id)
		t.Logf("known finding %s re-observed: %s", id, msg)
		return
	}
	t.Fatalf("%s: %s", id, msg)
}

var all4 = []int{0, 1, 2, 3}

// Light-client-attack evidence that is already pending is re-added by CheckEvidence (block validation) and
// counted again: Size() reports more evidence than is pending, and stays > 0 after the evidence was committed.
func TestRegressSizeDrift(t *testing.T) {
	f := newFixture(t, 3, 10, time.Hour)
	ev, err := f.c.ForgeAttack(lib.AttackSpec{Shape: lib.Equivocation, ConflictHeight: 1, Signers: all4})
	if err != nil {
		t.Fatal(err)
	}
	if err := f.pool.AddEvidence(ev); err != nil {
		t.Fatalf("genuine equivocation evidence rejected: %v", err)
	}
	if err := f.pool.CheckEvidence(types.EvidenceList{ev}); err != nil { // a proposed block carries it
		t.Fatalf("block with pending evidence rejected: %v", err)
	}
	pend, _ := f.pool.PendingEvidence(-1)
	size1 := f.pool.Size()
	if err := f.c.Advance(&lib.HeightPlan{Evidence: types.EvidenceList{ev}}); err != nil { // ... and commits it
		t.Fatal(err)
	}
	pend2, _ := f.pool.PendingEvidence(-1)
	if int(size1) != len(pend) || int(f.pool.Size()) != len(pend2) {
		report(t, "TestRegressSizeDrift", kfSizeDrift, "Size()="+itoa(int(size1))+" with "+itoa(len(pend))+" pending item(s); after the commit Size()="+
			itoa(int(f.pool.Size()))+" with "+itoa(len(pend2))+" pending")
		return
	}
	lib.Case("TestRegressSizeDrift", lib.FP(1), true)
}

// Amnesia evidence names no validators. Decoded from protobuf (gossip, block parts) the empty list is non-nil and
// verification rejects it ("expected nil validators"): such evidence can never be gossiped or committed.
func TestRegressAmnesiaFromWire(t *testing.T) {
	f := newFixture(t, 3, 10, time.Hour)
	ev, err := f.c.ForgeAttack(lib.AttackSpec{Shape: lib.Amnesia, ConflictHeight: 1, Signers: all4, Round: 1})
	if err != nil {
		t.Fatal(err)
	}
	if err := f.pool.AddEvidence(ev); err != nil {
		t.Fatalf("genuine amnesia evidence (local object) rejected: %v", err)
	}
	wire, err := lib.WireEvidence(ev)
	if err != nil {
		t.Fatal(err)
	}
	p2, _ := evidence.NewPool(dbm.NewMemDB(), f.c.StateStore, f.c.BlockStore)
	errA := p2.AddEvidence(wire)
	errC := p2.CheckEvidence(types.EvidenceList{wire})
	if errA != nil || errC != nil {
		report(t, "TestRegressAmnesiaFromWire", kfAmnesia, "the same evidence after a protobuf round trip: AddEvidence: "+short(errA)+" / CheckEvidence: "+short(errC))
		return
	}
	lib.Case("TestRegressAmnesiaFromWire", lib.FP(1), true)
}

// Lunatic evidence whose conflicting commit carries a garbage signature in a slot behind the +2/3 (+1/3) prefix:
// VerifyCommitLight(Trusting) never looks at it, but the slot still puts its validator on the byzantine list, i.e.
// the pool admits (and a block may commit) evidence that punishes a validator without a valid signature of his.
func TestRegressUnverifiedSignatureNamesValidator(t *testing.T) {
	f := newFixture(t, 4, 10, time.Hour)
	ev, err := f.c.ForgeAttack(lib.AttackSpec{Shape: lib.Lunatic, CommonHeight: 1, ConflictHeight: 2, Signers: all4})
	if err != nil {
		t.Fatal(err)
	}
	if err := f.pool.CheckEvidence(types.EvidenceList{ev}); err != nil {
		t.Fatalf("genuine lunatic evidence rejected: %v", err)
	}
	bad := cloneLCA(ev)
	last := len(bad.ConflictingBlock.Commit.Signatures) - 1
	bad.ConflictingBlock.Commit.Signatures[last].Signature = make([]byte, 64) // validator #3 never signed this
	victim := bad.ConflictingBlock.ValidatorSet.Validators[last].Address
	named := false
	for _, v := range bad.ByzantineValidators {
		named = named || string(v.Address) == string(victim)
	}
	if !named {
		t.Fatal("VERIF-INFRA: fixture does not name the victim")
	}
	p2, _ := evidence.NewPool(dbm.NewMemDB(), f.c.StateStore, f.c.BlockStore)
	if err := p2.AddEvidence(bad); err == nil {
		report(t, "TestRegressUnverifiedSignatureNamesValidator", kfUnverified,
			"evidence naming a validator whose signature in the conflicting commit is 64 zero bytes was admitted")
		return
	}
	lib.Case("TestRegressUnverifiedSignatureNamesValidator", lib.FP(1), true)
}

// Pending evidence is pruned lazily (one block and one second late, later still when older evidence was added
// after the last pruning). In that window the expired evidence is still proposed (PendingEvidence) and CheckEvidence
// accepts it in a block without looking at its age, while a node that does not hold it (e.g. restarted: NewPool
// prunes eagerly) rejects the same block.
func TestRegressExpiredPendingAccepted(t *testing.T) {
	f := newFixture(t, 2, 2, time.Second)
	ev, err := f.c.DuplicateVote(0, tmproto.PrecommitType, 1, 0, lib.ForgeBlockID("a"), lib.ForgeBlockID("b"))
	if err != nil {
		t.Fatal(err)
	}
	if err := f.pool.AddEvidence(ev); err != nil {
		t.Fatalf("fresh duplicate-vote evidence rejected: %v", err)
	}
	f.advance(t, 1) // tip 3: age 2 blocks, not expired; the pool now plans its next pruning for "after height 4"
	f.advance(t, 1) // tip 4: 4-1 > 2 blocks and 3s > 1s: expired by both limits
	other, _ := evidence.NewPool(dbm.NewMemDB(), f.c.StateStore, f.c.BlockStore)
	errOther := other.CheckEvidence(types.EvidenceList{ev})
	if errOther == nil || !strings.Contains(errOther.Error(), "too old") {
		t.Fatalf("VERIF-INFRA: fixture evidence is not expired: %v", errOther)
	}
	if err := f.pool.CheckEvidence(types.EvidenceList{ev}); err == nil {
		pend, _ := f.pool.PendingEvidence(-1)
		report(t, "TestRegressExpiredPendingAccepted", kfExpired, "a block carrying evidence that expired by both limits is accepted by the node that "+
			"still holds it pending ("+itoa(len(pend))+" item(s) still offered to proposers) and rejected by a node that does not: "+short(errOther))
		return
	}
	lib.Case("TestRegressExpiredPendingAccepted", lib.FP(1), true)
}

// Forward lunatic attack (forged block above the node's tip whose time is not after a block the node has): the
// spec asks the node to judge it against its latest header, but verify() needs the canonical commit of the tip,
// which the block store only has once the next block is saved -> never admissible while it is "forward".
func TestRegressForwardLunatic(t *testing.T) {
	f := newFixture(t, 4, 10, time.Hour)
	ev, err := f.c.ForgeAttack(lib.AttackSpec{Shape: lib.Lunatic, CommonHeight: 2, ConflictHeight: 6, Signers: all4,
		Time: f.c.Blocks[3].Time})
	if err != nil {
		t.Fatal(err)
	}
	if err := f.pool.AddEvidence(ev); err != nil {
		report(t, "TestRegressForwardLunatic", kfForward, "block for height 6 dated like block 3, signed by all validators of height 2, tip 4: "+short(err))
		return
	}
	lib.Case("TestRegressForwardLunatic", lib.FP(1), true)
}

// Equivocation evidence whose conflicting commit has a slot naming an address outside the validator set (the
// address is not covered by the signature, so the slot still verifies): GetByzantineValidators appends a nil
// validator and sort panics — in the pool and in the light client's detector.
func TestRegressForeignSlotAddressPanics(t *testing.T) {
	f := newFixture(t, 3, 10, time.Hour)
	ev, err := f.c.ForgeAttack(lib.AttackSpec{Shape: lib.Equivocation, ConflictHeight: 1, Signers: all4})
	if err != nil {
		t.Fatal(err)
	}
	bad := cloneLCA(ev)
	bad.ConflictingBlock.Commit.Signatures[0].ValidatorAddress = lib.Key(outsiderKey).PubKey().Address()
	if err := bad.ValidateBasic(); err != nil {
		t.Fatalf("VERIF-INFRA: %v", err)
	}
	err, pv := guarded(func() error { return f.pool.AddEvidence(bad) })
	if pv != nil {
		report(t, "TestRegressForeignSlotAddressPanics", kfPanic, "AddEvidence panicked: "+short(panicErr{pv}))
		return
	}
	if err == nil {
		t.Fatalf("evidence with a mislabelled commit slot and the original byzantine list was admitted")
	}
	lib.Case("TestRegressForeignSlotAddressPanics", lib.FP(1), true)
}

func itoa(i int) string { return strconv.Itoa(i) }

// Deterministic scenario (no defect on the repaired tree): a node that is block-syncing / replaying applies a block
// whose evidence it never had pending — ApplyBlock calls Pool.Update without any CheckEvidence. The evidence must
// nevertheless count as committed: it is not admitted again, not accepted in a later block (alone or inside a
// list), and the same offence reported by consensus does not become pending either.
func TestScenarioCommitNeverPending(t *testing.T) {
	const name = "TestScenarioCommitNeverPending"
	f := newFixture(t, 3, 10, time.Hour)
	dve, err := f.c.DuplicateVote(1, tmproto.PrecommitType, 2, 0, lib.ForgeBlockID("a"), lib.ForgeBlockID("b"))
	if err != nil {
		t.Fatal(err)
	}
	lca, err := f.c.ForgeAttack(lib.AttackSpec{Shape: lib.Equivocation, ConflictHeight: 1, Signers: all4})
	if err != nil {
		t.Fatal(err)
	}
	other, err := f.c.DuplicateVote(2, tmproto.PrevoteType, 1, 0, lib.ForgeBlockID("c"), lib.ForgeBlockID("d"))
	if err != nil {
		t.Fatal(err)
	}
	// only another pool instance ever saw the light-client evidence
	foreign, _ := evidence.NewPool(dbm.NewMemDB(), f.c.StateStore, f.c.BlockStore)
	if err := foreign.CheckEvidence(types.EvidenceList{dve, lca}); err != nil {
		t.Fatalf("valid evidence rejected: %v", err)
	}
	if err := f.c.Advance(&lib.HeightPlan{Evidence: types.EvidenceList{dve, lca}}); err != nil { // Update only
		t.Fatal(err)
	}
	lib.Case(name, lib.FP(name), true)
	pendingHas := func(ev types.Evidence) bool {
		l, _ := f.pool.PendingEvidence(-1)
		for _, e := range l {
			if string(e.Hash()) == string(ev.Hash()) {
				return true
			}
		}
		return false
	}
	for _, ev := range []types.Evidence{dve, lca} {
		_ = f.pool.AddEvidence(ev)
		if pendingHas(ev) {
			t.Fatalf("evidence committed in block %d (never pending here) was admitted again by AddEvidence: %s", f.c.Tip(), describeEv(ev))
		}
		if err := f.pool.CheckEvidence(types.EvidenceList{ev}); err == nil {
			t.Fatalf("evidence committed in block %d (never pending here) is accepted in another block: %s", f.c.Tip(), describeEv(ev))
		}
		if err := f.pool.CheckEvidence(types.EvidenceList{other, ev}); err == nil {
			t.Fatalf("a list containing evidence committed in block %d is accepted: %s", f.c.Tip(), describeEv(ev))
		}
		if pendingHas(ev) {
			t.Fatalf("committed evidence entered the pool through CheckEvidence: %s", describeEv(ev))
		}
	}
	f.pool.ReportConflictingVotes(dve.VoteB, dve.VoteA)
	f.advance(t, 1)
	if pendingHas(dve) || int(f.pool.Size()) != 1 { // only `other` (valid, left by the rejected lists) may be pending
		l, _ := f.pool.PendingEvidence(-1)
		t.Fatalf("the committed offence became pending again after consensus reported its votes (pending=%d size=%d)", len(l), f.pool.Size())
	}
}

// Vote.ValidatorIndex is hashed but not signed: a copy of committed duplicate-vote evidence with another index is
// "new" evidence of the same two votes — admitted, accepted in a second block, punished again.
func TestRegressValidatorIndexMalleability(t *testing.T) {
	const name = "TestRegressValidatorIndexMalleability"
	f := newFixture(t, 3, 10, time.Hour)
	ev, err := f.c.DuplicateVote(2, tmproto.PrecommitType, 2, 0, lib.ForgeBlockID("a"), lib.ForgeBlockID("b"))
	if err != nil {
		t.Fatal(err)
	}
	if err := f.pool.CheckEvidence(types.EvidenceList{ev}); err != nil {
		t.Fatalf("genuine evidence rejected: %v", err)
	}
	if err := f.c.Advance(&lib.HeightPlan{Evidence: types.EvidenceList{ev}}); err != nil { // committed in block 4
		t.Fatal(err)
	}
	again := cloneDVE(ev)
	again.VoteA.ValidatorIndex += 7
	again.VoteB.ValidatorIndex += 7
	if err := again.ValidateBasic(); err != nil {
		t.Fatalf("VERIF-INFRA: %v", err)
	}
	errA := f.pool.AddEvidence(again)
	pend, _ := f.pool.PendingEvidence(-1)
	errC := f.pool.CheckEvidence(types.EvidenceList{again})
	if len(pend) != 0 || errC == nil {
		report(t, name, kfIndex, "the two votes committed as evidence in block 4, re-offered with another ValidatorIndex: AddEvidence err="+short(errA)+
			", pending="+itoa(len(pend))+"; CheckEvidence (a second block) err="+short(errC))
		return
	}
	lib.Case(name, lib.FP(1), true)
}

// The node crashes after the block (carrying evidence E, pending since the block was validated) was saved and before
// ApplyBlock reached Pool.Update. The handshake replays the block with sm.EmptyEvidencePool, the real pool is opened
// afterwards: E is still pending and carries no committed marker -> proposed again, accepted in a second block.
func TestRegressUpdateLostInCrash(t *testing.T) {
	const name = "TestRegressUpdateLostInCrash"
	p := types.DefaultConsensusParams()
	p.Evidence.MaxAgeNumBlocks, p.Evidence.MaxAgeDuration = 10, time.Hour
	c, err := lib.NewChain(lib.ChainSpec{Keys: []int{0, 1, 2, 3}, Powers: []int64{10, 10, 10, 10}, Params: p})
	if err != nil {
		t.Fatalf("VERIF-INFRA: %v", err)
	}
	defer c.Close()
	db := dbm.NewMemDB()
	pool, _ := evidence.NewPool(db, c.StateStore, c.BlockStore)
	c.SetEvidencePool(pool)
	for i := 0; i < 3; i++ {
		if err := c.Advance(nil); err != nil {
			t.Fatal(err)
		}
	}
	ev, err := c.DuplicateVote(1, tmproto.PrevoteType, 2, 0, lib.ForgeBlockID("a"), lib.ForgeBlockID("b"))
	if err != nil {
		t.Fatal(err)
	}
	if err := pool.CheckEvidence(types.EvidenceList{ev}); err != nil { // prevote: block 4 carries ev
		t.Fatal(err)
	}
	c.SetEvidencePool(sm.EmptyEvidencePool{}) // crash; handshake replay of block 4
	if err := c.Advance(&lib.HeightPlan{Evidence: types.EvidenceList{ev}}); err != nil {
		t.Fatal(err)
	}
	pool, _ = evidence.NewPool(db, c.StateStore, c.BlockStore) // node start continues
	c.SetEvidencePool(pool)
	pend, _ := pool.PendingEvidence(-1)
	errC := pool.CheckEvidence(types.EvidenceList{ev})
	if len(pend) != 0 || errC == nil {
		report(t, name, kfCrash, "evidence committed in block 4 (replayed by the handshake after a crash): still pending="+itoa(len(pend))+
			", accepted in another block: CheckEvidence err="+short(errC))
		return
	}
	lib.Case(name, lib.FP(1), true)
}

// Lunatic evidence whose forged validator set lists one validator of the common set twice (decoders accept that) and
// carries its signature in both slots: when that validator alone holds +1/3 of the common set, the double-vote check of
// VerifyCommitLightTrusting is never reached and the validator is named byzantine twice — punished twice for one block.
func TestRegressRepeatedValidatorNamedTwice(t *testing.T) {
	const name = "TestRegressRepeatedValidatorNamedTwice"
	p := types.DefaultConsensusParams()
	p.Evidence.MaxAgeNumBlocks, p.Evidence.MaxAgeDuration = 10, time.Hour
	c, err := lib.NewChain(lib.ChainSpec{Keys: []int{0, 1, 2}, Powers: []int64{10, 5, 5}, Params: p}) // key 0 holds 1/2
	if err != nil {
		t.Fatalf("VERIF-INFRA: %v", err)
	}
	defer c.Close()
	pool, _ := evidence.NewPool(dbm.NewMemDB(), c.StateStore, c.BlockStore)
	c.SetEvidencePool(pool)
	for i := 0; i < 4; i++ {
		if err := c.Advance(nil); err != nil {
			t.Fatal(err)
		}
	}
	ev, err := c.ForgeAttack(lib.AttackSpec{Shape: lib.Lunatic, CommonHeight: 1, ConflictHeight: 2, Signers: []int{0},
		ForgedVals: lib.RepeatedValSet(0, 10, 2)})
	if err != nil {
		t.Fatal(err)
	}
	wire, err := lib.WireEvidence(ev)
	if err != nil {
		if strings.Contains(err.Error(), "listed twice") {
			// since the repair of C07-repeated-member-counted-per-entry the decoder refuses the forged set already:
			// such evidence cannot even arrive
			lib.Case(name, lib.FP(2), true)
			return
		}
		t.Fatalf("VERIF-INFRA: %v", err)
	}
	errA := pool.AddEvidence(wire)
	pend, _ := pool.PendingEvidence(-1)
	if errA == nil || len(pend) != 0 {
		n := 0
		if len(pend) == 1 {
			n = len(pend[0].ABCI())
		}
		report(t, name, kfRepeated, "lunatic evidence with the validator set [v, v] and v's signature in both slots was admitted; the application would be given "+
			itoa(n)+" byzantine validator entries for one validator")
		return
	}
	lib.Case(name, lib.FP(1), true)
}

// One forged block, two admissible common heights: the evidence hash covers the common height, so after the evidence
// anchored at height 1 was committed the same block anchored at height 2 is admitted and accepted in another block —
// the signers are punished twice for one signature.
func TestRegressSameBlockOtherCommonHeight(t *testing.T) {
	const name = "TestRegressSameBlockOtherCommonHeight"
	f := newFixture(t, 6, 20, time.Hour)
	lb, err := f.c.ForgeConflictingBlock(lib.AttackSpec{Shape: lib.Lunatic, CommonHeight: 1, ConflictHeight: 4, Signers: all4})
	if err != nil {
		t.Fatal(err)
	}
	ev1, err1 := f.c.AttackEvidence(lb, 1, lib.Lunatic)
	ev2, err2 := f.c.AttackEvidence(lb, 2, lib.Lunatic)
	if err1 != nil || err2 != nil {
		t.Fatal(err1, err2)
	}
	if err := f.pool.CheckEvidence(types.EvidenceList{ev1}); err != nil {
		t.Fatalf("genuine lunatic evidence rejected: %v", err)
	}
	if err := f.c.Advance(&lib.HeightPlan{Evidence: types.EvidenceList{ev1}}); err != nil { // committed in block 7
		t.Fatal(err)
	}
	errA := f.pool.AddEvidence(ev2)
	pend, _ := f.pool.PendingEvidence(-1)
	errC := f.pool.CheckEvidence(types.EvidenceList{ev2})
	if len(pend) != 0 || errC == nil {
		report(t, name, kfReanchor, "forged block 4 committed as evidence with common height 1; the same block with common height 2: AddEvidence err="+
			short(errA)+", pending="+itoa(len(pend))+", CheckEvidence (another block) err="+short(errC))
		return
	}
	lib.Case(name, lib.FP(1), true)
}
